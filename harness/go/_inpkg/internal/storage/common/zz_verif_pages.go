//go:build verif

package common

import (
	"math/big"

	"github.com/uptrace/bun"

	"github.com/formancehq/go-libs/v5/pkg/storage/bun/paginate"

	"github.com/formancehq/ledger/internal/queries"
)

// C21 harness access to the unexported paginators (added to this package through go build -overlay).

type VerifRow struct {
	ID *big.Int `bun:"id,type:numeric"`
}

type VerifColQ struct {
	Size    uint64
	Asc     bool
	PID     *big.Int
	Bottom  *big.Int
	Reverse bool
}

type VerifOffQ struct {
	Size   uint64
	Asc    bool
	Offset uint64
}

type VerifColPage struct {
	Data       []*big.Int
	HasMore    bool
	Prev, Next *VerifColQ // decoded from the encoded cursors (round trip through cursor.go)
}

type VerifOffPage struct {
	Data       []*big.Int
	HasMore    bool
	Prev, Next *VerifOffQ
}

func verifOrder(asc bool) *paginate.Order {
	o := paginate.Order(paginate.OrderAsc)
	if !asc {
		o = paginate.Order(paginate.OrderDesc)
	}
	return &o
}

func (q VerifColQ) real() ColumnPaginatedQuery[any] {
	return ColumnPaginatedQuery[any]{
		InitialPaginatedQuery: InitialPaginatedQuery[any]{Column: "id", Order: verifOrder(q.Asc), PageSize: q.Size},
		Bottom:                q.Bottom, PaginationID: q.PID, Reverse: q.Reverse,
	}
}

func (q VerifOffQ) real() OffsetPaginatedQuery[any] {
	return OffsetPaginatedQuery[any]{
		InitialPaginatedQuery: InitialPaginatedQuery[any]{Column: "id", Order: verifOrder(q.Asc), PageSize: q.Size},
		Offset:                q.Offset,
	}
}

func verifDecodeCol(c string) (*VerifColQ, error) {
	if c == "" {
		return nil, nil
	}
	q, err := UnmarshalCursor[any](c)
	if err != nil {
		return nil, err
	}
	v := q.(ColumnPaginatedQuery[any])
	return &VerifColQ{Size: v.PageSize, Asc: *v.Order == paginate.OrderAsc, PID: v.PaginationID, Bottom: v.Bottom, Reverse: v.Reverse}, nil
}

func verifDecodeOff(c string) (*VerifOffQ, error) {
	if c == "" {
		return nil, nil
	}
	q, err := UnmarshalCursor[any](c)
	if err != nil {
		return nil, err
	}
	v := q.(OffsetPaginatedQuery[any])
	return &VerifOffQ{Size: v.PageSize, Asc: *v.Order == paginate.OrderAsc, Offset: v.Offset}, nil
}

// VerifColumnPaginate applies the real columnPaginator.Paginate to a select over a table with a numeric column id.
func VerifColumnPaginate(sb *bun.SelectQuery, q VerifColQ) (*bun.SelectQuery, error) {
	return newColumnPaginator[VerifRow, any](q.real(), "id", queries.NewTypeNumeric()).Paginate(sb)
}

// VerifColumnBuildCursor runs the real BuildCursor on rows and decodes both cursors again.
func VerifColumnBuildCursor(q VerifColQ, rows []*big.Int) (*VerifColPage, error) {
	ret := make([]VerifRow, len(rows))
	for i, r := range rows {
		ret[i] = VerifRow{ID: r}
	}
	c, err := newColumnPaginator[VerifRow, any](q.real(), "id", queries.NewTypeNumeric()).BuildCursor(ret)
	if err != nil {
		return nil, err
	}
	p := &VerifColPage{HasMore: c.HasMore}
	for _, r := range c.Data {
		p.Data = append(p.Data, r.ID)
	}
	if p.Prev, err = verifDecodeCol(c.Previous); err != nil {
		return nil, err
	}
	if p.Next, err = verifDecodeCol(c.Next); err != nil {
		return nil, err
	}
	return p, nil
}

func VerifOffsetPaginate(sb *bun.SelectQuery, q VerifOffQ) (*bun.SelectQuery, error) {
	return newOffsetPaginator[VerifRow, any](q.real()).Paginate(sb)
}

func VerifOffsetBuildCursor(q VerifOffQ, rows []*big.Int) (*VerifOffPage, error) {
	ret := make([]VerifRow, len(rows))
	for i, r := range rows {
		ret[i] = VerifRow{ID: r}
	}
	c, err := newOffsetPaginator[VerifRow, any](q.real()).BuildCursor(ret)
	if err != nil {
		return nil, err
	}
	p := &VerifOffPage{HasMore: c.HasMore}
	for _, r := range c.Data {
		p.Data = append(p.Data, r.ID)
	}
	if p.Prev, err = verifDecodeOff(c.Previous); err != nil {
		return nil, err
	}
	if p.Next, err = verifDecodeOff(c.Next); err != nil {
		return nil, err
	}
	return p, nil
}
