//go:build verif

package ledger

import (
	"fmt"
	"strings"
	"time"

	"github.com/formancehq/go-libs/v5/pkg/query"
	libtime "github.com/formancehq/go-libs/v5/pkg/types/time"

	ledger "github.com/formancehq/ledger/internal"
	"github.com/formancehq/ledger/internal/storage/common"
)

// VerifFilterWhere (verification harness, add-only, build tag verif): the WHERE fragment the REAL ResolveFilter of the
// resource handler + query.Builder.Build produce for a filter, with bun's literal inlining. Nothing is executed.
func VerifFilterWhere(store *Store, resource string, pit *time.Time, builder query.Builder) (where string, err error) {
	defer func() {
		if r := recover(); r != nil {
			err = fmt.Errorf("panic: %v", r)
		}
	}()
	var p *libtime.Time
	if pit != nil {
		p = &libtime.Time{Time: *pit}
	}
	var resolve func(operator, key string, value any) (string, []any, error)
	switch resource {
	case "tx":
		h, q := transactionsResourceHandler{store: store}, common.ResourceQuery[any]{PIT: p, Builder: builder}
		resolve = func(o, k string, v any) (string, []any, error) { return h.ResolveFilter(q, o, k, v) }
	case "acc":
		h, q := accountsResourceHandler{store: store}, common.ResourceQuery[any]{PIT: p, Builder: builder}
		resolve = func(o, k string, v any) (string, []any, error) { return h.ResolveFilter(q, o, k, v) }
	case "log":
		h, q := logsResourceHandler{store: store}, common.ResourceQuery[any]{PIT: p, Builder: builder}
		resolve = func(o, k string, v any) (string, []any, error) { return h.ResolveFilter(q, o, k, v) }
	case "vol":
		h, q := volumesResourceHandler{store: store}, common.ResourceQuery[ledger.GetVolumesOptions]{PIT: p, Builder: builder}
		resolve = func(o, k string, v any) (string, []any, error) { return h.ResolveFilter(q, o, k, v) }
	case "agg":
		h, q := aggregatedBalancesResourceRepositoryHandler{store: store}, common.ResourceQuery[ledger.GetAggregatedVolumesOptions]{PIT: p, Builder: builder}
		resolve = func(o, k string, v any) (string, []any, error) { return h.ResolveFilter(q, o, k, v) }
	default:
		return "", fmt.Errorf("unknown resource %s", resource)
	}
	w, args, err := builder.Build(query.ContextFn(func(key, operator string, value any) (string, []any, error) {
		return resolve(operator, key, value)
	}))
	if err != nil {
		return "", err
	}
	sel := store.db.NewSelect()
	if len(args) > 0 {
		sel = sel.Where(w, args...)
	} else {
		sel = sel.Where(w)
	}
	s := sel.String()
	i := strings.Index(s, "WHERE ")
	if i < 0 {
		return "", fmt.Errorf("no WHERE in %q", s)
	}
	return s[i+len("WHERE "):], nil
}

// verifWalkFilters feeds collectAddressFilters the values of the address/account leaves of a builder, in Walk order
// (what validateFilters records under the property name "address" for volumes / aggregated balances)
type verifWalkFilters struct{ values []any }

func (w verifWalkFilters) UseFilter(name string, matchers ...func(any) bool) bool {
	for _, v := range w.values {
		for _, m := range matchers {
			m(v)
		}
	}
	return len(w.values) > 0
}

// VerifPushDown: the push-down DECISION of the real code for a filter: canPushAddressFilterToLateral, and the
// addresses / needSegments the real collectAddressFilters derives from the address leaves.
func VerifPushDown(builder query.Builder) (canPush bool, needSegments bool, addresses []string, err error) {
	defer func() {
		if r := recover(); r != nil {
			err = fmt.Errorf("panic: %v", r)
		}
	}()
	var w verifWalkFilters
	if builder != nil {
		if err := builder.Walk(func(operator string, key string, value *any) error {
			if key == "address" || key == "account" {
				w.values = append(w.values, *value)
			}
			return nil
		}); err != nil {
			return false, false, nil, err
		}
	}
	addresses, needSegments = collectAddressFilters(w)
	return canPushAddressFilterToLateral(builder), needSegments, addresses, nil
}
