//go:build verif

package pgsem

import (
	"strings"
)

func (ex *Exec) recordBinding(alias string, t *Table, vals []Value) *binding {
	return &binding{alias: alias, cols: t.colNames, row: vals, tbl: t}
}

func (ex *Exec) coerceToColumn(t *Table, ci int, v Value) Value {
	if v == nil {
		return nil
	}
	typ := t.Cols[ci].Type
	nt := normType(typ)
	// already of the right dynamic type?
	if _, isU := v.(Unknown); !isU {
		if typeOf(v) == nt {
			return v
		}
		if c, ok := v.(Comp); ok {
			if _, isComp := compositeTypes[nt]; isComp {
				c.Type = nt
				return c
			}
		}
		if _, ok := v.(Arr); ok && nt == "jsonb" {
			return JSON{toJSONValue(v)}
		}
	}
	c, err := Cast(v, typ)
	if err != nil {
		panic(err)
	}
	return c
}

func (ex *Exec) fireRowTriggers(t *Table, timing, event string, newVals, oldVals []Value) []Value {
	for _, tr := range t.Triggers {
		if tr.Timing != timing || !strings.Contains(tr.Event, event) {
			continue
		}
		env := &Env{ex: ex, rels: []*binding{ex.recordBinding("new", t, newVals)}}
		if oldVals != nil {
			env.rels = append(env.rels, ex.recordBinding("old", t, oldVals))
		}
		if tr.When != nil {
			if b, known := truth(env.Eval(tr.When)); !known || !b {
				continue
			}
		}
		fn := ex.db.funcs[tr.Func]
		if fn == nil {
			panic(errf("42883", "trigger function %s does not exist", tr.Func))
		}
		ex.db.Stats["trigger:"+tr.Func]++
		ret := ex.callTrigger(fn, t, newVals, oldVals)
		if timing == "before" {
			if ret == nil {
				return nil // row skipped
			}
			newVals = ret
		}
	}
	return newVals
}

// liveConflict finds a row version conflicting with vals on unique index u, waiting for in-flight writers.
func (ex *Exec) liveConflict(t *Table, u *UniqueIdx, vals []Value, self *RowVer) *RowVer {
	env := &Env{ex: ex, rels: []*binding{ex.recordBinding(t.Name, t, vals)}}
	if u.Where != nil {
		if b, known := truth(env.Eval(u.Where)); !known || !b {
			return nil
		}
	}
	for _, ci := range u.Cols {
		if vals[ci] == nil {
			return nil // NULLs are distinct
		}
	}
	me := ex.sess.tx.id
retry:
	for _, v := range t.Rows {
		if v == self {
			continue
		}
		same := true
		for _, ci := range u.Cols {
			c, ok, err := Compare(v.Vals[ci], vals[ci])
			if err != nil || !ok || c != 0 {
				same = false
				break
			}
		}
		if !same {
			continue
		}
		if u.Where != nil {
			e2 := &Env{ex: ex, rels: []*binding{ex.recordBinding(t.Name, t, v.Vals)}}
			if b, known := truth(e2.Eval(u.Where)); !known || !b {
				continue
			}
		}
		// is this version (still) live?
		if v.Xmin != me {
			st := ex.db.tx[v.Xmin]
			if st == nil || (!st.done) {
				ex.sess.waitFor(v.Xmin)
				goto retry
			}
			if !st.committed {
				continue
			}
		}
		if v.Xmax != 0 {
			if v.Xmax == me {
				continue
			}
			st := ex.db.tx[v.Xmax]
			if !st.done {
				ex.sess.waitFor(v.Xmax)
				goto retry
			}
			if st.committed {
				continue
			}
		}
		return v
	}
	return nil
}

func (ex *Exec) insertVersion(t *Table, vals []Value) *RowVer {
	v := &RowVer{Vals: vals, Xmin: ex.sess.tx.id, Cmin: ex.cid}
	t.Rows = append(t.Rows, v)
	ex.sess.tx.undo = append(ex.sess.tx.undo, func() {
		for i := len(t.Rows) - 1; i >= 0; i-- {
			if t.Rows[i] == v {
				t.Rows = append(t.Rows[:i], t.Rows[i+1:]...)
				break
			}
		}
	})
	return v
}

// repeatableRead: does the running transaction read from one transaction-wide snapshot (13.2.2)?
func (ex *Exec) repeatableRead() bool {
	return ex.sess != nil && ex.sess.tx != nil && ex.sess.tx.iso == IsoRepeatableRead
}

// serializationFailure: REPEATABLE READ (13.2.2): UPDATE, DELETE, SELECT FOR UPDATE / FOR SHARE "will only find target rows that
// were committed as of the transaction start time.  However, such a target row might have already been updated (or deleted or
// locked) by another concurrent transaction by the time it is found.  In this case, the repeatable read transaction will wait for
// the first updating transaction to commit or roll back (if it is still in progress).  If the first updater rolls back, then its
// effects are negated and the repeatable read transaction can proceed with updating the originally found row.  But if the first
// updater commits (and actually updated or deleted the row, not just locked it) then the repeatable read transaction will be rolled
// back with the message  ERROR: could not serialize access due to concurrent update" (SQLSTATE 40001, serialization_failure).
func (ex *Exec) serializationFailure() {
	ex.db.Stats["serialization_failures"]++
	panic(errf("40001", "could not serialize access due to concurrent update"))
}

// lockRow acquires the row lock on the latest version of v; returns the version to operate on (nil if deleted).
// READ COMMITTED (13.2.1): after waiting for a concurrent updater that committed, the command goes on with the updated version of
// the row (the caller re-evaluates its WHERE on it: EvalPlanQual).  REPEATABLE READ (13.2.2): a version that a concurrent
// transaction updated or deleted and committed is a serialization failure (see serializationFailure); a concurrent transaction that
// only locked the row (FOR UPDATE: Locker), or that rolled back, lets the command proceed with the version it found.
func (ex *Exec) lockRow(v *RowVer) *RowVer {
	me := ex.sess.tx.id
	rr := ex.repeatableRead()
	for {
		for v.Next != nil && v.Xmax != 0 && v.Xmax != me && ex.db.tx[v.Xmax].done && ex.db.tx[v.Xmax].committed {
			if rr {
				ex.serializationFailure()
			}
			v = v.Next
		}
		if v.Xmax != 0 && v.Xmax != me {
			st := ex.db.tx[v.Xmax]
			if !st.done {
				ex.sess.waitFor(v.Xmax)
				continue
			}
			if st.committed {
				if rr {
					ex.serializationFailure() // updated or deleted by a transaction that committed after the snapshot
				}
				if v.Next == nil {
					return nil // deleted
				}
				v = v.Next
				continue
			}
		}
		if v.Xmax == me {
			if v.Next == nil {
				return nil
			}
			v = v.Next
			continue
		}
		if v.Locker != 0 && v.Locker != me {
			st := ex.db.tx[v.Locker]
			if !st.done {
				ex.sess.waitFor(v.Locker)
				continue
			}
			v.Locker = 0
		}
		return v
	}
}

func (ex *Exec) lockRel(rel *Rel) {
	if rel.vers == nil {
		return
	}
	me := ex.sess.tx.id
	for i, v := range rel.vers {
		lv := ex.lockRow(v)
		if lv == nil {
			continue
		}
		if lv != v {
			// the row was updated by a transaction that committed while we waited: READ COMMITTED re-reads the
			// latest version (EvalPlanQual); output columns that are plain table columns are refreshed
			for j, c := range rel.Cols {
				if ci := rel.tbl.col(c); ci >= 0 {
					rel.Rows[i][j] = lv.Vals[ci]
				}
			}
			rel.vers[i] = lv
		}
		if lv.Locker != me {
			prev := lv.Locker
			lv.Locker = me
			ex.sess.tx.undo = append(ex.sess.tx.undo, func() { lv.Locker = prev })
		}
	}
}

// readOnlyCheck: "When a transaction is read-only, the following SQL commands are disallowed: INSERT, UPDATE, DELETE, MERGE ..."
// (SQL command SET TRANSACTION): SQLSTATE 25006 read_only_sql_transaction.
func (ex *Exec) readOnlyCheck(cmd string) {
	if ex.sess != nil && ex.sess.tx != nil && ex.sess.tx.readOnly {
		panic(errf("25006", "cannot execute %s in a read-only transaction", cmd))
	}
}

func (ex *Exec) runInsert(ins *Insert, outer *Env) *Rel {
	ex.readOnlyCheck("INSERT")
	t := ex.db.table(ex.sch(ins.Table.Schema), ins.Table.Name)
	alias := ins.Table.Alias
	if alias == "" {
		alias = t.Name
	}
	cols := ins.Cols
	var colIdx []int
	if len(cols) == 0 {
		for i := range t.Cols {
			colIdx = append(colIdx, i)
		}
	} else {
		for _, c := range cols {
			i := t.col(c)
			if i < 0 {
				panic(errf("42703", "column %q of relation %q does not exist", c, t.Name))
			}
			colIdx = append(colIdx, i)
		}
	}
	// source rows
	var src [][]Value
	var isDefault [][]bool
	if ins.Sel != nil {
		rel := ex.runSelect(ins.Sel, outer)
		src = rel.Rows
	} else {
		env := &Env{parent: outer, ex: ex}
		for _, row := range ins.Values {
			vals := make([]Value, len(row))
			defs := make([]bool, len(row))
			for j, x := range row {
				if _, ok := unparen(x).(*DefaultExpr); ok {
					defs[j] = true
					continue
				}
				vals[j] = env.Eval(x)
			}
			src = append(src, vals)
			isDefault = append(isDefault, defs)
		}
	}
	out := &Rel{}
	for _, it := range ins.Returning {
		if s, ok := unparen(it.X).(*StarRef); ok && s.Table == "" {
			out.Cols = append(out.Cols, t.colNames...)
		} else {
			out.Cols = append(out.Cols, selItemName(it))
		}
	}
	insertedThisCmd := map[*RowVer]bool{}
	for ri, srow := range src {
		if len(srow) > len(colIdx) {
			panic(errf("42601", "INSERT has more expressions than target columns"))
		}
		vals := make([]Value, len(t.Cols))
		given := make([]bool, len(t.Cols))
		for j, v := range srow {
			if isDefault != nil && isDefault[ri][j] {
				continue
			}
			vals[colIdx[j]] = ex.coerceToColumn(t, colIdx[j], v)
			given[colIdx[j]] = true
		}
		for ci, c := range t.Cols {
			if !given[ci] && c.Default != nil {
				env := &Env{ex: ex}
				ci, c := ci, c
				ex.withSchema(t.Schema, func() { vals[ci] = ex.coerceToColumn(t, ci, env.Eval(c.Default)) })
			}
		}
		vals = ex.fireRowTriggers(t, "before", "insert", vals, nil)
		if vals == nil {
			continue
		}
		for ci := range vals {
			vals[ci] = ex.coerceToColumn(t, ci, vals[ci])
		}
		for ci, c := range t.Cols {
			if c.NotNull && vals[ci] == nil {
				panic(&SQLError{Code: "23502", Msg: "null value in column \"" + c.Name + "\" of relation \"" + t.Name + "\" violates not-null constraint"})
			}
		}
		// unique checks / ON CONFLICT
		var conflict *RowVer
		var conflictIdx *UniqueIdx
		for _, u := range t.Uniques {
			if c := ex.liveConflict(t, u, vals, nil); c != nil {
				arbiter := ins.Conflict != nil && (len(ins.Conflict.Cols) == 0 || sameCols(t, u, ins.Conflict.Cols))
				if !arbiter {
					panic(&SQLError{Code: "23505", Constraint: u.Name, Msg: "duplicate key value violates unique constraint \"" + u.Name + "\""})
				}
				conflict, conflictIdx = c, u
				break
			}
		}
		_ = conflictIdx
		if conflict != nil {
			// INSERT ... ON CONFLICT above READ COMMITTED: the conflicting row found through the unique index (which sees every
			// committed row, whatever the snapshot) must be visible to the transaction's snapshot, or have been written by the
			// transaction itself; otherwise 40001 "could not serialize access due to concurrent update", for DO UPDATE
			// (nodeModifyTable.c ExecOnConflictUpdate -> ExecCheckTupleVisible) and for DO NOTHING alike (ExecInsert ->
			// ExecCheckTIDVisible: "verify that the tuple is visible to the executor's MVCC snapshot at higher isolation levels").
			// 13.2.1 states the READ COMMITTED side: acting on a row whose effects are not visible to the INSERT's snapshot "is
			// only the case in Read Committed mode".
			if ex.repeatableRead() && conflict.Xmin != ex.sess.tx.id && !ex.committedBefore(conflict.Xmin) {
				ex.serializationFailure()
			}
			if ins.Conflict.Nothing {
				continue
			}
			if insertedThisCmd[conflict] {
				panic(errf("21000", "ON CONFLICT DO UPDATE command cannot affect row a second time"))
			}
			target := ex.lockRow(conflict)
			if target == nil {
				continue
			}
			env := &Env{ex: ex, parent: outer, rels: []*binding{
				{alias: alias, cols: t.colNames, row: target.Vals, tbl: t},
				{alias: "excluded", cols: t.colNames, row: vals, tbl: t}}}
			// bare column names refer to the target row
			env.rels[1] = &binding{alias: "excluded", cols: prefixCols(t.colNames), row: vals}
			exEnv := &Env{ex: ex, parent: outer, rels: []*binding{env.rels[0]}, vars: nil}
			exEnv.rels = append(exEnv.rels, &binding{alias: "excluded", cols: t.colNames, row: vals})
			evalC := func(x Expr) Value { return (&conflictEnv{target: env.rels[0], excluded: vals, t: t, ex: ex, outer: outer}).eval(x) }
			if ins.Conflict.Where != nil {
				if b, known := truth(evalC(ins.Conflict.Where)); !known || !b {
					continue
				}
			}
			nv := append([]Value{}, target.Vals...)
			for _, a := range ins.Conflict.Set {
				ci := t.col(a.Col)
				if ci < 0 {
					panic(errf("42703", "column %q does not exist", a.Col))
				}
				nv[ci] = ex.coerceToColumn(t, ci, evalC(a.X))
			}
			newVer := ex.updateVersion(t, target, nv)
			insertedThisCmd[newVer] = true
			out.nAffected++
			ex.queueAfter(t, "update", newVer.Vals, target.Vals)
			ex.appendReturning(out, ins.Returning, t, alias, newVer.Vals, nil, outer)
			continue
		}
		v := ex.insertVersion(t, vals)
		insertedThisCmd[v] = true
		out.nAffected++
		ex.queueAfter(t, "insert", vals, nil)
		ex.appendReturning(out, ins.Returning, t, alias, vals, nil, outer)
	}
	return out
}

func prefixCols(c []string) []string { return c }

// conflictEnv evaluates ON CONFLICT DO UPDATE expressions: bare/target-qualified names -> existing row, excluded.x -> proposed row
type conflictEnv struct {
	target   *binding
	excluded []Value
	t        *Table
	ex       *Exec
	outer    *Env
}

func (c *conflictEnv) eval(x Expr) Value {
	tgt := &Env{ex: c.ex, parent: c.outer, rels: []*binding{c.target}}
	inner := &Env{ex: c.ex, parent: tgt, rels: nil}
	// "excluded" only resolves when qualified: put it in a separate env level that has no bare-name columns
	exb := &binding{alias: "excluded", cols: c.t.colNames, row: c.excluded}
	return (&Env{ex: c.ex, parent: inner, rels: nil, vars: nil, out: nil}).withQualified(exb).Eval(x)
}

// withQualified returns an env in which b can be reached only as alias.col
func (e *Env) withQualified(b *binding) *Env {
	hidden := &binding{alias: b.alias, cols: b.cols, row: b.row}
	q := &Env{ex: e.ex, parent: e.parent, rels: []*binding{}, qualifiedOnly: []*binding{hidden}}
	return q
}

func sameCols(t *Table, u *UniqueIdx, cols []string) bool {
	if len(cols) != len(u.Cols) {
		return false
	}
	for _, c := range cols {
		ci := t.col(c)
		found := false
		for _, uc := range u.Cols {
			if uc == ci {
				found = true
			}
		}
		if !found {
			return false
		}
	}
	return true
}

func (ex *Exec) updateVersion(t *Table, old *RowVer, vals []Value) *RowVer {
	tx := ex.sess.tx
	nv := &RowVer{Vals: vals, Xmin: tx.id, Cmin: ex.cid}
	prevMax, prevCmax, prevNext := old.Xmax, old.Cmax, old.Next
	old.Xmax, old.Cmax, old.Next = tx.id, ex.cid, nv
	t.Rows = append(t.Rows, nv)
	tx.undo = append(tx.undo, func() {
		old.Xmax, old.Cmax, old.Next = prevMax, prevCmax, prevNext
		for i := len(t.Rows) - 1; i >= 0; i-- {
			if t.Rows[i] == nv {
				t.Rows = append(t.Rows[:i], t.Rows[i+1:]...)
				break
			}
		}
	})
	return nv
}

func (ex *Exec) queueAfter(t *Table, event string, newVals, oldVals []Value) {
	has := false
	for _, tr := range t.Triggers {
		if tr.Timing == "after" && strings.Contains(tr.Event, event) {
			has = true
		}
	}
	if !has {
		return
	}
	top := ex
	for top.parent != nil {
		top = top.parent
	}
	top.after = append(top.after, func() {
		// AFTER triggers run at the end of the statement and see its complete effects
		sub := &Exec{db: ex.db, sess: ex.sess, snap: ex.snap, cid: ex.sess.tx.cid + 1, depth: ex.depth + 1}
		ex.sess.tx.cid++
		sub.fireRowTriggers(t, "after", event, newVals, oldVals)
		for len(sub.after) > 0 {
			q := sub.after
			sub.after = nil
			for _, f := range q {
				f()
			}
		}
	})
}

func (ex *Exec) appendReturning(out *Rel, ret []SelItem, t *Table, alias string, vals []Value, extra jrow, outer *Env) {
	if len(ret) == 0 {
		return
	}
	rels := append(jrow{&binding{alias: alias, cols: t.colNames, row: vals, tbl: t}}, extra...)
	if alias != t.Name {
		rels = append(rels, &binding{alias: t.Name, cols: nil, row: nil})
	}
	env := &Env{ex: ex, parent: outer, rels: rels}
	var row []Value
	for _, it := range ret {
		if s, ok := unparen(it.X).(*StarRef); ok && s.Table == "" {
			row = append(row, vals...)
			continue
		}
		v := env.Eval(it.X)
		if u, ok := v.(Unknown); ok {
			v = string(u)
		}
		row = append(row, v)
	}
	out.Rows = append(out.Rows, row)
}

func (ex *Exec) runUpdate(u *Update, outer *Env) *Rel {
	ex.readOnlyCheck("UPDATE")
	t := ex.db.table(ex.sch(u.Table.Schema), u.Table.Name)
	alias := u.Table.Alias
	if alias == "" {
		alias = t.Name
	}
	out := &Rel{}
	for _, it := range u.Returning {
		if s, ok := unparen(it.X).(*StarRef); ok && s.Table == "" {
			out.Cols = append(out.Cols, t.colNames...)
		} else {
			out.Cols = append(out.Cols, selItemName(it))
		}
	}
	targets := ex.scanTable(t, alias)
	for _, tr := range targets {
		// join with FROM items
		combos := []jrow{tr}
		for _, it := range u.From {
			var next []jrow
			for _, left := range combos {
				rr, _ := ex.evalFrom(it, left, outer)
				for _, r := range rr {
					next = append(next, append(append(jrow{}, left...), r...))
				}
			}
			combos = next
		}
		for _, row := range combos {
			env := ex.envFor(row, outer)
			if u.Where != nil {
				if b, known := truth(env.Eval(u.Where)); !known || !b {
					continue
				}
			}
			cur := ex.lockRow(tr[0].ver)
			if cur == nil {
				break
			}
			if cur != tr[0].ver {
				// concurrent committed update: re-evaluate the qualification on the latest version
				row = append(jrow{&binding{alias: alias, cols: t.colNames, row: cur.Vals, ver: cur, tbl: t}}, row[1:]...)
				env = ex.envFor(row, outer)
				if u.Where != nil {
					if b, known := truth(env.Eval(u.Where)); !known || !b {
						break
					}
				}
			}
			nv := append([]Value{}, cur.Vals...)
			for _, a := range u.Set {
				ci := t.col(a.Col)
				if ci < 0 {
					panic(errf("42703", "column %q of relation %q does not exist", a.Col, t.Name))
				}
				nv[ci] = ex.coerceToColumn(t, ci, env.Eval(a.X))
			}
			nv2 := ex.fireRowTriggers(t, "before", "update", nv, cur.Vals)
			if nv2 == nil {
				break
			}
			for _, ui := range t.Uniques {
				changed := false
				for _, ci := range ui.Cols {
					if c, ok, _ := Compare(nv2[ci], cur.Vals[ci]); !ok || c != 0 {
						changed = true
					}
				}
				if changed {
					if c := ex.liveConflict(t, ui, nv2, cur); c != nil {
						panic(&SQLError{Code: "23505", Constraint: ui.Name, Msg: "duplicate key value violates unique constraint \"" + ui.Name + "\""})
					}
				}
			}
			for ci, c := range t.Cols {
				if c.NotNull && nv2[ci] == nil {
					panic(&SQLError{Code: "23502", Msg: "null value in column \"" + c.Name + "\" violates not-null constraint"})
				}
			}
			newVer := ex.updateVersion(t, cur, nv2)
			out.nAffected++
			ex.queueAfter(t, "update", newVer.Vals, cur.Vals)
			ex.appendReturning(out, u.Returning, t, alias, newVer.Vals, row[1:], outer)
			break // a target row is updated at most once per statement
		}
	}
	return out
}

func (ex *Exec) runDelete(d *Delete, outer *Env) *Rel {
	ex.readOnlyCheck("DELETE")
	t := ex.db.table(ex.sch(d.Table.Schema), d.Table.Name)
	alias := d.Table.Alias
	if alias == "" {
		alias = t.Name
	}
	out := &Rel{}
	for _, it := range d.Returning {
		out.Cols = append(out.Cols, selItemName(it))
	}
	for _, tr := range ex.scanTable(t, alias) {
		env := ex.envFor(tr, outer)
		if d.Where != nil {
			if b, known := truth(env.Eval(d.Where)); !known || !b {
				continue
			}
		}
		cur := ex.lockRow(tr[0].ver)
		if cur == nil {
			continue
		}
		tx := ex.sess.tx
		prevMax, prevCmax := cur.Xmax, cur.Cmax
		cur.Xmax, cur.Cmax = tx.id, ex.cid
		tx.undo = append(tx.undo, func() { cur.Xmax, cur.Cmax = prevMax, prevCmax })
		out.nAffected++
		ex.appendReturning(out, d.Returning, t, alias, cur.Vals, nil, outer)
	}
	return out
}
