//go:build verif

package pgsem

import (
	"context"
	"database/sql"
	"database/sql/driver"
	"errors"
	"fmt"
	"io"
	"math/big"

	"github.com/jackc/pgx/v5/pgconn"
)

// Connector is a database/sql connector whose connections are pgsem sessions.
type Connector struct {
	DB      *DB
	OnOpen  func(*Session)
	Capture func(sess int, sql string)
}

func (c *Connector) Connect(ctx context.Context) (driver.Conn, error) {
	s := c.DB.NewSession()
	if c.OnOpen != nil {
		c.OnOpen(s)
	}
	return &conn{s: s, c: c}, nil
}
func (c *Connector) Driver() driver.Driver { return drv{} }

type drv struct{}

func (drv) Open(string) (driver.Conn, error) { return nil, errors.New("use OpenDB") }

func Open(db *DB) *sql.DB { return sql.OpenDB(&Connector{DB: db}) }

type conn struct {
	s *Session
	c *Connector
}

func (c *conn) Prepare(q string) (driver.Stmt, error) { return &stmt{c: c, q: q}, nil }
func (c *conn) Close() error                           { c.s.Close(); return nil }
func (c *conn) Begin() (driver.Tx, error)              { return c.BeginTx(context.Background(), driver.TxOptions{}) }
// BeginTx honours sql.TxOptions the way the pgx stdlib driver does (github.com/jackc/pgx/v5/stdlib Conn.BeginTx): the options become
// the text of the BEGIN statement ("begin isolation level repeatable read read only"), which pgsem then parses like any other
// statement.  LevelDefault / LevelReadCommitted / LevelReadUncommitted -> READ COMMITTED (13.2: Read Uncommitted behaves like Read
// Committed); LevelRepeatableRead / LevelSnapshot -> REPEATABLE READ (13.2.2); LevelSerializable -> refused loudly: pgsem does not
// model SERIALIZABLE (13.2.3), and running such a transaction at a weaker level would silently hide what the code asked for;
// LevelWriteCommitted / LevelLinearizable -> "unsupported isolation", as pgx answers.  ReadOnly -> READ ONLY access mode.
func (c *conn) BeginTx(ctx context.Context, opts driver.TxOptions) (driver.Tx, error) {
	if err := ctx.Err(); err != nil {
		return nil, err
	}
	q := "BEGIN"
	switch sql.IsolationLevel(opts.Isolation) {
	case sql.LevelDefault:
	case sql.LevelReadUncommitted:
		q = "begin isolation level read uncommitted"
	case sql.LevelReadCommitted:
		q = "begin isolation level read committed"
	case sql.LevelRepeatableRead, sql.LevelSnapshot:
		q = "begin isolation level repeatable read"
	case sql.LevelSerializable:
		c.s.db.noteRefusedIsolation()
		return nil, fmt.Errorf("pgsem: BeginTx asked for isolation level %s: pgsem does not model SERIALIZABLE (PostgreSQL 13.2.3); refusing instead of silently running the transaction at a weaker level (broken correspondence)", sql.IsolationLevel(opts.Isolation))
	default:
		return nil, fmt.Errorf("unsupported isolation: %v", sql.IsolationLevel(opts.Isolation))
	}
	if opts.ReadOnly {
		if q == "BEGIN" {
			q = "begin"
		}
		q += " read only"
	}
	if _, err := c.s.Exec(q); err != nil {
		return nil, wrapErr(err)
	}
	return &tx{c: c}, nil
}
func (c *conn) Ping(context.Context) error { return nil }
func (c *conn) ResetSession(context.Context) error {
	if c.s.tx != nil {
		c.s.Exec("ROLLBACK")
	}
	return nil
}
func (c *conn) IsValid() bool { return true }

type tx struct{ c *conn }

func (t *tx) Commit() error   { _, err := t.c.s.Exec("COMMIT"); return wrapErr(err) }
func (t *tx) Rollback() error { _, err := t.c.s.Exec("ROLLBACK"); return wrapErr(err) }

func wrapErr(err error) error {
	if err == nil {
		return nil
	}
	var se *SQLError
	if errors.As(err, &se) {
		return &pgconn.PgError{Code: se.Code, Message: se.Msg, ConstraintName: se.Constraint, Severity: "ERROR"}
	}
	return err
}

func (c *conn) run(ctx context.Context, q string, args []driver.NamedValue) (*Result, error) {
	if err := ctx.Err(); err != nil {
		return nil, err
	}
	if len(args) > 0 {
		return nil, errors.New("pgsem: bind arguments are not supported (bun inlines literals)")
	}
	res, err := c.s.Exec(q)
	if err != nil {
		return nil, wrapErr(err)
	}
	if err := ctx.Err(); err != nil { // cancellation observed after the statement ran
		return nil, err
	}
	return res, nil
}

func (c *conn) ExecContext(ctx context.Context, q string, args []driver.NamedValue) (driver.Result, error) {
	res, err := c.run(ctx, q, args)
	if err != nil {
		return nil, err
	}
	return result{res.RowsAffected}, nil
}
func (c *conn) QueryContext(ctx context.Context, q string, args []driver.NamedValue) (driver.Rows, error) {
	res, err := c.run(ctx, q, args)
	if err != nil {
		return nil, err
	}
	return &rows{res: res}, nil
}

type stmt struct {
	c *conn
	q string
}

func (s *stmt) Close() error  { return nil }
func (s *stmt) NumInput() int { return -1 }
func (s *stmt) Exec(args []driver.Value) (driver.Result, error) {
	if len(args) > 0 {
		return nil, errors.New("pgsem: bind arguments are not supported")
	}
	return s.c.ExecContext(context.Background(), s.q, nil)
}
func (s *stmt) Query(args []driver.Value) (driver.Rows, error) {
	if len(args) > 0 {
		return nil, errors.New("pgsem: bind arguments are not supported")
	}
	return s.c.QueryContext(context.Background(), s.q, nil)
}

type result struct{ n int64 }

func (r result) LastInsertId() (int64, error) { return 0, errors.New("not supported") }
func (r result) RowsAffected() (int64, error) { return r.n, nil }

type rows struct {
	res *Result
	i   int
}

func (r *rows) Columns() []string { return r.res.Cols }
func (r *rows) Close() error      { return nil }
func (r *rows) Next(dest []driver.Value) error {
	if r.i >= len(r.res.Rows) {
		return io.EOF
	}
	row := r.res.Rows[r.i]
	r.i++
	for i := range dest {
		dest[i] = toDriver(row[i])
	}
	return nil
}

func toDriver(v Value) driver.Value {
	switch x := v.(type) {
	case nil:
		return nil
	case bool:
		return x
	case *big.Int:
		return x.String()
	case string:
		return x
	case Unknown:
		return string(x)
	case []byte:
		return x
	case TS:
		return x.Time()
	case JSON:
		return []byte(x.String())
	default:
		return TextOf(v)
	}
}
