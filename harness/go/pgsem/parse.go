//go:build verif

package pgsem

import (
	"math/big"
	"strconv"
	"strings"
)

type parser struct {
	toks []token
	p    int
	src  string
}

func (p *parser) peek() token { return p.toks[p.p] }
func (p *parser) peekAt(k int) token {
	if p.p+k < len(p.toks) {
		return p.toks[p.p+k]
	}
	return token{kind: tEOF}
}
func (p *parser) next() token { t := p.toks[p.p]; p.p++; return t }
func (p *parser) isKw(k string) bool {
	t := p.peek()
	return t.kind == tIdent && t.s == k
}
func (p *parser) isKwAt(k int, kw string) bool {
	t := p.peekAt(k)
	return t.kind == tIdent && t.s == kw
}
func (p *parser) isOp(o string) bool {
	t := p.peek()
	return t.kind == tOp && t.s == o
}
func (p *parser) acceptKw(k string) bool {
	if p.isKw(k) {
		p.p++
		return true
	}
	return false
}
func (p *parser) acceptOp(o string) bool {
	if p.isOp(o) {
		p.p++
		return true
	}
	return false
}
func (p *parser) fail(msg string) {
	t := p.peek()
	lo := t.pos - 60
	if lo < 0 {
		lo = 0
	}
	hi := t.pos + 40
	if hi > len(p.src) {
		hi = len(p.src)
	}
	panic(errf("42601", "syntax error: %s near %q (…%s…)", msg, t.s, p.src[lo:hi]))
}
func (p *parser) expectKw(k string) {
	if !p.acceptKw(k) {
		p.fail("expected " + k)
	}
}
func (p *parser) expectOp(o string) {
	if !p.acceptOp(o) {
		p.fail("expected " + o)
	}
}
func (p *parser) ident() string {
	t := p.next()
	if t.kind != tIdent && t.kind != tQIdent {
		p.p--
		p.fail("expected identifier")
	}
	return t.s
}

// ParseScript parses one or more ';'-separated statements
func ParseScript(src string) (stmts []Stmt, err error) {
	defer func() {
		if r := recover(); r != nil {
			if e, ok := r.(*SQLError); ok {
				err = e
				return
			}
			panic(r)
		}
	}()
	toks, lerr := lex(src)
	if lerr != nil {
		return nil, lerr
	}
	p := &parser{toks: toks, src: src}
	for {
		for p.acceptOp(";") {
		}
		if p.peek().kind == tEOF {
			break
		}
		stmts = append(stmts, p.parseStmt())
		if !p.acceptOp(";") && p.peek().kind != tEOF {
			p.fail("expected ; or end of input")
		}
	}
	return stmts, nil
}

func (p *parser) parseStmt() Stmt {
	switch {
	case p.isKw("select") || p.isKw("with") || p.isKw("values") || p.isOp("("):
		if p.isKw("with") {
			return p.parseWithStmt()
		}
		return p.parseSelect()
	case p.isKw("insert"):
		return p.parseInsert()
	case p.isKw("update"):
		return p.parseUpdate()
	case p.isKw("delete"):
		return p.parseDelete()
	case p.isKw("call"):
		p.next()
		sch, name := p.qualifiedName2()
		p.expectOp("(")
		args := p.exprListUntil(")")
		return &Call{Schema: sch, Name: name, Args: args}
	case p.isKw("begin") || p.isKw("start"):
		// BEGIN [WORK | TRANSACTION] [transaction_mode [, ...]] / START TRANSACTION [transaction_mode [, ...]] (SQL commands BEGIN, START
		// TRANSACTION).  The modes are NOT skipped: the isolation level decides which snapshot every later statement reads from.
		if p.next().s == "start" {
			p.expectKw("transaction")
		} else if !p.acceptKw("work") {
			p.acceptKw("transaction")
		}
		t := &TxStmt{Kind: "begin"}
		p.parseTxModes(t, false)
		return t
	case p.isKw("commit") || p.isKw("end"):
		p.skipToEnd()
		return &TxStmt{Kind: "commit"}
	case p.isKw("rollback"):
		p.next()
		if p.acceptKw("to") {
			p.acceptKw("savepoint")
			return &TxStmt{Kind: "rollback_to", Name: p.ident()}
		}
		p.skipToEnd()
		return &TxStmt{Kind: "rollback"}
	case p.isKw("savepoint"):
		p.next()
		return &TxStmt{Kind: "savepoint", Name: p.ident()}
	case p.isKw("release"):
		p.next()
		p.acceptKw("savepoint")
		return &TxStmt{Kind: "release", Name: p.ident()}
	case p.isKw("create"):
		return p.parseCreate()
	case p.isKw("drop"):
		return p.parseDrop()
	case p.isKw("alter"):
		p.next()
		if p.acceptKw("index") {
			if p.acceptKw("if") {
				p.expectKw("exists")
			}
			from := p.qualifiedName()
			if p.acceptKw("rename") {
				p.expectKw("to")
				return &RenameIndex{From: from, To: p.ident()}
			}
		}
		p.skipToEnd()
		return &Noop{"alter"}
	case p.isKw("set") && p.isTxSet():
		return p.parseTxSet()
	case p.isKw("set") || p.isKw("do") || p.isKw("lock") || p.isKw("analyze") || p.isKw("vacuum") || p.isKw("comment") || p.isKw("grant") || p.isKw("reset") || p.isKw("show") || p.isKw("discard") || p.isKw("deallocate"):
		w := p.peek().s
		p.skipToEnd()
		return &Noop{w}
	}
	p.fail("unsupported statement")
	return nil
}

// parseTxModes: transaction_mode [, ...] where transaction_mode is ISOLATION LEVEL { SERIALIZABLE | REPEATABLE READ | READ COMMITTED |
// READ UNCOMMITTED } | READ WRITE | READ ONLY | [NOT] DEFERRABLE (SQL command SET TRANSACTION).  Anything else is a syntax error, never
// skipped.  DEFERRABLE only matters for SERIALIZABLE READ ONLY transactions and is accepted without effect.
func (p *parser) parseTxModes(t *TxStmt, required bool) {
	n := 0
	for {
		switch {
		case p.acceptKw("isolation"):
			p.expectKw("level")
			switch {
			case p.acceptKw("serializable"):
				t.Iso = "serializable"
			case p.acceptKw("repeatable"):
				p.expectKw("read")
				t.Iso = "repeatable read"
			case p.acceptKw("read"):
				switch {
				case p.acceptKw("committed"):
					t.Iso = "read committed"
				case p.acceptKw("uncommitted"):
					t.Iso = "read uncommitted"
				default:
					p.fail("expected COMMITTED or UNCOMMITTED")
				}
			default:
				p.fail("expected an isolation level")
			}
		case p.acceptKw("read"):
			switch {
			case p.acceptKw("only"):
				t.Access = "read only"
			case p.acceptKw("write"):
				t.Access = "read write"
			default:
				p.fail("expected ONLY or WRITE")
			}
		case p.acceptKw("not"):
			p.expectKw("deferrable")
		case p.acceptKw("deferrable"):
		default:
			if n == 0 && !required && (p.isOp(";") || p.peek().kind == tEOF) {
				return
			}
			p.fail("expected a transaction mode")
		}
		n++
		p.acceptOp(",")
		if p.isOp(";") || p.peek().kind == tEOF {
			return
		}
	}
}

// isTxSet: is this SET statement one of the forms that change transaction characteristics?  SET TRANSACTION ..., SET SESSION
// CHARACTERISTICS AS TRANSACTION ..., SET [SESSION | LOCAL] {transaction_isolation | default_transaction_isolation |
// transaction_read_only | default_transaction_read_only} {TO | =} value.  Every other SET stays a no-op.
func (p *parser) isTxSet() bool {
	k := 1
	if p.isKwAt(k, "transaction") {
		return true
	}
	if p.isKwAt(k, "session") && p.isKwAt(k+1, "characteristics") {
		return true
	}
	if p.isKwAt(k, "session") || p.isKwAt(k, "local") {
		k++
	}
	for _, g := range []string{"transaction_isolation", "default_transaction_isolation", "transaction_read_only", "default_transaction_read_only"} {
		if p.isKwAt(k, g) {
			return true
		}
	}
	return false
}

func (p *parser) parseTxSet() Stmt {
	p.expectKw("set")
	if p.acceptKw("transaction") {
		if p.isKw("snapshot") {
			p.fail("SET TRANSACTION SNAPSHOT is not supported by pgsem")
		}
		t := &TxStmt{Kind: "set_tx"}
		p.parseTxModes(t, true)
		return t
	}
	if p.isKw("session") && p.isKwAt(1, "characteristics") {
		p.next()
		p.next()
		p.expectKw("as")
		p.expectKw("transaction")
		t := &TxStmt{Kind: "set_session_tx"}
		p.parseTxModes(t, true)
		return t
	}
	local := false
	if !p.acceptKw("session") {
		local = p.acceptKw("local")
	}
	guc := p.ident()
	if !p.acceptKw("to") {
		p.expectOp("=")
	}
	v := p.next()
	if v.kind != tString && v.kind != tIdent && v.kind != tQIdent {
		p.p--
		p.fail("expected a value")
	}
	val := strings.ToLower(strings.Join(strings.Fields(v.s), " "))
	if v.kind == tIdent && (val == "read" || val == "repeatable") { // SET transaction_isolation TO repeatable read is not valid SQL, but be exact about what follows
		p.fail("expected a quoted isolation level")
	}
	t := &TxStmt{Kind: "set_session_tx"}
	if local || guc == "transaction_isolation" || guc == "transaction_read_only" {
		t.Kind = "set_tx" // transaction_isolation / SET LOCAL: the current transaction only
	}
	switch guc {
	case "transaction_isolation", "default_transaction_isolation":
		switch val {
		case "serializable", "repeatable read", "read committed", "read uncommitted":
			t.Iso = val
		case "default":
			t.Iso = "read committed"
		default:
			p.fail("invalid value for " + guc)
		}
	default:
		switch val {
		case "on", "true", "1", "yes":
			t.Access = "read only"
		case "off", "false", "0", "no", "default":
			t.Access = "read write"
		default:
			p.fail("invalid value for " + guc)
		}
	}
	return t
}

func (p *parser) skipToEnd() {
	depth := 0
	for p.peek().kind != tEOF {
		if p.isOp("(") {
			depth++
		} else if p.isOp(")") {
			depth--
		} else if p.isOp(";") && depth == 0 {
			return
		}
		p.next()
	}
}

// qualifiedName2 keeps the schema qualifier ("" when absent)
func (p *parser) qualifiedName2() (string, string) {
	sch, n := "", p.ident()
	for p.acceptOp(".") {
		sch = n
		n = p.ident()
	}
	return sch, n
}

func (p *parser) qualifiedName() string {
	n := p.ident()
	for p.acceptOp(".") {
		n = p.ident() // keep the last component (schema dropped)
	}
	return n
}

func (p *parser) parseCreate() Stmt {
	p.expectKw("create")
	orReplace := false
	if p.acceptKw("or") {
		p.expectKw("replace")
		orReplace = true
	}
	_ = orReplace
	p.acceptKw("constraint")
	switch {
	case p.acceptKw("sequence"):
		if p.acceptKw("if") {
			p.expectKw("not")
			p.expectKw("exists")
		}
		n := p.ident()
		sch := ""
		for p.acceptOp(".") {
			sch = n
			n = p.ident()
		}
		cs := &CreateSequence{Schema: sch, Name: n, Cache: 1}
		for p.peek().kind != tEOF && !p.isOp(";") { // options: only CACHE changes what the ledger can observe
			if p.acceptKw("cache") {
				if t := p.peek(); t.kind == tNumber {
					if v, err := strconv.ParseInt(t.s, 10, 64); err == nil && v >= 1 {
						cs.Cache = v
					}
				}
				continue
			}
			p.next()
		}
		return cs
	case p.acceptKw("trigger"):
		ct := &CreateTrigger{Name: p.ident()}
		ct.Timing = p.ident() // before | after
		ct.Event = p.ident()  // insert | update
		for p.acceptKw("or") {
			ct.Event += "|" + p.ident()
		}
		p.expectKw("on")
		n := p.ident()
		for p.acceptOp(".") {
			ct.Schema = n
			n = p.ident()
		}
		ct.Table = n
		for !p.isKw("for") && !p.isKw("execute") && !p.isKw("when") && p.peek().kind != tEOF {
			p.next() // deferrable initially deferred …
		}
		if p.acceptKw("for") {
			p.acceptKw("each")
			p.ident() // row | statement
		}
		if p.acceptKw("when") {
			p.expectOp("(")
			ct.When = p.parseExpr()
			p.expectOp(")")
		}
		p.expectKw("execute")
		p.ident() // procedure | function
		ct.Func = p.qualifiedName()
		p.expectOp("(")
		p.expectOp(")")
		return ct
	case p.isKw("function") || p.isKw("procedure"):
		isProc := p.next().s == "procedure"
		cf := &CreateFunction{Name: p.qualifiedName(), IsProc: isProc}
		p.expectOp("(")
		depth := 1
		cur := []string{}
		for depth > 0 {
			t := p.next()
			if t.kind == tEOF {
				p.fail("unterminated parameter list")
			}
			if t.kind == tOp && t.s == "(" {
				depth++
			} else if t.kind == tOp && t.s == ")" {
				depth--
				if depth == 0 {
					break
				}
			} else if t.kind == tOp && t.s == "," && depth == 1 {
				if len(cur) > 0 {
					cf.Params = append(cf.Params, cur[0])
				}
				cur = nil
				continue
			}
			cur = append(cur, t.s)
		}
		if len(cur) > 0 {
			cf.Params = append(cf.Params, cur[0])
		}
		for p.peek().kind != tEOF && !p.isOp(";") {
			t := p.next()
			if t.kind == tIdent && t.s == "language" {
				cf.Lang = p.next().s
			} else if t.kind == tIdent && t.s == "returns" {
				cf.Returns = p.peek().s
			} else if t.kind == tIdent && t.s == "as" && p.peek().kind == tString {
				cf.Body = p.next().s
			}
		}
		return cf
	case p.isKw("unique") || p.isKw("index"):
		ci := &CreateIndex{}
		if p.acceptKw("unique") {
			ci.Unique = true
		}
		p.expectKw("index")
		p.acceptKw("concurrently")
		if p.acceptKw("if") {
			p.expectKw("not")
			p.expectKw("exists")
		}
		ci.Name = p.ident()
		p.expectKw("on")
		ci.Schema, ci.Table = p.qualifiedName2()
		if p.acceptKw("using") {
			p.ident()
		}
		p.expectOp("(")
		simple := true
		for {
			t := p.next()
			if (t.kind == tIdent || t.kind == tQIdent) && (p.isOp(",") || p.isOp(")") || p.isKw("asc") || p.isKw("desc")) {
				ci.Cols = append(ci.Cols, t.s)
				p.acceptKw("asc")
				p.acceptKw("desc")
			} else {
				simple = false
				depth := 0
				for !(depth == 0 && (p.isOp(",") || p.isOp(")"))) {
					if p.isOp("(") {
						depth++
					} else if p.isOp(")") {
						depth--
					}
					p.next()
				}
			}
			if p.acceptOp(")") {
				break
			}
			p.expectOp(",")
		}
		if !simple {
			ci.Unique = false // expression indexes are never unique constraints we rely on
		}
		if p.acceptKw("include") {
			p.expectOp("(")
			p.exprListUntil(")")
		}
		if p.acceptKw("with") {
			p.expectOp("(")
			p.exprListUntil(")")
		}
		if p.acceptKw("where") {
			ci.Where = p.parseExpr()
		}
		return ci
	}
	w := p.peek().s
	p.skipToEnd()
	return &Noop{"create " + w}
}

func (p *parser) parseDrop() Stmt {
	p.expectKw("drop")
	switch {
	case p.acceptKw("trigger"):
		if p.acceptKw("if") {
			p.expectKw("exists")
		}
		n := p.ident()
		p.expectKw("on")
		t := p.qualifiedName()
		p.skipToEnd()
		return &DropTrigger{Name: n, Table: t}
	case p.acceptKw("function") || p.acceptKw("procedure"):
		if p.acceptKw("if") {
			p.expectKw("exists")
		}
		n := p.qualifiedName()
		p.skipToEnd()
		return &DropFunction{Name: n}
	case p.acceptKw("index"):
		p.acceptKw("concurrently")
		if p.acceptKw("if") {
			p.expectKw("exists")
		}
		n := p.qualifiedName()
		p.skipToEnd()
		return &DropIndex{Name: n}
	}
	w := p.peek().s
	p.skipToEnd()
	return &Noop{"drop " + w}
}

// ---------------------------------------------------------------- queries
func (p *parser) parseCTEs() []CTE {
	var ctes []CTE
	p.expectKw("with")
	for {
		c := CTE{Name: p.ident()}
		if p.acceptOp("(") {
			for {
				c.Cols = append(c.Cols, p.ident())
				if p.acceptOp(")") {
					break
				}
				p.expectOp(",")
			}
		}
		p.expectKw("as")
		p.expectOp("(")
		switch {
		case p.isKw("insert"):
			c.Stmt = p.parseInsert()
		case p.isKw("update"):
			c.Stmt = p.parseUpdate()
		case p.isKw("delete"):
			c.Stmt = p.parseDelete()
		default:
			c.Stmt = p.parseSelect()
		}
		p.expectOp(")")
		ctes = append(ctes, c)
		if !p.acceptOp(",") {
			break
		}
	}
	return ctes
}

func (p *parser) parseWithStmt() Stmt {
	ctes := p.parseCTEs()
	switch {
	case p.isKw("insert"):
		panic(errf("0A000", "WITH … INSERT not supported"))
	case p.isKw("update"):
		panic(errf("0A000", "WITH … UPDATE not supported"))
	}
	s := p.parseSelect()
	s.With = append(ctes, s.With...)
	return s
}

func (p *parser) parseSelect() *Select {
	var with []CTE
	if p.isKw("with") {
		with = p.parseCTEs()
	}
	first := p.parseSelectArm()
	s := first
	if p.isKw("union") {
		s = &Select{Paren: nil}
		s.Unions = []*Select{first}
		for p.acceptKw("union") {
			p.expectKw("all")
			s.Unions = append(s.Unions, p.parseSelectArm())
		}
	}
	if p.acceptKw("order") {
		p.expectKw("by")
		s.Order = p.parseOrderList()
	}
	for {
		if p.acceptKw("limit") {
			s.Limit = p.parseExpr()
		} else if p.acceptKw("offset") {
			s.Offset = p.parseExpr()
		} else if p.acceptKw("into") {
			s.Into = p.parseIntoTargets()
		} else if p.isKw("for") && (p.isKwAt(1, "update") || p.isKwAt(1, "share") || p.isKwAt(1, "no")) {
			p.next()
			for p.peek().kind == tIdent && !p.isKw("limit") && !p.isKw("offset") {
				p.next()
			}
			s.ForUpdate = true
		} else {
			break
		}
	}
	s.With = append(with, s.With...)
	return s
}

func (p *parser) parseIntoTargets() []Expr {
	var out []Expr
	p.acceptKw("strict")
	for {
		n := p.ident()
		if p.acceptOp(".") {
			out = append(out, &ColRef{Table: n, Name: p.ident()})
		} else {
			out = append(out, &ColRef{Name: n})
		}
		if !p.acceptOp(",") {
			break
		}
	}
	return out
}

func (p *parser) parseOrderList() []OrderItem {
	var out []OrderItem
	for {
		it := OrderItem{X: p.parseExpr()}
		if p.acceptKw("desc") {
			it.Desc = true
		} else {
			p.acceptKw("asc")
		}
		if p.acceptKw("nulls") {
			p.ident()
		}
		out = append(out, it)
		if !p.acceptOp(",") {
			break
		}
	}
	return out
}

// one arm of a (possibly UNION ALL) query: a parenthesised query or a SELECT/VALUES core
func (p *parser) parseSelectArm() *Select {
	if p.acceptOp("(") {
		inner := p.parseSelect()
		p.expectOp(")")
		return &Select{Paren: inner}
	}
	if p.acceptKw("values") {
		s := &Select{}
		for {
			p.expectOp("(")
			s.Values = append(s.Values, p.exprListUntil(")"))
			if !p.acceptOp(",") {
				break
			}
		}
		return s
	}
	p.expectKw("select")
	s := &Select{}
	if p.acceptKw("distinct") {
		if p.acceptKw("on") {
			p.expectOp("(")
			s.DistinctOn = p.exprListUntil(")")
		} else {
			s.Distinct = true
		}
	} else {
		p.acceptKw("all")
	}
	// select list (may be empty before FROM/INTO in plpgsql, not supported)
	for {
		if p.isKw("from") || p.isKw("into") {
			break
		}
		it := SelItem{X: p.parseExpr()}
		if p.acceptKw("as") {
			it.Alias = p.ident()
		} else if t := p.peek(); (t.kind == tIdent && !selListStop[t.s]) || t.kind == tQIdent {
			it.Alias = p.ident()
		}
		s.Cols = append(s.Cols, it)
		if !p.acceptOp(",") {
			break
		}
	}
	if p.acceptKw("into") {
		s.Into = p.parseIntoTargets()
	}
	if p.acceptKw("from") {
		for {
			s.From = append(s.From, p.parseFromItem())
			if !p.acceptOp(",") {
				break
			}
		}
	}
	if p.acceptKw("where") {
		s.Where = p.parseExpr()
	}
	if p.acceptKw("group") {
		p.expectKw("by")
		for {
			s.GroupBy = append(s.GroupBy, p.parseExpr())
			if !p.acceptOp(",") {
				break
			}
		}
	}
	if p.acceptKw("having") {
		s.Having = p.parseExpr()
	}
	return s
}

var selListStop = map[string]bool{"from": true, "where": true, "group": true, "order": true, "limit": true, "offset": true, "union": true,
	"for": true, "into": true, "having": true, "returning": true, "on": true}
var aliasStop = map[string]bool{"where": true, "group": true, "order": true, "limit": true, "offset": true, "union": true, "for": true,
	"join": true, "left": true, "inner": true, "right": true, "full": true, "cross": true, "on": true, "returning": true, "set": true,
	"having": true, "using": true, "into": true, "lateral": true, "natural": true, "window": true, "values": false, "select": true, "do": true}

func (p *parser) parseFromItem() FromItem {
	left := p.parseFromPrimary()
	for {
		kind := ""
		switch {
		case p.isKw("join"):
			p.next()
			kind = "inner"
		case p.isKw("inner") && p.isKwAt(1, "join"):
			p.next()
			p.next()
			kind = "inner"
		case p.isKw("left"):
			p.next()
			p.acceptKw("outer")
			p.expectKw("join")
			kind = "left"
		case p.isKw("cross") && p.isKwAt(1, "join"):
			p.next()
			p.next()
			kind = "cross"
		default:
			return left
		}
		right := p.parseFromPrimary()
		j := &JoinRef{L: left, R: right, Kind: kind}
		if kind != "cross" {
			p.expectKw("on")
			j.On = p.parseExpr()
		}
		left = j
	}
}

func (p *parser) parseAliasOpt() (string, []string) {
	alias := ""
	if p.acceptKw("as") {
		alias = p.ident()
	} else if t := p.peek(); (t.kind == tIdent && !aliasStop[t.s]) || t.kind == tQIdent {
		alias = p.ident()
	}
	var cols []string
	if alias != "" && p.isOp("(") {
		p.next()
		for {
			cols = append(cols, p.ident())
			if p.acceptOp(")") {
				break
			}
			p.expectOp(",")
		}
	}
	return alias, cols
}

func (p *parser) parseFromPrimary() FromItem {
	lateral := p.acceptKw("lateral")
	if p.acceptOp("(") {
		if p.isKw("select") || p.isKw("with") || p.isKw("values") || p.isOp("(") {
			sel := p.parseSelect()
			p.expectOp(")")
			alias, cols := p.parseAliasOpt()
			if len(cols) > 0 {
				sel = &Select{Paren: sel}
			}
			sr := &SubRef{Sel: sel, Alias: alias, Lateral: lateral}
			if len(cols) > 0 {
				return &aliasedSub{SubRef: sr, Cols: cols}
			}
			return sr
		}
		it := p.parseFromItem()
		p.expectOp(")")
		return it
	}
	n := p.ident()
	sch := ""
	for p.acceptOp(".") {
		sch = n
		n = p.ident()
	}
	if p.isOp("(") { // function in FROM
		p.next()
		args := p.exprListUntil(")")
		alias, cols := p.parseAliasOpt()
		return &FuncRef{Fn: &FuncExpr{Name: n, Args: args}, Alias: alias, ColAliases: cols}
	}
	alias, cols := p.parseAliasOpt()
	return &TableRef{Schema: sch, Name: n, Alias: alias, ColAliases: cols}
}

type aliasedSub struct {
	*SubRef
	Cols []string
}

func (p *parser) parseTableTarget() TableRef {
	n := p.ident()
	sch := ""
	for p.acceptOp(".") {
		sch = n
		n = p.ident()
	}
	tr := TableRef{Schema: sch, Name: n}
	if p.acceptKw("as") {
		tr.Alias = p.ident()
	} else if t := p.peek(); (t.kind == tIdent && !aliasStop[t.s] && t.s != "values" && t.s != "default") || t.kind == tQIdent {
		tr.Alias = p.ident()
	}
	return tr
}

func (p *parser) parseReturning() []SelItem {
	var out []SelItem
	if !p.acceptKw("returning") {
		return nil
	}
	for {
		it := SelItem{X: p.parseExpr()}
		if p.acceptKw("as") {
			it.Alias = p.ident()
		} else if t := p.peek(); t.kind == tIdent && !selListStop[t.s] || t.kind == tQIdent {
			it.Alias = p.ident()
		}
		out = append(out, it)
		if !p.acceptOp(",") {
			break
		}
	}
	return out
}

func (p *parser) parseInsert() *Insert {
	p.expectKw("insert")
	p.expectKw("into")
	ins := &Insert{Table: p.parseTableTarget()}
	if p.isOp("(") && !p.isKwAt(1, "select") {
		p.next()
		for {
			ins.Cols = append(ins.Cols, p.ident())
			if p.acceptOp(")") {
				break
			}
			p.expectOp(",")
		}
	}
	if p.acceptKw("values") {
		for {
			p.expectOp("(")
			ins.Values = append(ins.Values, p.exprListUntil(")"))
			if !p.acceptOp(",") {
				break
			}
		}
	} else if p.acceptKw("default") {
		p.expectKw("values")
		ins.Values = [][]Expr{{}}
	} else {
		ins.Sel = p.parseSelect()
	}
	if p.acceptKw("on") {
		p.expectKw("conflict")
		oc := &OnConflict{}
		if p.acceptOp("(") {
			for {
				oc.Cols = append(oc.Cols, p.ident())
				if p.acceptOp(")") {
					break
				}
				p.expectOp(",")
			}
		}
		p.expectKw("do")
		if p.acceptKw("nothing") {
			oc.Nothing = true
		} else {
			p.expectKw("update")
			p.expectKw("set")
			oc.Set = p.parseAssignments()
			if p.acceptKw("where") {
				oc.Where = p.parseExpr()
			}
		}
		ins.Conflict = oc
	}
	ins.Returning = p.parseReturning()
	return ins
}

func (p *parser) parseAssignments() []Assign {
	var out []Assign
	for {
		c := p.ident()
		for p.acceptOp(".") {
			c = p.ident()
		}
		p.expectOp("=")
		out = append(out, Assign{Col: c, X: p.parseExpr()})
		if !p.acceptOp(",") {
			break
		}
	}
	return out
}

func (p *parser) parseUpdate() *Update {
	p.expectKw("update")
	u := &Update{Table: p.parseTableTarget()}
	p.expectKw("set")
	u.Set = p.parseAssignments()
	if p.acceptKw("from") {
		for {
			u.From = append(u.From, p.parseFromItem())
			if !p.acceptOp(",") {
				break
			}
		}
	}
	if p.acceptKw("where") {
		u.Where = p.parseExpr()
	}
	u.Returning = p.parseReturning()
	return u
}

func (p *parser) parseDelete() *Delete {
	p.expectKw("delete")
	p.expectKw("from")
	d := &Delete{Table: p.parseTableTarget()}
	if p.acceptKw("where") {
		d.Where = p.parseExpr()
	}
	d.Returning = p.parseReturning()
	return d
}

// ---------------------------------------------------------------- expressions
func (p *parser) exprListUntil(close string) []Expr {
	var out []Expr
	if p.acceptOp(close) {
		return out
	}
	for {
		out = append(out, p.parseExpr())
		if p.acceptOp(close) {
			return out
		}
		p.expectOp(",")
	}
}

func (p *parser) parseExpr() Expr { return p.parseOr() }

func (p *parser) parseOr() Expr {
	l := p.parseAnd()
	for p.acceptKw("or") {
		l = &BinExpr{Op: "or", L: l, R: p.parseAnd()}
	}
	return l
}
func (p *parser) parseAnd() Expr {
	l := p.parseNot()
	for p.acceptKw("and") {
		l = &BinExpr{Op: "and", L: l, R: p.parseNot()}
	}
	return l
}
func (p *parser) parseNot() Expr {
	if p.isKw("not") && !p.isKwAt(1, "in") && !p.isKwAt(1, "like") {
		p.next()
		return &UnExpr{Op: "not", X: p.parseNot()}
	}
	return p.parseIs()
}
func (p *parser) parseIs() Expr {
	l := p.parseCmp()
	for {
		if p.isKw("is") {
			p.next()
			not := p.acceptKw("not")
			switch {
			case p.acceptKw("null"):
				l = &IsNullExpr{X: l, Not: not}
			case p.acceptKw("true"):
				l = &BinExpr{Op: "is_true", L: l, R: &Lit{!not}}
			case p.acceptKw("false"):
				l = &BinExpr{Op: "is_true", L: &UnExpr{Op: "not", X: l}, R: &Lit{!not}}
			case p.acceptKw("distinct"):
				p.expectKw("from")
				r := p.parseCmp()
				var e Expr = &BinExpr{Op: "is_distinct", L: l, R: r}
				if not {
					e = &UnExpr{Op: "not", X: e}
				}
				l = e
			default:
				p.fail("unsupported IS")
			}
			continue
		}
		if p.acceptKw("isnull") {
			l = &IsNullExpr{X: l}
			continue
		}
		if p.acceptKw("notnull") {
			l = &IsNullExpr{X: l, Not: true}
			continue
		}
		return l
	}
}

var cmpOps = map[string]bool{"=": true, "<>": true, "!=": true, "<": true, ">": true, "<=": true, ">=": true}

func (p *parser) parseCmp() Expr {
	l := p.parseLikeIn()
	for {
		t := p.peek()
		if t.kind == tOp && cmpOps[t.s] {
			p.next()
			op := t.s
			if op == "!=" {
				op = "<>"
			}
			if p.isKw("any") || p.isKw("all") {
				q := p.next().s
				p.expectOp("(")
				x := p.parseExpr()
				p.expectOp(")")
				l = &BinExpr{Op: op + " " + q, L: l, R: x}
				continue
			}
			l = &BinExpr{Op: op, L: l, R: p.parseLikeIn()}
			continue
		}
		return l
	}
}

func (p *parser) parseLikeIn() Expr {
	l := p.parseOther()
	for {
		not := false
		save := p.p
		if p.isKw("not") && (p.isKwAt(1, "in") || p.isKwAt(1, "like")) {
			p.next()
			not = true
		}
		switch {
		case p.acceptKw("like"):
			var e Expr = &BinExpr{Op: "like", L: l, R: p.parseOther()}
			if not {
				e = &UnExpr{Op: "not", X: e}
			}
			l = e
		case p.acceptKw("in"):
			p.expectOp("(")
			in := &InExpr{X: l, Not: not}
			if p.isKw("select") || p.isKw("with") {
				in.Sub = p.parseSelect()
				p.expectOp(")")
			} else {
				in.List = p.exprListUntil(")")
			}
			l = in
		case p.isKw("between"):
			p.next()
			lo := p.parseOther()
			p.expectKw("and")
			hi := p.parseOther()
			l = &BinExpr{Op: "and", L: &BinExpr{Op: ">=", L: l, R: lo}, R: &BinExpr{Op: "<=", L: l, R: hi}}
		default:
			p.p = save
			return l
		}
	}
}

var otherOps = map[string]bool{"||": true, "->": true, "->>": true, "#>": true, "#>>": true, "@>": true, "<@": true, "?|": true, "?&": true, "?": true, "@@": true}

func (p *parser) parseOther() Expr {
	l := p.parseAdd()
	for {
		t := p.peek()
		if t.kind == tOp && otherOps[t.s] {
			p.next()
			l = &BinExpr{Op: t.s, L: l, R: p.parseAdd()}
			continue
		}
		if p.isKw("at") && p.isKwAt(1, "time") {
			p.next()
			p.next()
			p.expectKw("zone")
			p.parseAdd()
			continue // all timestamps are UTC in this model
		}
		return l
	}
}
func (p *parser) parseAdd() Expr {
	l := p.parseMul()
	for {
		t := p.peek()
		if t.kind == tOp && (t.s == "+" || t.s == "-") {
			p.next()
			l = &BinExpr{Op: t.s, L: l, R: p.parseMul()}
			continue
		}
		return l
	}
}
func (p *parser) parseMul() Expr {
	l := p.parseUnary()
	for {
		t := p.peek()
		if t.kind == tOp && (t.s == "*" || t.s == "/" || t.s == "%") {
			p.next()
			l = &BinExpr{Op: t.s, L: l, R: p.parseUnary()}
			continue
		}
		return l
	}
}
func (p *parser) parseUnary() Expr {
	if p.acceptOp("-") {
		return &UnExpr{Op: "-", X: p.parseUnary()}
	}
	if p.acceptOp("+") {
		return p.parseUnary()
	}
	return p.parsePostfix()
}

func (p *parser) parseTypeName() string {
	var parts []string
	t := p.next()
	if t.kind != tIdent && t.kind != tQIdent {
		p.p--
		p.fail("expected type name")
	}
	name := t.s
	for p.acceptOp(".") {
		name = p.ident()
	}
	parts = append(parts, name)
	switch name {
	case "timestamp", "time":
		if p.isKw("without") || p.isKw("with") {
			p.next()
			p.expectKw("time")
			p.expectKw("zone")
		}
	case "character":
		if p.acceptKw("varying") {
			parts = []string{"varchar"}
		}
	case "double":
		p.acceptKw("precision")
	}
	if p.isOp("(") && p.peekAt(1).kind == tNumber {
		p.next()
		p.exprListUntil(")")
	}
	typ := strings.Join(parts, " ")
	for p.isOp("[") && p.peekAt(1).kind == tOp && p.peekAt(1).s == "]" {
		p.next()
		p.next()
		typ += "[]"
	}
	return typ
}

func (p *parser) parsePostfix() Expr {
	x := p.parsePrimary()
	for {
		switch {
		case p.acceptOp("::"):
			x = &CastExpr{X: x, Type: p.parseTypeName()}
		case p.isOp("["):
			p.next()
			var lo, hi Expr
			slice := false
			if !p.isOp(":") {
				lo = p.parseExpr()
			}
			if p.acceptOp(":") {
				slice = true
				if !p.isOp("]") {
					hi = p.parseExpr()
				}
			}
			p.expectOp("]")
			x = &IndexExpr{X: x, Lo: lo, Hi: hi, Slice: slice}
		case p.isOp(".") && isParenLike(x):
			p.next()
			if p.acceptOp("*") {
				x = &FieldExpr{X: x, Name: "*"}
			} else {
				x = &FieldExpr{X: x, Name: p.ident()}
			}
		default:
			return x
		}
	}
}

func isParenLike(x Expr) bool {
	switch x.(type) {
	case *parenExpr, *FieldExpr, *IndexExpr:
		return true
	}
	return false
}

type parenExpr struct{ X Expr }

func (p *parser) parsePrimary() Expr {
	t := p.peek()
	switch t.kind {
	case tNumber:
		p.next()
		n, err := parseNumeric(t.s)
		if err != nil {
			p.fail("bad number")
		}
		return &Lit{n}
	case tString:
		p.next()
		return &Lit{Unknown(t.s)}
	case tParam:
		p.next()
		return &ParamExpr{Name: "$" + t.s}
	case tOp:
		if t.s == "(" {
			p.next()
			if p.isKw("select") || p.isKw("with") || p.isKw("values") {
				sel := p.parseSelect()
				p.expectOp(")")
				return &parenExpr{&SubExpr{Sub: sel}}
			}
			first := p.parseExpr()
			if p.acceptOp(",") {
				items := append([]Expr{first}, p.exprListUntil(")")...)
				return &parenExpr{&RowExpr{Items: items}}
			}
			p.expectOp(")")
			return &parenExpr{first}
		}
		if t.s == "*" {
			p.next()
			return &StarRef{}
		}
	case tIdent, tQIdent:
		if t.kind == tIdent {
			switch t.s {
			case "null":
				p.next()
				return &Lit{nil}
			case "true":
				p.next()
				return &Lit{true}
			case "false":
				p.next()
				return &Lit{false}
			case "default":
				p.next()
				return &DefaultExpr{}
			case "case":
				return p.parseCase()
			case "cast":
				if p.peekAt(1).kind == tOp && p.peekAt(1).s == "(" {
					p.next()
					p.next()
					x := p.parseExpr()
					p.expectKw("as")
					ty := p.parseTypeName()
					p.expectOp(")")
					return &CastExpr{X: x, Type: ty}
				}
			case "exists":
				if p.peekAt(1).kind == tOp && p.peekAt(1).s == "(" {
					p.next()
					p.next()
					sel := p.parseSelect()
					p.expectOp(")")
					return &ExistsExpr{Sub: sel}
				}
			case "array":
				if p.peekAt(1).kind == tOp && p.peekAt(1).s == "[" {
					p.next()
					p.next()
					return &ArrayExpr{Items: p.exprListUntil("]")}
				}
			case "row":
				if p.peekAt(1).kind == tOp && p.peekAt(1).s == "(" {
					p.next()
					p.next()
					return &parenExpr{&RowExpr{Items: p.exprListUntil(")")}}
				}
			case "timestamp", "date", "interval":
				if p.peekAt(1).kind == tString { // typed literal
					p.next()
					s := p.next()
					return &CastExpr{X: &Lit{Unknown(s.s)}, Type: t.s}
				}
			}
		}
		p.next()
		name := t.s
		var qual []string
		for p.isOp(".") {
			p.next()
			if p.acceptOp("*") {
				return &StarRef{Table: name}
			}
			qual = append(qual, name)
			name = p.ident()
		}
		if p.isOp("(") {
			p.next()
			f := &FuncExpr{Name: strings.ToLower(name)}
			if p.acceptOp("*") {
				f.Star = true
				p.expectOp(")")
			} else {
				if p.acceptKw("distinct") {
					f.Distinct = true
				}
				f.Args = p.exprListUntil(")")
			}
			if p.acceptKw("over") {
				p.expectOp("(")
				w := &WindowSpec{}
				if p.acceptKw("partition") {
					p.expectKw("by")
					for {
						w.Partition = append(w.Partition, p.parseExpr())
						if !p.acceptOp(",") {
							break
						}
					}
				}
				if p.acceptKw("order") {
					p.expectKw("by")
					w.Order = p.parseOrderList()
				}
				p.expectOp(")")
				f.Over = w
			}
			return f
		}
		if len(qual) > 0 {
			return &ColRef{Table: qual[len(qual)-1], Name: name}
		}
		return &ColRef{Name: name}
	}
	p.fail("unexpected token in expression")
	return nil
}

func (p *parser) parseCase() Expr {
	p.expectKw("case")
	c := &CaseExpr{}
	if !p.isKw("when") {
		c.Operand = p.parseExpr()
	}
	for p.acceptKw("when") {
		w := WhenClause{Cond: p.parseExpr()}
		p.expectKw("then")
		w.Then = p.parseExpr()
		c.Whens = append(c.Whens, w)
	}
	if p.acceptKw("else") {
		c.Else = p.parseExpr()
	}
	p.expectKw("end")
	return c
}

var _ = big.NewInt
