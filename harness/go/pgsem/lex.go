//go:build verif

package pgsem

import (
	"strings"
)

type tokKind int

const (
	tEOF tokKind = iota
	tIdent
	tQIdent
	tNumber
	tString
	tOp
	tParam
)

type token struct {
	kind tokKind
	s    string // ident: lowercased; qident/string: content; op: text
	pos  int
}

var multiOps = []string{"->>", "#>>", "::", "<=", ">=", "<>", "!=", "||", "->", "#>", "@>", "<@", "?|", "?&", "@@", ":=", "=>"}

func lex(src string) ([]token, error) {
	var out []token
	i, n := 0, len(src)
	for i < n {
		c := src[i]
		switch {
		case c == ' ' || c == '\t' || c == '\n' || c == '\r':
			i++
		case c == '-' && i+1 < n && src[i+1] == '-':
			for i < n && src[i] != '\n' {
				i++
			}
		case c == '/' && i+1 < n && src[i+1] == '*':
			j := strings.Index(src[i+2:], "*/")
			if j < 0 {
				return nil, errf("42601", "unterminated comment")
			}
			i += j + 4
		case c == '\'' || ((c == 'E' || c == 'e') && i+1 < n && src[i+1] == '\''):
			esc := false
			if c != '\'' {
				esc = true
				i++
			}
			st := i
			i++
			var sb strings.Builder
			for {
				if i >= n {
					return nil, errf("42601", "unterminated string at %d", st)
				}
				if src[i] == '\'' {
					if i+1 < n && src[i+1] == '\'' {
						sb.WriteByte('\'')
						i += 2
						continue
					}
					i++
					break
				}
				if esc && src[i] == '\\' && i+1 < n {
					i++
					switch src[i] {
					case 'n':
						sb.WriteByte('\n')
					case 't':
						sb.WriteByte('\t')
					case 'r':
						sb.WriteByte('\r')
					default:
						sb.WriteByte(src[i])
					}
					i++
					continue
				}
				sb.WriteByte(src[i])
				i++
			}
			out = append(out, token{tString, sb.String(), st})
		case c == '"':
			st := i
			i++
			var sb strings.Builder
			for {
				if i >= n {
					return nil, errf("42601", "unterminated identifier")
				}
				if src[i] == '"' {
					if i+1 < n && src[i+1] == '"' {
						sb.WriteByte('"')
						i += 2
						continue
					}
					i++
					break
				}
				sb.WriteByte(src[i])
				i++
			}
			out = append(out, token{tQIdent, sb.String(), st})
		case c == '$':
			// dollar-quoted string $tag$...$tag$ or parameter $1
			j := i + 1
			for j < n && (isIdentChar(src[j])) {
				j++
			}
			if j < n && src[j] == '$' && (j == i+1 || !isDigit(src[i+1])) {
				tag := src[i : j+1]
				end := strings.Index(src[j+1:], tag)
				if end < 0 {
					return nil, errf("42601", "unterminated dollar string")
				}
				out = append(out, token{tString, src[j+1 : j+1+end], i})
				i = j + 1 + end + len(tag)
			} else if j > i+1 {
				out = append(out, token{tParam, src[i+1 : j], i})
				i = j
			} else {
				return nil, errf("42601", "unexpected $ at %d", i)
			}
		case isDigit(c):
			st := i
			for i < n && (isDigit(src[i]) || src[i] == '.') {
				i++
			}
			out = append(out, token{tNumber, src[st:i], st})
		case isIdentStart(c):
			st := i
			for i < n && isIdentChar(src[i]) {
				i++
			}
			out = append(out, token{tIdent, strings.ToLower(src[st:i]), st})
		default:
			matched := false
			for _, op := range multiOps {
				if strings.HasPrefix(src[i:], op) {
					out = append(out, token{tOp, op, i})
					i += len(op)
					matched = true
					break
				}
			}
			if !matched {
				out = append(out, token{tOp, string(c), i})
				i++
			}
		}
	}
	out = append(out, token{tEOF, "", n})
	return out, nil
}

func isDigit(c byte) bool      { return c >= '0' && c <= '9' }
func isIdentStart(c byte) bool { return c == '_' || (c >= 'a' && c <= 'z') || (c >= 'A' && c <= 'Z') || c >= 0x80 }
func isIdentChar(c byte) bool  { return isIdentStart(c) || isDigit(c) }
