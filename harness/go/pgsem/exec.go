//go:build verif

package pgsem

import (
	"encoding/json"
	"math/big"
	"sort"
	"strings"
)

// Rel is a materialised relation (query result / CTE)
type Rel struct {
	Cols []string
	Rows [][]Value
	vers []*RowVer // parallel to Rows when every row maps to one base-table row (FOR UPDATE)
	tbl  *Table
	nAffected int
}

// Exec is the execution context of one top-level statement (one snapshot, one command id)
type Exec struct {
	db      *DB
	sess    *Session
	snap    uint64 // commit sequence visible to this statement
	cid     uint32 // command id: own-transaction changes with cmin < cid are visible
	ctes    map[string]*Rel
	parent  *Exec
	after   []func() // queued AFTER ROW triggers
	depth   int
}

func (ex *Exec) lookupCTE(name string) *Rel {
	for e := ex; e != nil; e = e.parent {
		if r, ok := e.ctes[name]; ok {
			return r
		}
	}
	return nil
}

// joined row: one binding per FROM relation
type jrow []*binding

func (ex *Exec) envFor(row jrow, parent *Env) *Env {
	return &Env{rels: row, parent: parent, ex: ex}
}

func (ex *Exec) scanTable(t *Table, alias string) []jrow {
	var out []jrow
	for _, v := range t.Rows {
		if ex.visible(v) {
			out = append(out, jrow{&binding{alias: alias, cols: t.colNames, row: v.Vals, ver: v, tbl: t}})
		}
	}
	return out
}

func relToRows(r *Rel, alias string) []jrow {
	out := make([]jrow, len(r.Rows))
	for i, row := range r.Rows {
		b := &binding{alias: alias, cols: r.Cols, row: row}
		if r.vers != nil {
			b.ver, b.tbl = r.vers[i], r.tbl
		}
		out[i] = jrow{b}
	}
	return out
}

func nullBindings(sample []jrow, shape jrow) jrow {
	out := make(jrow, len(shape))
	for i, b := range shape {
		out[i] = &binding{alias: b.alias, cols: b.cols, row: nil}
	}
	return out
}

// evalFrom returns the rows produced by one FROM item, given the bindings to its left (for LATERAL)
func (ex *Exec) evalFrom(it FromItem, left jrow, outer *Env) (rows []jrow, shape jrow) {
	switch f := it.(type) {
	case *TableRef:
		alias := f.Alias
		if alias == "" {
			alias = f.Name
		}
		if f.Schema == "" {
			if r := ex.lookupCTE(f.Name); r != nil {
				rr := relToRows(r, alias)
				return rr, jrow{&binding{alias: alias, cols: r.Cols}}
			}
		}
		t := ex.db.table(ex.sch(f.Schema), f.Name)
		return ex.scanTable(t, alias), jrow{&binding{alias: alias, cols: t.colNames}}
	case *aliasedSub:
		rows, shape := ex.evalFrom(f.SubRef, left, outer)
		cols := append([]string{}, shape[0].cols...)
		copy(cols, f.Cols)
		shape[0].cols = cols
		for _, r := range rows {
			r[0].cols = cols
		}
		return rows, shape
	case *SubRef:
		env := ex.envFor(left, outer)
		rel := ex.runSelect(f.Sel, env)
		return relToRows(rel, f.Alias), jrow{&binding{alias: f.Alias, cols: rel.Cols}}
	case *FuncRef:
		env := ex.envFor(left, outer)
		alias := f.Alias
		if alias == "" {
			alias = f.Fn.Name
		}
		switch f.Fn.Name {
		case "unnest", "jsonb_array_elements", "jsonb_array_elements_text":
			v := env.Eval(f.Fn.Args[0])
			col := alias
			if len(f.ColAliases) > 0 {
				col = f.ColAliases[0]
			} else if f.Fn.Name != "unnest" {
				col = "value"
			}
			var items []Value
			switch x := v.(type) {
			case Arr:
				items = x
			case JSON:
				for _, e := range x.V.([]any) {
					if f.Fn.Name == "jsonb_array_elements_text" {
						if s, ok := e.(string); ok {
							items = append(items, s)
						} else {
							items = append(items, JSON{e}.String())
						}
					} else {
						items = append(items, JSON{e})
					}
				}
			}
			for _, itv := range items {
				rows = append(rows, jrow{&binding{alias: alias, cols: []string{col}, row: []Value{itv}}})
			}
			return rows, jrow{&binding{alias: alias, cols: []string{col}}}
		}
		v := env.Eval(f.Fn)
		if c, ok := v.(Comp); ok { // composite-returning function: expand fields
			cols := compositeTypes[c.Type]
			return []jrow{{&binding{alias: alias, cols: cols, row: c.Fields}}}, jrow{&binding{alias: alias, cols: cols}}
		}
		return []jrow{{&binding{alias: alias, cols: []string{alias}, row: []Value{v}}}}, jrow{&binding{alias: alias, cols: []string{alias}}}
	case *JoinRef:
		lrows, lshape := ex.evalFrom(f.L, left, outer)
		var rshape jrow
		for _, lr := range lrows {
			ctx := append(append(jrow{}, left...), lr...)
			rrows, rs := ex.evalFrom(f.R, ctx, outer)
			rshape = rs
			matched := false
			for _, rr := range rrows {
				comb := append(append(jrow{}, lr...), rr...)
				if f.On != nil {
					env := ex.envFor(append(append(jrow{}, left...), comb...), outer)
					if b, known := truth(env.Eval(f.On)); !known || !b {
						continue
					}
				}
				matched = true
				rows = append(rows, comb)
			}
			if !matched && f.Kind == "left" {
				rows = append(rows, append(append(jrow{}, lr...), nullBindings(nil, rs)...))
			}
		}
		if rshape == nil {
			_, rshape = ex.evalFromShape(f.R, append(append(jrow{}, left...), lshape...), outer)
		}
		return rows, append(append(jrow{}, lshape...), rshape...)
	}
	panic(errf("XX000", "unsupported FROM item %T", it))
}

// evalFromShape: shape only (used when the left side of a join is empty)
func (ex *Exec) evalFromShape(it FromItem, left jrow, outer *Env) ([]jrow, jrow) {
	defer func() { recover() }()
	switch f := it.(type) {
	case *SubRef:
		if len(f.Sel.Cols) > 0 {
			cols := make([]string, 0)
			for _, c := range f.Sel.Cols {
				cols = append(cols, selItemName(c))
			}
			return nil, jrow{&binding{alias: f.Alias, cols: cols}}
		}
	}
	_, shape := ex.evalFrom(it, left, outer)
	return nil, shape
}

func selItemName(it SelItem) string {
	if it.Alias != "" {
		return it.Alias
	}
	switch x := unparen(it.X).(type) {
	case *ColRef:
		return x.Name
	case *FuncExpr:
		return x.Name
	case *CastExpr:
		return selItemName(SelItem{X: x.X})
	case *FieldExpr:
		return x.Name
	case *CaseExpr:
		return "case"
	case *SubExpr:
		if len(x.Sub.Cols) == 1 {
			return selItemName(x.Sub.Cols[0])
		}
	case *ExistsExpr:
		return "exists"
	case *IndexExpr:
		return selItemName(SelItem{X: x.X})
	}
	return "?column?"
}

func walkExpr(x Expr, f func(Expr)) {
	if x == nil {
		return
	}
	f(x)
	switch n := x.(type) {
	case *parenExpr:
		walkExpr(n.X, f)
	case *BinExpr:
		walkExpr(n.L, f)
		walkExpr(n.R, f)
	case *UnExpr:
		walkExpr(n.X, f)
	case *IsNullExpr:
		walkExpr(n.X, f)
	case *FuncExpr:
		for _, a := range n.Args {
			walkExpr(a, f)
		}
	case *CastExpr:
		walkExpr(n.X, f)
	case *CaseExpr:
		walkExpr(n.Operand, f)
		for _, w := range n.Whens {
			walkExpr(w.Cond, f)
			walkExpr(w.Then, f)
		}
		walkExpr(n.Else, f)
	case *InExpr:
		walkExpr(n.X, f)
		for _, a := range n.List {
			walkExpr(a, f)
		}
	case *RowExpr:
		for _, a := range n.Items {
			walkExpr(a, f)
		}
	case *ArrayExpr:
		for _, a := range n.Items {
			walkExpr(a, f)
		}
	case *FieldExpr:
		walkExpr(n.X, f)
	case *IndexExpr:
		walkExpr(n.X, f)
		walkExpr(n.Lo, f)
		walkExpr(n.Hi, f)
	}
}

func collectFuncs(s *Select) (aggs, wins []*FuncExpr) {
	visit := func(x Expr) {
		walkExpr(x, func(e Expr) {
			if f, ok := e.(*FuncExpr); ok {
				if f.Over != nil {
					wins = append(wins, f)
				} else if isAggregate(f) {
					aggs = append(aggs, f)
				}
			}
		})
	}
	for _, c := range s.Cols {
		visit(c.X)
	}
	visit(s.Having)
	for _, o := range s.Order {
		visit(o.X)
	}
	// aggregates nested inside window/aggregate args are not supported (not emitted by the ledger)
	return
}

func (ex *Exec) computeAgg(f *FuncExpr, rows []jrow, outer *Env) Value {
	var vals []Value
	var vals2 []Value
	for _, r := range rows {
		env := ex.envFor(r, outer)
		if f.Star {
			vals = append(vals, true)
			continue
		}
		v := env.Eval(f.Args[0])
		if len(f.Args) > 1 {
			vals2 = append(vals2, env.Eval(f.Args[1]))
		}
		vals = append(vals, v)
	}
	if f.Distinct {
		seen := map[string]bool{}
		var d []Value
		for _, v := range vals {
			k := groupKey([]Value{v})
			if !seen[k] {
				seen[k] = true
				d = append(d, v)
			}
		}
		vals = d
	}
	switch f.Name {
	case "count":
		n := 0
		for _, v := range vals {
			if v != nil {
				n++
			}
		}
		return big.NewInt(int64(n))
	case "sum":
		var acc *big.Int
		for _, v := range vals {
			if v == nil {
				continue
			}
			if acc == nil {
				acc = new(big.Int)
			}
			acc.Add(acc, asNum(v))
		}
		if acc == nil {
			return nil
		}
		return acc
	case "min", "max":
		var best Value
		for _, v := range vals {
			if v == nil {
				continue
			}
			if best == nil {
				best = v
				continue
			}
			c, _, err := Compare(v, best)
			if err != nil {
				panic(err)
			}
			if (f.Name == "min" && c < 0) || (f.Name == "max" && c > 0) {
				best = v
			}
		}
		return best
	case "array_agg":
		if len(vals) == 0 {
			return nil
		}
		return Arr(append([]Value{}, vals...))
	case "first":
		for _, v := range vals {
			if v != nil {
				return v
			}
		}
		return nil
	case "aggregate_objects":
		out := map[string]any{}
		for _, v := range vals {
			if v == nil {
				continue
			}
			j, err := Cast(v, "jsonb")
			if err != nil {
				panic(err)
			}
			m, ok := j.(JSON).V.(map[string]any)
			if !ok {
				panic(errf("22023", "aggregate_objects over non-object"))
			}
			for k, vv := range m {
				out[k] = vv
			}
		}
		return JSON{out}
	case "jsonb_agg", "json_agg":
		if len(vals) == 0 {
			return nil
		}
		arr := make([]any, len(vals))
		for i, v := range vals {
			arr[i] = toJSONValue(v)
		}
		return JSON{arr}
	case "bool_or", "bool_and":
		var res Value
		for _, v := range vals {
			if v == nil {
				continue
			}
			b := v.(bool)
			if res == nil {
				res = b
			} else if f.Name == "bool_or" {
				res = res.(bool) || b
			} else {
				res = res.(bool) && b
			}
		}
		return res
	case "string_agg":
		var sb strings.Builder
		any_ := false
		for i, v := range vals {
			if v == nil {
				continue
			}
			if any_ && vals2[i] != nil {
				sb.WriteString(TextOf(vals2[i]))
			}
			sb.WriteString(TextOf(v))
			any_ = true
		}
		if !any_ {
			return nil
		}
		return sb.String()
	}
	panic(errf("42883", "aggregate %s not supported", f.Name))
}

func (ex *Exec) sortRows(rows []jrow, order []OrderItem, outer *Env, aggs []map[*FuncExpr]Value) []int {
	keys := make([][]Value, len(rows))
	for i, r := range rows {
		env := ex.envFor(r, outer)
		if aggs != nil {
			env.aggs = aggs[i]
		}
		k := make([]Value, len(order))
		for j, o := range order {
			k[j] = env.Eval(o.X)
		}
		keys[i] = k
	}
	idx := make([]int, len(rows))
	for i := range idx {
		idx[i] = i
	}
	sort.SliceStable(idx, func(a, b int) bool {
		ka, kb := keys[idx[a]], keys[idx[b]]
		for j, o := range order {
			c := sortCompare(ka[j], kb[j])
			if o.Desc {
				c = -c
			}
			if c != 0 {
				return c < 0
			}
		}
		return false
	})
	return idx
}

func (ex *Exec) runSelect(s *Select, outer *Env) *Rel {
	if len(s.With) > 0 {
		sub := &Exec{db: ex.db, sess: ex.sess, snap: ex.snap, cid: ex.cid, ctes: map[string]*Rel{}, parent: ex, depth: ex.depth}
		for _, c := range s.With {
			var rel *Rel
			switch st := c.Stmt.(type) {
			case *Select:
				rel = sub.runSelect(st, outer)
			case *Insert:
				rel = sub.runInsert(st, outer)
			case *Update:
				rel = sub.runUpdate(st, outer)
			case *Delete:
				rel = sub.runDelete(st, outer)
			}
			if len(c.Cols) > 0 {
				cols := append([]string{}, rel.Cols...)
				copy(cols, c.Cols)
				rel = &Rel{Cols: cols, Rows: rel.Rows, vers: rel.vers, tbl: rel.tbl}
			}
			sub.ctes[c.Name] = rel
		}
		s2 := *s
		s2.With = nil
		r := sub.runSelect(&s2, outer)
		ex.after = append(ex.after, sub.after...)
		return r
	}
	var rel *Rel
	switch {
	case s.Paren != nil:
		rel = ex.runSelect(s.Paren, outer)
	case len(s.Unions) > 0:
		rel = &Rel{}
		for i, arm := range s.Unions {
			r := ex.runSelect(arm, outer)
			if i == 0 {
				rel.Cols = r.Cols
			} else if len(r.Cols) != len(rel.Cols) {
				panic(errf("42601", "each UNION query must have the same number of columns"))
			}
			rel.Rows = append(rel.Rows, r.Rows...)
		}
	case s.Values != nil:
		rel = &Rel{}
		env := &Env{parent: outer, ex: ex}
		for i, row := range s.Values {
			vals := make([]Value, len(row))
			for j, x := range row {
				vals[j] = env.Eval(x)
			}
			if i == 0 {
				for j := range row {
					rel.Cols = append(rel.Cols, "column"+itoa(j+1))
				}
			}
			rel.Rows = append(rel.Rows, vals)
		}
		// resolve untyped literals column-wise against typed siblings
		for j := range rel.Cols {
			var typ string
			for _, r := range rel.Rows {
				if _, isU := r[j].(Unknown); !isU && r[j] != nil {
					typ = typeName(r[j])
					break
				}
			}
			for _, r := range rel.Rows {
				if u, isU := r[j].(Unknown); isU {
					if typ == "" {
						r[j] = string(u)
					} else if c, err := Cast(u, typ); err == nil {
						r[j] = c
					} else {
						panic(err)
					}
				}
			}
		}
	default:
		return ex.runCore(s, outer)
	}
	// ORDER BY / LIMIT over a compound result
	if len(s.Order) > 0 {
		rows := relToRows(rel, "")
		for _, r := range rows {
			r[0].alias = "\x00out"
		}
		idx := ex.sortRows(rows, s.Order, outer, nil)
		nr := make([][]Value, len(idx))
		for i, k := range idx {
			nr[i] = rel.Rows[k]
		}
		rel = &Rel{Cols: rel.Cols, Rows: nr}
	}
	rel = ex.limitOffset(rel, s, outer)
	if s.ForUpdate {
		ex.lockRel(rel)
	}
	return rel
}

func itoa(i int) string { return big.NewInt(int64(i)).String() }

func (ex *Exec) limitOffset(rel *Rel, s *Select, outer *Env) *Rel {
	if s.Offset != nil {
		env := &Env{parent: outer, ex: ex}
		if v := env.Eval(s.Offset); v != nil {
			n := int(asNum(v).Int64())
			if n > len(rel.Rows) {
				n = len(rel.Rows)
			}
			rel = &Rel{Cols: rel.Cols, Rows: rel.Rows[n:], vers: sliceVers(rel.vers, n, len(rel.Rows)), tbl: rel.tbl}
		}
	}
	if s.Limit != nil {
		env := &Env{parent: outer, ex: ex}
		if v := env.Eval(s.Limit); v != nil {
			n := int(asNum(v).Int64())
			if n < len(rel.Rows) {
				rel = &Rel{Cols: rel.Cols, Rows: rel.Rows[:n], vers: sliceVers(rel.vers, 0, n), tbl: rel.tbl}
			}
		}
	}
	return rel
}

func sliceVers(v []*RowVer, lo, hi int) []*RowVer {
	if v == nil {
		return nil
	}
	return v[lo:hi]
}

func (ex *Exec) runCore(s *Select, outer *Env) *Rel {
	// FROM
	rows := []jrow{{}}
	var shape jrow
	for _, it := range s.From {
		var next []jrow
		var sh jrow
		for _, left := range rows {
			rr, s2 := ex.evalFrom(it, left, outer)
			sh = s2
			for _, r := range rr {
				next = append(next, append(append(jrow{}, left...), r...))
			}
		}
		if sh == nil {
			_, sh = ex.evalFromShape(it, shape, outer)
		}
		shape = append(shape, sh...)
		rows = next
	}
	// WHERE
	if s.Where != nil {
		var kept []jrow
		for _, r := range rows {
			if b, known := truth(ex.envFor(r, outer).Eval(s.Where)); known && b {
				kept = append(kept, r)
			}
		}
		rows = kept
	}
	aggs, wins := collectFuncs(s)
	var aggVals []map[*FuncExpr]Value
	grouped := len(aggs) > 0 || len(s.GroupBy) > 0
	if grouped {
		type grp struct {
			rows []jrow
		}
		var order []string
		groups := map[string]*grp{}
		for _, r := range rows {
			env := ex.envFor(r, outer)
			key := make([]Value, len(s.GroupBy))
			for i, g := range s.GroupBy {
				key[i] = env.Eval(g)
			}
			k := groupKey(key)
			if groups[k] == nil {
				groups[k] = &grp{}
				order = append(order, k)
			}
			groups[k].rows = append(groups[k].rows, r)
		}
		if len(s.GroupBy) == 0 && len(order) == 0 {
			groups[""] = &grp{}
			order = []string{""}
		}
		var reps []jrow
		for _, k := range order {
			g := groups[k]
			m := map[*FuncExpr]Value{}
			for _, a := range aggs {
				m[a] = ex.computeAgg(a, g.rows, outer)
			}
			if len(g.rows) > 0 {
				reps = append(reps, g.rows[0])
			} else {
				reps = append(reps, nullBindings(nil, shape))
			}
			aggVals = append(aggVals, m)
		}
		rows = reps
		if s.Having != nil {
			var kept []jrow
			var keptA []map[*FuncExpr]Value
			for i, r := range rows {
				env := ex.envFor(r, outer)
				env.aggs = aggVals[i]
				if b, known := truth(env.Eval(s.Having)); known && b {
					kept = append(kept, r)
					keptA = append(keptA, aggVals[i])
				}
			}
			rows, aggVals = kept, keptA
		}
	}
	if len(wins) > 0 {
		if aggVals == nil {
			aggVals = make([]map[*FuncExpr]Value, len(rows))
		}
		for i := range aggVals {
			if aggVals[i] == nil {
				aggVals[i] = map[*FuncExpr]Value{}
			}
		}
		for _, w := range wins {
			parts := map[string][]int{}
			var porder []string
			for i, r := range rows {
				env := ex.envFor(r, outer)
				env.aggs = aggVals[i]
				key := make([]Value, len(w.Over.Partition))
				for j, p := range w.Over.Partition {
					key[j] = env.Eval(p)
				}
				k := groupKey(key)
				if _, ok := parts[k]; !ok {
					porder = append(porder, k)
				}
				parts[k] = append(parts[k], i)
			}
			for _, k := range porder {
				members := parts[k]
				sub := make([]jrow, len(members))
				subA := make([]map[*FuncExpr]Value, len(members))
				for i, m := range members {
					sub[i] = rows[m]
					subA[i] = aggVals[m]
				}
				idx := ex.sortRows(sub, w.Over.Order, outer, subA)
				switch w.Name {
				case "first_value":
					env := ex.envFor(sub[idx[0]], outer)
					env.aggs = subA[idx[0]]
					v := env.Eval(w.Args[0])
					for _, m := range members {
						aggVals[m][w] = v
					}
				case "row_number":
					for rank, k2 := range idx {
						aggVals[members[k2]][w] = big.NewInt(int64(rank + 1))
					}
				default:
					panic(errf("0A000", "window function %s not supported", w.Name))
				}
			}
		}
	}
	// projection
	rel := &Rel{}
	type outItem struct {
		name string
		x    Expr
		star *binding // when expanded from *
		si   int
		bi   int
	}
	var items []outItem
	expandStar := func(tbl string) {
		found := false
		for bi, b := range shape {
			if tbl != "" && b.alias != tbl {
				continue
			}
			found = true
			for ci, c := range b.cols {
				items = append(items, outItem{name: c, star: b, si: ci, bi: bi})
			}
		}
		if !found && tbl != "" {
			panic(errf("42P01", "missing FROM-clause entry for table %q", tbl))
		}
	}
	for _, c := range s.Cols {
		switch x := unparen(c.X).(type) {
		case *StarRef:
			expandStar(x.Table)
			continue
		case *FieldExpr:
			if x.Name == "*" {
				panic(errf("0A000", "(x).* not supported"))
			}
		}
		items = append(items, outItem{name: selItemName(c), x: c.X})
	}
	for _, it := range items {
		rel.Cols = append(rel.Cols, it.name)
	}
	singleBase := len(shape) >= 1 && !grouped
	outBind := &binding{alias: "\x00out", cols: rel.Cols}
	for i, r := range rows {
		env := ex.envFor(r, outer)
		if aggVals != nil {
			env.aggs = aggVals[i]
		}
		vals := make([]Value, len(items))
		for j, it := range items {
			if it.star != nil {
				vals[j] = r[it.bi].get(it.si)
			} else {
				vals[j] = env.Eval(it.x)
			}
			if u, ok := vals[j].(Unknown); ok {
				vals[j] = string(u)
			}
		}
		rel.Rows = append(rel.Rows, vals)
		if singleBase && len(r) > 0 && r[0].ver != nil {
			rel.vers = append(rel.vers, r[0].ver)
			rel.tbl = r[0].tbl
		}
	}
	if len(rel.vers) != len(rel.Rows) {
		rel.vers = nil
	}
	// ORDER BY (output aliases first, then input columns), DISTINCT ON
	perm := make([]int, len(rows))
	for i := range perm {
		perm[i] = i
	}
	order := s.Order
	if len(s.DistinctOn) > 0 && len(order) == 0 {
		for _, d := range s.DistinctOn {
			order = append(order, OrderItem{X: d})
		}
	}
	evalKey := func(i int, x Expr) Value {
		env := ex.envFor(rows[i], outer)
		if aggVals != nil {
			env.aggs = aggVals[i]
		}
		if lit, ok := unparen(x).(*Lit); ok { // ORDER BY <ordinal>
			if n, ok := lit.V.(*big.Int); ok {
				return rel.Rows[i][int(n.Int64())-1]
			}
		}
		if c, ok := unparen(x).(*ColRef); ok && c.Table == "" {
			ob := *outBind
			ob.row = rel.Rows[i]
			// an output alias shadows input columns only for bare names
			if ob.idx(c.Name) >= 0 {
				// if an input column of the same name exists and the output item is that same column, either is fine
				return ob.get(ob.idx(c.Name))
			}
		}
		return env.Eval(x)
	}
	if len(order) > 0 {
		keys := make([][]Value, len(rows))
		for i := range rows {
			k := make([]Value, len(order))
			for j, o := range order {
				k[j] = evalKey(i, o.X)
			}
			keys[i] = k
		}
		sort.SliceStable(perm, func(a, b int) bool {
			ka, kb := keys[perm[a]], keys[perm[b]]
			for j, o := range order {
				c := sortCompare(ka[j], kb[j])
				if o.Desc {
					c = -c
				}
				if c != 0 {
					return c < 0
				}
			}
			return false
		})
	}
	if len(s.DistinctOn) > 0 {
		var kept []int
		var last []Value
		for _, i := range perm {
			k := make([]Value, len(s.DistinctOn))
			for j, d := range s.DistinctOn {
				k[j] = evalKey(i, d)
			}
			if last == nil || !valuesEqualForGroup(k, last) {
				kept = append(kept, i)
				last = k
			}
		}
		perm = kept
	}
	out := &Rel{Cols: rel.Cols, tbl: rel.tbl}
	for _, i := range perm {
		out.Rows = append(out.Rows, rel.Rows[i])
		if rel.vers != nil {
			out.vers = append(out.vers, rel.vers[i])
		}
	}
	if s.Distinct {
		seen := map[string]bool{}
		var rows2 [][]Value
		for _, r := range out.Rows {
			k := groupKey(r)
			if !seen[k] {
				seen[k] = true
				rows2 = append(rows2, r)
			}
		}
		out.Rows, out.vers = rows2, nil
	}
	out = ex.limitOffset(out, s, outer)
	if s.ForUpdate {
		ex.lockRel(out)
	}
	return out
}

var _ = json.Marshal
