//go:build verif

package pgsem

import (
	"fmt"
	"regexp"
	"sort"
	"strings"
	"sync"
)

type Column struct {
	Name, Type string
	Default    Expr
	NotNull    bool
}

type UniqueIdx struct {
	Name  string
	Cols  []int
	Where Expr
}

type Trigger struct {
	Name, Timing, Event string
	When                Expr
	Func                string
}

type RowVer struct {
	Vals       []Value
	Xmin, Xmax uint64
	Cmin, Cmax uint32
	Next       *RowVer
	Locker     uint64 // SELECT … FOR UPDATE holder
}

type Table struct {
	Schema, Name string
	Cols         []Column
	colNames     []string
	Rows         []*RowVer
	Uniques      []*UniqueIdx
	Triggers     []*Trigger
}

func (t *Table) col(name string) int {
	for i, c := range t.colNames {
		if c == name {
			return i
		}
	}
	return -1
}

type Function struct {
	Name, Lang, Body string
	Params           []string
	Returns          string
	IsProc           bool
	parsed           *plBlock
}

type sequence struct {
	next     int64
	isCalled bool
	cache    int64 // CACHE option: values preallocated per session and per access (<= 1: none)
}

type txStatus struct {
	committed bool
	seq       uint64
	done      bool
}

// Scheduler lets a harness take control of blocking: Block is called (with db.mu released) when a
// session must wait for transaction `on` to finish (or for an advisory lock held by it).
type Scheduler interface {
	Block(sess *Session, on uint64)
	Yield(sess *Session, what string)
}

type DB struct {
	mu            sync.Mutex
	cond          *sync.Cond
	tables        map[string]*Table // key schema.name
	funcs         map[string]*Function
	seqs          map[string]*sequence
	tx            map[uint64]*txStatus
	nextXid       uint64
	commitSeq     uint64
	DefaultSchema string
	Clock         TS // logical clock, advanced by the harness
	LoopLimit     int // iterations after which a PL/pgSQL LOOP is aborted with SQLSTATE 54000 (0: one million); a harness guard, not PostgreSQL behaviour
	Sched         Scheduler
	advisory      map[int64]*advLock
	Log           func(sess int, sql string)
	FaultHook     func(sess *Session, sql string) error
	CommitHook    func(sess *Session) error
	// TxHook observes the boundaries of explicit top-level transactions: kind = begin | commit | commit_fail | rollback
	// (savepoints are not boundaries). StmtHook observes every non-transaction-control statement after it ran.
	TxHook        func(sess *Session, kind string)
	StmtHook      func(sess *Session, sql string, res *Result, err error)
	sessions      int
	Stats         map[string]int
}

type advLock struct {
	holder *Session
	xact   bool
	count  int
}

func NewDB(defaultSchema string) *DB {
	db := &DB{tables: map[string]*Table{}, funcs: map[string]*Function{}, seqs: map[string]*sequence{}, tx: map[uint64]*txStatus{},
		nextXid: 2, DefaultSchema: defaultSchema, advisory: map[int64]*advLock{}, Stats: map[string]int{}}
	db.cond = sync.NewCond(&db.mu)
	return db
}

func (db *DB) table(schema, name string) *Table {
	if schema == "" {
		schema = db.DefaultSchema
	}
	t := db.tables[schema+"."+name]
	if t == nil {
		// unqualified names fall back to any schema holding the table (search_path approximation)
		for k, v := range db.tables {
			if strings.HasSuffix(k, "."+name) && schema == db.DefaultSchema {
				return v
			}
		}
		panic(errf("42P01", "relation %q does not exist", schema+"."+name))
	}
	return t
}

// AddTable registers a table; cols: "name type [not null] [default <expr>]"
func (db *DB) AddTable(schema, name string, cols []string) *Table {
	t := &Table{Schema: schema, Name: name}
	for _, c := range cols {
		fields := strings.Fields(c)
		col := Column{Name: fields[0]}
		rest := strings.Join(fields[1:], " ")
		lower := strings.ToLower(rest)
		if i := strings.Index(lower, " default "); i >= 0 {
			stmts, err := ParseScript("select " + rest[i+9:])
			if err != nil {
				panic(err)
			}
			col.Default = stmts[0].(*Select).Cols[0].X
			rest = rest[:i]
			lower = lower[:i]
		}
		if strings.Contains(lower, "not null") {
			col.NotNull = true
			rest = strings.TrimSpace(rest[:strings.Index(lower, "not null")])
		}
		col.Type = strings.TrimSpace(rest)
		t.Cols = append(t.Cols, col)
		t.colNames = append(t.colNames, col.Name)
	}
	db.tables[schema+"."+name] = t
	return t
}

// sch resolves the schema of an unqualified name in the current execution context
func (ex *Exec) sch(schema string) string {
	if schema != "" {
		return schema
	}
	if ex.sess != nil && ex.sess.schemaCtx != "" {
		return ex.sess.schemaCtx
	}
	return ex.db.DefaultSchema
}

// withSchema runs f with unqualified names resolving in schema (function bodies, triggers, column defaults)
func (ex *Exec) withSchema(schema string, f func()) {
	if ex.sess == nil || schema == "" {
		f()
		return
	}
	old := ex.sess.schemaCtx
	ex.sess.schemaCtx = schema
	defer func() { ex.sess.schemaCtx = old }()
	f()
}

// seqKey: sequences live in a schema; a qualified name is exact, an unqualified one resolves in the context schema, then the
// default schema, then any schema holding a sequence of that name (search_path approximation)
func (ex *Exec) seqKey(s string) string {
	s = strings.ReplaceAll(s, `"`, "")
	if i := strings.LastIndex(s, "."); i >= 0 {
		return s
	}
	for _, c := range []string{ex.sch(""), ex.db.DefaultSchema} {
		if _, ok := ex.db.seqs[c+"."+s]; ok {
			return c + "." + s
		}
	}
	var names []string
	for k := range ex.db.seqs {
		if strings.HasSuffix(k, "."+s) {
			names = append(names, k)
		}
	}
	sort.Strings(names)
	if len(names) > 0 {
		return names[0]
	}
	return ex.sch("") + "." + s
}

func (db *DB) nextval(name string) int64 {
	s := db.seqs[name]
	if s == nil {
		panic(errf("42P01", "sequence %q does not exist", name))
	}
	if s.isCalled {
		s.next++
	}
	s.isCalled = true
	return s.next
}
func (db *DB) setval(name string, v int64, isCalled bool) {
	s := db.seqs[name]
	if s == nil {
		panic(errf("42P01", "sequence %q does not exist", name))
	}
	s.next, s.isCalled = v, isCalled
}

// Session-level sequence access.  CREATE SEQUENCE ... CACHE n (PostgreSQL documentation, CREATE SEQUENCE, Notes; sequence.c
// nextval_internal / do_setval): with n > 1 EACH SESSION that calls nextval allocates n successive values during one access to the
// sequence object and advances the sequence's last_value accordingly; its next n-1 calls return the preallocated values without
// touching the sequence object, so "the values might be generated out of sequence when all the sessions are considered".
// setval discards only the calling session's preallocated values ("forget any future cached numbers"); other sessions do not
// notice it until they have used up theirs.  Values left in a session's cache when it ends are lost.  With n = 1 (the default)
// this is the plain shared counter.
type seqCache struct{ cur, last int64 }

func (s *Session) nextval(name string) int64 {
	db := s.db
	sq := db.seqs[name]
	if sq == nil {
		panic(errf("42P01", "sequence %q does not exist", name))
	}
	if sq.cache <= 1 {
		return db.nextval(name)
	}
	if c := s.seqCached[name]; c != nil && c.cur < c.last {
		c.cur++
		return c.cur
	}
	first := db.nextval(name)
	sq.next = first + sq.cache - 1 // last_value now covers the whole preallocated batch
	if s.seqCached == nil {
		s.seqCached = map[string]*seqCache{}
	}
	s.seqCached[name] = &seqCache{cur: first, last: sq.next}
	db.Stats["sequence_batches"]++
	return first
}

func (s *Session) setval(name string, v int64, isCalled bool) {
	s.db.setval(name, v, isCalled)
	delete(s.seqCached, name)
}

// ---------------------------------------------------------------- sessions / transactions
type undoRec func()

// IsoLevel: the isolation levels pgsem models (Transaction Isolation, chapter 13.2).  READ UNCOMMITTED is READ COMMITTED
// ("PostgreSQL's Read Uncommitted mode behaves like Read Committed", 13.2).  SERIALIZABLE (13.2.3: REPEATABLE READ plus predicate-lock
// monitoring of read/write dependencies) is NOT modelled: asking for it is an error, never a silent downgrade.
type IsoLevel int

const (
	IsoReadCommitted IsoLevel = iota
	IsoRepeatableRead
)

func (l IsoLevel) String() string {
	if l == IsoRepeatableRead {
		return "repeatable read"
	}
	return "read committed"
}

type Tx struct {
	id         uint64
	undo       []undoRec
	failed     bool
	date       *TS
	cid        uint32
	savepoints []savepoint
	explicit   bool
	// REPEATABLE READ (13.2.2): "sees a snapshot as of the start of the first non-transaction-control statement in the transaction,
	// not as of the start of the current statement within the transaction": snap is fixed by the first statement that runs after
	// BEGIN (snapTaken) and every later statement - those of triggers and PL/pgSQL functions included - reads from it.  Waiting for
	// or obtaining a lock (row, unique index, advisory) never refreshes it.
	iso       IsoLevel
	snapTaken bool
	snap      uint64
	readOnly  bool // READ ONLY access mode (SET TRANSACTION): INSERT / UPDATE / DELETE fail with 25006
}
type savepoint struct {
	name string
	undo int
}

type Session struct {
	db       *DB
	ID       int
	tx       *Tx
	stmtTS   TS
	sessAdv  map[int64]int
	Waiting  uint64
	Tag      string
	// schemaCtx: the schema unqualified names resolve in while a function / trigger / column default of that schema runs
	// (the bucket's functions are created with `set search_path`); empty = the connection default (db.DefaultSchema)
	schemaCtx string
	// DeadlockVictim: set by a Scheduler (from Block, before it returns) when this session's wait closes a cycle in the
	// wait-for graph; the wait then ends the way PostgreSQL's deadlock detector ends it: the statement fails with
	// SQLSTATE 40P01 and the transaction is aborted (Explicit Locking, section 13.3.4 "Deadlocks": "PostgreSQL automatically
	// detects deadlock situations and resolves them by aborting one of the transactions involved"). Which transaction is
	// aborted is timing dependent in PostgreSQL; here the scheduler decides.
	DeadlockVictim bool
	seqCached      map[string]*seqCache // values of CACHE n sequences preallocated by this session
	advWait        bool                 // parked in Block for the advisory lock advWaitKey
	advWaitKey     int64
	// defaults of the session's transactions (default_transaction_isolation / default_transaction_read_only, set by SET SESSION
	// CHARACTERISTICS AS TRANSACTION ...); a BEGIN / SET TRANSACTION that names a mode overrides them for one transaction
	defIso      IsoLevel
	defReadOnly bool
}

// Isolation reports the isolation level of the session's open transaction (the session default when none is open).
func (s *Session) Isolation() IsoLevel {
	if s.tx != nil {
		return s.tx.iso
	}
	return s.defIso
}

// Xid is the id of the session's open transaction (0 when none).
func (s *Session) Xid() uint64 {
	if s.tx == nil {
		return 0
	}
	return s.tx.id
}

// TxDone reports whether transaction xid has finished (committed or rolled back); unknown ids count as finished.
func (db *DB) TxDone(xid uint64) bool {
	db.mu.Lock()
	defer db.mu.Unlock()
	st := db.tx[xid]
	return st == nil || st.done
}

func (s *Session) checkVictim() {
	if s.DeadlockVictim {
		s.DeadlockVictim = false
		s.Waiting = 0
		s.db.Stats["deadlocks"]++
		panic(errf("40P01", "deadlock detected"))
	}
}

func (db *DB) NewSession() *Session {
	db.mu.Lock()
	defer db.mu.Unlock()
	db.sessions++
	return &Session{db: db, ID: db.sessions, sessAdv: map[int64]int{}}
}

func (s *Session) InTx() bool { return s.tx != nil && s.tx.explicit }

func (s *Session) txHook(kind string) {
	if s.db.TxHook != nil {
		s.db.TxHook(s, kind)
	}
}

// CommitSeq is the number of transactions committed so far (implicit single-statement ones included).
func (db *DB) CommitSeq() uint64 { return db.commitSeq }

func (s *Session) begin(explicit bool) {
	xid := s.db.nextXid
	s.db.nextXid++
	s.db.tx[xid] = &txStatus{}
	s.tx = &Tx{id: xid, explicit: explicit, iso: s.defIso, readOnly: s.defReadOnly}
}

func (db *DB) noteRefusedIsolation() {
	db.mu.Lock()
	db.Stats["isolation_refused"]++
	db.mu.Unlock()
}

// isoOf maps the isolation level named by a statement; SERIALIZABLE is refused (see IsoLevel).
func isoOf(name string) IsoLevel {
	switch name {
	case "repeatable read":
		return IsoRepeatableRead
	case "serializable":
		panic(errf("0A000", "pgsem does not model ISOLATION LEVEL SERIALIZABLE (Transaction Isolation 13.2.3: predicate locks / serialization anomalies); refusing instead of downgrading"))
	}
	return IsoReadCommitted // read committed, read uncommitted (13.2: "Read Uncommitted mode behaves like Read Committed")
}

func (tx *Tx) setModes(t *TxStmt) {
	if t.Iso != "" {
		tx.iso = isoOf(t.Iso)
	}
	if t.Access != "" {
		tx.readOnly = t.Access == "read only"
	}
}

func (s *Session) stmtTime() TS { return s.stmtTS }
func (s *Session) txDate() TS {
	if s.tx.date == nil {
		d := s.stmtTS
		s.tx.date = &d
	}
	return *s.tx.date
}

func (s *Session) finish(commit bool) {
	db := s.db
	tx := s.tx
	if tx == nil {
		return
	}
	if !commit {
		for i := len(tx.undo) - 1; i >= 0; i-- {
			tx.undo[i]()
		}
	}
	st := db.tx[tx.id]
	st.done = true
	if commit {
		db.commitSeq++
		st.committed, st.seq = true, db.commitSeq
	}
	for k, l := range db.advisory {
		if l.holder == s && l.xact {
			delete(db.advisory, k)
		}
	}
	s.tx = nil
	db.cond.Broadcast()
}

// failTx: an error raised by a transaction-control statement inside a transaction block aborts it like any other error
func (s *Session) failTx() {
	if s.tx == nil || !s.tx.explicit || s.tx.failed {
		return
	}
	if len(s.tx.savepoints) == 0 {
		s.abortKeepBlock()
	} else {
		s.tx.failed = true
	}
}

// abortKeepBlock: the transaction is over for everybody else (undone, marked aborted, locks released) while the session
// stays in the failed transaction block until it issues ROLLBACK/COMMIT.
func (s *Session) abortKeepBlock() {
	db, tx := s.db, s.tx
	for i := len(tx.undo) - 1; i >= 0; i-- {
		tx.undo[i]()
	}
	tx.undo = nil
	tx.failed = true
	db.tx[tx.id].done = true
	for k, l := range db.advisory {
		if l.holder == s && l.xact {
			delete(db.advisory, k)
		}
	}
	db.cond.Broadcast()
}

// waitFor blocks until transaction xid has finished. db.mu is held on entry and on return.
func (s *Session) waitFor(xid uint64) {
	db := s.db
	db.Stats["lock_waits"]++
	for !db.tx[xid].done {
		s.Waiting = xid
		if db.Sched != nil {
			db.mu.Unlock()
			db.Sched.Block(s, xid)
			db.mu.Lock()
			s.checkVictim()
		} else {
			db.cond.Wait()
		}
	}
	s.Waiting = 0
}

func (s *Session) advisoryLock(key int64, xact bool) {
	db := s.db
	for {
		l := db.advisory[key]
		if l == nil {
			db.advisory[key] = &advLock{holder: s, xact: xact, count: 1}
			return
		}
		if l.holder == s {
			l.count++
			return
		}
		// wait for holder: session-level locks are released by unlock or session end; model waits on a broadcast
		db.Stats["advisory_waits"]++
		if db.Sched != nil {
			var on uint64
			if l.holder.tx != nil {
				on = l.holder.tx.id
			}
			s.Waiting = on
			s.advWait, s.advWaitKey = true, key
			db.mu.Unlock()
			db.Sched.Block(s, on)
			db.mu.Lock()
			s.advWait = false
			s.checkVictim()
			s.Waiting = 0
		} else {
			db.cond.Wait()
		}
	}
}

// AdvisoryWait tells a Scheduler what a session parked in Block is waiting for when it is an advisory lock: the session that
// holds the key now (nil when the key has become free).  A session-level lock (pg_advisory_lock) is not tied to a transaction:
// its holder may be between transactions, so the transaction id passed to Block says nothing about when the wait ends
// (Explicit Locking 13.3.5: a session-level advisory lock is held until explicitly released or the session ends).
func (s *Session) AdvisoryWait() (waiting bool, holder *Session, sessionLevel bool) {
	db := s.db
	db.mu.Lock()
	defer db.mu.Unlock()
	if !s.advWait {
		return false, nil, false
	}
	if l := db.advisory[s.advWaitKey]; l != nil && l.holder != s {
		return true, l.holder, !l.xact
	}
	return true, nil, false
}
func (s *Session) tryAdvisoryLock(key int64, xact bool) bool {
	l := s.db.advisory[key]
	if l == nil {
		s.db.advisory[key] = &advLock{holder: s, xact: xact, count: 1}
		return true
	}
	if l.holder == s {
		l.count++
		return true
	}
	return false
}
func (s *Session) advisoryUnlock(key int64) bool {
	l := s.db.advisory[key]
	if l == nil || l.holder != s {
		return false
	}
	l.count--
	if l.count <= 0 {
		delete(s.db.advisory, key)
		s.db.cond.Broadcast()
	}
	return true
}

// Close releases session-level advisory locks and aborts an open transaction
func (s *Session) Close() {
	db := s.db
	db.mu.Lock()
	defer db.mu.Unlock()
	if s.tx != nil {
		s.finish(false)
	}
	for k, l := range db.advisory {
		if l.holder == s {
			delete(db.advisory, k)
		}
	}
	db.cond.Broadcast()
}

// ---------------------------------------------------------------- visibility
func (ex *Exec) committedBefore(xid uint64) bool {
	st := ex.db.tx[xid]
	return st != nil && st.committed && st.seq <= ex.snap
}

func (ex *Exec) visible(v *RowVer) bool {
	me := ex.sess.tx.id
	created := (v.Xmin == me && v.Cmin < ex.cid) || (v.Xmin != me && ex.committedBefore(v.Xmin))
	if !created {
		return false
	}
	if v.Xmax == 0 {
		return true
	}
	deleted := (v.Xmax == me && v.Cmax < ex.cid) || (v.Xmax != me && ex.committedBefore(v.Xmax))
	return !deleted
}

// ---------------------------------------------------------------- statement entry point
type Result struct {
	Cols         []string
	Rows         [][]Value
	RowsAffected int64
	Tag          string
}

func (s *Session) Exec(sql string) (res *Result, err error) {
	db := s.db
	if db.Sched != nil {
		db.Sched.Yield(s, sql)
	}
	db.mu.Lock()
	defer db.mu.Unlock()
	if db.Log != nil {
		db.Log(s.ID, sql)
	}
	db.Stats["statements"]++
	stmts, perr := ParseScript(sql)
	if perr != nil {
		db.Stats["parse_errors"]++
		if s.tx != nil && s.tx.explicit {
			s.tx.failed = true
		}
		return nil, perr
	}
	for _, st := range stmts {
		res, err = s.execOne(st, sql)
		if err != nil {
			return nil, err
		}
	}
	return res, nil
}

func (s *Session) execOne(st Stmt, sql string) (res *Result, err error) {
	db := s.db
	if t, ok := st.(*TxStmt); ok {
		return s.execTx(t)
	}
	if db.StmtHook != nil {
		defer func() { db.StmtHook(s, sql, res, err) }()
	}
	if s.tx != nil && s.tx.failed {
		return nil, errf("25P02", "current transaction is aborted, commands ignored until end of transaction block")
	}
	if db.FaultHook != nil {
		if ferr := db.FaultHook(s, sql); ferr != nil {
			if s.tx != nil && s.tx.explicit {
				s.tx.failed = true
			}
			return nil, ferr
		}
	}
	implicit := s.tx == nil
	if implicit {
		s.begin(false)
	}
	s.stmtTS = db.Clock
	undoMark := len(s.tx.undo)
	defer func() {
		if r := recover(); r != nil {
			e, ok := r.(*SQLError)
			if !ok {
				panic(r)
			}
			err = e
			res = nil
			if s.tx != nil {
				if implicit {
					s.finish(false)
				} else if len(s.tx.savepoints) == 0 {
					// An error inside a transaction block aborts the transaction at once (PostgreSQL: AbortCurrentTransaction ->
					// AbortTransaction in state TBLOCK_INPROGRESS): all its changes are undone and ALL its locks are released now
					// (row locks, in-flight index entries, transaction-scoped advisory locks; Explicit Locking 13.3: locks are held
					// "until the end of the transaction", and the abort is that end), waiters wake up; the session then only accepts
					// ROLLBACK/COMMIT (25P02), which merely leaves the block.
					s.abortKeepBlock()
				} else {
					// inside a savepoint only the subtransaction is aborted: statement-level rollback, failed until ROLLBACK TO
					for i := len(s.tx.undo) - 1; i >= undoMark; i-- {
						s.tx.undo[i]()
					}
					s.tx.undo = s.tx.undo[:undoMark]
					s.tx.failed = true
				}
			}
		}
	}()
	s.tx.cid++
	// READ COMMITTED (13.2.1): "a SELECT query (without a FOR UPDATE/SHARE clause) sees only data committed before the query began":
	// one snapshot per statement.  REPEATABLE READ (13.2.2): the snapshot of the transaction's first statement, for every statement.
	snap := db.commitSeq
	if _, utility := st.(*Noop); s.tx.iso == IsoRepeatableRead && !(utility && !s.tx.snapTaken) { // SET / SHOW / ... need no snapshot
		if !s.tx.snapTaken {
			s.tx.snap, s.tx.snapTaken = db.commitSeq, true
			db.Stats["repeatable_read_snapshots"]++
		}
		snap = s.tx.snap
	}
	ex := &Exec{db: db, sess: s, snap: snap, cid: s.tx.cid}
	res = ex.runTop(st)
	for len(ex.after) > 0 {
		q := ex.after
		ex.after = nil
		for _, f := range q {
			f()
		}
	}
	if implicit {
		s.finish(true)
	}
	return res, nil
}

func (s *Session) execTx(t *TxStmt) (res *Result, err error) {
	defer func() { // isoOf refuses SERIALIZABLE by panicking with an SQLError
		if r := recover(); r != nil {
			e, ok := r.(*SQLError)
			if !ok {
				panic(r)
			}
			s.db.Stats["isolation_refused"]++
			s.failTx()
			res, err = nil, e
		}
	}()
	switch t.Kind {
	case "begin":
		if s.tx != nil {
			return &Result{Tag: "BEGIN"}, nil // WARNING: there is already a transaction in progress (the modes are ignored, as in PostgreSQL)
		}
		if t.Iso != "" {
			isoOf(t.Iso) // refuse before anything is opened
		}
		s.begin(true)
		s.tx.setModes(t)
		if s.tx.iso != IsoReadCommitted {
			s.db.Stats["begin_"+strings.ReplaceAll(s.tx.iso.String(), " ", "_")]++
		}
		if s.tx.readOnly {
			s.db.Stats["begin_read_only"]++
		}
		s.txHook("begin")
		return &Result{Tag: "BEGIN"}, nil
	case "set_tx":
		// SET TRANSACTION (SQL command SET TRANSACTION): characteristics of the current transaction; "the transaction isolation level
		// cannot be changed after the first query or data-modification statement ... of a transaction has been executed" (25001).
		// Outside a transaction block it has no effect (PostgreSQL emits WARNING 25P01).
		if s.tx == nil || !s.tx.explicit {
			if t.Iso != "" {
				isoOf(t.Iso)
			}
			return &Result{Tag: "SET"}, nil
		}
		if s.tx.failed {
			return nil, errf("25P02", "current transaction is aborted, commands ignored until end of transaction block")
		}
		if t.Iso != "" && s.tx.cid > 0 && isoOf(t.Iso) != s.tx.iso {
			s.failTx()
			return nil, errf("25001", "SET TRANSACTION ISOLATION LEVEL must be called before any query")
		}
		s.tx.setModes(t)
		return &Result{Tag: "SET"}, nil
	case "set_session_tx":
		if t.Iso != "" {
			s.defIso = isoOf(t.Iso)
		}
		if t.Access != "" {
			s.defReadOnly = t.Access == "read only"
		}
		return &Result{Tag: "SET"}, nil
	case "commit":
		if s.tx == nil {
			return &Result{Tag: "COMMIT"}, nil
		}
		if s.tx.failed {
			s.finish(false)
			s.txHook("commit_fail")
			return &Result{Tag: "ROLLBACK"}, errf("25P02", "commit unexpectedly resulted in rollback")
		}
		if s.db.CommitHook != nil {
			if err := s.db.CommitHook(s); err != nil {
				s.finish(false)
				s.txHook("commit_fail")
				return nil, err
			}
		}
		s.finish(true)
		s.txHook("commit")
		return &Result{Tag: "COMMIT"}, nil
	case "rollback":
		had := s.tx != nil && s.tx.explicit
		s.finish(false)
		if had {
			s.txHook("rollback")
		}
		return &Result{Tag: "ROLLBACK"}, nil
	case "savepoint":
		if s.tx == nil {
			return nil, errf("25P01", "SAVEPOINT can only be used in transaction blocks")
		}
		s.tx.savepoints = append(s.tx.savepoints, savepoint{t.Name, len(s.tx.undo)})
		return &Result{Tag: "SAVEPOINT"}, nil
	case "release":
		for i := len(s.tx.savepoints) - 1; i >= 0; i-- {
			if s.tx.savepoints[i].name == t.Name {
				s.tx.savepoints = s.tx.savepoints[:i]
				break
			}
		}
		return &Result{Tag: "RELEASE"}, nil
	case "rollback_to":
		if s.tx == nil {
			return nil, errf("25P01", "no transaction")
		}
		for i := len(s.tx.savepoints) - 1; i >= 0; i-- {
			if s.tx.savepoints[i].name == t.Name {
				mark := s.tx.savepoints[i].undo
				for j := len(s.tx.undo) - 1; j >= mark; j-- {
					s.tx.undo[j]()
				}
				s.tx.undo = s.tx.undo[:mark]
				s.tx.savepoints = s.tx.savepoints[:i+1]
				s.tx.failed = false
				return &Result{Tag: "ROLLBACK"}, nil
			}
		}
		return nil, errf("3B001", "savepoint %q does not exist", t.Name)
	}
	return nil, errf("XX000", "bad tx stmt")
}

func (ex *Exec) runTop(st Stmt) *Result {
	root := &Env{ex: ex}
	switch n := st.(type) {
	case *Select:
		rel := ex.runSelect(n, root)
		return &Result{Cols: rel.Cols, Rows: rel.Rows, RowsAffected: int64(len(rel.Rows)), Tag: "SELECT"}
	case *Insert:
		rel := ex.runInsert(n, root)
		return &Result{Cols: rel.Cols, Rows: rel.Rows, RowsAffected: int64(rel.affected()), Tag: "INSERT"}
	case *Update:
		rel := ex.runUpdate(n, root)
		return &Result{Cols: rel.Cols, Rows: rel.Rows, RowsAffected: int64(rel.affected()), Tag: "UPDATE"}
	case *Delete:
		rel := ex.runDelete(n, root)
		return &Result{Cols: rel.Cols, Rows: rel.Rows, RowsAffected: int64(rel.affected()), Tag: "DELETE"}
	case *Call:
		fn := ex.db.funcs[n.Name]
		if fn == nil {
			panic(errf("42883", "procedure %s does not exist", n.Name))
		}
		args := make([]Value, len(n.Args))
		for i, a := range n.Args {
			args[i] = root.Eval(a)
		}
		ex.withSchema(n.Schema, func() { ex.callFunction(fn, args) })
		return &Result{Tag: "CALL"}
	case *CreateSequence:
		ex.db.seqs[ex.sch(n.Schema)+"."+n.Name] = &sequence{next: 1, cache: n.Cache}
		return &Result{Tag: "CREATE SEQUENCE"}
	case *CreateTrigger:
		t := ex.db.table(ex.sch(n.Schema), n.Table)
		for _, tr := range t.Triggers {
			if tr.Name == n.Name {
				panic(errf("42710", "trigger %q already exists", n.Name))
			}
		}
		t.Triggers = append(t.Triggers, &Trigger{Name: n.Name, Timing: n.Timing, Event: n.Event, When: n.When, Func: n.Func})
		sort.SliceStable(t.Triggers, func(i, j int) bool { return t.Triggers[i].Name < t.Triggers[j].Name }) // PG fires in name order
		return &Result{Tag: "CREATE TRIGGER"}
	case *DropTrigger:
		t := ex.db.table(ex.sch(""), n.Table)
		var kept []*Trigger
		for _, tr := range t.Triggers {
			if tr.Name != n.Name {
				kept = append(kept, tr)
			}
		}
		t.Triggers = kept
		return &Result{Tag: "DROP TRIGGER"}
	case *CreateFunction:
		ex.db.funcs[n.Name] = &Function{Name: n.Name, Lang: n.Lang, Body: n.Body, Params: n.Params, Returns: n.Returns, IsProc: n.IsProc}
		return &Result{Tag: "CREATE FUNCTION"}
	case *DropFunction:
		delete(ex.db.funcs, n.Name)
		return &Result{Tag: "DROP FUNCTION"}
	case *CreateIndex:
		if n.Unique {
			ex.db.addUnique(n, ex.sch(n.Schema))
		}
		return &Result{Tag: "CREATE INDEX"}
	case *DropIndex:
		for _, t := range ex.db.tables {
			if t.Schema != ex.sch("") {
				continue // index names are per schema
			}
			var kept []*UniqueIdx
			for _, u := range t.Uniques {
				if u.Name != n.Name {
					kept = append(kept, u)
				}
			}
			t.Uniques = kept
		}
		return &Result{Tag: "DROP INDEX"}
	case *RenameIndex:
		for _, t := range ex.db.tables {
			if t.Schema != ex.sch("") {
				continue
			}
			var kept []*UniqueIdx
			for _, u := range t.Uniques {
				if u.Name == n.To {
					continue // replaced by the renamed index
				}
				kept = append(kept, u)
			}
			t.Uniques = kept
			for _, u := range t.Uniques {
				if u.Name == n.From {
					u.Name = n.To
				}
			}
		}
		return &Result{Tag: "ALTER INDEX"}
	case *Noop:
		return &Result{Tag: strings.ToUpper(n.What)}
	}
	panic(errf("0A000", "statement %T not supported", st))
}

func (r *Rel) affected() int {
	if r.nAffected > 0 || r.Cols == nil {
		return r.nAffected
	}
	return len(r.Rows)
}

func (db *DB) addUnique(n *CreateIndex, schema string) {
	t := db.tables[schema+"."+n.Table]
	if t == nil {
		var keys []string
		for k, tt := range db.tables {
			if tt.Name == n.Table {
				keys = append(keys, k)
			}
		}
		sort.Strings(keys)
		if len(keys) > 0 {
			t = db.tables[keys[0]]
		}
	}
	if t == nil {
		return // index on a table the model does not carry (legacy)
	}
	u := &UniqueIdx{Name: n.Name, Where: n.Where}
	for _, c := range n.Cols {
		i := t.col(c)
		if i < 0 {
			return // column dropped by a later migration; the index went with it
		}
		u.Cols = append(u.Cols, i)
	}
	for i, old := range t.Uniques {
		if old.Name == u.Name {
			t.Uniques[i] = u
			return
		}
	}
	t.Uniques = append(t.Uniques, u)
}

// ---------------------------------------------------------------- bootstrap from migration texts
var reCreateType = regexp.MustCompile(`(?is)create\s+type\s+("?[a-z_]+"?)\s+as\s*\(([^;]*?)\)\s*;`)

// LoadMigration replays the function/procedure/trigger/unique-index definitions of one migration text
// (final definition wins); DO blocks are scanned recursively; data back-fills are no-ops on an empty database.
func (db *DB) LoadMigration(name, text string) error {
	for _, m := range reCreateType.FindAllStringSubmatch(text, -1) {
		tn := strings.Trim(strings.ToLower(m[1]), `"`)
		if strings.Contains(strings.ToLower(m[2]), " enum") {
			continue
		}
		var fields []string
		ftypes := map[string]string{}
		for _, f := range strings.Split(m[2], ",") {
			fs := strings.Fields(f)
			if len(fs) > 0 {
				fields = append(fields, strings.ToLower(fs[0]))
				if len(fs) > 1 {
					ftypes[strings.ToLower(fs[0])] = strings.ToLower(strings.Trim(fs[1], "()"))
				}
			}
		}
		compositeTypes[tn] = fields
		compositeFieldTypes[tn] = ftypes
	}
	toks, err := lex(text)
	if err != nil {
		return fmt.Errorf("migration %s: %w", name, err)
	}
	return db.scanDDL(name, text, toks)
}

func (db *DB) scanDDL(name, text string, toks []token) (err error) {
	defer func() {
		if r := recover(); r != nil {
			if e, ok := r.(*SQLError); ok {
				err = fmt.Errorf("migration %s: %w", name, e)
				return
			}
			panic(r)
		}
	}()
	p := &parser{toks: toks, src: text}
	sess := &Session{db: db}
	sess.begin(false)
	ex := &Exec{db: db, sess: sess}
	for p.peek().kind != tEOF {
		t := p.peek()
		if t.kind == tIdent && t.s == "do" && p.peekAt(1).kind == tString {
			p.next()
			body := p.next().s
			inner, lerr := lex(body)
			if lerr != nil {
				return lerr
			}
			if e2 := db.scanDDL(name+"(do)", body, inner); e2 != nil {
				return e2
			}
			continue
		}
		if t.kind == tIdent && (t.s == "create" || t.s == "drop" || (t.s == "alter" && p.isKwAt(1, "index"))) {
			save := p.p
			var st Stmt
			func() {
				defer func() {
					if r := recover(); r != nil {
						st = nil
						p.p = save + 1
					}
				}()
				st = p.parseStmt()
			}()
			switch st.(type) {
			case *CreateFunction, *DropFunction, *CreateIndex, *DropIndex, *RenameIndex:
				ex.runTop(st)
			case *CreateTrigger:
				ct := st.(*CreateTrigger)
				if _, ok := db.tables[db.DefaultSchema+"."+ct.Table]; ok {
					func() {
						defer func() { recover() }()
						ex.runTop(st)
					}()
				}
			case *DropTrigger:
				dt := st.(*DropTrigger)
				if _, ok := db.tables[db.DefaultSchema+"."+dt.Table]; ok {
					ex.runTop(st)
				}
			}
			continue
		}
		p.next()
	}
	return nil
}

// Catalog returns a printable summary (functions, triggers, unique indexes) for diagnostics and evidence
func (db *DB) Catalog() []string {
	var out []string
	var names []string
	for k := range db.tables {
		names = append(names, k)
	}
	sort.Strings(names)
	for _, k := range names {
		t := db.tables[k]
		for _, tr := range t.Triggers {
			out = append(out, fmt.Sprintf("trigger %s: %s %s %s -> %s", k, tr.Name, tr.Timing, tr.Event, tr.Func))
		}
		for _, u := range t.Uniques {
			cols := []string{}
			for _, c := range u.Cols {
				cols = append(cols, t.colNames[c])
			}
			out = append(out, fmt.Sprintf("unique %s: %s (%s) partial=%v", k, u.Name, strings.Join(cols, ","), u.Where != nil))
		}
	}
	var fns []string
	for k := range db.funcs {
		fns = append(fns, k)
	}
	sort.Strings(fns)
	out = append(out, "functions: "+strings.Join(fns, " "))
	return out
}

// Sequences returns every sequence (schema-qualified name) with its next value, for frame checks
func (db *DB) Sequences() map[string]int64 {
	db.mu.Lock()
	defer db.mu.Unlock()
	out := map[string]int64{}
	for k, s := range db.seqs {
		v := s.next
		if s.isCalled {
			v++
		}
		out[k] = v
	}
	return out
}
