//go:build verif

package pgsem

import (
	"crypto/sha256"
	"encoding/base64"
	"encoding/json"
	"fmt"
	"hash/fnv"
	"math/big"
	"regexp"
	"strconv"
	"strings"
)

// binding of one relation (or record variable) in scope
type binding struct {
	alias string
	cols  []string
	row   []Value // nil => all NULL (outer join padding)
	ver   *RowVer // base-table row version, for FOR UPDATE / UPDATE targets
	tbl   *Table
}

func (b *binding) get(i int) Value {
	if b.row == nil {
		return nil
	}
	return b.row[i]
}
func (b *binding) idx(name string) int {
	for i, c := range b.cols {
		if c == name {
			return i
		}
	}
	return -1
}

type Env struct {
	rels   []*binding
	parent *Env
	vars   map[string]*Value // plpgsql scalar variables / parameters
	out    *binding          // output columns of the current select (ORDER BY alias resolution)
	aggs   map[*FuncExpr]Value
	ex     *Exec
	qualifiedOnly []*binding // reachable only as alias.col (EXCLUDED)
}

func (e *Env) child() *Env { return &Env{parent: e, ex: e.ex} }

// compositeFieldType: declared type of var.field when var is a PL/pgSQL variable currently holding a composite value
func (e *Env) compositeFieldType(cr *ColRef) string {
	for env := e; env != nil; env = env.parent {
		if env.vars != nil {
			if v, ok := env.vars[cr.Table]; ok {
				if c, ok := (*v).(Comp); ok {
					return compositeFieldTypes[c.Type][cr.Name]
				}
			}
		}
	}
	return ""
}

func (e *Env) lookupCol(tbl, name string) (Value, bool, error) {
	for env := e; env != nil; env = env.parent {
		if tbl == "" {
			if env.out != nil {
				if i := env.out.idx(name); i >= 0 {
					return env.out.get(i), true, nil
				}
			}
			var found *binding
			fi := -1
			for _, b := range env.rels {
				if i := b.idx(name); i >= 0 {
					if found != nil && found != b {
						return nil, false, errf("42702", "column reference %q is ambiguous", name)
					}
					found, fi = b, i
				}
			}
			if found != nil {
				return found.get(fi), true, nil
			}
			if env.vars != nil {
				if v, ok := env.vars[name]; ok {
					return *v, true, nil
				}
			}
		} else {
			for _, b := range env.qualifiedOnly {
				if b.alias == tbl {
					if i := b.idx(name); i >= 0 {
						return b.get(i), true, nil
					}
				}
			}
			for _, b := range env.rels {
				if b.alias == tbl {
					if i := b.idx(name); i >= 0 {
						return b.get(i), true, nil
					}
					return nil, false, errf("42703", "column %s.%s does not exist", tbl, name)
				}
			}
			if env.vars != nil {
				if v, ok := env.vars[tbl]; ok { // record / composite variable field
					if c, ok := (*v).(Comp); ok {
						names := compositeTypes[c.Type]
						for i, n := range names {
							if n == name && i < len(c.Fields) {
								return c.Fields[i], true, nil
							}
						}
					}
					if *v == nil {
						return nil, true, nil
					}
				}
			}
		}
	}
	// a bare name may denote a whole row (alias) – used as composite value
	if tbl == "" {
		for env := e; env != nil; env = env.parent {
			for _, b := range env.rels {
				if b.alias == name {
					return Comp{Fields: append([]Value{}, b.row...)}, true, nil
				}
			}
		}
	}
	return nil, false, nil
}

func truth(v Value) (bool, bool) { // (value, known)
	if v == nil {
		return false, false
	}
	if b, ok := v.(bool); ok {
		return b, true
	}
	if u, ok := v.(Unknown); ok {
		c, err := Cast(u, "bool")
		if err == nil {
			return c.(bool), true
		}
	}
	panic(errf("42804", "argument of boolean operator must be boolean, not %T", v))
}

func unparen(x Expr) Expr {
	for {
		if p, ok := x.(*parenExpr); ok {
			x = p.X
		} else {
			return x
		}
	}
}

func (e *Env) Eval(x Expr) Value {
	switch n := x.(type) {
	case *parenExpr:
		return e.Eval(n.X)
	case *Lit:
		return n.V
	case *ColRef:
		v, ok, err := e.lookupCol(n.Table, n.Name)
		if err != nil {
			panic(err)
		}
		if !ok {
			if n.Table == "" {
				switch n.Name {
				case "current_schema":
					return e.ex.sch("")
				case "current_timestamp":
					return e.ex.sess.stmtTime()
				}
			}
			panic(errf("42703", "column %q does not exist", strings.TrimPrefix(n.Table+"."+n.Name, ".")))
		}
		return v
	case *ParamExpr:
		v, ok, _ := e.lookupCol("", n.Name)
		if !ok {
			panic(errf("42P02", "there is no parameter %s", n.Name))
		}
		return v
	case *UnExpr:
		v := e.Eval(n.X)
		switch n.Op {
		case "not":
			b, known := truth(v)
			if !known {
				return nil
			}
			return !b
		case "-":
			if v == nil {
				return nil
			}
			if u, ok := v.(Unknown); ok {
				c, err := Cast(u, "numeric")
				if err != nil {
					panic(err)
				}
				v = c
			}
			return new(big.Int).Neg(v.(*big.Int))
		}
	case *IsNullExpr:
		v := e.Eval(n.X)
		isNull := v == nil
		if c, ok := v.(Comp); ok { // row IS NULL: all fields null
			isNull = true
			for _, f := range c.Fields {
				if f != nil {
					isNull = false
				}
			}
			if n.Not {
				all := true
				for _, f := range c.Fields {
					if f == nil {
						all = false
					}
				}
				return all
			}
		}
		return isNull != n.Not
	case *BinExpr:
		return e.evalBin(n)
	case *CastExpr:
		v := e.Eval(n.X)
		if r, ok := unparen(n.X).(*RowExpr); ok && v != nil {
			_ = r
		}
		c, err := Cast(v, n.Type)
		if err != nil {
			panic(err)
		}
		return c
	case *CaseExpr:
		if n.Operand != nil {
			op := e.Eval(n.Operand)
			for _, w := range n.Whens {
				c, ok, err := Compare(op, e.Eval(w.Cond))
				if err != nil {
					panic(err)
				}
				if ok && c == 0 {
					return e.Eval(w.Then)
				}
			}
		} else {
			for _, w := range n.Whens {
				if b, known := truth(e.Eval(w.Cond)); known && b {
					return e.Eval(w.Then)
				}
			}
		}
		if n.Else != nil {
			return e.Eval(n.Else)
		}
		return nil
	case *InExpr:
		v := e.Eval(n.X)
		var items []Value
		if n.Sub != nil {
			rel := e.ex.runSelect(n.Sub, e)
			for _, r := range rel.Rows {
				items = append(items, r[0])
			}
		} else {
			for _, it := range n.List {
				items = append(items, e.Eval(it))
			}
		}
		if v == nil {
			if len(items) == 0 {
				return n.Not
			}
			return nil
		}
		sawNull := false
		for _, it := range items {
			c, ok, err := Compare(v, it)
			if err != nil {
				panic(err)
			}
			if !ok {
				sawNull = true
				continue
			}
			if c == 0 {
				return !n.Not
			}
		}
		if sawNull {
			return nil
		}
		return n.Not
	case *ExistsExpr:
		rel := e.ex.runSelect(n.Sub, e)
		return len(rel.Rows) > 0
	case *SubExpr:
		rel := e.ex.runSelect(n.Sub, e)
		if len(rel.Rows) == 0 {
			return nil
		}
		if len(rel.Rows) > 1 {
			panic(errf("21000", "more than one row returned by a subquery used as an expression"))
		}
		if len(rel.Rows[0]) > 1 {
			return Comp{Fields: rel.Rows[0]}
		}
		return rel.Rows[0][0]
	case *RowExpr:
		fs := make([]Value, len(n.Items))
		for i, it := range n.Items {
			fs[i] = e.Eval(it)
			if u, ok := fs[i].(Unknown); ok {
				fs[i] = string(u)
			}
		}
		return Comp{Fields: fs}
	case *ArrayExpr:
		out := make(Arr, len(n.Items))
		for i, it := range n.Items {
			out[i] = e.Eval(it)
			if u, ok := out[i].(Unknown); ok {
				out[i] = string(u)
			}
		}
		return out
	case *FieldExpr:
		v := e.Eval(n.X)
		if v == nil {
			return nil
		}
		c, ok := v.(Comp)
		if !ok {
			panic(errf("42809", "field selection on non-composite %T", v))
		}
		names := compositeTypes[c.Type]
		for i, nm := range names {
			if nm == n.Name {
				return c.Fields[i]
			}
		}
		panic(errf("42703", "field %q not found in composite %q", n.Name, c.Type))
	case *IndexExpr:
		v := e.Eval(n.X)
		if v == nil {
			return nil
		}
		arr, ok := v.(Arr)
		if !ok {
			panic(errf("42804", "cannot subscript %T", v))
		}
		toInt := func(x Expr, def int) (int, bool) {
			if x == nil {
				return def, true
			}
			iv := e.Eval(x)
			if iv == nil {
				return 0, false
			}
			if u, ok := iv.(Unknown); ok {
				c, _ := Cast(u, "numeric")
				iv = c
			}
			return int(iv.(*big.Int).Int64()), true
		}
		if n.Slice {
			lo, ok1 := toInt(n.Lo, 1)
			hi, ok2 := toInt(n.Hi, len(arr))
			if !ok1 || !ok2 {
				return nil
			}
			if lo < 1 {
				lo = 1
			}
			if hi > len(arr) {
				hi = len(arr)
			}
			if lo > hi {
				return Arr{}
			}
			return append(Arr{}, arr[lo-1:hi]...)
		}
		i, ok1 := toInt(n.Lo, 0)
		if !ok1 || i < 1 || i > len(arr) {
			return nil
		}
		return arr[i-1]
	case *FuncExpr:
		if n.Over != nil || isAggregate(n) {
			if e.aggs != nil {
				if v, ok := e.aggs[n]; ok {
					return v
				}
			}
			for env := e.parent; env != nil; env = env.parent {
				if env.aggs != nil {
					if v, ok := env.aggs[n]; ok {
						return v
					}
				}
			}
			panic(errf("42803", "aggregate/window function %s not allowed here", n.Name))
		}
		return e.evalFunc(n)
	case *StarRef:
		panic(errf("42601", "* not allowed here"))
	case *DefaultExpr:
		panic(errf("42601", "DEFAULT not allowed here"))
	}
	panic(errf("XX000", "eval: unsupported expression %T", x))
}

var jsonpathEq = regexp.MustCompile(`^\s*\$\[(\d+)\]\s*==\s*"((?:[^"\\]|\\.)*)"\s*$`)

func (e *Env) evalBin(n *BinExpr) Value {
	switch n.Op {
	case "and":
		l, lk := truth(e.Eval(n.L))
		if lk && !l {
			return false
		}
		r, rk := truth(e.Eval(n.R))
		if rk && !r {
			return false
		}
		if !lk || !rk {
			return nil
		}
		return true
	case "or":
		l, lk := truth(e.Eval(n.L))
		if lk && l {
			return true
		}
		r, rk := truth(e.Eval(n.R))
		if rk && r {
			return true
		}
		if !lk || !rk {
			return nil
		}
		return false
	case "is_true":
		l, lk := truth(e.Eval(n.L))
		want := n.R.(*Lit).V.(bool)
		return (lk && l) == want
	case "is_distinct":
		a, b := e.Eval(n.L), e.Eval(n.R)
		if a == nil || b == nil {
			return (a == nil) != (b == nil)
		}
		c, _, err := Compare(a, b)
		if err != nil {
			panic(err)
		}
		return c != 0
	}
	a, b := e.Eval(n.L), e.Eval(n.R)
	switch n.Op {
	case "=", "<>", "<", ">", "<=", ">=":
		c, ok, err := Compare(a, b)
		if err != nil {
			panic(err)
		}
		if !ok {
			return nil
		}
		switch n.Op {
		case "=":
			return c == 0
		case "<>":
			return c != 0
		case "<":
			return c < 0
		case ">":
			return c > 0
		case "<=":
			return c <= 0
		default:
			return c >= 0
		}
	case "= any":
		if a == nil || b == nil {
			return nil
		}
		for _, it := range b.(Arr) {
			c, ok, err := Compare(a, it)
			if err != nil {
				panic(err)
			}
			if ok && c == 0 {
				return true
			}
		}
		return false
	}
	if a == nil || b == nil {
		return nil
	}
	switch n.Op {
	case "+", "*", "/", "%":
		x, y := asNum(a), asNum(b)
		switch n.Op {
		case "+":
			return new(big.Int).Add(x, y)
		case "*":
			return new(big.Int).Mul(x, y)
		case "/":
			if y.Sign() == 0 {
				panic(errf("22012", "division by zero"))
			}
			return new(big.Int).Quo(x, y)
		default:
			if y.Sign() == 0 {
				panic(errf("22012", "division by zero"))
			}
			return new(big.Int).Rem(x, y)
		}
	case "-":
		if j, ok := a.(JSON); ok { // jsonb - text
			key := TextOf(b)
			switch m := j.V.(type) {
			case map[string]any:
				out := map[string]any{}
				for k, v := range m {
					if k != key {
						out[k] = v
					}
				}
				return JSON{out}
			case []any:
				out := []any{}
				for _, v := range m {
					if s, ok := v.(string); !ok || s != key {
						out = append(out, v)
					}
				}
				return JSON{out}
			}
			panic(errf("22023", "cannot delete from scalar"))
		}
		return new(big.Int).Sub(asNum(a), asNum(b))
	case "||":
		a, b, err := unifyConcat(a, b)
		if err != nil {
			panic(err)
		}
		switch x := a.(type) {
		case JSON:
			y := b.(JSON)
			xm, xok := x.V.(map[string]any)
			ym, yok := y.V.(map[string]any)
			if xok && yok {
				out := map[string]any{}
				for k, v := range xm {
					out[k] = v
				}
				for k, v := range ym {
					out[k] = v
				}
				return JSON{out}
			}
			toArr := func(v any) []any {
				if a, ok := v.([]any); ok {
					return a
				}
				return []any{v}
			}
			return JSON{append(append([]any{}, toArr(x.V)...), toArr(y.V)...)}
		case []byte:
			return append(append([]byte{}, x...), b.([]byte)...)
		case Arr:
			if y, ok := b.(Arr); ok {
				return append(append(Arr{}, x...), y...)
			}
			return append(append(Arr{}, x...), b)
		default:
			return TextOf(a) + TextOf(b)
		}
	case "->", "->>":
		j, ok := a.(JSON)
		if !ok {
			u, isU := a.(Unknown)
			if !isU {
				panic(errf("42883", "operator %s on %T", n.Op, a))
			}
			pj, err := parseJSON(string(u))
			if err != nil {
				panic(err)
			}
			j = pj
		}
		var res any
		found := false
		switch k := b.(type) {
		case *big.Int:
			if arr, ok := j.V.([]any); ok {
				i := int(k.Int64())
				if i < 0 {
					i += len(arr)
				}
				if i >= 0 && i < len(arr) {
					res, found = arr[i], true
				}
			}
		default:
			if m, ok := j.V.(map[string]any); ok {
				res, found = m[TextOf(b)]
			}
		}
		if !found {
			return nil
		}
		if n.Op == "->" {
			return JSON{res}
		}
		if res == nil {
			return nil
		}
		if s, ok := res.(string); ok {
			return s
		}
		return JSON{res}.String()
	case "#>>", "#>":
		j := a.(JSON)
		path, err := Cast(b, "text[]")
		if err != nil {
			panic(err)
		}
		cur := j.V
		for _, p := range path.(Arr) {
			switch c := cur.(type) {
			case map[string]any:
				v, ok := c[TextOf(p)]
				if !ok {
					return nil
				}
				cur = v
			case []any:
				i, err := strconv.Atoi(TextOf(p))
				if err != nil || i < 0 || i >= len(c) {
					return nil
				}
				cur = c[i]
			default:
				return nil
			}
		}
		if n.Op == "#>" {
			return JSON{cur}
		}
		if cur == nil {
			return nil
		}
		if s, ok := cur.(string); ok {
			return s
		}
		return JSON{cur}.String()
	case "@>":
		a, b, err := unify(a, b)
		if err != nil {
			panic(err)
		}
		if x, ok := a.(JSON); ok {
			return jsonContains(x.V, b.(JSON).V, true)
		}
		if x, ok := a.(Arr); ok {
			for _, it := range b.(Arr) {
				f := false
				for _, jt := range x {
					if c, ok, _ := Compare(it, jt); ok && c == 0 {
						f = true
					}
				}
				if !f {
					return false
				}
			}
			return true
		}
		panic(errf("42883", "operator @> on %T", a))
	case "<@":
		a, b, err := unify(a, b)
		if err != nil {
			panic(err)
		}
		return jsonContains(b.(JSON).V, a.(JSON).V, true)
	case "?", "?|", "?&":
		j, ok := a.(JSON)
		if !ok {
			panic(errf("42883", "operator %s on %T", n.Op, a))
		}
		has := func(k string) bool {
			switch c := j.V.(type) {
			case map[string]any:
				_, ok := c[k]
				return ok
			case []any:
				for _, it := range c {
					if s, ok := it.(string); ok && s == k {
						return true
					}
				}
			case string:
				return c == k
			}
			return false
		}
		if n.Op == "?" {
			return has(TextOf(b))
		}
		keys, err := Cast(b, "text[]")
		if err != nil {
			panic(err)
		}
		any_, all := false, true
		for _, k := range keys.(Arr) {
			if k != nil && has(TextOf(k)) {
				any_ = true
			} else {
				all = false
			}
		}
		if n.Op == "?|" {
			return any_
		}
		return all
	case "@@":
		j, ok := a.(JSON)
		if !ok {
			panic(errf("42883", "operator @@ on %T", a))
		}
		m := jsonpathEq.FindStringSubmatch(TextOf(b))
		if m == nil {
			panic(errf("0A000", "unsupported jsonpath %q", TextOf(b)))
		}
		idx, _ := strconv.Atoi(m[1])
		var want string
		if err := json.Unmarshal([]byte(`"`+m[2]+`"`), &want); err != nil {
			panic(errf("42601", "bad jsonpath string %q", m[2]))
		}
		arr, ok := j.V.([]any)
		if !ok { // lax mode: a scalar/object is wrapped
			arr = []any{j.V}
		}
		if idx >= len(arr) {
			return false // lax mode: no item, predicate false (jsonb @@ returns false for empty result? it returns NULL) – see note
		}
		s, ok := arr[idx].(string)
		return ok && s == want
	case "like":
		return likeMatch(TextOf(a), TextOf(b))
	}
	panic(errf("XX000", "unsupported operator %s", n.Op))
}

func unifyConcat(a, b Value) (Value, Value, error) {
	_, aU := a.(Unknown)
	_, bU := b.(Unknown)
	if aU && !bU {
		switch b.(type) {
		case []byte, JSON:
			return unify(a, b)
		}
		return string(a.(Unknown)), b, nil
	}
	if bU && !aU {
		switch a.(type) {
		case []byte, JSON:
			return unify(a, b)
		}
		return a, string(b.(Unknown)), nil
	}
	if aU && bU {
		return string(a.(Unknown)), string(b.(Unknown)), nil
	}
	// jsonb || text etc: PG would fail; text || anything → text
	if _, ok := a.(JSON); ok {
		if _, ok2 := b.(JSON); !ok2 {
			return nil, nil, errf("42883", "operator does not exist: jsonb || %T", b)
		}
	}
	if x, ok := a.([]byte); ok {
		if _, ok2 := b.([]byte); !ok2 { // resolves to anynonarray || text
			return TextOf(x), b, nil
		}
	} else if y, ok := b.([]byte); ok {
		return a, TextOf(y), nil
	}
	return a, b, nil
}

func asNum(v Value) *big.Int {
	switch x := v.(type) {
	case *big.Int:
		return x
	case Unknown:
		n, err := parseNumeric(string(x))
		if err != nil {
			panic(err)
		}
		return n
	}
	panic(errf("42883", "numeric operator on %T", v))
}

func likeMatch(s, pat string) bool {
	var sb strings.Builder
	sb.WriteString("(?s)^")
	for i := 0; i < len(pat); i++ {
		switch pat[i] {
		case '%':
			sb.WriteString(".*")
		case '_':
			sb.WriteString(".")
		case '\\':
			if i+1 < len(pat) {
				i++
				sb.WriteString(regexp.QuoteMeta(string(pat[i])))
			}
		default:
			sb.WriteString(regexp.QuoteMeta(string(pat[i])))
		}
	}
	sb.WriteString("$")
	return regexp.MustCompile(sb.String()).MatchString(s)
}

var aggNames = map[string]bool{"sum": true, "count": true, "min": true, "max": true, "array_agg": true, "aggregate_objects": true,
	"jsonb_agg": true, "json_agg": true, "bool_or": true, "bool_and": true, "string_agg": true, "first": true, "jsonb_object_agg": true}

func isAggregate(f *FuncExpr) bool { return f.Over == nil && aggNames[f.Name] }

func (e *Env) evalArgs(f *FuncExpr) []Value {
	out := make([]Value, len(f.Args))
	for i, a := range f.Args {
		out[i] = e.Eval(a)
	}
	return out
}

func text(v Value) string { return TextOf(v) }

func (e *Env) evalFunc(f *FuncExpr) Value {
	ex := e.ex
	switch f.Name {
	case "coalesce":
		// PG doc 10.5 (UNION, CASE and related constructs): the result has the common type of the arguments, an untyped literal
		// takes the type of the others. pgsem's NULLs carry no type; the one case where this is observable in the ledger's SQL is
		// coalesce(<composite variable>.<bytea field>, '') || <text> in create_block: the literal is an (empty) bytea, and bytea || text
		// resolves to anynonarray || text, i.e. the bytea goes through its output function (\x...).
		for _, a := range f.Args {
			if v := e.Eval(a); v != nil {
				if u, ok := v.(Unknown); ok {
					for _, b := range f.Args {
						if cr, ok := b.(*ColRef); ok && cr.Table != "" && e.compositeFieldType(cr) == "bytea" {
							bv, err := Cast(u, "bytea")
							if err != nil {
								panic(err)
							}
							return bv
						}
					}
				}
				return v
			}
		}
		return nil
	case "least", "greatest":
		var best Value
		for _, a := range f.Args {
			v := e.Eval(a)
			if v == nil {
				continue
			}
			if best == nil {
				best = v
				continue
			}
			c, _, err := Compare(v, best)
			if err != nil {
				panic(err)
			}
			if (f.Name == "least" && c < 0) || (f.Name == "greatest" && c > 0) {
				best = v
			}
		}
		if u, ok := best.(Unknown); ok {
			return string(u)
		}
		return best
	case "nullif":
		a := e.evalArgs(f)
		c, ok, _ := Compare(a[0], a[1])
		if ok && c == 0 {
			return nil
		}
		return a[0]
	}
	a := e.evalArgs(f)
	strict := func() bool {
		for _, v := range a {
			if v == nil {
				return true
			}
		}
		return false
	}
	switch f.Name {
	case "jsonb_array_length", "json_array_length":
		if strict() {
			return nil
		}
		j, err := Cast(a[0], "jsonb")
		if err != nil {
			panic(err)
		}
		arr, ok := j.(JSON).V.([]any)
		if !ok {
			panic(errf("22023", "cannot get array length of a non-array"))
		}
		return big.NewInt(int64(len(arr)))
	case "json_build_object", "jsonb_build_object":
		m := map[string]any{}
		for i := 0; i+1 < len(a); i += 2 {
			if a[i] == nil {
				panic(errf("22004", "argument %d cannot be null", i+1))
			}
			m[text(a[i])] = toJSONValue(a[i+1])
		}
		return JSON{m}
	case "to_json", "to_jsonb":
		if a[0] == nil {
			return nil
		}
		return JSON{toJSONValue(a[0])}
	case "jsonb_typeof":
		if strict() {
			return nil
		}
		switch a[0].(JSON).V.(type) {
		case nil:
			return "null"
		case bool:
			return "boolean"
		case json.Number:
			return "number"
		case string:
			return "string"
		case []any:
			return "array"
		default:
			return "object"
		}
	case "string_to_array":
		if a[0] == nil {
			return nil
		}
		s := text(a[0])
		if s == "" {
			return Arr{}
		}
		parts := strings.Split(s, text(a[1]))
		out := make(Arr, len(parts))
		for i, p := range parts {
			out[i] = p
		}
		return out
	case "array_to_string":
		if strict() {
			return nil
		}
		var parts []string
		for _, it := range a[0].(Arr) {
			if it != nil {
				parts = append(parts, text(it))
			}
		}
		return strings.Join(parts, text(a[1]))
	case "array_length":
		if strict() {
			return nil
		}
		if len(a[0].(Arr)) == 0 {
			return nil
		}
		return big.NewInt(int64(len(a[0].(Arr))))
	case "cardinality":
		if strict() {
			return nil
		}
		return big.NewInt(int64(len(a[0].(Arr))))
	case "encode":
		if strict() {
			return nil
		}
		b, err := Cast(a[0], "bytea")
		if err != nil {
			panic(err)
		}
		switch strings.ToLower(text(a[1])) {
		case "escape":
			return byteaEscapeEncode(b.([]byte))
		case "base64":
			return pgBase64(b.([]byte))
		case "hex":
			return fmt.Sprintf("%x", b.([]byte))
		}
		panic(errf("22023", "unrecognized encoding"))
	case "decode":
		if strict() {
			return nil
		}
		switch strings.ToLower(text(a[1])) {
		case "escape":
			b, err := byteaIn(text(a[0]))
			if err != nil {
				panic(err)
			}
			return b
		case "base64":
			b, err := base64.StdEncoding.DecodeString(strings.ReplaceAll(text(a[0]), "\n", ""))
			if err != nil {
				panic(errf("22023", "invalid base64"))
			}
			return b
		}
		panic(errf("22023", "unrecognized encoding"))
	case "convert_to":
		if strict() {
			return nil
		}
		return []byte(text(a[0]))
	case "convert_from":
		if strict() {
			return nil
		}
		return string(a[0].([]byte))
	case "digest":
		if strict() {
			return nil
		}
		var data []byte
		switch x := a[0].(type) {
		case []byte:
			data = x
		default:
			data = []byte(text(x))
		}
		if strings.ToLower(text(a[1])) != "sha256" {
			panic(errf("22023", "unsupported digest"))
		}
		h := sha256.Sum256(data)
		return h[:]
	case "nextval":
		return big.NewInt(ex.sess.nextval(ex.seqKey(text(a[0]))))
	case "pg_sequence_last_value":
		// System Information Functions (9.27): the last value written to disk by nextval / setval of ANY session, NULL if the
		// sequence has not been used yet; non-transactional like the sequence itself
		sq := ex.db.seqs[ex.seqKey(text(a[0]))]
		if sq == nil {
			panic(errf("42P01", "sequence %q does not exist", text(a[0])))
		}
		if !sq.isCalled {
			return nil
		}
		return big.NewInt(sq.next)
	case "setval":
		if strict() {
			return nil
		}
		isCalled := true
		if len(a) > 2 {
			isCalled, _ = truth(a[2])
		}
		ex.sess.setval(ex.seqKey(text(a[0])), asNum(a[1]).Int64(), isCalled)
		return asNum(a[1])
	case "transaction_date":
		return ex.sess.txDate()
	case "statement_timestamp", "now", "clock_timestamp", "transaction_timestamp":
		return ex.sess.stmtTime()
	case "pg_advisory_xact_lock", "pg_advisory_lock":
		if strict() {
			return nil
		}
		ex.sess.advisoryLock(asNum(a[0]).Int64(), f.Name == "pg_advisory_xact_lock")
		return ""
	case "pg_advisory_unlock":
		return ex.sess.advisoryUnlock(asNum(a[0]).Int64())
	case "pg_try_advisory_lock", "pg_try_advisory_xact_lock":
		return ex.sess.tryAdvisoryLock(asNum(a[0]).Int64(), f.Name == "pg_try_advisory_xact_lock")
	case "hashtext":
		if strict() {
			return nil
		}
		h := fnv.New32a()
		h.Write([]byte(text(a[0])))
		return big.NewInt(int64(int32(h.Sum32())))
	case "lower":
		if strict() {
			return nil
		}
		return strings.ToLower(text(a[0]))
	case "upper":
		if strict() {
			return nil
		}
		return strings.ToUpper(text(a[0]))
	case "length", "char_length":
		if strict() {
			return nil
		}
		if b, ok := a[0].([]byte); ok {
			return big.NewInt(int64(len(b)))
		}
		return big.NewInt(int64(len([]rune(text(a[0])))))
	case "concat":
		var sb strings.Builder
		for _, v := range a {
			if v != nil {
				sb.WriteString(text(v))
			}
		}
		return sb.String()
	case "jsonb_concat":
		return e.evalBin(&BinExpr{Op: "||", L: &Lit{a[0]}, R: &Lit{a[1]}})
	case "abs":
		if strict() {
			return nil
		}
		return new(big.Int).Abs(asNum(a[0]))
	case "version":
		return "PostgreSQL 16 (pgsem model)"
	case "current_schema":
		return ex.sch("")
	}
	// user-defined (PL/pgSQL) function
	if fn := ex.db.funcs[f.Name]; fn != nil {
		return ex.callFunction(fn, a)
	}
	panic(errf("42883", "function %s does not exist", f.Name))
}

func seqName(s string) string {
	s = strings.ReplaceAll(s, `"`, "")
	if i := strings.LastIndex(s, "."); i >= 0 {
		s = s[i+1:]
	}
	return s
}
