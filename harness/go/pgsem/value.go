//go:build verif

// Package pgsem is a small executable model of the PostgreSQL fragment the ledger emits. It stands in
// for the database (none is available in the sandbox): the real Go stack runs on it through a fake
// database/sql driver that hands it the SQL text bun renders. It is TRUSTED, not verified (DESIGN §4).
package pgsem

import (
	"bytes"
	"encoding/base64"
	"encoding/hex"
	"encoding/json"
	"fmt"
	"math/big"
	"sort"
	"strconv"
	"strings"
	"time"
)

// Value: nil (NULL) | bool | *big.Int (all integer/numeric types) | string (text/varchar) | []byte (bytea) |
// TS (timestamp without time zone, µs) | JSON (jsonb/json) | Arr | Comp (composite/row) | Unknown (untyped literal)
type Value interface{}

type TS int64
type JSON struct{ V any } // V: nil | bool | json.Number | string | []any | map[string]any
type Arr []Value
type Comp struct {
	Type   string
	Fields []Value
}
type Unknown string

type SQLError struct {
	Code, Constraint, Msg string
}

func (e *SQLError) Error() string { return fmt.Sprintf("ERROR %s: %s", e.Code, e.Msg) }
func errf(code, f string, a ...any) *SQLError {
	return &SQLError{Code: code, Msg: fmt.Sprintf(f, a...)}
}

var compositeTypes = map[string][]string{"volumes": {"inputs", "outputs"}, "block": {"hash", "max_log_id", "ledger"}}

// declared field types of composite types (from `create type t as (...)`): needed where PostgreSQL's static typing is observable
var compositeFieldTypes = map[string]map[string]string{}

// ---------------------------------------------------------------- timestamps
const tsLayoutOut = "2006-01-02 15:04:05.999999"

func parseTS(s string) (TS, error) {
	s = strings.TrimSpace(s)
	// timestamp WITHOUT time zone input: a zone designator is silently ignored (PG docs 8.5.1.3)
	cut := s
	if i := strings.IndexAny(s, "T "); i > 0 {
		rest := s[i+1:]
		if j := strings.IndexAny(rest, "Zz+"); j >= 0 {
			cut = s[:i+1+j]
		} else if j := strings.LastIndex(rest, "-"); j >= 0 {
			cut = s[:i+1+j]
		}
	}
	cut = strings.Replace(cut, "T", " ", 1)
	for _, l := range []string{"2006-01-02 15:04:05.999999999", "2006-01-02 15:04:05", "2006-01-02 15:04", "2006-01-02"} {
		if t, err := time.Parse(l, strings.TrimSpace(cut)); err == nil {
			return TS(t.Unix()*1000000 + int64(t.Nanosecond()/1000)), nil
		}
	}
	return 0, errf("22007", "invalid input syntax for type timestamp: %q", s)
}
func (t TS) Time() time.Time { return time.Unix(int64(t)/1000000, (int64(t)%1000000)*1000).UTC() }
func (t TS) String() string  { return t.Time().Format(tsLayoutOut) }
func (t TS) ISO() string     { return t.Time().Format("2006-01-02T15:04:05.999999") }

// ---------------------------------------------------------------- json
func parseJSON(s string) (JSON, error) {
	d := json.NewDecoder(strings.NewReader(s))
	d.UseNumber()
	var v any
	if err := d.Decode(&v); err != nil {
		return JSON{}, errf("22P02", "invalid input syntax for type json: %v", err)
	}
	if d.More() {
		return JSON{}, errf("22P02", "invalid input syntax for type json: trailing data")
	}
	return JSON{v}, nil
}

func jsonText(v any, b *bytes.Buffer) {
	switch x := v.(type) {
	case nil:
		b.WriteString("null")
	case bool:
		if x {
			b.WriteString("true")
		} else {
			b.WriteString("false")
		}
	case json.Number:
		b.WriteString(string(x))
	case string:
		e, _ := json.Marshal(x)
		// encoding/json escapes <,>,& as <...; PG does not, but both parse to the same value
		b.Write(e)
	case []any:
		b.WriteByte('[')
		for i, e := range x {
			if i > 0 {
				b.WriteString(", ")
			}
			jsonText(e, b)
		}
		b.WriteByte(']')
	case map[string]any:
		keys := make([]string, 0, len(x))
		for k := range x {
			keys = append(keys, k)
		}
		sort.Slice(keys, func(i, j int) bool {
			if len(keys[i]) != len(keys[j]) {
				return len(keys[i]) < len(keys[j])
			}
			return keys[i] < keys[j]
		})
		b.WriteByte('{')
		for i, k := range keys {
			if i > 0 {
				b.WriteString(", ")
			}
			e, _ := json.Marshal(k)
			b.Write(e)
			b.WriteString(": ")
			jsonText(x[k], b)
		}
		b.WriteByte('}')
	default:
		panic(fmt.Sprintf("jsonText: %T", v))
	}
}
func (j JSON) String() string {
	var b bytes.Buffer
	jsonText(j.V, &b)
	return b.String()
}

func numEq(a, b json.Number) bool {
	if a == b {
		return true
	}
	x, ok1 := new(big.Rat).SetString(string(a))
	y, ok2 := new(big.Rat).SetString(string(b))
	return ok1 && ok2 && x.Cmp(y) == 0
}

func jsonEq(a, b any) bool {
	switch x := a.(type) {
	case nil:
		return b == nil
	case bool:
		y, ok := b.(bool)
		return ok && x == y
	case json.Number:
		y, ok := b.(json.Number)
		return ok && numEq(x, y)
	case string:
		y, ok := b.(string)
		return ok && x == y
	case []any:
		y, ok := b.([]any)
		if !ok || len(x) != len(y) {
			return false
		}
		for i := range x {
			if !jsonEq(x[i], y[i]) {
				return false
			}
		}
		return true
	case map[string]any:
		y, ok := b.(map[string]any)
		if !ok || len(x) != len(y) {
			return false
		}
		for k, v := range x {
			w, ok := y[k]
			if !ok || !jsonEq(v, w) {
				return false
			}
		}
		return true
	}
	return false
}

// jsonb containment a @> b (PG docs 8.14.3)
func jsonContains(a, b any, top bool) bool {
	switch y := b.(type) {
	case map[string]any:
		x, ok := a.(map[string]any)
		if !ok {
			return false
		}
		for k, v := range y {
			w, ok := x[k]
			if !ok || !jsonContains(w, v, false) {
				return false
			}
		}
		return true
	case []any:
		x, ok := a.([]any)
		if !ok {
			return false
		}
		for _, e := range y {
			found := false
			for _, f := range x {
				if _, isC := e.([]any); isC {
					found = jsonContains(f, e, false)
				} else if _, isM := e.(map[string]any); isM {
					found = jsonContains(f, e, false)
				} else {
					found = jsonEq(f, e)
				}
				if found {
					break
				}
			}
			if !found {
				return false
			}
		}
		return true
	default:
		// scalar: equal scalar, or (top level only) an array containing the scalar
		if x, ok := a.([]any); ok && top {
			for _, f := range x {
				if jsonEq(f, b) {
					return true
				}
			}
			return false
		}
		return jsonEq(a, b)
	}
}

// toJSON: to_json / to_jsonb / json_build_object argument conversion
func toJSONValue(v Value) any {
	switch x := v.(type) {
	case nil:
		return nil
	case bool:
		return x
	case *big.Int:
		return json.Number(x.String())
	case string:
		return x
	case Unknown:
		return string(x)
	case TS:
		return x.ISO()
	case JSON:
		return x.V
	case []byte:
		return "\\x" + hex.EncodeToString(x)
	case Arr:
		out := make([]any, len(x))
		for i, e := range x {
			out[i] = toJSONValue(e)
		}
		return out
	case Comp:
		m := map[string]any{}
		names := compositeTypes[x.Type]
		for i, f := range x.Fields {
			n := "f" + strconv.Itoa(i+1)
			if i < len(names) {
				n = names[i]
			}
			m[n] = toJSONValue(f)
		}
		return m
	}
	panic(fmt.Sprintf("toJSONValue %T", v))
}

// ---------------------------------------------------------------- text output (what the wire would carry)
func byteaEscapeOut(b []byte) string { return "\\x" + hex.EncodeToString(b) }

func TextOf(v Value) string {
	switch x := v.(type) {
	case nil:
		return ""
	case bool:
		if x {
			return "true"
		}
		return "false"
	case *big.Int:
		return x.String()
	case string:
		return x
	case Unknown:
		return string(x)
	case []byte:
		return byteaEscapeOut(x)
	case TS:
		return x.String()
	case JSON:
		return x.String()
	case Arr:
		parts := make([]string, len(x))
		for i, e := range x {
			if e == nil {
				parts[i] = "NULL"
				continue
			}
			s := TextOf(e)
			if _, isArr := e.(Arr); !isArr && (s == "" || strings.ContainsAny(s, `{}," \`) || strings.EqualFold(s, "null")) {
				s = `"` + strings.ReplaceAll(strings.ReplaceAll(s, `\`, `\\`), `"`, `\"`) + `"`
			}
			parts[i] = s
		}
		return "{" + strings.Join(parts, ",") + "}"
	case Comp:
		parts := make([]string, len(x.Fields))
		for i, e := range x.Fields {
			if e == nil {
				parts[i] = ""
				continue
			}
			s := TextOf(e)
			if s == "" || strings.ContainsAny(s, `(),"\ `) {
				s = `"` + strings.ReplaceAll(strings.ReplaceAll(s, `\`, `\\`), `"`, `""`) + `"`
			}
			parts[i] = s
		}
		return "(" + strings.Join(parts, ",") + ")"
	}
	panic(fmt.Sprintf("TextOf %T", v))
}

// ---------------------------------------------------------------- types and casts
func normType(t string) string {
	t = strings.ToLower(strings.TrimSpace(t))
	t = strings.ReplaceAll(t, `"`, "")
	if i := strings.LastIndex(t, "."); i >= 0 {
		t = t[i+1:]
	}
	if i := strings.Index(t, "("); i >= 0 {
		t = t[:i]
	}
	switch t {
	case "varchar", "character varying", "text", "char", "character", "name", "log_type", "citext":
		return "text"
	case "int", "integer", "int4", "int8", "bigint", "smallint", "numeric", "decimal", "bigserial", "serial", "int2":
		return "numeric"
	case "bool", "boolean":
		return "bool"
	case "timestamp", "timestamp without time zone", "timestamptz", "timestamp with time zone":
		return "timestamp"
	case "json", "jsonb":
		return "jsonb"
	case "bytea":
		return "bytea"
	case "jsonpath":
		return "jsonpath"
	}
	return t
}

func byteaIn(s string) ([]byte, error) {
	if strings.HasPrefix(s, `\x`) {
		b, err := hex.DecodeString(s[2:])
		if err != nil {
			return nil, errf("22P02", "invalid hexadecimal data")
		}
		return b, nil
	}
	// escape format: \\ -> \, \ooo -> byte, anything else literal (PG docs 8.4.2)
	var out []byte
	for i := 0; i < len(s); i++ {
		if s[i] != '\\' {
			out = append(out, s[i])
			continue
		}
		if i+1 < len(s) && s[i+1] == '\\' {
			out = append(out, '\\')
			i++
			continue
		}
		if i+3 < len(s) && s[i+1] >= '0' && s[i+1] <= '3' && s[i+2] >= '0' && s[i+2] <= '7' && s[i+3] >= '0' && s[i+3] <= '7' {
			out = append(out, (s[i+1]-'0')*64+(s[i+2]-'0')*8+(s[i+3]-'0'))
			i += 3
			continue
		}
		return nil, errf("22P02", "invalid input syntax for type bytea")
	}
	return out, nil
}

func byteaEscapeEncode(b []byte) string { // encode(b,'escape')
	var sb strings.Builder
	for _, c := range b {
		switch {
		case c == '\\':
			sb.WriteString(`\\`)
		case c == 0 || c >= 0x80:
			fmt.Fprintf(&sb, "\\%03o", c)
		default:
			sb.WriteByte(c)
		}
	}
	return sb.String()
}

func pgBase64(b []byte) string { // encode(b,'base64'), PG doc 9.5 (binary string functions, base64 format) / encode.c:pg_base64_encode:
	// a newline is written as soon as 76 characters stand on the current line, also when nothing follows (input length a multiple of 57)
	s := base64.StdEncoding.EncodeToString(b)
	var sb strings.Builder
	for i := 0; i < len(s); i += 76 {
		j := i + 76
		if j > len(s) {
			j = len(s)
		}
		sb.WriteString(s[i:j])
		if j-i == 76 {
			sb.WriteByte('\n')
		}
	}
	return sb.String()
}

func parseNumeric(s string) (*big.Int, error) {
	s = strings.TrimSpace(s)
	if n, ok := new(big.Int).SetString(s, 10); ok {
		return n, nil
	}
	if r, ok := new(big.Rat).SetString(s); ok && r.IsInt() {
		return new(big.Int).Set(r.Num()), nil
	}
	if f, ok := new(big.Rat).SetString(s); ok {
		// non integral numerics: the ledger never stores them; round half away from zero like ::bigint
		n := new(big.Int).Quo(f.Num(), f.Denom())
		return n, nil
	}
	return nil, errf("22P02", "invalid input syntax for type numeric: %q", s)
}

func parseArrayLit(s string, elem string) (Arr, error) {
	s = strings.TrimSpace(s)
	if len(s) < 2 || s[0] != '{' || s[len(s)-1] != '}' {
		return nil, errf("22P02", "malformed array literal: %q", s)
	}
	var out Arr
	i := 1
	for i < len(s)-1 {
		var item string
		quoted := false
		if s[i] == '"' {
			quoted = true
			i++
			var sb strings.Builder
			for i < len(s) && s[i] != '"' {
				if s[i] == '\\' {
					i++
				}
				sb.WriteByte(s[i])
				i++
			}
			i++
			item = sb.String()
		} else {
			j := i
			for j < len(s)-1 && s[j] != ',' {
				j++
			}
			item = s[i:j]
			i = j
		}
		if !quoted && strings.EqualFold(item, "null") {
			out = append(out, nil)
		} else {
			v, err := Cast(Unknown(item), elem)
			if err != nil {
				return nil, err
			}
			out = append(out, v)
		}
		if i < len(s)-1 && s[i] == ',' {
			i++
		}
	}
	return out, nil
}

func parseCompositeLit(s string, typ string) (Comp, error) {
	s = strings.TrimSpace(s)
	if len(s) < 2 || s[0] != '(' || s[len(s)-1] != ')' {
		return Comp{}, errf("22P02", "malformed record literal: %q", s)
	}
	var fields []Value
	body := s[1 : len(s)-1]
	for _, f := range strings.Split(body, ",") {
		f = strings.Trim(f, `"`)
		if f == "" {
			fields = append(fields, nil)
		} else {
			n, err := parseNumeric(f)
			if err != nil {
				fields = append(fields, f)
			} else {
				fields = append(fields, n)
			}
		}
	}
	return Comp{Type: typ, Fields: fields}, nil
}

// Cast implements v::typ (and assignment coercion of untyped literals)
func Cast(v Value, typ string) (Value, error) {
	if v == nil {
		return nil, nil
	}
	isArr := strings.HasSuffix(strings.TrimSpace(typ), "[]")
	if isArr {
		elem := strings.TrimSuffix(strings.TrimSpace(typ), "[]")
		switch x := v.(type) {
		case Arr:
			out := make(Arr, len(x))
			for i, e := range x {
				c, err := Cast(e, elem)
				if err != nil {
					return nil, err
				}
				out[i] = c
			}
			return out, nil
		case Unknown:
			return parseArrayLit(string(x), elem)
		case string:
			return parseArrayLit(x, elem)
		}
		return nil, errf("42846", "cannot cast %T to %s", v, typ)
	}
	t := normType(typ)
	switch t {
	case "text":
		switch x := v.(type) {
		case string:
			return x, nil
		case Unknown:
			return string(x), nil
		default:
			return TextOf(v), nil
		}
	case "numeric":
		switch x := v.(type) {
		case *big.Int:
			return x, nil
		case Unknown:
			return parseNumeric(string(x))
		case string:
			return parseNumeric(x)
		case bool:
			if x {
				return big.NewInt(1), nil
			}
			return big.NewInt(0), nil
		case JSON:
			if n, ok := x.V.(json.Number); ok {
				return parseNumeric(string(n))
			}
		}
	case "bool":
		switch x := v.(type) {
		case bool:
			return x, nil
		case Unknown, string:
			s := strings.ToLower(TextOf(x))
			switch s {
			case "t", "true", "yes", "on", "1":
				return true, nil
			case "f", "false", "no", "off", "0":
				return false, nil
			}
			return nil, errf("22P02", "invalid input syntax for type boolean: %q", s)
		case JSON:
			if b, ok := x.V.(bool); ok {
				return b, nil
			}
		}
	case "timestamp":
		switch x := v.(type) {
		case TS:
			return x, nil
		case Unknown:
			return parseTS(string(x))
		case string:
			return parseTS(x)
		}
	case "jsonb":
		switch x := v.(type) {
		case JSON:
			return x, nil
		case Unknown:
			return parseJSON(string(x))
		case string:
			return parseJSON(x)
		}
	case "bytea":
		switch x := v.(type) {
		case []byte:
			return x, nil
		case Unknown:
			return byteaIn(string(x))
		case string:
			return byteaIn(x)
		}
	case "jsonpath":
		return TextOf(v), nil
	default:
		if _, ok := compositeTypes[t]; ok {
			switch x := v.(type) {
			case Comp:
				x.Type = t
				return x, nil
			case Unknown:
				return parseCompositeLit(string(x), t)
			case string:
				return parseCompositeLit(x, t)
			}
		}
		if t == "regclass" || t == "unknown" {
			return TextOf(v), nil
		}
	}
	return nil, errf("42846", "cannot cast %T to %s", v, typ)
}

// typeOf returns the normalised type name of a runtime value ("" for NULL / unknown)
func typeOf(v Value) string {
	switch v.(type) {
	case bool:
		return "bool"
	case *big.Int:
		return "numeric"
	case string:
		return "text"
	case []byte:
		return "bytea"
	case TS:
		return "timestamp"
	case JSON:
		return "jsonb"
	case Arr:
		return "array"
	case Comp:
		return "record"
	}
	return ""
}

// unify coerces untyped literals to the type of the other operand (PG's unknown-literal resolution)
func unify(a, b Value) (Value, Value, error) {
	ua, aU := a.(Unknown)
	ub, bU := b.(Unknown)
	switch {
	case aU && bU:
		return string(ua), string(ub), nil
	case aU && b != nil:
		if arr, ok := b.(Arr); ok {
			_ = arr
			v, err := parseArrayLit(string(ua), "text")
			return v, b, err
		}
		v, err := Cast(ua, typeName(b))
		return v, b, err
	case bU && a != nil:
		if _, ok := a.(Arr); ok {
			v, err := parseArrayLit(string(ub), "text")
			return a, v, err
		}
		v, err := Cast(ub, typeName(a))
		return a, v, err
	case aU:
		return string(ua), b, nil
	case bU:
		return a, string(ub), nil
	}
	return a, b, nil
}

func typeName(v Value) string {
	if c, ok := v.(Comp); ok && c.Type != "" {
		return c.Type
	}
	t := typeOf(v)
	if t == "" {
		return "text"
	}
	return t
}

// Compare: total order within a type; ok=false when either is NULL
func Compare(a, b Value) (int, bool, error) {
	if a == nil || b == nil {
		return 0, false, nil
	}
	a, b, err := unify(a, b)
	if err != nil {
		return 0, false, err
	}
	switch x := a.(type) {
	case bool:
		if y, ok := b.(bool); ok {
			if x == y {
				return 0, true, nil
			}
			if !x {
				return -1, true, nil
			}
			return 1, true, nil
		}
	case *big.Int:
		if y, ok := b.(*big.Int); ok {
			return x.Cmp(y), true, nil
		}
	case string:
		if y, ok := b.(string); ok {
			return strings.Compare(x, y), true, nil // C collation (documented model choice)
		}
	case []byte:
		if y, ok := b.([]byte); ok {
			return bytes.Compare(x, y), true, nil
		}
	case TS:
		if y, ok := b.(TS); ok {
			switch {
			case x < y:
				return -1, true, nil
			case x > y:
				return 1, true, nil
			}
			return 0, true, nil
		}
	case JSON:
		if y, ok := b.(JSON); ok {
			if jsonEq(x.V, y.V) {
				return 0, true, nil
			}
			return strings.Compare(x.String(), y.String()), true, nil
		}
	case Arr:
		if y, ok := b.(Arr); ok {
			for i := 0; i < len(x) && i < len(y); i++ {
				c, ok, err := Compare(x[i], y[i])
				if err != nil {
					return 0, false, err
				}
				if !ok { // NULL elements: treat NULL as larger
					if x[i] == nil && y[i] == nil {
						continue
					}
					if x[i] == nil {
						return 1, true, nil
					}
					return -1, true, nil
				}
				if c != 0 {
					return c, true, nil
				}
			}
			return len(x) - len(y), true, nil
		}
	case Comp:
		if y, ok := b.(Comp); ok {
			for i := 0; i < len(x.Fields) && i < len(y.Fields); i++ {
				c, ok, err := Compare(x.Fields[i], y.Fields[i])
				if err != nil {
					return 0, false, err
				}
				if !ok {
					if x.Fields[i] == nil && y.Fields[i] == nil {
						continue
					}
					if x.Fields[i] == nil {
						return 1, true, nil
					}
					return -1, true, nil
				}
				if c != 0 {
					return c, true, nil
				}
			}
			return 0, true, nil
		}
	}
	return 0, false, errf("42883", "operator does not exist: %T vs %T", a, b)
}

// sortCompare: ORDER BY / DISTINCT comparison, NULLs last in ASC (PG default)
func sortCompare(a, b Value) int {
	if a == nil && b == nil {
		return 0
	}
	if a == nil {
		return 1
	}
	if b == nil {
		return -1
	}
	c, _, err := Compare(a, b)
	if err != nil {
		panic(err)
	}
	return c
}

func valuesEqualForGroup(a, b []Value) bool {
	for i := range a {
		if sortCompare(a[i], b[i]) != 0 {
			return false
		}
	}
	return true
}

func groupKey(vs []Value) string {
	var sb strings.Builder
	for _, v := range vs {
		if v == nil {
			sb.WriteString("\x00N")
		} else {
			if u, ok := v.(Unknown); ok {
				v = string(u)
			}
			sb.WriteString(typeOf(v))
			sb.WriteByte(':')
			sb.WriteString(TextOf(v))
		}
		sb.WriteByte('\x01')
	}
	return sb.String()
}
