//go:build verif

package pgsem

import (
	"strings"
)

// PL/pgSQL subset: declare/begin/end, assignment, select into, if/elsif/else, loop/exit/return, perform,
// insert/update/delete (with RETURNING … INTO), raise, null.
type plStmt interface{}
type (
	plBlock struct {
		Decls []plDecl
		Body  []plStmt
	}
	plDecl struct {
		Name, Type string
		Init       Expr
	}
	plAssign struct {
		Target *ColRef
		X      Expr
	}
	plIf struct {
		Conds  []Expr
		Thens  [][]plStmt
		Else   []plStmt
	}
	plLoop   struct{ Body []plStmt }
	plExit   struct{ When Expr }
	plReturn struct{ X Expr }
	plSQL    struct {
		Stmt Stmt
		Into []Expr
	}
	plPerform struct{ X Expr }
	plRaise   struct{ Msg string }
	plNull    struct{}
)

func parsePL(body string) (blk *plBlock, err error) {
	defer func() {
		if r := recover(); r != nil {
			if e, ok := r.(*SQLError); ok {
				err = e
				return
			}
			panic(r)
		}
	}()
	toks, lerr := lex(body)
	if lerr != nil {
		return nil, lerr
	}
	p := &parser{toks: toks, src: body}
	blk = p.parsePLBlock()
	return blk, nil
}

func (p *parser) parsePLBlock() *plBlock {
	b := &plBlock{}
	if p.acceptKw("declare") {
		for !p.isKw("begin") {
			d := plDecl{Name: p.ident()}
			d.Type = p.parseTypeName()
			if p.acceptOp(":=") || p.acceptOp("=") || p.acceptKw("default") {
				d.Init = p.parseExpr()
			}
			p.expectOp(";")
			b.Decls = append(b.Decls, d)
		}
	}
	p.expectKw("begin")
	b.Body = p.parsePLStmts("end")
	p.expectKw("end")
	p.acceptOp(";")
	return b
}

func (p *parser) atPLEnd(stops ...string) bool {
	for _, s := range stops {
		if p.isKw(s) {
			return true
		}
	}
	return p.peek().kind == tEOF
}

func (p *parser) parsePLStmts(stops ...string) []plStmt {
	var out []plStmt
	for !p.atPLEnd(stops...) {
		out = append(out, p.parsePLStmt())
	}
	return out
}

func (p *parser) parsePLStmt() plStmt {
	switch {
	case p.acceptKw("if"):
		s := &plIf{}
		cond := p.parseExpr()
		p.expectKw("then")
		s.Conds = append(s.Conds, cond)
		s.Thens = append(s.Thens, p.parsePLStmts("elsif", "elseif", "else", "end"))
		for p.isKw("elsif") || p.isKw("elseif") {
			p.next()
			c := p.parseExpr()
			p.expectKw("then")
			s.Conds = append(s.Conds, c)
			s.Thens = append(s.Thens, p.parsePLStmts("elsif", "elseif", "else", "end"))
		}
		if p.acceptKw("else") {
			s.Else = p.parsePLStmts("end")
		}
		p.expectKw("end")
		p.expectKw("if")
		p.expectOp(";")
		return s
	case p.acceptKw("loop"):
		s := &plLoop{Body: p.parsePLStmts("end")}
		p.expectKw("end")
		p.expectKw("loop")
		p.expectOp(";")
		return s
	case p.acceptKw("exit"):
		s := &plExit{}
		if p.acceptKw("when") {
			s.When = p.parseExpr()
		}
		p.expectOp(";")
		return s
	case p.acceptKw("return"):
		s := &plReturn{}
		if !p.isOp(";") {
			s.X = p.parseExpr()
		}
		p.expectOp(";")
		return s
	case p.acceptKw("perform"):
		x := p.parseExpr()
		p.expectOp(";")
		return &plPerform{X: x}
	case p.acceptKw("raise"):
		msg := ""
		for !p.isOp(";") {
			t := p.next()
			if t.kind == tString && msg == "" {
				msg = t.s
			}
		}
		p.expectOp(";")
		return &plRaise{Msg: msg}
	case p.acceptKw("null"):
		p.expectOp(";")
		return &plNull{}
	case p.isKw("select") || p.isKw("with"):
		sel := p.parseSelect()
		p.expectOp(";")
		into := sel.Into
		if into == nil && sel.Paren == nil {
			for _, u := range sel.Unions {
				_ = u
			}
		}
		return &plSQL{Stmt: sel, Into: into}
	case p.isKw("insert") || p.isKw("update") || p.isKw("delete"):
		var st Stmt
		switch p.peek().s {
		case "insert":
			st = p.parseInsert()
		case "update":
			st = p.parseUpdate()
		default:
			st = p.parseDelete()
		}
		var into []Expr
		if p.acceptKw("into") {
			into = p.parseIntoTargets()
		}
		p.expectOp(";")
		return &plSQL{Stmt: st, Into: into}
	}
	// assignment: name[.field] (:= | =) expr ;
	n := p.ident()
	tgt := &ColRef{Name: n}
	if p.acceptOp(".") {
		tgt = &ColRef{Table: n, Name: p.ident()}
	}
	if !p.acceptOp(":=") && !p.acceptOp("=") {
		p.fail("unsupported PL/pgSQL statement")
	}
	x := p.parseExpr()
	p.expectOp(";")
	return &plAssign{Target: tgt, X: x}
}

type plReturnSignal struct{ v Value }
type plExitSignal struct{}

type plFrame struct {
	ex     *Exec
	env    *Env
	newB   *binding
	found  *Value
	types  map[string]string
}

func (ex *Exec) getParsed(fn *Function) *plBlock {
	if fn.parsed == nil {
		if strings.ToLower(fn.Lang) != "plpgsql" {
			panic(errf("0A000", "function %s: language %q not supported by the model", fn.Name, fn.Lang))
		}
		blk, err := parsePL(fn.Body)
		if err != nil {
			panic(errf("42601", "function %s: %v", fn.Name, err))
		}
		fn.parsed = blk
	}
	return fn.parsed
}

func (ex *Exec) callTrigger(fn *Function, t *Table, newVals, oldVals []Value) []Value {
	blk := ex.getParsed(fn)
	nv := append([]Value{}, newVals...)
	newB := &binding{alias: "new", cols: t.colNames, row: nv, tbl: t}
	env := &Env{ex: ex, vars: map[string]*Value{}, rels: nil, qualifiedOnly: []*binding{newB}}
	if oldVals != nil {
		env.qualifiedOnly = append(env.qualifiedOnly, &binding{alias: "old", cols: t.colNames, row: oldVals})
	}
	fr := &plFrame{ex: ex, env: env, newB: newB}
	var ret Value
	ex.withSchema(t.Schema, func() { ret = fr.runBlock(blk, "\x00trigger") })
	if ret == nil {
		return nil
	}
	return newB.row
}

func (ex *Exec) callFunction(fn *Function, args []Value) Value {
	blk := ex.getParsed(fn)
	env := &Env{ex: ex, vars: map[string]*Value{}}
	for i, p := range fn.Params {
		if i < len(args) {
			v := args[i]
			if u, ok := v.(Unknown); ok {
				v = string(u)
			}
			env.vars[strings.ToLower(p)] = &v
		}
	}
	fr := &plFrame{ex: ex, env: env}
	return fr.runBlock(blk, fn.Returns)
}

func (fr *plFrame) runBlock(blk *plBlock, returns string) (ret Value) {
	found := Value(false)
	fr.env.vars["found"] = &found
	fr.found = &found
	fr.types = map[string]string{}
	for _, d := range blk.Decls {
		fr.types[strings.ToLower(d.Name)] = normType(d.Type)
		var v Value
		if d.Init != nil {
			v = fr.eval(d.Init)
		}
		vv := v
		fr.env.vars[strings.ToLower(d.Name)] = &vv
	}
	defer func() {
		if r := recover(); r != nil {
			if rs, ok := r.(plReturnSignal); ok {
				ret = rs.v
				return
			}
			panic(r)
		}
	}()
	fr.runStmts(blk.Body)
	if returns == "\x00trigger" {
		panic(errf("2F005", "control reached end of trigger procedure without RETURN"))
	}
	return nil
}

// every SQL statement inside a function runs with a fresh command id (sees the effects of earlier commands)
func (fr *plFrame) subExec() *Exec {
	tx := fr.ex.sess.tx
	tx.cid++
	sub := &Exec{db: fr.ex.db, sess: fr.ex.sess, snap: fr.ex.snap, cid: tx.cid, parent: nil, depth: fr.ex.depth + 1}
	return sub
}

func (fr *plFrame) eval(x Expr) Value {
	sub := fr.subExec()
	env := &Env{ex: sub, parent: nil, vars: fr.env.vars, qualifiedOnly: fr.env.qualifiedOnly}
	v := env.Eval(x)
	fr.flushAfter(sub)
	return v
}

func (fr *plFrame) flushAfter(sub *Exec) {
	for len(sub.after) > 0 {
		q := sub.after
		sub.after = nil
		for _, f := range q {
			f()
		}
	}
}

func (fr *plFrame) assign(tgt *ColRef, v Value) {
	if u, ok := v.(Unknown); ok {
		v = string(u)
	}
	if tgt.Table == "new" && fr.newB != nil {
		i := fr.newB.idx(tgt.Name)
		if i < 0 {
			panic(errf("42703", "record \"new\" has no field %q", tgt.Name))
		}
		fr.newB.row[i] = fr.ex.coerceToColumn(fr.newB.tbl, i, v)
		return
	}
	if tgt.Table != "" {
		p, ok := fr.env.vars[tgt.Table]
		if !ok {
			panic(errf("42601", "%q is not a known variable", tgt.Table))
		}
		c, _ := (*p).(Comp)
		names := compositeTypes[c.Type]
		for i, n := range names {
			if n == tgt.Name {
				c.Fields[i] = v
				*p = c
				return
			}
		}
		panic(errf("42703", "record %q has no field %q", tgt.Table, tgt.Name))
	}
	p, ok := fr.env.vars[tgt.Name]
	if !ok {
		panic(errf("42601", "%q is not a known variable", tgt.Name))
	}
	*p = v
}

func (fr *plFrame) runStmts(stmts []plStmt) {
	for _, s := range stmts {
		fr.runStmt(s)
	}
}

func (fr *plFrame) runStmt(s plStmt) {
	switch n := s.(type) {
	case *plAssign:
		fr.assign(n.Target, fr.eval(n.X))
	case *plIf:
		for i, c := range n.Conds {
			if b, known := truth(fr.eval(c)); known && b {
				fr.runStmts(n.Thens[i])
				return
			}
		}
		fr.runStmts(n.Else)
	case *plLoop:
		func() {
			defer func() {
				if r := recover(); r != nil {
					if _, ok := r.(plExitSignal); ok {
						return
					}
					panic(r)
				}
			}()
			limit := 1000000
			if fr.ex.db.LoopLimit > 0 {
				limit = fr.ex.db.LoopLimit
			}
			for i := 0; ; i++ {
				if i > limit {
					panic(errf("54000", "loop limit exceeded"))
				}
				fr.runStmts(n.Body)
			}
		}()
	case *plExit:
		if n.When == nil {
			panic(plExitSignal{})
		}
		if b, known := truth(fr.eval(n.When)); known && b {
			panic(plExitSignal{})
		}
	case *plReturn:
		if n.X == nil {
			panic(plReturnSignal{nil})
		}
		if c, ok := unparen(n.X).(*ColRef); ok && c.Table == "" && (c.Name == "new" || c.Name == "old") {
			panic(plReturnSignal{true})
		}
		panic(plReturnSignal{fr.eval(n.X)})
	case *plPerform:
		fr.eval(n.X)
	case *plRaise:
		panic(errf("P0001", "%s", n.Msg))
	case *plNull:
	case *plSQL:
		sub := fr.subExec()
		env := &Env{ex: sub, vars: fr.env.vars, qualifiedOnly: fr.env.qualifiedOnly}
		var rel *Rel
		switch st := n.Stmt.(type) {
		case *Select:
			cp := *st
			cp.Into = nil
			rel = sub.runSelect(&cp, env)
		case *Insert:
			rel = sub.runInsert(st, env)
		case *Update:
			rel = sub.runUpdate(st, env)
		case *Delete:
			rel = sub.runDelete(st, env)
		}
		fr.flushAfter(sub)
		*fr.found = len(rel.Rows) > 0 || rel.nAffected > 0
		if n.Into != nil {
			var row []Value
			if len(rel.Rows) > 0 {
				row = rel.Rows[0]
			}
			if len(n.Into) == 1 {
				tgt := n.Into[0].(*ColRef)
				if p, ok := fr.env.vars[tgt.Name]; ok && tgt.Table == "" {
					if c, isComp := (*p).(Comp); isComp || fr.isCompositeVar(tgt.Name) { // row into composite variable
						_ = c
						if row == nil {
							*p = nil
						} else {
							*p = Comp{Type: fr.varTypes()[tgt.Name], Fields: append([]Value{}, row...)}
						}
						return
					}
				}
			}
			for i, t := range n.Into {
				var v Value
				if row != nil && i < len(row) {
					v = row[i]
				}
				fr.assign(t.(*ColRef), v)
			}
		}
	default:
		panic(errf("0A000", "PL/pgSQL statement %T not supported", s))
	}
}

func (fr *plFrame) varTypes() map[string]string { return fr.types }

func (fr *plFrame) isCompositeVar(name string) bool {
	_, ok := compositeTypes[fr.types[name]]
	return ok
}
