//go:build verif

package pgsem

type Expr interface{}

type (
	Lit      struct{ V Value }
	ColRef   struct{ Table, Name string }
	StarRef  struct{ Table string }
	BinExpr  struct {
		Op   string
		L, R Expr
	}
	UnExpr struct {
		Op string
		X  Expr
	}
	IsNullExpr struct {
		X   Expr
		Not bool
	}
	FuncExpr struct {
		Name     string
		Args     []Expr
		Star     bool
		Distinct bool
		Over     *WindowSpec
		aggIdx   int
	}
	CastExpr struct {
		X    Expr
		Type string
	}
	CaseExpr struct {
		Operand Expr
		Whens   []WhenClause
		Else    Expr
	}
	InExpr struct {
		X    Expr
		List []Expr
		Sub  *Select
		Not  bool
	}
	ExistsExpr struct{ Sub *Select }
	SubExpr    struct{ Sub *Select }
	RowExpr    struct{ Items []Expr }
	ArrayExpr  struct{ Items []Expr }
	FieldExpr  struct {
		X    Expr
		Name string
	}
	IndexExpr struct {
		X      Expr
		Lo, Hi Expr
		Slice  bool
	}
	DefaultExpr struct{}
	ParamExpr   struct{ Name string }
)

type WhenClause struct{ Cond, Then Expr }
type WindowSpec struct {
	Partition []Expr
	Order     []OrderItem
}
type OrderItem struct {
	X    Expr
	Desc bool
}
type SelItem struct {
	X     Expr
	Alias string
}

type Stmt interface{}

type Select struct {
	With       []CTE
	Distinct   bool
	DistinctOn []Expr
	Cols       []SelItem
	From       []FromItem
	Where      Expr
	GroupBy    []Expr
	Having     Expr
	Values     [][]Expr // VALUES (...),(...) used as a query
	Unions     []*Select
	Order      []OrderItem
	Limit      Expr
	Offset     Expr
	ForUpdate  bool
	Into       []Expr // plpgsql select ... into
	Paren      *Select // parenthesised query used as a union arm / whole
}

type CTE struct {
	Name string
	Cols []string
	Stmt Stmt
}

type FromItem interface{}
type (
	TableRef struct {
		Schema, Name, Alias string
		ColAliases          []string
	}
	SubRef struct {
		Sel     *Select
		Alias   string
		Lateral bool
	}
	JoinRef struct {
		L, R FromItem
		Kind string // inner | left | cross
		On   Expr
	}
	FuncRef struct {
		Fn         *FuncExpr
		Alias      string
		ColAliases []string
	}
)

type Assign struct {
	Col string
	X   Expr
}
type OnConflict struct {
	Cols    []string
	Nothing bool
	Set     []Assign
	Where   Expr
}
type Insert struct {
	Table     TableRef
	Cols      []string
	Values    [][]Expr
	Sel       *Select
	Conflict  *OnConflict
	Returning []SelItem
}
type Update struct {
	Table     TableRef
	Set       []Assign
	From      []FromItem
	Where     Expr
	Returning []SelItem
}
type Delete struct {
	Table     TableRef
	Where     Expr
	Returning []SelItem
}
type Call struct {
	Schema string
	Name string
	Args []Expr
}
type CreateSequence struct {
	Schema, Name string
	Cache        int64 // CACHE n (1 when absent)
}
type CreateTrigger struct {
	Name, Timing, Event, Schema, Table string
	When                               Expr
	Func                               string
}
type DropTrigger struct{ Name, Table string }
type CreateFunction struct {
	Name, Lang, Body string
	Params           []string
	Returns          string
	IsProc           bool
}
type DropFunction struct{ Name string }
type CreateIndex struct {
	Schema      string
	Name, Table string
	Unique      bool
	Cols        []string
	Where       Expr
}
type DropIndex struct{ Name string }
type RenameIndex struct{ From, To string }
// TxStmt: begin commit rollback savepoint release rollback_to, and the statements that set transaction characteristics:
// set_tx (SET TRANSACTION ..., for the current transaction) and set_session_tx (SET SESSION CHARACTERISTICS AS TRANSACTION ... /
// SET default_transaction_isolation ...: default of the session's later transactions).  Iso is the requested isolation level in
// lower case ("" = not given: the session default), Access is "" | "read only" | "read write".
type TxStmt struct {
	Kind, Name  string
	Iso, Access string
}
type Noop struct{ What string }
