//go:build verif

package main

import (
	"fmt"
	"math/big"
	"sort"

	ledger "github.com/formancehq/ledger/internal"
)

// Property monitors: each states its property directly on what the IMPLEMENTATION returned (operation results and
// the snapshots read back through the real read paths), independently of the Coq model.

func init() {
	allMonitors = append(allMonitors,
		monitor{"C01", monC01}, monitor{"C02", monC02}, monitor{"C03", monC03}, monitor{"C04", monC04}, monitor{"C07", monC07},
		monitor{"C08", monC08}, monitor{"C14", monC14}, monitor{"C15", monC15}, monitor{"C16", monC16}, monitor{"C17", monC17cur},
		monitor{"C18", monC18})
}

type pair struct{ a, c string }
type io struct{ in, out *big.Int }

func newIO() *io { return &io{new(big.Int), new(big.Int)} }

func bi(s string) *big.Int {
	n, ok := new(big.Int).SetString(s, 10)
	if !ok {
		panic("bad int " + s)
	}
	return n
}

// committed(i): operation i changed the ledger (successful, not a dry run, not an idempotency replay)
func (hr *HistRun) committed(i int) bool {
	r := hr.Res[i]
	return r.Panic == "" && r.Class == "none" && !hr.Ops[i].Dry && !r.Hit
}

func (hr *HistRun) snapsDo(f func(i int, s Snap) string) string {
	for i, s := range hr.Snaps {
		if s.Err != "" {
			return fmt.Sprintf("step %d: reads failed: %s", i, s.Err)
		}
		if m := f(i, s); m != "" {
			return fmt.Sprintf("step %d: %s", i, m)
		}
	}
	return ""
}

// ---- C01 conservation per asset: current volumes, aggregated balances, account reads, moves
func monC01(hr *HistRun) string {
	return hr.snapsDo(func(i int, s Snap) string {
		sum := map[string]*big.Int{}
		add := func(c string, d *big.Int) {
			if sum[c] == nil {
				sum[c] = new(big.Int)
			}
			sum[c].Add(sum[c], d)
		}
		for _, v := range s.Vols {
			add(v[1], new(big.Int).Sub(bi(v[2]), bi(v[3])))
		}
		for c, t := range sum {
			if t.Sign() != 0 {
				return fmt.Sprintf("volumes listing: asset %s has total input-output = %s", c, t)
			}
		}
		for c, b := range s.Agg {
			if bi(b).Sign() != 0 {
				return fmt.Sprintf("aggregated balances: asset %s = %s, expected 0", c, b)
			}
		}
		acc := map[string]*big.Int{}
		for _, a := range s.Accounts {
			for _, v := range a.Vols {
				if acc[v[0]] == nil {
					acc[v[0]] = new(big.Int)
				}
				acc[v[0]].Add(acc[v[0]], new(big.Int).Sub(bi(v[1]), bi(v[2])))
			}
		}
		for c, t := range acc {
			if t.Sign() != 0 {
				return fmt.Sprintf("account reads: asset %s balances sum to %s", c, t)
			}
		}
		mv := map[string]*big.Int{}
		for _, m := range s.Moves {
			if mv[m.Asset] == nil {
				mv[m.Asset] = new(big.Int)
			}
			if m.Src {
				mv[m.Asset].Sub(mv[m.Asset], bi(m.Amt))
			} else {
				mv[m.Asset].Add(mv[m.Asset], bi(m.Amt))
			}
		}
		for c, t := range mv {
			if t.Sign() != 0 {
				return fmt.Sprintf("moves: asset %s inputs-outputs = %s", c, t)
			}
		}
		return ""
	})
}

// fold of the postings of all committed transactions up to and including step i (from the RESULTS the implementation returned)
func (hr *HistRun) foldPostings(upto int) map[pair]*io {
	f := map[pair]*io{}
	get := func(p pair) *io {
		if f[p] == nil {
			f[p] = newIO()
		}
		return f[p]
	}
	for i := 0; i <= upto && i < len(hr.Res); i++ {
		if !hr.committed(i) || hr.Res[i].Tx == nil {
			continue
		}
		for _, p := range hr.Res[i].Tx.Postings {
			s := get(pair{p.Source, p.Asset})
			s.out.Add(s.out, p.Amount)
			d := get(pair{p.Destination, p.Asset})
			d.in.Add(d.in, p.Amount)
		}
	}
	return f
}

// ---- C02 volumes equal the fold of committed postings (volumes listing, account reads, aggregated balances)
func monC02(hr *HistRun) string {
	return hr.snapsDo(func(i int, s Snap) string {
		f := hr.foldPostings(i)
		seen := map[pair]bool{}
		for _, v := range s.Vols {
			p := pair{v[0], v[1]}
			seen[p] = true
			w := f[p]
			if w == nil {
				return fmt.Sprintf("volumes row %v exists but no committed posting touches it", p)
			}
			if w.in.Cmp(bi(v[2])) != 0 || w.out.Cmp(bi(v[3])) != 0 {
				return fmt.Sprintf("volumes of %v are (%s,%s); fold of committed postings is (%s,%s)", p, v[2], v[3], w.in, w.out)
			}
		}
		for p := range f {
			if !seen[p] {
				return fmt.Sprintf("no volumes row for %v although committed postings touch it", p)
			}
		}
		for _, a := range s.Accounts {
			for _, v := range a.Vols {
				w := f[pair{a.Addr, v[0]}]
				if w == nil || w.in.Cmp(bi(v[1])) != 0 || w.out.Cmp(bi(v[2])) != 0 {
					return fmt.Sprintf("account %s expand volumes %v differ from the fold", a.Addr, v)
				}
			}
		}
		return ""
	})
}

// ---- C03 post-commit volumes: state right after the transaction; pre = post - own postings; moves = running volumes; frozen afterwards
// returnedTxMatches: the transaction a create/revert returns equals the transaction read right after it (core fields and
// postCommitVolumes; with eff also postCommitEffectiveVolumes, which the store computes from the moves it has just inserted)
func returnedTxMatches(tx *ledger.Transaction, s Snap, eff bool) string {
	for _, t := range s.Txs {
		if tx.ID == nil || t.ID != int64(*tx.ID) {
			continue
		}
		var post []Posting
		for _, p := range tx.Postings {
			post = append(post, Posting{p.Source, p.Destination, p.Asset, p.Amount})
		}
		if fmt.Sprint(post) != fmt.Sprint(t.Post) || fmt.Sprint(sortKV(tx.Metadata)) != fmt.Sprint(t.Meta) || us(tx.Timestamp.Time) != t.TS || tx.Reference != t.Ref {
			return fmt.Sprintf("tx %d as returned by the write (postings %v, metadata %v, timestamp %d, reference %q) differs from the stored one (%v, %v, %d, %q) [returned-tx]", t.ID, post, sortKV(tx.Metadata), us(tx.Timestamp.Time), tx.Reference, t.Post, t.Meta, t.TS, t.Ref)
		}
		if fmt.Sprint(volsOf(tx.PostCommitVolumes)) != fmt.Sprint(t.PCV) {
			return fmt.Sprintf("tx %d: the write returned postCommitVolumes %v, the read right after it gives %v [returned-pcv]", t.ID, volsOf(tx.PostCommitVolumes), t.PCV)
		}
		if eff && t.HasPCEV && fmt.Sprint(volsOf(tx.PostCommitEffectiveVolumes)) != fmt.Sprint(t.PCEV) {
			return fmt.Sprintf("tx %d: the write returned postCommitEffectiveVolumes %v, the read right after it gives %v [returned-pcev]", t.ID, volsOf(tx.PostCommitEffectiveVolumes), t.PCEV)
		}
		return ""
	}
	return fmt.Sprintf("the transaction %v returned by the write is not listed", tx.ID)
}

func monC03(hr *HistRun) string {
	frozen := map[int64]string{}
	return hr.snapsDo(func(i int, s Snap) string {
		if hr.committed(i) && hr.Res[i].Tx != nil {
			if msg := returnedTxMatches(hr.Res[i].Tx, s, false); msg != "" {
				return msg
			}
			tx := hr.Res[i].Tx
			after := hr.foldPostings(i)
			before := hr.foldPostings(i - 1)
			touched := map[pair]bool{}
			for _, p := range tx.Postings {
				touched[pair{p.Source, p.Asset}] = true
				touched[pair{p.Destination, p.Asset}] = true
			}
			n := 0
			for a, by := range tx.PostCommitVolumes {
				for c, v := range by {
					n++
					w := after[pair{a, c}]
					if !touched[pair{a, c}] || w == nil || w.in.Cmp(v.Input) != 0 || w.out.Cmp(v.Output) != 0 {
						return fmt.Sprintf("tx %d postCommitVolumes[%s][%s] = (%s,%s) is not the state right after the transaction", *tx.ID, a, c, v.Input, v.Output)
					}
				}
			}
			if n != len(touched) {
				return fmt.Sprintf("tx %d postCommitVolumes has %d entries, the transaction touches %d account/asset pairs", *tx.ID, n, len(touched))
			}
			pre := tx.PostCommitVolumes.SubtractPostings(tx.Postings)
			for a, by := range pre {
				for c, v := range by {
					w := before[pair{a, c}]
					if w == nil {
						w = newIO()
					}
					if w.in.Cmp(v.Input) != 0 || w.out.Cmp(v.Output) != 0 {
						return fmt.Sprintf("tx %d preCommitVolumes[%s][%s] = (%s,%s), state before the transaction is (%s,%s)", *tx.ID, a, c, v.Input, v.Output, w.in, w.out)
					}
				}
			}
			// moves of this transaction: running volumes after each side, source side first
			if hr.Feat.Moves {
				run := map[pair]*io{}
				cur := func(p pair) *io {
					if run[p] == nil {
						run[p] = newIO()
						if b := before[p]; b != nil {
							run[p].in.Set(b.in)
							run[p].out.Set(b.out)
						}
					}
					return run[p]
				}
				var mine []SnapMove
				for _, m := range s.Moves {
					if m.Tx == int64(*tx.ID) {
						mine = append(mine, m)
					}
				}
				if len(mine) != 2*len(tx.Postings) {
					return fmt.Sprintf("tx %d has %d moves for %d postings", *tx.ID, len(mine), len(tx.Postings))
				}
				for k, p := range tx.Postings {
					sv := cur(pair{p.Source, p.Asset})
					sv.out.Add(sv.out, p.Amount)
					m := mine[2*k]
					if !m.Src || m.Acc != p.Source || m.Asset != p.Asset || bi(m.PCV[0]).Cmp(sv.in) != 0 || bi(m.PCV[1]).Cmp(sv.out) != 0 {
						return fmt.Sprintf("tx %d move %d (source side of posting %d) has volumes %v, running volumes are (%s,%s)", *tx.ID, 2*k, k, m.PCV, sv.in, sv.out)
					}
					dv := cur(pair{p.Destination, p.Asset})
					dv.in.Add(dv.in, p.Amount)
					m = mine[2*k+1]
					if m.Src || m.Acc != p.Destination || m.Asset != p.Asset || bi(m.PCV[0]).Cmp(dv.in) != 0 || bi(m.PCV[1]).Cmp(dv.out) != 0 {
						return fmt.Sprintf("tx %d move %d (destination side of posting %d) has volumes %v, running volumes are (%s,%s)", *tx.ID, 2*k+1, k, m.PCV, dv.in, dv.out)
					}
				}
			}
		}
		for _, t := range s.Txs {
			cur := fmt.Sprint(t.PCV)
			if old, ok := frozen[t.ID]; ok && old != cur {
				return fmt.Sprintf("tx %d postCommitVolumes changed after commit: %s -> %s", t.ID, old, cur)
			}
			frozen[t.ID] = cur
		}
		return ""
	})
}

// ---- C04 effective volumes: fold of the moves ordered by (effective date, insertion)
func monC04(hr *HistRun) string {
	if !hr.Feat.Moves || !hr.Feat.PCEV {
		return ""
	}
	return hr.snapsDo(func(i int, s Snap) string {
		// the transaction RETURNED by the write carries the effective volumes the read gives right after it
		if hr.committed(i) && hr.Res[i].Tx != nil {
			if msg := returnedTxMatches(hr.Res[i].Tx, s, true); msg != "" {
				return msg
			}
		}
		for _, m := range s.Moves {
			if m.PCEV == nil {
				return fmt.Sprintf("move of tx %d on %s/%s has no effective volumes", m.Tx, m.Acc, m.Asset)
			}
			in, out := new(big.Int), new(big.Int)
			for _, o := range s.Moves {
				if o.Acc == m.Acc && o.Asset == m.Asset && (o.Eff < m.Eff || (o.Eff == m.Eff && o.Seq <= m.Seq)) {
					if o.Src {
						out.Add(out, bi(o.Amt))
					} else {
						in.Add(in, bi(o.Amt))
					}
				}
			}
			if in.Cmp(bi(m.PCEV[0])) != 0 || out.Cmp(bi(m.PCEV[1])) != 0 {
				return fmt.Sprintf("move (tx %d, %s/%s, effective %d) has effective volumes %v, fold in effective order is (%s,%s)", m.Tx, m.Acc, m.Asset, m.Eff, *m.PCEV, in, out)
			}
		}
		// the per-transaction read: last move of the transaction per account/asset
		for _, t := range s.Txs {
			want := map[pair][2]string{}
			for _, m := range s.Moves {
				if m.Tx == t.ID {
					want[pair{m.Acc, m.Asset}] = *m.PCEV
				}
			}
			if len(want) != len(t.PCEV) {
				return fmt.Sprintf("tx %d postCommitEffectiveVolumes has %d entries, expected %d", t.ID, len(t.PCEV), len(want))
			}
			for _, v := range t.PCEV {
				w := want[pair{v[0], v[1]}]
				if w[0] != v[2] || w[1] != v[3] {
					return fmt.Sprintf("tx %d postCommitEffectiveVolumes[%s][%s] = (%s,%s), expected %v", t.ID, v[0], v[1], v[2], v[3], w)
				}
			}
		}
		return ""
	})
}

// ---- C07 failed and dry-run writes leave no trace
func monC07(hr *HistRun) string {
	prev := Snap{}.sx()
	for i := range hr.Snaps {
		cur := hr.Snaps[i].sx()
		if !hr.committed(i) && cur != prev {
			kind := "failed"
			if hr.Res[i].Class == "none" {
				kind = "dry-run / idempotent-replay"
			}
			return fmt.Sprintf("step %d: %s operation changed the ledger", i, kind)
		}
		prev = cur
	}
	return ""
}

// ---- C08 one log per committed write, increasing ids, and the logs replay to the same state
func monC08(hr *HistRun) string {
	nlogs := 0
	var lastID int64
	return hr.snapsDo(func(i int, s Snap) string {
		want := nlogs
		if hr.committed(i) {
			want++
		}
		if len(s.Logs) != want {
			return fmt.Sprintf("%d logs after the operation, expected %d", len(s.Logs), want)
		}
		if hr.committed(i) {
			l := s.Logs[len(s.Logs)-1]
			if l.ID <= lastID {
				return fmt.Sprintf("log id %d does not increase (previous %d)", l.ID, lastID)
			}
			if l.ID != hr.Res[i].LogID {
				return fmt.Sprintf("returned log id %d, stored last log id %d", hr.Res[i].LogID, l.ID)
			}
			lastID = l.ID
		}
		nlogs = want
		// replay of the exported logs
		vols := map[pair]*io{}
		type rtx struct {
			post     string
			reverted bool
			meta     map[string]string
		}
		txs := map[int64]*rtx{}
		accMeta := map[string]map[string]string{}
		accs := map[string]bool{}
		apply := func(t ledger.Transaction) {
			for _, p := range t.Postings {
				for _, k := range []pair{{p.Source, p.Asset}, {p.Destination, p.Asset}} {
					if vols[k] == nil {
						vols[k] = newIO()
					}
				}
				vols[pair{p.Source, p.Asset}].out.Add(vols[pair{p.Source, p.Asset}].out, p.Amount)
				vols[pair{p.Destination, p.Asset}].in.Add(vols[pair{p.Destination, p.Asset}].in, p.Amount)
				accs[p.Source], accs[p.Destination] = true, true
			}
			m := map[string]string{}
			for k, v := range t.Metadata {
				m[k] = v
			}
			txs[int64(*t.ID)] = &rtx{post: fmt.Sprint(t.Postings), meta: m}
		}
		setAcc := func(a string, md map[string]string) {
			accs[a] = true
			if accMeta[a] == nil {
				accMeta[a] = map[string]string{}
			}
			for k, v := range md {
				accMeta[a][k] = v
			}
		}
		for _, l := range s.Logs {
			switch p := l.Raw.Data.(type) {
			case ledger.CreatedTransaction:
				apply(p.Transaction)
				for a, md := range p.AccountMetadata {
					setAcc(a, md)
				}
			case ledger.RevertedTransaction:
				apply(p.RevertTransaction)
				if t := txs[int64(*p.RevertedTransaction.ID)]; t != nil {
					t.reverted = true
				}
			case ledger.SavedMetadata:
				if p.TargetType == ledger.MetaTargetTypeAccount {
					setAcc(p.TargetID.(string), p.Metadata)
				} else if t := txs[int64(p.TargetID.(uint64))]; t != nil {
					for k, v := range p.Metadata {
						t.meta[k] = v
					}
				}
			case ledger.DeletedMetadata:
				if p.TargetType == ledger.MetaTargetTypeAccount {
					delete(accMeta[p.TargetID.(string)], p.Key)
				} else if t := txs[int64(p.TargetID.(uint64))]; t != nil {
					delete(t.meta, p.Key)
				}
			}
		}
		if len(vols) != len(s.Vols) {
			return fmt.Sprintf("replaying the logs gives %d volume rows, the ledger has %d", len(vols), len(s.Vols))
		}
		for _, v := range s.Vols {
			w := vols[pair{v[0], v[1]}]
			if w == nil || w.in.Cmp(bi(v[2])) != 0 || w.out.Cmp(bi(v[3])) != 0 {
				return fmt.Sprintf("replaying the logs gives different volumes for %s/%s", v[0], v[1])
			}
		}
		if len(txs) != len(s.Txs) {
			return fmt.Sprintf("replaying the logs gives %d transactions, the ledger has %d", len(txs), len(s.Txs))
		}
		for _, t := range s.Txs {
			r := txs[t.ID]
			if r == nil {
				return fmt.Sprintf("transaction %d is not in the logs", t.ID)
			}
			if r.reverted != (t.Rev != nil) {
				return fmt.Sprintf("transaction %d reverted=%v in the ledger, %v by log replay", t.ID, t.Rev != nil, r.reverted)
			}
			if fmt.Sprint(sortKV(r.meta)) != fmt.Sprint(t.Meta) {
				return fmt.Sprintf("transaction %d metadata %v, by log replay %v", t.ID, t.Meta, sortKV(r.meta))
			}
		}
		if len(accs) != len(s.Accounts) {
			return fmt.Sprintf("replaying the logs gives %d accounts, the ledger has %d", len(accs), len(s.Accounts))
		}
		for _, a := range s.Accounts {
			if !accs[a.Addr] {
				return fmt.Sprintf("account %s is not implied by the logs", a.Addr)
			}
			if fmt.Sprint(sortKV(accMeta[a.Addr])) != fmt.Sprint(a.Meta) {
				return fmt.Sprintf("account %s metadata %v, by log replay %v", a.Addr, a.Meta, sortKV(accMeta[a.Addr]))
			}
		}
		return ""
	})
}

// ---- C14 references unique per ledger; reuse is a reference conflict
func monC14(hr *HistRun) string {
	used := map[string]bool{}
	return hr.snapsDo(func(i int, s Snap) string {
		o := hr.Ops[i]
		r := hr.Res[i]
		if o.Kind == "create" && o.Ref != "" && used[o.Ref] && !r.Hit && r.Class == "none" {
			return fmt.Sprintf("a second transaction was accepted with reference %q", o.Ref)
		}
		if r.Class == "reference_conflict" && !(o.Kind == "create" && used[o.Ref]) {
			return fmt.Sprintf("reference conflict reported for %q which no committed transaction carries", o.Ref)
		}
		seen := map[string]int64{}
		for _, t := range s.Txs {
			if t.Ref == "" {
				continue
			}
			if other, dup := seen[t.Ref]; dup {
				return fmt.Sprintf("transactions %d and %d both carry reference %q", other, t.ID, t.Ref)
			}
			seen[t.Ref] = t.ID
			used[t.Ref] = true
		}
		return ""
	})
}

// ---- C15 revert is an exact, single inverse
func monC15(hr *HistRun) string {
	reverted := map[int64]bool{}
	return hr.snapsDo(func(i int, s Snap) string {
		o, r := hr.Ops[i], hr.Res[i]
		if o.Kind != "revert" {
			return ""
		}
		if reverted[o.TxID] && r.Class == "none" && !r.Hit {
			return fmt.Sprintf("transaction %d was reverted a second time", o.TxID)
		}
		if !hr.committed(i) {
			if r.Class == "already_reverted" && !reverted[o.TxID] {
				return fmt.Sprintf("already-reverted reported for transaction %d which was never reverted", o.TxID)
			}
			return ""
		}
		reverted[o.TxID] = true
		var orig *SnapTx
		for k := range s.Txs {
			if s.Txs[k].ID == o.TxID {
				orig = &s.Txs[k]
			}
		}
		rv := r.Tx
		if orig == nil || rv == nil {
			return "revert succeeded but the original or the revert transaction is missing"
		}
		if len(rv.Postings) != len(orig.Post) {
			return "revert has a different number of postings"
		}
		n := len(orig.Post)
		for k, p := range rv.Postings {
			q := orig.Post[n-1-k]
			if p.Source != q.Dst || p.Destination != q.Src || p.Asset != q.Asset || p.Amount.Cmp(q.Amt) != 0 {
				return fmt.Sprintf("revert posting %d is %v, expected the swap of original posting %d %v", k, p, n-1-k, q)
			}
		}
		if rv.Metadata[ledger.RevertMetadataSpecKey()] != fmt.Sprint(o.TxID) {
			return fmt.Sprintf("revert metadata mark is %q", rv.Metadata[ledger.RevertMetadataSpecKey()])
		}
		if orig.Rev == nil {
			return "original transaction is not marked reverted"
		}
		wantTS := *orig.Rev
		if o.AtEff {
			wantTS = orig.TS
		}
		if us(rv.Timestamp.Time) != wantTS {
			return fmt.Sprintf("revert timestamp %d, expected %d (atEffectiveDate=%v)", us(rv.Timestamp.Time), wantTS, o.AtEff)
		}
		// T + revert leave every balance unchanged: compare with the fold without both
		return ""
	})
}

// ---- C16 ids unique and increasing in commit order (sequential part)
func monC16(hr *HistRun) string {
	var lastTx, lastLog int64
	return hr.snapsDo(func(i int, s Snap) string {
		if !hr.committed(i) {
			return ""
		}
		r := hr.Res[i]
		if r.TxID != nil {
			if *r.TxID <= lastTx {
				return fmt.Sprintf("transaction id %d after %d", *r.TxID, lastTx)
			}
			lastTx = *r.TxID
		}
		if r.LogID <= lastLog {
			return fmt.Sprintf("log id %d after %d", r.LogID, lastLog)
		}
		lastLog = r.LogID
		seen := map[int64]bool{}
		for _, t := range s.Txs {
			if seen[t.ID] {
				return fmt.Sprintf("duplicate transaction id %d", t.ID)
			}
			seen[t.ID] = true
		}
		return ""
	})
}

// ---- C17 (current metadata): saves in commit order, last write wins, minus deleted keys
func monC17cur(hr *HistRun) string {
	txm := map[int64]map[string]string{}
	acm := map[string]map[string]string{}
	return hr.snapsDo(func(i int, s Snap) string {
		if hr.committed(i) {
			o, r := hr.Ops[i], hr.Res[i]
			switch o.Kind {
			case "create", "revert":
				m := map[string]string{}
				for k, v := range r.Tx.Metadata {
					m[k] = v
				}
				txm[*r.TxID] = m
				if o.Kind == "create" && o.Script && !r.Hit {
					// metadata set by the script and at creation: the script's keys, the request's over them
					want := map[string]string{}
					for _, kv := range o.SMeta {
						want[kv.K] = kv.V
					}
					for _, kv := range o.Meta {
						want[kv.K] = kv.V
					}
					if fmt.Sprint(sortKV(want)) != fmt.Sprint(sortKV(m)) {
						return fmt.Sprintf("step %d: transaction %d created by a script setting %v with request metadata %v carries %v [script-tx-meta]", i, *r.TxID, o.SMeta, o.Meta, sortKV(m))
					}
				}
				for a, kvs := range o.accMetaAll() {
					if acm[a] == nil {
						acm[a] = map[string]string{}
					}
					for _, kv := range kvs {
						acm[a][kv.K] = kv.V
					}
				}
			case "setmeta":
				tgt := acm[o.TgtAcc]
				if !o.IsAcc {
					tgt = txm[o.TxID]
				} else if tgt == nil {
					tgt = map[string]string{}
					acm[o.TgtAcc] = tgt
				}
				for _, kv := range o.Meta {
					tgt[kv.K] = kv.V
				}
			case "delmeta":
				if o.IsAcc {
					delete(acm[o.TgtAcc], o.Key)
				} else {
					delete(txm[o.TxID], o.Key)
				}
			}
		}
		for _, t := range s.Txs {
			if fmt.Sprint(sortKV(txm[t.ID])) != fmt.Sprint(t.Meta) {
				return fmt.Sprintf("transaction %d metadata is %v, saves/deletes in commit order give %v", t.ID, t.Meta, sortKV(txm[t.ID]))
			}
		}
		for _, a := range s.Accounts {
			if fmt.Sprint(sortKV(acm[a.Addr])) != fmt.Sprint(a.Meta) {
				return fmt.Sprintf("account %s metadata is %v, saves/deletes in commit order give %v", a.Addr, a.Meta, sortKV(acm[a.Addr]))
			}
		}
		return ""
	})
}

// ---- C18 account existence, first usage, insertion date
func monC18(hr *HistRun) string {
	type acc struct{ first, ins, firstNoRevert int64 }
	want := map[string]*acc{}
	isRevert := false
	touch := func(a string, eff, now int64) {
		if w := want[a]; w == nil {
			want[a] = &acc{eff, now, eff}
		} else {
			if eff < w.first {
				w.first = eff
			}
			if eff < w.firstNoRevert && !isRevert {
				w.firstNoRevert = eff
			}
		}
	}
	return hr.snapsDo(func(i int, s Snap) string {
		if hr.committed(i) {
			o, r := hr.Ops[i], hr.Res[i]
			isRevert = o.Kind == "revert"
			switch {
			case r.Tx != nil:
				eff := us(r.Tx.Timestamp.Time)
				for _, p := range r.Tx.Postings {
					touch(p.Source, eff, o.Now)
					touch(p.Destination, eff, o.Now)
				}
				for a := range o.accMetaAll() {
					touch(a, eff, o.Now)
				}
			case o.Kind == "setmeta" && o.IsAcc:
				touch(o.TgtAcc, o.Now, o.Now) // a metadata write is a usage at the time of the write (UpsertAccounts: missing first_usage = transaction_date())
			}
		}
		if len(want) != len(s.Accounts) {
			var have []string
			for _, a := range s.Accounts {
				have = append(have, a.Addr)
			}
			sort.Strings(have)
			return fmt.Sprintf("%d accounts listed %v, %d expected from the committed history", len(s.Accounts), have, len(want))
		}
		for _, a := range s.Accounts {
			w := want[a.Addr]
			if w == nil {
				return fmt.Sprintf("account %s is listed but was never used", a.Addr)
			}
			if a.First != w.first {
				tag := ""
				if a.First == w.firstNoRevert {
					tag = "[revert-before-first-usage] " // the only events earlier than the recorded first usage are revert transactions
				}
				return fmt.Sprintf("%saccount %s first usage %d, earliest effective event %d", tag, a.Addr, a.First, w.first)
			}
			if a.Ins != w.ins {
				return fmt.Sprintf("account %s insertion date %d, created at %d", a.Addr, a.Ins, w.ins)
			}
		}
		return ""
	})
}
