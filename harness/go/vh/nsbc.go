//go:build verif

package main

import (
	"encoding/hex"
	"fmt"
	"math/big"
	"sort"
	"time"

	"github.com/formancehq/ledger/internal/machine"
	"github.com/formancehq/ledger/internal/machine/script/compiler"
	"github.com/formancehq/ledger/internal/machine/vm/program"
)

// nsbc: the bytecode layer. For every generated program: the REAL compiler.Compile output (instruction bytes,
// resource table, needed balances) against the model compiler (Machine/Compile.v), and the REAL machine's result
// against the model bytecode VM (Machine/Vm.v, VmRun.v) run on the REAL bytecode (carried inside the case).
func init() { commands["nsbc"] = cmdNsBc }

func bcValue(v machine.Value) string {
	switch v := v.(type) {
	case machine.AccountAddress:
		return L("const", "account", Q(string(v)))
	case machine.Asset:
		return L("const", "asset", Q(string(v)))
	case *machine.MonetaryInt:
		return L("const", "number", v.String())
	case machine.String:
		return L("const", "string", Q(string(v)))
	case machine.Portion:
		if v.Remaining {
			return L("const", "remaining")
		}
		return L("const", "portion", v.Specific.Num().String(), v.Specific.Denom().String())
	}
	return L("const", "unknown", Q(fmt.Sprintf("%T", v)))
}

func bcProgram(p *program.Program) string {
	var rs []string
	for _, r := range p.Resources {
		switch r := r.(type) {
		case program.Constant:
			rs = append(rs, bcValue(r.Inner))
		case program.Variable:
			rs = append(rs, L("var", r.Typ.String(), Q(r.Name)))
		case program.VariableAccountMetadata:
			rs = append(rs, L("varmeta", r.Typ.String(), Q(r.Name), fmt.Sprint(uint16(r.Account)), Q(r.Key)))
		case program.VariableAccountBalance:
			rs = append(rs, L("varbal", Q(r.Name), fmt.Sprint(uint16(r.Account)), fmt.Sprint(uint16(r.Asset))))
		case program.Monetary:
			rs = append(rs, L("mon", fmt.Sprint(uint16(r.Asset)), (*big.Int)(r.Amount).String()))
		default:
			rs = append(rs, L("unknown", Q(fmt.Sprintf("%T", r))))
		}
	}
	var nd [][2]int
	for a, ms := range p.NeededBalances {
		for m := range ms {
			nd = append(nd, [2]int{int(a), int(m)})
		}
	}
	sort.Slice(nd, func(i, j int) bool {
		if nd[i][0] != nd[j][0] {
			return nd[i][0] < nd[j][0]
		}
		return nd[i][1] < nd[j][1]
	})
	var ns []string
	for _, x := range nd {
		ns = append(ns, L(fmt.Sprint(x[0]), fmt.Sprint(x[1])))
	}
	return L("prog", Q(hex.EncodeToString(p.Instructions)), L(rs...), L(ns...))
}

func cmdNsBc(args []string) int {
	f := ParseFlags(args)
	out := NewOut(f.Out)
	defer out.Close()
	r := NewRng(f.Seed)
	profile := f.Extra["profile"]
	one := func(c *nsCase) {
		script := c.text()
		progSx := "(nocompile)"
		withTimeout(5*time.Second, func() {
			if p, err := compiler.Compile(script); err == nil && p != nil {
				progSx = bcProgram(p)
				out.Stats["instruction_bytes"] += len(p.Instructions)
				out.Stats["resources"] += len(p.Resources)
			}
		})
		res := runMachine(script, c)
		cs := L("nsbc", c.sx(), progSx)
		out.Case(cs, L("bc", progSx, res.sx()))
		out.Stats["cases"]++
		out.Stats["class_"+res.Class]++
		if progSx != "(nocompile)" {
			out.Stats["compiled"]++
			out.Stats["distinct_nontrivial"]++
		}
		if res.Class == "panic" {
			out.Violation("C27", cs, "compiler.Compile + vm.Machine panicked: "+res.PanicMsg+" [ns-panic]")
		}
	}
	if f.Replay != "" {
		for _, line := range ReadLines(f.Replay) {
			sx, err := ParseSx(line)
			must(err)
			one(sxCase(sx.List[1]))
		}
		return 0
	}
	for i := 0; i < f.N; i++ {
		one(genNsCase(r, profile))
	}
	return 0
}
