//go:build verif

package main

import (
	"context"
	"fmt"
	"math/big"
	"sort"
	"strconv"
	"strings"
	"time"

	"github.com/formancehq/go-libs/v5/pkg/query"
	"github.com/formancehq/go-libs/v5/pkg/storage/bun/paginate"
	libtime "github.com/formancehq/go-libs/v5/pkg/types/time"
	"github.com/uptrace/bun"
	"github.com/uptrace/bun/dialect/pgdialect"

	ledger "github.com/formancehq/ledger/internal"
	"github.com/formancehq/ledger/internal/storage/common"
	"github.com/formancehq/ledger/internal/verifh/pgsem"
)

// C21: cursor pagination.
//   pagesyn (TIE-C): the real columnPaginator/OffsetPaginator (Paginate -> SQL run on pgsem over a synthetic table,
//                    BuildCursor, cursor encode/decode round trip) against Page.fetch / build_cursor / opage_of on
//                    arbitrary queries, reachable or not.
//   pages   (TIE-D): random histories on the real stack; every paginated listing with a unique key is walked with
//                    next cursors from the first page and with previous cursors back, for every page size 1..N+1 and
//                    both orders; compared with Page.column_report / offset_report; monitor = the property itself.
func init() {
	commands["pages"] = cmdPages
	commands["pagesyn"] = cmdPageSyn
}

// ================================================================ TIE-C
func bigs(xs []*big.Int) string {
	s := make([]string, len(xs))
	for i, x := range xs {
		s[i] = x.String()
	}
	return strings.Join(s, " ")
}
func optBig(x *big.Int) string {
	if x == nil {
		return "nil"
	}
	return x.String()
}
func colQSx(q common.VerifColQ) string {
	return L(fmt.Sprint(q.Size), b01(q.Asc), optBig(q.PID), optBig(q.Bottom), b01(q.Reverse))
}
func offQSx(q common.VerifOffQ) string { return L(fmt.Sprint(q.Size), b01(q.Asc), fmt.Sprint(q.Offset)) }

type synDB struct {
	pg   *pgsem.DB
	sess *pgsem.Session
	bun  *bun.DB
}

func newSynDB() *synDB {
	pg := pgsem.NewDB("public")
	pg.AddTable("public", "t", []string{"id numeric not null"})
	return &synDB{pg: pg, sess: pg.NewSession(), bun: bun.NewDB(pgsem.Open(pg), pgdialect.New(), bun.WithDiscardUnknownColumns())}
}
func (d *synDB) load(ks []*big.Int) {
	_, err := d.sess.Exec("delete from t")
	must(err)
	if len(ks) == 0 {
		return
	}
	vs := make([]string, len(ks))
	for i, k := range ks {
		vs[i] = "(" + k.String() + ")"
	}
	_, err = d.sess.Exec("insert into t (id) values " + strings.Join(vs, ", "))
	must(err)
}
func (d *synDB) scan(sb *bun.SelectQuery) ([]*big.Int, error) {
	var rows []common.VerifRow
	if err := sb.Model(&rows).Scan(context.Background()); err != nil {
		return nil, err
	}
	out := make([]*big.Int, len(rows))
	for i, r := range rows {
		out[i] = r.ID
	}
	return out, nil
}

func genKeys(r *Rng) []*big.Int {
	n := r.Intn(13)
	seen := map[string]bool{}
	var ks []*big.Int
	base := big.NewInt(0)
	switch r.Intn(6) {
	case 0:
		base = new(big.Int).Lsh(big.NewInt(1), 63) // ids above int64
	case 1:
		base = big.NewInt(1700000000000000) // timestamps in microseconds
	case 2:
		base = big.NewInt(-20)
	}
	for len(ks) < n {
		k := new(big.Int).Add(base, big.NewInt(int64(r.Intn(30))))
		if !seen[k.String()] {
			seen[k.String()] = true
			ks = append(ks, k)
		}
	}
	return ks
}

func cmdPageSyn(args []string) int {
	f := ParseFlags(args)
	out := NewOut(f.Out)
	defer out.Close()
	db := newSynDB()
	colCase := func(q common.VerifColQ, ks []*big.Int) {
		db.load(ks)
		sb, err := common.VerifColumnPaginate(db.bun.NewSelect().ModelTableExpr("t").ColumnExpr("id"), q)
		must(err)
		rows, err := db.scan(sb)
		if err != nil {
			panic(fmt.Errorf("paginated select failed on pgsem: %w", err))
		}
		out.Case(L("fetch", colQSx(q), L(bigs(ks))), strings.TrimSpace("(rows "+bigs(rows))+")")
		out.Stats["cases"]++
		out.Stats["col_fetch"]++
		// BuildCursor on what the SQL returned (the rows slice is reordered in place by BuildCursor: copy)
		cs := L("build", colQSx(q), L(bigs(rows)))
		impl := func() (s string) {
			defer func() {
				if r := recover(); r != nil {
					s = "(panic)"
					out.Stats["col_build_panic"]++
				}
			}()
			p, err := common.VerifColumnBuildCursor(q, append([]*big.Int{}, rows...))
			if err != nil {
				return L("err", Q(err.Error()))
			}
			qs := func(x *common.VerifColQ) string {
				if x == nil {
					return "none"
				}
				return colQSx(*x)
			}
			return L(strings.TrimSpace("(data "+bigs(p.Data))+")", b01(p.HasMore), qs(p.Prev), qs(p.Next))
		}()
		if impl != "(panic)" {
			impl = "(ok " + impl[1:]
		}
		out.Case(cs, impl)
		out.Stats["cases"]++
		out.Stats["col_build"]++
		if len(rows) > 0 && q.PID != nil {
			out.Stats["distinct_nontrivial"]++
		}
	}
	offCase := func(q common.VerifOffQ, ks []*big.Int) {
		db.load(ks)
		cs := L("opage", offQSx(q), L(bigs(ks)))
		out.Stats["cases"]++
		out.Stats["off_page"]++
		sb, err := common.VerifOffsetPaginate(db.bun.NewSelect().ModelTableExpr("t").ColumnExpr("id"), q)
		if err != nil {
			out.Case(cs, "(err)")
			out.Stats["off_rejected_offset"]++
			return
		}
		rows, err := db.scan(sb)
		if err != nil {
			panic(fmt.Errorf("paginated select failed on pgsem: %w", err))
		}
		p, err := common.VerifOffsetBuildCursor(q, rows)
		if err != nil {
			out.Case(cs, "(err)")
			return
		}
		qs := func(x *common.VerifOffQ) string {
			if x == nil {
				return "none"
			}
			return offQSx(*x)
		}
		out.Case(cs, L("ok", strings.TrimSpace("(data "+bigs(p.Data))+")", b01(p.HasMore), qs(p.Prev), qs(p.Next)))
		if len(rows) > 0 {
			out.Stats["distinct_nontrivial"]++
		}
		// monitor (independent of the model): the previous cursor of a page at offset o > 0 must be usable and return
		// the rows at positions [max(0,o-size), o) of the sorted listing (at most size of them)
		if q.Size > 0 && q.Offset > 0 && q.Offset <= 1<<20 {
			sorted := append([]*big.Int{}, ks...)
			sort.Slice(sorted, func(i, j int) bool { return (sorted[i].Cmp(sorted[j]) < 0) == q.Asc })
			lo := 0
			if int(q.Offset) > int(q.Size) {
				lo = int(q.Offset) - int(q.Size)
			}
			hi := min(lo+int(q.Size), len(sorted))
			var want []*big.Int
			if lo < hi {
				want = sorted[lo:hi]
			}
			msg := ""
			if p.Prev == nil {
				msg = "no previous cursor"
			} else if sb2, err := common.VerifOffsetPaginate(db.bun.NewSelect().ModelTableExpr("t").ColumnExpr("id"), *p.Prev); err != nil {
				msg = fmt.Sprintf("previous cursor %s is refused: %v", offQSx(*p.Prev), err)
			} else if rows2, err := db.scan(sb2); err != nil {
				msg = "previous cursor fails: " + err.Error()
			} else if p2, err := common.VerifOffsetBuildCursor(*p.Prev, rows2); err != nil {
				msg = "previous cursor fails: " + err.Error()
			} else if bigs(p2.Data) != bigs(want) {
				msg = fmt.Sprintf("previous cursor %s returns (%s), the rows before the page are (%s)", offQSx(*p.Prev), bigs(p2.Data), bigs(want))
			}
			if msg != "" {
				out.Violation("C21", cs, "[previous-page-offset] page at offset "+fmt.Sprint(q.Offset)+", size "+fmt.Sprint(q.Size)+": "+msg)
			}
		}
	}
	parseBigs := func(sx *Sx) []*big.Int {
		var o []*big.Int
		for _, a := range sx.List {
			v, _ := new(big.Int).SetString(a.Atom, 10)
			o = append(o, v)
		}
		return o
	}
	optB := func(sx *Sx) *big.Int {
		if sx.Atom == "nil" {
			return nil
		}
		v, _ := new(big.Int).SetString(sx.Atom, 10)
		return v
	}
	if f.Replay != "" {
		for _, line := range ReadLines(f.Replay) {
			sx, err := ParseSx(line)
			must(err)
			switch sx.List[0].Atom {
			case "pages": // a TIE-D case (bin/check --replay goes through the first tie)
				replayPagesLine(out, line)
			case "fetch", "build":
				ql := sx.List[1].List
				q := common.VerifColQ{Size: uint64(atoi(ql[0].Atom)), Asc: ql[1].Atom == "1", PID: optB(ql[2]), Bottom: optB(ql[3]), Reverse: ql[4].Atom == "1"}
				colCase(q, parseBigs(sx.List[2])) // for a "build" line the rows are used as the dataset
			case "opage":
				ql := sx.List[1].List
				off, _ := strconv.ParseUint(ql[2].Atom, 10, 64)
				offCase(common.VerifOffQ{Size: uint64(atoi(ql[0].Atom)), Asc: ql[1].Atom == "1", Offset: off}, parseBigs(sx.List[2]))
			}
		}
		return 0
	}
	r := NewRng(f.Seed)
	for i := 0; i < f.N; i++ {
		ks := genKeys(r)
		big1 := i%40 == 7 // every 40th case: a long listing and a page size around / above 100 (v1 allows up to 1000)
		if big1 {
			ks = nil
			n := 102 + r.Intn(160)
			for k := 0; k < n; k++ {
				ks = append(ks, big.NewInt(int64(3*k+r.Intn(3))))
			}
		}
		pick := func() *big.Int {
			if len(ks) > 0 && r.Chance(80) {
				k := new(big.Int).Set(Pick(r, ks))
				if r.Chance(20) {
					k.Add(k, big.NewInt(int64(r.Intn(3)-1)))
				}
				return k
			}
			if r.Chance(50) {
				return nil
			}
			return big.NewInt(int64(r.Intn(40) - 5))
		}
		size := uint64(1 + r.Intn(5))
		if r.Chance(4) {
			size = 0
		}
		if big1 {
			size = Pick(r, []uint64{99, 100, 101, 150, 259, 1000})
		}
		if r.Chance(35) || big1 && r.Bool() {
			off := uint64(r.Intn(16))
			switch r.Intn(12) {
			case 0:
				off = 1<<31 - 1
			case 1:
				off = 1 << 31
			case 2:
				off = 1<<32 + 5
			}
			offCase(common.VerifOffQ{Size: size, Asc: r.Bool(), Offset: off}, ks)
			continue
		}
		q := common.VerifColQ{Size: size, Asc: r.Bool(), PID: pick(), Reverse: r.Chance(40)}
		if q.PID == nil {
			q.Reverse = q.Reverse && r.Chance(20)
		}
		if r.Chance(75) {
			q.Bottom = pick()
		}
		colCase(q, ks)
	}
	return 0
}

// ================================================================ TIE-D
type pageOut struct {
	ids        []string // unique identity of the rows
	keys       []string // numeric sort key (column paginator only)
	more       bool
	prev, next string
}

type pager struct {
	first    func(size uint64, asc bool) (pageOut, error)
	byCursor func(cursor string) (pageOut, error)
}

func mkPager[T any, O any](ctx context.Context, f func(context.Context, common.PaginatedQuery[O]) (*paginate.Cursor[T], error),
	column string, opts common.ResourceQuery[O], key func(T) (id, sortKey string)) pager {
	conv := func(c *paginate.Cursor[T], err error) (pageOut, error) {
		if err != nil {
			return pageOut{}, err
		}
		o := pageOut{more: c.HasMore, prev: c.Previous, next: c.Next}
		for _, t := range c.Data {
			id, k := key(t)
			o.ids = append(o.ids, id)
			o.keys = append(o.keys, k)
		}
		return o, nil
	}
	return pager{
		first: func(size uint64, asc bool) (pageOut, error) {
			order := paginate.Order(paginate.OrderAsc)
			if !asc {
				order = paginate.Order(paginate.OrderDesc)
			}
			return conv(f(ctx, common.InitialPaginatedQuery[O]{Column: column, Order: &order, PageSize: size, Options: opts}))
		},
		byCursor: func(cursor string) (pageOut, error) {
			q, err := common.UnmarshalCursor[O](cursor)
			if err != nil {
				return pageOut{}, err
			}
			return conv(f(ctx, q))
		},
	}
}

type pageVariant struct {
	name string
	kind string // col | off
	mk   func(hr *HistRun, pit *libtime.Time) pager
	// content: optional monitor on WHAT the listing contains (grouped volumes), "" = fine; independent of the model
	content func(hr *HistRun, pit *libtime.Time) string
}

func resQ[O any](b query.Builder, pit *libtime.Time, opts O) common.ResourceQuery[O] {
	return common.ResourceQuery[O]{Builder: b, PIT: pit, Opts: opts}
}

func pageVariants() []pageVariant {
	var vs []pageVariant
	type flt struct {
		name string
		b    func() query.Builder
		pit  bool
	}
	txKey := func(col string) func(t ledger.Transaction) (string, string) {
		return func(t ledger.Transaction) (string, string) {
			if col == "timestamp" {
				return fmt.Sprint(*t.ID), fmt.Sprint(t.Timestamp.UnixMicro())
			}
			return fmt.Sprint(*t.ID), fmt.Sprint(*t.ID)
		}
	}
	for _, col := range []string{"id", "timestamp"} {
		col := col
		for _, fl := range []flt{{"none", nil, false}, {"account=world", func() query.Builder { return query.Match("account", "world") }, false},
			{"metadata[k1]=v1", func() query.Builder { return query.Match("metadata[k1]", "v1") }, false}, {"pit", nil, true},
			{"pit+destination=bob", func() query.Builder { return query.Match("destination", "bob") }, true}} {
			fl := fl
			vs = append(vs, pageVariant{"transactions/" + col + "/" + fl.name, "col", func(hr *HistRun, pit *libtime.Time) pager {
				var b query.Builder
				if fl.b != nil {
					b = fl.b()
				}
				if !fl.pit {
					pit = nil
				}
				return mkPager(hr.ctx, hr.ctrl.ListTransactions, col, resQ[any](b, pit, nil), txKey(col))
			}, nil})
		}
	}
	for _, fl := range []flt{{"none", nil, false}, {"type=NEW_TRANSACTION", func() query.Builder { return query.Match("type", "NEW_TRANSACTION") }, false},
		{"id>=3", func() query.Builder { return query.Gte("id", 3) }, false}} {
		fl := fl
		vs = append(vs, pageVariant{"logs/id/" + fl.name, "col", func(hr *HistRun, pit *libtime.Time) pager {
			var b query.Builder
			if fl.b != nil {
				b = fl.b()
			}
			return mkPager(hr.ctx, hr.ctrl.ListLogs, "id", resQ[any](b, nil, nil), func(l ledger.Log) (string, string) {
				return fmt.Sprint(*l.ID), fmt.Sprint(*l.ID)
			})
		}, nil})
	}
	for _, fl := range []flt{{"none", nil, false}, {"address=users:", func() query.Builder { return query.Match("address", "users:") }, false},
		{"metadata[k1]=v1", func() query.Builder { return query.Match("metadata[k1]", "v1") }, false}, {"pit", nil, true}} {
		fl := fl
		vs = append(vs, pageVariant{"accounts/address/" + fl.name, "off", func(hr *HistRun, pit *libtime.Time) pager {
			var b query.Builder
			if fl.b != nil {
				b = fl.b()
			}
			if !fl.pit {
				pit = nil
			}
			return mkPager(hr.ctx, hr.ctrl.ListAccounts, "address", resQ[any](b, pit, nil), func(a ledger.Account) (string, string) { return a.Address, "" })
		}, nil})
	}
	for g := 0; g <= 3; g++ {
		g := g
		for _, fl := range []flt{{"none", nil, false}, {"account=users:", func() query.Builder { return query.Match("account", "users:") }, false},
			{"balance[USD]>0", func() query.Builder { return query.Gt("balance[USD]", 0) }, false}, {"pit", nil, true},
			{"pit+account=users:", func() query.Builder { return query.Match("account", "users:") }, true}} {
			fl := fl
			vs = append(vs, pageVariant{fmt.Sprintf("volumes/account/group=%d/%s", g, fl.name), "off", func(hr *HistRun, pit *libtime.Time) pager {
				var b query.Builder
				if fl.b != nil {
					b = fl.b()
				}
				if !fl.pit {
					pit = nil
				}
				return mkPager(hr.ctx, hr.ctrl.GetVolumesWithBalances, "account", resQ(b, pit, ledger.GetVolumesOptions{GroupLvl: g}),
					func(v ledger.VolumesWithBalanceByAssetByAccount) (string, string) { return v.Account + "/" + v.Asset, "" })
			}, func(hr *HistRun, pit *libtime.Time) string {
				if g == 0 {
					return ""
				}
				if !fl.pit {
					pit = nil
				}
				// the grouped listing = the ungrouped listing of the same query summed per truncated address
				read := func(lvl int) (map[pair][2]*big.Int, error) {
					var b query.Builder
					if fl.b != nil {
						b = fl.b()
					}
					vs, err := listAll(hr.ctx, hr.ctrl.GetVolumesWithBalances, common.InitialPaginatedQuery[ledger.GetVolumesOptions]{PageSize: 7,
						Options: resQ(b, pit, ledger.GetVolumesOptions{GroupLvl: lvl})})
					if err != nil {
						return nil, err
					}
					out := map[pair][2]*big.Int{}
					for _, v := range vs {
						out[pair{v.Account, v.Asset}] = [2]*big.Int{v.Input, v.Output}
					}
					return out, nil
				}
				grouped, err := read(g)
				if err != nil {
					return ""
				}
				base, err := read(0)
				if err != nil {
					return "[grouped-listing] the ungrouped listing of the same query fails: " + err.Error()
				}
				if d := diffVols(grouped, groupVols(base, g)); d != "" {
					return fmt.Sprintf("[grouped-listing] groupBy=%d: %s (expected = the ungrouped listing of the same query summed per first %d address segments)", g, d, g)
				}
				return ""
			}})
		}
	}
	return vs
}

type walkRep struct {
	pages [][]string // ids
	more  []bool
	nextSet []bool
	prev1 [][]string // nil entry = no previous cursor
	hasPrev []bool
	back  [][]string
	err   string
}

// walk follows next from the first page, previous once from every page, previous repeatedly from the last page
func walk(p pager, size uint64, asc bool, n int) (w walkRep, all []pageOut) {
	cur, err := p.first(size, asc)
	if err != nil {
		w.err = "first page: " + err.Error()
		return
	}
	for {
		all = append(all, cur)
		if cur.next == "" {
			break
		}
		if len(all) > n+3 {
			w.err = fmt.Sprintf("the next-walk did not end after %d pages", len(all))
			return
		}
		if cur, err = p.byCursor(cur.next); err != nil {
			w.err = "next page: " + err.Error()
			return
		}
	}
	for _, pg := range all {
		w.pages = append(w.pages, pg.ids)
		w.more = append(w.more, pg.more)
		w.nextSet = append(w.nextSet, pg.next != "")
		w.hasPrev = append(w.hasPrev, pg.prev != "")
		if pg.prev == "" {
			w.prev1 = append(w.prev1, nil)
			continue
		}
		pp, err := p.byCursor(pg.prev)
		if err != nil {
			w.err = "previous page: " + err.Error()
			return
		}
		w.prev1 = append(w.prev1, append([]string{}, pp.ids...))
	}
	cur = all[len(all)-1]
	for cur.prev != "" {
		if len(w.back) > n+3 {
			w.err = "the previous-walk did not end"
			return
		}
		if cur, err = p.byCursor(cur.prev); err != nil {
			w.err = "previous page: " + err.Error()
			return
		}
		w.back = append(w.back, cur.ids)
	}
	return
}

func eqStrs(a, b []string) bool {
	if len(a) != len(b) {
		return false
	}
	for i := range a {
		if a[i] != b[i] {
			return false
		}
	}
	return true
}

// monitorWalk: the property stated on the implementation's own answers (independent of the Coq model)
func monitorWalk(full []string, size int, w walkRep) string {
	if w.err != "" {
		return "[walk-error] " + w.err
	}
	seen := map[string]bool{}
	var cat []string
	for k, pg := range w.pages {
		if len(pg) > size {
			return fmt.Sprintf("[page-size] page %d holds %d rows, page size %d", k+1, len(pg), size)
		}
		for _, id := range pg {
			if seen[id] {
				return fmt.Sprintf("[duplicate-row] row %s is returned twice while following next cursors (second time on page %d)", id, k+1)
			}
			seen[id] = true
		}
		cat = append(cat, pg...)
	}
	if !eqStrs(cat, full) {
		return fmt.Sprintf("[next-enumeration] pages reached by next %v differ from the full listing %v", w.pages, full)
	}
	for k := range w.pages {
		last := k == len(w.pages)-1
		if w.more[k] == last || w.nextSet[k] != w.more[k] {
			return fmt.Sprintf("[has-more] page %d of %d: hasMore=%v next cursor set=%v", k+1, len(w.pages), w.more[k], w.nextSet[k])
		}
		if k == 0 {
			if w.hasPrev[0] {
				return fmt.Sprintf("[previous-page] the first page has a previous cursor (leading to %v)", w.prev1[0])
			}
			continue
		}
		if !w.hasPrev[k] {
			return fmt.Sprintf("[previous-page] page %d has no previous cursor", k+1)
		}
		if !eqStrs(w.prev1[k], w.pages[k-1]) {
			return fmt.Sprintf("[previous-page] previous of page %d %v is %v, page %d is %v", k+1, w.pages[k], w.prev1[k], k, w.pages[k-1])
		}
	}
	if len(w.back) != len(w.pages)-1 {
		return fmt.Sprintf("[previous-walk] walking previous from the last of %d pages visits %d pages", len(w.pages), len(w.back))
	}
	for i, pg := range w.back {
		if !eqStrs(pg, w.pages[len(w.pages)-2-i]) {
			return fmt.Sprintf("[previous-walk] step %d back from the last page gives %v, expected page %d %v", i+1, pg, len(w.pages)-1-i, w.pages[len(w.pages)-2-i])
		}
	}
	return ""
}

func (w walkRep) sx(key map[string]string) string {
	if w.err != "" {
		return "(fail)"
	}
	ks := func(ids []string) string {
		o := make([]string, len(ids))
		for i, id := range ids {
			k, ok := key[id]
			if !ok {
				k = "-1"
			}
			o[i] = k
		}
		return L(o...)
	}
	var pages, more, prev1, back []string
	for k := range w.pages {
		pages = append(pages, ks(w.pages[k]))
		more = append(more, b01(w.more[k]))
		if !w.hasPrev[k] {
			prev1 = append(prev1, "none")
		} else {
			prev1 = append(prev1, ks(w.prev1[k]))
		}
	}
	for _, b := range w.back {
		back = append(back, ks(b))
	}
	return L("ok", L("pages", L(pages...)), L("more", L(more...)), L("prev1", L(prev1...)), L("back", L(back...)))
}

func hasDup(xs []string) bool {
	seen := map[string]bool{}
	for _, x := range xs {
		if seen[x] {
			return true
		}
		seen[x] = true
	}
	return false
}

// checkVariant runs one (variant, order) over the given page sizes (nil = 1..n+1) on a history already executed
func checkVariant(out *Out, hr *HistRun, v pageVariant, pit *libtime.Time, asc bool, sizes []int) {
	p := v.mk(hr, pit)
	fullPage, err := p.first(10000, asc)
	if err != nil {
		out.Stats["listing_rejected"]++
		out.Stats["listing_rejected:"+strings.SplitN(v.name, "/", 2)[0]]++
		return
	}
	full := fullPage.ids
	n := len(full)
	pitSx := "nil"
	if pit != nil {
		pitSx = fmt.Sprint(pit.UnixMicro())
	}
	keyOf := map[string]string{}
	var keys []string
	for i, id := range full {
		k := fullPage.keys[i]
		if v.kind == "off" { // rank in the ascending listing
			if asc {
				k = fmt.Sprint(i)
			} else {
				k = fmt.Sprint(n - 1 - i)
			}
		}
		keyOf[id] = k
		keys = append(keys, k)
	}
	if sizes == nil {
		for s := 1; s <= n+1; s++ {
			sizes = append(sizes, s)
		}
	}
	ssx := make([]string, len(sizes))
	for i, s := range sizes {
		ssx[i] = fmt.Sprint(s)
	}
	cs := L("pages", v.kind, L("variant", Q(v.name), pitSx), L(keys...), L(ssx...), b01(asc), histCaseSx(hr.Feat, hr.Ops))
	res := strings.SplitN(v.name, "/", 2)[0]
	if fullPage.more || hasDup(full) {
		out.Violation("C21", cs, fmt.Sprintf("[full-listing] the listing %s with page size 10000 reports hasMore=%v / repeats a row: %v", v.name, fullPage.more, full))
		return
	}
	if v.content != nil && asc {
		out.Stats["grouped_content_checked"]++
		if msg := v.content(hr, pit); msg != "" {
			out.Violation("C21", cs, fmt.Sprintf("%s listing %s", msg, v.name))
			return
		}
	}
	if hasDup(keys) {
		// sort key not unique (transactions sharing a timestamp): outside the property's hypothesis. Observation only.
		out.Stats["nonunique_key_listings"]++
		w, _ := walk(p, 1, asc, n)
		if w.err != "" {
			out.Stats["nonunique_key_walk_never_ends_or_fails(size 1)"]++
		} else if msg := monitorWalk(full, 1, w); msg != "" {
			out.Stats["nonunique_key_walk_wrong(size 1)"]++
		}
		return
	}
	var reps []string
	for _, s := range sizes {
		w, _ := walk(p, uint64(s), asc, n)
		reps = append(reps, w.sx(keyOf))
		out.Stats["cases"]++
		out.Stats["walks:"+res]++
		out.Stats[fmt.Sprintf("rows_%02d", min(n, 20))]++
		if n >= 2 && s < n {
			out.Stats["distinct_nontrivial"]++
		}
		if msg := monitorWalk(full, s, w); msg != "" {
			out.Violation("C21", L("pages", v.kind, L("variant", Q(v.name), pitSx), L(keys...), L(fmt.Sprint(s)), b01(asc), histCaseSx(hr.Feat, hr.Ops)),
				fmt.Sprintf("%s listing %s, page size %d, %s, %d rows", msg, v.name, s, map[bool]string{true: "asc", false: "desc"}[asc], n))
		}
	}
	out.Case(cs, L("reports", L(reps...)))
	out.Stats["listings"]++
}

func cmdPages(args []string) int {
	f := ParseFlags(args)
	out := NewOut(f.Out)
	defer out.Close()
	prof := HistProfile{MaxOps: 14, Backdate: true}
	if v, ok := f.Extra["maxops"]; ok {
		fmt.Sscan(v, &prof.MaxOps)
	}
	pct := 100
	if v, ok := f.Extra["pct"]; ok {
		fmt.Sscan(v, &pct)
	}
	variants := pageVariants()
	_ = time.Now
	if f.Replay != "" {
		for _, line := range ReadLines(f.Replay) {
			replayPagesLine(out, line)
		}
		return 0
	}
	r := NewRng(f.Seed)
	for i := 0; i < f.N; i++ {
		rr := r.Fork()
		feat := Pick(rr, []Feat{allOn, allOn, {true, true, false, false, true}})
		hr := newHistRun(feat, false)
		ops := genHistory(rr, prof, feat, hr.Step)
		if n := len(hr.Res); n > 0 && hr.Res[n-1].Panic != "" {
			i--
			continue
		}
		out.Stats["histories"]++
		pit := &libtime.Time{Time: time.UnixMicro(ops[len(ops)/2].Now).UTC()}
		for _, v := range variants {
			if !rr.Chance(pct) {
				continue
			}
			for _, asc := range []bool{true, false} {
				checkVariant(out, hr, v, pit, asc, nil)
			}
		}
	}
	return 0
}

// replayPagesLine re-runs one TIE-D case: the history, then the listing/order/sizes named by the case
func replayPagesLine(out *Out, line string) {
	sx, err := ParseSx(line)
	must(err)
	name := sx.List[2].List[1].Atom
	var pit *libtime.Time
	if a := sx.List[2].List[2].Atom; a != "nil" {
		pit = &libtime.Time{Time: time.UnixMicro(atoi(a)).UTC()}
	}
	var sizes []int
	for _, s := range sx.List[4].List {
		sizes = append(sizes, int(atoi(s.Atom)))
	}
	asc := sx.List[5].Atom == "1"
	feat, ops := parseHistCase(sexpString(sx.List[6]))
	hr := runHistory(feat, ops, false)
	for _, v := range pageVariants() {
		if v.name == name {
			checkVariant(out, hr, v, pit, asc, sizes)
		}
	}
}

// sexpString prints a parsed s-expression back (used to hand the embedded history to parseHistCase)
func sexpString(s *Sx) string {
	if s.IsLst {
		xs := make([]string, len(s.List))
		for i, x := range s.List {
			xs[i] = sexpString(x)
		}
		return L(xs...)
	}
	if s.Str {
		return Q(s.Atom)
	}
	return s.Atom
}

var _ = sort.Strings
