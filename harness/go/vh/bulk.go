//go:build verif

package main

import (
	"encoding/json"
	"errors"
	"net/url"
	"context"
	"fmt"
	"math/big"
	"strconv"
	"strings"
	"sync"
	"time"

	"github.com/formancehq/go-libs/v5/pkg/types/metadata"
	ledger "github.com/formancehq/ledger/internal"
	"github.com/formancehq/ledger/internal/api/bulking"
	ledgercontroller "github.com/formancehq/ledger/internal/controller/ledger"
	"github.com/formancehq/ledger/internal/verifh/pgsem"
)

// bulk (TIE-D/F, property C32): random bulks through JsonBulkHandler.GetChannels -> the real Bulker over the real
// controller stack on pgsem -> JsonBulkHandler.Terminate (what v2.bulkHandler does); the per-entry response and the
// final ledger snapshot must equal the extracted model (Ledger/Bulk.v instantiated with Core.step).  The C32 monitor is
// independent of the model: it replays the elements one by one on a second fresh stack (standalone results).
func init() { commands["bulk"] = cmdBulk }

type bulkCase struct {
	Mode     string // schema enforcement mode of the stack: strict | audit
	Prep     []SOp  // executed first through the controller: schema inserts and writes (with their own schemaVersion)
	Now      int64
	Atomic   bool
	Cont     bool
	Parallel bool
	Perm     []int  // parallel: completion order
	Version  string // ?schemaVersion= of the bulk request: forwarded by processElement to every element
	Ops      []Op
}

func sopsSx(ops []SOp) string {
	s := make([]string, len(ops))
	for i, o := range ops {
		s[i] = o.sx()
	}
	return L(s...)
}

// which CREATE_TRANSACTION elements are sent as a Numscript (`script.plain`) instead of `postings`: decided by the
// element's content so that two equal requests are encoded equally (the idempotency fingerprint covers the script text)
func scriptEncoded(o Op) bool {
	return o.Kind == "create" && len(o.Post) == 1 && !o.Force && o.Post[0].Src != o.Post[0].Dst && o.Post[0].Amt.Bit(0) == 1
}

func (c bulkCase) sx() string {
	perm := make([]string, len(c.Perm))
	for i, p := range c.Perm {
		perm[i] = fmt.Sprint(p)
	}
	enc := make([]string, len(c.Ops))
	for i, o := range c.Ops {
		enc[i] = b01(scriptEncoded(o))
	}
	return L("sbulk", c.Mode, sopsSx(c.Prep), fmt.Sprint(c.Now), b01(c.Atomic), b01(c.Cont), b01(c.Parallel), L(perm...), Q(c.Version), opsSx(c.Ops), L(append([]string{"script_encoded"}, enc...)...))
}

func parseBulkCase(line string) bulkCase {
	sx, err := ParseSx(line)
	must(err)
	ops := func(x *Sx) []Op {
		var items []string
		for _, e := range x.List {
			items = append(items, sxString(e))
		}
		_, o := parseHistCase(L("hist", allOn.sx(), L(items...)))
		return o
	}
	mode, prep := parseSHistCase(L("shist", sx.List[1].Atom, sxString(sx.List[2])))
	c := bulkCase{Mode: mode, Prep: prep, Now: atoi(sx.List[3].Atom), Atomic: sx.List[4].Atom == "1", Cont: sx.List[5].Atom == "1", Parallel: sx.List[6].Atom == "1",
		Version: sx.List[8].Atom, Ops: ops(sx.List[9])}
	for _, p := range sx.List[7].List {
		c.Perm = append(c.Perm, int(atoi(p.Atom)))
	}
	return c
}

// orderedCtrl serialises the elements of a parallel bulk in a chosen completion order: every write call waits until all
// n tasks have arrived (so every task made its hasError test before the first completion), until its turn has come and
// until the results of the earlier turns have been sent on the result channel.  The element index travels in the
// idempotency key ("par-<i>").
type orderedCtrl struct {
	ledgercontroller.Controller
	mu      sync.Mutex
	n       int
	pos     map[int]int // element index -> position in the completion order
	arrived int
	turn    int
	recv    chan bulking.BulkElementResult
}

func (c *orderedCtrl) enter(ik string) func() {
	i, err := strconv.Atoi(strings.TrimPrefix(ik, "par-"))
	must(err)
	c.mu.Lock()
	c.arrived++
	c.mu.Unlock()
	deadline := time.Now().Add(20 * time.Second)
	for {
		c.mu.Lock()
		ok := c.arrived == c.n && c.turn == c.pos[i] && len(c.recv) == c.turn
		c.mu.Unlock()
		if ok {
			break
		}
		if time.Now().After(deadline) {
			panic("bulk harness: parallel barrier timed out (a task never reached the controller)")
		}
		time.Sleep(20 * time.Microsecond)
	}
	return func() {
		c.mu.Lock()
		c.turn++
		c.mu.Unlock()
	}
}

func (c *orderedCtrl) CreateTransaction(ctx context.Context, p ledgercontroller.Parameters[ledgercontroller.CreateTransaction]) (*ledger.Log, *ledger.CreatedTransaction, bool, error) {
	defer c.enter(p.IdempotencyKey)()
	return c.Controller.CreateTransaction(ctx, p)
}
func (c *orderedCtrl) RevertTransaction(ctx context.Context, p ledgercontroller.Parameters[ledgercontroller.RevertTransaction]) (*ledger.Log, *ledger.RevertedTransaction, bool, error) {
	defer c.enter(p.IdempotencyKey)()
	return c.Controller.RevertTransaction(ctx, p)
}
func (c *orderedCtrl) SaveTransactionMetadata(ctx context.Context, p ledgercontroller.Parameters[ledgercontroller.SaveTransactionMetadata]) (*ledger.Log, bool, error) {
	defer c.enter(p.IdempotencyKey)()
	return c.Controller.SaveTransactionMetadata(ctx, p)
}
func (c *orderedCtrl) SaveAccountMetadata(ctx context.Context, p ledgercontroller.Parameters[ledgercontroller.SaveAccountMetadata]) (*ledger.Log, bool, error) {
	defer c.enter(p.IdempotencyKey)()
	return c.Controller.SaveAccountMetadata(ctx, p)
}
func (c *orderedCtrl) DeleteTransactionMetadata(ctx context.Context, p ledgercontroller.Parameters[ledgercontroller.DeleteTransactionMetadata]) (*ledger.Log, bool, error) {
	defer c.enter(p.IdempotencyKey)()
	return c.Controller.DeleteTransactionMetadata(ctx, p)
}
func (c *orderedCtrl) DeleteAccountMetadata(ctx context.Context, p ledgercontroller.Parameters[ledgercontroller.DeleteAccountMetadata]) (*ledger.Log, bool, error) {
	defer c.enter(p.IdempotencyKey)()
	return c.Controller.DeleteAccountMetadata(ctx, p)
}

type bulkStack struct {
	sr   *SRun
	st   *Stack
	ctx  context.Context
	ctrl ledgercontroller.Controller
}

func newBulkStack(mode string, prep []SOp) *bulkStack {
	sr := newSRun(mode)
	for _, so := range prep {
		sr.St.PG.Clock = pgsem.TS(so.Op.Now)
		sr.exec(so)
	}
	return &bulkStack{sr, sr.St, sr.ctx, sr.ctrl}
}

// ledger snapshot through all read paths + raw tables, plus the schemas table and logs.schema_version
func (b *bulkStack) snap() string {
	return b.st.Snapshot(b.ctx, b.ctrl, "l1", allOn).sx() + " " + b.sr.extra()
}

// the element as a request of its own: same input, same idempotency key, same schemaVersion, handed to the controller
// directly (no bulking code involved); a script-encoded CREATE is sent as the same script
func (b *bulkStack) standalone(version string, o Op) OpResult {
	if !scriptEncoded(o) {
		return b.sr.exec(SOp{Version: version, Op: o})
	}
	rs := ledgercontroller.RunScript{
		Script:    ledgercontroller.Script{Plain: tplScript(o.Post), Vars: map[string]string{}},
		Reference: o.Ref,
		Metadata:  kvmap(o.Meta),
	}
	if o.TS != nil {
		rs.Timestamp.Time = tsOf(*o.TS)
	}
	in := ledgercontroller.CreateTransaction{RunScript: rs, AccountMetadata: map[string]metadata.Metadata{}}
	for a, m := range o.AccMeta {
		in.AccountMetadata[a] = kvmap(m)
	}
	var res OpResult
	func() {
		defer func() {
			if r := recover(); r != nil {
				res = OpResult{Panic: fmt.Sprint(r)}
			}
		}()
		log, ct, hit, err := b.ctrl.CreateTransaction(b.ctx, ledgercontroller.Parameters[ledgercontroller.CreateTransaction]{IdempotencyKey: o.IK, Input: in, SchemaVersion: version})
		res.Class = sclassify(err)
		if err == nil {
			res.LogID, res.Hit = int64(*log.ID), hit
			id := int64(*ct.Transaction.ID)
			res.TxID = &id
		}
	}()
	return res
}

type bulkRun struct {
	Case          bulkCase
	Entries       []BulkAPIResult
	Status        int
	RunErr        error
	Before, After string
}

func entrySx(e BulkAPIResult) string {
	if e.ResponseType == "ERROR" || e.ErrorCode != "" {
		c := apiErrClass(e)
		if strings.HasPrefix(c, "other:") {
			return L("err", "other", Q(c[6:]), e.ResponseType)
		}
		return L("err", c, e.ResponseType)
	}
	return L("ok", fmt.Sprint(e.LogID), apiTxID(e), e.ResponseType)
}

func runBulkCase(c bulkCase) *bulkRun {
	b := newBulkStack(c.Mode, c.Prep)
	run := &bulkRun{Case: c, Before: b.snap()}
	b.st.PG.Clock = pgsem.TS(c.Now)
	opts := bulking.BulkingOptions{Atomic: c.Atomic, ContinueOnFailure: c.Cont, Parallel: c.Parallel, SchemaVersion: c.Version}
	body := bulkBodyEnc(c.Ops)
	if c.Parallel {
		oc := &orderedCtrl{Controller: b.ctrl, n: len(c.Ops), pos: map[int]int{}}
		for p, i := range c.Perm {
			oc.pos[i] = p
		}
		bulker := bulking.NewBulker(oc, bulking.WithParallelism(len(c.Ops)+1))
		// runBulkHTTP creates the result channel inside GetChannels: do the three calls here to hand it to the barrier
		run.Entries, run.Status, run.RunErr, _ = runBulkHTTPWith(b.ctx, bulker, body, opts, func(recv chan bulking.BulkElementResult) { oc.recv = recv })
	} else if (c.Now/1000000)%2 == 0 {
		// every other case goes through the real router: v2.bulkHandler reads the options from the query string
		// (atomic, continueOnFailure, parallel, schemaVersion) and picks the handler from the content type
		run.Entries, run.Status, run.RunErr = runBulkRouter(b.st, body, opts)
	} else {
		run.Entries, run.Status, run.RunErr, _ = runBulkHTTPWith(b.ctx, bulking.NewBulker(b.ctrl), body, opts, nil)
	}
	run.After = b.snap()
	return run
}

func runBulkRouter(st *Stack, body string, opts bulking.BulkingOptions) (entries []BulkAPIResult, status int, runErr error) {
	q := url.Values{}
	if opts.Atomic {
		q.Set("atomic", "true")
	}
	if opts.ContinueOnFailure {
		q.Set("continueOnFailure", "true")
	}
	if opts.SchemaVersion != "" {
		q.Set("schemaVersion", opts.SchemaVersion)
	}
	path := "/v2/l1/_bulk"
	if len(q) > 0 {
		path += "?" + q.Encode()
	}
	resp := newHTTPAPI(st).do("POST", path, nil, body)
	var r struct {
		Data []BulkAPIResult `json:"data"`
	}
	if err := json.Unmarshal(resp.Body, &r); err != nil {
		return nil, resp.Code, fmt.Errorf("response does not parse: %w", err)
	}
	if resp.Code >= 400 && r.Data == nil {
		return nil, resp.Code, errors.New("bad request: " + string(resp.Body))
	}
	return r.Data, resp.Code, nil
}

func (r *bulkRun) implSx() string {
	if r.RunErr != nil {
		return L("bulk_error", Q(r.RunErr.Error()))
	}
	es := make([]string, len(r.Entries))
	for i, e := range r.Entries {
		es[i] = entrySx(e)
	}
	return L("bulk", L("results", L(es...)), r.After)
}

// ---- monitor C32: standalone replay on a second fresh stack
func resSx(o Op, r OpResult) string {
	if r.Panic != "" {
		return L("panic")
	}
	if r.Class != "none" {
		c := r.Class
		if strings.HasPrefix(c, "other:") {
			return L("err", "other", Q(c[6:]), "ERROR")
		}
		// the API codes conflate: schema not found answers NOT_FOUND, a schema validation error answers VALIDATION
		switch c {
		case "schema_not_found":
			c = "not_found"
		case "schema_validation":
			c = "idempotency_input"
		}
		return L("err", c, "ERROR")
	}
	tx := "nil"
	if r.TxID != nil && (o.Kind == "create" || o.Kind == "revert") {
		tx = fmt.Sprint(*r.TxID)
	}
	return L("ok", fmt.Sprint(r.LogID), tx, opAction(o))
}

func monitorC32(r *bulkRun) []string {
	c := r.Case
	var msgs []string
	if r.RunErr != nil {
		return []string{fmt.Sprintf("Bulker.Run failed: %v [bulk-run-error]", r.RunErr)}
	}
	if len(r.Entries) != len(c.Ops) {
		return []string{fmt.Sprintf("%d results for %d elements [result-count]", len(r.Entries), len(c.Ops))}
	}
	b2 := newBulkStack(c.Mode, c.Prep)
	b2.st.PG.Clock = pgsem.TS(c.Now)
	order := make([]int, len(c.Ops))
	for i := range order {
		order[i] = i
	}
	if c.Parallel {
		order = c.Perm
	}
	standalone := make([]string, len(c.Ops)) // by element index
	failed := false
	for _, i := range order {
		if failed && !c.Cont && !c.Parallel {
			standalone[i] = L("err", "cancelled", "ERROR")
			continue
		}
		res := b2.standalone(c.Version, c.Ops[i])
		standalone[i] = resSx(c.Ops[i], res)
		if res.Class != "none" {
			failed = true
		}
	}
	got := make([]string, len(r.Entries))
	for i, e := range r.Entries {
		got[i] = entrySx(e)
	}
	// completion-order truth: entry j is the result of element order[j]
	// entry i must be what element i answers on its own (in the state the bulk had reached when it ran)
	for i := range c.Ops {
		if got[i] != standalone[i] {
			tag := "[standalone-mismatch]"
			switch {
			case strings.HasPrefix(standalone[i], "(err cancelled") != strings.HasPrefix(got[i], "(err cancelled"):
				tag = "[order-or-stop]"
			case sameMultiset(got, standalone):
				tag = "[attribution]" // every result is there, attached to the wrong element
			}
			msgs = append(msgs, fmt.Sprintf("response entry %d does not describe element %d: entry %s, the same request on its own answers %s (execution order %v) %s", i, i, got[i], standalone[i], order, tag))
			break
		}
	}
	// state
	want := b2.snap()
	if c.Atomic && failed {
		if r.After != r.Before {
			msgs = append(msgs, "atomic bulk with a failing element changed the ledger [atomic-partial]")
		}
	} else if r.After != want {
		msgs = append(msgs, "final ledger differs from applying the elements one by one (in order, stopping as the options demand) [final-state]")
	}
	if failed != (r.Status == 400) {
		msgs = append(msgs, fmt.Sprintf("HTTP status %d with failed=%v [status]", r.Status, failed))
	}
	return msgs
}

// same results up to order and up to the positional responseType
func sameMultiset(a, b []string) bool {
	core := func(e string) string {
		if k := strings.LastIndex(e, " "); k > 0 {
			return e[:k]
		}
		return e
	}
	cnt := map[string]int{}
	for _, x := range a {
		cnt[core(x)]++
	}
	for _, x := range b {
		cnt[core(x)]--
	}
	for _, v := range cnt {
		if v != 0 {
			return false
		}
	}
	return len(a) == len(b)
}

// one element / prepared write: every field processElement forwards is varied (CREATE: postings or script, timestamp,
// reference, metadata, accountMetadata, force; REVERT: id, force, atEffectiveDate; ADD/DELETE_METADATA: target type, id, metadata / key)
func genBulkOp(r *Rng, now int64, ntx int64, accts []string) Op {
	k := r.Intn(100)
	var o Op
	md := func() []KV { return []KV{{Pick(r, []string{"k1", "k2", "role"}), Pick(r, []string{"a", "b"})}} }
	switch {
	case k < 45:
		src := Pick(r, []string{"world", "world", accts[1], accts[2], "nobody"})
		o = mkCreate(src, Pick(r, accts), int64(1+r.Intn(60)), now)
		if r.Chance(15) {
			o.Post = append(o.Post, Posting{"world", Pick(r, accts), "EUR", big.NewInt(int64(1 + r.Intn(9)))})
		}
		if r.Chance(15) {
			o.Ref = Pick(r, []string{"r1", "r2"})
		}
		if r.Chance(30) {
			t := Pick(r, []int64{now - 60*1000000, now - 1000000, now, evBase})
			o.TS = &t
		}
		if r.Chance(30) {
			o.Meta = md()
		}
		if r.Chance(20) {
			o.AccMeta = map[string][]KV{Pick(r, accts): md()}
		}
		o.Force = r.Chance(15)
	case k < 60:
		o = Op{Kind: "revert", TxID: 1 + int64(r.Intn(int(ntx)+2)), Force: r.Chance(50), AtEff: r.Chance(40), Now: now}
	case k < 70:
		o = Op{Kind: "setmeta", TxID: 1 + int64(r.Intn(int(ntx)+2)), Meta: md(), Now: now}
	case k < 84:
		o = Op{Kind: "setmeta", IsAcc: true, TgtAcc: Pick(r, accts), Meta: md(), Now: now}
	case k < 92:
		o = Op{Kind: "delmeta", TxID: 1 + int64(r.Intn(int(ntx)+2)), Key: Pick(r, []string{"k1", "k2"}), Now: now}
	default:
		o = Op{Kind: "delmeta", IsAcc: true, TgtAcc: Pick(r, accts), Key: Pick(r, []string{"k1", "k2", "role"}), Now: now}
	}
	if r.Chance(25) {
		o.IK = Pick(r, []string{"ik1", "ik2", "ik3"})
	}
	return o
}

func genBulkCase(r *Rng) bulkCase {
	c := bulkCase{Mode: Pick(r, []string{"audit", "strict"})}
	now := evBase + 10*1000000
	accts := genAccounts
	// 45% of the ledgers have a schema: a chart whose patterns give default metadata to some accounts (users:$id, bank, users:main)
	var versions []string
	if r.Chance(45) {
		accts = append(append([]string{}, sAccounts...), "users:7", "users:9")
		for _, v := range []string{"v1", "v2"} {
			if v == "v2" && !r.Chance(25) {
				break
			}
			now += 1000000
			c.Prep = append(c.Prep, SOp{Schema: true, Version: v, Chart: genSchemaChart(r), Op: Op{Now: now}})
			versions = append(versions, v)
		}
	}
	pickVersion := func() string {
		k := r.Intn(100)
		switch {
		case len(versions) > 0 && k < 60:
			return Pick(r, versions)
		case k < 85:
			return ""
		default:
			return "nope" // unknown version: rejected in both modes
		}
	}
	np := r.Intn(5)
	for i := 0; i < np; i++ {
		now += 1000000
		o := genBulkOp(r, now, int64(i), accts)
		if i == 0 || r.Chance(50) {
			o = mkCreate("world", Pick(r, accts[1:]), int64(20+r.Intn(100)), now)
		}
		o.IK = ""
		v := ""
		if len(versions) > 0 && (c.Mode == "strict" || r.Chance(50)) {
			v = Pick(r, versions)
		}
		c.Prep = append(c.Prep, SOp{Version: v, Op: o})
	}
	now += 1000000
	c.Now = now
	c.Version = pickVersion()
	switch r.Intn(6) {
	case 0:
		c.Atomic = true
	case 1:
		c.Atomic, c.Cont = true, true
	case 2:
		c.Cont = true
	case 3:
		c.Parallel = true
	case 4:
		c.Parallel, c.Cont = true, true
	}
	n := 1 + r.Intn(7)
	if r.Chance(4) { // large bulk: slices.SortFunc leaves insertion sort above 12 elements
		n = 13 + r.Intn(60)
	}
	for i := 0; i < n; i++ {
		o := genBulkOp(r, now, int64(np+i), accts)
		if r.Chance(30) { // keep a good share of succeeding elements
			o = mkCreate("world", Pick(r, accts[1:]), int64(1+r.Intn(50)), now)
		}
		if c.Parallel {
			o.IK = fmt.Sprintf("par-%d", i)
		}
		c.Ops = append(c.Ops, o)
	}
	if c.Parallel {
		for i := 0; i < n; i++ {
			c.Perm = append(c.Perm, i)
		}
		for i := n - 1; i > 0; i-- {
			j := r.Intn(i + 1)
			c.Perm[i], c.Perm[j] = c.Perm[j], c.Perm[i]
		}
	}
	return c
}

func cmdBulk(args []string) int {
	f := ParseFlags(args)
	out := NewOut(f.Out)
	defer out.Close()
	finish := func(run *bulkRun) {
		cs := run.Case.sx()
		out.Case(cs, run.implSx())
		out.Stats["cases"]++
		out.Stats["elements"] += len(run.Case.Ops)
		mode := "seq"
		if run.Case.Atomic {
			mode = "atomic"
		}
		if run.Case.Parallel {
			mode = "parallel"
		}
		if run.Case.Cont {
			mode += "_cont"
		}
		out.Stats["mode_"+mode]++
		hasSchema := false
		for _, so := range run.Case.Prep {
			hasSchema = hasSchema || so.Schema
		}
		if hasSchema {
			out.Stats["schema_"+run.Case.Mode]++
			switch run.Case.Version {
			case "":
				out.Stats["schema_version_absent"]++
			case "nope":
				out.Stats["schema_version_unknown"]++
			default:
				out.Stats["schema_version_present"]++
			}
		} else if run.Case.Version != "" {
			out.Stats["noschema_version_unknown"]++
		}
		for _, o := range run.Case.Ops {
			if scriptEncoded(o) {
				out.Stats["elements_script"]++
			}
		}
		nok, nerr := 0, 0
		for _, e := range run.Entries {
			if e.ResponseType == "ERROR" {
				nerr++
				out.Stats["entry_"+strings.SplitN(apiErrClass(e), ":", 2)[0]]++
			} else {
				nok++
				out.Stats["entry_ok"]++
			}
		}
		if nok > 0 && nerr > 0 {
			out.Stats["distinct_nontrivial"]++
		}
		for _, m := range monitorUndecodable(run.Case) {
			out.Violation("C32", cs, m)
		}
		for _, m := range monitorC32(run) {
			out.Violation("C32", cs, m)
		}
	}
	if f.Replay != "" {
		for _, line := range ReadLines(f.Replay) {
			finish(runBulkCase(parseBulkCase(line)))
		}
		return 0
	}
	r := NewRng(f.Seed)
	for i := 0; i < f.N; i++ {
		finish(runBulkCase(genBulkCase(r.Fork())))
	}
	return 0
}

// monitorUndecodable (no model): the same bulk with ONE element replaced by an element that is valid JSON but cannot be
// decoded (a REVERT_TRANSACTION whose id is a string), at a position derived from the case. Whatever the handler makes of
// it (the whole bulk refused, or that element reported as failed), the bulk options keep their meaning: an atomic bulk
// that reports a failure applied nothing; a sequential bulk without continueOnFailure applied nothing after the failed position.
func monitorUndecodable(c bulkCase) []string {
	if c.Parallel || len(c.Ops) < 2 || (c.Cont && !c.Atomic) {
		return nil
	}
	k := (len(c.Ops) + int(c.Now%7)) % len(c.Ops)
	b := newBulkStack(c.Mode, c.Prep)
	b.st.PG.Clock = pgsem.TS(c.Now)
	nlogs := func() int {
		return len(rawRows(b.st.PG, `select id from logs where ledger = 'l1'`))
	}
	before, n0 := b.snap(), nlogs()
	els := make([]string, len(c.Ops))
	for i, o := range c.Ops {
		els[i] = opJSON(o)
	}
	els[k] = `{"action":"REVERT_TRANSACTION","data":{"id":"abc"}}`
	body := "[" + strings.Join(els, ",") + "]"
	opts := bulking.BulkingOptions{Atomic: c.Atomic, ContinueOnFailure: c.Cont, SchemaVersion: c.Version}
	entries, status, runErr, _ := runBulkHTTPWith(b.ctx, bulking.NewBulker(b.ctrl), body, opts, nil)
	failed := runErr != nil || status/100 != 2
	for _, e := range entries {
		if e.ErrorCode != "" {
			failed = true
		}
	}
	if !failed {
		return []string{fmt.Sprintf("a bulk whose element %d cannot be decoded (revert id \"abc\") is answered as a success (status %d) [undecodable-accepted]", k, status)}
	}
	after, n1 := b.snap(), nlogs()
	if c.Atomic && after != before {
		return []string{fmt.Sprintf("atomic bulk with an undecodable element at position %d reports a failure (status %d) but changed the ledger: %d new logs [undecodable-atomic-partial]", k, status, n1-n0)}
	}
	if c.Atomic && len(c.Ops) >= 1 {
		// the same atomic bulk as a json STREAM that breaks off after its last element (a malformed tail): all or nothing
		// holds for streams too (internal/api/bulking/handler_stream_json.go; repaired by 415190a)
		b2 := newBulkStack(c.Mode, c.Prep)
		b2.st.PG.Clock = pgsem.TS(c.Now)
		before2 := b2.snap()
		parts := make([]string, len(c.Ops))
		for i, o := range c.Ops {
			parts[i] = opJSON(o)
		}
		q := "/v2/l1/_bulk?atomic=true"
		if c.Version != "" {
			q += "&schemaVersion=" + url.QueryEscape(c.Version)
		}
		resp := newHTTPAPI(b2.st).do("POST", q, map[string]string{"Content-Type": "application/vnd.formance.ledger.api.v2.bulk+json-stream"}, strings.Join(parts, "\n")+"\n{")
		if resp.Code/100 == 2 {
			return []string{fmt.Sprintf("atomic json-stream bulk with a malformed tail is answered %d [stream-malformed-accepted]", resp.Code)}
		}
		if after2 := b2.snap(); after2 != before2 {
			return []string{fmt.Sprintf("atomic json-stream bulk with a malformed tail is answered %d but changed the ledger [stream-atomic-partial]", resp.Code)}
		}
	}
	if !c.Atomic && !c.Cont && n1-n0 > k {
		return []string{fmt.Sprintf("sequential bulk without continueOnFailure: element %d cannot be decoded, yet %d elements were applied (at most the %d before it may be) [undecodable-not-stopped]", k, n1-n0, k)}
	}
	return nil
}
