//go:build verif

package main

import (
	"context"
	"fmt"
	"strconv"
	"strings"
	"sync"
	"time"

	ledger "github.com/formancehq/ledger/internal"
	"github.com/formancehq/ledger/internal/api/bulking"
	ledgercontroller "github.com/formancehq/ledger/internal/controller/ledger"
	"github.com/formancehq/ledger/internal/verifh/pgsem"
)

// bulk (TIE-D/F, property C32): random bulks through JsonBulkHandler.GetChannels -> the real Bulker over the real
// controller stack on pgsem -> JsonBulkHandler.Terminate (what v2.bulkHandler does); the per-entry response and the
// final ledger snapshot must equal the extracted model (Ledger/Bulk.v instantiated with Core.step).  The C32 monitor is
// independent of the model: it replays the elements one by one on a second fresh stack (standalone results).
func init() { commands["bulk"] = cmdBulk }

type bulkCase struct {
	Prep     []Op
	Now      int64
	Atomic   bool
	Cont     bool
	Parallel bool
	Perm     []int // parallel: completion order
	Ops      []Op
}

func (c bulkCase) sx() string {
	perm := make([]string, len(c.Perm))
	for i, p := range c.Perm {
		perm[i] = fmt.Sprint(p)
	}
	return L("bulk", allOn.sx(), opsSx(c.Prep), fmt.Sprint(c.Now), b01(c.Atomic), b01(c.Cont), b01(c.Parallel), L(perm...), opsSx(c.Ops))
}

func parseBulkCase(line string) bulkCase {
	sx, err := ParseSx(line)
	must(err)
	ops := func(x *Sx) []Op {
		var items []string
		for _, e := range x.List {
			items = append(items, sxString(e))
		}
		_, o := parseHistCase(L("hist", allOn.sx(), L(items...)))
		return o
	}
	c := bulkCase{Prep: ops(sx.List[2]), Now: atoi(sx.List[3].Atom), Atomic: sx.List[4].Atom == "1", Cont: sx.List[5].Atom == "1", Parallel: sx.List[6].Atom == "1", Ops: ops(sx.List[8])}
	for _, p := range sx.List[7].List {
		c.Perm = append(c.Perm, int(atoi(p.Atom)))
	}
	return c
}

// orderedCtrl serialises the elements of a parallel bulk in a chosen completion order: every write call waits until all
// n tasks have arrived (so every task made its hasError test before the first completion), until its turn has come and
// until the results of the earlier turns have been sent on the result channel.  The element index travels in the
// idempotency key ("par-<i>").
type orderedCtrl struct {
	ledgercontroller.Controller
	mu      sync.Mutex
	n       int
	pos     map[int]int // element index -> position in the completion order
	arrived int
	turn    int
	recv    chan bulking.BulkElementResult
}

func (c *orderedCtrl) enter(ik string) func() {
	i, err := strconv.Atoi(strings.TrimPrefix(ik, "par-"))
	must(err)
	c.mu.Lock()
	c.arrived++
	c.mu.Unlock()
	deadline := time.Now().Add(20 * time.Second)
	for {
		c.mu.Lock()
		ok := c.arrived == c.n && c.turn == c.pos[i] && len(c.recv) == c.turn
		c.mu.Unlock()
		if ok {
			break
		}
		if time.Now().After(deadline) {
			panic("bulk harness: parallel barrier timed out (a task never reached the controller)")
		}
		time.Sleep(20 * time.Microsecond)
	}
	return func() {
		c.mu.Lock()
		c.turn++
		c.mu.Unlock()
	}
}

func (c *orderedCtrl) CreateTransaction(ctx context.Context, p ledgercontroller.Parameters[ledgercontroller.CreateTransaction]) (*ledger.Log, *ledger.CreatedTransaction, bool, error) {
	defer c.enter(p.IdempotencyKey)()
	return c.Controller.CreateTransaction(ctx, p)
}
func (c *orderedCtrl) RevertTransaction(ctx context.Context, p ledgercontroller.Parameters[ledgercontroller.RevertTransaction]) (*ledger.Log, *ledger.RevertedTransaction, bool, error) {
	defer c.enter(p.IdempotencyKey)()
	return c.Controller.RevertTransaction(ctx, p)
}
func (c *orderedCtrl) SaveTransactionMetadata(ctx context.Context, p ledgercontroller.Parameters[ledgercontroller.SaveTransactionMetadata]) (*ledger.Log, bool, error) {
	defer c.enter(p.IdempotencyKey)()
	return c.Controller.SaveTransactionMetadata(ctx, p)
}
func (c *orderedCtrl) SaveAccountMetadata(ctx context.Context, p ledgercontroller.Parameters[ledgercontroller.SaveAccountMetadata]) (*ledger.Log, bool, error) {
	defer c.enter(p.IdempotencyKey)()
	return c.Controller.SaveAccountMetadata(ctx, p)
}
func (c *orderedCtrl) DeleteTransactionMetadata(ctx context.Context, p ledgercontroller.Parameters[ledgercontroller.DeleteTransactionMetadata]) (*ledger.Log, bool, error) {
	defer c.enter(p.IdempotencyKey)()
	return c.Controller.DeleteTransactionMetadata(ctx, p)
}
func (c *orderedCtrl) DeleteAccountMetadata(ctx context.Context, p ledgercontroller.Parameters[ledgercontroller.DeleteAccountMetadata]) (*ledger.Log, bool, error) {
	defer c.enter(p.IdempotencyKey)()
	return c.Controller.DeleteAccountMetadata(ctx, p)
}

type bulkStack struct {
	st   *Stack
	ctx  context.Context
	ctrl ledgercontroller.Controller
}

func newBulkStack(prep []Op) *bulkStack {
	st := NewStack(StackOpts{})
	ctx := context.Background()
	must(st.Sys.CreateLedger(ctx, "l1", ledger.Configuration{Bucket: "_default", Features: allOn.set()}))
	ctrl, err := st.Sys.GetLedgerController(ctx, "l1")
	must(err)
	for _, o := range prep {
		st.PG.Clock = pgsem.TS(o.Now)
		runOp(ctx, ctrl, o)
	}
	return &bulkStack{st, ctx, ctrl}
}
func (b *bulkStack) snap() string { return b.st.Snapshot(b.ctx, b.ctrl, "l1", allOn).sx() }

type bulkRun struct {
	Case          bulkCase
	Entries       []BulkAPIResult
	Status        int
	RunErr        error
	Before, After string
}

func entrySx(e BulkAPIResult) string {
	if e.ResponseType == "ERROR" || e.ErrorCode != "" {
		c := apiErrClass(e)
		if strings.HasPrefix(c, "other:") {
			return L("err", "other", Q(c[6:]), e.ResponseType)
		}
		return L("err", c, e.ResponseType)
	}
	return L("ok", fmt.Sprint(e.LogID), apiTxID(e), e.ResponseType)
}

func runBulkCase(c bulkCase) *bulkRun {
	b := newBulkStack(c.Prep)
	run := &bulkRun{Case: c, Before: b.snap()}
	b.st.PG.Clock = pgsem.TS(c.Now)
	opts := bulking.BulkingOptions{Atomic: c.Atomic, ContinueOnFailure: c.Cont, Parallel: c.Parallel}
	body := bulkBody(c.Ops)
	if c.Parallel {
		oc := &orderedCtrl{Controller: b.ctrl, n: len(c.Ops), pos: map[int]int{}}
		for p, i := range c.Perm {
			oc.pos[i] = p
		}
		bulker := bulking.NewBulker(oc, bulking.WithParallelism(len(c.Ops)+1))
		// runBulkHTTP creates the result channel inside GetChannels: do the three calls here to hand it to the barrier
		run.Entries, run.Status, run.RunErr, _ = runBulkHTTPWith(b.ctx, bulker, body, opts, func(recv chan bulking.BulkElementResult) { oc.recv = recv })
	} else {
		run.Entries, run.Status, run.RunErr, _ = runBulkHTTPWith(b.ctx, bulking.NewBulker(b.ctrl), body, opts, nil)
	}
	run.After = b.snap()
	return run
}

func (r *bulkRun) implSx() string {
	if r.RunErr != nil {
		return L("bulk_error", Q(r.RunErr.Error()))
	}
	es := make([]string, len(r.Entries))
	for i, e := range r.Entries {
		es[i] = entrySx(e)
	}
	return L("bulk", L("results", L(es...)), r.After)
}

// ---- monitor C32: standalone replay on a second fresh stack
func resSx(o Op, r OpResult) string {
	if r.Panic != "" {
		return L("panic")
	}
	if r.Class != "none" {
		c := r.Class
		if strings.HasPrefix(c, "other:") {
			return L("err", "other", Q(c[6:]), "ERROR")
		}
		return L("err", c, "ERROR")
	}
	tx := "nil"
	if r.TxID != nil && (o.Kind == "create" || o.Kind == "revert") {
		tx = fmt.Sprint(*r.TxID)
	}
	return L("ok", fmt.Sprint(r.LogID), tx, opAction(o))
}

func monitorC32(r *bulkRun) []string {
	c := r.Case
	var msgs []string
	if r.RunErr != nil {
		return []string{fmt.Sprintf("Bulker.Run failed: %v [bulk-run-error]", r.RunErr)}
	}
	if len(r.Entries) != len(c.Ops) {
		return []string{fmt.Sprintf("%d results for %d elements [result-count]", len(r.Entries), len(c.Ops))}
	}
	b2 := newBulkStack(c.Prep)
	b2.st.PG.Clock = pgsem.TS(c.Now)
	order := make([]int, len(c.Ops))
	for i := range order {
		order[i] = i
	}
	if c.Parallel {
		order = c.Perm
	}
	standalone := make([]string, len(c.Ops)) // by element index
	failed := false
	for _, i := range order {
		if failed && !c.Cont && !c.Parallel {
			standalone[i] = L("err", "cancelled", "ERROR")
			continue
		}
		res := runOp(b2.ctx, b2.ctrl, c.Ops[i])
		standalone[i] = resSx(c.Ops[i], res)
		if res.Class != "none" {
			failed = true
		}
	}
	got := make([]string, len(r.Entries))
	for i, e := range r.Entries {
		got[i] = entrySx(e)
	}
	// completion-order truth: entry j is the result of element order[j]
	// entry i must be what element i answers on its own (in the state the bulk had reached when it ran)
	for i := range c.Ops {
		if got[i] != standalone[i] {
			tag := "[standalone-mismatch]"
			switch {
			case strings.HasPrefix(standalone[i], "(err cancelled") != strings.HasPrefix(got[i], "(err cancelled"):
				tag = "[order-or-stop]"
			case sameMultiset(got, standalone):
				tag = "[attribution]" // every result is there, attached to the wrong element
			}
			msgs = append(msgs, fmt.Sprintf("response entry %d does not describe element %d: entry %s, the same request on its own answers %s (execution order %v) %s", i, i, got[i], standalone[i], order, tag))
			break
		}
	}
	// state
	want := b2.snap()
	if c.Atomic && failed {
		if r.After != r.Before {
			msgs = append(msgs, "atomic bulk with a failing element changed the ledger [atomic-partial]")
		}
	} else if r.After != want {
		msgs = append(msgs, "final ledger differs from applying the elements one by one (in order, stopping as the options demand) [final-state]")
	}
	if failed != (r.Status == 400) {
		msgs = append(msgs, fmt.Sprintf("HTTP status %d with failed=%v [status]", r.Status, failed))
	}
	return msgs
}

// same results up to order and up to the positional responseType
func sameMultiset(a, b []string) bool {
	core := func(e string) string {
		if k := strings.LastIndex(e, " "); k > 0 {
			return e[:k]
		}
		return e
	}
	cnt := map[string]int{}
	for _, x := range a {
		cnt[core(x)]++
	}
	for _, x := range b {
		cnt[core(x)]--
	}
	for _, v := range cnt {
		if v != 0 {
			return false
		}
	}
	return len(a) == len(b)
}

func genBulkCase(r *Rng) bulkCase {
	c := bulkCase{}
	now := evBase + 10*1000000
	np := r.Intn(5)
	for i := 0; i < np; i++ {
		now += 1000000
		o := genEvOp(r, now, int64(i))
		if i == 0 || r.Chance(50) {
			o = mkCreate("world", Pick(r, genAccounts[1:]), int64(20+r.Intn(100)), now)
		}
		o.IK = ""
		c.Prep = append(c.Prep, o)
	}
	now += 1000000
	c.Now = now
	switch r.Intn(6) {
	case 0:
		c.Atomic = true
	case 1:
		c.Atomic, c.Cont = true, true
	case 2:
		c.Cont = true
	case 3:
		c.Parallel = true
	case 4:
		c.Parallel, c.Cont = true, true
	}
	n := 1 + r.Intn(7)
	if r.Chance(4) { // large bulk: slices.SortFunc leaves insertion sort above 12 elements (all ElementIDs are equal: order must survive)
		n = 13 + r.Intn(60)
	}
	for i := 0; i < n; i++ {
		o := genEvOp(r, now, int64(np+i))
		if r.Chance(35) { // keep a good share of succeeding elements
			o = mkCreate("world", Pick(r, genAccounts[1:]), int64(1+r.Intn(50)), now)
		}
		if c.Parallel {
			o.IK = fmt.Sprintf("par-%d", i)
		}
		c.Ops = append(c.Ops, o)
	}
	if c.Parallel {
		for i := 0; i < n; i++ {
			c.Perm = append(c.Perm, i)
		}
		for i := n - 1; i > 0; i-- {
			j := r.Intn(i + 1)
			c.Perm[i], c.Perm[j] = c.Perm[j], c.Perm[i]
		}
	}
	return c
}

func cmdBulk(args []string) int {
	f := ParseFlags(args)
	out := NewOut(f.Out)
	defer out.Close()
	finish := func(run *bulkRun) {
		cs := run.Case.sx()
		out.Case(cs, run.implSx())
		out.Stats["cases"]++
		out.Stats["elements"] += len(run.Case.Ops)
		mode := "seq"
		if run.Case.Atomic {
			mode = "atomic"
		}
		if run.Case.Parallel {
			mode = "parallel"
		}
		if run.Case.Cont {
			mode += "_cont"
		}
		out.Stats["mode_"+mode]++
		nok, nerr := 0, 0
		for _, e := range run.Entries {
			if e.ResponseType == "ERROR" {
				nerr++
				out.Stats["entry_"+strings.SplitN(apiErrClass(e), ":", 2)[0]]++
			} else {
				nok++
				out.Stats["entry_ok"]++
			}
		}
		if nok > 0 && nerr > 0 {
			out.Stats["distinct_nontrivial"]++
		}
		for _, m := range monitorC32(run) {
			out.Violation("C32", cs, m)
		}
	}
	if f.Replay != "" {
		for _, line := range ReadLines(f.Replay) {
			finish(runBulkCase(parseBulkCase(line)))
		}
		return 0
	}
	r := NewRng(f.Seed)
	for i := 0; i < f.N; i++ {
		finish(runBulkCase(genBulkCase(r.Fork())))
	}
	return 0
}
