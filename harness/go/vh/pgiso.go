//go:build verif

package main

// pgiso: self-test of pgsem's transaction isolation levels (harness/go/pgsem: driver.go BeginTx, db.go execOne/execTx, dml.go
// lockRow / ON CONFLICT).  Every expectation below is a sentence of the PostgreSQL documentation, chapter 13.2 "Transaction
// Isolation" (13.2.1 Read Committed, 13.2.2 Repeatable Read), 13.3.5 (advisory locks), 9.17 (sequences), SQL commands BEGIN / SET
// TRANSACTION.  No ledger code is involved: two or three pgsem sessions on a two-table database.  Lock waits are made
// deterministic by a pgsem.Scheduler whose Block runs the step the test wants to happen "while the session waits".
// A failed expectation is reported as a violation tagged [pgsem-isolation-selftest] (the schedule ties of C06/C09/C12-C16 are only
// as good as these rules).

import (
	"context"
	"database/sql"
	"errors"
	"fmt"
	"strings"

	"github.com/formancehq/ledger/internal/verifh/pgsem"
	"github.com/jackc/pgx/v5/pgconn"
)

func init() { commands["pgiso"] = cmdPgIso }

type isoBlocker struct {
	during func() // what happens while the session is parked
	calls  int
}

func (b *isoBlocker) Block(sess *pgsem.Session, on uint64) {
	b.calls++
	if b.during != nil {
		f := b.during
		b.during = nil
		f()
		return
	}
	panic("pgiso: a session waits and nothing is scripted to end the wait")
}
func (b *isoBlocker) Yield(*pgsem.Session, string) {}

type isoT struct {
	db    *pgsem.DB
	blk   *isoBlocker
	name  string
	fails []string
	steps int
}

func newIsoDB() (*pgsem.DB, *isoBlocker) {
	db := pgsem.NewDB("public")
	db.AddTable("public", "t", []string{"id numeric not null", "v numeric"})
	db.AddTable("public", "logs", []string{"id numeric not null", "prev numeric"})
	boot := db.NewSession()
	for _, q := range []string{
		`create unique index t_pkey on t (id)`,
		`create sequence s`,
		`insert into t (id, v) values (1, 10), (2, 20)`,
		// the shape of set_log_hash: a BEFORE INSERT trigger whose body reads the latest row of the table it guards
		`create function set_prev() returns trigger language plpgsql as $$ declare p numeric; begin select id into p from logs order by id desc limit 1; new.prev = coalesce(p, 0); return new; end; $$`,
		`create trigger set_prev before insert on logs for each row execute procedure set_prev()`,
		`insert into logs (id) values (1)`,
	} {
		if _, err := boot.Exec(q); err != nil {
			panic(fmt.Errorf("pgiso bootstrap %q: %w", q, err))
		}
	}
	boot.Close()
	blk := &isoBlocker{}
	db.Sched = blk
	return db, blk
}

func (t *isoT) failf(f string, a ...any) {
	t.fails = append(t.fails, t.name+": "+fmt.Sprintf(f, a...))
}

// q runs one statement; want: "" = must succeed, otherwise the SQLSTATE it must fail with.  Returns the first column of the rows.
func (t *isoT) q(s *pgsem.Session, sqlText, want string) []string {
	t.steps++
	res, err := s.Exec(sqlText)
	code := ""
	if err != nil {
		var se *pgsem.SQLError
		if errors.As(err, &se) {
			code = se.Code
		} else {
			code = "?" + err.Error()
		}
	}
	if code != want {
		t.failf("session %d %q: SQLSTATE %q, expected %q (%v)", s.ID, sqlText, code, want, err)
	}
	var out []string
	if res != nil {
		for _, r := range res.Rows {
			if len(r) > 0 && r[0] != nil {
				out = append(out, pgsemText(r[0]))
			} else {
				out = append(out, "NULL")
			}
		}
	}
	return out
}

func (t *isoT) eq(what string, got []string, want ...string) {
	if strings.Join(got, ",") != strings.Join(want, ",") {
		t.failf("%s: got [%s], expected [%s]", what, strings.Join(got, ","), strings.Join(want, ","))
	}
}

const rrBegin = `begin isolation level repeatable read`

var isoTests = []struct {
	name string
	run  func(t *isoT, a, b *pgsem.Session)
}{
	{"read-committed-statement-snapshots", func(t *isoT, a, b *pgsem.Session) {
		// 13.2.1: "each statement ... sees a snapshot of the database as of the instant the query begins": two successive SELECTs of one
		// transaction see different data when another transaction commits in between
		t.q(a, `begin`, "")
		t.eq("first read", t.q(a, `select v from t where id = 1`, ""), "10")
		t.q(b, `update t set v = 11 where id = 1`, "")
		t.eq("second read sees the commit", t.q(a, `select v from t where id = 1`, ""), "11")
		t.q(b, `insert into t (id, v) values (3, 30)`, "")
		t.eq("new row visible", t.q(a, `select count(*) from t`, ""), "3")
		// 13.2.1: UPDATE finds the row updated by a committed concurrent transaction and goes on with the updated version
		t.q(a, `update t set v = v + 1 where id = 1`, "")
		t.eq("update applied on the newest version", t.q(a, `select v from t where id = 1`, ""), "12")
		t.q(a, `commit`, "")
		if a.Isolation() != pgsem.IsoReadCommitted {
			t.failf("default isolation is %v", a.Isolation())
		}
	}},
	{"read-committed-explicit-and-uncommitted", func(t *isoT, a, b *pgsem.Session) {
		for _, beg := range []string{`begin isolation level read committed`, `BEGIN TRANSACTION ISOLATION LEVEL READ UNCOMMITTED`, `start transaction read write, isolation level read committed`} {
			t.q(a, beg, "")
			t.eq(beg+": read", t.q(a, `select v from t where id = 2`, ""), "20")
			t.q(b, `update t set v = 21 where id = 2`, "")
			t.eq(beg+": sees the commit (13.2: Read Uncommitted behaves like Read Committed)", t.q(a, `select v from t where id = 2`, ""), "21")
			t.q(a, `rollback`, "")
			t.q(b, `update t set v = 20 where id = 2`, "")
		}
	}},
	{"repeatable-read-snapshot-is-the-first-statement", func(t *isoT, a, b *pgsem.Session) {
		// 13.2.2: "sees a snapshot as of the start of the first non-transaction-control statement in the transaction"
		t.q(a, rrBegin, "")
		if a.Isolation() != pgsem.IsoRepeatableRead {
			t.failf("isolation after %q is %v", rrBegin, a.Isolation())
		}
		t.q(b, `update t set v = 11 where id = 1`, "") // commits after BEGIN, before the first statement: visible
		t.q(a, `set application_name = 'x'`, "")       // a utility statement takes no snapshot
		t.q(b, `update t set v = 12 where id = 1`, "")
		t.eq("first statement", t.q(a, `select v from t where id = 1`, ""), "12")
		t.q(b, `update t set v = 13 where id = 1`, "")
		t.q(b, `insert into t (id, v) values (3, 30)`, "")
		t.q(b, `delete from t where id = 2`, "")
		t.eq("later statement reads the same snapshot", t.q(a, `select v from t where id = 1`, ""), "12")
		t.eq("no phantom, no vanished row", t.q(a, `select id from t order by id`, ""), "1", "2")
		// own changes stay visible (13.2.2: "does see the effects of previous updates executed within its own transaction")
		t.q(a, `insert into t (id, v) values (7, 70)`, "")
		t.eq("own insert visible", t.q(a, `select id from t order by id`, ""), "1", "2", "7")
		t.q(a, `commit`, "")
		t.q(a, `begin`, "")
		t.eq("next transaction sees everything", t.q(a, `select id from t order by id`, ""), "1", "3", "7")
		t.eq("next transaction sees the update", t.q(a, `select v from t where id = 1`, ""), "13")
		t.q(a, `commit`, "")
	}},
	{"repeatable-read-concurrent-update-40001", func(t *isoT, a, b *pgsem.Session) {
		t.q(a, rrBegin, "")
		t.eq("snapshot", t.q(a, `select v from t where id = 1`, ""), "10")
		t.q(b, `update t set v = 11 where id = 1`, "")
		t.q(a, `update t set v = v + 100 where id = 1`, "40001")
		t.q(a, `select 1`, "25P02")
		t.q(a, `rollback`, "")
		t.eq("nothing of the failed transaction", t.q(b, `select v from t where id = 1`, ""), "11")
		// DELETE and SELECT FOR UPDATE alike; a row the other transaction did not touch is fine
		t.q(a, rrBegin, "")
		t.q(a, `select 1`, "")
		t.q(b, `update t set v = 12 where id = 1`, "")
		t.q(a, `update t set v = 21 where id = 2`, "")
		t.q(a, `delete from t where id = 1`, "40001")
		t.q(a, `rollback`, "")
		t.eq("untouched row rolled back too", t.q(b, `select v from t where id = 2`, ""), "20")
		t.q(a, rrBegin, "")
		t.q(a, `select 1`, "")
		t.q(b, `delete from t where id = 2`, "")
		t.q(a, `select v from t where id = 2 for update`, "40001")
		t.q(a, `rollback`, "")
	}},
	{"repeatable-read-waits-then-40001-or-proceeds", func(t *isoT, a, b *pgsem.Session) {
		// 13.2.2: "will wait for the first updating transaction to commit or roll back ... If the first updater rolls back ... can proceed
		// ... But if the first updater commits ... could not serialize access due to concurrent update"
		t.q(b, `begin`, "")
		t.q(b, `update t set v = 11 where id = 1`, "")
		t.q(a, rrBegin, "")
		t.eq("snapshot", t.q(a, `select v from t where id = 1`, ""), "10")
		t.blk.during = func() { t.q(b, `commit`, "") }
		t.q(a, `update t set v = v + 100 where id = 1`, "40001")
		t.q(a, `rollback`, "")
		t.q(b, `begin`, "")
		t.q(b, `update t set v = 12 where id = 1`, "")
		t.q(a, rrBegin, "")
		t.eq("snapshot", t.q(a, `select v from t where id = 1`, ""), "11")
		t.blk.during = func() { t.q(b, `rollback`, "") }
		t.q(a, `update t set v = v + 100 where id = 1`, "")
		t.q(a, `commit`, "")
		t.eq("updater rolled back: proceeded on the version found", t.q(b, `select v from t where id = 1`, ""), "111")
		if t.blk.calls != 2 {
			t.failf("expected 2 lock waits, saw %d", t.blk.calls)
		}
		// a concurrent transaction that only LOCKED the row (13.2.2: "not just locked it") does not fail the waiter
		t.q(b, `begin`, "")
		t.q(b, `select v from t where id = 2 for update`, "")
		t.q(a, rrBegin, "")
		t.q(a, `select 1`, "")
		t.blk.during = func() { t.q(b, `commit`, "") }
		t.q(a, `update t set v = 22 where id = 2`, "")
		t.q(a, `commit`, "")
	}},
	{"read-committed-waits-then-follows-the-update", func(t *isoT, a, b *pgsem.Session) {
		t.q(b, `begin`, "")
		t.q(b, `update t set v = 11 where id = 1`, "")
		t.q(a, `begin`, "")
		t.blk.during = func() { t.q(b, `commit`, "") }
		t.q(a, `update t set v = v + 100 where id = 1`, "")
		t.q(a, `commit`, "")
		t.eq("applied on the updated version", t.q(b, `select v from t where id = 1`, ""), "111")
	}},
	{"repeatable-read-on-conflict-and-unique", func(t *isoT, a, b *pgsem.Session) {
		t.q(a, rrBegin, "")
		t.q(a, `select 1`, "")
		t.q(b, `insert into t (id, v) values (5, 50)`, "")
		// the unique index sees committed rows whatever the snapshot
		t.q(a, `savepoint s1`, "")
		t.q(a, `insert into t (id, v) values (5, 51)`, "23505")
		t.q(a, `rollback to savepoint s1`, "")
		t.eq("the conflicting row is not in the snapshot", t.q(a, `select count(*) from t where id = 5`, ""), "0")
		t.q(a, `insert into t (id, v) values (5, 51) on conflict (id) do update set v = excluded.v`, "40001")
		t.q(a, `rollback`, "")
		t.q(a, rrBegin, "")
		t.q(a, `select 1`, "")
		t.q(b, `insert into t (id, v) values (6, 60)`, "")
		t.q(a, `insert into t (id, v) values (6, 61) on conflict (id) do nothing`, "40001")
		t.q(a, `rollback`, "")
		// a conflicting row that IS in the snapshot: the upsert works
		t.q(a, rrBegin, "")
		t.q(a, `insert into t (id, v) values (6, 62) on conflict (id) do update set v = excluded.v`, "")
		t.q(a, `insert into t (id, v) values (6, 63) on conflict (id) do nothing`, "")
		t.q(a, `commit`, "")
		t.eq("upsert", t.q(b, `select v from t where id = 6`, ""), "62")
		// READ COMMITTED acts on the row even when the statement's snapshot cannot see it (13.2.1)
		t.q(a, `begin`, "")
		t.q(b, `insert into t (id, v) values (8, 80)`, "")
		t.q(a, `insert into t (id, v) values (8, 81) on conflict (id) do update set v = excluded.v`, "")
		t.q(a, `commit`, "")
		t.eq("read committed upsert", t.q(b, `select v from t where id = 8`, ""), "81")
	}},
	{"advisory-lock-and-sequence-are-not-snapshot-bound", func(t *isoT, a, b *pgsem.Session) {
		// the seeded regression in miniature: writer b holds pg_advisory_xact_lock and inserts a log; writer a (snapshot already taken)
		// waits for the lock, gets it when b commits, inserts: the trigger's SELECT reads a's snapshot
		for _, mode := range []struct{ begin, wantPrev string }{{`begin`, "2"}, {rrBegin, "1"}} {
			t.q(b, `delete from logs where id > 1`, "")
			t.q(b, `select setval('s', 1)`, "")
			t.q(a, mode.begin, "")
			t.eq("first statement", t.q(a, `select count(*) from logs`, ""), "1")
			t.q(b, `begin`, "")
			t.q(b, `select pg_advisory_xact_lock(42)`, "")
			t.eq("b draws 2", t.q(b, `select nextval('s')`, ""), "2")
			t.q(b, `insert into logs (id) values (2)`, "")
			calls := t.blk.calls
			t.blk.during = func() { t.q(b, `commit`, "") }
			t.q(a, `select pg_advisory_xact_lock(42)`, "") // 13.3.5: granted when the holder's transaction ends, at any isolation level
			if t.blk.calls != calls+1 {
				t.failf("%s: the advisory lock did not wait", mode.begin)
			}
			t.eq(mode.begin+": nextval is never rolled back nor snapshot-bound (9.17)", t.q(a, `select nextval('s')`, ""), "3")
			t.q(a, `insert into logs (id) values (3)`, "")
			t.eq(mode.begin+": predecessor read by the trigger", t.q(a, `select prev from logs where id = 3`, ""), mode.wantPrev)
			t.q(a, `insert into logs (id) values (4)`, "")
			t.eq(mode.begin+": own rows are visible to the trigger", t.q(a, `select prev from logs where id = 4`, ""), "3")
			t.q(a, `commit`, "")
		}
	}},
	{"serializable-is-refused", func(t *isoT, a, b *pgsem.Session) {
		t.q(a, `begin isolation level serializable`, "0A000")
		if a.InTx() {
			t.failf("a transaction is open after the refused BEGIN")
		}
		t.q(a, `begin`, "")
		t.q(a, `set transaction isolation level serializable`, "0A000")
		t.q(a, `select 1`, "25P02")
		t.q(a, `rollback`, "")
		t.q(a, `set session characteristics as transaction isolation level serializable`, "0A000")
		t.q(a, `begin transaction isolation level snapshot`, "42601")
		t.q(a, `begin isolation level`, "42601")
		t.q(a, `begin foo`, "42601")
	}},
	{"set-transaction", func(t *isoT, a, b *pgsem.Session) {
		t.q(a, `begin`, "")
		t.q(a, `set transaction isolation level repeatable read`, "")
		t.eq("snapshot", t.q(a, `select v from t where id = 1`, ""), "10")
		t.q(b, `update t set v = 11 where id = 1`, "")
		t.eq("SET TRANSACTION made it repeatable read", t.q(a, `select v from t where id = 1`, ""), "10")
		t.q(a, `set transaction isolation level repeatable read`, "") // same level: allowed
		t.q(a, `set transaction isolation level read committed`, "25001")
		t.q(a, `rollback`, "")
		t.q(a, `set session characteristics as transaction isolation level repeatable read`, "")
		t.q(a, `begin`, "")
		t.q(a, `select 1`, "")
		t.q(b, `update t set v = 12 where id = 1`, "")
		t.eq("session default", t.q(a, `select v from t where id = 1`, ""), "11")
		t.q(a, `commit`, "")
		t.q(a, `begin isolation level read committed`, "")
		t.q(a, `select 1`, "")
		t.q(b, `update t set v = 13 where id = 1`, "")
		t.eq("BEGIN overrides the session default", t.q(a, `select v from t where id = 1`, ""), "13")
		t.q(a, `commit`, "")
		t.q(a, `set default_transaction_isolation to 'read committed'`, "")
		t.q(a, `begin`, "")
		if a.Isolation() != pgsem.IsoReadCommitted {
			t.failf("default_transaction_isolation not applied")
		}
		t.q(a, `set local transaction_isolation = 'repeatable read'`, "")
		if a.Isolation() != pgsem.IsoRepeatableRead {
			t.failf("transaction_isolation not applied")
		}
		t.q(a, `commit`, "")
	}},
	{"read-only", func(t *isoT, a, b *pgsem.Session) {
		t.q(a, `start transaction isolation level repeatable read, read only`, "")
		t.eq("reads work", t.q(a, `select v from t where id = 1`, ""), "10")
		t.q(a, `update t set v = 1 where id = 1`, "25006")
		t.q(a, `rollback`, "")
		t.q(a, `begin read only`, "")
		t.q(a, `insert into t (id, v) values (9, 9)`, "25006")
		t.q(a, `rollback`, "")
		t.q(a, `begin read write`, "")
		t.q(a, `delete from t where id = 2`, "")
		t.q(a, `rollback`, "")
	}},
}

// through database/sql: what bun's BeginTx(ctx, opts) reaches the driver with
func isoDriverTest(t *isoT) {
	db, _ := newIsoDB()
	var last *pgsem.Session
	sdb := sql.OpenDB(&pgsem.Connector{DB: db, OnOpen: func(s *pgsem.Session) { last = s }})
	defer sdb.Close()
	sdb.SetMaxOpenConns(1)
	ctx := context.Background()
	other := db.NewSession()
	for _, c := range []struct {
		lvl  sql.IsolationLevel
		want string // isolation level, or "error:<substring>"
	}{
		{sql.LevelDefault, "read committed"}, {sql.LevelReadUncommitted, "read committed"}, {sql.LevelReadCommitted, "read committed"},
		{sql.LevelRepeatableRead, "repeatable read"}, {sql.LevelSnapshot, "repeatable read"},
		{sql.LevelSerializable, "error:does not model SERIALIZABLE"}, {sql.LevelLinearizable, "error:unsupported isolation"}, {sql.LevelWriteCommitted, "error:unsupported isolation"},
	} {
		t.steps++
		tx, err := sdb.BeginTx(ctx, &sql.TxOptions{Isolation: c.lvl})
		if strings.HasPrefix(c.want, "error:") {
			if err == nil || !strings.Contains(err.Error(), c.want[6:]) {
				t.failf("BeginTx(%v): error %v, expected one containing %q", c.lvl, err, c.want[6:])
			}
			if err == nil {
				tx.Rollback()
			}
			continue
		}
		if err != nil {
			t.failf("BeginTx(%v): %v", c.lvl, err)
			continue
		}
		if got := last.Isolation().String(); got != c.want {
			t.failf("BeginTx(%v): the session runs at %q, expected %q", c.lvl, got, c.want)
		}
		var v1, v2 string
		tx.QueryRowContext(ctx, `select v from t where id = 1`).Scan(&v1)
		t.q(other, `update t set v = v + 1 where id = 1`, "")
		tx.QueryRowContext(ctx, `select v from t where id = 1`).Scan(&v2)
		if stable := v1 == v2; stable != (c.want == "repeatable read") {
			t.failf("BeginTx(%v): two reads around a concurrent commit gave %s then %s", c.lvl, v1, v2)
		}
		tx.Rollback()
	}
	t.steps++
	tx, err := sdb.BeginTx(ctx, &sql.TxOptions{ReadOnly: true})
	if err != nil {
		t.failf("BeginTx(ReadOnly): %v", err)
		return
	}
	_, err = tx.ExecContext(ctx, `update t set v = 0 where id = 1`)
	var pe *pgconn.PgError
	if !errors.As(err, &pe) || pe.Code != "25006" {
		t.failf("BeginTx(ReadOnly): an UPDATE answered %v, expected SQLSTATE 25006", err)
	}
	tx.Rollback()
	if db.Stats["isolation_refused"] != 1 {
		t.failf("isolation_refused = %d, expected 1", db.Stats["isolation_refused"])
	}
}

func cmdPgIso(args []string) int {
	f := ParseFlags(args)
	out := NewOut(f.Out)
	defer out.Close()
	rc := 0
	report := func(t *isoT) {
		cs := L("pgiso", Q(t.name))
		verdict := "ok"
		if len(t.fails) > 0 {
			verdict = "failed"
			rc = 1
		}
		out.Case(cs, L("pgiso", verdict, fmt.Sprint(t.steps)))
		out.Stats["cases"]++
		out.Stats["distinct_nontrivial"]++
		out.Stats["statements"] += t.steps
		for _, m := range t.fails {
			out.Violation("C09", cs, "[pgsem-isolation-selftest] "+m)
			fmt.Println("FAIL", m)
		}
		if len(t.fails) == 0 {
			fmt.Println("ok  ", t.name, t.steps, "steps")
		}
	}
	for _, tc := range isoTests {
		db, blk := newIsoDB()
		t := &isoT{db: db, blk: blk, name: tc.name}
		a, b := db.NewSession(), db.NewSession()
		func() {
			defer func() {
				if r := recover(); r != nil {
					t.failf("panic: %v", r)
				}
			}()
			tc.run(t, a, b)
		}()
		report(t)
	}
	t := &isoT{name: "database-sql-TxOptions"}
	func() {
		defer func() {
			if r := recover(); r != nil {
				t.failf("panic: %v", r)
			}
		}()
		isoDriverTest(t)
	}()
	report(t)
	if f.Extra["strict"] == "" {
		return 0 // failures are violations in monitor.sx: bin/check decides; -strict 1 turns them into the exit code
	}
	return rc
}
