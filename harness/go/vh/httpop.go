//go:build verif

package main

import (
	"bytes"
	"encoding/json"
	"fmt"
	"math/big"
	"net/http"
	"net/http/httptest"
	"net/url"
	"sort"
	"strings"
	"time"

	"github.com/formancehq/go-libs/v5/pkg/authn/jwt"
	logging "github.com/formancehq/go-libs/v5/pkg/observe/log"

	ledger "github.com/formancehq/ledger/internal"
	"github.com/formancehq/ledger/internal/api"
	"github.com/formancehq/ledger/internal/api/bulking"
	ledgercontroller "github.com/formancehq/ledger/internal/controller/ledger"
)

// TIE-H: the history tie driven through the real HTTP API (api.NewRouter: chi routing, the v2 handlers, body and query
// decoding, error mapping, views.go rendering, cursor extraction) instead of the controller interface. Writes are v2
// requests; the ledger state is read back through the v2 read endpoints (followed page by page through their cursors) and
// printed in the same canonical form as the controller-level snapshot, so the same extracted model (Ledger/Core.v) is the
// oracle. What the HTTP answer cannot show (the log id of a write) is left out of the result: (ok <txid> <hit>) /
// (err "<status>:<errorCode>").

type httpAPI struct {
	router http.Handler
	nreq   int
	lastLog *bytes.Buffer // log lines of the last request (the cause behind an INTERNAL envelope)
}

func newHTTPAPI(st *Stack) *httpAPI {
	return &httpAPI{router: api.NewRouter(st.Sys, jwt.NewNoAuth(), nil, "verif", false, api.WithBulkerFactory(bulking.NewDefaultBulkerFactory()))}
}

type hresp struct {
	Code int
	Hdr  http.Header
	Body []byte
}

func (h *httpAPI) do(method, path string, hdr map[string]string, body string) (resp hresp) {
	h.nreq++
	req, err := http.NewRequest(method, "http://ledger.test"+path, bytes.NewReader([]byte(body)))
	must(err)
	for k, v := range hdr {
		req.Header.Set(k, v)
	}
	if _, ok := hdr["Content-Type"]; !ok && body != "" {
		req.Header.Set("Content-Type", "application/json")
	}
	if h.nreq%2 == 1 { // every other request asks for the views.go renderers (big integers as strings)
		req.Header.Set("Formance-Bigint-As-String", "true")
	}
	h.lastLog = new(bytes.Buffer)
	req = req.WithContext(logging.ContextWithLogger(req.Context(), logging.NewDefaultLogger(h.lastLog, false, false, false)))
	rec := httptest.NewRecorder()
	func() {
		defer func() {
			if r := recover(); r != nil {
				resp = hresp{Code: 599, Body: []byte(fmt.Sprint("panic escaped the router: ", r))}
			}
		}()
		h.router.ServeHTTP(rec, req)
		resp = hresp{Code: rec.Code, Hdr: rec.Header(), Body: rec.Body.Bytes()}
	}()
	return resp
}

func (r hresp) errClass() string {
	var e struct {
		ErrorCode string `json:"errorCode"`
	}
	_ = json.Unmarshal(r.Body, &e)
	return fmt.Sprintf("%d:%s", r.Code, e.ErrorCode)
}

func jsonStr(s string) string {
	b, err := json.Marshal(s)
	must(err)
	return string(b)
}
func jsonMeta(m []KV) string {
	var fs []string
	for _, kv := range m {
		fs = append(fs, jsonStr(kv.K)+":"+jsonStr(kv.V))
	}
	return "{" + strings.Join(fs, ",") + "}"
}
func rfc3339us(us int64) string { return time.UnixMicro(us).UTC().Format(time.RFC3339Nano) }

// httpRequestOf renders one operation as the v2 request a client would send. Equivalent spellings the API documents are
// alternated deterministically (force in the body or in the query string).
func httpRequestOf(ledgerName string, o Op) (method, path string, hdr map[string]string, body string) {
	hdr = map[string]string{}
	if o.IK != "" {
		hdr["Idempotency-Key"] = o.IK
	}
	q := url.Values{}
	if o.Dry {
		q.Set("dryRun", "true")
	}
	base := "/v2/" + ledgerName
	switch o.Kind {
	case "create":
		var ps []string
		for _, p := range o.Post {
			ps = append(ps, fmt.Sprintf(`{"source":%s,"destination":%s,"asset":%s,"amount":%s}`, jsonStr(p.Src), jsonStr(p.Dst), jsonStr(p.Asset), p.Amt.String()))
		}
		fs := []string{`"postings":[` + strings.Join(ps, ",") + `]`}
		if o.Script {
			// a Numscript request: the script text expresses force itself; the metadata member is always present (a client
			// sending a script with metadata beside it)
			fs = []string{`"script":` + scriptJSON(o, o.Force), `"metadata":` + jsonMeta(o.Meta)}
		} else if len(o.Meta) > 0 || len(o.Post)%2 == 0 {
			fs = append(fs, `"metadata":`+jsonMeta(o.Meta))
		}
		if o.TS != nil {
			fs = append(fs, `"timestamp":`+jsonStr(rfc3339us(*o.TS)))
		}
		if o.Ref != "" {
			fs = append(fs, `"reference":`+jsonStr(o.Ref))
		}
		if o.AccMeta != nil {
			var as []string
			var ks []string
			for a := range o.AccMeta {
				ks = append(ks, a)
			}
			sort.Strings(ks)
			for _, a := range ks {
				as = append(as, jsonStr(a)+":"+jsonMeta(o.AccMeta[a]))
			}
			fs = append(fs, `"accountMetadata":{`+strings.Join(as, ",")+`}`)
		}
		if o.Force && !o.Script {
			if len(o.Post)%2 == 1 {
				fs = append(fs, `"force":true`)
			} else {
				q.Set("force", "true")
			}
		}
		method, path, body = "POST", base+"/transactions", "{"+strings.Join(fs, ",")+"}"
	case "revert":
		if o.Force {
			q.Set("force", "true")
		}
		if o.AtEff {
			q.Set("atEffectiveDate", "true")
		}
		method, path = "POST", fmt.Sprintf("%s/transactions/%d/revert", base, o.TxID)
		if len(o.Meta) > 0 {
			body = `{"metadata":` + jsonMeta(o.Meta) + `}`
		}
	case "setmeta":
		method, body = "POST", jsonMeta(o.Meta)
		if o.IsAcc {
			path = base + "/accounts/" + url.PathEscape(o.TgtAcc) + "/metadata"
		} else {
			path = fmt.Sprintf("%s/transactions/%d/metadata", base, o.TxID)
		}
	case "delmeta":
		method = "DELETE"
		if o.IsAcc {
			path = base + "/accounts/" + url.PathEscape(o.TgtAcc) + "/metadata/" + url.PathEscape(o.Key)
		} else {
			path = fmt.Sprintf("%s/transactions/%d/metadata/%s", base, o.TxID, url.PathEscape(o.Key))
		}
	}
	if len(q) > 0 {
		path += "?" + q.Encode()
	}
	return
}

// scriptJSON: the "script" member of a create request whose Numscript also sets metadata: the text TxToScriptData
// renders for the postings (its variables go into "vars") followed by the set_tx_meta / set_account_meta lines
func scriptJSON(o Op, force bool) string {
	td := ledger.TransactionData{}
	for _, p := range o.Post {
		td.Postings = append(td.Postings, ledger.NewPosting(p.Src, p.Dst, p.Asset, new(big.Int).Set(p.Amt)))
	}
	rs := ledgercontroller.TxToScriptData(td, force)
	var names []string
	for k := range rs.Script.Vars {
		names = append(names, k)
	}
	sort.Strings(names)
	var vs []string
	for _, k := range names {
		vs = append(vs, jsonStr(k)+":"+jsonStr(rs.Script.Vars[k]))
	}
	return `{"plain":` + jsonStr(o.scriptText(rs.Script.Plain)) + `,"vars":{` + strings.Join(vs, ",") + `}}`
}

func (h *httpAPI) runOp(ledgerName string, o Op) (res OpResult) {
	method, path, hdr, body := httpRequestOf(ledgerName, o)
	resp := h.do(method, path, hdr, body)
	res.HTTP = true
	if resp.Code == 599 {
		res.Panic = string(resp.Body)
		return res
	}
	if resp.Code >= 300 {
		res.Class = resp.errClass()
		return res
	}
	res.Class = "none"
	res.Hit = resp.Hdr.Get("Idempotency-Hit") == "true"
	res.Status = resp.Code // compared with HttpView.success_status through the model's answer
	if o.Kind == "create" || o.Kind == "revert" {
		var env struct {
			Data struct {
				ID *int64 `json:"id"`
			} `json:"data"`
		}
		dec := json.NewDecoder(bytes.NewReader(resp.Body))
		if err := dec.Decode(&env); err != nil || env.Data.ID == nil {
			res.Class = "200:undecodable-body " + short(resp.Body)
			return res
		}
		res.TxID = env.Data.ID
		res.Body = resp.Body
	}
	return res
}

// ---------------------------------------------------------------- reads through the API

type jNum = json.Number

type jVolumes struct {
	Input, Output, Balance jNum
}

func (v *jVolumes) UnmarshalJSON(b []byte) error { // numbers, or strings under Formance-Bigint-As-String
	var raw map[string]any
	d := json.NewDecoder(bytes.NewReader(b))
	d.UseNumber()
	if err := d.Decode(&raw); err != nil {
		return err
	}
	get := func(k string) jNum {
		switch x := raw[k].(type) {
		case json.Number:
			return x
		case string:
			return jNum(x)
		}
		return jNum("?" + fmt.Sprint(raw[k]))
	}
	v.Input, v.Output, v.Balance = get("input"), get("output"), get("balance")
	return nil
}

type jAmount string

func (a *jAmount) UnmarshalJSON(b []byte) error {
	s := strings.TrimSpace(string(b))
	if strings.HasPrefix(s, `"`) {
		var t string
		if err := json.Unmarshal(b, &t); err != nil {
			return err
		}
		s = t
	}
	*a = jAmount(s)
	return nil
}

type jTx struct {
	ID       int64 `json:"id"`
	Postings []struct {
		Source, Destination, Asset string
		Amount                     jAmount
	} `json:"postings"`
	Metadata                   map[string]string              `json:"metadata"`
	Timestamp                  time.Time                      `json:"timestamp"`
	InsertedAt                 time.Time                      `json:"insertedAt"`
	UpdatedAt                  time.Time                      `json:"updatedAt"`
	Reference                  string                         `json:"reference"`
	RevertedAt                 *time.Time                     `json:"revertedAt"`
	Reverted                   bool                           `json:"reverted"`
	PostCommitVolumes          map[string]map[string]jVolumes `json:"postCommitVolumes"`
	PostCommitEffectiveVolumes map[string]map[string]jVolumes `json:"postCommitEffectiveVolumes"`
	PreCommitVolumes           map[string]map[string]jVolumes `json:"preCommitVolumes"`
}

type jAcc struct {
	Address       string              `json:"address"`
	Metadata      map[string]string   `json:"metadata"`
	FirstUsage    time.Time           `json:"firstUsage"`
	InsertionDate time.Time           `json:"insertionDate"`
	UpdatedAt     time.Time           `json:"updatedAt"`
	Volumes       map[string]jVolumes `json:"volumes"`
}

type jCursor[T any] struct {
	Cursor struct {
		PageSize int    `json:"pageSize"`
		HasMore  bool   `json:"hasMore"`
		Next     string `json:"next"`
		Data     []T    `json:"data"`
	} `json:"cursor"`
}

func v4of(m map[string]map[string]jVolumes) [][4]string {
	var out [][4]string
	for a, by := range m {
		for c, v := range by {
			out = append(out, [4]string{a, c, string(v.Input), string(v.Output)})
		}
	}
	sort.Slice(out, func(i, j int) bool {
		if out[i][0] != out[j][0] {
			return out[i][0] < out[j][0]
		}
		return out[i][1] < out[j][1]
	})
	return out
}

// httpListAll follows the next cursors of a v2 listing; every page must honour the page size of the first request
func httpListAll[T any](h *httpAPI, path string, q url.Values, size int) ([]T, error) {
	var out []T
	q.Set("pageSize", fmt.Sprint(size))
	first := true
	for n := 0; n < 10000; n++ {
		resp := h.do("GET", path+"?"+q.Encode(), nil, "")
		if resp.Code != 200 {
			return nil, fmt.Errorf("GET %s?%s: %d %s", path, q.Encode(), resp.Code, short(resp.Body))
		}
		var c jCursor[T]
		d := json.NewDecoder(bytes.NewReader(resp.Body))
		if err := d.Decode(&c); err != nil {
			return nil, fmt.Errorf("GET %s: %w in %s", path, err, short(resp.Body))
		}
		if c.Cursor.PageSize != size {
			return nil, fmt.Errorf("GET %s?%s: page size %d in the answer, %d requested on the first page [http-page-size]", path, q.Encode(), c.Cursor.PageSize, size)
		}
		if len(c.Cursor.Data) > size {
			return nil, fmt.Errorf("GET %s?%s: %d entries on a page of size %d [http-page-size]", path, q.Encode(), len(c.Cursor.Data), size)
		}
		out = append(out, c.Cursor.Data...)
		if !c.Cursor.HasMore {
			return out, nil
		}
		if first {
			first = false
		}
		q = url.Values{"cursor": {c.Cursor.Next}} // a cursor carries the whole query, page size included
	}
	return nil, fmt.Errorf("GET %s: cursor chain does not end", path)
}

// SnapshotHTTP: the observable state of a ledger through the v2 read endpoints (+ the same raw tables as Snapshot)
func (st *Stack) SnapshotHTTP(h *httpAPI, name string, f Feat) (s Snap) {
	defer func() {
		if r := recover(); r != nil {
			s.Err = fmt.Sprint("panic in reads: ", r)
		}
	}()
	fail := func(err error) Snap {
		s.Err = err.Error()
		return s
	}
	base := "/v2/" + name
	type jVol struct {
		Account, Asset string
		jVolumes
	}
	vols, err := httpListAll[json.RawMessage](h, base+"/volumes", url.Values{}, 7)
	if err != nil {
		return fail(err)
	}
	for _, raw := range vols {
		var id struct{ Account, Asset string }
		var v jVolumes
		if err := json.Unmarshal(raw, &id); err != nil {
			return fail(err)
		}
		if err := json.Unmarshal(raw, &v); err != nil {
			return fail(err)
		}
		s.Vols = append(s.Vols, [4]string{id.Account, id.Asset, string(v.Input), string(v.Output)})
	}
	expand := "volumes"
	if f.Moves && f.PCEV {
		expand = "volumes,effectiveVolumes"
	}
	txs, err := httpListAll[jTx](h, base+"/transactions", url.Values{"sort": {"id:asc"}, "expand": {expand}}, 5)
	if err != nil {
		return fail(err)
	}
	for _, t := range txs {
		x := SnapTx{ID: t.ID, Meta: sortKV(t.Metadata), TS: us(t.Timestamp), Ins: us(t.InsertedAt), Upd: us(t.UpdatedAt), Ref: t.Reference,
			PCV: v4of(t.PostCommitVolumes), PCEV: v4of(t.PostCommitEffectiveVolumes), HasPCEV: f.Moves && f.PCEV}
		for _, p := range t.Postings {
			x.Post = append(x.Post, Posting{p.Source, p.Destination, p.Asset, bigOf(string(p.Amount))})
		}
		if t.RevertedAt != nil {
			v := us(*t.RevertedAt)
			x.Rev = &v
		}
		if t.Reverted != (t.RevertedAt != nil) {
			return fail(fmt.Errorf("transaction %d: reverted=%v but revertedAt present=%v [http-reverted-flag]", t.ID, t.Reverted, t.RevertedAt != nil))
		}
		s.Txs = append(s.Txs, x)
	}
	aq := url.Values{"expand": {"volumes"}}
	accs, err := httpListAll[jAcc](h, base+"/accounts", aq, 4)
	if err != nil && !f.Moves {
		accs, err = httpListAll[jAcc](h, base+"/accounts", url.Values{}, 4)
	}
	if err != nil {
		return fail(err)
	}
	for _, a := range accs {
		x := SnapAcc{Addr: a.Address, Meta: sortKV(a.Metadata), First: us(a.FirstUsage), Ins: us(a.InsertionDate), Upd: us(a.UpdatedAt)}
		for c, v := range a.Volumes {
			x.Vols = append(x.Vols, [3]string{c, string(v.Input), string(v.Output)})
		}
		sort.Slice(x.Vols, func(i, j int) bool { return x.Vols[i][0] < x.Vols[j][0] })
		s.Accounts = append(s.Accounts, x)
	}
	type jLog struct {
		ID             int64     `json:"id"`
		Type           string    `json:"type"`
		Date           time.Time `json:"date"`
		IdempotencyKey string    `json:"idempotencyKey"`
		Hash           []byte    `json:"hash"`
	}
	logs, err := httpListAll[jLog](h, base+"/logs", url.Values{"sort": {"id:asc"}}, 6)
	if err != nil {
		return fail(err)
	}
	for _, l := range logs {
		s.Logs = append(s.Logs, SnapLog{ID: l.ID, Type: l.Type, Date: us(l.Date), IK: l.IdempotencyKey, Hash: l.Hash})
	}
	resp := h.do("GET", base+"/aggregate/balances", nil, "")
	if resp.Code != 200 {
		return fail(fmt.Errorf("aggregate/balances: %d %s", resp.Code, short(resp.Body)))
	}
	var agg struct {
		Data map[string]jAmount `json:"data"`
	}
	if err := json.Unmarshal(resp.Body, &agg); err != nil {
		return fail(err)
	}
	s.Agg = map[string]string{}
	for c, v := range agg.Data {
		s.Agg[c] = string(v)
	}
	st.rawTables(name, &s)
	return s
}

func bigOf(s string) *big.Int {
	n, ok := new(big.Int).SetString(s, 10)
	if !ok {
		panic("not an integer in an API answer: " + s)
	}
	return n
}

// checkWriteAnswer (monitor, no model involved): the transaction a committed create/revert answers with is the one the
// listing shows right after it (id, postings, metadata, timestamp, reference, post-commit volumes), and its
// preCommitVolumes are the post-commit volumes minus its own postings.
func (h *httpAPI) checkWriteAnswer(ledgerName string, o Op, res OpResult, s Snap) string {
	if res.Class != "none" || res.Body == nil || o.Dry || res.Hit || s.Err != "" {
		return ""
	}
	var env struct {
		Data jTx `json:"data"`
	}
	if err := json.Unmarshal(res.Body, &env); err != nil {
		return fmt.Sprintf("answer of %s does not decode as a transaction: %v [http-answer]", o.Kind, err)
	}
	t := env.Data
	var st *SnapTx
	for i := range s.Txs {
		if s.Txs[i].ID == t.ID {
			st = &s.Txs[i]
		}
	}
	if st == nil {
		return fmt.Sprintf("transaction %d answered by %s is not listed afterwards [http-answer]", t.ID, o.Kind)
	}
	x := SnapTx{ID: t.ID, Meta: sortKV(t.Metadata), TS: us(t.Timestamp), Ins: us(t.InsertedAt), Upd: us(t.UpdatedAt), Ref: t.Reference, PCV: v4of(t.PostCommitVolumes)}
	for _, p := range t.Postings {
		x.Post = append(x.Post, Posting{p.Source, p.Destination, p.Asset, bigOf(string(p.Amount))})
	}
	a := Snap{Txs: []SnapTx{x}}
	y := *st
	y.Rev, y.PCEV, y.HasPCEV = nil, nil, false
	b := Snap{Txs: []SnapTx{y}}
	if a.sx() != b.sx() {
		return fmt.Sprintf("transaction %d as answered by %s differs from the one listed right after [http-answer]: answered %s / listed %s", t.ID, o.Kind, diffAt(a.sx(), b.sx()), diffAt(b.sx(), a.sx()))
	}
	// preCommitVolumes = postCommitVolumes - own postings
	pre := map[[2]string][2]*big.Int{}
	for _, v := range x.PCV {
		pre[[2]string{v[0], v[1]}] = [2]*big.Int{bigOf(v[2]), bigOf(v[3])}
	}
	for _, p := range x.Post {
		if v, ok := pre[[2]string{p.Src, p.Asset}]; ok {
			v[1].Sub(v[1], p.Amt)
		}
		if v, ok := pre[[2]string{p.Dst, p.Asset}]; ok {
			v[0].Sub(v[0], p.Amt)
		}
	}
	for _, v := range v4of(t.PreCommitVolumes) {
		w, ok := pre[[2]string{v[0], v[1]}]
		if !ok || w[0].String() != v[2] || w[1].String() != v[3] {
			return fmt.Sprintf("transaction %d: preCommitVolumes of %s/%s are (%s,%s), post-commit minus own postings is %v [http-answer]", t.ID, v[0], v[1], v[2], v[3], w)
		}
	}
	return ""
}

// ---------------------------------------------------------------- schema histories through the API (C29 TIE-H)

// httpRequestOfS: a schema-history operation as a v2 request: POST /schemas/{version}, or a write carrying
// ?schemaVersion= and, for template transactions, {"script":{"template":..}} instead of postings
func httpRequestOfS(ledgerName string, so SOp) (method, path string, hdr map[string]string, body string) {
	if so.Schema {
		fs := []string{`"chart":` + so.Chart.text()}
		if len(so.Tpls) > 0 {
			var ts []string
			for _, t := range so.Tpls {
				ts = append(ts, fmt.Sprintf(`%s:{"description":%s,"script":%s}`, jsonStr(t.Name), jsonStr(t.Name), jsonStr(tplScript(t.Post))))
			}
			fs = append(fs, `"transactions":{`+strings.Join(ts, ",")+`}`)
		}
		return "POST", "/v2/" + ledgerName + "/schemas/" + url.PathEscape(so.Version), map[string]string{}, "{" + strings.Join(fs, ",") + "}"
	}
	o := so.Op
	method, path, hdr, body = httpRequestOf(ledgerName, o)
	if o.Kind == "create" && so.Tpl != "" {
		// replace the postings member by the template reference
		i := strings.Index(body, `"postings":[`)
		j := strings.Index(body[i:], "]") + i
		body = body[:i] + `"script":{"template":` + jsonStr(so.Tpl) + `,"vars":{}}` + body[j+1:]
	}
	if so.Version != "" {
		sep := "?"
		if strings.Contains(path, "?") {
			sep = "&"
		}
		path += sep + "schemaVersion=" + url.QueryEscape(so.Version)
	}
	return
}

func (h *httpAPI) runSOp(ledgerName string, so SOp) (res OpResult) {
	method, path, hdr, body := httpRequestOfS(ledgerName, so)
	resp := h.do(method, path, hdr, body)
	res.HTTP = true
	if resp.Code == 599 {
		res.Panic = string(resp.Body)
		return res
	}
	if resp.Code >= 300 {
		res.Class = resp.errClass()
		return res
	}
	res.Class = "none"
	res.Hit = resp.Hdr.Get("Idempotency-Hit") == "true"
	kind := so.Op.Kind
	if so.Schema {
		kind = "setmeta" // 204, no body
	}
	want := map[string]int{"create": 200, "revert": 201, "setmeta": 204, "delmeta": 204}[kind]
	if resp.Code != want {
		res.Class = fmt.Sprintf("%d:unexpected-success-status", resp.Code)
		return res
	}
	if kind == "create" || kind == "revert" {
		var env struct {
			Data struct {
				ID *int64 `json:"id"`
			} `json:"data"`
		}
		if err := json.Unmarshal(resp.Body, &env); err != nil || env.Data.ID == nil {
			res.Class = "200:undecodable-body " + short(resp.Body)
			return res
		}
		res.TxID = env.Data.ID
		res.Body = resp.Body
	}
	return res
}

// ---------------------------------------------------------------- the v1 API (writes as v1 requests; state read back through v2)

// v1Normalise: what a v1 request can express: no force / accountMetadata on create, no atEffectiveDate / metadata on revert
func v1Normalise(o Op) Op {
	switch o.Kind {
	case "create":
		o.Force, o.AccMeta = false, nil
	case "revert":
		o.AtEff, o.Meta = false, nil
	}
	return o
}

func v1RequestOf(ledgerName string, o Op) (method, path string, hdr map[string]string, body string) {
	hdr = map[string]string{}
	if o.IK != "" {
		hdr["Idempotency-Key"] = o.IK
	}
	q := url.Values{}
	if o.Dry {
		q.Set("preview", []string{"true", "yes", "1", "TRUE"}[len(o.IK)%4])
	}
	base := "/" + ledgerName
	switch o.Kind {
	case "create":
		var ps []string
		for _, p := range o.Post {
			ps = append(ps, fmt.Sprintf(`{"source":%s,"destination":%s,"asset":%s,"amount":%s}`, jsonStr(p.Src), jsonStr(p.Dst), jsonStr(p.Asset), p.Amt.String()))
		}
		fs := []string{`"postings":[` + strings.Join(ps, ",") + `]`}
		if o.Script { // the v1 script path of the same endpoint (no postings member)
			fs = []string{`"script":` + scriptJSON(o, false), `"metadata":` + jsonMeta(o.Meta)}
		} else if len(o.Meta) > 0 || len(o.Post)%2 == 0 {
			fs = append(fs, `"metadata":`+jsonMeta(o.Meta))
		}
		if o.TS != nil {
			fs = append(fs, `"timestamp":`+jsonStr(rfc3339us(*o.TS)))
		}
		if o.Ref != "" {
			fs = append(fs, `"reference":`+jsonStr(o.Ref))
		}
		method, path, body = "POST", base+"/transactions", "{"+strings.Join(fs, ",")+"}"
	case "revert":
		if o.Force {
			q.Set("disableChecks", "true")
		}
		method, path = "POST", fmt.Sprintf("%s/transactions/%d/revert", base, o.TxID)
	case "setmeta":
		method, body = "POST", jsonMeta(o.Meta)
		if o.IsAcc {
			path = base + "/accounts/" + url.PathEscape(o.TgtAcc) + "/metadata"
		} else {
			path = fmt.Sprintf("%s/transactions/%d/metadata", base, o.TxID)
		}
	case "delmeta":
		method = "DELETE"
		if o.IsAcc {
			path = base + "/accounts/" + url.PathEscape(o.TgtAcc) + "/metadata/" + url.PathEscape(o.Key)
		} else {
			path = fmt.Sprintf("%s/transactions/%d/metadata/%s", base, o.TxID, url.PathEscape(o.Key))
		}
	}
	if len(q) > 0 {
		path += "?" + q.Encode()
	}
	return
}

func (h *httpAPI) runOpV1(ledgerName string, o Op) (res OpResult) {
	method, path, hdr, body := v1RequestOf(ledgerName, o)
	resp := h.do(method, path, hdr, body)
	res.HTTP = true
	if resp.Code == 599 {
		res.Panic = string(resp.Body)
		return res
	}
	if resp.Code >= 300 {
		res.Class = resp.errClass()
		return res
	}
	res.Class = "none"
	res.Hit = resp.Hdr.Get("Idempotency-Hit") == "true"
	res.Status = resp.Code // compared with HttpView.success_status through the model's answer
	type v1tx struct {
		TxID     *int64 `json:"txid"`
		Postings []struct {
			Source, Destination, Asset string
			Amount                     jAmount
		} `json:"postings"`
	}
	var t v1tx
	switch o.Kind {
	case "create": // v1 answers with a one-element array
		var env struct {
			Data []v1tx `json:"data"`
		}
		if err := json.Unmarshal(resp.Body, &env); err != nil || len(env.Data) != 1 {
			res.Class = "200:undecodable-body " + short(resp.Body)
			return res
		}
		t = env.Data[0]
	case "revert":
		var env struct {
			Data v1tx `json:"data"`
		}
		if err := json.Unmarshal(resp.Body, &env); err != nil {
			res.Class = "201:undecodable-body " + short(resp.Body)
			return res
		}
		t = env.Data
	default:
		return res
	}
	if t.TxID == nil {
		res.Class = "200:no-txid " + short(resp.Body)
		return res
	}
	res.TxID = t.TxID
	// the postings of a created transaction are the submitted ones, digit for digit (v1 renders amounts as JSON numbers)
	if o.Kind == "create" {
		if len(t.Postings) != len(o.Post) {
			res.Class = "200:postings-differ"
			return res
		}
		for i, p := range t.Postings {
			q := o.Post[i]
			if p.Source != q.Src || p.Destination != q.Dst || p.Asset != q.Asset || string(p.Amount) != q.Amt.String() {
				res.Class = fmt.Sprintf("200:postings-differ at %d: %v", i, p)
				return res
			}
		}
	}
	return res
}
