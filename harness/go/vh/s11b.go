//go:build verif

package main

import (
	"context"
	"encoding/json"
	"fmt"

	"github.com/formancehq/go-libs/v5/pkg/types/metadata"

	ledger "github.com/formancehq/ledger/internal"
	ledgercontroller "github.com/formancehq/ledger/internal/controller/ledger"
	"github.com/formancehq/ledger/internal/storage/common"
)

// Suspect S-11b (C11): export -> import of a ledger whose account was CREATED by a metadata-only write under a schema.
// Prints the account metadata in the source and in the copy; exit status 1 when they differ.
func init() { commands["s11b"] = cmdS11b }

func cmdS11b(args []string) int {
	st := NewStack(StackOpts{Mode: ledgercontroller.SchemaEnforcementStrict})
	ctx := context.Background()
	for _, l := range []string{"src", "copy"} {
		must(st.Sys.CreateLedger(ctx, l, ledger.Configuration{Bucket: "_default", Features: allOn.set()}))
	}
	src, err := st.Sys.GetLedgerController(ctx, "src")
	must(err)
	var chart ledger.ChartOfAccounts
	must(json.Unmarshal([]byte(`{"users": {"$id": {".pattern": "^[0-9]+$", ".metadata": {"role": {"default": "user"}}}}, "world": {}}`), &chart))
	_, _, _, err = src.InsertSchema(ctx, ledgercontroller.Parameters[ledgercontroller.InsertSchema]{Input: ledgercontroller.InsertSchema{Version: "v1", Data: ledger.SchemaData{Chart: chart}}})
	must(err)
	st.Tick(1000000)
	_, _, err = src.SaveAccountMetadata(ctx, ledgercontroller.Parameters[ledgercontroller.SaveAccountMetadata]{SchemaVersion: "v1",
		Input: ledgercontroller.SaveAccountMetadata{Address: "users:42", Metadata: metadata.Metadata{"k1": "v1"}}})
	must(err)
	var logs []ledger.Log
	must(src.Export(ctx, ledgercontroller.ExportWriterFn(func(ctx context.Context, l ledger.Log) error { logs = append(logs, l); return nil })))
	cp, err := st.Sys.GetLedgerController(ctx, "copy")
	must(err)
	ch := make(chan ledger.Log, len(logs))
	for _, l := range logs {
		ch <- l
	}
	close(ch)
	if err := cp.Import(ctx, ch); err != nil {
		fmt.Println("import error:", err)
		return 2
	}
	find := func(c ledgercontroller.Controller) ledger.Account {
		accs, err := listAll(ctx, c.ListAccounts, common.InitialPaginatedQuery[any]{PageSize: 10})
		must(err)
		for _, a := range accs {
			if a.Address == "users:42" {
				return a
			}
		}
		panic("account users:42 not found")
	}
	a1, a2 := find(src), find(cp)
	fmt.Printf("logs exported: %d\nsource users:42 metadata: %v\ncopy   users:42 metadata: %v\n", len(logs), sortKV(a1.Metadata), sortKV(a2.Metadata))
	if fmt.Sprint(sortKV(a1.Metadata)) != fmt.Sprint(sortKV(a2.Metadata)) {
		fmt.Println("DIFFERENT: the copy lacks the chart default metadata [import-loses-default-metadata]")
		return 1
	}
	return 0
}
