//go:build verif

package main

import (
	"os"
	"context"
	"encoding/json"
	"fmt"
	"math/big"
	"strings"

	ledger "github.com/formancehq/ledger/internal"
	"github.com/formancehq/ledger/internal/api/bulking"
	ledgercontroller "github.com/formancehq/ledger/internal/controller/ledger"
	"github.com/formancehq/ledger/internal/verifh/pgsem"
)

// events (TIE-F, property C31): the real stack (state tracker facade -> ControllerWithEvents -> ... -> store on pgsem)
// with a recording listener; write kind x context x outcome (incl. every statement-fault position and COMMIT failure)
// + random histories.  Case = abstract operations for Ledger/Events.v (+ the concrete operations for replay);
// impl line = canonical trace; the model (ocaml/eventsrun.ml) must print the same trace.  The C31 monitor runs on the
// implementation's trace alone.
func init() { commands["events"] = cmdEvents }

type evFault struct {
	Kind string // none stmt commit cancel_stmt cancel_commit
	N    int
}

func (f evFault) sx() string {
	if f.Kind == "none" || f.Kind == "" {
		return "none"
	}
	return L(f.Kind, fmt.Sprint(f.N))
}

type evStep struct {
	Bulk   bool
	Atomic bool
	Cont   bool
	Ops    []Op // 1 op when !Bulk
	Fault  evFault
	Exp    []string // per op: ok | fail | obs  (what the write itself does, by construction; obs = take it from the result)
}

type evCase struct {
	Snapshots bool // C07 view: compare the ledger snapshot around every cancelled step
	Init  bool // ledger still initializing when the steps start
	Prep  []Op // executed first (through the controller) when !Init, untraced
	Steps []evStep
}

func opsSx(ops []Op) string {
	s := make([]string, len(ops))
	for i, o := range ops {
		s[i] = o.sx()
	}
	return L(s...)
}

func (c evCase) concreteSx() string {
	steps := make([]string, len(c.Steps))
	for i, s := range c.Steps {
		k := "single"
		if s.Bulk {
			k = "bulk"
		}
		steps[i] = L(k, b01(s.Atomic), b01(s.Cont), opsSx(s.Ops), s.Fault.sx(), L(s.Exp...))
	}
	return L("concrete", opsSx(c.Prep), L(steps...))
}

func parseEvCase(line string) evCase {
	sx, err := ParseSx(line)
	must(err)
	var c evCase
	c.Init = sx.List[1].Atom == "1"
	conc := sx.List[4]
	ops := func(x *Sx) []Op {
		var items []string
		for _, e := range x.List {
			items = append(items, sxString(e))
		}
		_, o := parseHistCase(L("hist", allOn.sx(), L(items...)))
		return o
	}
	c.Prep = ops(conc.List[1])
	for _, s := range conc.List[2].List {
		st := evStep{Bulk: s.List[0].Atom == "bulk", Atomic: s.List[1].Atom == "1", Cont: s.List[2].Atom == "1", Ops: ops(s.List[3])}
		if f := s.List[4]; f.IsLst {
			st.Fault = evFault{f.List[0].Atom, int(atoi(f.List[1].Atom))}
		} else {
			st.Fault = evFault{Kind: "none"}
		}
		for _, e := range s.List[5].List {
			st.Exp = append(st.Exp, e.Atom)
		}
		c.Steps = append(c.Steps, st)
	}
	return c
}

func sxString(s *Sx) string {
	if s.IsLst {
		items := make([]string, len(s.List))
		for i, e := range s.List {
			items[i] = sxString(e)
		}
		return L(items...)
	}
	if s.Str {
		return Q(s.Atom)
	}
	return s.Atom
}

// ---- execution
type evRun struct {
	Case      evCase
	Abstract  []string // abstract ops for the model
	Trace     []TraceItem
	InitAt    []bool // per step: ledger row still 'initializing' when the step started
	HitOp     []bool // per step: some result of the step was an idempotent replay
	StmtCount []int
	Results   [][]OpResult
	Note      string
	NextLog   int64
	C07       []string // snapshot monitor of cancelled steps
}

func ledgerInitializing(st *Stack) bool {
	s := st.PG.NewSession()
	defer s.Close()
	res, err := s.Exec(`select state from "_system".ledgers where name = 'l1'`)
	must(err)
	return len(res.Rows) == 1 && pgsem.TextOf(res.Rows[0][0]) == "initializing"
}

func eventDesc(o Op, r OpResult) string {
	switch o.Kind {
	case "create":
		return fmt.Sprintf("committed l1 %d", *r.TxID)
	case "revert":
		return fmt.Sprintf("reverted l1 %d %d", o.TxID, *r.TxID)
	case "setmeta":
		if o.IsAcc {
			return fmt.Sprintf("saved_metadata l1 %s %s", ledger.MetaTargetTypeAccount, o.TgtAcc)
		}
		return fmt.Sprintf("saved_metadata l1 %s %d", ledger.MetaTargetTypeTransaction, o.TxID)
	default:
		if o.IsAcc {
			return fmt.Sprintf("deleted_metadata l1 %s %s %s", ledger.MetaTargetTypeAccount, o.TgtAcc, o.Key)
		}
		return fmt.Sprintf("deleted_metadata l1 %s %d %s", ledger.MetaTargetTypeTransaction, o.TxID, o.Key)
	}
}

// bulk through the real Bulker with decoded elements; results in element order (sequential bulks only)
func runBulkDirect(ctx context.Context, ctrl ledgercontroller.Controller, ops []Op, atomic, cont bool) ([]OpResult, error) {
	var els []bulking.BulkElement
	must(json.Unmarshal([]byte(bulkBody(ops)), &els))
	send := make(bulking.Bulk, len(els))
	for _, e := range els {
		send <- e
	}
	close(send)
	recv := make(chan bulking.BulkElementResult, len(els))
	err := bulking.NewBulker(ctrl).Run(ctx, send, recv, bulking.BulkingOptions{Atomic: atomic, ContinueOnFailure: cont})
	var out []OpResult
	i := 0
	// Run has returned: nothing is sent any more. It closes the channel on its normal paths but returns early (channel left
	// open) when BeginTX itself fails, as the HTTP handler expects -- so drain without blocking.
	for {
		var r bulking.BulkElementResult
		var ok bool
		select {
		case r, ok = <-recv:
		default:
			ok = false
		}
		if !ok {
			break
		}
		var res OpResult
		if r.Error != nil {
			res.Class = classify(r.Error)
			if strings.Contains(r.Error.Error(), "context canceled") {
				res.Class = "cancelled"
			}
		} else {
			res.Class = "none"
			res.LogID = int64(r.LogID)
			if t, ok := r.Data.(ledger.Transaction); ok && t.ID != nil {
				id := int64(*t.ID)
				res.TxID = &id
			}
		}
		out = append(out, res)
		i++
	}
	return out, err
}

func runEvCase(c evCase) *evRun {
	st := NewStack(StackOpts{Listener: true})
	ctx := context.Background()
	must(st.Sys.CreateLedger(ctx, "l1", ledger.Configuration{Bucket: "_default", Features: allOn.set()}))
	ctrl, err := st.Sys.GetLedgerController(ctx, "l1")
	must(err)
	nextLog := int64(1)
	for _, o := range c.Prep {
		st.PG.Clock = pgsem.TS(o.Now)
		if res := runOp(ctx, ctrl, o); res.Class == "none" {
			nextLog = res.LogID + 1
		}
	}
	st.Events.Events, st.Events.Seqs = nil, nil
	tr := st.EnableTrace()
	run := &evRun{Case: c, NextLog: nextLog}
	type owner struct {
		desc string
		id   int64
		used bool
	}
	var owners []owner
	ikLog := map[string]int64{} // idempotency key -> log id of the committed write that first carried it
	seenLog := map[int64]bool{} // log ids returned by earlier successful writes: a later result with the same id is a replay
	for si, s := range c.Steps {
		tr.CurOp = si
		run.InitAt = append(run.InitAt, ledgerInitializing(st))
		tr.ResetCount()
		// every step is one request with its own context
		opCtx, cancel := context.WithCancel(ctx)
		isCancel := strings.HasPrefix(s.Fault.Kind, "cancel") && c.Snapshots
		before := ""
		if isCancel {
			before = st.Snapshot(ctx, ctrl, "l1", allOn).sx()
		}
		switch s.Fault.Kind {
		case "stmt":
			tr.FailStmtAt(s.Fault.N)
		case "commit":
			tr.FailCommitIn(s.Fault.N)
		case "cancel_stmt":
			tr.CancelAtStmt(s.Fault.N, cancel)
		case "cancel_commit":
			tr.CancelBeforeCommit(s.Fault.N, cancel)
		}
		tr.ResetCount()
		st.PG.Clock = pgsem.TS(s.Ops[0].Now)
		mark := len(tr.Items)
		var results []OpResult
		var runErr error
		if s.Bulk {
			results, runErr = runBulkDirect(opCtx, ctrl, s.Ops, s.Atomic, s.Cont)
		} else {
			results = []OpResult{runOp(opCtx, ctrl, s.Ops[0])}
		}
		// the rollback of a cancelled transaction is performed by database/sql's watcher goroutine: wait for pgsem to see it
		tr.WaitNoOpenTx("a transaction is still open after the operation returned")
		cancel()
		run.StmtCount = append(run.StmtCount, tr.Stmts)
		faultHit, faultInTx := tr.FaultHit, tr.FaultInTx
		if os.Getenv("VH_DEBUG") != "" {
			fmt.Fprintf(os.Stderr, "step %d fault=%s hit=%v intx=%v sql=%q stmts=%d\n", si, s.Fault.sx(), faultHit, faultInTx, tr.FaultSQL, tr.Stmts)
		}
		cancelHit, cancelOnLog := tr.CancelHit, tr.CancelOnLog
		cancelAssigned := false
		_ = o0(s.Ops)
		tr.Disarm()
		if isCancel {
			committed := false
			for _, it := range tr.Items[mark:] {
				if it.Kind == "commit" {
					committed = true
				}
			}
			if after := st.Snapshot(ctx, ctrl, "l1", allOn).sx(); !committed && after != before {
				run.C07 = append(run.C07, fmt.Sprintf("step %d: the request context was cancelled (%s) and no transaction committed, yet the ledger snapshot changed [cancelled-write-left-trace]", si, s.Fault.sx()))
			}
		}
		commitFailed := false
		for _, it := range tr.Items[mark:] {
			if it.Kind == "commit_fail" {
				commitFailed = true
			}
		}
		// an atomic bulk whose BeginTX fails (on an initializing ledger the facade's BeginTX runs the prelude of handleState --
		// ledger lock, state flip, sequence resync -- inside the transaction it has just begun): Run returns the error and no
		// element is processed.  In the model that is the prelude outcome of the bulk (Events.v: bprelude): fail, or cancel when
		// the context was cancelled there.
		beginFailed := s.Bulk && s.Atomic && runErr != nil && len(results) == 0
		prelude := "ok"
		if beginFailed {
			prelude = "fail"
			if s.Fault.Kind == "cancel_stmt" && cancelHit {
				prelude = "cancel"
			}
		}
		// a statement outside a transaction is not always BEFORE it: after a failed write under an idempotency key the log
		// processor looks the key up once more (errorOrIKOutcome); a fault there follows a begin ... rollback ("fail", not "early")
		stepBegan := false
		for _, it := range tr.Items[mark:] {
			if it.Kind == "begin" {
				stepBegan = true
			}
		}
		// abstract description of the step
		hit, stepFailed := false, beginFailed
		stepSeen := map[int64]bool{}
		outs := make([]string, len(s.Ops))
		hits := make([]bool, len(s.Ops))
		for i := range s.Ops {
			r := OpResult{Class: "cancelled"}
			if i < len(results) {
				r = results[i]
			}
			exp := "obs"
			if i < len(s.Exp) {
				exp = s.Exp[i]
			}
			isHit := r.Class == "none" && (r.Hit || seenLog[r.LogID] || stepSeen[r.LogID])
			if r.Class == "none" && !s.Ops[i].Dry {
				stepSeen[r.LogID] = true // a later element of the same bulk answering with this log id is a replay
			}
			injCommit := strings.Contains(r.Class, "injected COMMIT failure")
			injStmt := strings.Contains(r.Class, "injected statement failure")
			txDone := strings.Contains(r.Class, "transaction has already been committed or rolled back")
			ctxCancelled := r.Class == "cancelled" || strings.Contains(r.Class, "context canceled")
			switch {
			case beginFailed:
				outs[i] = "ok" // never executed: irrelevant to the model
			case exp == "ok" || exp == "fail":
				outs[i] = exp
				if (r.Class == "none") != (exp == "ok") && r.Class != "cancelled" {
					run.Note += fmt.Sprintf(" step %d element %d: expected %s, got %s;", si, i, exp, r.Class)
				}
			case isHit:
				outs[i] = L("hit", fmt.Sprint(r.LogID))
			case r.Class == "none":
				outs[i] = "ok"
			case s.Fault.Kind == "cancel_stmt" && cancelHit && !cancelAssigned && ctxCancelled:
				outs[i] = L("cancel", b01(cancelOnLog)) // the element that was running when the context was cancelled
				cancelAssigned = true
			case r.Class == "cancelled" || (cancelHit && ctxCancelled):
				outs[i] = "ok" // never executed: irrelevant to the model
			case txDone && cancelHit:
				outs[i] = "ok" // the write itself succeeded; the context was cancelled before its COMMIT (sql.ErrTxDone)
			case injCommit && s.Ops[i].IK != "" && ikLog[s.Ops[i].IK] > 0:
				// a replay of a committed request whose transaction (the facade's, on a ledger it still holds as initializing)
				// failed to COMMIT: the answer is the error, but what ran was the replay -- nothing was written
				outs[i] = L("hit", fmt.Sprint(ikLog[s.Ops[i].IK]))
				isHit = true
			case injCommit:
				outs[i] = "ok" // the write itself succeeded; its COMMIT failed
			case injStmt && faultHit && !faultInTx && !stepBegan:
				outs[i] = "early"
			default:
				outs[i] = "fail"
			}
			if isHit {
				hit = true
				hits[i] = true
			}
			if r.Class != "none" && r.Class != "cancelled" {
				stepFailed = true
			}
		}
		// ground truth from pgsem: an atomic bulk whose transaction never reached a successful COMMIT (e.g. the request
		// context was cancelled before it: database/sql answers the Commit call itself) left nothing that could own an event
		stepCommitted := false
		for _, it := range tr.Items[mark:] {
			if it.Kind == "commit" {
				stepCommitted = true
			}
		}
		rolledBack := s.Bulk && s.Atomic && (stepFailed || commitFailed || !stepCommitted)
		for i, o := range s.Ops {
			if i >= len(results) {
				break
			}
			r := results[i]
			// a replay under an idempotency key wrote nothing: it owns no event (an event it publishes all the same finds no
			// unused owner below and is reported as published twice)
			if r.Class == "none" && !o.Dry && !rolledBack && !hits[i] && (r.TxID != nil || (o.Kind != "create" && o.Kind != "revert")) {
				owners = append(owners, owner{desc: eventDesc(o, r), id: r.LogID})
			}
			if r.Class == "none" && !o.Dry {
				seenLog[r.LogID] = true
			}
			if r.Class == "none" && !o.Dry && !rolledBack && o.IK != "" && ikLog[o.IK] == 0 {
				ikLog[o.IK] = r.LogID
			}
		}
		run.HitOp = append(run.HitOp, hit)
		run.Results = append(run.Results, results)
		if s.Fault.Kind == "commit" {
			run.Abstract = append(run.Abstract, L("failcommit", fmt.Sprint(s.Fault.N)))
		}
		if s.Fault.Kind == "cancel_commit" {
			run.Abstract = append(run.Abstract, L("cancelcommit", fmt.Sprint(s.Fault.N)))
		}
		if s.Bulk {
			run.Abstract = append(run.Abstract, L("bulk", b01(s.Atomic), b01(s.Cont), prelude, L(outs...)))
		} else {
			run.Abstract = append(run.Abstract, L("w", b01(s.Ops[0].Dry), outs[0]))
		}
		if s.Fault.Kind == "commit" || s.Fault.Kind == "cancel_commit" {
			// the model's switch stays armed when no COMMIT consumed it; the harness disarms after the step
			run.Abstract = append(run.Abstract, L("disarm"))
		}
	}
	// resolve listener calls to log ids: k-th call with a descriptor <-> k-th successful non-dry write with that descriptor
	items := append([]TraceItem{}, tr.Items...)
	lastLog := int64(0)
	for i := range items {
		it := &items[i]
		if it.Kind == "log" {
			lastLog = it.ID
		}
		if it.Kind != "pub" {
			continue
		}
		found := -1
		for j := range owners {
			if owners[j].desc == it.Desc && !owners[j].used {
				found = j
				break
			}
		}
		if found < 0 {
			for j := range owners {
				if owners[j].desc == it.Desc {
					found = j
				}
			}
		}
		if found >= 0 {
			owners[found].used = true
			it.ID = owners[found].id
		} else {
			it.ID = lastLog // the operation that published returned an error (e.g. its COMMIT failed afterwards)
		}
	}
	run.Trace = items
	return run
}

func o0(ops []Op) Op { return ops[0] }

func traceSx(items []TraceItem) string {
	out := []string{"trace"}
	for _, it := range items {
		switch it.Kind {
		case "log":
			out = append(out, L("log", fmt.Sprint(it.ID)))
		case "pub":
			out = append(out, L("pub", fmt.Sprint(it.ID)))
		default:
			out = append(out, it.Kind)
		}
	}
	return L(out...)
}

func (r *evRun) caseSx() string {
	return L("ev", b01(r.InitAt0()), fmt.Sprint(r.NextLog), L(r.Abstract...), r.Case.concreteSx())
}
func (r *evRun) InitAt0() bool { return len(r.InitAt) > 0 && r.InitAt[0] }

// ---- monitor C31 on the implementation's trace (independent of the model)
func monitorC31(r *evRun) []string {
	var msgs []string
	open := false
	var pending, ready []int64
	has := func(l []int64, x int64) int {
		for i, y := range l {
			if y == x {
				return i
			}
		}
		return -1
	}
	seen := map[string]bool{}
	early := map[int64]bool{}
	say := func(m string) {
		if !seen[m] {
			seen[m] = true
			msgs = append(msgs, m)
		}
	}
	for _, it := range r.Trace {
		switch it.Kind {
		case "begin":
			if open {
				say("two top-level transactions open at once [malformed-trace]")
			}
			open, pending = true, nil
		case "log":
			if !open {
				say(fmt.Sprintf("log %d appended outside a transaction [malformed-trace]", it.ID))
			}
			pending = append(pending, it.ID)
		case "commit":
			for _, id := range pending {
				if !early[id] { // an event already delivered before the commit is reported once, as [event-before-commit]
					ready = append(ready, id)
				}
			}
			open, pending = false, nil
		case "commit_fail", "rollback":
			open, pending = false, nil
		case "pub":
			if i := has(ready, it.ID); i >= 0 {
				ready = append(ready[:i:i], ready[i+1:]...)
			} else if has(pending, it.ID) >= 0 {
				ctxTag := "[event-before-commit]"
				early[it.ID] = true
				say(fmt.Sprintf("event %q (log %d) published at commit-seq %d while the transaction that wrote the log is still open %s", it.Desc, it.ID, it.Seq, ctxTag))
			} else {
				// covers the event of a rolled-back / commit-failed write, a second event for a committed write and the
				// re-publication by an idempotent replay (repaired: KF-C31-replay-republishes)
				tag := "[event-without-commit]"
				if it.Op < len(r.HitOp) && r.HitOp[it.Op] {
					tag = "[event-without-commit] (the operation is an idempotent replay)"
				}
				say(fmt.Sprintf("event %q (log %d) published although no committed, not yet published write stands for it %s", it.Desc, it.ID, tag))
			}
		}
	}
	if len(ready) > 0 {
		say(fmt.Sprintf("committed logs %v never published [missing-event]", ready))
	}
	return msgs
}

// ---- generators
var evKinds = []string{"create", "revert", "setmeta_tx", "delmeta_tx", "setmeta_acc", "delmeta_acc"}

const evBase = int64(1700000000) * 1000000

func mkCreate(src, dst string, amt int64, now int64) Op {
	return Op{Kind: "create", Post: []Posting{{src, dst, "USD", big.NewInt(amt)}}, Now: now}
}

// the write under test, as an Op; prep creates tx 1 (world->alice 100, metadata k1) and tx 2 (world->bob 50)
func evWrite(kind string, fail bool, now int64) (Op, bool) {
	o := Op{Now: now}
	switch kind {
	case "create":
		o = mkCreate("world", "carol", 7, now)
		if fail {
			o = mkCreate("nobody", "carol", 7, now)
		}
	case "revert":
		o.Kind, o.TxID = "revert", 2
		if fail {
			o.TxID = 99
		}
	case "setmeta_tx":
		o.Kind, o.TxID, o.Meta = "setmeta", 1, []KV{{"role", "x"}}
		if fail {
			o.TxID = 99
		}
	case "delmeta_tx":
		o.Kind, o.TxID, o.Key = "delmeta", 1, "k1"
		if fail {
			o.TxID = 99
		}
	case "setmeta_acc":
		o.Kind, o.IsAcc, o.TgtAcc, o.Meta = "setmeta", true, "alice", []KV{{"role", "x"}}
		if fail {
			return o, false
		}
	case "delmeta_acc":
		o.Kind, o.IsAcc, o.TgtAcc, o.Key = "delmeta", true, "alice", "k1"
		if fail {
			return o, false
		}
	}
	return o, true
}

func evPrep() []Op {
	a := mkCreate("world", "alice", 100, evBase+1000000)
	a.Meta = []KV{{"k1", "v1"}}
	b := mkCreate("world", "bob", 50, evBase+2000000)
	return []Op{a, b}
}

func cmdEvents(args []string) int {
	f := ParseFlags(args)
	out := NewOut(f.Out)
	defer out.Close()
	finish := func(r *evRun, label string) {
		cs := r.caseSx()
		impl := traceSx(r.Trace)
		if r.Note != "" {
			impl = L("unexpected", Q(r.Note), impl)
		}
		out.Case(cs, impl)
		out.Stats["cases"]++
		out.Stats["ctx_"+label]++
		npub := 0
		for _, it := range r.Trace {
			if it.Kind == "pub" {
				npub++
			}
			out.Stats["act_"+it.Kind]++
		}
		if npub > 0 {
			out.Stats["distinct_nontrivial"]++
		}
		for _, m := range monitorC31(r) {
			out.Violation("C31", cs, m)
		}
		for _, m := range r.C07 {
			out.Violation("C07", cs, m)
		}
	}
	only := f.Extra["faults"] // "cancel": only the cancellation faults, with ledger snapshots around them (the C07 view)
	run0 := runEvCase
	runEvCase := func(c evCase) *evRun {
		c.Snapshots = only == "cancel" || f.Replay != "" || f.N >= 400
		return run0(c)
	}
	want := func(kind string) bool { return only == "" || (only == "cancel" && strings.HasPrefix(kind, "cancel")) }
	if f.Replay != "" {
		for _, line := range ReadLines(f.Replay) {
			finish(runEvCase(parseEvCase(line)), "replay")
		}
		return 0
	}
	now := evBase + 10*1000000
	step := func(ctx string, o Op, fault evFault, exp string) (evCase, bool) {
		c := evCase{}
		okEl1, okEl2 := mkCreate("world", "dave", 3, now), mkCreate("world", "erin", 4, now)
		switch ctx {
		case "plain":
			c.Prep = evPrep()
			c.Steps = []evStep{{Ops: []Op{o}, Fault: fault, Exp: []string{exp}}}
		case "first":
			c.Init = true
			c.Steps = []evStep{{Ops: []Op{o}, Fault: fault, Exp: []string{exp}}}
		case "atomic", "nonatomic", "atomic_cont", "nonatomic_cont":
			if o.Dry {
				return c, false
			}
			c.Prep = evPrep()
			c.Steps = []evStep{{Bulk: true, Atomic: strings.HasPrefix(ctx, "atomic"), Cont: strings.HasSuffix(ctx, "_cont"), Ops: []Op{okEl1, o, okEl2}, Fault: fault, Exp: []string{"ok", exp, "ok"}}}
		case "atomic_init", "nonatomic_init":
			if o.Dry || (o.Kind != "create" && !o.IsAcc) {
				return c, false
			}
			c.Init = true
			c.Steps = []evStep{{Bulk: true, Atomic: ctx == "atomic_init", Ops: []Op{okEl1, o, okEl2}, Fault: fault, Exp: []string{"ok", exp, "ok"}}}
		}
		return c, true
	}
	contexts := []string{"plain", "first", "atomic", "nonatomic", "atomic_cont", "nonatomic_cont", "atomic_init", "nonatomic_init"}
	// ---- the grid
	for _, kind := range evKinds {
		for _, ctx := range contexts {
			// on a fresh ledger there is no transaction to revert or annotate: those writes can only fail there
			needsTx := kind == "revert" || kind == "setmeta_tx" || kind == "delmeta_tx"
			fresh := ctx == "first" || strings.HasSuffix(ctx, "_init")
			okW, _ := evWrite(kind, false, now)
			failW, hasFail := evWrite(kind, true, now)
			if !(needsTx && fresh) {
				// ok
				if c, ok := step(ctx, okW, evFault{Kind: "none"}, "ok"); ok {
					r := runEvCase(c)
					if want("none") {
						finish(r, ctx)
					}
					// every statement-fault position of this step
					K := r.StmtCount[0]
					stride := 1
					if f.N < 400 && K > 12 {
						stride = 2
					}
					obs := func(c evCase) evCase {
						for i := range c.Steps[0].Exp {
							c.Steps[0].Exp[i] = "obs"
						}
						return c
					}
					// the context is cancelled at every statement index, and right before every COMMIT
					cstride := stride
					if f.N < 400 && only == "" {
						cstride = 2 // quick tier of C31: every other statement (the C07 tie and the thorough tier visit all)
					}
					for k := 1 + (len(kind)+len(ctx))%cstride; k <= K && want("cancel_stmt"); k += cstride {
						c4, _ := step(ctx, okW, evFault{"cancel_stmt", k}, "obs")
						finish(runEvCase(obs(c4)), ctx+"_cancelstmt")
						out.Stats["cancel_positions"]++
					}
					ncc := 1
					if strings.HasPrefix(ctx, "nonatomic") {
						ncc = 3
					}
					for n := 0; n < ncc && want("cancel_commit"); n++ {
						c5, _ := step(ctx, okW, evFault{"cancel_commit", n}, "obs")
						finish(runEvCase(obs(c5)), ctx+"_cancelcommit")
						out.Stats["cancel_positions"]++
					}
					for k := 1; k <= K && want("stmt"); k += stride {
						c2, _ := step(ctx, okW, evFault{"stmt", k}, "obs")
						for i := range c2.Steps[0].Exp {
							c2.Steps[0].Exp[i] = "obs"
						}
						finish(runEvCase(c2), ctx+"_stmtfault")
						out.Stats["fault_positions"]++
					}
					// COMMIT failures
					ncommit := 1
					if strings.HasPrefix(ctx, "nonatomic") {
						ncommit = 3
					}
					for n := 0; n < ncommit && want("commit"); n++ {
						c3, _ := step(ctx, okW, evFault{"commit", n}, "obs")
						for i := range c3.Steps[0].Exp {
							c3.Steps[0].Exp[i] = "obs"
						}
						finish(runEvCase(c3), ctx+"_commitfault")
					}
				}
				// dry run
				dry := okW
				dry.Dry = true
				if c, ok := step(ctx, dry, evFault{Kind: "none"}, "ok"); ok && want("none") {
					finish(runEvCase(c), ctx+"_dry")
				}
			}
			// idempotent replay of the same request (single contexts)
			if (ctx == "plain" || (ctx == "first" && !needsTx)) && want("none") {
				w1 := okW
				w1.IK = "ik-replay"
				w2 := w1
				w2.Now = now + 1000000
				if c, ok := step(ctx, w1, evFault{Kind: "none"}, "ok"); ok {
					c.Steps = append(c.Steps, evStep{Ops: []Op{w2}, Fault: evFault{Kind: "none"}, Exp: []string{"obs"}})
					finish(runEvCase(c), ctx+"_replay")
					// dry-run replay
					w3 := w2
					w3.Dry = true
					c.Steps[1] = evStep{Ops: []Op{w3}, Fault: evFault{Kind: "none"}, Exp: []string{"obs"}}
					finish(runEvCase(c), ctx+"_replay")
				}
			}
			// the same request twice inside one bulk (second element answered from the first one's log), then once more alone
			if strings.Contains(ctx, "atomic") && !(needsTx && fresh) && kind != "revert" && want("none") {
				w1 := okW
				w1.IK = "ik-replay"
				if c, ok := step(ctx, w1, evFault{Kind: "none"}, "ok"); ok {
					c.Steps[0].Ops[0] = w1
					c.Steps[0].Exp = []string{"ok", "obs", "ok"}
					w2 := w1
					w2.Now = now + 1000000
					c.Steps = append(c.Steps, evStep{Bulk: true, Ops: []Op{w2}, Fault: evFault{Kind: "none"}, Exp: []string{"obs"}})
					finish(runEvCase(c), ctx+"_replay")
				}
			}
			// business failure
			if needsTx && fresh {
				failW, hasFail = okW, true // no such transaction on a fresh ledger
			}
			if hasFail && want("none") {
				if c, ok := step(ctx, failW, evFault{Kind: "none"}, "fail"); ok {
					finish(runEvCase(c), ctx+"_fail")
				}
			}
		}
	}
	// ---- random histories (abstract outcomes taken from the results; replays under idempotency keys included)
	r := NewRng(f.Seed)
	for i := 0; i < f.N && only == ""; i++ {
		rr := r.Fork()
		finish(runEvCase(genEvCase(rr)), "random")
	}
	return 0
}

func genEvOp(r *Rng, now int64, ntx int64) Op {
	k := r.Intn(100)
	var o Op
	switch {
	case k < 45:
		src := Pick(r, []string{"world", "world", "alice", "bob", "nobody"})
		o = mkCreate(src, Pick(r, genAccounts), int64(1+r.Intn(60)), now)
		if r.Chance(15) {
			o.Ref = Pick(r, []string{"r1", "r2"})
		}
	case k < 60:
		o = Op{Kind: "revert", TxID: 1 + int64(r.Intn(int(ntx)+2)), Force: r.Chance(50), Now: now}
	case k < 72:
		o = Op{Kind: "setmeta", TxID: 1 + int64(r.Intn(int(ntx)+2)), Meta: []KV{{Pick(r, []string{"k1", "k2"}), Pick(r, []string{"a", "b"})}}, Now: now}
	case k < 82:
		o = Op{Kind: "setmeta", IsAcc: true, TgtAcc: Pick(r, genAccounts), Meta: []KV{{Pick(r, []string{"k1", "k2"}), Pick(r, []string{"a", "b"})}}, Now: now}
	case k < 91:
		o = Op{Kind: "delmeta", TxID: 1 + int64(r.Intn(int(ntx)+2)), Key: Pick(r, []string{"k1", "k2"}), Now: now}
	default:
		o = Op{Kind: "delmeta", IsAcc: true, TgtAcc: Pick(r, genAccounts), Key: Pick(r, []string{"k1", "k2"}), Now: now}
	}
	if r.Chance(25) {
		o.IK = Pick(r, []string{"ik1", "ik2", "ik3"})
	}
	return o
}

func genEvCase(r *Rng) evCase {
	c := evCase{Init: r.Chance(50)}
	if !c.Init {
		c.Prep = evPrep()
	}
	now := evBase + 10*1000000
	n := 1 + r.Intn(6)
	ntx := int64(2)
	var past []Op
	for i := 0; i < n; i++ {
		now += 1000000
		var s evStep
		if r.Chance(35) {
			s.Bulk, s.Atomic, s.Cont = true, r.Bool(), r.Chance(40)
			m := 1 + r.Intn(4)
			for j := 0; j < m; j++ {
				s.Ops = append(s.Ops, genEvOp(r, now, ntx))
			}
		} else {
			o := genEvOp(r, now, ntx)
			if len(past) > 0 && r.Chance(25) { // replay of an earlier request
				o = past[r.Intn(len(past))]
				o.Now = now
				if o.IK == "" {
					o.IK = "ik1"
				}
			}
			o.Dry = r.Chance(10)
			s.Ops = []Op{o}
		}
		for range s.Ops {
			s.Exp = append(s.Exp, "obs")
			ntx++
		}
		switch k := r.Intn(100); {
		case k < 12:
			s.Fault = evFault{"commit", r.Intn(2)}
		case k < 24:
			s.Fault = evFault{"stmt", 1 + r.Intn(14)}
		case k < 34:
			s.Fault = evFault{"cancel_stmt", 1 + r.Intn(14)}
		case k < 44:
			s.Fault = evFault{"cancel_commit", r.Intn(2)}
		default:
			s.Fault = evFault{Kind: "none"}
		}
		past = append(past, s.Ops...)
		c.Steps = append(c.Steps, s)
	}
	return c
}
