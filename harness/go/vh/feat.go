//go:build verif

package main

import (
	"encoding/json"
	"errors"
	"fmt"
	"sort"
	"strings"
	"time"

	"github.com/formancehq/go-libs/v5/pkg/query"
	libtime "github.com/formancehq/go-libs/v5/pkg/types/time"
	ledger "github.com/formancehq/ledger/internal"
	"github.com/formancehq/ledger/internal/storage/common"
	ledgerstore "github.com/formancehq/ledger/internal/storage/ledger"
	"github.com/formancehq/ledger/pkg/features"
)

// C35: the same history under every feature combination. Case = the history with all features off; implementation
// line = trace of the real stack under the MINIMAL feature set (compared with the model under f0); the monitor
// compares the core (results, transactions, logs, volumes, accounts and their current metadata) across combinations,
// checks hash presence, and checks that point-in-time reads are either the all-features answer or a rejection.
func init() { commands["feat"] = cmdFeat }

type FeatX struct {
	Feat
	HashV string
}

func (f FeatX) fs() features.FeatureSet {
	s := f.Feat.set()
	s[features.FeatureHashLogs] = f.HashV
	return s
}
func (f FeatX) String() string {
	return fmt.Sprintf("moves=%v pcev=%v acchist=%v txhist=%v hash=%s", f.Moves, f.PCEV, f.AccHist, f.TxHist, f.HashV)
}

func allCombos() []FeatX {
	var out []FeatX
	for i := 0; i < 16; i++ {
		for _, h := range []string{"SYNC", "ASYNC", "DISABLED"} {
			out = append(out, FeatX{Feat{i&1 != 0, i&2 != 0, i&4 != 0, i&8 != 0, h == "SYNC"}, h})
		}
	}
	return out
}

// coreSx: what must not depend on the features
func coreSx(r OpResult, s Snap) string {
	if s.Err != "" {
		return L(r.sx(), L("state_error", Q(s.Err)))
	}
	var txs, accs, logs, vols []string
	for _, t := range s.Txs {
		ps := make([]string, len(t.Post))
		for i, p := range t.Post {
			ps[i] = L(Q(p.Src), Q(p.Dst), Q(p.Asset), p.Amt.String())
		}
		rev := "nil"
		if t.Rev != nil {
			rev = fmt.Sprint(*t.Rev)
		}
		pcv := make([]string, len(t.PCV))
		for i, x := range t.PCV {
			pcv[i] = L(Q(x[0]), Q(x[1]), x[2], x[3])
		}
		txs = append(txs, L(fmt.Sprint(t.ID), L(ps...), kvsx(t.Meta), fmt.Sprint(t.TS), Q(t.Ref), fmt.Sprint(t.Ins), fmt.Sprint(t.Upd), rev, L(pcv...)))
	}
	for _, a := range s.Accounts {
		accs = append(accs, L(Q(a.Addr), kvsx(a.Meta), fmt.Sprint(a.First), fmt.Sprint(a.Ins), fmt.Sprint(a.Upd)))
	}
	for _, l := range s.Logs {
		data, _ := json.Marshal(l.Raw.Data)
		var m any
		_ = json.Unmarshal(data, &m)
		stripKey(m, "postCommitEffectiveVolumes")
		stripKey(m, "preCommitEffectiveVolumes")
		data, _ = json.Marshal(m)
		logs = append(logs, L(fmt.Sprint(l.ID), l.Type, fmt.Sprint(l.Date), Q(l.IK), Q(string(data))))
	}
	vs := append([][4]string{}, s.Vols...)
	sort.Slice(vs, func(i, j int) bool { return vs[i][0]+"\x00"+vs[i][1] < vs[j][0]+"\x00"+vs[j][1] })
	for _, v := range vs {
		vols = append(vols, L(Q(v[0]), Q(v[1]), v[2], v[3]))
	}
	var agg []string
	for c, b := range s.Agg {
		agg = append(agg, L(Q(c), b))
	}
	sort.Strings(agg)
	return L(r.sx(), L("vols", L(vols...)), L("txs", L(txs...)), L("accounts", L(accs...)), L("logs", L(logs...)), L("agg", L(agg...)))
}

func stripKey(v any, key string) {
	switch x := v.(type) {
	case map[string]any:
		delete(x, key)
		for _, y := range x {
			stripKey(y, key)
		}
	case []any:
		for _, y := range x {
			stripKey(y, key)
		}
	}
}

// pitProbes: point-in-time / window reads that need features; answer is a canonical string or "rejected:<class>"
func pitProbes(hr *HistRun, pits []int64) map[string]string {
	out := map[string]string{}
	rec := func(name string, f func() (string, error)) {
		defer func() {
			if r := recover(); r != nil {
				out[name] = fmt.Sprint("panic:", r)
			}
		}()
		v, err := f()
		switch {
		case err == nil:
			out[name] = v
		case errors.Is(err, ledgerstore.ErrMissingFeature{}):
			out[name] = "rejected:missing_feature"
		case errors.Is(err, common.ErrInvalidQuery{}):
			out[name] = "rejected:invalid_query"
		default:
			out[name] = "error:" + err.Error()
		}
	}
	for _, pu := range pits {
		pit := libtime.Time{Time: time.UnixMicro(pu).UTC()}
		for _, ins := range []bool{false, true} {
			ins := ins
			rec(fmt.Sprintf("aggregated pit=%d insertion=%v", pu, ins), func() (string, error) {
				r, err := hr.ctrl.GetAggregatedBalances(hr.ctx, common.ResourceQuery[ledger.GetAggregatedVolumesOptions]{PIT: &pit, Opts: ledger.GetAggregatedVolumesOptions{UseInsertionDate: ins}})
				if err != nil {
					return "", err
				}
				var xs []string
				for c, b := range r {
					xs = append(xs, c+"="+b.String())
				}
				sort.Strings(xs)
				return strings.Join(xs, ","), nil
			})
			rec(fmt.Sprintf("volumes pit=%d insertion=%v", pu, ins), func() (string, error) {
				vs, err := listAll(hr.ctx, hr.ctrl.GetVolumesWithBalances, common.InitialPaginatedQuery[ledger.GetVolumesOptions]{PageSize: 50,
					Options: common.ResourceQuery[ledger.GetVolumesOptions]{PIT: &pit, Opts: ledger.GetVolumesOptions{UseInsertionDate: ins}}})
				if err != nil {
					return "", err
				}
				var xs []string
				for _, v := range vs {
					xs = append(xs, fmt.Sprintf("%s/%s=%s,%s", v.Account, v.Asset, v.Input, v.Output))
				}
				sort.Strings(xs)
				return strings.Join(xs, ";"), nil
			})
		}
		for _, ins := range []bool{false, true} {
			ins := ins
			rec(fmt.Sprintf("volumes oot=%d (no pit) insertion=%v", pu, ins), func() (string, error) {
				vs, err := listAll(hr.ctx, hr.ctrl.GetVolumesWithBalances, common.InitialPaginatedQuery[ledger.GetVolumesOptions]{PageSize: 50,
					Options: common.ResourceQuery[ledger.GetVolumesOptions]{OOT: &pit, Opts: ledger.GetVolumesOptions{UseInsertionDate: ins}}})
				if err != nil {
					return "", err
				}
				var xs []string
				for _, v := range vs {
					xs = append(xs, fmt.Sprintf("%s/%s=%s,%s", v.Account, v.Asset, v.Input, v.Output))
				}
				sort.Strings(xs)
				return strings.Join(xs, ";"), nil
			})
		}
		for _, ex := range []string{"volumes", "effectiveVolumes"} {
			ex := ex
			rec(fmt.Sprintf("accounts pit=%d expand=%s", pu, ex), func() (string, error) {
				as, err := listAll(hr.ctx, hr.ctrl.ListAccounts, common.InitialPaginatedQuery[any]{PageSize: 50, Options: common.ResourceQuery[any]{PIT: &pit, Expand: []string{ex}}})
				if err != nil {
					return "", err
				}
				var xs []string
				for _, a := range as {
					vm := a.Volumes
					if ex == "effectiveVolumes" {
						vm = a.EffectiveVolumes
					}
					var ys []string
					for c, v := range vm {
						ys = append(ys, fmt.Sprintf("%s=%s,%s", c, v.Input, v.Output))
					}
					sort.Strings(ys)
					xs = append(xs, a.Address+"{"+strings.Join(ys, " ")+"}")
				}
				sort.Strings(xs)
				return strings.Join(xs, ";"), nil
			})
		}
		rec(fmt.Sprintf("accounts pit=%d balance[USD]>0", pu), func() (string, error) {
			as, err := listAll(hr.ctx, hr.ctrl.ListAccounts, common.InitialPaginatedQuery[any]{PageSize: 50,
				Options: common.ResourceQuery[any]{PIT: &pit, Builder: query.Gt("balance[USD]", 0)}})
			if err != nil {
				return "", err
			}
			var xs []string
			for _, a := range as {
				xs = append(xs, a.Address)
			}
			sort.Strings(xs)
			return strings.Join(xs, ";"), nil
		})
	}
	rec("transactions expand=effectiveVolumes", func() (string, error) {
		ts, err := listAll(hr.ctx, hr.ctrl.ListTransactions, common.InitialPaginatedQuery[any]{PageSize: 50, Options: common.ResourceQuery[any]{Expand: []string{"effectiveVolumes"}}})
		if err != nil {
			return "", err
		}
		var xs []string
		for _, t := range ts {
			v := volsOf(t.PostCommitEffectiveVolumes)
			xs = append(xs, fmt.Sprintf("%d%v", *t.ID, v))
		}
		sort.Strings(xs)
		return strings.Join(xs, ";"), nil
	})
	return out
}

func cmdFeat(args []string) int {
	f := ParseFlags(args)
	out := NewOut(f.Out)
	defer out.Close()
	prof := HistProfile{MaxOps: 10, Backdate: true}
	combos := allCombos()
	ncombo := 6
	if v, ok := f.Extra["combos"]; ok {
		fmt.Sscan(v, &ncombo)
	}
	base := FeatX{allOn, "SYNC"}
	minimal := FeatX{Feat{}, "DISABLED"}
	check := func(rr *Rng, ops []Op, hrBase *HistRun) {
		cs := histCaseSx(Feat{}, ops)
		var pits []int64
		if len(ops) > 0 {
			pits = append(pits, ops[len(ops)/2].Now, ops[len(ops)-1].Now+5)
			for _, o := range ops {
				if o.TS != nil {
					pits = append(pits, *o.TS)
					break
				}
			}
		}
		baseCore := make([]string, len(hrBase.Snaps))
		for i := range hrBase.Snaps {
			baseCore[i] = coreSx(hrBase.Res[i], hrBase.Snaps[i])
		}
		baseProbes := pitProbes(hrBase, pits)
		// selection of combinations: minimal always, then ncombo others (all when ncombo >= 48)
		sel := []FeatX{minimal}
		if ncombo >= len(combos) {
			sel = combos
		} else {
			perm := append([]FeatX{}, combos...)
			for i := len(perm) - 1; i > 0; i-- {
				j := rr.Intn(i + 1)
				perm[i], perm[j] = perm[j], perm[i]
			}
			sel = append(sel, perm[:ncombo]...)
		}
		implLine := ""
		for _, c := range sel {
			hr := newHistRunFS(c.Feat, c.fs(), false)
			for _, o := range ops {
				if hr.Step(o).Panic != "" {
					break
				}
			}
			out.Stats["runs"]++
			if c == minimal && implLine == "" {
				implLine = hr.traceSx()
			}
			if len(hr.Snaps) != len(hrBase.Snaps) {
				out.Violation("C35", cs, fmt.Sprintf("[core-differs] under %s the history ran %d steps, %d with all features", c, len(hr.Snaps), len(hrBase.Snaps)))
				continue
			}
			bad := false
			for i := range hr.Snaps {
				if got := coreSx(hr.Res[i], hr.Snaps[i]); got != baseCore[i] {
					out.Violation("C35", cs, fmt.Sprintf("[core-differs] step %d under %s: %s  ---  with all features: %s", i, c, firstDiff(got, baseCore[i]), firstDiff(baseCore[i], got)))
					bad = true
					break
				}
			}
			if bad || len(hr.Snaps) == 0 {
				continue
			}
			for _, l := range hr.Snaps[len(hr.Snaps)-1].Logs {
				if (len(l.Hash) > 0) != (c.HashV == "SYNC") {
					out.Violation("C35", cs, fmt.Sprintf("[hash-presence] under %s log %d has hash of %d bytes", c, l.ID, len(l.Hash)))
					break
				}
			}
			probes := pitProbes(hr, pits)
			var names []string
			for n := range probes {
				names = append(names, n)
			}
			sort.Strings(names)
			for _, n := range names {
				got, want := probes[n], baseProbes[n]
				out.Stats["probes"]++
				if strings.HasPrefix(got, "rejected:") {
					out.Stats["probes_rejected"]++
					continue
				}
				if got != want {
					out.Violation("C35", cs, fmt.Sprintf("[pit-wrong-answer] under %s the read %q is answered %q; with all features: %q (expected that answer or a missing-feature rejection)", c, n, got, want))
					break
				}
			}
		}
		out.Case(cs, implLine)
		out.Stats["cases"]++
		nok := 0
		for _, r := range hrBase.Res {
			if r.Class == "none" {
				nok++
			}
		}
		if nok >= 2 {
			out.Stats["distinct_nontrivial"]++
		}
	}
	if f.Replay != "" {
		for _, line := range ReadLines(f.Replay) {
			_, ops := parseHistCase(line)
			hrBase := newHistRunFS(base.Feat, base.fs(), false)
			for _, o := range ops {
				if hrBase.Step(o).Panic != "" {
					break
				}
			}
			ncombo = 48
			check(NewRng(f.Seed), ops, hrBase)
		}
		return 0
	}
	r := NewRng(f.Seed)
	for i := 0; i < f.N; i++ {
		rr := r.Fork()
		hrBase := newHistRunFS(base.Feat, base.fs(), false)
		ops := genHistory(rr, prof, base.Feat, hrBase.Step)
		if n := len(hrBase.Res); n > 0 && hrBase.Res[n-1].Panic != "" {
			i-- // histories ending in the known revert panic tell nothing about features
			continue
		}
		check(rr, ops, hrBase)
	}
	return 0
}

func firstDiff(a, b string) string {
	i := 0
	for i < len(a) && i < len(b) && a[i] == b[i] {
		i++
	}
	st := i - 60
	if st < 0 {
		st = 0
	}
	en := i + 120
	if en > len(a) {
		en = len(a)
	}
	return "…" + a[st:en] + "…"
}
