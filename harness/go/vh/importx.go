//go:build verif

package main

import (
	"bytes"
	"context"
	"encoding/json"
	"errors"
	"fmt"
	goio "io"
	"math/big"
	"sort"
	"strings"

	"github.com/formancehq/go-libs/v5/pkg/types/metadata"
	ledger "github.com/formancehq/ledger/internal"
	"github.com/formancehq/ledger/internal/api/bulking"
	ledgercontroller "github.com/formancehq/ledger/internal/controller/ledger"
	ledgerstore "github.com/formancehq/ledger/internal/storage/ledger"
	"github.com/formancehq/ledger/internal/verifh/pgsem"
)

// importx (TIE-D, properties C11 and C12): a random source history on ledger l1 (A), the real Export to bytes (what
// v2.exportLogs does), then a script of actions on a fresh ledger l2 (B) of the same bucket and feature set, all through
// the controller the real system controller hands out (state tracker facade, advisory locks, sequence resync):
//
//	(import drop take now)            the real Import of export(A)[drop : drop+take] (decoded as v2.importLogs does)
//	(write single|bulk|atomic now ops) ops one by one / one non-atomic bulk / one ATOMIC bulk through the real Bulker
//
// The implementation line = outcome of every action (after an accepted import: which observable classes of B equal
// those of A) + the final state of B; the model line is the same computed by Ledger/Import.v.
// Monitors (independent of the model): C11 = a full import into the pristine copy succeeds, every observable class is
// equal, and the post-import writes give on B what the same writes give on the source A; C12 = an import after an
// accepted write / over existing log ids is rejected and leaves the snapshot unchanged.
func init() { commands["importx"] = cmdImportx }

type impAction struct {
	WithOrig   bool   // import_shift: the stream is export ++ shifted export (else the shifted export only)
	DLog, DTx  int64  // import_shift: offsets added to the log ids / transaction ids of the exported logs
	Kind       string // import | import_stale | import_shift | resolve | write
	Path       string // single | bulk | atomic
	Drop, Take int    // import: slice of the export; Take < 0: to the end
	Now        int64
	Ops        []Op
}

type impCase struct {
	Feat   Feat
	Ops    []Op
	Script []impAction
}

func (a impAction) sx() string {
	if a.Kind == "resolve" {
		return L("resolve")
	}
	if a.Kind == "import_stale" {
		return L("import_stale", fmt.Sprint(a.Drop), fmt.Sprint(a.Take), fmt.Sprint(a.Now))
	}
	if a.Kind == "import_shift" {
		return L("import_shift", b01(a.WithOrig), fmt.Sprint(a.Now), fmt.Sprint(a.DLog), fmt.Sprint(a.DTx))
	}
	if a.Kind == "import" {
		return L("import", fmt.Sprint(a.Drop), fmt.Sprint(a.Take), fmt.Sprint(a.Now))
	}
	path := a.Path
	if path == "atomic" && !facadeBeginsTX() {
		path = "atomic_unrepaired"
	}
	return L("write", path, fmt.Sprint(a.Now), opsSx(a.Ops))
}

func (c impCase) sx() string {
	as := make([]string, len(c.Script))
	for i, a := range c.Script {
		as[i] = a.sx()
	}
	return L("importx", c.Feat.sx(), opsSx(c.Ops), L(as...))
}

func parseImpCase(line string) impCase {
	sx, err := ParseSx(line)
	must(err)
	ops := func(x *Sx) []Op {
		var items []string
		for _, e := range x.List {
			items = append(items, sxString(e))
		}
		_, o := parseHistCase(L("hist", allOn.sx(), L(items...)))
		return o
	}
	feat, _ := parseHistCase(L("hist", sxString(sx.List[1]), L()))
	c := impCase{Feat: feat, Ops: ops(sx.List[2])}
	for _, a := range sx.List[3].List {
		if a.List[0].Atom == "resolve" {
			c.Script = append(c.Script, impAction{Kind: "resolve"})
		} else if a.List[0].Atom == "import_stale" {
			c.Script = append(c.Script, impAction{Kind: "import_stale", Drop: int(atoi(a.List[1].Atom)), Take: int(atoi(a.List[2].Atom)), Now: atoi(a.List[3].Atom)})
		} else if a.List[0].Atom == "import_shift" {
			c.Script = append(c.Script, impAction{Kind: "import_shift", WithOrig: a.List[1].Atom == "1", Now: atoi(a.List[2].Atom), DLog: atoi(a.List[3].Atom), DTx: atoi(a.List[4].Atom)})
		} else if a.List[0].Atom == "import" {
			c.Script = append(c.Script, impAction{Kind: "import", Drop: int(atoi(a.List[1].Atom)), Take: int(atoi(a.List[2].Atom)), Now: atoi(a.List[3].Atom)})
		} else {
			c.Script = append(c.Script, impAction{Kind: "write", Path: strings.TrimSuffix(a.List[1].Atom, "_unrepaired"), Now: atoi(a.List[2].Atom), Ops: ops(a.List[3])})
		}
	}
	return c
}

// ---------------------------------------------------------------- running the real code
type impStack struct {
	st   *Stack
	ctx  context.Context
	feat Feat
	a, b ledgercontroller.Controller
	// stale: a SECOND facade of the copy, built by its own GetLedgerController call (action "resolve") as an HTTP request
	// does when it starts; its cached ledger state is the row as it was at that moment
	stale ledgercontroller.Controller
	dead  bool
	api   *httpAPI
	nhttp int
	nunord int
}

var httpRoundTrips int

// unorderedImport (C12, no model): the exported stream with two adjacent logs swapped (ids ... k+1, k ...) sent to a fourth,
// pristine ledger. When log k arrives the ledger already holds k+1: its existing logs do not all precede the imported one, so
// the import has to be refused; what it committed before the refusal is the stream's prefix, in id order.
func (s *impStack) unorderedImport(data []byte, f Feat) (viol []string) {
	logs, err := decodeLogs(data)
	if err != nil || len(logs) < 3 || s.nunord > 0 {
		return nil
	}
	s.nunord++
	k := len(logs) / 2
	logs[k], logs[k+1] = logs[k+1], logs[k]
	must(s.st.Sys.CreateLedger(s.ctx, "l4", ledger.Configuration{Bucket: "_default", Features: f.set()}))
	ctrl, err := s.st.Sys.GetLedgerController(s.ctx, "l4")
	must(err)
	ierr := realImport(s.ctx, ctrl, logs)
	var ids []string
	for _, r := range rawRows(s.st.PG, `select id from logs where ledger = 'l4' order by id`) {
		ids = append(ids, r[0])
	}
	if ierr == nil {
		return []string{fmt.Sprintf("an import stream whose ids step backwards (log %d sent after log %d) was accepted; the ledger now holds logs %v [c12-unordered-stream-accepted]", *logs[k+1].ID, *logs[k].ID, ids)}
	}
	if len(ids) > k+1 {
		return []string{fmt.Sprintf("an import stream whose ids step backwards at position %d was refused (%v) but %d logs were stored: %v [c12-unordered-stream-stored]", k+1, ierr, len(ids), ids)}
	}
	return nil
}

// httpRoundTrip: export of l1 and import into a fresh ledger through the v2 endpoints (internal/api/v2/controllers_logs_*.go)
func (s *impStack) httpRoundTrip(data []byte, copySnap Snap, f Feat) (viol []string) {
	if s.nhttp > 0 {
		return nil // once per case
	}
	s.nhttp++
	httpRoundTrips++
	if s.api == nil {
		s.api = newHTTPAPI(s.st)
	}
	resp := s.api.do("POST", "/v2/l1/logs/export", nil, "")
	if resp.Code != 200 || !bytes.Equal(resp.Body, data) {
		return []string{fmt.Sprintf("POST /v2/l1/logs/export answered %d with a body that differs from the controller's export stream [c11-http-export]: %s / %s", resp.Code, diffAt(string(resp.Body), string(data)), diffAt(string(data), string(resp.Body)))}
	}
	must(s.st.Sys.CreateLedger(s.ctx, "l3", ledger.Configuration{Bucket: "_default", Features: f.set()}))
	imp := s.api.do("POST", "/v2/l3/logs/import", map[string]string{"Content-Type": "application/octet-stream"}, string(resp.Body))
	if imp.Code != 204 {
		return []string{fmt.Sprintf("POST /v2/l3/logs/import of the exported stream into a pristine ledger answered %d %s [c11-http-import]", imp.Code, short(imp.Body))}
	}
	ctrl, err := s.st.Sys.GetLedgerController(s.ctx, "l3")
	must(err)
	if hs := s.st.Snapshot(s.ctx, ctrl, "l3", f); hs.sx() != copySnap.sx() {
		return []string{fmt.Sprintf("the ledger imported through POST /logs/import differs from the one imported through the controller [c11-http-import-differs]: %s / %s", diffAt(hs.sx(), copySnap.sx()), diffAt(copySnap.sx(), hs.sx()))}
	}
	return nil
}

// facadeBeginsTX: does the state tracker facade of the tree under test run the handleState protocol in BeginTX
// (fixes/01-facade-begintx)?  Probed once on a scratch stack by looking at the SQL a BeginTX on an initializing ledger emits.
// The answer selects the atomic-bulk model the case is compared with ("atomic" / "atomic_unrepaired" in the case), so a tree
// without the override still corresponds to a model and the monitors report the failing input.
var facadeBeginsTXProbe struct {
	done, yes bool
}

func facadeBeginsTX() bool {
	if facadeBeginsTXProbe.done {
		return facadeBeginsTXProbe.yes
	}
	st := NewStack(StackOpts{})
	ctx := context.Background()
	must(st.Sys.CreateLedger(ctx, "probe", ledger.Configuration{Bucket: "_default", Features: allOn.set()}))
	ctrl, err := st.Sys.GetLedgerController(ctx, "probe")
	must(err)
	st.LogSQL = true
	txCtrl, _, err := ctrl.BeginTX(ctx, nil)
	must(err)
	_ = txCtrl.Rollback(ctx)
	for _, q := range st.SQLLog {
		if strings.Contains(q, "pg_advisory_xact_lock") {
			facadeBeginsTXProbe.yes = true
		}
	}
	facadeBeginsTXProbe.done = true
	return facadeBeginsTXProbe.yes
}

func newImpStack(f Feat) *impStack {
	st := NewStack(StackOpts{})
	ctx := context.Background()
	s := &impStack{st: st, ctx: ctx, feat: f}
	for _, n := range []string{"l1", "l2"} {
		must(st.Sys.CreateLedger(ctx, n, ledger.Configuration{Bucket: "_default", Features: f.set()}))
	}
	var err error
	s.a, err = st.Sys.GetLedgerController(ctx, "l1")
	must(err)
	s.b, err = st.Sys.GetLedgerController(ctx, "l2")
	must(err)
	return s
}

func (s *impStack) stepA(o Op) OpResult {
	s.st.PG.Clock = pgsem.TS(o.Now)
	return runOp(s.ctx, s.a, o)
}

// export: what v2.exportLogs writes to the response body
func (s *impStack) export() ([]byte, error) {
	var buf bytes.Buffer
	enc := json.NewEncoder(&buf)
	err := s.a.Export(s.ctx, ledgercontroller.ExportWriterFn(func(ctx context.Context, log ledger.Log) error { return enc.Encode(log) }))
	return buf.Bytes(), err
}

func decodeLogs(data []byte) ([]ledger.Log, error) {
	dec := json.NewDecoder(bytes.NewReader(data))
	var out []ledger.Log
	for {
		l := ledger.Log{}
		if err := dec.Decode(&l); err != nil {
			if errors.Is(err, goio.EOF) {
				return out, nil
			}
			return out, err
		}
		out = append(out, l)
	}
}

// shiftLogs decodes the export again (fresh values) and adds dl to every log id and dt to every transaction id
// (created / reverted / reverting transactions, transaction targets of metadata logs)
func shiftLogs(data []byte, dl, dt int64) []ledger.Log {
	logs, err := decodeLogs(data)
	must(err)
	sh := func(p *uint64) *uint64 {
		v := uint64(int64(*p) + dt)
		return &v
	}
	for i := range logs {
		id := uint64(int64(*logs[i].ID) + dl)
		logs[i].ID = &id
		switch p := logs[i].Data.(type) {
		case ledger.CreatedTransaction:
			p.Transaction.ID = sh(p.Transaction.ID)
			logs[i].Data = p
		case ledger.RevertedTransaction:
			p.RevertedTransaction.ID = sh(p.RevertedTransaction.ID)
			p.RevertTransaction.ID = sh(p.RevertTransaction.ID)
			logs[i].Data = p
		case ledger.SavedMetadata:
			if p.TargetType == ledger.MetaTargetTypeTransaction {
				p.TargetID = uint64(int64(p.TargetID.(uint64)) + dt)
				logs[i].Data = p
			}
		case ledger.DeletedMetadata:
			if p.TargetType == ledger.MetaTargetTypeTransaction {
				p.TargetID = uint64(int64(p.TargetID.(uint64)) + dt)
				logs[i].Data = p
			}
		}
	}
	return logs
}

func sliceLogs(logs []ledger.Log, drop, take int) []ledger.Log {
	if drop > len(logs) {
		drop = len(logs)
	}
	logs = logs[drop:]
	if take >= 0 && take < len(logs) {
		logs = logs[:take]
	}
	return logs
}

// realImport feeds the stream the way v2.importLogs does (unbuffered channel, error channel of the importing goroutine)
func realImport(ctx context.Context, ctrl ledgercontroller.Controller, logs []ledger.Log) (err error) {
	defer func() {
		if r := recover(); r != nil {
			err = fmt.Errorf("panic: %v", r)
		}
	}()
	stream := make(chan ledger.Log)
	errChan := make(chan error, 1)
	go func() {
		defer func() {
			if r := recover(); r != nil {
				errChan <- fmt.Errorf("panic: %v", r)
			}
		}()
		errChan <- ctrl.Import(ctx, stream)
	}()
	for _, l := range logs {
		select {
		case stream <- l:
		case err := <-errChan:
			return err
		}
	}
	close(stream)
	return <-errChan
}

func importClass(err error) string {
	if err == nil {
		return "ok"
	}
	msg := strings.ReplaceAll(err.Error(), "\n", " ")
	if errors.Is(err, ledgercontroller.ErrImport{}) {
		switch {
		case strings.Contains(msg, "not in initializing state"):
			return "not_initializing"
		case strings.Contains(msg, "already exists"):
			return "log_exists"
		case strings.Contains(msg, "invalid hash"):
			return "invalid_hash"
		case strings.Contains(msg, "concurrent transaction"):
			return "concurrent"
		}
		return "import_other:" + msg
	}
	switch classify(err) {
	case "not_found":
		return "missing_tx"
	case "reference_conflict":
		return "reference_conflict"
	case "idempotency_conflict":
		return "idempotency_conflict"
	}
	return "other:" + msg
}

// ---------------------------------------------------------------- observable classes compared between source and copy
var impClasses = []string{"volumes", "transactions", "tx-dates", "accounts", "account-metadata", "account-dates", "moves", "account-history", "account-history-dates", "tx-history", "logs", "hashes"}

func mapSx[T any](xs []T, f func(T) string) string {
	out := make([]string, len(xs))
	for i, x := range xs {
		out[i] = f(x)
	}
	return L(out...)
}

func postingsSx(ps []Posting) string {
	return mapSx(ps, func(p Posting) string { return L(Q(p.Src), Q(p.Dst), Q(p.Asset), p.Amt.String()) })
}

// classProj: one canonical string per observable class of a snapshot
func classProj(s Snap) map[string]string {
	v4 := func(v [][4]string) string {
		return mapSx(v, func(x [4]string) string { return L(Q(x[0]), Q(x[1]), x[2], x[3]) })
	}
	optI := func(p *int64) string {
		if p == nil {
			return "nil"
		}
		return fmt.Sprint(*p)
	}
	vols := append([][4]string{}, s.Vols...)
	sort.Slice(vols, func(i, j int) bool {
		if vols[i][0] != vols[j][0] {
			return vols[i][0] < vols[j][0]
		}
		return vols[i][1] < vols[j][1]
	})
	agg := make([]string, 0, len(s.Agg))
	for c, v := range s.Agg {
		agg = append(agg, L(Q(c), v))
	}
	sort.Strings(agg)
	out := map[string]string{}
	var withVols []SnapAcc
	for _, a := range s.Accounts {
		if len(a.Vols) > 0 {
			withVols = append(withVols, a)
		}
	}
	out["volumes"] = L(v4(vols), L(agg...), mapSx(withVols, func(a SnapAcc) string {
		return L(Q(a.Addr), mapSx(a.Vols, func(v [3]string) string { return L(Q(v[0]), v[1], v[2]) }))
	}))
	out["transactions"] = mapSx(s.Txs, func(t SnapTx) string {
		pcev := "nil"
		if t.HasPCEV {
			pcev = v4(t.PCEV)
		}
		return L(fmt.Sprint(t.ID), postingsSx(t.Post), kvsx(t.Meta), fmt.Sprint(t.TS), Q(t.Ref), b01(t.Rev != nil), v4(t.PCV), pcev)
	})
	out["tx-dates"] = mapSx(s.Txs, func(t SnapTx) string { return L(fmt.Sprint(t.ID), fmt.Sprint(t.Ins), fmt.Sprint(t.Upd), optI(t.Rev)) })
	out["accounts"] = mapSx(s.Accounts, func(a SnapAcc) string { return Q(a.Addr) })
	out["account-metadata"] = mapSx(s.Accounts, func(a SnapAcc) string { return L(Q(a.Addr), kvsx(a.Meta)) })
	out["account-dates"] = mapSx(s.Accounts, func(a SnapAcc) string {
		return L(Q(a.Addr), fmt.Sprint(a.First), fmt.Sprint(a.Ins), fmt.Sprint(a.Upd))
	})
	out["moves"] = mapSx(s.Moves, func(m SnapMove) string {
		pe := "nil"
		if m.PCEV != nil {
			pe = L(m.PCEV[0], m.PCEV[1])
		}
		return L(fmt.Sprint(m.Tx), Q(m.Acc), Q(m.Asset), m.Amt, b01(m.Src), fmt.Sprint(m.Ins), fmt.Sprint(m.Eff), L(m.PCV[0], m.PCV[1]), pe)
	})
	out["account-history"] = mapSx(s.AHist, func(h SnapHist) string { return L(Q(h.Key), fmt.Sprint(h.Rev), kvsx(h.Meta)) })
	out["account-history-dates"] = mapSx(s.AHist, func(h SnapHist) string { return L(Q(h.Key), fmt.Sprint(h.Rev), fmt.Sprint(h.Date)) })
	out["tx-history"] = mapSx(s.THist, func(h SnapHist) string { return L(h.Key, fmt.Sprint(h.Rev), fmt.Sprint(h.Date), kvsx(h.Meta)) })
	out["logs"] = mapSx(s.Logs, func(l SnapLog) string {
		raw := l.Raw
		raw.Hash = nil
		b, err := json.Marshal(raw)
		must(err)
		return L(fmt.Sprint(l.ID), l.Type, fmt.Sprint(l.Date), Q(l.IK), Q(string(b)))
	})
	out["hashes"] = mapSx(s.Logs, func(l SnapLog) string { return fmt.Sprintf("%x", l.Hash) })
	return out
}

// flags: for every class, 1 when source and copy agree
func cmpFlags(a, b Snap) (string, []string) {
	if a.Err != "" || b.Err != "" {
		return L("read_error", Q(a.Err), Q(b.Err)), []string{"reads"}
	}
	pa, pb := classProj(a), classProj(b)
	var fl, diff []string
	for _, c := range impClasses {
		if pa[c] == pb[c] {
			fl = append(fl, "1")
		} else {
			fl = append(fl, "0")
			diff = append(diff, c)
		}
	}
	return L(fl...), diff
}

// ---------------------------------------------------------------- writes through the three API paths
type wres struct {
	Ok        bool
	Class     string // ok | error class | missing (no entry for the element)
	Committed bool
	LogID     int64
	TxID      int64 // -1: none
}

func (s *impStack) write(ctrl ledgercontroller.Controller, path string, now int64, ops []Op) (string, []wres) {
	var shapes []wres
	switch path {
	case "single":
		rs := make([]string, len(ops))
		for i, o := range ops {
			s.st.PG.Clock = pgsem.TS(o.Now)
			if s.dead {
				rs[i] = L("skipped")
				shapes = append(shapes, wres{Class: "skipped", TxID: -1})
				continue
			}
			r := runOp(s.ctx, ctrl, o)
			rs[i] = r.sx()
			if r.Panic != "" {
				s.dead = true // the SQL transaction (and the ledger lock) of a panicking operation is leaked: the stack is unusable afterwards
			}
			w := wres{Ok: r.Panic == "" && r.Class == "none", Class: r.Class, TxID: -1}
			if r.Panic != "" {
				w.Class = "panic"
			}
			if w.Ok {
				w.Class, w.LogID, w.Committed = "ok", r.LogID, !o.Dry && !r.Hit
				if r.TxID != nil {
					w.TxID = *r.TxID
				}
			}
			if strings.HasPrefix(w.Class, "other:") {
				w.Class = "other"
			}
			shapes = append(shapes, w)
		}
		return L(rs...), shapes
	default:
		s.st.PG.Clock = pgsem.TS(now)
		var (
			entries []BulkAPIResult
			runErr  error
		)
		func() {
			defer func() {
				if r := recover(); r != nil {
					runErr = fmt.Errorf("panic: %v", r)
				}
			}()
			entries, _, runErr, _ = runBulkHTTP(s.ctx, bulking.NewBulker(ctrl), bulkBody(ops), bulking.BulkingOptions{Atomic: path == "atomic"})
		}()
		if runErr != nil {
			for range ops {
				shapes = append(shapes, wres{Class: "bulk_error", TxID: -1})
			}
			if strings.Contains(runErr.Error(), "commit unexpectedly resulted in rollback") {
				return L(L("bulk_error")), shapes
			}
			return L(L("bulk_error", Q(strings.ReplaceAll(runErr.Error(), "\n", " ")))), shapes
		}
		allOk := len(entries) == len(ops)
		for _, e := range entries {
			if e.ResponseType == "ERROR" || e.ErrorCode != "" {
				allOk = false
			}
		}
		for i := range ops {
			if i >= len(entries) {
				shapes = append(shapes, wres{Class: "missing", TxID: -1})
				continue
			}
			e := entries[i]
			if e.ResponseType == "ERROR" || e.ErrorCode != "" {
				c := apiErrClass(e)
				if strings.Contains(e.ErrorDescription, "25P02") {
					c = "aborted"
				} else if strings.HasPrefix(c, "other:") {
					c = "other"
				}
				shapes = append(shapes, wres{Class: c, TxID: -1})
				continue
			}
			w := wres{Ok: true, Class: "ok", LogID: int64(e.LogID), TxID: -1, Committed: path == "bulk" || allOk}
			if t := apiTxID(e); t != "nil" {
				w.TxID = atoi(t)
			}
			shapes = append(shapes, w)
		}
		return mapSx(entries, func(e BulkAPIResult) string {
			if strings.Contains(e.ErrorDescription, "25P02") { // current transaction is aborted
				return L("err", "aborted", e.ResponseType)
			}
			return entrySx(e)
		}), shapes
	}
}

type impRun struct {
	Case      impCase
	Exported  int
	Results   []string // per action
	Final     Snap
	SnapA     Snap
	Viol      []string // monitor messages
	Partial   int
	RefReuse  int
	Data      []byte
	DiffStats []string
}

func runImpCase(c impCase, gen func(*impStack) ([]Op, []impAction)) *impRun {
	s := newImpStack(c.Feat)
	if gen != nil {
		c.Ops, c.Script = gen(s)
	} else {
		for _, o := range c.Ops {
			if s.stepA(o).Panic != "" {
				break
			}
		}
	}
	run := &impRun{Case: c}
	data, err := s.export()
	must(err)
	logs, err := decodeLogs(data)
	must(err)
	run.Exported = len(logs)
	run.Data = data
	run.SnapA = s.st.Snapshot(s.ctx, s.a, "l1", c.Feat)
	return s.script(run, logs)
}

func (s *impStack) script(run *impRun, logs []ledger.Log) *impRun {
	c := run.Case
	written := "" // first path through which a write was accepted on B before the current action
	imported := false
	pristineFull := false // B = result of exactly one full import into the pristine ledger (then only writes)
	maxLog, maxTx := int64(0), int64(0)
	diverged := false
	for _, a := range c.Script {
		if s.dead {
			run.Results = append(run.Results, L("skipped"))
			continue
		}
		switch a.Kind {
		case "resolve":
			var err error
			s.stale, err = s.st.Sys.GetLedgerController(s.ctx, "l2")
			must(err)
			run.Results = append(run.Results, L("resolve"))
		case "import", "import_shift", "import_stale":
			before := s.st.Snapshot(s.ctx, s.b, "l2", c.Feat)
			part := sliceLogs(logs, a.Drop, a.Take)
			if a.Kind == "import_shift" {
				part = shiftLogs(run.Data, a.DLog, a.DTx)
				if a.WithOrig {
					part = append(append([]ledger.Log{}, logs...), part...)
				}
			}
			isExport := a.Kind == "import" || a.Kind == "import_stale"
			via := s.b
			if a.Kind == "import_stale" {
				if s.stale == nil {
					var err error
					s.stale, err = s.st.Sys.GetLedgerController(s.ctx, "l2")
					must(err)
				}
				via = s.stale
			}
			s.st.PG.Clock = pgsem.TS(a.Now)
			err := realImport(s.ctx, via, part)
			cls := importClass(err)
			after := s.st.Snapshot(s.ctx, s.b, "l2", c.Feat)
			res := L("import", cls)
			if strings.Contains(cls, ":") {
				i := strings.Index(cls, ":")
				res = L("import", cls[:i], Q(cls[i+1:]))
			}
			if cls == "ok" {
				fl, diff := cmpFlags(run.SnapA, after)
				res = L("import", "ok", fl)
				full := isExport && a.Drop == 0 && (a.Take < 0 || a.Take >= len(logs))
				if full && !imported && written == "" {
					pristineFull = true
					for _, l := range after.Logs {
						if l.ID > maxLog {
							maxLog = l.ID
						}
					}
					for _, t := range after.Txs {
						if t.ID > maxTx {
							maxTx = t.ID
						}
					}
					// the same round trip through the HTTP API: POST /logs/export answers the controller's stream byte for byte, and that
					// body sent to POST /logs/import of a third, pristine ledger gives the state the controller-level import gave
					for _, v := range s.httpRoundTrip(run.Data, after, c.Feat) {
						run.Viol = append(run.Viol, "C11|"+v)
					}
					for _, v := range s.unorderedImport(run.Data, c.Feat) {
						run.Viol = append(run.Viol, "C12|"+v)
					}
					for _, d := range refineDiff(run.SnapA, after, diff) {
						run.Viol = append(run.Viol, "C11|copy differs from source after export/import into the pristine ledger: ["+"c11-"+d+"] "+impFirstDiff(run.SnapA, after, d))
					}
				}
			} else if isExport && !imported && written == "" && a.Drop == 0 && (a.Take < 0 || a.Take >= len(logs)) {
				run.Viol = append(run.Viol, "C11|import of the full export into the pristine ledger failed: [c11-import-failed] "+cls)
			}
			// C14 on the import path: the first log that was not imported reuses a stored non-empty reference (its own
			// transaction id being free): the import must stop THERE with the reference-conflict error and without that transaction
			if cls != "ok" && cls != "not_initializing" && cls != "log_exists" { // (refused by the state / id rules of C12: no log was replayed)
				have := map[int64]bool{}
				for _, l := range after.Logs {
					have[l.ID] = true
				}
				for _, l := range part {
					if have[int64(*l.ID)] {
						continue
					}
					if ct, ok := l.Data.(ledger.CreatedTransaction); ok && ct.Transaction.Reference != "" {
						refHeld, idHeld := false, false
						for _, t := range after.Txs {
							if t.Ref == ct.Transaction.Reference && t.ID != int64(*ct.Transaction.ID) {
								refHeld = true
							}
							if t.ID == int64(*ct.Transaction.ID) {
								idHeld = true
							}
						}
						if refHeld && !idHeld {
							run.RefReuse++
							isRef := errors.Is(err, ledgerstore.ErrTransactionReferenceConflict{}) || errors.Is(err, ledgercontroller.ErrTransactionReferenceConflict{})
							if !isRef {
								run.Viol = append(run.Viol, fmt.Sprintf("C14|import of log %d (transaction %d) reuses reference %q held by another transaction: refused with %s, not with the reference-conflict error: [c14-import-reference-wrong-error]", *l.ID, *ct.Transaction.ID, ct.Transaction.Reference, clip(cls, 120)))
							}
						}
					}
					break
				}
			}
			refs := map[string]int64{}
			for _, t := range after.Txs {
				if t.Ref == "" {
					continue
				}
				if o, dup := refs[t.Ref]; dup {
					run.Viol = append(run.Viol, fmt.Sprintf("C14|after the import transactions %d and %d share reference %q: [c14-import-duplicate-reference]", o, t.ID, t.Ref))
				}
				refs[t.Ref] = t.ID
			}
			// C12
			minID, maxB := int64(-1), int64(-1)
			if len(part) > 0 {
				minID = int64(*part[0].ID)
			}
			if n := len(before.Logs); n > 0 {
				maxB = before.Logs[n-1].ID
			}
			changed := before.sx() != after.sx()
			if written != "" && len(part) > 0 {
				if cls == "ok" {
					run.Viol = append(run.Viol, fmt.Sprintf("C12|import accepted after a write was accepted through the %s path: [c12-import-after-%s-write] changed=%v", written, written, changed))
				} else if changed {
					run.Viol = append(run.Viol, fmt.Sprintf("C12|import started after a write was accepted through the %s path, changed the ledger and stopped later (%s): [c12-import-after-%s-write] changed=true", written, clip(cls, 60), written))
				}
			} else if len(part) > 0 && minID <= maxB {
				if cls == "ok" {
					run.Viol = append(run.Viol, fmt.Sprintf("C12|import of log %d accepted although log %d exists: [c12-overlap-accepted]", minID, maxB))
				} else if changed {
					run.Viol = append(run.Viol, fmt.Sprintf("C12|import of log %d over existing log %d rejected (%s) but the ledger changed: [c12-rejected-with-effect]", minID, maxB, cls))
				}
			} else if cls != "ok" && changed {
				run.Partial++ // a stream that is not an export (a suffix) failed half way: the earlier logs stay (each log is its own transaction)
			}
			if cls == "ok" && len(part) > 0 {
				if imported {
					pristineFull = false
				}
				imported = true
			}
			run.Results = append(run.Results, res)
		case "write":
			r, shapes := s.write(s.b, a.Path, a.Now, a.Ops)
			run.Results = append(run.Results, L("write", r))
			for _, w := range shapes {
				if w.Committed && written == "" {
					written = a.Path
				}
			}
			if pristineFull {
				// C11 writability: the same request on the source gives the same answers; ids continue above the imported ones
				var onA []wres
				if !diverged && !s.dead {
					_, onA = s.write(s.a, a.Path, a.Now, a.Ops)
					for i := range shapes {
						if i >= len(onA) {
							break
						}
						if shapes[i].Class != onA[i].Class {
							run.Viol = append(run.Viol, fmt.Sprintf("C11|post-import write through the %s path: element %d gives %s on the copy, %s on the source: [c11-write-%s]", a.Path, i, shapes[i].Class, onA[i].Class, a.Path))
							diverged = true
							break
						}
						if shapes[i].LogID != onA[i].LogID || shapes[i].TxID != onA[i].TxID {
							diverged = true // e.g. ids drawn by a dry run are reused on the copy (resync at every write while initializing): no violation, but the two ledgers are no longer comparable
							break
						}
					}
				}
				for i, w := range shapes {
					if !w.Ok || !w.Committed {
						continue
					}
					if i < len(a.Ops) && a.Ops[i].IK != "" && w.LogID <= maxLog && i < len(onA) && onA[i].Ok && onA[i].LogID == w.LogID {
						// an idempotent replay of an imported log (a bulk answer carries no hit flag): the source, given the same
						// request, answers with the same stored log; nothing was committed
						continue
					}
					if w.LogID <= maxLog || (w.TxID >= 0 && w.TxID <= maxTx) {
						run.Viol = append(run.Viol, fmt.Sprintf("C11|post-import write through the %s path: element %d got log id %d / transaction id %d, not above the stored ids %d / %d: [c11-ids-%s]", a.Path, i, w.LogID, w.TxID, maxLog, maxTx, a.Path))
						break
					}
					maxLog = w.LogID
					if w.TxID >= 0 {
						maxTx = w.TxID
					}
				}
			}
		}
	}
	if s.dead {
		run.Final = Snap{Err: "stack unusable after a panic"}
		run.Viol = append(run.Viol, "C11|a write on the copy panicked: [c11-write-panic]")
	} else {
		run.Final = s.st.Snapshot(s.ctx, s.b, "l2", c.Feat)
	}
	return run
}

// refineDiff splits account-dates into first-usage / insertion-date / updated-at
func refineDiff(a, b Snap, diff []string) []string {
	var out []string
	for _, d := range diff {
		if d != "account-dates" || len(a.Accounts) != len(b.Accounts) {
			out = append(out, d)
			continue
		}
		seen := map[string]bool{}
		for i := range a.Accounts {
			x, y := a.Accounts[i], b.Accounts[i]
			for _, t := range []struct {
				n    string
				p, q int64
			}{{"account-first-usage", x.First, y.First}, {"account-insertion-date", x.Ins, y.Ins}, {"account-updated-at", x.Upd, y.Upd}} {
				if t.p != t.q && !seen[t.n] {
					seen[t.n] = true
					out = append(out, t.n)
				}
			}
		}
	}
	return out
}

func impFirstDiff(a, b Snap, class string) string {
	switch class {
	case "account-first-usage", "account-insertion-date", "account-updated-at":
		class = "account-dates"
	}
	pa, pb := classProj(a)[class], classProj(b)[class]
	sa, _ := ParseSx(pa)
	sb, _ := ParseSx(pb)
	if sa != nil && sb != nil {
		for i := 0; i < len(sa.List) || i < len(sb.List); i++ {
			var x, y string
			if i < len(sa.List) {
				x = sxString(sa.List[i])
			}
			if i < len(sb.List) {
				y = sxString(sb.List[i])
			}
			if x != y {
				return fmt.Sprintf("source %s copy %s", clip(x, 300), clip(y, 300))
			}
		}
	}
	return ""
}

func clip(s string, n int) string {
	if len(s) > n {
		return s[:n] + "..."
	}
	return s
}

func (r *impRun) implSx() string {
	return L("importx", L(r.Results...), r.Final.sx())
}

// ---------------------------------------------------------------- S-11b: chart default metadata of a metadata-only account
// A fixed scenario outside Ledger/Core.v (which has no schemas), monitor only: strict mode, schema v1 whose chart gives
// `users:$id` the default metadata role=user; SaveAccountMetadata under v1 creates users:42 {k1:v1} (stored with the default)
// and users:7 {role:admin} (the request overrides the default); export -> import into a fresh ledger; the accounts of the
// copy must carry the same metadata.
const s11bCase = "(importx_s11b)"

func runS11b() (msg string) {
	defer func() {
		if r := recover(); r != nil {
			msg = fmt.Sprintf("chart default metadata scenario failed: %v [c11-s11b-scenario-broken]", r)
		}
	}()
	st := NewStack(StackOpts{Mode: ledgercontroller.SchemaEnforcementStrict})
	ctx := context.Background()
	for _, l := range []string{"l1", "l2"} {
		must(st.Sys.CreateLedger(ctx, l, ledger.Configuration{Bucket: "_default", Features: allOn.set()}))
	}
	src, err := st.Sys.GetLedgerController(ctx, "l1")
	must(err)
	var chart ledger.ChartOfAccounts
	must(json.Unmarshal([]byte(`{"users": {"$id": {".pattern": "^[0-9]+$", ".metadata": {"role": {"default": "user"}}}}, "world": {}}`), &chart))
	_, _, _, err = src.InsertSchema(ctx, ledgercontroller.Parameters[ledgercontroller.InsertSchema]{Input: ledgercontroller.InsertSchema{Version: "v1", Data: ledger.SchemaData{Chart: chart}}})
	must(err)
	for _, am := range []struct {
		a string
		m metadata.Metadata
	}{{"users:42", metadata.Metadata{"k1": "v1"}}, {"users:7", metadata.Metadata{"role": "admin"}}} {
		st.Tick(1000000)
		_, _, err = src.SaveAccountMetadata(ctx, ledgercontroller.Parameters[ledgercontroller.SaveAccountMetadata]{SchemaVersion: "v1",
			Input: ledgercontroller.SaveAccountMetadata{Address: am.a, Metadata: am.m}})
		must(err)
	}
	s := &impStack{st: st, ctx: ctx, feat: allOn, a: src}
	data, err := s.export()
	must(err)
	logs, err := decodeLogs(data)
	must(err)
	cp, err := st.Sys.GetLedgerController(ctx, "l2")
	must(err)
	st.Tick(3600 * 1000000)
	if err := realImport(ctx, cp, logs); err != nil {
		return "import of a ledger with a schema and metadata-only accounts failed: [c11-import-failed] " + importClass(err)
	}
	a, b := st.Snapshot(ctx, src, "l1", allOn), st.Snapshot(ctx, cp, "l2", allOn)
	pa, pb := classProj(a)["account-metadata"], classProj(b)["account-metadata"]
	if pa != pb {
		return fmt.Sprintf("the copy lacks the chart default metadata of an account created by a metadata-only write: [c11-import-loses-default-metadata] source %s copy %s", pa, pb)
	}
	return ""
}

func cmdImportx(args []string) int {
	f := ParseFlags(args)
	out := NewOut(f.Out)
	defer out.Close()
	finish := func(run *impRun) {
		cs := run.Case.sx()
		out.Case(cs, run.implSx())
		out.Stats["cases"]++
		out.Stats["http_export_import_round_trips"] = httpRoundTrips
		out.Stats["exported_logs"] += run.Exported
		out.Stats["partial_imports_of_non_exports"] += run.Partial
		out.Stats["imports_stopped_by_reference_reuse"] += run.RefReuse
		if run.RefReuse > 0 {
			out.Stats["distinct_nontrivial_refs"]++
		}
		if run.Exported >= 2 {
			out.Stats["distinct_nontrivial"]++
		}
		for _, v := range run.Viol {
			i := strings.Index(v, "|")
			out.Violation(v[:i], cs, v[i+1:])
		}
	}
	s11b := func() {
		out.Case(s11bCase, s11bCase)
		out.Stats["cases"]++
		out.Stats["s11b_scenario"]++
		if msg := runS11b(); msg != "" {
			out.Violation("C11", s11bCase, msg)
		}
	}
	finishS := func(run *simpRun) {
		cs := run.Case.sx()
		out.Case(cs, run.Impl)
		out.Stats["cases"]++
		out.Stats["schema_cases"]++
		out.Stats["schema_mode_"+run.Case.Mode]++
		out.Stats["exported_logs"] += run.Exported
		if run.Schemas > 0 && run.Exported >= 3 {
			out.Stats["distinct_nontrivial"]++
		}
		if run.Mixed {
			out.Stats["schema_versioned_then_unversioned_create"]++
		}
		for _, v := range run.Viol {
			out.Violation("C11", cs, v)
		}
	}
	if f.Replay != "" {
		for _, line := range ReadLines(f.Replay) {
			if strings.HasPrefix(line, "(importx_schema ") {
				finishS(runSimpCase(parseSimpCase(line), nil))
				continue
			}
			if strings.HasPrefix(line, "(importx_s11b") {
				s11b()
				continue
			}
			finish(runImpCase(parseImpCase(line), nil))
		}
		return 0
	}
	if f.Extra["profile"] == "schemas" {
		r := NewRng(f.Seed)
		for i := 0; i < f.N; i++ {
			rr := r.Fork()
			mode := "audit" // un-versioned writes are accepted next to versioned ones
			if rr.Chance(25) {
				mode = "strict"
			}
			c := simpCase{Mode: mode, Now: int64(1700000000)*1000000 + 3600*1000000}
			finishS(runSimpCase(c, func(exec func(SOp) OpResult) {
				genSHistory(rr, 8, exec)
				if rr.Chance(65) {
					genSchemaTail(rr, exec)
				}
			}))
		}
		return 0
	}
	if f.Extra["profile"] != "refs" {
		s11b()
	}
	r := NewRng(f.Seed)
	feats := []Feat{allOn, {true, true, false, false, false}, {false, false, true, true, true}, {true, false, true, false, false}}
	prof := HistProfile{MaxOps: 10, Backdate: true, AdversarialKV: true}
	refsProfile := f.Extra["profile"] == "refs"
	for i := 0; i < f.N; i++ {
		rr := r.Fork()
		c := impCase{Feat: feats[i%len(feats)]}
		finish(runImpCase(c, func(s *impStack) ([]Op, []impAction) {
			var ops []Op
			var committed []Op // the operations of the source that appended a log, in log order
			genHistory(rr, prof, c.Feat, func(o Op) OpResult {
				if refsProfile && o.Kind == "create" && rr.Chance(70) {
					o.Ref = Pick(rr, []string{"r1", "r2", "ref:3", "inv-7"})
				}
				ops = append(ops, o)
				res := s.stepA(o)
				if res.Panic == "" && res.Class == "none" && !o.Dry && !res.Hit {
					committed = append(committed, o)
				}
				return res
			})
			if refsProfile {
				return ops, genRefScript(rr, s)
			}
			return ops, genScript(rr, ops, committed)
		}))
	}
	return 0
}

// ---------------------------------------------------------------- generator of the script on the copy
func genPostOps(r *Rng, n int, nTx int, now int64, path string) []Op {
	var ops []Op
	for i := 0; i < n; i++ {
		var o Op
		o.Now = now
		if path == "single" {
			o.Now = now + int64(i)*1000000
		}
		k := r.Intn(100)
		switch {
		case k < 55:
			o.Kind = "create"
			np := 1 + r.Intn(2)
			for j := 0; j < np; j++ {
				src := Pick(r, genAccounts)
				if r.Chance(60) {
					src = "world"
				}
				o.Post = append(o.Post, Posting{src, Pick(r, genAccounts), Pick(r, genAssets[:2]), big.NewInt(int64(1 + r.Intn(50)))})
			}
			if r.Chance(25) {
				t := Pick(r, []int64{now - 7200*1000000, now, now + 60*1000000})
				o.TS = &t
			}
			if r.Chance(20) {
				o.Ref = Pick(r, []string{"r1", "r2", "ref:9"})
			}
			o.Meta = genMeta(r, HistProfile{})
			if r.Chance(20) {
				o.AccMeta = map[string][]KV{Pick(r, genAccounts): genMeta(r, HistProfile{})}
			}
			o.Force = r.Chance(20)
		case k < 65:
			o.Kind = "revert"
			o.TxID = 1 + int64(r.Intn(nTx+2))
			o.Force = r.Chance(50)
			o.AtEff = r.Chance(40)
		case k < 75:
			o.Kind = "setmeta"
			o.TxID = 1 + int64(r.Intn(nTx+2))
			o.Meta = []KV{{Pick(r, []string{"k1", "k2"}), Pick(r, []string{"v1", "p"})}}
		case k < 87:
			o.Kind = "setmeta"
			o.IsAcc = true
			o.TgtAcc = Pick(r, genAccounts)
			o.Meta = genMeta(r, HistProfile{})
		case k < 93:
			o.Kind = "delmeta"
			o.TxID = 1 + int64(r.Intn(nTx+2))
			o.Key = Pick(r, []string{"k1", "k2", "role"})
		default:
			o.Kind = "delmeta"
			o.IsAcc = true
			o.TgtAcc = Pick(r, genAccounts)
			o.Key = Pick(r, []string{"k1", "k2", "role"})
		}
		if r.Chance(15) {
			o.IK = Pick(r, []string{"ik1", "ik2", "post-ik"})
		}
		if path == "single" && r.Chance(10) {
			o.Dry = true
		}
		ops = append(ops, o)
	}
	return ops
}

// genRefScript: streams that reuse references (property C14 on the import path): the export followed by its own copy with
// ids shifted above (two NEW_TRANSACTION logs sharing a reference in ONE stream), or the shifted copy imported on top of
// the imported export / of an atomic bulk that holds the reference
func genRefScript(r *Rng, s *impStack) []impAction {
	data, err := s.export()
	must(err)
	logs, err := decodeLogs(data)
	must(err)
	var dl, dt int64
	for _, l := range logs {
		if int64(*l.ID) > dl {
			dl = int64(*l.ID)
		}
		switch p := l.Data.(type) {
		case ledger.CreatedTransaction:
			if int64(*p.Transaction.ID) > dt {
				dt = int64(*p.Transaction.ID)
			}
		case ledger.RevertedTransaction:
			if int64(*p.RevertTransaction.ID) > dt {
				dt = int64(*p.RevertTransaction.ID)
			}
		}
	}
	now := int64(1700000000)*1000000 + 3600*1000000
	tick := func() int64 { now += 60 * 1000000; return now }
	switch r.Intn(3) {
	case 0:
		return []impAction{{Kind: "import_shift", WithOrig: true, Now: tick(), DLog: dl, DTx: dt}}
	case 1:
		return []impAction{{Kind: "import", Drop: 0, Take: -1, Now: tick()}, {Kind: "import_shift", Now: tick(), DLog: dl, DTx: dt}}
	default: // an atomic bulk (the ledger stays initializing) holding r1, then the export shifted above it
		t := tick()
		w := impAction{Kind: "write", Path: "atomic", Now: t, Ops: []Op{{Kind: "create", Post: []Posting{{"world", "bank", "USD", big.NewInt(5)}}, Ref: Pick(r, []string{"r1", "r2"}), Now: t}}}
		return []impAction{w, {Kind: "import_shift", Now: tick(), DLog: 1, DTx: 1}}
	}
}

func genScript(r *Rng, src []Op, committed []Op) []impAction {
	base := int64(1700000000)*1000000 + 3600*1000000
	now := base
	tick := func() int64 { now += 60 * 1000000; return now }
	nTx := 0
	for _, o := range src {
		if o.Kind == "create" || o.Kind == "revert" {
			nTx++
		}
	}
	paths := []string{"single", "bulk", "atomic"}
	write := func(path string) impAction {
		t := tick()
		return impAction{Kind: "write", Path: path, Now: t, Ops: genPostOps(r, 1+r.Intn(3), nTx, t, path)}
	}
	imp := func(drop, take int) impAction { return impAction{Kind: "import", Drop: drop, Take: take, Now: tick()} }
	var sc []impAction
	k := r.Intn(100)
	split := 1 + r.Intn(3)
	switch {
	case k < 12 && len(committed) >= 2:
		// C12, stale facade: request A resolves its controller (cache = initializing), request B writes and completes, request A
		// imports logs whose ids are above the stored ones.  The write replays the source operation that appended log j+1 (same
		// clock), so that the copy's log j+1 equals the source's and, with HASH_LOGS, the rest of the stream chains on it: only
		// the state test (on the ROW re-read under the lock) can refuse the import.
		j := r.Intn(len(committed) - 1) // logs 1..j imported first (possibly none), log j+1 written, logs j+2.. imported stale
		if j > 0 {
			sc = append(sc, imp(0, j))
		}
		sc = append(sc, impAction{Kind: "resolve"})
		w := committed[j]
		sc = append(sc, impAction{Kind: "write", Path: Pick(r, []string{"single", "single", "bulk"}), Now: w.Now, Ops: []Op{w}})
		if w.Kind == "revert" && w.Meta != nil && sc[len(sc)-1].Path == "bulk" {
			sc[len(sc)-1].Path = "single" // a bulk revert element carries no metadata
		}
		sc = append(sc, impAction{Kind: "import_stale", Drop: j + 1, Take: -1, Now: tick()})
		if r.Chance(40) {
			sc = append(sc, imp(j+1, -1)) // and once more through the facade that wrote
		}
	case k < 55: // C11: full import into the pristine copy, then writes through the paths (the first path rotates)
		sc = append(sc, imp(0, -1))
		first := r.Intn(3)
		for i := 0; i < 1+r.Intn(3); i++ {
			sc = append(sc, write(paths[(first+i)%3]))
		}
	case k < 72: // C12: writes first, then the import
		for i := 0; i < 1+r.Intn(2); i++ {
			sc = append(sc, write(Pick(r, paths)))
		}
		sc = append(sc, imp(0, -1))
		if r.Chance(50) {
			sc = append(sc, imp(r.Intn(3), -1))
		}
	case k < 82: // import in two parts / overlapping / repeated
		sc = append(sc, imp(0, split))
		sc = append(sc, imp(Pick(r, []int{split, split, 0, split - 1}), -1))
		sc = append(sc, write(Pick(r, paths)))
	case k < 90: // import, write, import again
		sc = append(sc, imp(0, -1), write(Pick(r, paths)), imp(0, -1))
	case k < 93: // a suffix only
		sc = append(sc, imp(split, -1), write(Pick(r, paths)))
	default: // atomic bulk on the pristine ledger, then the rest of the stream
		w := write("atomic")
		if r.Chance(70) { // a bulk that certainly commits: one funded posting
			w.Ops = []Op{{Kind: "create", Post: []Posting{{"world", Pick(r, genAccounts[1:]), "USD", big.NewInt(int64(1 + r.Intn(50)))}}, Now: w.Now}}
		}
		sc = append(sc, w, imp(Pick(r, []int{0, 1, 1, 1, 2}), -1), write(Pick(r, paths)))
	}
	return sc
}
