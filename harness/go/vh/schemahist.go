//go:build verif

package main

import (
	"context"
	"encoding/json"
	"errors"
	"fmt"
	"math/big"
	"sort"
	"strings"

	"github.com/formancehq/go-libs/v5/pkg/types/metadata"

	ledger "github.com/formancehq/ledger/internal"
	ledgercontroller "github.com/formancehq/ledger/internal/controller/ledger"
	"github.com/formancehq/ledger/internal/verifh/pgsem"
)

// C29 TIE-D: the real stack (system controller -> ledger controller -> store) on pgsem in strict or audit mode:
// schemas with generated charts/templates, then creates (with/without schema version, accounts inside/outside the chart,
// templates) and metadata operations; result class + full ledger snapshot compared with Ledger/SchemaCtrl.v after every
// operation; the C29 monitor is evaluated on the implementation's own trace.
func init() { commands["schemahist"] = cmdSchemaHist }

type STemplate struct {
	Name string
	Post []Posting
}
type SOp struct {
	Schema  bool // insert schema
	Version string
	Chart   *J
	Tpls    []STemplate
	Tpl     string
	Op      Op
}

func tplScript(ps []Posting) string {
	var b strings.Builder
	for _, p := range ps {
		fmt.Fprintf(&b, "send [%s %s] (\n source = @%s\n destination = @%s\n)\n", p.Asset, p.Amt.String(), p.Src, p.Dst)
	}
	return b.String()
}

func postsSx(ps []Posting) string {
	s := make([]string, len(ps))
	for i, p := range ps {
		s[i] = L(Q(p.Src), Q(p.Dst), Q(p.Asset), p.Amt.String())
	}
	return L(s...)
}

func (o SOp) sx() string {
	if o.Schema {
		ts := make([]string, len(o.Tpls))
		for i, t := range o.Tpls {
			ts[i] = L(Q(t.Name), postsSx(t.Post))
		}
		return L(fmt.Sprint(o.Op.Now), L("schema", Q(o.Version), o.Chart.sx(), L(ts...)))
	}
	inner, _ := ParseSx(o.Op.sx())
	_ = inner
	full := o.Op.sx() // (now (op in ik dry))
	// re-wrap: (now (write "v" "tpl" (op ...)))
	i := strings.Index(full, " ")
	return L(full[1:i], L("write", Q(o.Version), Q(o.Tpl), full[i+1:len(full)-1]))
}

// ---------------------------------------------------------------- generator
var sAccounts = []string{"world", "bank", "users:1", "users:42", "users:bob", "users:main", "alice", "users:42:wallet"}

func genSchemaChart(r *Rng) *J {
	root := jobj()
	root.set("world", jobj())
	if r.Chance(80) {
		b := jobj()
		if r.Chance(60) {
			b.set(".metadata", jobj(JKV{"kind", jobj(JKV{"default", jstr(Pick(r, []string{"bank", "b2"}))})}, JKV{"k1", jobj(JKV{"default", jstr("dflt")})}))
		}
		root.set("bank", b)
	}
	users := jobj()
	v := jobj()
	if r.Chance(70) {
		v.set(".pattern", jstr(Pick(r, []string{"^[0-9]+$", "^[a-z]+$", "[0-9]", ""})))
	}
	if r.Chance(70) {
		md := jobj(JKV{"role", jobj(JKV{"default", jstr(Pick(r, []string{"user", "v1"}))})})
		if r.Chance(30) {
			md.set("k2", jobj())
		}
		v.set(".metadata", md)
	}
	if r.Chance(30) {
		v.set("wallet", jobj())
		if v.get(".metadata") != nil || r.Chance(50) {
			v.set(".self", jobj())
		}
	}
	users.set("$id", v)
	if r.Chance(50) {
		users.set("main", jobj(JKV{".metadata", jobj(JKV{"k1", jobj(JKV{"default", jstr("main")})})}))
	}
	if r.Chance(25) {
		users.set(".self", jobj())
	}
	root.set("users", users)
	if r.Chance(15) {
		root.set("alice", jobj())
	}
	return root
}

var sTemplates = []STemplate{
	{"pay", []Posting{{"world", "bank", "USD", big.NewInt(5)}}},
	{"p2", []Posting{{"world", "users:1", "EUR", big.NewInt(2)}}},
	{"out", []Posting{{"world", "alice", "USD", big.NewInt(3)}}},
}

func genSHistory(r *Rng, maxOps int, exec func(SOp) OpResult) {
	n := 2 + r.Intn(maxOps)
	base := int64(1700000000) * 1000000
	now := base
	nschemas := 0
	var versions []string
	var iked []SOp
	out_replays := 0
	var okTx []int64
	ntx := int64(0)
	for i := 0; i < n; i++ {
		now += 1000000
		var so SOp
		so.Op.Now = now
		k := r.Intn(100)
		switch {
		case (i == 0 && r.Chance(70)) || k < 12:
			so.Schema = true
			so.Version = fmt.Sprintf("v%d", 1+r.Intn(3))
			so.Chart = genSchemaChart(r)
			if r.Chance(35) {
				so.Tpls = append(so.Tpls, sTemplates[0])
				if r.Chance(50) {
					so.Tpls = append(so.Tpls, sTemplates[1+r.Intn(2)])
				}
				sort.Slice(so.Tpls, func(a, b int) bool { return so.Tpls[a].Name < so.Tpls[b].Name })
			}
			nschemas++
		default:
			o := &so.Op
			switch {
			case k < 62 || ntx == 0:
				o.Kind = "create"
				np := 1 + r.Intn(2)
				for j := 0; j < np; j++ {
					src := "world"
					if r.Chance(25) {
						src = Pick(r, sAccounts)
					}
					o.Post = append(o.Post, Posting{src, Pick(r, sAccounts), Pick(r, genAssets[:2]), big.NewInt(int64(1 + r.Intn(50)))})
				}
				if r.Chance(30) {
					o.AccMeta = map[string][]KV{Pick(r, sAccounts): genMeta(r, HistProfile{})}
				}
				o.Meta = genMeta(r, HistProfile{})
				o.Force = r.Chance(10)
				ntx++
			case k < 68:
				o.Kind = "revert"
				o.TxID = 1 + int64(r.Intn(int(ntx)+1))
				if len(okTx) > 0 && r.Chance(75) {
					o.TxID = Pick(r, okTx)
				}
				o.Force = r.Chance(50)
				ntx++
			case k < 86:
				o.Kind = "setmeta"
				o.IsAcc = true
				o.TgtAcc = Pick(r, sAccounts)
				o.Meta = genMeta(r, HistProfile{})
				if r.Chance(30) {
					o.Meta = []KV{{Pick(r, []string{"role", "kind", "k1"}), Pick(r, []string{"admin", "v9"})}}
				}
			case k < 93:
				o.Kind = "delmeta"
				o.IsAcc = true
				o.TgtAcc = Pick(r, sAccounts)
				o.Key = Pick(r, []string{"k1", "role", "kind"})
			default:
				o.Kind = "setmeta"
				o.TxID = 1 + int64(r.Intn(int(ntx)+1))
				o.Meta = []KV{{"k1", "v1"}}
			}
			o.Dry = r.Chance(6)
			switch v := r.Intn(100); {
			case v < 55 && len(versions) > 0:
				so.Version = Pick(r, versions)
				if r.Chance(8) {
					so.Version = fmt.Sprintf("v%d", 1+r.Intn(3))
				}
			case v < 63:
				so.Version = "v9"
			}
			if o.Kind == "create" {
				switch t := r.Intn(100); {
				case t < 25:
					so.Tpl = "pay"
				case t < 32:
					so.Tpl = Pick(r, []string{"p2", "out", "nope"})
				}
				if so.Tpl != "" { // the template's script replaces the submitted one: nothing else of the script is part of the input
					o.Post, o.Force = nil, false
				}
			}
			if r.Chance(22) {
				o.IK = Pick(r, []string{"ik1", "ik2", "ik3"})
			}
			// replay of an earlier write under its idempotency key: same input, or another version / template / metadata
			if len(iked) > 0 && r.Chance(14) {
				so = iked[r.Intn(len(iked))]
				so.Op.Now = now
				switch r.Intn(6) {
				case 0:
					so.Version = Pick(r, []string{"", "v1", "v2", "v9"})
				case 1:
					if so.Op.Kind == "create" {
						so.Tpl = Pick(r, []string{"", "pay", "p2"})
						if so.Tpl != "" {
							so.Op.Post, so.Op.Force = nil, false
						} else if len(so.Op.Post) == 0 {
							so.Op.Post = []Posting{{"world", "bank", "USD", big.NewInt(9)}}
						}
					}
				case 2:
					so.Op.Meta = append(append([]KV{}, so.Op.Meta...), KV{"zz", "1"})
					sort.Slice(so.Op.Meta, func(a, b int) bool { return so.Op.Meta[a].K < so.Op.Meta[b].K })
					so.Op.Meta = dedupKV(so.Op.Meta)
				}
				out_replays++
			}
		}
		if !so.Schema && so.Op.IK != "" {
			iked = append(iked, so)
		}
		res := exec(so)
		if res.Panic != "" {
			return
		}
		if res.Class == "none" && res.TxID != nil && !so.Op.Dry {
			okTx = append(okTx, *res.TxID)
		}
		if res.Class == "none" && so.Schema {
			versions = append(versions, so.Version)
		}
	}
	_, _ = nschemas, out_replays
}

func dedupKV(m []KV) []KV {
	var out []KV
	for _, kv := range m {
		if len(out) > 0 && out[len(out)-1].K == kv.K {
			continue
		}
		out = append(out, kv)
	}
	return out
}

// ---------------------------------------------------------------- executor
func sclassify(err error) string {
	switch {
	case err == nil:
		return "none"
	case errors.Is(err, ledgercontroller.ErrSchemaNotFound{}):
		return "schema_not_found"
	case errors.Is(err, ledgercontroller.ErrSchemaNotSpecified{}):
		return "schema_not_specified"
	case errors.Is(err, ledgercontroller.ErrSchemaValidationError{}):
		return "schema_validation"
	case errors.Is(err, ledgercontroller.ErrSchemaAlreadyExists{}):
		return "schema_already_exists"
	}
	return classify(err)
}

type SRun struct {
	Mode   string
	St     *Stack
	ctx    context.Context
	ctrl   ledgercontroller.Controller
	Ops    []SOp
	Res    []OpResult
	Snaps  []Snap
	Extras []string
	API      *httpAPI // non-nil: requests and reads go through the v2 HTTP API (TIE-H)
	HTTPDiff []string
}

func newSRun(mode string) *SRun {
	m := ledgercontroller.SchemaEnforcementAudit
	if mode == "strict" {
		m = ledgercontroller.SchemaEnforcementStrict
	}
	st := NewStack(StackOpts{Mode: m})
	sr := &SRun{Mode: mode, St: st, ctx: context.Background()}
	if err := st.Sys.CreateLedger(sr.ctx, "l1", ledger.Configuration{Bucket: "_default", Features: allOn.set()}); err != nil {
		panic(fmt.Errorf("create ledger: %w", err))
	}
	ctrl, err := st.Sys.GetLedgerController(sr.ctx, "l1")
	must(err)
	sr.ctrl = ctrl
	return sr
}

func sparams[T any](so SOp, in T) ledgercontroller.Parameters[T] {
	return ledgercontroller.Parameters[T]{DryRun: so.Op.Dry, IdempotencyKey: so.Op.IK, Input: in, SchemaVersion: so.Version}
}

func (sr *SRun) exec(so SOp) (res OpResult) {
	defer func() {
		if r := recover(); r != nil {
			res = OpResult{Panic: fmt.Sprint(r)}
		}
	}()
	ctx, ctrl, o := sr.ctx, sr.ctrl, so.Op
	var (
		log *ledger.Log
		hit bool
		err error
	)
	switch {
	case so.Schema:
		var chart ledger.ChartOfAccounts
		must(json.Unmarshal([]byte(so.Chart.text()), &chart))
		data := ledger.SchemaData{Chart: chart}
		if len(so.Tpls) > 0 {
			data.Transactions = ledger.TransactionTemplates{}
			for _, t := range so.Tpls {
				data.Transactions[t.Name] = ledger.TransactionTemplate{Description: t.Name, Script: tplScript(t.Post)}
			}
		}
		log, _, hit, err = ctrl.InsertSchema(ctx, ledgercontroller.Parameters[ledgercontroller.InsertSchema]{Input: ledgercontroller.InsertSchema{Version: so.Version, Data: data}})
	case o.Kind == "create":
		td := ledger.TransactionData{Metadata: kvmap(o.Meta), Reference: o.Ref}
		for _, p := range o.Post {
			td.Postings = append(td.Postings, ledger.NewPosting(p.Src, p.Dst, p.Asset, new(big.Int).Set(p.Amt)))
		}
		if o.TS != nil { // (the schema histories never set it; the bulk tie does)
			td.Timestamp.Time = tsOf(*o.TS)
		}
		rs := ledgercontroller.TxToScriptData(td, o.Force)
		if so.Tpl != "" {
			rs.Script = ledgercontroller.Script{Template: so.Tpl, Vars: map[string]string{}}
		}
		in := ledgercontroller.CreateTransaction{RunScript: rs}
		if o.AccMeta != nil {
			in.AccountMetadata = map[string]metadata.Metadata{}
			for a, m := range o.AccMeta {
				in.AccountMetadata[a] = kvmap(m)
			}
		}
		var ct *ledger.CreatedTransaction
		log, ct, hit, err = ctrl.CreateTransaction(ctx, sparams(so, in))
		if err == nil {
			res.Tx = &ct.Transaction
		}
	case o.Kind == "revert":
		var rt *ledger.RevertedTransaction
		log, rt, hit, err = ctrl.RevertTransaction(ctx, sparams(so, ledgercontroller.RevertTransaction{Force: o.Force, AtEffectiveDate: o.AtEff, TransactionID: uint64(o.TxID), Metadata: revertMeta(o)}))
		if err == nil {
			res.Tx = &rt.RevertTransaction
		}
	case o.Kind == "setmeta" && o.IsAcc:
		log, hit, err = ctrl.SaveAccountMetadata(ctx, sparams(so, ledgercontroller.SaveAccountMetadata{Address: o.TgtAcc, Metadata: kvmap(o.Meta)}))
	case o.Kind == "setmeta":
		log, hit, err = ctrl.SaveTransactionMetadata(ctx, sparams(so, ledgercontroller.SaveTransactionMetadata{TransactionID: uint64(o.TxID), Metadata: kvmap(o.Meta)}))
	case o.Kind == "delmeta" && o.IsAcc:
		log, hit, err = ctrl.DeleteAccountMetadata(ctx, sparams(so, ledgercontroller.DeleteAccountMetadata{Address: o.TgtAcc, Key: o.Key}))
	default:
		log, hit, err = ctrl.DeleteTransactionMetadata(ctx, sparams(so, ledgercontroller.DeleteTransactionMetadata{TransactionID: uint64(o.TxID), Key: o.Key}))
	}
	res.Class = sclassify(err)
	if err == nil {
		res.Log = log
		res.LogID = int64(*log.ID)
		res.Hit = hit
		if res.Tx != nil && res.Tx.ID != nil {
			id := int64(*res.Tx.ID)
			res.TxID = &id
		} else if hit {
			switch p := log.Data.(type) {
			case ledger.CreatedTransaction:
				id := int64(*p.Transaction.ID)
				res.TxID = &id
			case ledger.RevertedTransaction:
				id := int64(*p.RevertTransaction.ID)
				res.TxID = &id
			}
		}
	}
	return res
}

// schemas table and logs.schema_version, read from the raw tables
func (sr *SRun) extra() string {
	sess := sr.St.PG.NewSession()
	defer sess.Close()
	q := func(sql string) [][]string {
		res, err := sess.Exec(sql)
		must(err)
		out := make([][]string, len(res.Rows))
		for i, r := range res.Rows {
			out[i] = make([]string, len(r))
			for j, v := range r {
				if v == nil {
					out[i][j] = ""
				} else {
					out[i][j] = pgsemText(v)
				}
			}
		}
		return out
	}
	var ss, lv []string
	for _, r := range q(`select version, created_at from schemas where ledger = 'l1' order by version`) {
		ss = append(ss, L(Q(r[0]), fmt.Sprint(tsText(r[1]))))
	}
	for _, r := range q(`select id, schema_version from logs where ledger = 'l1' and type <> 'INSERTED_SCHEMA' order by id`) {
		lv = append(lv, L(r[0], Q(r[1])))
	}
	return L(L("schemas", L(ss...)), L("logver", L(lv...)))
}

func (sr *SRun) Step(so SOp) OpResult {
	sr.St.PG.Clock = pgsem.TS(so.Op.Now)
	var res OpResult
	if sr.API != nil {
		res = sr.API.runSOp("l1", so)
	} else {
		res = sr.exec(so)
	}
	sr.Ops = append(sr.Ops, so)
	sr.Res = append(sr.Res, res)
	if res.Panic == "" {
		cs := sr.St.Snapshot(sr.ctx, sr.ctrl, "l1", allOn)
		if sr.API != nil {
			hs := sr.St.SnapshotHTTP(sr.API, "l1", allOn)
			if hs.Err != "" {
				sr.HTTPDiff = append(sr.HTTPDiff, fmt.Sprintf("after operation %d: %s [http-read-error]", len(sr.Ops), hs.Err))
			} else if cs.sx() != hs.sx() || fmt.Sprint(cs.Agg) != fmt.Sprint(hs.Agg) {
				sr.HTTPDiff = append(sr.HTTPDiff, fmt.Sprintf("after operation %d the v2 read endpoints and the controller reads differ [http-read-differs]: http %s / controller %s", len(sr.Ops), diffAt(hs.sx(), cs.sx()), diffAt(cs.sx(), hs.sx())))
			}
			cs = hs
		}
		sr.Snaps = append(sr.Snaps, cs)
		sr.Extras = append(sr.Extras, sr.extra())
	}
	return res
}

func (sr *SRun) caseSx() string {
	s := make([]string, len(sr.Ops))
	for i, o := range sr.Ops {
		s[i] = o.sx()
	}
	head := "shist"
	if sr.API != nil {
		head = "shisth"
	}
	return L(head, sr.Mode, L(s...))
}
func (sr *SRun) traceSx() string {
	var steps []string
	for i, r := range sr.Res {
		if r.Panic != "" {
			steps = append(steps, L(r.sx()))
			break
		}
		steps = append(steps, L(r.sx(), sr.Snaps[i].sx(), sr.Extras[i]))
	}
	return L("trace", L(steps...))
}

// ---------------------------------------------------------------- C29 monitor (implementation trace only)
type sSchemaInfo struct {
	chart ledger.ChartOfAccounts
	tpls  map[string][]Posting
}

func accMetaOf(s Snap) map[string]map[string]string {
	out := map[string]map[string]string{}
	for _, a := range s.Accounts {
		m := map[string]string{}
		for _, kv := range a.Meta {
			m[kv.K] = kv.V
		}
		out[a.Addr] = m
	}
	return out
}

func monitorC29(sr *SRun) string {
	schemas := map[string]*sSchemaInfo{}
	prevSnap, prevExtra := "", ""
	var prevAcc map[string]map[string]string
	for i, so := range sr.Ops {
		res := sr.Res[i]
		if res.Panic != "" {
			return ""
		}
		snap, extra := sr.Snaps[i].sx(), sr.Extras[i]
		acc := accMetaOf(sr.Snaps[i])
		step := fmt.Sprintf("step %d (%s mode)", i, sr.Mode)
		if i > 0 && (res.Class != "none" || so.Op.Dry || res.Hit) && (snap != prevSnap || extra != prevExtra) {
			return fmt.Sprintf("%s: operation answered %q (dry=%v, idempotency hit=%v) but the ledger changed [rejected-write-left-a-trace]", step, res.Class, so.Op.Dry, res.Hit)
		}
		if so.Schema {
			if res.Class == "none" {
				info := &sSchemaInfo{tpls: map[string][]Posting{}}
				must(json.Unmarshal([]byte(so.Chart.text()), &info.chart))
				for _, t := range so.Tpls {
					info.tpls[t.Name] = t.Post
				}
				schemas[so.Version] = info
			}
		} else {
			sc := schemas[so.Version]
			// ---- violations of the schema rules
			viol := ""
			switch {
			case so.Version == "" && len(schemas) > 0:
				viol = "version-missing"
			case so.Version != "" && sc == nil:
				viol = "version-unknown"
			case so.Op.Kind == "create" && sc != nil && len(sc.tpls) > 0 && so.Tpl == "":
				viol = "no-template"
			}
			if sr.Mode == "strict" {
				if viol != "" && res.Class == "none" && !res.Hit {
					return fmt.Sprintf("%s: strict mode accepted a write violating the schema rules (%s) [strict-accepted-%s]", step, viol, viol)
				}
				if res.Class == "none" && !res.Hit && sc != nil && res.Tx != nil && so.Op.Kind == "create" {
					for _, p := range res.Tx.Postings {
						if err := sc.chart.ValidatePosting(p); err != nil {
							return fmt.Sprintf("%s: strict mode committed posting %s->%s although the chart of schema %s rejects it: %v [strict-accepted-outside-chart]", step, p.Source, p.Destination, so.Version, err)
						}
					}
				}
			} else {
				// a template named without any schema at hand is a legitimate rejection in both modes
				legit := viol == "version-missing" && so.Tpl != "" && res.Class == "schema_validation"
				if viol != "" && strings.HasPrefix(res.Class, "schema_") && !legit {
					return fmt.Sprintf("%s: audit mode rejected a write for a schema rule (%s): %s [audit-rejected-%s]", step, viol, res.Class, viol)
				}
				if viol == "" && res.Class == "schema_validation" && so.Op.Kind == "create" && sc != nil && (so.Tpl == "" || sc.tpls[so.Tpl] != nil) {
					return fmt.Sprintf("%s: audit mode rejected a transaction with a schema validation error [audit-rejected-chart]", step)
				}
			}
			// ---- default metadata: applied at first creation (default || given), never later
			if res.Class == "none" && !so.Op.Dry && !res.Hit {
				given := map[string]map[string]string{}
				switch so.Op.Kind {
				case "create":
					for a, m := range so.Op.AccMeta {
						given[a] = kvmap(m)
					}
				case "setmeta":
					if so.Op.IsAcc {
						given[so.Op.TgtAcc] = kvmap(so.Op.Meta)
					}
				}
				for a, m := range acc {
					old, existed := prevAcc[a]
					if !existed {
						want := map[string]string{}
						if sc != nil {
							if as, err := sc.chart.FindAccountSchema(a); err == nil {
								for k, v := range as.DefaultMetadata() {
									want[k] = v
								}
							}
						}
						for k, v := range given[a] {
							want[k] = v
						}
						if fmt.Sprint(sortKV(want)) != fmt.Sprint(sortKV(m)) {
							return fmt.Sprintf("%s: account %s created with metadata %v, expected chart defaults || given = %v [defaults-at-creation]", step, a, sortKV(m), sortKV(want))
						}
						continue
					}
					for k, v := range m {
						if gv, ok := given[a][k]; ok {
							if gv != v {
								return fmt.Sprintf("%s: account %s key %s is %q, given %q [given-metadata-lost]", step, a, k, v, gv)
							}
						} else if ov, ok := old[k]; !ok || ov != v {
							return fmt.Sprintf("%s: existing account %s: key %s changed from %q to %q without being given (chart default applied on a later upsert?) [defaults-overwrite-existing]", step, a, k, old[k], v)
						}
					}
				}
			}
		}
		prevSnap, prevExtra, prevAcc = snap, extra, acc
	}
	return ""
}

func cmdSchemaHist(args []string) int {
	f := ParseFlags(args)
	out := NewOut(f.Out)
	defer out.Close()
	maxOps := 10
	finish := func(sr *SRun) {
		cs := sr.caseSx()
		out.Case(cs, sr.traceSx())
		out.Stats["cases"]++
		out.Stats["mode_"+sr.Mode]++
		out.Stats["ops"] += len(sr.Ops)
		nok := 0
		for i, r := range sr.Res {
			if r.Panic != "" {
				out.Stats["res_panic"]++
				continue
			}
			c := r.Class
			if strings.HasPrefix(c, "other:") {
				c = "other"
			}
			out.Stats["res_"+c]++
			if r.Class == "none" {
				nok++
			}
			if sr.Ops[i].Schema {
				out.Stats["op_schema"]++
			} else {
				out.Stats["op_"+sr.Ops[i].Op.Kind]++
				if sr.Ops[i].Version != "" {
					out.Stats["with_schema_version"]++
				}
				if sr.Ops[i].Tpl != "" {
					out.Stats["with_template"]++
				}
				if sr.Ops[i].Op.IK != "" {
					out.Stats["with_idempotency_key"]++
				}
				if r.Hit {
					out.Stats["idempotency_hits"]++
				}
			}
		}
		if nok >= 3 {
			out.Stats["distinct_nontrivial"]++
		}
		if sr.API == nil { // (the monitor reads Go values an HTTP answer does not carry)
			if msg := monitorC29(sr); msg != "" {
				out.Violation("C29", cs, msg)
			}
		}
		for _, msg := range sr.HTTPDiff {
			out.Violation("C29", cs, msg)
		}
	}
	open := func(mode string) *SRun {
		sr := newSRun(mode)
		if f.Extra["via"] == "http" {
			sr.API = newHTTPAPI(sr.St)
		}
		return sr
	}
	if f.Replay != "" {
		for _, line := range ReadLines(f.Replay) {
			mode, ops := parseSHistCase(line)
			sr := open(mode)
			for _, o := range ops {
				if sr.Step(o).Panic != "" {
					break
				}
			}
			finish(sr)
		}
		return 0
	}
	r := NewRng(f.Seed)
	for i := 0; i < f.N; i++ {
		rr := r.Fork()
		mode := "strict"
		if rr.Chance(45) {
			mode = "audit"
		}
		sr := open(mode)
		genSHistory(rr, maxOps, sr.Step)
		finish(sr)
	}
	return 0
}

func parsePostings(sx *Sx) []Posting {
	var out []Posting
	for _, p := range sx.List {
		amt, _ := new(big.Int).SetString(p.List[3].Atom, 10)
		out = append(out, Posting{p.List[0].Atom, p.List[1].Atom, p.List[2].Atom, amt})
	}
	return out
}

func parseSHistCase(line string) (string, []SOp) {
	sx, err := ParseSx(line)
	must(err)
	mode := sx.List[1].Atom
	var ops []SOp
	for _, e := range sx.List[2].List {
		var so SOp
		now := atoi(e.List[0].Atom)
		body := e.List[1]
		if body.List[0].Atom == "schema" {
			so.Schema = true
			so.Version = body.List[1].Atom
			so.Chart = parseJSx(body.List[2])
			for _, t := range body.List[3].List {
				so.Tpls = append(so.Tpls, STemplate{t.List[0].Atom, parsePostings(t.List[1])})
			}
			so.Op.Now = now
		} else {
			so.Version = body.List[1].Atom
			so.Tpl = body.List[2].Atom
			// reuse the history parser on a one-operation history
			_, one := parseHistCase(L("hist", allOn.sx(), L(L(fmt.Sprint(now), sxText(body.List[3])))))
			so.Op = one[0]
		}
		ops = append(ops, so)
	}
	return mode, ops
}

func sxText(x *Sx) string {
	if x.IsLst {
		s := make([]string, len(x.List))
		for i, e := range x.List {
			s[i] = sxText(e)
		}
		return L(s...)
	}
	if x.Str {
		return Q(x.Atom)
	}
	return x.Atom
}
