//go:build verif

package main

import (
	"encoding/json"
	"fmt"
	"math/big"
	"net/url"
	"sort"
	"strings"
)

// TIE-H for the read-side probes: the same point-in-time / window / grouped / filtered reads issued as v2 GET requests
// (query parameters pit / oot, their legacy spellings endTime / startTime on /volumes, insertionDate, use_insertion_date /
// useInsertionDate, groupBy, expand, sort, query=<filter JSON>) and decoded from the JSON answers, page by page. The printed
// answer has the form of the controller-level probe, so the same read-side model (Ledger/Reads.v) is the oracle.

func (q *mflt) json() string {
	switch q.Op {
	case "match":
		return fmt.Sprintf(`{"$match":{%s:%s}}`, jsonStr("metadata["+q.K+"]"), jsonStr(q.V))
	case "exists":
		return fmt.Sprintf(`{"$exists":{"metadata":%s}}`, jsonStr(q.K))
	case "not":
		return `{"$not":` + q.A.json() + `}`
	}
	return fmt.Sprintf(`{"$%s":[%s,%s]}`, q.Op, q.A.json(), q.B.json())
}

func (hr *HistRun) runProbeHTTP(p Probe, nth int) (a ProbeAns) {
	defer func() {
		if r := recover(); r != nil {
			a = ProbeAns{Sx: L("error", Q(fmt.Sprint("panic: ", r)))}
		}
	}()
	if hr.API == nil {
		hr.API = newHTTPAPI(hr.St)
	}
	h := hr.API
	base := "/v2/l1"
	q := url.Values{}
	legacy := nth%2 == 1 // alternate the documented spellings
	setPIT := func(volumes bool) {
		if p.PIT != nil {
			if volumes && legacy {
				q.Set("endTime", rfc3339us(*p.PIT))
			} else {
				q.Set("pit", rfc3339us(*p.PIT))
			}
		}
		if p.OOT != nil {
			if volumes && legacy {
				q.Set("startTime", rfc3339us(*p.OOT))
			} else {
				q.Set("oot", rfc3339us(*p.OOT))
			}
		}
	}
	rejected := func(err error) ProbeAns {
		if strings.Contains(err.Error(), ": 400 ") {
			return ProbeAns{Sx: L("rejected"), Rejected: true}
		}
		return ProbeAns{Sx: L("error", Q(err.Error())), Rejected: true}
	}
	v4 := func(rows [][4]string) string {
		sort.Slice(rows, func(i, j int) bool { return rows[i][0]+"\x00"+rows[i][1] < rows[j][0]+"\x00"+rows[j][1] })
		out := make([]string, len(rows))
		for i, x := range rows {
			out[i] = L(Q(x[0]), Q(x[1]), x[2], x[3])
		}
		return L(out...)
	}
	accSx := func(x jAcc) string {
		return L(Q(x.Address), kvsx(sortKV(x.Metadata)), fmt.Sprint(us(x.FirstUsage)), fmt.Sprint(us(x.InsertionDate)), fmt.Sprint(us(x.UpdatedAt)))
	}
	switch p.Kind {
	case "vol", "volq":
		setPIT(true)
		if p.Ins {
			q.Set("insertionDate", "true")
		}
		if p.G > 0 {
			q.Set("groupBy", fmt.Sprint(p.G))
		}
		if p.Q != nil {
			q.Set("query", p.Q.json())
		}
		raws, err := httpListAll[json.RawMessage](h, base+"/volumes", q, 2+nth%3)
		if err != nil {
			return rejected(err)
		}
		var rows [][4]string
		for _, raw := range raws {
			var id struct{ Account, Asset string }
			var v jVolumes
			must(json.Unmarshal(raw, &id))
			must(json.Unmarshal(raw, &v))
			if new(big.Int).Sub(bigOf(string(v.Input)), bigOf(string(v.Output))).String() != string(v.Balance) {
				return ProbeAns{Sx: L("error", Q(fmt.Sprintf("volumes row %s/%s: balance %s is not input %s - output %s", id.Account, id.Asset, v.Balance, v.Input, v.Output)))}
			}
			rows = append(rows, [4]string{id.Account, id.Asset, string(v.Input), string(v.Output)})
		}
		a.Sx = L("rows", v4(rows))
	case "agg", "aggq":
		setPIT(false)
		if p.Ins {
			if legacy {
				q.Set("use_insertion_date", "true")
			} else {
				q.Set("useInsertionDate", "true")
			}
		}
		if p.Kind == "agg" && p.Acc != "" {
			q.Set("query", fmt.Sprintf(`{"$match":{"address":%s}}`, jsonStr(p.Acc)))
		}
		if p.Q != nil {
			q.Set("query", p.Q.json())
		}
		resp := h.do("GET", base+"/aggregate/balances?"+q.Encode(), nil, "")
		if resp.Code != 200 {
			return rejected(fmt.Errorf("GET aggregate/balances: %d %s", resp.Code, short(resp.Body)))
		}
		var agg struct {
			Data map[string]jAmount `json:"data"`
		}
		must(json.Unmarshal(resp.Body, &agg))
		var cs, xs []string
		for c := range agg.Data {
			cs = append(cs, c)
		}
		sort.Strings(cs)
		for _, c := range cs {
			xs = append(xs, L(Q(c), string(agg.Data[c])))
		}
		a.Sx = L("agg", L(xs...))
	case "accs", "accsq":
		setPIT(false)
		if p.Q != nil {
			q.Set("query", p.Q.json())
		}
		as, err := httpListAll[jAcc](h, base+"/accounts", q, 2+nth%2)
		if err != nil {
			return rejected(err)
		}
		var xs []string
		for _, x := range as {
			xs = append(xs, accSx(x))
		}
		sort.Strings(xs)
		a.Sx = L("accs", L(xs...))
	case "accvol":
		setPIT(false)
		ex := "volumes"
		if p.Eff {
			ex = "effectiveVolumes"
		}
		q.Set("expand", ex)
		raws, err := httpListAll[json.RawMessage](h, base+"/accounts", q, 2+nth%3)
		if err != nil {
			return rejected(err)
		}
		type accV struct {
			Address          string              `json:"address"`
			Volumes          map[string]jVolumes `json:"volumes"`
			EffectiveVolumes map[string]jVolumes `json:"effectiveVolumes"`
		}
		var as []accV
		for _, raw := range raws {
			var x accV
			must(json.Unmarshal(raw, &x))
			as = append(as, x)
		}
		sort.Slice(as, func(i, j int) bool { return as[i].Address < as[j].Address })
		var xs []string
		for _, x := range as {
			vm := x.Volumes
			if p.Eff {
				vm = x.EffectiveVolumes
			}
			var rows [][4]string
			for c, v := range vm {
				rows = append(rows, [4]string{x.Address, c, string(v.Input), string(v.Output)})
			}
			xs = append(xs, L(Q(x.Address), v4(rows)))
		}
		a.Sx = L("accvol", L(xs...))
	default: // txs
		setPIT(false)
		q.Set("sort", "id:asc")
		ts, err := httpListAll[jTx](h, base+"/transactions", q, 2+nth%3)
		if err != nil {
			return rejected(err)
		}
		var xs []string
		for _, t := range ts {
			rev := "nil"
			if t.RevertedAt != nil {
				rev = fmt.Sprint(us(*t.RevertedAt))
			}
			xs = append(xs, L(fmt.Sprint(t.ID), kvsx(sortKV(t.Metadata)), fmt.Sprint(us(t.Timestamp)), rev))
		}
		a.Sx = L("txs", L(xs...))
	}
	return a
}
