//go:build verif

package main

import (
	"bufio"
	"fmt"
	"math/big"
	"os"
	"strings"
)

// ---------- deterministic PRNG (splitmix64); every random choice derives from VERIF_SEED ----------
type Rng struct{ s uint64 }

func NewRng(seed uint64) *Rng { return &Rng{s: seed*0x9E3779B97F4A7C15 + 0x1234567} }
func (r *Rng) Next() uint64 {
	r.s += 0x9E3779B97F4A7C15
	z := r.s
	z = (z ^ (z >> 30)) * 0xBF58476D1CE4E5B9
	z = (z ^ (z >> 27)) * 0x94D049BB133111EB
	return z ^ (z >> 31)
}
func (r *Rng) Intn(n int) int {
	if n <= 0 {
		return 0
	}
	return int(r.Next() % uint64(n))
}
func (r *Rng) Bool() bool        { return r.Next()&1 == 1 }
func (r *Rng) Chance(p int) bool { return r.Intn(100) < p } // p percent
func (r *Rng) Fork() *Rng        { return &Rng{s: r.Next()} }
func Pick[T any](r *Rng, xs []T) T { return xs[r.Intn(len(xs))] }

// BigAmount draws from the magnitude lattice used everywhere: 0,1,small, 2^53±1, 2^63±1, 2^64±1, 10^30, random big
func (r *Rng) BigAmount() *big.Int {
	p := func(b int64, e int64, d int64) *big.Int {
		x := new(big.Int).Exp(big.NewInt(b), big.NewInt(e), nil)
		return x.Add(x, big.NewInt(d))
	}
	switch r.Intn(14) {
	case 0:
		return big.NewInt(0)
	case 1:
		return big.NewInt(1)
	case 2, 3, 4, 5:
		return big.NewInt(int64(r.Intn(200)))
	case 6:
		return p(2, 53, int64(r.Intn(3)-1))
	case 7:
		return p(2, 63, int64(r.Intn(3)-1))
	case 8:
		return p(2, 64, int64(r.Intn(3)-1))
	case 9:
		return p(10, 30, int64(r.Intn(5)))
	case 10:
		return big.NewInt(int64(r.Intn(1000000)))
	default:
		x := new(big.Int)
		for i := 0; i < 1+r.Intn(4); i++ {
			x.Lsh(x, 64)
			x.Or(x, new(big.Int).SetUint64(r.Next()))
		}
		return x
	}
}

// ---------- s-expression writer (reader lives on the OCaml side; Go only needs a small reader for replays) ----------
func Q(s string) string {
	var b strings.Builder
	b.WriteByte('"')
	for i := 0; i < len(s); i++ {
		c := s[i]
		if c == '"' || c == '\\' {
			b.WriteByte('\\')
			b.WriteByte(c)
		} else if c < 32 || c > 126 {
			fmt.Fprintf(&b, "\\x%02x", c)
		} else {
			b.WriteByte(c)
		}
	}
	b.WriteByte('"')
	return b.String()
}

func L(items ...string) string { return "(" + strings.Join(items, " ") + ")" }

type Sx struct {
	Atom  string
	Str   bool
	List  []*Sx
	IsLst bool
}

func ParseSx(s string) (*Sx, error) {
	pos := 0
	var item func() (*Sx, error)
	skip := func() {
		for pos < len(s) && (s[pos] == ' ' || s[pos] == '\n' || s[pos] == '\t') {
			pos++
		}
	}
	hex := func(c byte) byte {
		switch {
		case c >= '0' && c <= '9':
			return c - '0'
		case c >= 'a' && c <= 'f':
			return c - 'a' + 10
		default:
			return c - 'A' + 10
		}
	}
	item = func() (*Sx, error) {
		skip()
		if pos >= len(s) {
			return nil, fmt.Errorf("unexpected end")
		}
		switch s[pos] {
		case '(':
			pos++
			out := &Sx{IsLst: true}
			for {
				skip()
				if pos >= len(s) {
					return nil, fmt.Errorf("unclosed")
				}
				if s[pos] == ')' {
					pos++
					return out, nil
				}
				it, err := item()
				if err != nil {
					return nil, err
				}
				out.List = append(out.List, it)
			}
		case '"':
			pos++
			var b []byte
			for {
				if pos >= len(s) {
					return nil, fmt.Errorf("unclosed string")
				}
				c := s[pos]
				if c == '"' {
					pos++
					return &Sx{Atom: string(b), Str: true}, nil
				}
				if c == '\\' {
					if s[pos+1] == 'x' {
						b = append(b, hex(s[pos+2])*16+hex(s[pos+3]))
						pos += 4
					} else {
						b = append(b, s[pos+1])
						pos += 2
					}
					continue
				}
				b = append(b, c)
				pos++
			}
		default:
			st := pos
			for pos < len(s) && s[pos] != ' ' && s[pos] != '(' && s[pos] != ')' && s[pos] != '\n' && s[pos] != '\t' {
				pos++
			}
			return &Sx{Atom: s[st:pos]}, nil
		}
	}
	r, err := item()
	if err != nil {
		return nil, err
	}
	skip()
	if pos != len(s) {
		return nil, fmt.Errorf("trailing input")
	}
	return r, nil
}

// ---------- output files of a run: cases (inputs), impl (implementation answers), monitor (violations) ----------
type Out struct {
	dir                  string
	cases, impl, monitor *bufio.Writer
	files                []*os.File
	Stats                map[string]int
	Samples              []string
	NViol                int
}

func NewOut(dir string) *Out {
	must(os.MkdirAll(dir, 0o755))
	o := &Out{dir: dir, Stats: map[string]int{}}
	open := func(n string) *bufio.Writer {
		f, err := os.Create(dir + "/" + n)
		must(err)
		o.files = append(o.files, f)
		return bufio.NewWriterSize(f, 1<<20)
	}
	o.cases, o.impl, o.monitor = open("cases.sx"), open("impl.sx"), open("monitor.sx")
	return o
}
func (o *Out) Case(c, impl string) {
	fmt.Fprintln(o.cases, c)
	fmt.Fprintln(o.impl, impl)
	if len(o.Samples) < 3 {
		o.Samples = append(o.Samples, c+" => "+impl)
	}
}

// Violation records a property violation observed on the implementation, with the case that shows it
func (o *Out) Violation(kind, c, detail string) {
	o.NViol++
	fmt.Fprintln(o.monitor, L("violation", kind, Q(detail), c))
}
func (o *Out) Close() {
	w, err := os.Create(o.dir + "/stats.sx")
	must(err)
	bw := bufio.NewWriter(w)
	for k, v := range o.Stats {
		fmt.Fprintf(bw, "(%s %d)\n", k, v)
	}
	bw.Flush()
	w.Close()
	o.cases.Flush()
	o.impl.Flush()
	o.monitor.Flush()
	for _, f := range o.files {
		f.Close()
	}
}

func must(err error) {
	if err != nil {
		panic(err)
	}
}

// common flags: -seed N -n N -out DIR [-replay FILE]
type Flags struct {
	Seed   uint64
	N      int
	Out    string
	Replay string
	Extra  map[string]string
}

func ParseFlags(args []string) Flags {
	f := Flags{Seed: 1, N: 100, Out: "/tmp/vh-out", Extra: map[string]string{}}
	for i := 0; i+1 < len(args); i += 2 {
		k, v := args[i], args[i+1]
		switch k {
		case "-seed":
			fmt.Sscan(v, &f.Seed)
		case "-n":
			fmt.Sscan(v, &f.N)
		case "-out":
			f.Out = v
		case "-replay":
			f.Replay = v
		default:
			f.Extra[strings.TrimPrefix(k, "-")] = v
		}
	}
	return f
}

func ReadLines(path string) []string {
	data, err := os.ReadFile(path)
	must(err)
	var out []string
	for _, l := range strings.Split(string(data), "\n") {
		if strings.TrimSpace(l) != "" && !strings.HasPrefix(l, ";") {
			out = append(out, l)
		}
	}
	return out
}
