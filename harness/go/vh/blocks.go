//go:build verif

package main

import (
	"bytes"
	"context"
	"crypto/sha256"
	"fmt"
	"sort"
	"strings"
	"time"

	logging "github.com/formancehq/go-libs/v5/pkg/observe/log"
	"github.com/formancehq/go-libs/v5/pkg/types/metadata"
	libtime "github.com/formancehq/go-libs/v5/pkg/types/time"

	ledger "github.com/formancehq/ledger/internal"
	"github.com/formancehq/ledger/internal/storage"
	ledgerstore "github.com/formancehq/ledger/internal/storage/ledger"
	"github.com/formancehq/ledger/internal/verifh/pgsem"
	"github.com/formancehq/ledger/pkg/features"
)

// C34: async log blocks. The real ledger store (InsertLog: nextval for the id, no advisory lock with HASH_LOGS=ASYNC) is driven
// inside explicit SQL transactions, one per writer, whose begin/insert and commit/rollback are interleaved by the event script;
// `run` events make the real AsyncBlockRunner issue `call "<bucket>".create_blocks(ledger, size)` (through its exported Run loop with
// a schedule that fires exactly once). Everything runs on pgsem, which executes the procedure text of the current migrations.
func init() { commands["blocks"] = cmdBlocks }

type bEv struct {
	Kind   string // alloc commit abort run
	W      int
	Size   int
	Src    [4]string // alloc: payload kind (setmeta|delmeta), account, key, value
	DateUS int64
	IK     string
	// filled while running
	Type    string
	Memento []byte
}

func (e bEv) payload() ledger.LogPayload {
	if e.Src[0] == "delmeta" {
		return ledger.DeletedMetadata{TargetType: ledger.MetaTargetTypeAccount, TargetID: e.Src[1], Key: e.Src[2]}
	}
	return ledger.SavedMetadata{TargetType: ledger.MetaTargetTypeAccount, TargetID: e.Src[1], Metadata: metadata.Metadata{e.Src[2]: e.Src[3]}}
}

func (e bEv) sx() string {
	switch e.Kind {
	case "alloc":
		return L("alloc", fmt.Sprint(e.W), e.Type, hxb(e.Memento), fmt.Sprint(e.DateUS), Q(e.IK), L("src", e.Src[0], Q(e.Src[1]), Q(e.Src[2]), Q(e.Src[3])))
	case "run":
		return L("run", fmt.Sprint(e.Size))
	}
	return L(e.Kind, fmt.Sprint(e.W))
}

func parseBEv(x *Sx) bEv {
	e := bEv{Kind: x.List[0].Atom}
	switch e.Kind {
	case "alloc":
		e.W = int(atoi(x.List[1].Atom))
		e.DateUS = atoi(x.List[4].Atom)
		e.IK = x.List[5].Atom
		s := x.List[6].List
		e.Src = [4]string{s[1].Atom, s[2].Atom, s[3].Atom, s[4].Atom}
	case "run":
		e.Size = int(atoi(x.List[1].Atom))
	default:
		e.W = int(atoi(x.List[1].Atom))
	}
	return e
}

// onceSchedule fires immediately the first time, then never; done is closed when Next is asked the second time, i.e. after the
// runner's run() has returned
type livedRunner struct {
	r   *storage.AsyncBlockRunner
	sch *onceSchedule
}

type onceSchedule struct {
	n    int
	done chan struct{}
}

func (s *onceSchedule) Next(t time.Time) time.Time {
	s.n++
	if s.n == 1 {
		return t
	}
	if s.n == 2 {
		close(s.done)
	}
	return t.Add(1000 * time.Hour)
}

// the worker only logs a failing call: record what it logs as an error
type errLogger struct {
	logging.Logger
	errs *[]string
}

func (l errLogger) Errorf(f string, a ...any) { *l.errs = append(*l.errs, fmt.Sprintf(f, a...)) }

type bBlock struct {
	ID, Prev, From, To int64
	Hash               []byte
}
type bLogRow struct {
	ID     int64
	Type   string
	Mem    []byte
	DateUS int64
	IK     string
}

type blocksRun struct {
	Evs       []bEv
	Blocks    []bBlock
	Logs      []bLogRow     // committed logs as stored, by id
	CommitAt  map[int64]int // log id -> index of its commit event
	SeenAt    map[int64]int // block id -> index of the run event after which it first existed
	Aborted   []int64
	RunErr    []string
	Err       string
	ViaWorker int
}

func asyncFeatures() features.FeatureSet {
	fs := allOn.set()
	fs[features.FeatureHashLogs] = "ASYNC"
	return fs
}

func readBlocks(st *Stack) ([]bBlock, error) {
	sess := st.PG.NewSession()
	defer sess.Close()
	res, err := sess.Exec(`select id, previous, from_id, to_id, hash from logs_blocks where ledger = 'l1' order by id`)
	if err != nil {
		return nil, err
	}
	var out []bBlock
	for _, r := range res.Rows {
		b := bBlock{ID: atoi(pgsemText(r[0])), Prev: atoi(pgsemText(r[1])), From: atoi(pgsemText(r[2])), To: atoi(pgsemText(r[3]))}
		if h, ok := r[4].([]byte); ok {
			b.Hash = h
		}
		out = append(out, b)
	}
	return out, nil
}

func runBlocksScript(evs []bEv, gen func(step func(bEv) bool)) *blocksRun {
	st := NewStack(StackOpts{})
	ctx := context.Background()
	br := &blocksRun{CommitAt: map[int64]int{}, SeenAt: map[int64]int{}}
	if err := st.Sys.CreateLedger(ctx, "l1", ledger.Configuration{Bucket: "_default", Features: asyncFeatures()}); err != nil {
		panic(fmt.Errorf("create ledger: %w", err))
	}
	store, _, err := st.Driver.OpenLedger(ctx, "l1")
	must(err)
	st.PG.LoopLimit = 200 // create_blocks needs at most (#committed logs + 1) iterations; a procedure that never stops is cut off here
	type openTx struct {
		store *ledgerstore.Store
		id    int64
	}
	open := map[int]*openTx{}
	runners := map[int]*livedRunner{}
	step := func(e bEv) bool {
		idx := len(br.Evs)
		switch e.Kind {
		case "alloc":
			if open[e.W] != nil {
				return false
			}
			txs, _, err := store.BeginTX(ctx, nil)
			must(err)
			lg := ledger.NewLog(e.payload())
			lg.Date = libtime.Time{Time: tsOf(e.DateUS)}
			lg.IdempotencyKey = e.IK
			st.PG.Clock = pgsem.TS(e.DateUS)
			if err := txs.InsertLog(ctx, &lg); err != nil {
				_ = txs.Rollback(ctx)
				br.Err = "InsertLog: " + err.Error()
				return false
			}
			e.Type, e.Memento = lg.Type.String(), mementoOf(lg)
			open[e.W] = &openTx{txs, int64(*lg.ID)}
		case "commit":
			if open[e.W] == nil {
				return false
			}
			if err := open[e.W].store.Commit(ctx); err != nil {
				br.Err = "commit: " + err.Error()
			}
			br.CommitAt[open[e.W].id] = idx
			delete(open, e.W)
		case "abort":
			if open[e.W] == nil {
				return false
			}
			_ = open[e.W].store.Rollback(ctx)
			br.Aborted = append(br.Aborted, open[e.W].id)
			delete(open, e.W)
		case "run":
			// one long-lived worker per block size (a deployed worker lives for the life of the process: whatever it remembers
			// between ticks is part of what is explored); each `run` event is one tick of its schedule
			lr := runners[e.Size]
			if lr == nil {
				sch := &onceSchedule{}
				lr = &livedRunner{sch: sch, r: storage.NewAsyncBlockRunner(errLogger{logging.FromContext(ctx), &br.RunErr}, st.Bun, storage.AsyncBlockRunnerConfig{MaxBlockSize: e.Size, Schedule: sch})}
				runners[e.Size] = lr
			}
			lr.sch.n, lr.sch.done = 0, make(chan struct{})
			sch, runner := lr.sch, lr.r
			go func() { _ = runner.Run(ctx) }()
			select {
			case <-sch.done:
				br.ViaWorker++
			case <-time.After(20 * time.Second):
				br.RunErr = append(br.RunErr, "create_blocks did not return within 20 s")
			}
			_ = runner.Stop(ctx)
			after, err := readBlocks(st)
			if err != nil {
				br.Err = "read blocks: " + err.Error()
			}
			for _, b := range after {
				if _, ok := br.SeenAt[b.ID]; !ok {
					br.SeenAt[b.ID] = idx
				}
			}
		}
		br.Evs = append(br.Evs, e)
		return true
	}
	if gen != nil {
		gen(step)
	} else {
		for _, e := range evs {
			step(e)
		}
	}
	// open transactions left by the script stay uncommitted: roll them back so that the connections are released
	for _, o := range open {
		_ = o.store.Rollback(ctx)
	}
	br.Blocks, err = readBlocks(st)
	if err != nil {
		br.Err = "read blocks: " + err.Error()
	}
	sess := st.PG.NewSession()
	defer sess.Close()
	res, err := sess.Exec(`select id, type, memento, date, idempotency_key from logs where ledger = 'l1' order by id`)
	if err != nil {
		br.Err = "read logs: " + err.Error()
		return br
	}
	for _, r := range res.Rows {
		row := bLogRow{ID: atoi(pgsemText(r[0])), Type: pgsemText(r[1]), DateUS: tsText(pgsemText(r[3]))}
		if b, ok := r[2].([]byte); ok {
			row.Mem = b
		}
		if r[4] != nil {
			row.IK = pgsemText(r[4])
		}
		br.Logs = append(br.Logs, row)
	}
	return br
}

// the documented digest, stated by the monitor itself (migration 38: create_block):
//
//	digest( coalesce(previous hash, '') || string_agg(type || encode(memento,'escape') || to_json(date::timestamp)#>>'{}' || coalesce(idempotency_key,'') || id, ''), 'sha256')
//
// bytea || text resolves to anynonarray || text (PG doc 9.4): the bytea is rendered by its output function (bytea_output = hex: \x...)
func refBlockHash(prev []byte, logs []bLogRow) []byte {
	var sb strings.Builder
	sb.WriteString(`\x`)
	sb.WriteString(hx(prev))
	for _, l := range logs {
		sb.WriteString(l.Type)
		sb.WriteString(refEscape(l.Mem))
		sb.WriteString(time.UnixMicro(l.DateUS).UTC().Format("2006-01-02T15:04:05.999999"))
		sb.WriteString(l.IK)
		sb.WriteString(fmt.Sprint(l.ID))
	}
	h := sha256.Sum256([]byte(sb.String()))
	return h[:]
}

func (br *blocksRun) inRange(lo, hi int64, inclusiveLo bool) []bLogRow {
	var out []bLogRow
	for _, l := range br.Logs {
		if (l.ID > lo || (inclusiveLo && l.ID == lo)) && l.ID <= hi {
			out = append(out, l)
		}
	}
	return out
}

// membership of each block, reconstructed from what the implementation stored: the committed logs of its range (from, to], minus those
// that committed only after the block existed, provided the stored hash confirms it. ok=false: the stored hash is explained by neither.
func (br *blocksRun) members(i int) (mem []bLogRow, late []int64, ok bool) {
	b := br.Blocks[i]
	var prev []byte
	if i > 0 {
		prev = br.Blocks[i-1].Hash
	}
	all := br.inRange(b.From, b.To, false)
	if bytes.Equal(refBlockHash(prev, all), b.Hash) {
		return all, nil, true
	}
	for _, l := range all {
		if br.CommitAt[l.ID] > br.SeenAt[b.ID] {
			late = append(late, l.ID)
		} else {
			mem = append(mem, l)
		}
	}
	if len(late) > 0 && bytes.Equal(refBlockHash(prev, mem), b.Hash) {
		return mem, late, true
	}
	return all, nil, false
}

func (br *blocksRun) implSx() string {
	if br.Err != "" {
		return L("error", Q(br.Err))
	}
	bs := make([]string, len(br.Blocks))
	var unc []string
	var ids []int64
	for i, b := range br.Blocks {
		bs[i] = L(fmt.Sprint(b.ID), fmt.Sprint(b.Prev), fmt.Sprint(b.From), fmt.Sprint(b.To), hxb(b.Hash))
		_, late, ok := br.members(i)
		if !ok {
			unc = append(unc, "?")
		}
		ids = append(ids, late...)
	}
	last := int64(0)
	if n := len(br.Blocks); n > 0 {
		last = br.Blocks[n-1].To
	}
	for _, l := range br.Logs {
		if l.ID > last {
			ids = append(ids, l.ID)
		}
	}
	sort.Slice(ids, func(i, j int) bool { return ids[i] < ids[j] })
	for _, id := range ids {
		unc = append(unc, fmt.Sprint(id))
	}
	return L("blocks", L(bs...), L("uncovered", L(unc...)))
}

// C34 at the end of a script that ends with a run event (quiescence): contiguous chain, ranges partition the committed ids, hashes
func monC34(br *blocksRun) []string {
	var out []string
	if br.Err != "" {
		return []string{"[harness] " + br.Err}
	}
	for _, e := range br.RunErr {
		out = append(out, "[create-blocks-failed] "+e)
	}
	if n := len(br.Evs); n == 0 || br.Evs[n-1].Kind != "run" || br.Evs[n-1].Size < 1 {
		return out // not at quiescence: nothing is claimed
	}
	last, lastID := int64(0), int64(0)
	for i, b := range br.Blocks {
		if b.Prev != lastID || b.From != last {
			out = append(out, fmt.Sprintf("[chain-broken] block %d has previous=%d from_id=%d, its predecessor is block %d with to_id=%d", b.ID, b.Prev, b.From, lastID, last))
		}
		if b.To <= b.From {
			out = append(out, fmt.Sprintf("[empty-block] block %d covers (%d, %d]", b.ID, b.From, b.To))
		}
		if len(b.Hash) != 32 {
			out = append(out, fmt.Sprintf("[block-hash-mismatch] block %d has no 32-byte hash", b.ID))
		}
		_, late, ok := br.members(i)
		if !ok {
			var prev []byte
			if i > 0 {
				prev = br.Blocks[i-1].Hash
			}
			switch {
			case bytes.Equal(refBlockHash(prev, br.inRange(b.From, b.To, true)), b.Hash) && b.From > 0:
				out = append(out, fmt.Sprintf("[log-in-two-blocks] block %d (%d, %d] also digests log %d, the last log of the previous block", b.ID, b.From, b.To, b.From))
			default:
				out = append(out, fmt.Sprintf("[block-hash-mismatch] block %d (%d, %d]: stored hash %x is not the documented digest of the previous block hash and the committed logs of the range (%x)",
					b.ID, b.From, b.To, b.Hash, refBlockHash(prev, br.inRange(b.From, b.To, false))))
			}
		}
		for _, id := range late {
			out = append(out, fmt.Sprintf("[log-skipped-after-reorder] log %d committed (event %d) after block %d covering (%d, %d] had been built (event %d) from logs with higher ids: it is in no block's digest and never will be (create_block selects id > %d)",
				id, br.CommitAt[id], b.ID, b.From, b.To, br.SeenAt[b.ID], br.Blocks[len(br.Blocks)-1].To))
		}
		last, lastID = b.To, b.ID
	}
	for _, l := range br.Logs {
		if l.ID > last {
			out = append(out, fmt.Sprintf("[not-quiescent] committed log %d is above the last block (to_id=%d) after create_blocks returned", l.ID, last))
		}
	}
	ids := map[int64]bool{}
	for _, l := range br.Logs {
		if ids[l.ID] {
			out = append(out, fmt.Sprintf("[duplicate-log-id] %d", l.ID))
		}
		ids[l.ID] = true
		if _, ok := br.CommitAt[l.ID]; !ok {
			out = append(out, fmt.Sprintf("[ghost-log] log %d is stored but no writer committed it", l.ID))
		}
	}
	for _, id := range br.Aborted {
		if ids[id] {
			out = append(out, fmt.Sprintf("[ghost-log] log %d of a rolled-back transaction is stored", id))
		}
	}
	return out
}

func genBlocksScript(r *Rng, step func(bEv) bool) {
	n := 4 + r.Intn(14)
	writers := 2 + r.Intn(2)
	now := int64(1700000000) * 1000000
	open := map[int]bool{}
	for i := 0; i < n; i++ {
		now += int64(Pick(r, []int{1000000, 1, 1234, 100000}))
		w := 1 + r.Intn(writers)
		k := r.Intn(100)
		var e bEv
		switch {
		case k < 40 && !open[w]:
			e = bEv{Kind: "alloc", W: w, DateUS: now, Src: [4]string{Pick(r, []string{"setmeta", "setmeta", "delmeta"}), Pick(r, []string{"alice", "bob", "users:1"}), advStrNoNul(r), advStrNoNul(r)}}
			if r.Chance(30) {
				e.IK = Pick(r, []string{"ik", `a"b`, "clé", "x\\\\y"}) + fmt.Sprint(i)
			}
		case k < 72 && open[w]:
			e = bEv{Kind: "commit", W: w}
		case k < 80 && open[w]:
			e = bEv{Kind: "abort", W: w}
		case k >= 80:
			e = bEv{Kind: "run", Size: Pick(r, []int{1, 1, 2, 3, 10})}
		default:
			continue
		}
		if step(e) {
			if e.Kind == "alloc" {
				open[w] = true
			} else if e.Kind != "run" {
				open[w] = false
			}
		}
	}
	// most scripts end at quiescence: pending writers finish (in random order), then the builder runs
	if r.Chance(90) {
		var ws []int
		for w, o := range open {
			if o {
				ws = append(ws, w)
			}
		}
		sort.Ints(ws)
		for len(ws) > 0 {
			i := r.Intn(len(ws))
			kind := "commit"
			if r.Chance(15) {
				kind = "abort"
			}
			step(bEv{Kind: kind, W: ws[i]})
			ws = append(ws[:i], ws[i+1:]...)
			if r.Chance(30) {
				step(bEv{Kind: "run", Size: Pick(r, []int{1, 2, 10})})
			}
		}
		step(bEv{Kind: "run", Size: Pick(r, []int{1, 2, 3, 10})})
	}
}

func cmdBlocks(args []string) int {
	f := ParseFlags(args)
	out := NewOut(f.Out)
	defer out.Close()
	finish := func(br *blocksRun) {
		evs := make([]string, len(br.Evs))
		reorder := false
		maxCommitted := int64(0)
		for i, e := range br.Evs {
			evs[i] = e.sx()
			out.Stats["ev_"+e.Kind]++
		}
		type ci struct {
			id int64
			at int
		}
		var cs []ci
		for id, at := range br.CommitAt {
			cs = append(cs, ci{id, at})
		}
		sort.Slice(cs, func(i, j int) bool { return cs[i].at < cs[j].at })
		for _, c := range cs {
			if c.id < maxCommitted {
				reorder = true
			}
			if c.id > maxCommitted {
				maxCommitted = c.id
			}
		}
		c := L("blocks", L(evs...))
		out.Case(c, br.implSx())
		out.Stats["cases"]++
		out.Stats["blocks"] += len(br.Blocks)
		out.Stats["committed_logs"] += len(br.Logs)
		out.Stats["aborted"] += len(br.Aborted)
		out.Stats["runs_via_worker"] += br.ViaWorker
		if reorder {
			out.Stats["scripts_with_commit_reorder"]++
		}
		if len(br.Blocks) >= 2 {
			out.Stats["distinct_nontrivial"]++
		}
		for _, m := range monC34(br) {
			out.Violation("C34", c, m)
		}
	}
	if f.Replay != "" {
		for _, line := range ReadLines(f.Replay) {
			sx, err := ParseSx(line)
			must(err)
			var evs []bEv
			for _, e := range sx.List[1].List {
				evs = append(evs, parseBEv(e))
			}
			finish(runBlocksScript(evs, nil))
		}
		return 0
	}
	r := NewRng(f.Seed)
	for i := 0; i < f.N; i++ {
		rr := r.Fork()
		finish(runBlocksScript(nil, func(step func(bEv) bool) { genBlocksScript(rr, step) }))
	}
	return 0
}
