//go:build verif

package main

import (
	"context"
	"encoding/json"
	"fmt"
	"math/big"
	"sort"
	"strconv"
	"strings"
	"time"

	ledger "github.com/formancehq/ledger/internal"
	ledgercontroller "github.com/formancehq/ledger/internal/controller/ledger"
	"github.com/formancehq/ledger/internal/verifh/pgsem"
	"github.com/formancehq/ledger/pkg/features"
)

func pgsemText(v pgsem.Value) string { return pgsem.TextOf(v) }
func atoi(s string) int64 {
	n, err := strconv.ParseInt(s, 10, 64)
	if err != nil {
		panic(err)
	}
	return n
}
func tsText(s string) int64 {
	for _, l := range []string{"2006-01-02 15:04:05.999999", "2006-01-02 15:04:05"} {
		if t, err := time.Parse(l, s); err == nil {
			return t.UnixMicro()
		}
	}
	panic("bad timestamp " + s)
}
func jsonKV(s string) []KV {
	m := map[string]string{}
	if err := json.Unmarshal([]byte(s), &m); err != nil {
		panic(err)
	}
	return sortKV(m)
}

func init() { commands["hist"] = cmdHist }

type HistRun struct {
	Feat  Feat
	Ops   []Op
	Res   []OpResult
	Snaps []Snap
	St    *Stack
	ctx   context.Context
	ctrl  ledgercontroller.Controller
	HTTPDiff []string
	ikFirst  map[string]ikSeen // HTTP mode: the committed write of each idempotency key
	V1    bool     // with API: writes are v1 requests
	API   *httpAPI // non-nil: operations and reads go through the v2 HTTP API (TIE-H, httpop.go)
}

func histCaseSx(f Feat, ops []Op) string {
	s := make([]string, len(ops))
	for i, o := range ops {
		s[i] = o.sx()
	}
	return L("hist", f.sx(), L(s...))
}

// newHistRun opens a fresh stack with one ledger; Step executes one operation and snapshots the ledger
func newHistRun(f Feat, listener bool) *HistRun { return newHistRunFS(f, f.set(), listener) }

// newHistRunFS: same with an explicit feature set (HASH_LOGS has three values); f tells the reads which expands exist
func newHistRunFS(f Feat, fs features.FeatureSet, listener bool) *HistRun {
	st := NewStack(StackOpts{Listener: listener})
	hr := &HistRun{Feat: f, St: st, ctx: context.Background()}
	if err := st.Sys.CreateLedger(hr.ctx, "l1", ledger.Configuration{Bucket: "_default", Features: fs}); err != nil {
		panic(fmt.Errorf("create ledger: %w", err))
	}
	ctrl, err := st.Sys.GetLedgerController(hr.ctx, "l1")
	must(err)
	hr.ctrl = ctrl
	return hr
}

func (hr *HistRun) Step(o Op) OpResult {
	hr.St.PG.Clock = pgsem.TS(o.Now)
	if hr.API != nil {
		return hr.stepHTTP(o)
	}
	res := runOp(hr.ctx, hr.ctrl, o)
	hr.Ops = append(hr.Ops, o)
	hr.Res = append(hr.Res, res)
	if res.Panic == "" { // the SQL transaction of a panicking operation is leaked: the stack is unusable afterwards
		hr.Snaps = append(hr.Snaps, hr.St.Snapshot(hr.ctx, hr.ctrl, "l1", hr.Feat))
	}
	return res
}

// newHistRunHTTP: the ledger is created through POST /v2/l1 with the feature set in the body
func newHistRunHTTP(f Feat, fs features.FeatureSet) *HistRun {
	st := NewStack(StackOpts{})
	hr := &HistRun{Feat: f, St: st, ctx: context.Background(), API: newHTTPAPI(st)}
	body, err := json.Marshal(map[string]any{"bucket": "_default", "features": fs})
	must(err)
	if resp := hr.API.do("POST", "/v2/l1", nil, string(body)); resp.Code != 204 {
		panic(fmt.Sprintf("create ledger over HTTP: %d %s", resp.Code, resp.Body))
	}
	ctrl, err := st.Sys.GetLedgerController(hr.ctx, "l1")
	must(err)
	hr.ctrl = ctrl
	return hr
}

func (hr *HistRun) stepHTTP(o Op) OpResult {
	var res OpResult
	if hr.V1 {
		o = v1Normalise(o)
		res = hr.API.runOpV1("l1", o)
	} else {
		res = hr.API.runOp("l1", o)
	}
	hr.Ops = append(hr.Ops, o)
	hr.Res = append(hr.Res, res)
	if res.Panic == "" {
		hs := hr.St.SnapshotHTTP(hr.API, "l1", hr.Feat)
		hr.Snaps = append(hr.Snaps, hs)
		if hs.Err != "" {
			hr.HTTPDiff = append(hr.HTTPDiff, fmt.Sprintf("after operation %d: %s [http-read-error]", len(hr.Ops), hs.Err))
			return res
		}
		// monitor (no model involved): the API's rendering of the state is the controller's
		if cs := hr.St.Snapshot(hr.ctx, hr.ctrl, "l1", hr.Feat); cs.sx() != hs.sx() || fmt.Sprint(cs.Agg) != fmt.Sprint(hs.Agg) || !sameHashes(cs.Logs, hs.Logs) {
			hr.HTTPDiff = append(hr.HTTPDiff, fmt.Sprintf("after operation %d the v2 read endpoints and the controller reads differ [http-read-differs]: http %s %v / controller %s %v", len(hr.Ops), diffAt(hs.sx(), cs.sx()), hs.Agg, diffAt(cs.sx(), hs.sx()), cs.Agg))
		}
		if m := hr.API.checkWriteAnswer("l1", o, res, hs); m != "" {
			hr.HTTPDiff = append(hr.HTTPDiff, m)
		}
		// C17 on the HTTP answers alone: after an accepted metadata write the listing shows it (key present with the value
		// written / key absent after a delete), for the key exactly as the client sent it
		if res.Class == "none" && !o.Dry && !res.Hit && (o.Kind == "setmeta" || o.Kind == "delmeta") {
			var meta []KV
			found := false
			if o.IsAcc {
				for _, a := range hs.Accounts {
					if a.Addr == o.TgtAcc {
						meta, found = a.Meta, true
					}
				}
			} else {
				for _, t := range hs.Txs {
					if t.ID == o.TxID {
						meta, found = t.Meta, true
					}
				}
			}
			get := func(k string) (string, bool) {
				for _, kv := range meta {
					if kv.K == k {
						return kv.V, true
					}
				}
				return "", false
			}
			if found && o.Kind == "delmeta" {
				if v, ok := get(o.Key); ok {
					hr.HTTPDiff = append(hr.HTTPDiff, fmt.Sprintf("operation %d deleted the metadata key %q of %s (answer %s) and the listing still shows %q=%q [http-meta-delete]", len(hr.Ops), o.Key, o.tgt(), res.sx(), o.Key, v))
				}
			}
			if found && o.Kind == "setmeta" {
				for _, kv := range o.Meta {
					if v, ok := get(kv.K); !ok || v != kv.V {
						hr.HTTPDiff = append(hr.HTTPDiff, fmt.Sprintf("operation %d wrote metadata %q=%q on %s (answer %s) and the listing shows %q present=%v [http-meta-write]", len(hr.Ops), kv.K, kv.V, o.tgt(), res.sx(), v, ok))
					}
				}
			}
		}
		// C13 on the HTTP answers alone (no model): once a write committed under a key, the same request under that key is
		// answered as a hit with the same transaction id (also as a dry run); another input under the key is 400 VALIDATION
		if o.IK != "" {
			if hr.ikFirst == nil {
				hr.ikFirst = map[string]ikSeen{}
			}
			if first, ok := hr.ikFirst[o.IK]; ok {
				same := first.input == o.inputSx()
				switch {
				case same && (res.Class != "none" || !res.Hit || fmt.Sprint(ptrVal(res.TxID)) != fmt.Sprint(ptrVal(first.tx))):
					hr.HTTPDiff = append(hr.HTTPDiff, fmt.Sprintf("operation %d repeats a committed request under its idempotency key %q and is answered %s (expected the original transaction %v flagged Idempotency-Hit) [http-ik-replay]", len(hr.Ops), o.IK, res.sx(), ptrVal(first.tx)))
				case !same && res.Class != "400:VALIDATION":
					hr.HTTPDiff = append(hr.HTTPDiff, fmt.Sprintf("operation %d reuses the idempotency key %q of a committed write with another input and is answered %s (expected 400 VALIDATION) [http-ik-reuse]", len(hr.Ops), o.IK, res.sx()))
				}
			} else if res.Class == "none" && !o.Dry {
				hr.ikFirst[o.IK] = ikSeen{o.inputSx(), res.TxID}
			}
		}
	}
	return res
}

type ikSeen struct {
	input string
	tx    *int64
}

func ptrVal(p *int64) any {
	if p == nil {
		return "nil"
	}
	return *p
}

func sameHashes(a, b []SnapLog) bool {
	if len(a) != len(b) {
		return false
	}
	for i := range a {
		if string(a[i].Hash) != string(b[i].Hash) {
			return false
		}
	}
	return true
}

// firstDiff: the neighbourhood of the first position where a differs from b
func diffAt(a, b string) string {
	i := 0
	for i < len(a) && i < len(b) && a[i] == b[i] {
		i++
	}
	lo, hi := i-60, i+100
	if lo < 0 {
		lo = 0
	}
	if hi > len(a) {
		hi = len(a)
	}
	return "..." + a[lo:hi] + "..."
}

func runHistory(f Feat, ops []Op, listener bool) *HistRun {
	hr := newHistRun(f, listener)
	for _, o := range ops {
		if hr.Step(o).Panic != "" {
			break
		}
	}
	return hr
}

func (hr *HistRun) traceSx() string {
	var steps []string
	for i, r := range hr.Res {
		if r.Panic != "" {
			steps = append(steps, L(r.sx()))
			break
		}
		steps = append(steps, L(r.sx(), hr.Snaps[i].sx()))
	}
	return L("trace", L(steps...))
}

func cmdHist(args []string) int {
	f := ParseFlags(args)
	out := NewOut(f.Out)
	defer out.Close()
	prof := HistProfile{MaxOps: 12, Backdate: true}
	if v, ok := f.Extra["maxops"]; ok {
		fmt.Sscan(v, &prof.MaxOps)
	}
	if f.Extra["features"] == "mixed" {
		prof.Features = []Feat{allOn, {true, true, false, false, true}, {true, false, true, true, false}, {false, false, true, false, true}, {true, true, true, true, false}}
	}
	if f.Extra["features"] == "pcev" {
		prof.Features = []Feat{allOn, {true, true, false, false, false}, {true, true, true, false, true}}
	}
	if f.Extra["oddkeys"] == "1" {
		prof.OddKeys = true
	}
	if f.Extra["profile"] == "ik" {
		prof.IKHeavy = true
	}
	if f.Extra["profile"] == "postings" {
		prof.PostingsHeavy = true
	}
	if f.Extra["adversarial"] == "1" {
		prof.AdversarialKV = true
	}
	if v, ok := f.Extra["scripts"]; ok { // percentage of creates whose script also sets metadata
		fmt.Sscan(v, &prof.ScriptsPct)
	}
	mon := monitorsFor(f.Extra["monitors"])
	via, viaKind := f.Extra["via"], f.Extra["monitors"]
	if via == "http" || via == "http1" {
		mon = nil // the controller-level monitors read Go values an HTTP answer does not carry; TIE-H has its own (stepHTTP)
	}
	open := func(feat Feat) *HistRun {
		if via == "http" || via == "http1" {
			hr := newHistRunHTTP(feat, feat.set())
			hr.V1 = via == "http1"
			return hr
		}
		return newHistRun(feat, false)
	}
	finish := func(hr *HistRun) {
		feat, ops := hr.Feat, hr.Ops
		cs := histCaseSx(feat, ops)
		if hr.API != nil {
			cs = "(histh" + strings.TrimPrefix(cs, "(hist")
			if hr.V1 {
				cs = "(histh1" + strings.TrimPrefix(cs, "(histh")
			}
		}
		out.Case(cs, hr.traceSx())
		out.Stats["cases"]++
		out.Stats["ops"] += len(ops)
		nok := 0
		for i, r := range hr.Res {
			if r.Panic != "" {
				out.Stats["res_panic"]++
				continue
			}
			c := r.Class
			if strings.HasPrefix(c, "other:") {
				c = "other"
			}
			out.Stats["res_"+c]++
			if r.Class == "none" {
				nok++
			}
			out.Stats["op_"+ops[i].Kind]++
			if ops[i].Script {
				out.Stats["op_script_create"]++
				if r.Class == "none" {
					out.Stats["script_create_ok"]++
					if len(ops[i].SAccMeta) > 0 && len(ops[i].AccMeta) > 0 {
						for a := range ops[i].SAccMeta {
							if _, both := ops[i].AccMeta[a]; both {
								out.Stats["script_create_ok_same_account_both_sides"]++
							}
						}
					}
					if r.Hit {
						out.Stats["script_create_replay_hit"]++
					}
				}
			}
		}
		if nok >= 2 {
			out.Stats["distinct_nontrivial"]++
		}
		for _, m := range mon {
			if msg := m.fn(hr); msg != "" {
				out.Violation(m.id, cs, msg)
			}
		}
		for _, msg := range hr.HTTPDiff {
			out.Violation(viaKind, cs, msg)
		}
		if hr.API != nil {
			out.Stats["http_requests"] += hr.API.nreq
		}
	}
	if f.Replay != "" {
		for _, line := range ReadLines(f.Replay) {
			feat, ops := parseHistCase(line)
			hr := open(feat)
			for _, o := range ops {
				if hr.Step(o).Panic != "" {
					break
				}
			}
			finish(hr)
		}
		return 0
	}
	r := NewRng(f.Seed)
	for i := 0; i < f.N; i++ {
		rr := r.Fork()
		feat := allOn
		if len(prof.Features) > 0 {
			feat = Pick(rr, prof.Features)
		}
		hr := open(feat)
		genHistory(rr, prof, feat, hr.Step)
		finish(hr)
	}
	return 0
}

// ---------------------------------------------------------------- replay parsing
func parseKV(sx *Sx) []KV {
	var out []KV
	for _, kv := range sx.List {
		out = append(out, KV{kv.List[0].Atom, kv.List[1].Atom})
	}
	return out
}
func parseHistCase(line string) (Feat, []Op) {
	sx, err := ParseSx(line)
	must(err)
	fs := sx.List[1].List
	b := func(i int) bool { return fs[i].Atom == "1" }
	feat := Feat{b(1), b(2), b(3), b(4), b(5)}
	var ops []Op
	for _, e := range sx.List[2].List {
		var o Op
		o.Now = atoi(e.List[0].Atom)
		op := e.List[1]
		in := op.List[1]
		o.IK = op.List[2].Atom
		o.Dry = op.List[3].Atom == "1"
		o.Kind = in.List[0].Atom
		tgt := func(t *Sx) {
			if t.List[0].Atom == "acc" {
				o.IsAcc = true
				o.TgtAcc = t.List[1].Atom
			} else {
				o.TxID = atoi(t.List[1].Atom)
			}
		}
		if o.Kind == "script" {
			o.Kind, o.Script = "create", true
			o.SMeta = parseKV(in.List[7])
			if len(in.List[8].List) > 0 {
				o.SAccMeta = map[string][]KV{}
				for _, am := range in.List[8].List {
					o.SAccMeta[am.List[0].Atom] = parseKV(am.List[1])
				}
			}
		}
		switch o.Kind {
		case "create":
			for _, p := range in.List[1].List {
				amt, _ := new(big.Int).SetString(p.List[3].Atom, 10)
				o.Post = append(o.Post, Posting{p.List[0].Atom, p.List[1].Atom, p.List[2].Atom, amt})
			}
			if in.List[2].Atom != "nil" {
				t := atoi(in.List[2].Atom)
				o.TS = &t
			}
			o.Ref = in.List[3].Atom
			o.Meta = parseKV(in.List[4])
			if len(in.List[5].List) > 0 {
				o.AccMeta = map[string][]KV{}
				for _, am := range in.List[5].List {
					o.AccMeta[am.List[0].Atom] = parseKV(am.List[1])
				}
			}
			o.Force = in.List[6].Atom == "1"
		case "revert":
			o.TxID = atoi(in.List[1].Atom)
			o.Force = in.List[2].Atom == "1"
			o.AtEff = in.List[3].Atom == "1"
			if len(in.List) > 4 {
				o.Meta = parseKV(in.List[4])
			}
		case "setmeta":
			tgt(in.List[1])
			o.Meta = parseKV(in.List[2])
		case "delmeta":
			tgt(in.List[1])
			o.Key = in.List[2].Atom
		}
		ops = append(ops, o)
	}
	return feat, ops
}

type monitor struct {
	id string
	fn func(*HistRun) string
}

var allMonitors []monitor

func monitorsFor(spec string) []monitor {
	if spec == "" || spec == "all" {
		return allMonitors
	}
	var out []monitor
	for _, m := range allMonitors {
		for _, id := range strings.Split(spec, ",") {
			if m.id == id {
				out = append(out, m)
			}
		}
	}
	return out
}

var _ = sort.Strings
