//go:build verif

package main

import (
	"encoding/json"
	"fmt"
	"net/url"
	"sort"
	"strings"
)

// v1reads (C20 / C05 TIE-H, monitor only): the v1 list endpoints translate query PARAMETERS into a filter
// (internal/api/v1: buildGetTransactionsQuery, buildAccountsFilterQuery, buildGetLogsQuery, buildAggregatedBalancesQuery).
// Metamorphic check, both sides through the real router on the same ledger: a v1 listing with parameters lists exactly what
// the v2 listing with the filter those parameters stand for lists (the v2 filters are tied to the Coq filter model by the
// filters tie). All pages are followed.
func init() { commands["v1reads"] = cmdV1Reads }

type v1probe struct {
	Res    string // txs accs logs agg bal
	Params [][2]string
}

func (p v1probe) sx() string {
	var ps []string
	for _, kv := range p.Params {
		ps = append(ps, L(Q(kv[0]), Q(kv[1])))
	}
	return L("v1probe", p.Res, L(ps...))
}

// v2Filter: the filter the v1 handlers document for these parameters (nil: none), or "" + reject when v1 must refuse
func (p v1probe) v2Filter() (flt string, reject bool) {
	var cl []string
	get := func(k string) string {
		for _, kv := range p.Params {
			if kv[0] == k {
				return kv[1]
			}
		}
		return ""
	}
	m := func(op, k, v string) string { return fmt.Sprintf(`{"$%s":{%s:%s}}`, op, jsonStr(k), jsonStr(v)) }
	mn := func(op, k, v string) string { return fmt.Sprintf(`{"$%s":{%s:%s}}`, op, jsonStr(k), v) }
	switch p.Res {
	case "txs":
		if v := get("after"); v != "" {
			cl = append(cl, mn("lt", "id", v))
		}
		st := get("startTime")
		if st == "" {
			st = get("start_time")
		}
		if st != "" {
			cl = append(cl, m("gte", "timestamp", st))
		}
		et := get("endTime")
		if et == "" {
			et = get("end_time")
		}
		if et != "" {
			cl = append(cl, m("lt", "timestamp", et))
		}
		for _, k := range []string{"reference", "source", "destination", "account"} {
			if v := get(k); v != "" {
				cl = append(cl, m("match", k, v))
			}
		}
	case "accs", "bal":
		if v := get("balance"); v != "" {
			switch get("balanceOperator") {
			case "e":
				cl = append(cl, mn("match", "balance", v))
			case "ne":
				cl = append(cl, `{"$not":`+mn("match", "balance", v)+`}`)
			case "lt", "lte", "gt", "gte":
				cl = append(cl, mn(get("balanceOperator"), "balance", v))
			default:
				return "", true
			}
		}
		if v := get("address"); v != "" {
			cl = append(cl, m("match", "address", v))
		}
	case "logs":
		if v := get("after"); v != "" {
			cl = append(cl, mn("lt", "id", v))
		}
		if v := get("start_time"); v != "" {
			cl = append(cl, m("gte", "date", v))
		}
		if v := get("end_time"); v != "" {
			cl = append(cl, m("lt", "date", v))
		}
	case "agg":
		if v := get("address"); v != "" {
			cl = append(cl, m("match", "address", v))
		}
	}
	for _, kv := range p.Params {
		if strings.HasPrefix(kv[0], "metadata") && p.Res != "logs" && p.Res != "agg" {
			cl = append(cl, m("match", kv[0], kv[1]))
		}
	}
	switch len(cl) {
	case 0:
		return "", false
	case 1:
		return cl[0], false
	}
	return `{"$and":[` + strings.Join(cl, ",") + `]}`, false
}

func genV1Probe(r *Rng, hr *HistRun) v1probe {
	ts := func() string {
		base := int64(1700000000) * 1000000
		return rfc3339us(base + int64(r.Intn(16))*1000000 - 2000000)
	}
	acc := func() string {
		return Pick(r, append(append([]string{}, genAccounts...), "users:", "users::main", "nobody"))
	}
	metaKV := func() [2]string {
		return [2]string{"metadata[" + Pick(r, []string{"k1", "k2", "role"}) + "]", Pick(r, []string{"v1", "v2", "v3"})}
	}
	p := v1probe{Res: Pick(r, []string{"txs", "txs", "accs", "accs", "bal", "logs", "agg"})}
	add := func(k, v string) { p.Params = append(p.Params, [2]string{k, v}) }
	switch p.Res {
	case "txs":
		if r.Chance(25) {
			add("after", fmt.Sprint(1+r.Intn(8)))
		}
		if r.Chance(30) {
			add(Pick(r, []string{"startTime", "start_time"}), ts())
		}
		if r.Chance(30) {
			add(Pick(r, []string{"endTime", "end_time"}), ts())
		}
		if r.Chance(20) {
			add("reference", Pick(r, []string{"r1", "r2", "ref:3", "zz"}))
		}
		if r.Chance(30) {
			add("source", acc())
		}
		if r.Chance(30) {
			add("destination", acc())
		}
		if r.Chance(30) {
			add("account", acc())
		}
		if r.Chance(30) {
			kv := metaKV()
			add(kv[0], kv[1])
		}
	case "accs", "bal":
		if r.Chance(40) {
			add("balance", fmt.Sprint(r.Intn(120)-20))
			add("balanceOperator", Pick(r, []string{"e", "ne", "lt", "lte", "gt", "gte", "gte", "lt"}))
		}
		if r.Chance(40) {
			add("address", acc())
		}
		if r.Chance(35) {
			kv := metaKV()
			add(kv[0], kv[1])
		}
	case "logs":
		if r.Chance(40) {
			add("after", fmt.Sprint(1+r.Intn(10)))
		}
		if r.Chance(40) {
			add("start_time", ts())
		}
		if r.Chance(40) {
			add("end_time", ts())
		}
	case "agg":
		if r.Chance(70) {
			add("address", acc())
		}
	}
	return p
}

func (hr *HistRun) runV1Probe(p v1probe) (v1, v2 string) {
	if hr.API == nil {
		hr.API = newHTTPAPI(hr.St)
	}
	h := hr.API
	q1 := url.Values{}
	for _, kv := range p.Params {
		q1.Set(kv[0], kv[1])
	}
	flt, mustReject := p.v2Filter()
	q2 := url.Values{}
	if flt != "" {
		q2.Set("query", flt)
	}
	errSx := func(err error) string {
		if strings.Contains(err.Error(), ": 400 ") {
			return L("rejected")
		}
		return L("error", Q(err.Error()))
	}
	ids := func(xs []string) string { return L(xs...) }
	switch p.Res {
	case "txs":
		type t1 struct {
			TxID int64 `json:"txid"`
		}
		a, err1 := httpListAll[t1](h, "/l1/transactions", q1, 3)
		q2.Set("sort", "id:desc")
		b, err2 := httpListAll[jTx](h, "/v2/l1/transactions", q2, 3)
		if err1 != nil {
			v1 = errSx(err1)
		} else {
			var xs []string
			for _, t := range a {
				xs = append(xs, fmt.Sprint(t.TxID))
			}
			v1 = ids(xs)
		}
		if err2 != nil {
			v2 = errSx(err2)
		} else {
			var xs []string
			for _, t := range b {
				xs = append(xs, fmt.Sprint(t.ID))
			}
			v2 = ids(xs)
		}
	case "accs":
		a, err1 := httpListAll[jAcc](h, "/l1/accounts", q1, 3)
		b, err2 := httpListAll[jAcc](h, "/v2/l1/accounts", q2, 3)
		f := func(as []jAcc, err error) string {
			if err != nil {
				return errSx(err)
			}
			var xs []string
			for _, x := range as {
				xs = append(xs, L(Q(x.Address), kvsx(sortKV(x.Metadata))))
			}
			return ids(xs)
		}
		v1, v2 = f(a, err1), f(b, err2)
	case "bal":
		a, err1 := httpListAll[map[string]map[string]jAmount](h, "/l1/balances", q1, 3)
		q2.Set("expand", "volumes")
		b, err2 := httpListAll[jAcc](h, "/v2/l1/accounts", q2, 3)
		if err1 != nil {
			v1 = errSx(err1)
		} else {
			var xs []string
			for _, e := range a {
				for addr, by := range e {
					var cs []string
					for c, v := range by {
						cs = append(cs, L(Q(c), string(v)))
					}
					sort.Strings(cs)
					xs = append(xs, L(Q(addr), L(cs...)))
				}
			}
			v1 = ids(xs)
		}
		if err2 != nil {
			v2 = errSx(err2)
		} else {
			var xs []string
			for _, x := range b {
				var cs []string
				for c, v := range x.Volumes {
					cs = append(cs, L(Q(c), string(v.Balance)))
				}
				sort.Strings(cs)
				xs = append(xs, L(Q(x.Address), L(cs...)))
			}
			v2 = ids(xs)
		}
	case "logs":
		type lg struct {
			ID int64 `json:"id"`
		}
		a, err1 := httpListAll[lg](h, "/l1/logs", q1, 4)
		q2.Set("sort", "id:desc")
		b, err2 := httpListAll[lg](h, "/v2/l1/logs", q2, 4)
		f := func(ls []lg, err error) string {
			if err != nil {
				return errSx(err)
			}
			var xs []string
			for _, l := range ls {
				xs = append(xs, fmt.Sprint(l.ID))
			}
			return ids(xs)
		}
		v1, v2 = f(a, err1), f(b, err2)
	case "agg":
		q2.Set("useInsertionDate", "true")
		g := func(path string, q url.Values) string {
			resp := h.do("GET", path+"?"+q.Encode(), nil, "")
			if resp.Code != 200 {
				return errSx(fmt.Errorf("GET %s: %d %s", path, resp.Code, short(resp.Body)))
			}
			var agg struct {
				Data map[string]jAmount `json:"data"`
			}
			must(json.Unmarshal(resp.Body, &agg))
			var cs []string
			for c, v := range agg.Data {
				cs = append(cs, L(Q(c), string(v)))
			}
			sort.Strings(cs)
			return L(cs...)
		}
		v1, v2 = g("/l1/aggregate/balances", q1), g("/v2/l1/aggregate/balances", q2)
	}
	if mustReject {
		v2 = L("rejected")
	}
	return v1, v2
}

func cmdV1Reads(args []string) int {
	f := ParseFlags(args)
	out := NewOut(f.Out)
	defer out.Close()
	kind := f.Extra["monitors"]
	if kind == "" {
		kind = "C20"
	}
	prof := HistProfile{MaxOps: 12, Backdate: true, MetaHeavy: true}
	check := func(hr *HistRun, probes []v1probe) {
		var ps, as []string
		for _, p := range probes {
			a, b := hr.runV1Probe(p)
			ps = append(ps, p.sx())
			as = append(as, a)
			out.Stats["probe_"+p.Res]++
			if a == L("rejected") {
				out.Stats["probe_rejected"]++
			}
			if a != L() && a != L("rejected") {
				out.Stats["probe_nonempty"]++
			}
			if a != b {
				out.Violation(kind, L("v1reads", hr.Feat.sx(), histOpsSx(hr.Ops), L(p.sx())), fmt.Sprintf("v1 %s with parameters %v lists %s; the v2 listing with the filter they stand for lists %s [v1-params]", p.Res, p.Params, a, b))
			}
		}
		out.Case(L("v1reads", hr.Feat.sx(), histOpsSx(hr.Ops), L(ps...)), L(as...))
		out.Stats["cases"]++
		nok := 0
		for _, r := range hr.Res {
			if r.Class == "none" {
				nok++
			}
		}
		if nok >= 2 {
			out.Stats["distinct_nontrivial"]++
		}
	}
	if f.Replay != "" {
		for _, line := range ReadLines(f.Replay) {
			sx, err := ParseSx(line)
			must(err)
			feat, ops := parseHistCase(L("hist", sexpString(sx.List[1]), sexpString(sx.List[2])))
			hr := runHistory(feat, ops, false)
			var probes []v1probe
			for _, px := range sx.List[3].List {
				p := v1probe{Res: px.List[1].Atom}
				for _, kv := range px.List[2].List {
					p.Params = append(p.Params, [2]string{kv.List[0].Atom, kv.List[1].Atom})
				}
				probes = append(probes, p)
			}
			check(hr, probes)
		}
		return 0
	}
	r := NewRng(f.Seed)
	for i := 0; i < f.N; i++ {
		rr := r.Fork()
		hr := newHistRun(allOn, false)
		genHistory(rr, prof, allOn, hr.Step)
		var probes []v1probe
		for k := 0; k < 14; k++ {
			probes = append(probes, genV1Probe(rr, hr))
		}
		check(hr, probes)
	}
	return 0
}

func histOpsSx(ops []Op) string {
	s := make([]string, len(ops))
	for i, o := range ops {
		s[i] = o.sx()
	}
	return L(s...)
}
