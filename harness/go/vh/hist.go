//go:build verif

package main

import (
	"context"
	"errors"
	"fmt"
	"math/big"
	"sort"
	"strings"
	"time"

	"github.com/formancehq/go-libs/v5/pkg/storage/postgres"
	"github.com/formancehq/go-libs/v5/pkg/types/metadata"
	"github.com/formancehq/go-libs/v5/pkg/types/pointer"

	"github.com/formancehq/go-libs/v5/pkg/storage/bun/paginate"
	ledger "github.com/formancehq/ledger/internal"
	ledgercontroller "github.com/formancehq/ledger/internal/controller/ledger"
	"github.com/formancehq/ledger/internal/machine"
	"github.com/formancehq/ledger/internal/storage/common"
	ledgerstore "github.com/formancehq/ledger/internal/storage/ledger"
	"github.com/formancehq/ledger/pkg/features"
)

// ---------------------------------------------------------------- operations (shared format with ocaml/modelrun.ml)
type Posting struct {
	Src, Dst, Asset string
	Amt             *big.Int
}
type KV struct{ K, V string }
type Op struct {
	Kind    string // create revert setmeta delmeta
	Post    []Posting
	TS      *int64 // µs
	Ref     string
	Meta    []KV
	AccMeta map[string][]KV
	Force   bool
	TxID    int64
	AtEff   bool
	TgtAcc  string // setmeta/delmeta target: account when IsAcc
	IsAcc   bool
	Key     string
	IK      string
	Dry     bool
	Now     int64
	// a create whose Numscript also sets metadata: the script is TxToScriptData's text followed by one set_tx_meta line per
	// SMeta entry and one set_account_meta line per SAccMeta entry (Meta / AccMeta stay what the REQUEST carries beside it)
	Script   bool
	SMeta    []KV
	SAccMeta map[string][]KV
}

func accMetaSx(m map[string][]KV) string {
	var accs []string
	for a := range m {
		accs = append(accs, a)
	}
	sort.Strings(accs)
	am := make([]string, len(accs))
	for i, a := range accs {
		am[i] = L(Q(a), kvsx(m[a]))
	}
	return L(am...)
}

// scriptText: the Numscript a script create submits (metadata lines appended to the postings script)
func (o Op) scriptText(plain string) string {
	var b strings.Builder
	b.WriteString(plain)
	for _, kv := range o.SMeta {
		fmt.Fprintf(&b, "set_tx_meta(%s, %s)\n", nsString(kv.K), nsString(kv.V))
	}
	var accs []string
	for a := range o.SAccMeta {
		accs = append(accs, a)
	}
	sort.Strings(accs)
	for _, a := range accs {
		for _, kv := range o.SAccMeta[a] {
			fmt.Fprintf(&b, "set_account_meta(@%s, %s, %s)\n", a, nsString(kv.K), nsString(kv.V))
		}
	}
	return b.String()
}

// nsString: a Numscript string literal (the generator only uses plain alphanumerics and the empty string here)
func nsString(s string) string {
	if strings.ContainsAny(s, "\"\\\n\r") {
		panic("script metadata strings are restricted to plain characters: " + s)
	}
	return `"` + s + `"`
}

// accMetaAll (for monitors, independent of the model): the account metadata a committed create writes: what the script set,
// with the request's accountMetadata over it key by key
func (o Op) accMetaAll() map[string][]KV {
	if !o.Script || len(o.SAccMeta) == 0 {
		return o.AccMeta
	}
	tmp := map[string]map[string]string{}
	for _, src := range []map[string][]KV{o.SAccMeta, o.AccMeta} {
		for a, kvs := range src {
			if tmp[a] == nil {
				tmp[a] = map[string]string{}
			}
			for _, kv := range kvs {
				tmp[a][kv.K] = kv.V
			}
		}
	}
	out := map[string][]KV{}
	for a, m := range tmp {
		out[a] = sortKV(m)
	}
	return out
}

type Feat struct{ Moves, PCEV, AccHist, TxHist, Hash bool }

func (f Feat) sx() string {
	b := func(x bool) string {
		if x {
			return "1"
		}
		return "0"
	}
	return L("feat", b(f.Moves), b(f.PCEV), b(f.AccHist), b(f.TxHist), b(f.Hash))
}
func (f Feat) set() features.FeatureSet {
	on := func(x bool, a, b string) string {
		if x {
			return a
		}
		return b
	}
	return features.FeatureSet{
		features.FeatureMovesHistory:                           on(f.Moves, "ON", "OFF"),
		features.FeatureMovesHistoryPostCommitEffectiveVolumes: on(f.PCEV, "SYNC", "DISABLED"),
		features.FeatureAccountMetadataHistory:                 on(f.AccHist, "SYNC", "DISABLED"),
		features.FeatureTransactionMetadataHistory:             on(f.TxHist, "SYNC", "DISABLED"),
		features.FeatureHashLogs:                               on(f.Hash, "SYNC", "DISABLED"),
	}
}

func kvsx(m []KV) string {
	s := make([]string, len(m))
	for i, kv := range m {
		s[i] = L(Q(kv.K), Q(kv.V))
	}
	return L(s...)
}
func sortKV(m map[string]string) []KV {
	var out []KV
	for k, v := range m {
		out = append(out, KV{k, v})
	}
	sort.Slice(out, func(i, j int) bool { return out[i].K < out[j].K })
	return out
}
func kvmap(m []KV) metadata.Metadata {
	out := metadata.Metadata{}
	for _, kv := range m {
		out[kv.K] = kv.V
	}
	return out
}

func (o Op) sx() string {
	return L(fmt.Sprint(o.Now), L("op", o.inputSx(), Q(o.IK), b01(o.Dry)))
}

// inputSx: the caller-supplied input (what the idempotency hash covers)
func (o Op) inputSx() string {
	var in string
	switch o.Kind {
	case "create":
		ps := make([]string, len(o.Post))
		for i, p := range o.Post {
			ps[i] = L(Q(p.Src), Q(p.Dst), Q(p.Asset), p.Amt.String())
		}
		ts := "nil"
		if o.TS != nil {
			ts = fmt.Sprint(*o.TS)
		}
		if o.Script {
			in = L("script", L(ps...), ts, Q(o.Ref), kvsx(o.Meta), accMetaSx(o.AccMeta), b01(o.Force), kvsx(o.SMeta), accMetaSx(o.SAccMeta))
		} else {
			in = L("create", L(ps...), ts, Q(o.Ref), kvsx(o.Meta), accMetaSx(o.AccMeta), b01(o.Force))
		}
	case "revert":
		in = L("revert", fmt.Sprint(o.TxID), b01(o.Force), b01(o.AtEff), kvsx(o.Meta))
	case "setmeta":
		in = L("setmeta", o.tgt(), kvsx(o.Meta))
	case "delmeta":
		in = L("delmeta", o.tgt(), Q(o.Key))
	}
	return in
}
func (o Op) tgt() string {
	if o.IsAcc {
		return L("acc", Q(o.TgtAcc))
	}
	return L("tx", fmt.Sprint(o.TxID))
}
func b01(b bool) string {
	if b {
		return "1"
	}
	return "0"
}

// ---------------------------------------------------------------- generator
var genAccounts = []string{"world", "alice", "bob", "users:1", "users:2:main", "bank"}
var genAssets = []string{"USD", "EUR", "COIN/2"}
var genStrings = []string{"v1", "v2", "", "a\"b", "x\\y", "<&>", "é z", "it's"}

func genAmount(r *Rng) *big.Int {
	switch r.Intn(10) {
	case 0:
		return big.NewInt(0)
	case 1:
		return r.BigAmount()
	default:
		return big.NewInt(int64(1 + r.Intn(120)))
	}
}

type HistProfile struct {
	OddKeys       bool // C17: metadata keys that a URL path or query decoder could mangle ("a+b")
	MaxOps        int
	AllowPanic    bool
	Backdate      bool
	Features      []Feat
	ScriptsPct    int
	MetaHeavy     bool
	AdversarialKV bool
	IKHeavy       bool // C13: most operations carry a key, a quarter are replays (same or altered input)
	FutureMeta    bool // C17: more future-dated transactions, and metadata writes aimed at them (history revision 1 is dated at the
	// transaction's timestamp, later revisions at the write: dates and revisions then disagree in order)
	PostingsHeavy bool // C25: long postings lists over few accounts, amounts close to the balances
	AccMetaHeavy  bool // C20 (reads tie): a third of the operations after the first write or delete ACCOUNT metadata
}

var allOn = Feat{true, true, true, true, true}

func genMeta(r *Rng, p HistProfile) []KV {
	n := r.Intn(3)
	seen := map[string]bool{}
	var out []KV
	for i := 0; i < n; i++ {
		k := Pick(r, []string{"k1", "k2", "role"})
		if p.OddKeys && k == "k2" {
			k = "a+b"
		}
		if seen[k] {
			continue
		}
		seen[k] = true
		v := Pick(r, []string{"v1", "v2", "v3"})
		if p.AdversarialKV && r.Chance(30) {
			v = Pick(r, genStrings)
		}
		out = append(out, KV{k, v})
	}
	sort.Slice(out, func(i, j int) bool { return out[i].K < out[j].K })
	return out
}

// genScriptMeta turns a create into a script create: 1-2 set_tx_meta (keys of the request metadata alphabet, so that the
// override rule fires; the empty value, which a request MAY override), 0-2 set_account_meta, most often on the account the
// request's accountMetadata names too, with common and disjoint keys
func genScriptMeta(r *Rng, o *Op) {
	o.Script = true
	keys := []string{"k1", "k2", "role"}
	nk := 1 + r.Intn(2)
	seen := map[string]bool{}
	for i := 0; i < nk; i++ {
		k := Pick(r, keys)
		if len(o.Meta) > 0 && r.Chance(35) {
			k = Pick(r, o.Meta).K // same key as the request
		} else if len(o.Meta) > 0 && r.Chance(50) {
			for _, c := range keys { // a key the request does not carry
				free := true
				for _, kv := range o.Meta {
					free = free && kv.K != c
				}
				if free {
					k = c
				}
			}
		}
		if seen[k] {
			continue
		}
		seen[k] = true
		v := Pick(r, []string{"v1", "v2", "v3"})
		if r.Chance(20) {
			v = ""
		}
		o.SMeta = append(o.SMeta, KV{k, v})
	}
	sort.Slice(o.SMeta, func(i, j int) bool { return o.SMeta[i].K < o.SMeta[j].K })
	na := r.Intn(3)
	if o.AccMeta != nil && na == 0 && r.Chance(70) {
		na = 1
	}
	if o.AccMeta == nil && na > 0 && r.Chance(50) { // the request names an account too
		o.AccMeta = map[string][]KV{Pick(r, genAccounts): genMeta(r, HistProfile{})}
	}
	for i := 0; i < na; i++ {
		a := Pick(r, genAccounts)
		if o.AccMeta != nil && (i == 0 || r.Chance(50)) && r.Chance(80) {
			for x := range o.AccMeta { // one entry at most
				a = x
			}
		}
		if o.SAccMeta == nil {
			o.SAccMeta = map[string][]KV{}
		}
		if _, dup := o.SAccMeta[a]; dup {
			continue
		}
		var kvs []KV
		sk := map[string]bool{}
		for j, n := 0, 1+r.Intn(2); j < n; j++ {
			k := Pick(r, keys)
			if sk[k] {
				continue
			}
			sk[k] = true
			kvs = append(kvs, KV{k, Pick(r, []string{"v1", "v2", "v3", "s"})})
		}
		sort.Slice(kvs, func(i, j int) bool { return kvs[i].K < kvs[j].K })
		o.SAccMeta[a] = kvs
	}
}

// genHistory generates operations online: exec runs each one on the implementation so that later choices can
// target transactions that exist / are already reverted (keeps most operations meaningful)
func genHistory(r *Rng, p HistProfile, feat Feat, exec func(Op) OpResult) []Op {
	n := 1 + r.Intn(p.MaxOps)
	var okTx []int64
	var futTx []int64 // committed transactions dated after their own commit
	base := int64(1700000000) * 1000000
	now := base
	var ops []Op
	ntx := int64(0)
	for i := 0; i < n; i++ {
		now += 1000000
		var o Op
		k := r.Intn(100)
		if p.IKHeavy && len(ops) > 0 && r.Chance(25) {
			k = 99
		}
		if p.AccMetaHeavy && r.Chance(30) {
			k = 72 // account setmeta
			if r.Chance(30) {
				k = 90 // account delmeta
			}
		}
		switch {
		case k < 50 || ntx == 0:
			o.Kind = "create"
			if r.Chance(30) { // funded-world posting: succeeds, gives later sources something to spend
				o.Post = append(o.Post, Posting{"world", Pick(r, genAccounts[1:]), Pick(r, genAssets[:2]), big.NewInt(int64(50 + r.Intn(200)))})
			}
			np := 1 + r.Intn(3)
			if p.PostingsHeavy && r.Chance(60) {
				np = 1 + r.Intn(20)
			}
			if p.PostingsHeavy && r.Chance(20) {
				// look-alike (asset, amount) pairs: "USD/2"+"10" and "USD/21"+"0" print the same when concatenated, etc.
				pairs := [][2]Posting{
					{{"world", "alice", "USD/2", big.NewInt(10)}, {"world", "bob", "USD/21", big.NewInt(0)}},
					{{"world", "alice", "USD1", big.NewInt(23)}, {"world", "bob", "USD12", big.NewInt(3)}},
					{{"world", "alice", "EUR", big.NewInt(11)}, {"world", "bob", "EUR", big.NewInt(1)}},
					{{"world", "alice", "COIN", big.NewInt(120)}, {"world", "bob", "COIN1", big.NewInt(20)}},
				}
				pr := Pick(r, pairs)
				if r.Bool() {
					pr[0], pr[1] = pr[1], pr[0]
				}
				o.Post = append(o.Post, pr[0], pr[1])
			}
			for j := 0; j < np; j++ {
				if p.PostingsHeavy && np > 3 {
					accs := genAccounts[:4]
					src, dst := Pick(r, accs), Pick(r, accs)
					if r.Chance(10) {
						dst = src
					}
					amt := big.NewInt(int64(r.Intn(40)))
					if r.Chance(5) {
						amt = r.BigAmount()
					}
					o.Post = append(o.Post, Posting{src, dst, Pick(r, genAssets[:2]), amt})
					continue
				}
				src := Pick(r, genAccounts)
				if r.Chance(45) {
					src = "world"
				}
				dst := Pick(r, genAccounts)
				if r.Chance(5) {
					dst = src
				}
				o.Post = append(o.Post, Posting{src, dst, Pick(r, genAssets[:2+r.Intn(2)]), genAmount(r)})
			}
			if p.Backdate && r.Chance(40) {
				t := Pick(r, []int64{base - 3600*1000000, base + 500000, now - 60*1000000, now, now + 60*1000000, base + 5*1000000})
				o.TS = &t
			}
			if p.FutureMeta && r.Chance(30) {
				t := now + int64(30+r.Intn(3)*30)*1000000
				o.TS = &t
			}
			if r.Chance(25) {
				o.Ref = Pick(r, []string{"r1", "r2", "ref:3"})
			}
			o.Meta = genMeta(r, p)
			if r.Chance(20) {
				o.AccMeta = map[string][]KV{Pick(r, genAccounts): genMeta(r, p)}
			}
			o.Force = r.Chance(15)
			if p.ScriptsPct > 0 && r.Chance(p.ScriptsPct) {
				genScriptMeta(r, &o)
			}
			ntx++ // may fail; ids may also be skipped: reverts/meta pick ids in a slightly larger range
		case k < 62:
			o.Kind = "revert"
			o.TxID = 1 + int64(r.Intn(int(ntx)+1))
			if len(okTx) > 0 && r.Chance(75) {
				o.TxID = Pick(r, okTx)
			}
			o.Force = r.Chance(30)
			o.AtEff = r.Chance(40)
			if r.Chance(35) {
				o.Meta = genMeta(r, p)
			}
			if r.Chance(12) { // a client echoing the metadata of an earlier revert: the reserved mark key with another id
				o.Meta = append(append([]KV{}, o.Meta...), KV{"com.formance.spec/state/reverts", fmt.Sprint(1 + r.Intn(int(ntx)+1))})
				sort.Slice(o.Meta, func(i, j int) bool { return o.Meta[i].K < o.Meta[j].K })
			}
			ntx++
		case k < 72:
			o.Kind = "setmeta"
			o.TxID = 1 + int64(r.Intn(int(ntx)+1))
			if len(okTx) > 0 && r.Chance(75) {
				o.TxID = Pick(r, okTx)
			}
			if p.FutureMeta && len(futTx) > 0 && r.Chance(60) {
				o.TxID = Pick(r, futTx)
			}
			o.Meta = genMeta(r, p)
			if len(o.Meta) == 0 {
				o.Meta = []KV{{"k1", "v1"}}
			}
		case k < 84:
			o.Kind = "setmeta"
			o.IsAcc = true
			o.TgtAcc = Pick(r, genAccounts)
			o.Meta = genMeta(r, p)
		case k < 90:
			o.Kind = "delmeta"
			o.TxID = 1 + int64(r.Intn(int(ntx)+1))
			if len(okTx) > 0 && r.Chance(75) {
				o.TxID = Pick(r, okTx)
			}
			if p.FutureMeta && len(futTx) > 0 && r.Chance(60) {
				o.TxID = Pick(r, futTx)
			}
			o.Key = Pick(r, []string{"k1", "k2", "role"})
			if p.OddKeys && o.Key == "k2" {
				o.Key = "a+b"
			}
		case k < 95:
			o.Kind = "delmeta"
			o.IsAcc = true
			o.TgtAcc = Pick(r, genAccounts)
			o.Key = Pick(r, []string{"k1", "k2", "role"})
			if p.OddKeys && o.Key == "k2" {
				o.Key = "a+b"
			}
		default: // replay an earlier operation under its idempotency key (same or altered input)
			if len(ops) == 0 {
				i--
				continue
			}
			o = ops[r.Intn(len(ops))]
			if o.IK == "" {
				i--
				now -= 1000000
				continue
			}
			if p.IKHeavy && r.Chance(25) { // the same request replayed as a dry run (or a dry run replayed for real)
				o.Dry = !o.Dry
			}
			if r.Chance(30) {
				o.Force = !o.Force
				o.Key += "x"
				o.Meta = append([]KV{}, o.Meta...)
				if len(o.Meta) == 0 || o.Meta[len(o.Meta)-1].K != "zz" {
					o.Meta = append(o.Meta, KV{"zz", "1"})
				} else {
					o.Meta[len(o.Meta)-1].V += "1"
				}
			}
		}
		if o.IK == "" && (r.Chance(25) || p.IKHeavy && r.Chance(50)) {
			o.IK = Pick(r, []string{"ik1", "ik2", "ik3", "key \"q\""})
		}
		if o.Kind != "" && k < 95 {
			o.Dry = r.Chance(8)
		}
		o.Now = now
		ops = append(ops, o)
		res := exec(o)
		if res.Panic != "" {
			break
		}
		if res.Class == "none" && res.TxID != nil && !o.Dry {
			okTx = append(okTx, *res.TxID)
			if o.Kind == "create" && o.TS != nil && *o.TS > o.Now {
				futTx = append(futTx, *res.TxID)
			}
		}
	}
	return ops
}

// ---------------------------------------------------------------- executor on the real stack
func classify(err error) string {
	if err == nil {
		return "none"
	}
	switch {
	case errors.Is(err, &machine.ErrInsufficientFund{}):
		return "insufficient_funds"
	case errors.Is(err, ledgerstore.ErrTransactionReferenceConflict{}) || errors.Is(err, ledgercontroller.ErrTransactionReferenceConflict{}):
		return "reference_conflict"
	case errors.Is(err, ledgercontroller.ErrInvalidIdempotencyInput{}):
		return "idempotency_input"
	case errors.Is(err, ledgercontroller.ErrAlreadyReverted{}):
		return "already_reverted"
	case errors.Is(err, ledgercontroller.ErrNotFound) || errors.Is(err, postgres.ErrNotFound):
		return "not_found"
	case errors.Is(err, ledgercontroller.ErrNoPostings):
		return "no_postings"
	case errors.Is(err, &ledgercontroller.ErrMetadataOverride{}):
		return "metadata_override"
	case errors.Is(err, ledgercontroller.ErrIdempotencyKeyConflict{}) || errors.Is(err, ledgerstore.ErrIdempotencyKeyConflict{}):
		return "idempotency_conflict"
	}
	return "other:" + strings.ReplaceAll(err.Error(), "\n", " ")
}

type OpResult struct {
	Class string
	LogID int64
	TxID  *int64
	Hit   bool
	Panic string
	Log   *ledger.Log
	Tx    *ledger.Transaction
	Status int   // HTTP: status of a 2xx answer (0: not printed)
	HTTP  bool   // answer of the HTTP API (httpop.go): no log id, Class is "<status>:<errorCode>"
	Body  []byte // HTTP: body of a 2xx answer
}

func (r OpResult) sx() string {
	if r.Panic != "" {
		return L("panic")
	}
	if r.HTTP {
		if r.Class != "none" {
			return L("err", Q(r.Class))
		}
		tx := "nil"
		if r.TxID != nil {
			tx = fmt.Sprint(*r.TxID)
		}
		if r.Status != 0 {
			return L("ok", fmt.Sprint(r.Status), tx, b01(r.Hit))
		}
		return L("ok", tx, b01(r.Hit))
	}
	if r.Class != "none" {
		c := r.Class
		if strings.HasPrefix(c, "other:") {
			return L("err", "other", Q(c[6:]))
		}
		return L("err", c)
	}
	tx := "nil"
	if r.TxID != nil {
		tx = fmt.Sprint(*r.TxID)
	}
	return L("ok", fmt.Sprint(r.LogID), tx, b01(r.Hit))
}

// revertMeta: nil when the request carries no metadata (as the API does), a fresh map otherwise
func revertMeta(o Op) metadata.Metadata {
	if len(o.Meta) == 0 {
		return nil
	}
	return kvmap(o.Meta)
}

func tsOf(us int64) time.Time { return time.UnixMicro(us).UTC() }

func params[T any](o Op, in T) ledgercontroller.Parameters[T] {
	return ledgercontroller.Parameters[T]{DryRun: o.Dry, IdempotencyKey: o.IK, Input: in}
}

func runOp(ctx context.Context, ctrl ledgercontroller.Controller, o Op) (res OpResult) {
	defer func() {
		if r := recover(); r != nil {
			res = OpResult{Panic: fmt.Sprint(r)}
		}
	}()
	var (
		log *ledger.Log
		hit bool
		err error
	)
	switch o.Kind {
	case "create":
		td := ledger.TransactionData{Metadata: kvmap(o.Meta), Reference: o.Ref}
		for _, p := range o.Post {
			td.Postings = append(td.Postings, ledger.NewPosting(p.Src, p.Dst, p.Asset, new(big.Int).Set(p.Amt)))
		}
		if o.TS != nil {
			td.Timestamp.Time = tsOf(*o.TS)
		}
		rs := ledgercontroller.TxToScriptData(td, o.Force)
		if o.Script {
			rs.Script.Plain = o.scriptText(rs.Script.Plain)
		}
		in := ledgercontroller.CreateTransaction{RunScript: rs}
		if o.AccMeta != nil {
			in.AccountMetadata = map[string]metadata.Metadata{}
			for a, m := range o.AccMeta {
				in.AccountMetadata[a] = kvmap(m)
			}
		}
		var ct *ledger.CreatedTransaction
		log, ct, hit, err = ctrl.CreateTransaction(ctx, params(o, in))
		if err == nil {
			res.Tx = &ct.Transaction
		}
	case "revert":
		var rt *ledger.RevertedTransaction
		log, rt, hit, err = ctrl.RevertTransaction(ctx, params(o, ledgercontroller.RevertTransaction{Force: o.Force, AtEffectiveDate: o.AtEff, TransactionID: uint64(o.TxID), Metadata: revertMeta(o)}))
		if err == nil {
			res.Tx = &rt.RevertTransaction
		}
	case "setmeta":
		if o.IsAcc {
			log, hit, err = ctrl.SaveAccountMetadata(ctx, params(o, ledgercontroller.SaveAccountMetadata{Address: o.TgtAcc, Metadata: kvmap(o.Meta)}))
		} else {
			log, hit, err = ctrl.SaveTransactionMetadata(ctx, params(o, ledgercontroller.SaveTransactionMetadata{TransactionID: uint64(o.TxID), Metadata: kvmap(o.Meta)}))
		}
	case "delmeta":
		if o.IsAcc {
			log, hit, err = ctrl.DeleteAccountMetadata(ctx, params(o, ledgercontroller.DeleteAccountMetadata{Address: o.TgtAcc, Key: o.Key}))
		} else {
			log, hit, err = ctrl.DeleteTransactionMetadata(ctx, params(o, ledgercontroller.DeleteTransactionMetadata{TransactionID: uint64(o.TxID), Key: o.Key}))
		}
	}
	res.Class = classify(err)
	if err == nil {
		res.Log = log
		res.LogID = int64(*log.ID)
		res.Hit = hit
		if res.Tx != nil && res.Tx.ID != nil {
			id := int64(*res.Tx.ID)
			res.TxID = &id
		} else if hit {
			switch p := log.Data.(type) {
			case ledger.CreatedTransaction:
				id := int64(*p.Transaction.ID)
				res.TxID = &id
			case ledger.RevertedTransaction:
				id := int64(*p.RevertTransaction.ID)
				res.TxID = &id
			}
		}
	}
	return res
}

// ---------------------------------------------------------------- observable state of a ledger (through the real read paths + raw tables)
type Snap struct {
	Vols     [][4]string // acc asset in out
	Txs      []SnapTx
	Accounts []SnapAcc
	Moves    []SnapMove
	AHist    []SnapHist
	THist    []SnapHist
	Logs     []SnapLog
	Agg      map[string]string
	Err      string
}
type SnapTx struct {
	ID                  int64
	Post                []Posting
	Meta                []KV
	TS, Ins, Upd        int64
	Ref                 string
	Rev                 *int64
	PCV, PCEV           [][4]string
	HasPCEV             bool
}
type SnapAcc struct {
	Addr            string
	Meta            []KV
	First, Ins, Upd int64
	Vols            [][3]string
}
type SnapMove struct {
	Tx                int64
	Acc, Asset, Amt   string
	Src               bool
	Ins, Eff          int64
	PCV               [2]string
	PCEV              *[2]string
	Seq               int64
}
type SnapHist struct {
	Key  string
	Rev  int64
	Date int64
	Meta []KV
}
type SnapLog struct {
	ID       int64
	Type     string
	Date     int64
	IK       string
	Hash     []byte
	Raw      ledger.Log
}

func volsOf(v ledger.PostCommitVolumes) [][4]string {
	var out [][4]string
	for a, byAsset := range v {
		for c, vv := range byAsset {
			out = append(out, [4]string{a, c, vv.Input.String(), vv.Output.String()})
		}
	}
	sort.Slice(out, func(i, j int) bool {
		if out[i][0] != out[j][0] {
			return out[i][0] < out[j][0]
		}
		return out[i][1] < out[j][1]
	})
	return out
}

func us(t time.Time) int64 { return t.UnixMicro() }

func listAll[T any, O any](ctx context.Context, f func(context.Context, common.PaginatedQuery[O]) (*paginate.Cursor[T], error), first common.InitialPaginatedQuery[O]) ([]T, error) {
	var out []T
	var q common.PaginatedQuery[O] = first
	for {
		c, err := f(ctx, q)
		if err != nil {
			return nil, err
		}
		out = append(out, c.Data...)
		if !c.HasMore {
			return out, nil
		}
		nq, err := common.UnmarshalCursor[O](c.Next)
		if err != nil {
			return nil, err
		}
		q = nq
	}
}

func (st *Stack) Snapshot(ctx context.Context, ctrl ledgercontroller.Controller, name string, f Feat) (s Snap) {
	defer func() {
		if r := recover(); r != nil {
			s.Err = fmt.Sprint("panic in reads: ", r)
		}
	}()
	fail := func(what string, err error) Snap {
		s.Err = what + ": " + err.Error()
		return s
	}
	// volumes
	vols, err := listAll(ctx, ctrl.GetVolumesWithBalances, common.InitialPaginatedQuery[ledger.GetVolumesOptions]{PageSize: 7})
	if err != nil {
		return fail("volumes", err)
	}
	for _, v := range vols {
		s.Vols = append(s.Vols, [4]string{v.Account, v.Asset, v.Input.String(), v.Output.String()})
	}
	// transactions
	expand := []string{"volumes"}
	if f.Moves && f.PCEV {
		expand = append(expand, "effectiveVolumes")
	}
	txs, err := listAll(ctx, ctrl.ListTransactions, common.InitialPaginatedQuery[any]{PageSize: 5, Order: pointer.For(paginate.Order(paginate.OrderAsc)), Options: common.ResourceQuery[any]{Expand: expand}})
	if err != nil {
		return fail("transactions", err)
	}
	for _, t := range txs {
		x := SnapTx{ID: int64(*t.ID), Meta: sortKV(t.Metadata), TS: us(t.Timestamp.Time), Ins: us(t.InsertedAt.Time), Upd: us(t.UpdatedAt.Time), Ref: t.Reference,
			PCV: volsOf(t.PostCommitVolumes), PCEV: volsOf(t.PostCommitEffectiveVolumes), HasPCEV: f.Moves && f.PCEV}
		for _, p := range t.Postings {
			x.Post = append(x.Post, Posting{p.Source, p.Destination, p.Asset, p.Amount})
		}
		if t.RevertedAt != nil {
			v := us(t.RevertedAt.Time)
			x.Rev = &v
		}
		s.Txs = append(s.Txs, x)
	}
	// accounts
	accs, err := listAll(ctx, ctrl.ListAccounts, common.InitialPaginatedQuery[any]{PageSize: 4, Options: common.ResourceQuery[any]{Expand: []string{"volumes"}}})
	if err != nil && !f.Moves {
		accs, err = listAll(ctx, ctrl.ListAccounts, common.InitialPaginatedQuery[any]{PageSize: 4})
	}
	if err != nil {
		return fail("accounts", err)
	}
	for _, a := range accs {
		x := SnapAcc{Addr: a.Address, Meta: sortKV(a.Metadata), First: us(a.FirstUsage.Time), Ins: us(a.InsertionDate.Time), Upd: us(a.UpdatedAt.Time)}
		for c, v := range a.Volumes {
			x.Vols = append(x.Vols, [3]string{c, v.Input.String(), v.Output.String()})
		}
		sort.Slice(x.Vols, func(i, j int) bool { return x.Vols[i][0] < x.Vols[j][0] })
		s.Accounts = append(s.Accounts, x)
	}
	// logs
	logs, err := listAll(ctx, ctrl.ListLogs, common.InitialPaginatedQuery[any]{PageSize: 6, Order: pointer.For(paginate.Order(paginate.OrderAsc))})
	if err != nil {
		return fail("logs", err)
	}
	for _, l := range logs {
		s.Logs = append(s.Logs, SnapLog{ID: int64(*l.ID), Type: l.Type.String(), Date: us(l.Date.Time), IK: l.IdempotencyKey, Hash: l.Hash, Raw: l})
	}
	// aggregated balances
	agg, err := ctrl.GetAggregatedBalances(ctx, common.ResourceQuery[ledger.GetAggregatedVolumesOptions]{})
	if err != nil {
		return fail("aggregated", err)
	}
	s.Agg = map[string]string{}
	for c, v := range agg {
		s.Agg[c] = v.String()
	}
	st.rawTables(name, &s)
	return s
}

// rawTables: the rows of moves and of the two metadata histories (no API exposes them)
func (st *Stack) rawTables(name string, sp *Snap) {
	s := sp
	sess := st.PG.NewSession()
	defer sess.Close()
	q := func(sql string) [][]string {
		res, err := sess.Exec(sql)
		if err != nil {
			panic(err)
		}
		out := make([][]string, len(res.Rows))
		for i, r := range res.Rows {
			out[i] = make([]string, len(r))
			for j, v := range r {
				if v == nil {
					out[i][j] = "\x00"
				} else {
					out[i][j] = pgsemText(v)
				}
			}
		}
		return out
	}
	esc := strings.ReplaceAll(name, "'", "''")
	for _, r := range q(`select transactions_id, accounts_address, asset, amount, is_source, insertion_date, effective_date, (post_commit_volumes).inputs, (post_commit_volumes).outputs, (post_commit_effective_volumes).inputs, (post_commit_effective_volumes).outputs, seq from moves where ledger = '` + esc + `' order by seq`) {
		m := SnapMove{Tx: atoi(r[0]), Acc: r[1], Asset: r[2], Amt: r[3], Src: r[4] == "true", Ins: tsText(r[5]), Eff: tsText(r[6]), PCV: [2]string{r[7], r[8]}, Seq: atoi(r[11])}
		if r[9] != "\x00" {
			m.PCEV = &[2]string{r[9], r[10]}
		}
		s.Moves = append(s.Moves, m)
	}
	for _, r := range q(`select accounts_address, revision, date, metadata from accounts_metadata where ledger = '` + esc + `' order by accounts_address, revision`) {
		s.AHist = append(s.AHist, SnapHist{Key: r[0], Rev: atoi(r[1]), Date: tsText(r[2]), Meta: jsonKV(r[3])})
	}
	for _, r := range q(`select transactions_id, revision, date, metadata from transactions_metadata where ledger = '` + esc + `' order by transactions_id, revision`) {
		s.THist = append(s.THist, SnapHist{Key: r[0], Rev: atoi(r[1]), Date: tsText(r[2]), Meta: jsonKV(r[3])})
	}
}

func (s Snap) sx() string {
	if s.Err != "" {
		return L("state_error", Q(s.Err))
	}
	v4 := func(v [][4]string) string {
		out := make([]string, len(v))
		for i, x := range v {
			out[i] = L(Q(x[0]), Q(x[1]), x[2], x[3])
		}
		return L(out...)
	}
	vols := append([][4]string{}, s.Vols...)
	sort.Slice(vols, func(i, j int) bool {
		if vols[i][0] != vols[j][0] {
			return vols[i][0] < vols[j][0]
		}
		return vols[i][1] < vols[j][1]
	})
	var txs, accs, moves, ah, th, logs []string
	for _, t := range s.Txs {
		ps := make([]string, len(t.Post))
		for i, p := range t.Post {
			ps[i] = L(Q(p.Src), Q(p.Dst), Q(p.Asset), p.Amt.String())
		}
		rev := "nil"
		if t.Rev != nil {
			rev = fmt.Sprint(*t.Rev)
		}
		pcev := "nil"
		if t.HasPCEV {
			pcev = v4(t.PCEV)
		}
		txs = append(txs, L(fmt.Sprint(t.ID), L(ps...), kvsx(t.Meta), fmt.Sprint(t.TS), Q(t.Ref), fmt.Sprint(t.Ins), fmt.Sprint(t.Upd), rev, v4(t.PCV), pcev))
	}
	for _, a := range s.Accounts {
		accs = append(accs, L(Q(a.Addr), kvsx(a.Meta), fmt.Sprint(a.First), fmt.Sprint(a.Ins), fmt.Sprint(a.Upd)))
	}
	for _, m := range s.Moves {
		pe := "nil"
		if m.PCEV != nil {
			pe = L(m.PCEV[0], m.PCEV[1])
		}
		moves = append(moves, L(fmt.Sprint(m.Tx), Q(m.Acc), Q(m.Asset), m.Amt, b01(m.Src), fmt.Sprint(m.Ins), fmt.Sprint(m.Eff), L(m.PCV[0], m.PCV[1]), pe))
	}
	for _, h := range s.AHist {
		ah = append(ah, L(Q(h.Key), fmt.Sprint(h.Rev), fmt.Sprint(h.Date), kvsx(h.Meta)))
	}
	for _, h := range s.THist {
		th = append(th, L(h.Key, fmt.Sprint(h.Rev), fmt.Sprint(h.Date), kvsx(h.Meta)))
	}
	for _, l := range s.Logs {
		logs = append(logs, L(fmt.Sprint(l.ID), l.Type, fmt.Sprint(l.Date), Q(l.IK)))
	}
	return L("state", L("vols", v4(vols)), L("txs", L(txs...)), L("accounts", L(accs...)), L("moves", L(moves...)), L("ahist", L(ah...)), L("thist", L(th...)), L("logs", L(logs...)))
}
