//go:build verif

package main

import (
	"bytes"
	"context"
	"crypto/sha256"
	"encoding/base64"
	"encoding/hex"
	"encoding/json"
	"fmt"
	"math/big"
	"strings"
	"time"

	"github.com/formancehq/go-libs/v5/pkg/storage/bun/paginate"
	"github.com/formancehq/go-libs/v5/pkg/types/metadata"
	"github.com/formancehq/go-libs/v5/pkg/types/pointer"
	libtime "github.com/formancehq/go-libs/v5/pkg/types/time"

	ledger "github.com/formancehq/ledger/internal"
	ledgercontroller "github.com/formancehq/ledger/internal/controller/ledger"
	"github.com/formancehq/ledger/internal/storage/common"
	"github.com/formancehq/ledger/internal/verifh/pgsem"
)

// C09 / C10: log hashing.
//
//	-mode pure  (TIE-C): sha (SHA-256 self-test of the OCaml side), gostr (encoding/json string encoder), bytea / byteain
//	             (pgsem's encode(_, 'escape'), text::bytea, encode(_, 'base64')), date (Go RFC3339Nano, pgsem to_json(timestamp)),
//	             gohash (real Log.ComputeHash on generated logs of every payload kind vs sha256 of the model's Go pre-image)
//	-mode stack (TIE-D): the real controller stack on pgsem with HASH_LOGS=SYNC; stored hashes vs the model's trigger chain,
//	             monitors C10 (stored hash = ComputeHash of the exported log) and C09 (chain linear, recomputable)
func init() { commands["hashes"] = cmdHashes }

var advPool = []string{"k1", "plain-key_2", `a"b`, `x\y`, `x\\y`, `\101`, `\`, "<&>", "<", "&amp;", "\u00e9", "\u65e5\u672c", "tab\there", "nl\nx", "\r", "\x01", "\x1f", "\x7f",
	"\u2028", "\u2029", "\u2027", "\xff", "\xc3", "\xc0\x80", "\xe2\x80", "\xed\xa0\x80", "\xef\xbf\xbd", "\xf4\x90\x80\x80", "\xf0\x9f\x98\x80", "\u20ac 10", "a'b", "{}", `","id":1,"x":"`, " ", "/", "\b\f", "\x00"}

func advStr(r *Rng) string {
	switch r.Intn(10) {
	case 0:
		return ""
	case 1, 2, 3:
		return Pick(r, advPool)
	case 4, 5:
		return Pick(r, advPool) + Pick(r, advPool)
	case 6:
		n := r.Intn(6)
		b := make([]byte, n)
		for i := range b {
			b[i] = byte(r.Intn(256))
		}
		return string(b)
	case 7:
		return Pick(r, []string{"ik1", "order-42", "ref:3", "users:001"}) + Pick(r, advPool)
	default:
		return Pick(r, []string{"ik1", "order-42", "v1", "a b c", "clé", "naïve-€"})
	}
}

func advStrNoNul(r *Rng) string { return strings.ReplaceAll(advStr(r), "\x00", "0") }

func advMeta(r *Rng, noNul bool) metadata.Metadata {
	m := metadata.Metadata{}
	for i, n := 0, r.Intn(3); i < n; i++ {
		k, v := advStr(r), advStr(r)
		if noNul {
			k, v = strings.ReplaceAll(k, "\x00", "0"), strings.ReplaceAll(v, "\x00", "0")
		}
		m[k] = v
	}
	return m
}

var dateLattice = []int64{0, 1, 1700000000000000, 1700000000123400, 1700000000100000, 1700000000999999, 1700000000000001, 951782400000000, 1709164800000000,
	-62135596800000000, 253402300799999999, 253402300799000000, 4102444800000000, -1, -1000001}

func genDateUS(r *Rng, wide bool) int64 {
	switch r.Intn(4) {
	case 0:
		return Pick(r, dateLattice)
	case 1:
		return 1600000000000000 + int64(r.Intn(200000000))*1000000 + int64(Pick(r, []int{0, 0, 1, 10, 100, 1000, 120000, 500000, 999999, r.Intn(1000000)}))
	default:
		lo, hi := int64(-62135596800000000), int64(253402300799999999)
		if wide {
			lo, hi = -377705116800000000, 3093527980799999999 // years -9999 .. 99999
		}
		return lo + int64(r.Next()%uint64(hi-lo))
	}
}

func hx(b []byte) string { return hex.EncodeToString(b) }

func mementoOf(l ledger.Log) []byte {
	obj := l.Data.(any)
	if m, ok := obj.(ledger.Memento); ok {
		obj = m.GetMemento()
	}
	b, err := json.Marshal(obj)
	must(err)
	return b
}

func genTx(r *Rng, id uint64) ledger.Transaction {
	tx := ledger.Transaction{}
	for i, n := 0, r.Intn(3); i < n; i++ {
		tx.Postings = append(tx.Postings, ledger.NewPosting(advStr(r), advStr(r), advStr(r), r.BigAmount()))
	}
	if r.Chance(70) {
		tx.Metadata = advMeta(r, false)
	}
	tx.Timestamp = libtime.Time{Time: tsOf(genDateUS(r, false))}
	if r.Chance(50) {
		tx.Reference = advStr(r)
	}
	tx.ID = &id
	if r.Chance(30) {
		tx.PostCommitVolumes = ledger.PostCommitVolumes{"a": {"USD": ledger.NewVolumesInt64(1, 2)}}
		tx.InsertedAt = libtime.Time{Time: tsOf(genDateUS(r, false))}
	}
	return tx
}

// genLog: a log of a random payload kind with adversarial strings everywhere
func genLog(r *Rng) ledger.Log {
	var p ledger.LogPayload
	switch r.Intn(6) {
	case 0, 1:
		ct := ledger.CreatedTransaction{Transaction: genTx(r, uint64(r.Intn(1000)))}
		if r.Chance(50) {
			ct.AccountMetadata = ledger.AccountMetadata{advStr(r): advMeta(r, false)}
		}
		p = ct
	case 2:
		a, b := genTx(r, uint64(r.Intn(1000))), genTx(r, uint64(r.Intn(1000)))
		ra := libtime.Time{Time: tsOf(genDateUS(r, false))}
		a.RevertedAt = &ra
		p = ledger.RevertedTransaction{RevertedTransaction: a, RevertTransaction: b}
	case 3:
		if r.Bool() {
			p = ledger.SavedMetadata{TargetType: ledger.MetaTargetTypeAccount, TargetID: advStr(r), Metadata: advMeta(r, false)}
		} else {
			p = ledger.SavedMetadata{TargetType: ledger.MetaTargetTypeTransaction, TargetID: uint64(r.Intn(100)), Metadata: advMeta(r, false)}
		}
	case 4:
		if r.Bool() {
			p = ledger.DeletedMetadata{TargetType: ledger.MetaTargetTypeAccount, TargetID: advStr(r), Key: advStr(r)}
		} else {
			p = ledger.DeletedMetadata{TargetType: ledger.MetaTargetTypeTransaction, TargetID: uint64(r.Intn(100)), Key: advStr(r)}
		}
	default:
		sc := ledger.Schema{Version: advStr(r), SchemaData: ledger.SchemaData{Chart: ledger.ChartOfAccounts{}}}
		sc.CreatedAt = libtime.Time{Time: tsOf(genDateUS(r, false))}
		p = ledger.InsertedSchema{Schema: sc}
	}
	l := ledger.NewLog(p)
	l.Date = libtime.Time{Time: tsOf(genDateUS(r, true))}
	if r.Chance(60) {
		l.IdempotencyKey = advStr(r)
	}
	if r.Chance(35) {
		l.SchemaVersion = advStr(r)
	}
	if r.Chance(15) { // ComputeHash includes whatever is in the Hash field
		h := sha256.Sum256([]byte(advStr(r)))
		l.Hash = h[:r.Intn(33)]
	}
	return l
}

func goHashCase(seed uint64) (string, string) {
	r := &Rng{s: seed}
	l := genLog(r)
	var prev *ledger.Log
	prevSx := "nil"
	if r.Chance(70) {
		h := sha256.Sum256([]byte(advStr(r)))
		n := 32
		if r.Chance(10) {
			n = r.Intn(33)
		}
		prev = &ledger.Log{Hash: h[:n]}
		if n == 0 {
			prev.Hash = []byte{}
		}
		prevSx = hxb(prev.Hash)
	}
	hashSx := "nil"
	if l.Hash != nil {
		hashSx = hxb(l.Hash)
	}
	cs := L("gohash", prevSx, l.Type.String(), hxb(mementoOf(l)), fmt.Sprint(l.Date.UnixMicro()), Q(l.IdempotencyKey), Q(l.SchemaVersion), hashSx)
	c := l
	c.ComputeHash(prev)
	return cs, hx(c.Hash)
}

// hex atom; the empty byte string is the atom `e` followed by nothing decodable: use "" marker handled on both sides
func hxb(b []byte) string {
	if len(b) == 0 {
		return `""`
	}
	return hx(b)
}

type pgProbe struct{ sess *pgsem.Session }

func newProbe() *pgProbe     { return &pgProbe{sess: pgsem.NewDB("_default").NewSession()} }
func sqlLit(s string) string { return "'" + strings.ReplaceAll(s, "'", "''") + "'" }
func (p *pgProbe) one(q string) (vals []pgsem.Value, errText string) {
	res, err := p.sess.Exec(q)
	if err != nil {
		return nil, err.Error()
	}
	return res.Rows[0], ""
}

func pureCase(kind string, seed uint64, probe *pgProbe) (string, string) {
	r := &Rng{s: seed}
	switch kind {
	case "sha":
		n := Pick(r, []int{0, 1, 3, 55, 56, 57, 63, 64, 65, 119, 120, 128, r.Intn(300)})
		b := make([]byte, n)
		for i := range b {
			b[i] = byte(r.Intn(256))
		}
		h := sha256.Sum256(b)
		return L("sha", hxb(b)), hx(h[:])
	case "gostr":
		s := advStr(r)
		out, err := json.Marshal(s)
		must(err)
		verb := "0"
		if string(out) == `"`+s+`"` {
			verb = "1"
		}
		return L("gostr", Q(s)), L(hx(out), verb)
	case "bytea":
		var b []byte
		if r.Bool() {
			b = []byte(advStr(r) + advStr(r))
		} else {
			b = make([]byte, Pick(r, []int{0, 1, 2, 31, 32, 33, 56, 57, 58, 113, 114, 115, r.Intn(200)}))
			for i := range b {
				b[i] = byte(r.Intn(256))
			}
		}
		lit := `'\x` + hx(b) + `'::bytea`
		v, e := probe.one(`select encode(` + lit + `, 'escape'), encode(` + lit + `, 'escape')::bytea, encode(` + lit + `, 'base64')`)
		if e != "" {
			return L("bytea", hxb(b)), L("error", Q(e))
		}
		return L("bytea", hxb(b)), L(hxb([]byte(v[0].(string))), hxb(v[1].([]byte)), hxb([]byte(v[2].(string))))
	case "byteain":
		s := strings.ReplaceAll(advStr(r)+Pick(r, []string{"", `\`, `\\`, `\134`, `\400`, `\08`, `\1`, `\12`, `\377z`})+advStr(r), "\x00", "0")
		if strings.HasPrefix(s, `\x`) { // hex input format: only at the very start of a text; never reached by the trigger's texts
			s = "h" + s
		}
		v, e := probe.one(`select (` + sqlLit(s) + `)::bytea`)
		if e != "" {
			return L("byteain", Q(s)), "raise"
		}
		return L("byteain", Q(s)), hxb(v[0].([]byte))
	case "date":
		us := genDateUS(r, false)
		gos := tsOf(us).Format(libtime.DateFormat)
		ts := time.UnixMicro(us).UTC().Format("2006-01-02 15:04:05.999999")
		v, e := probe.one(`select to_json(` + sqlLit(ts) + `::timestamp)#>>'{}'`)
		if e != "" {
			return L("date", fmt.Sprint(us)), L("error", Q(e))
		}
		return L("date", fmt.Sprint(us)), L(Q(gos), Q(v[0].(string)))
	case "godate":
		us := genDateUS(r, true)
		b, err := json.Marshal(libtime.Time{Time: tsOf(us)})
		must(err)
		return L("godate", fmt.Sprint(us)), Q(strings.Trim(string(b), `"`))
	default:
		return goHashCase(seed)
	}
}

// ---------------------------------------------------------------- stack mode
type hOp struct {
	Kind                 string // schema create setmeta delmeta revert
	Now                  int64
	IK, SV, Ver          string
	Src, Dst, Asset, Ref string
	Amt                  int64
	Meta                 []KV
	Acc                  string
	AccMeta              []KV
	TxID                 int64
	IsAcc                bool
	Key                  string
}

func (o hOp) sx() string {
	return L("hop", fmt.Sprint(o.Now), o.Kind, Q(o.IK), Q(o.SV), Q(o.Ver), Q(o.Src), Q(o.Dst), Q(o.Asset), fmt.Sprint(o.Amt), Q(o.Ref), kvsx(o.Meta),
		Q(o.Acc), kvsx(o.AccMeta), fmt.Sprint(o.TxID), b01(o.IsAcc), Q(o.Key))
}
func parseHOp(e *Sx) hOp {
	f := e.List
	return hOp{Now: atoi(f[1].Atom), Kind: f[2].Atom, IK: f[3].Atom, SV: f[4].Atom, Ver: f[5].Atom, Src: f[6].Atom, Dst: f[7].Atom, Asset: f[8].Atom,
		Amt: atoi(f[9].Atom), Ref: f[10].Atom, Meta: parseKV(f[11]), Acc: f[12].Atom, AccMeta: parseKV(f[13]), TxID: atoi(f[14].Atom), IsAcc: f[15].Atom == "1", Key: f[16].Atom}
}

func hparams[T any](o hOp, in T) ledgercontroller.Parameters[T] {
	return ledgercontroller.Parameters[T]{IdempotencyKey: o.IK, SchemaVersion: o.SV, Input: in}
}

func runHOp(ctx context.Context, ctrl ledgercontroller.Controller, o hOp) (log *ledger.Log, txid *uint64, class string) {
	defer func() {
		if r := recover(); r != nil {
			log, class = nil, "panic:"+fmt.Sprint(r)
		}
	}()
	var err error
	switch o.Kind {
	case "schema":
		log, _, _, err = ctrl.InsertSchema(ctx, hparams(o, ledgercontroller.InsertSchema{Version: o.Ver, Data: ledger.SchemaData{Chart: ledger.ChartOfAccounts{}}}))
	case "create":
		td := ledger.TransactionData{Metadata: kvmap(o.Meta), Reference: o.Ref}
		td.Postings = append(td.Postings, ledger.NewPosting(o.Src, o.Dst, o.Asset, big.NewInt(o.Amt)))
		in := ledgercontroller.CreateTransaction{RunScript: ledgercontroller.TxToScriptData(td, false)}
		if o.Acc != "" {
			in.AccountMetadata = map[string]metadata.Metadata{o.Acc: kvmap(o.AccMeta)}
		}
		var ct *ledger.CreatedTransaction
		log, ct, _, err = ctrl.CreateTransaction(ctx, hparams(o, in))
		if err == nil {
			txid = ct.Transaction.ID
		}
	case "revert":
		var rt *ledger.RevertedTransaction
		log, rt, _, err = ctrl.RevertTransaction(ctx, hparams(o, ledgercontroller.RevertTransaction{Force: true, TransactionID: uint64(o.TxID)}))
		if err == nil {
			txid = rt.RevertTransaction.ID
		}
	case "setmeta":
		if o.IsAcc {
			log, _, err = ctrl.SaveAccountMetadata(ctx, hparams(o, ledgercontroller.SaveAccountMetadata{Address: o.Acc, Metadata: kvmap(o.Meta)}))
		} else {
			log, _, err = ctrl.SaveTransactionMetadata(ctx, hparams(o, ledgercontroller.SaveTransactionMetadata{TransactionID: uint64(o.TxID), Metadata: kvmap(o.Meta)}))
		}
	case "delmeta":
		if o.IsAcc {
			log, _, err = ctrl.DeleteAccountMetadata(ctx, hparams(o, ledgercontroller.DeleteAccountMetadata{Address: o.Acc, Key: o.Key}))
		} else {
			log, _, err = ctrl.DeleteTransactionMetadata(ctx, hparams(o, ledgercontroller.DeleteTransactionMetadata{TransactionID: uint64(o.TxID), Key: o.Key}))
		}
	}
	return log, txid, classify(err)
}

// metadata for the stack runs: no NUL anywhere; map KEYS are kept valid UTF-8 (invalid keys are replaced by U+FFFD in jsonb, which
// re-orders and may merge keys: the same export re-encoding class as invalid values, but not recognisable entry by entry)
func advKV(r *Rng) []KV {
	m := metadata.Metadata{}
	for _, kv := range sortKV(advMeta(r, true)) { // sorted: map iteration order must not decide which of two merged keys wins
		m[strings.ToValidUTF8(kv.K, "?")] = kv.V
	}
	return sortKV(m)
}

// stack-safe adversarial string: no NUL (PostgreSQL text and jsonb cannot hold it; bun drops it from literals)
func genHOps(r *Rng, exec func(hOp) (*uint64, string)) []hOp {
	n := 3 + r.Intn(6)
	now := int64(1700000000) * 1000000
	var ops []hOp
	var versions []string
	var okTx []int64
	accs := []string{"alice", "bob", "users:1", "bank"}
	for i := 0; i < n; i++ {
		now += int64(Pick(r, []int{1000000, 1, 1234, 100000, 61000000}))
		o := hOp{Now: now}
		k := r.Intn(100)
		switch {
		case (i == 0 && r.Chance(45)) || k < 8:
			o.Kind = "schema"
			o.Ver = Pick(r, []string{"v1", "v 2", `v"3`, "é1", "1.0.0", `s\1`, "<v>"})
		case k < 55 || len(okTx) == 0:
			o.Kind = "create"
			o.Src, o.Dst, o.Asset, o.Amt = "world", Pick(r, accs), Pick(r, []string{"USD", "EUR/2"}), int64(1+r.Intn(100))
			if r.Chance(40) {
				o.Ref = advStrNoNul(r)
			}
			o.Meta = advKV(r)
			if r.Chance(30) {
				o.Acc, o.AccMeta = Pick(r, accs), advKV(r)
			}
		case k < 65:
			o.Kind, o.TxID = "revert", Pick(r, okTx)
		case k < 75:
			o.Kind, o.TxID, o.Meta = "setmeta", Pick(r, okTx), advKV(r)
			if len(o.Meta) == 0 {
				o.Meta = []KV{{"k", advStrNoNul(r)}}
			}
		case k < 85:
			o.Kind, o.IsAcc, o.Acc, o.Meta = "setmeta", true, Pick(r, accs), advKV(r)
		case k < 92:
			o.Kind, o.TxID, o.Key = "delmeta", Pick(r, okTx), advStrNoNul(r)
		default:
			o.Kind, o.IsAcc, o.Acc, o.Key = "delmeta", true, Pick(r, accs), advStrNoNul(r)
		}
		if r.Chance(45) {
			o.IK = advStrNoNul(r)
			if len(o.IK) > 200 {
				o.IK = o.IK[:200]
			}
		}
		if len(versions) > 0 && o.Kind != "schema" && r.Chance(60) {
			o.SV = Pick(r, versions)
		}
		ops = append(ops, o)
		txid, class := exec(o)
		if class == "none" {
			if o.Kind == "schema" {
				versions = append(versions, o.Ver)
			}
			if txid != nil && o.Kind == "create" {
				okTx = append(okTx, int64(*txid))
			}
		}
	}
	return ops
}

type hRow struct {
	ID      int64
	Type    string
	Memento []byte
	DateUS  int64
	IK, SV  string
	Hash    []byte
}

type stackRun struct {
	Returned map[int64]ledger.Log // the log value each successful write returned, by id
	Ops      []hOp
	Classes  []string
	Rows     []hRow
	Logs     []ledger.Log
	Err      string
}

func runStack(ops []hOp, gen func(exec func(hOp) (*uint64, string)) []hOp) *stackRun {
	st := NewStack(StackOpts{})
	ctx := context.Background()
	sr := &stackRun{Returned: map[int64]ledger.Log{}}
	if err := st.Sys.CreateLedger(ctx, "l1", ledger.Configuration{Bucket: "_default", Features: allOn.set()}); err != nil {
		panic(fmt.Errorf("create ledger: %w", err))
	}
	ctrl, err := st.Sys.GetLedgerController(ctx, "l1")
	must(err)
	exec := func(o hOp) (*uint64, string) {
		st.PG.Clock = pgsem.TS(o.Now)
		lg, txid, class := runHOp(ctx, ctrl, o)
		sr.Classes = append(sr.Classes, class)
		if class == "none" && lg != nil && lg.ID != nil {
			if _, seen := sr.Returned[int64(*lg.ID)]; !seen { // an idempotency replay returns the stored log again
				sr.Returned[int64(*lg.ID)] = *lg
			}
		}
		return txid, class
	}
	if gen != nil {
		sr.Ops = gen(exec)
	} else {
		sr.Ops = ops
		for _, o := range ops {
			exec(o)
		}
	}
	logs, err := listAll(ctx, ctrl.ListLogs, common.InitialPaginatedQuery[any]{PageSize: 4, Order: pointer.For(paginate.Order(paginate.OrderAsc))})
	if err != nil {
		sr.Err = "list logs: " + err.Error()
		return sr
	}
	sr.Logs = logs
	sess := st.PG.NewSession()
	defer sess.Close()
	rows, err := readHashRows(sess)
	if err != nil {
		sr.Err = "raw logs: " + err.Error()
		return sr
	}
	sr.Rows = rows
	return sr
}

func (sr *stackRun) caseSx() string {
	ops := make([]string, len(sr.Ops))
	for i, o := range sr.Ops {
		ops[i] = o.sx()
	}
	rows := make([]string, len(sr.Rows))
	for i, r := range sr.Rows {
		rows[i] = L(r.Type, hxb(r.Memento), fmt.Sprint(r.DateUS), Q(r.IK))
	}
	return L("stack", L(ops...), L(rows...))
}
func (sr *stackRun) implSx() string {
	if sr.Err != "" {
		return L("error", Q(sr.Err))
	}
	hs := []string{"hashes"}
	for _, r := range sr.Rows {
		hs = append(hs, hxb(r.Hash))
	}
	return L(hs...)
}

// ---- the monitors' own statement of the trigger's rule (migration 37), independent of pgsem and of the Coq model
func refEscape(b []byte) string {
	var sb strings.Builder
	for _, c := range b {
		switch {
		case c == '\\':
			sb.WriteString(`\\`)
		case c == 0 || c >= 0x80:
			fmt.Fprintf(&sb, `\%03o`, c)
		default:
			sb.WriteByte(c)
		}
	}
	return sb.String()
}
func refByteaIn(s string) ([]byte, bool) {
	var out []byte
	for i := 0; i < len(s); i++ {
		switch {
		case s[i] != '\\':
			out = append(out, s[i])
		case i+1 < len(s) && s[i+1] == '\\':
			out = append(out, '\\')
			i++
		case i+3 < len(s) && s[i+1] >= '0' && s[i+1] <= '3' && s[i+2] >= '0' && s[i+2] <= '7' && s[i+3] >= '0' && s[i+3] <= '7':
			out = append(out, (s[i+1]-'0')<<6|(s[i+2]-'0')<<3|(s[i+3]-'0'))
			i += 3
		default:
			return nil, false
		}
	}
	return out, true
}
func refTriggerHash(prev []byte, hasPrev bool, r hRow) ([]byte, bool) {
	text := `{"type":"` + r.Type + `","data":` + refEscape(r.Memento) + `,"date":"` + time.UnixMicro(r.DateUS).UTC().Format("2006-01-02T15:04:05.999999") +
		`Z","idempotencyKey":"` + r.IK + `","id":0,"hash":null}`
	body, ok := refByteaIn(text)
	if !ok {
		return nil, false
	}
	var pre []byte
	if hasPrev {
		pre = append(pre, '"')
		pre = append(pre, base64.StdEncoding.EncodeToString(prev)...)
		pre = append(pre, '"', '\n')
	}
	pre = append(append(pre, body...), '\n')
	h := sha256.Sum256(pre)
	return h[:], true
}

func ikVerbatim(s string) bool {
	b, err := json.Marshal(s)
	return err == nil && string(b) == `"`+s+`"`
}

// C10 on one stack run. For every stored log two comparisons with the stored hash:
//
//	(same log)     ComputeHash on the very log value the write returned (Hash cleared), predecessor = stored hash of the previous row
//	(exported log) ComputeHash on the log ListLogs returns (Hash cleared), predecessor = the previous exported log
//
// A divergence is tagged by what explains it, so that known findings match exactly their class; tags appear in this order:
//
//	[sv-ignored-by-trigger]              the log has a schema version (when it is the only explanation: ComputeHash with the version cleared
//	                                     must give the stored hash, else the tag is [unexplained])
//	[ik-not-escaped-by-trigger]          the idempotency key is not emitted verbatim by encoding/json
//	[invalid-utf8-reencoded-on-export]   exported log only: the stored memento spells U+FFFD as the escape \ufffd (encoding/json on invalid
//	                                     UTF-8), the memento re-marshalled from the exported data has the character itself; nothing else differs
//	[unexplained]                        anything else, and whenever the stored hash is not what the trigger's rule (refTriggerHash) gives
//	[ik-backslash-rejected] (per op)     the write failed with "invalid input syntax for type bytea": the key contains a backslash
func explainDivergence(lg ledger.Log, prev *ledger.Log, row hRow, refOK bool, exported bool) string {
	if !refOK {
		return "[unexplained]"
	}
	tags := ""
	if lg.SchemaVersion != "" {
		tags += "[sv-ignored-by-trigger]"
	}
	if !ikVerbatim(lg.IdempotencyKey) {
		tags += "[ik-not-escaped-by-trigger]"
	}
	if re := mementoOf(lg); !bytes.Equal(re, row.Memento) {
		if exported && bytes.Contains(row.Memento, []byte(`\ufffd`)) && bytes.Equal(bytes.ReplaceAll(row.Memento, []byte(`\ufffd`), []byte("\xef\xbf\xbd")), re) {
			tags += "[invalid-utf8-reencoded-on-export]"
		} else {
			return fmt.Sprintf("[unexplained] (stored memento %q, memento of the log %q)", row.Memento, re)
		}
	}
	if tags == "[sv-ignored-by-trigger]" {
		noSV := lg
		noSV.Hash, noSV.SchemaVersion = nil, ""
		noSV.ComputeHash(prev)
		if !bytes.Equal(noSV.Hash, row.Hash) {
			return "[unexplained]"
		}
	}
	if tags == "" {
		return "[unexplained]"
	}
	return tags
}

func monC10Stack(sr *stackRun, exportedOnly bool) []string {
	var out []string
	if !exportedOnly {
		for i, c := range sr.Classes {
			if strings.Contains(c, "invalid input syntax for type bytea") {
				tag := "[unexplained]"
				if strings.Contains(sr.Ops[i].IK, `\`) {
					tag = "[ik-backslash-rejected]"
				}
				out = append(out, fmt.Sprintf("%s op %d (%s, key %q): the trigger cannot hash the log at all, the write fails: %s", tag, i, sr.Ops[i].Kind, sr.Ops[i].IK, c))
			}
		}
	}
	if sr.Err != "" {
		return append(out, "[unexplained] reads failed: "+sr.Err)
	}
	if len(sr.Logs) != len(sr.Rows) {
		return append(out, fmt.Sprintf("[unexplained] ListLogs returns %d logs, the table has %d rows", len(sr.Logs), len(sr.Rows)))
	}
	for i := range sr.Logs {
		lg, row := sr.Logs[i], sr.Rows[i]
		var ph []byte
		if i > 0 {
			ph = sr.Rows[i-1].Hash
		}
		ref, ok := refTriggerHash(ph, i > 0, row)
		refOK := ok && bytes.Equal(ref, row.Hash) && bytes.Equal(lg.Hash, row.Hash)
		check := func(what string, l ledger.Log, prev *ledger.Log, exported bool) {
			c := l
			c.Hash = nil
			c.ComputeHash(prev)
			if bytes.Equal(c.Hash, row.Hash) && refOK {
				return
			}
			out = append(out, fmt.Sprintf("%s log %d (%s, %s, key %q, schema version %q): stored hash %x, ComputeHash gives %x", explainDivergence(l, prev, row, refOK, exported),
				row.ID, what, row.Type, l.IdempotencyKey, l.SchemaVersion, row.Hash, c.Hash))
		}
		if mem, ok := sr.Returned[row.ID]; ok && !exportedOnly {
			var prev *ledger.Log
			if i > 0 {
				prev = &ledger.Log{Hash: ph}
			}
			check("same log", mem, prev, false)
		}
		var prev *ledger.Log
		if i > 0 {
			prev = &sr.Logs[i-1]
		}
		check("exported log", lg, prev, true)
	}
	return out
}

// C09 on one stack run: (a) linear chain by the trigger's rule: every stored hash is the rule applied to the stored hash of
// the log with the next smaller id and to no other; ids strictly increase; (b) recomputation from the exported logs
// (ComputeHash, hash cleared) reproduces the stored hashes; (b) inherits C10's divergence classes, tagged the same way.
func monC09Stack(sr *stackRun) []string {
	if sr.Err != "" {
		return []string{"[unexplained] reads failed: " + sr.Err}
	}
	out := monC09Rows(sr.Rows)
	for _, m := range monC10Stack(sr, true) {
		out = append(out, "recompute: "+m)
	}
	return out
}

// readHashRows: the raw logs rows of ledger l1 in id order
func readHashRows(sess *pgsem.Session) ([]hRow, error) {
	res, err := sess.Exec(`select id, type, memento, date, idempotency_key, schema_version, hash from logs where ledger = 'l1' order by id`)
	if err != nil {
		return nil, err
	}
	var rows []hRow
	for _, r := range res.Rows {
		row := hRow{ID: atoi(pgsemText(r[0])), Type: pgsemText(r[1]), DateUS: tsText(pgsemText(r[3]))}
		if b, ok := r[2].([]byte); ok {
			row.Memento = b
		}
		if r[4] != nil {
			row.IK = pgsemText(r[4])
		}
		if r[5] != nil {
			row.SV = pgsemText(r[5])
		}
		if b, ok := r[6].([]byte); ok {
			row.Hash = b
		}
		rows = append(rows, row)
	}
	return rows, nil
}

// monC09Rows: the chain is linear in id order by the trigger's rule (no two logs chain from the same predecessor, every
// log chains from the log with the next smaller id)
func monC09Rows(rows []hRow) []string {
	var out []string
	sr := &stackRun{Rows: rows}
	for i, row := range sr.Rows {
		if i > 0 && sr.Rows[i-1].ID >= row.ID {
			out = append(out, fmt.Sprintf("[ids] log ids not increasing: %d then %d", sr.Rows[i-1].ID, row.ID))
		}
		if len(row.Hash) != 32 {
			out = append(out, fmt.Sprintf("[no-hash] log %d has no 32-byte hash (HASH_LOGS=SYNC)", row.ID))
			continue
		}
		var ph []byte
		if i > 0 {
			ph = sr.Rows[i-1].Hash
		}
		if ref, ok := refTriggerHash(ph, i > 0, row); ok && bytes.Equal(ref, row.Hash) {
			continue
		}
		from := ""
		if ref, ok := refTriggerHash(nil, false, row); ok && bytes.Equal(ref, row.Hash) && i > 0 {
			from = "nothing (as if it were the first log)"
		}
		for j, other := range sr.Rows {
			if ref, ok := refTriggerHash(other.Hash, true, row); ok && bytes.Equal(ref, row.Hash) && j != i-1 {
				from = fmt.Sprintf("log %d", sr.Rows[j].ID)
			}
		}
		if from != "" {
			out = append(out, fmt.Sprintf("[not-linear] log %d does not chain from its predecessor in id order: it chains from %s", row.ID, from))
		} else {
			out = append(out, fmt.Sprintf("[not-chain-hash] log %d: the stored hash %x is not the documented chain hash (the trigger's rule of migration 37) over any stored predecessor", row.ID, row.Hash))
		}
	}
	return out
}

func cmdHashes(args []string) int {
	f := ParseFlags(args)
	out := NewOut(f.Out)
	defer out.Close()
	mode := f.Extra["mode"]
	if mode == "" {
		mode = "pure"
	}
	probe := newProbe()
	pure := func(kind string, seed uint64) {
		cs, impl := pureCase(kind, seed, probe)
		cs = cs[:len(cs)-1] + " " + L("seed", fmt.Sprint(seed)) + ")" // replay re-generates the case from its seed
		out.Case(cs, impl)
		out.Stats["cases"]++
		out.Stats["kind_"+kind]++
		if kind == "gohash" {
			out.Stats["distinct_nontrivial"]++
		}
	}
	minimised, noMin := 0, false
	var stack func(sr *stackRun)
	stack = func(sr *stackRun) {
		cs := sr.caseSx()
		out.Case(cs, sr.implSx())
		out.Stats["cases"]++
		out.Stats["ops"] += len(sr.Ops)
		out.Stats["logs"] += len(sr.Rows)
		for i, c := range sr.Classes {
			if strings.HasPrefix(c, "other:") || strings.HasPrefix(c, "panic:") {
				c = c[:5]
			}
			out.Stats["res_"+c]++
			out.Stats["op_"+sr.Ops[i].Kind]++
		}
		for _, r := range sr.Rows {
			if r.SV != "" {
				out.Stats["logs_with_schema_version"]++
			}
			if !ikVerbatim(r.IK) {
				out.Stats["logs_with_escaped_key"]++
			} else if r.IK != "" {
				out.Stats["logs_with_verbatim_key"]++
			}
		}
		if len(sr.Rows) >= 2 {
			out.Stats["distinct_nontrivial"]++
		}
		novel := func(x *stackRun) (c10, c09 bool) {
			for _, m := range monC10Stack(x, false) {
				c10 = c10 || strings.Contains(m, "[unexplained]")
			}
			for _, m := range monC09Stack(x) {
				c09 = c09 || strings.Contains(m, "[unexplained]") || strings.HasPrefix(m, "[not-") || strings.HasPrefix(m, "[ids]") || strings.HasPrefix(m, "[no-hash]")
			}
			return
		}
		// a divergence outside the known classes: delta-debug the operation list (drop one operation at a time while the same property still
		// shows a novel violation) and report on the minimised history first; budget: at most 3 minimisations per run of the command
		if a, b := novel(sr); (a || b) && minimised < 3 && !noMin {
			minimised++
			ops := append([]hOp{}, sr.Ops...)
			for i := len(ops) - 1; i >= 0 && len(ops) > 1; i-- {
				cand := append(append([]hOp{}, ops[:i]...), ops[i+1:]...)
				if x, y := novel(runStack(cand, nil)); (a && x) || (!a && b && y) {
					ops = cand
				}
			}
			if len(ops) < len(sr.Ops) {
				noMin = true
				stack(runStack(ops, nil))
				noMin = false
				out.Stats["minimised_histories"]++
			}
		}
		for _, m := range monC10Stack(sr, false) {
			out.Violation("C10", cs, m)
		}
		for _, m := range monC09Stack(sr) {
			out.Violation("C09", cs, m)
		}
	}
	if f.Replay != "" {
		for _, line := range ReadLines(f.Replay) {
			sx, err := ParseSx(line)
			must(err)
			switch kind := sx.List[0].Atom; kind {
			case "stack":
				var ops []hOp
				for _, e := range sx.List[1].List {
					ops = append(ops, parseHOp(e))
				}
				stack(runStack(ops, nil))
			default: // pure cases carry their generator seed as last element
				last := sx.List[len(sx.List)-1]
				if last.IsLst && len(last.List) == 2 && last.List[0].Atom == "seed" {
					var seed uint64
					fmt.Sscan(last.List[1].Atom, &seed)
					pure(kind, seed)
				} else {
					fmt.Println("; pure case without seed cannot be re-generated:", line)
				}
			}
		}
		return 0
	}
	r := NewRng(f.Seed)
	if mode == "stack" {
		for i := 0; i < f.N; i++ {
			rr := r.Fork()
			stack(runStack(nil, func(exec func(hOp) (*uint64, string)) []hOp { return genHOps(rr, exec) }))
		}
		return 0
	}
	kinds := []string{"sha", "gostr", "gostr", "bytea", "byteain", "date", "godate", "gohash", "gohash", "gohash", "gohash", "gohash"}
	for i := 0; i < f.N; i++ {
		pure(kinds[i%len(kinds)], r.Next())
	}
	return 0
}
