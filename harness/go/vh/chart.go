//go:build verif

package main

import (
	"bytes"
	"context"
	"encoding/json"
	"fmt"
	"reflect"
	"sort"
	"strings"

	ledger "github.com/formancehq/ledger/internal"
	ledgercontroller "github.com/formancehq/ledger/internal/controller/ledger"
	"github.com/formancehq/ledger/pkg/features"
)

// C30 / C29 TIE-C: real ChartOfAccounts.UnmarshalJSON / MarshalJSON / FindAccountSchema / ValidatePosting on generated
// chart JSON (valid + malformed streams) and addresses, against the extracted model (Ledger/Chart.v).
func init() { commands["chart"] = cmdChart }

// ---------------------------------------------------------------- JSON trees (object members in the order given)
type J struct {
	K int // 0 null 1 bool 2 number 3 string 4 array 5 object
	B bool
	S string
	A []*J
	O []JKV
}
type JKV struct {
	K string
	V *J
}

func jnull() *J        { return &J{} }
func jstr(s string) *J { return &J{K: 3, S: s} }
func jnum(s string) *J { return &J{K: 2, S: s} }
func jobj(kv ...JKV) *J {
	o := &J{K: 5, O: kv}
	o.sortKeys()
	return o
}
func (j *J) sortKeys() { sort.SliceStable(j.O, func(a, b int) bool { return j.O[a].K < j.O[b].K }) }
func (j *J) set(k string, v *J) {
	for i := range j.O {
		if j.O[i].K == k {
			j.O[i].V = v
			return
		}
	}
	j.O = append(j.O, JKV{k, v})
	j.sortKeys()
}
func (j *J) del(k string) {
	for i := range j.O {
		if j.O[i].K == k {
			j.O = append(j.O[:i:i], j.O[i+1:]...)
			return
		}
	}
}
func (j *J) get(k string) *J {
	for i := range j.O {
		if j.O[i].K == k {
			return j.O[i].V
		}
	}
	return nil
}

func (j *J) text() string {
	switch j.K {
	case 0:
		return "null"
	case 1:
		if j.B {
			return "true"
		}
		return "false"
	case 2:
		return j.S
	case 3:
		b, _ := json.Marshal(j.S)
		return string(b)
	case 4:
		s := make([]string, len(j.A))
		for i, x := range j.A {
			s[i] = x.text()
		}
		return "[" + strings.Join(s, ",") + "]"
	default:
		s := make([]string, len(j.O))
		for i, kv := range j.O {
			k, _ := json.Marshal(kv.K)
			s[i] = string(k) + ":" + kv.V.text()
		}
		return "{" + strings.Join(s, ",") + "}"
	}
}
func (j *J) sx() string {
	switch j.K {
	case 0:
		return "null"
	case 1:
		return L("b", b01(j.B))
	case 2:
		return L("n", Q(j.S))
	case 3:
		return L("s", Q(j.S))
	case 4:
		s := make([]string, len(j.A))
		for i, x := range j.A {
			s[i] = x.sx()
		}
		return L("a", L(s...))
	default:
		s := make([]string, len(j.O))
		for i, kv := range j.O {
			s[i] = L(Q(kv.K), kv.V.sx())
		}
		return L("o", L(s...))
	}
}
func parseJSx(x *Sx) *J {
	if !x.IsLst {
		return jnull()
	}
	switch x.List[0].Atom {
	case "b":
		return &J{K: 1, B: x.List[1].Atom == "1"}
	case "n":
		return jnum(x.List[1].Atom)
	case "s":
		return jstr(x.List[1].Atom)
	case "a":
		j := &J{K: 4}
		for _, e := range x.List[1].List {
			j.A = append(j.A, parseJSx(e))
		}
		return j
	default:
		j := &J{K: 5}
		for _, e := range x.List[1].List {
			j.O = append(j.O, JKV{e.List[0].Atom, parseJSx(e.List[1])})
		}
		return j
	}
}

// parseJSONText reads JSON text into a tree keeping the member order of the text (so the emission order is observable)
func parseJSONText(data []byte) (*J, error) {
	dec := json.NewDecoder(bytes.NewReader(data))
	dec.UseNumber()
	var val func() (*J, error)
	val = func() (*J, error) {
		t, err := dec.Token()
		if err != nil {
			return nil, err
		}
		switch v := t.(type) {
		case nil:
			return jnull(), nil
		case bool:
			return &J{K: 1, B: v}, nil
		case json.Number:
			return jnum(v.String()), nil
		case string:
			return jstr(v), nil
		case json.Delim:
			if v == '[' {
				j := &J{K: 4}
				for dec.More() {
					e, err := val()
					if err != nil {
						return nil, err
					}
					j.A = append(j.A, e)
				}
				_, err := dec.Token()
				return j, err
			}
			j := &J{K: 5}
			for dec.More() {
				kt, err := dec.Token()
				if err != nil {
					return nil, err
				}
				e, err := val()
				if err != nil {
					return nil, err
				}
				j.O = append(j.O, JKV{kt.(string), e})
			}
			_, err := dec.Token()
			return j, err
		}
		return nil, fmt.Errorf("unexpected token")
	}
	return val()
}

// ---------------------------------------------------------------- generator
var chartNames = []string{"a", "b", "main", "users", "-x", "0", "_y", "Z9", "bank", "wallet"}
var chartLabels = []string{"id", "name", "u-1"}
var chartPatternsOK = []string{"^[0-9]+$", "^[a-z]+$", "^(foo|bar)$", "[0-9]", "^u", ""}
var chartPatternsBad = []string{"(", "[a-", "*a"}
var chartMetaKeys = []string{"k1", "role", "", "é", "Default", "a b"}
var chartMetaVals = []string{"v1", "", "x\"y", "<&>", "é z", "user"}
var addrAtoms = []string{"42", "bob", "foo", "bar", "u1", "", "X", "7x", "users", "main", "a", "-x"}

type chartProfile struct{ malformed bool }

func genMetaSpec(r *Rng) *J {
	o := jobj()
	n := r.Intn(3)
	for i := 0; i < n; i++ {
		k := Pick(r, chartMetaKeys)
		switch r.Intn(6) {
		case 0:
			o.set(k, jobj())
		default:
			o.set(k, jobj(JKV{"default", jstr(Pick(r, chartMetaVals))}))
		}
	}
	return o
}

func genSeg(r *Rng, depth int, isVar bool) *J {
	o := jobj()
	nfixed := 0
	if depth > 0 {
		nfixed = r.Intn(4)
		if r.Chance(30) {
			nfixed = 0
		}
	}
	for i := 0; i < nfixed; i++ {
		o.set(Pick(r, chartNames), genSeg(r, depth-1, false))
	}
	hasVar := depth > 0 && r.Chance(40)
	if hasVar {
		o.set("$"+Pick(r, chartLabels), genSeg(r, depth-1, true))
	}
	children := len(o.O) > 0
	account := !children
	if children && r.Chance(50) {
		if r.Chance(10) {
			o.set(".self", jnull())
		} else {
			o.set(".self", jobj())
		}
		account = true
	}
	if account && r.Chance(50) {
		if r.Chance(8) {
			o.set(".metadata", jnull())
		} else {
			o.set(".metadata", genMetaSpec(r))
		}
	}
	if account && r.Chance(5) {
		o.set(".rules", jobj())
	}
	if r.Chance(3) {
		o.set(".note", jstr("ignored"))
	}
	if isVar && r.Chance(60) {
		o.set(".pattern", jstr(Pick(r, chartPatternsOK)))
	}
	if !children && len(o.O) == 0 && r.Chance(10) {
		return jnull()
	}
	return o
}

func genChartJSON(r *Rng) *J {
	root := jobj()
	n := 1 + r.Intn(4)
	for i := 0; i < n; i++ {
		root.set(Pick(r, chartNames), genSeg(r, r.Intn(4), false))
	}
	return root
}

// all object nodes reachable through sub-segment members (the chart's segments)
func segNodes(j *J, acc *[]*J) {
	if j.K != 5 {
		return
	}
	*acc = append(*acc, j)
	for _, kv := range j.O {
		if !strings.HasPrefix(kv.K, ".") {
			segNodes(kv.V, acc)
		}
	}
}

func mutateChart(r *Rng, root *J) string {
	var nodes []*J
	segNodes(root, &nodes)
	n := nodes[r.Intn(len(nodes))]
	isRoot := n == root
	switch k := r.Intn(20); k {
	case 0:
		n.set(".pattern", jstr(Pick(r, chartPatternsOK)))
		return "pattern_anywhere"
	case 1:
		n.set("$zz", genSeg(r, 0, true))
		n.set("$id", genSeg(r, 0, true))
		return "two_vars"
	case 2:
		n.set(Pick(r, []string{"a.b", "", "$", "a:b", "sp ace", "é", "$$x", "..x"}), jobj())
		return "bad_key"
	case 3:
		n.set(".self", Pick(r, []*J{jobj(JKV{"x", jnum("1")}), jnum("5"), jstr("s"), &J{K: 4}, &J{K: 1, B: true}}))
		return "bad_self"
	case 4:
		n.set(".metadata", Pick(r, []*J{jobj(JKV{"k", jnum("5")}), jobj(JKV{"k", jobj(JKV{"default", jnum("5")})}), jnum("1"), &J{K: 4}, jstr("x"),
			jobj(JKV{"k", jobj(JKV{"DEFAULT", jstr("up")})}), jobj(JKV{"k", jobj(JKV{"Default", jstr("A")}, JKV{"default", jnull()})}),
			jobj(JKV{"k", jnull()}), jobj(JKV{"k", jobj(JKV{"default", jstr("v")}, JKV{"other", jnum("1")})}), jobj(JKV{"k", &J{K: 4}})}))
		return "odd_metadata"
	case 5:
		n.set(".pattern", Pick(r, []*J{jnum("5"), jnull(), jstr(Pick(r, chartPatternsBad)), jobj()}))
		return "bad_pattern"
	case 6:
		n.set(Pick(r, chartNames), Pick(r, []*J{jnum("5"), jstr("s"), &J{K: 4}, &J{K: 1}}))
		return "non_object_segment"
	case 7:
		n.set(".rules", Pick(r, []*J{jnum("5"), jnull(), jobj(JKV{"x", jnum("1")}), jstr("r"), &J{K: 4}}))
		return "odd_rules"
	case 8:
		n.del(".self")
		return "drop_self"
	case 9:
		n.set(".metadata", genMetaSpec(r))
		return "metadata_anywhere"
	case 10:
		if isRoot {
			n.set("$v", jobj())
			return "root_var"
		}
		n.set(".foo", jnum("1"))
		return "unknown_prop"
	case 11:
		return "root_kind:" + Pick(r, []string{"null", "5", "[]", "\"s\"", "true"})
	case 12:
		n.set("$"+Pick(r, chartLabels), jobj(JKV{".pattern", jstr(Pick(r, chartPatternsBad))}))
		return "var_bad_regex"
	case 13:
		n.set(".", jobj())
		return "dot_key"
	default:
		n.set(Pick(r, chartNames), genSeg(r, 1, false))
		return "extra_fixed"
	}
}

func genAddresses(r *Rng, root *J, n int) []string {
	var out []string
	for i := 0; i < n; i++ {
		var segs []string
		cur := root
		for d := 0; d < 6; d++ {
			if cur == nil || cur.K != 5 {
				break
			}
			var subs []string
			for _, kv := range cur.O {
				if !strings.HasPrefix(kv.K, ".") {
					subs = append(subs, kv.K)
				}
			}
			if len(subs) == 0 || (d > 0 && r.Chance(30)) {
				break
			}
			k := Pick(r, subs)
			if r.Chance(12) {
				segs = append(segs, Pick(r, addrAtoms))
				cur = nil
				continue
			}
			if strings.HasPrefix(k, "$") {
				segs = append(segs, Pick(r, addrAtoms))
			} else {
				segs = append(segs, k)
			}
			cur = cur.get(k)
		}
		if r.Chance(8) {
			segs = append(segs, Pick(r, addrAtoms))
		}
		if len(segs) == 0 {
			segs = []string{Pick(r, addrAtoms)}
		}
		out = append(out, strings.Join(segs, ":"))
	}
	return out
}

// ---------------------------------------------------------------- running the real code
func clsOf(c *ledger.ChartOfAccounts, addr string) (sx string, full string) {
	acc, err := c.FindAccountSchema(addr)
	if err != nil {
		pm := false
		if e, ok := err.(ledger.ErrInvalidAccount); ok {
			pm = reflect.ValueOf(e).FieldByName("patternMismatch").Bool()
		} else {
			return L("rej", "other"), "error:" + err.Error()
		}
		return L("rej", b01(pm)), "error:" + err.Error()
	}
	dm := kvsx(sortKV(acc.DefaultMetadata()))
	return L("acc", dm), "acc:" + dm
}

func postingOf(c *ledger.ChartOfAccounts, src, dst string) (string, string) {
	err := c.ValidatePosting(ledger.Posting{Source: src, Destination: dst})
	if err == nil {
		return "ok", "ok"
	}
	if e, ok := err.(ledger.ErrInvalidAccount); ok {
		return L("rej", b01(reflect.ValueOf(e).FieldByName("patternMismatch").Bool())), err.Error()
	}
	return L("rej", "other"), err.Error()
}

func segSx(s ledger.ChartSegment) string {
	var ks []string
	for k := range s.FixedSegments {
		ks = append(ks, k)
	}
	sort.Strings(ks)
	fx := make([]string, len(ks))
	for i, k := range ks {
		fx[i] = L(Q(k), segSx(s.FixedSegments[k]))
	}
	v := "nil"
	if s.VariableSegment != nil {
		p := "nil"
		if s.VariableSegment.Pattern != nil {
			p = L("some", Q(*s.VariableSegment.Pattern))
		}
		v = L(Q(s.VariableSegment.Label), p, segSx(s.VariableSegment.ChartSegment))
	}
	a := "nil"
	if s.Account != nil {
		m := "nil"
		if s.Account.Metadata != nil {
			var mk []string
			for k := range s.Account.Metadata {
				mk = append(mk, k)
			}
			sort.Strings(mk)
			ms := make([]string, len(mk))
			for i, k := range mk {
				d := "nil"
				if s.Account.Metadata[k].Default != nil {
					d = L("some", Q(*s.Account.Metadata[k].Default))
				}
				ms[i] = L(Q(k), d)
			}
			m = L("map", L(ms...))
		}
		a = L("account", m)
	}
	return L("seg", L(fx...), v, a)
}
func chartSx(c ledger.ChartOfAccounts) string {
	var ks []string
	for k := range c {
		ks = append(ks, k)
	}
	sort.Strings(ks)
	fx := make([]string, len(ks))
	for i, k := range ks {
		fx[i] = L(Q(k), segSx(c[k]))
	}
	return L(fx...)
}

type chartCase struct {
	Text  string // JSON text handed to UnmarshalJSON (root_kind mutation replaces the whole text)
	Tree  *J
	Addrs []string
	Posts [][2]string
}

func (c chartCase) sx() string {
	as := make([]string, len(c.Addrs))
	for i, a := range c.Addrs {
		as[i] = Q(a)
	}
	ps := make([]string, len(c.Posts))
	for i, p := range c.Posts {
		ps[i] = L(Q(p[0]), Q(p[1]))
	}
	return L("chart", c.Tree.sx(), L(as...), L(ps...))
}

// chartStack: one real stack on pgsem reused for the InsertSchema -> GetSchema round trips of a run
type chartStack struct {
	ctx  context.Context
	ctrl ledgercontroller.Controller
	n    int
}

func newChartStack() *chartStack {
	st := NewStack(StackOpts{})
	ctx := context.Background()
	if err := st.Sys.CreateLedger(ctx, "l1", ledger.Configuration{Bucket: "_default", Features: features.DefaultFeatures}); err != nil {
		panic(fmt.Errorf("create ledger: %w", err))
	}
	ctrl, err := st.Sys.GetLedgerController(ctx, "l1")
	must(err)
	return &chartStack{ctx: ctx, ctrl: ctrl}
}

var sampleTemplates = []ledger.TransactionTemplates{
	nil,
	{"pay": {Description: "pay", Script: "send [USD 1] (\n source = @world\n destination = @bank\n)", Runtime: ""}},
	{"a": {Description: "d \"q\" <&>", Script: "send [EUR 2] (\n source = @world\n destination = @users:1\n)", Runtime: ""},
		"b": {Script: "send [USD 1] (\n source = @world\n destination = @b\n)", Runtime: ""}},
}

// query templates, written as the API receives them (internal/query_template_test.go shapes + params variants)
var sampleQuerySources = []string{
	`{"description": "complex & valid", "resource": "accounts", "vars": {"iban": "string"}, "body": { "$match": { "address": "banks:${iban}:" } }}`,
	`{"description": "complex params", "resource": "volumes", "params": {"pageSize": 42, "groupBy": 2}}`,
	`{"description": "$in filter <&>", "resource": "accounts", "vars": {"foo": "string", "bar": {"type": "string", "default": "z"}}, "body": {"$in": {"metadata[foo]": ["${foo}", "${bar}"]}}}`,
	`{"resource": "logs"}`,
	`{"description": "tx", "resource": "transactions", "params": {"pageSize": 7, "sort": "id:desc", "expand": ["volumes"]}, "body": {"$and": [{"$match": {"reference": "r1"}}, {"$lt": {"id": 100}}]}}`,
}

func genQueryTemplates(r *Rng) ledger.QueryTemplates {
	n := r.Intn(4)
	if n == 0 {
		return nil
	}
	out := ledger.QueryTemplates{}
	for i := 0; i < n; i++ {
		var q ledger.QueryTemplate
		must(json.Unmarshal([]byte(Pick(r, sampleQuerySources)), &q))
		out[Pick(r, []string{"q1", "by-iban", "Q 3", "é"})] = q
	}
	return out
}

func canonJSON(v any) string {
	b, err := json.Marshal(v)
	must(err)
	var x any
	dec := json.NewDecoder(bytes.NewReader(b))
	dec.UseNumber()
	must(dec.Decode(&x))
	b, _ = json.Marshal(x)
	return string(b)
}

func runChartCase(c chartCase, out *Out, cs *chartStack, r *Rng) {
	csx := c.sx()
	out.Stats["cases"]++
	var chart ledger.ChartOfAccounts
	err := json.Unmarshal([]byte(c.Text), &chart)
	if err != nil {
		out.Case(csx, L("err"))
		out.Stats["rejected_by_unmarshal"]++
		return
	}
	out.Stats["accepted_by_unmarshal"]++
	cls := make([]string, len(c.Addrs))
	full := make([]string, len(c.Addrs))
	nacc := 0
	for i, a := range c.Addrs {
		cls[i], full[i] = clsOf(&chart, a)
		if strings.HasPrefix(cls[i], "(acc") {
			nacc++
			out.Stats["addr_accepted"]++
			if cls[i] != "(acc ())" {
				out.Stats["addr_accepted_with_defaults"]++
			}
		} else if cls[i] == "(rej 1)" {
			out.Stats["addr_rejected_pattern"]++
		} else {
			out.Stats["addr_rejected"]++
		}
	}
	posts := make([]string, len(c.Posts))
	pfull := make([]string, len(c.Posts))
	for i, p := range c.Posts {
		posts[i], pfull[i] = postingOf(&chart, p[0], p[1])
	}
	data, err := chart.MarshalJSON()
	if err != nil {
		out.Case(csx, L("marshal_error", Q(err.Error())))
		out.Violation("C30", csx, "MarshalJSON of a chart accepted by UnmarshalJSON fails: "+err.Error()+" [marshal-error]")
		return
	}
	tree, perr := parseJSONText(data)
	must(perr)
	out.Case(csx, L("ok", chartSx(chart), L(cls...), L(posts...), tree.sx()))
	if nacc > 0 && nacc < len(c.Addrs) {
		out.Stats["distinct_nontrivial"]++
	}
	out.Stats[fmt.Sprintf("depth_%d", depthOf(c.Tree))]++

	// ---- C30 monitor, on the implementation alone: classification before vs after the JSON round trip
	check := func(what string, c2 *ledger.ChartOfAccounts) bool {
		for i, a := range c.Addrs {
			s2, f2 := clsOf(c2, a)
			if s2 != cls[i] || f2 != full[i] {
				out.Violation("C30", csx, fmt.Sprintf("address %q classified %s before and %s after %s [%s-changes-classification]", a, full[i], f2, what, strings.ReplaceAll(what, " ", "-")))
				return false
			}
		}
		for i, p := range c.Posts {
			s2, f2 := postingOf(c2, p[0], p[1])
			if s2 != posts[i] || f2 != pfull[i] {
				out.Violation("C30", csx, fmt.Sprintf("posting %q->%q validated as %s before and %s after %s [%s-changes-validation]", p[0], p[1], pfull[i], f2, what, strings.ReplaceAll(what, " ", "-")))
				return false
			}
		}
		return true
	}
	var chart2 ledger.ChartOfAccounts
	if err := json.Unmarshal(data, &chart2); err != nil {
		out.Violation("C30", csx, "chart emitted by MarshalJSON is rejected by UnmarshalJSON: "+err.Error()+" [reread-rejected]")
		return
	}
	if !check("json round trip", &chart2) {
		return
	}
	if chartSx(chart2) != chartSx(chart) {
		out.Violation("C30", csx, "chart differs structurally after the JSON round trip: "+chartSx(chart)+" vs "+chartSx(chart2)+" [roundtrip-structure]")
		return
	}
	// ---- through the real stack: InsertSchema -> GetSchema (schemas table on pgsem), templates carried along
	if cs != nil {
		cs.n++
		version := fmt.Sprintf("v%d", cs.n)
		tpl := sampleTemplates[r.Intn(len(sampleTemplates))]
		qs := genQueryTemplates(r)
		in := ledger.SchemaData{Chart: chart, Transactions: tpl, Queries: qs}
		if len(qs) > 0 {
			out.Stats["stack_roundtrips_with_queries"]++
		}
		// the whole SchemaData through encoding/json (what the API returns / accepts)
		{
			raw, err := json.Marshal(in)
			must(err)
			var back ledger.SchemaData
			if err := json.Unmarshal(raw, &back); err != nil {
				out.Violation("C30", csx, "SchemaData emitted by json.Marshal is rejected by json.Unmarshal: "+err.Error()+" [schemadata-reread-rejected]")
				return
			}
			if canonJSON(back.Transactions) != canonJSON(in.Transactions) || canonJSON(back.Queries) != canonJSON(in.Queries) || chartSx(back.Chart) != chartSx(chart) {
				out.Violation("C30", csx, "SchemaData differs after json.Marshal/json.Unmarshal: "+canonJSON(in)+" vs "+canonJSON(back)+" [schemadata-json-roundtrip]")
				return
			}
			if !check("SchemaData json round trip", &back.Chart) {
				return
			}
		}
		_, _, _, err := cs.ctrl.InsertSchema(cs.ctx, ledgercontroller.Parameters[ledgercontroller.InsertSchema]{Input: ledgercontroller.InsertSchema{Version: version, Data: in}})
		if err != nil {
			out.Violation("C30", csx, "InsertSchema of an accepted chart fails: "+err.Error()+" [insert-schema-error]")
			return
		}
		got, err := cs.ctrl.GetSchema(cs.ctx, version)
		if err != nil {
			out.Violation("C30", csx, "GetSchema after InsertSchema fails: "+err.Error()+" [get-schema-error]")
			return
		}
		out.Stats["stack_roundtrips"]++
		if !check("InsertSchema GetSchema", &got.Chart) {
			return
		}
		if chartSx(got.Chart) != chartSx(chart) {
			out.Violation("C30", csx, "chart differs structurally after InsertSchema/GetSchema [stored-structure]")
			return
		}
		if canonJSON(got.Transactions) != canonJSON(tpl) && !(len(tpl) == 0 && len(got.Transactions) == 0) {
			out.Violation("C30", csx, "templates differ after InsertSchema/GetSchema: "+canonJSON(tpl)+" vs "+canonJSON(got.Transactions)+" [stored-templates]")
			return
		}
		if canonJSON(got.Queries) != canonJSON(qs) && !(len(qs) == 0 && len(got.Queries) == 0) {
			out.Violation("C30", csx, "query templates differ after InsertSchema/GetSchema: "+canonJSON(qs)+" vs "+canonJSON(got.Queries)+" [stored-queries]")
			return
		}
		if err := got.Queries.Validate(); err != nil {
			out.Violation("C30", csx, "query templates read back no longer validate: "+err.Error()+" [stored-queries-invalid]")
		}
	}
}

func depthOf(j *J) int {
	if j.K != 5 {
		return 0
	}
	d := 0
	for _, kv := range j.O {
		if !strings.HasPrefix(kv.K, ".") {
			if x := depthOf(kv.V); x > d {
				d = x
			}
		}
	}
	return d + 1
}

func cmdChart(args []string) int {
	f := ParseFlags(args)
	out := NewOut(f.Out)
	defer out.Close()
	var cs *chartStack
	if f.Extra["stack"] != "0" {
		cs = newChartStack()
	}
	if f.Replay != "" {
		r := NewRng(f.Seed)
		for _, line := range ReadLines(f.Replay) {
			sx, err := ParseSx(line)
			must(err)
			c := chartCase{Tree: parseJSx(sx.List[1])}
			c.Text = c.Tree.text()
			for _, a := range sx.List[2].List {
				c.Addrs = append(c.Addrs, a.Atom)
			}
			for _, p := range sx.List[3].List {
				c.Posts = append(c.Posts, [2]string{p.List[0].Atom, p.List[1].Atom})
			}
			runChartCase(c, out, cs, r)
		}
		return 0
	}
	r := NewRng(f.Seed)
	naddr := 30
	for i := 0; i < f.N; i++ {
		rr := r.Fork()
		tree := genChartJSON(rr)
		c := chartCase{}
		if rr.Chance(30) {
			kind := mutateChart(rr, tree)
			if strings.HasPrefix(kind, "root_kind:") {
				t, err := parseJSONText([]byte(kind[10:]))
				must(err)
				tree = t
				kind = "root_kind"
			}
			out.Stats["mut_"+kind]++
		} else {
			out.Stats["unmutated"]++
		}
		c.Tree = tree
		c.Text = tree.text()
		c.Addrs = genAddresses(rr, tree, naddr)
		for j := 0; j < 6; j++ {
			c.Posts = append(c.Posts, [2]string{Pick(rr, c.Addrs), Pick(rr, c.Addrs)})
		}
		runChartCase(c, out, cs, rr)
	}
	return 0
}
