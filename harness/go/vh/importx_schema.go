//go:build verif

package main

import (
	"context"
	"fmt"
	"math/big"
	"strings"

	ledger "github.com/formancehq/ledger/internal"
	"github.com/formancehq/ledger/internal/verifh/pgsem"
)

// importx -profile schemas (property C11 on ledgers WITH schemas): a source history of schema inserts (charts with default
// metadata, templates) and writes carrying a schema version or none (strict / audit enforcement), generated online by the
// generator of `schemahist`; the real Export; the real Import into a fresh ledger of the same stack; source and copy are
// compared observable by observable.  importLog has to resolve the schema PER LOG (none when the log carries no version):
// the copy of an account created by an un-versioned transaction must not get chart defaults, one created under a version
// must get those of that version.   Case (importx_schema <mode> (<now sinput> ...) <import time>); the model line comes
// from Ledger/ImportSchema.v (sroundtrip).
type simpCase struct {
	Mode string
	Ops  []SOp
	Now  int64
}

func (c simpCase) sx() string {
	s := make([]string, len(c.Ops))
	for i, o := range c.Ops {
		s[i] = o.sx()
	}
	return L("importx_schema", c.Mode, L(s...), fmt.Sprint(c.Now))
}

func parseSimpCase(line string) simpCase {
	sx, err := ParseSx(line)
	must(err)
	mode, ops := parseSHistCase(L("shist", sx.List[1].Atom, sxString(sx.List[2])))
	return simpCase{Mode: mode, Ops: ops, Now: atoi(sx.List[3].Atom)}
}

// extraOf: schemas table and logs.schema_version of a ledger, read from the raw tables (format of SRun.extra)
func extraOf(st *Stack, name string) string {
	sess := st.PG.NewSession()
	defer sess.Close()
	q := func(sql string) [][]string {
		res, err := sess.Exec(sql)
		must(err)
		out := make([][]string, len(res.Rows))
		for i, r := range res.Rows {
			out[i] = make([]string, len(r))
			for j, v := range r {
				if v != nil {
					out[i][j] = pgsemText(v)
				}
			}
		}
		return out
	}
	var ss, lv []string
	for _, r := range q(`select version, created_at from schemas where ledger = '` + name + `' order by version`) {
		ss = append(ss, L(Q(r[0]), fmt.Sprint(tsText(r[1]))))
	}
	for _, r := range q(`select id, schema_version from logs where ledger = '` + name + `' and type <> 'INSERTED_SCHEMA' order by id`) {
		lv = append(lv, L(r[0], Q(r[1])))
	}
	return L(L("schemas", L(ss...)), L("logver", L(lv...)))
}

// genSchemaTail appends the shape the per-log schema resolution of importLog is about: a schema whose chart gives users:$id
// a default, a write under that version, then writes WITHOUT a version (accepted in audit mode) on accounts that do not
// exist yet and match the chart entry; metadata-only writes in both styles as well
func genSchemaTail(r *Rng, exec func(SOp) OpResult) {
	now := int64(1700000000)*1000000 + 600*1000000
	tick := func() int64 { now += 1000000; return now }
	chart := jobj(JKV{"world", jobj()}, JKV{"bank", jobj()},
		JKV{"users", jobj(JKV{"$id", jobj(JKV{".metadata", jobj(JKV{"tier", jobj(JKV{"default", jstr(Pick(r, []string{"standard", "gold"}))})})})})})
	ver := Pick(r, []string{"vx", "vy"})
	so := SOp{Schema: true, Version: ver, Chart: chart}
	so.Op.Now = tick()
	exec(so)
	n := 70 + r.Intn(5)
	create := func(version, dst string) {
		o := SOp{Version: version, Op: Op{Kind: "create", Post: []Posting{{"world", dst, "USD", big.NewInt(int64(1 + r.Intn(9)))}}, Now: tick()}}
		if r.Chance(30) {
			o.Op.AccMeta = map[string][]KV{dst: {{"k1", "v1"}}}
		}
		exec(o)
	}
	setmeta := func(version, acc string) {
		exec(SOp{Version: version, Op: Op{Kind: "setmeta", IsAcc: true, TgtAcc: acc, Meta: []KV{{"k2", "v2"}}, Now: tick()}})
	}
	for i, k := 0, 2+r.Intn(4); i < k; i++ {
		v := ""
		if i == 0 || r.Chance(40) {
			v = ver
		}
		acc := fmt.Sprintf("users:%d", n+i)
		if r.Chance(25) {
			setmeta(v, acc)
		} else {
			create(v, acc)
		}
	}
}

type simpRun struct {
	Case     simpCase
	Impl     string
	Viol     []string
	Exported int
	Schemas  int
	Mixed    bool // a versioned create followed by an un-versioned one: the shape the per-log resolution matters for
}

func runSimpCase(c simpCase, gen func(exec func(SOp) OpResult)) *simpRun {
	sr := newSRun(c.Mode)
	ctx := context.Background()
	must(sr.St.Sys.CreateLedger(ctx, "l2", ledger.Configuration{Bucket: "_default", Features: allOn.set()}))
	run := &simpRun{}
	versioned := false
	exec := func(so SOp) OpResult {
		sr.St.PG.Clock = pgsem.TS(so.Op.Now)
		res := sr.exec(so)
		c.Ops = append(c.Ops, so)
		if res.Panic == "" && res.Class == "none" && !so.Op.Dry && !res.Hit {
			switch {
			case so.Schema:
				run.Schemas++
			case so.Op.Kind == "create" && so.Version != "":
				versioned = true
			case so.Op.Kind == "create" && versioned:
				run.Mixed = true
			}
		}
		return res
	}
	if gen != nil {
		gen(exec)
	} else {
		ops := c.Ops
		c.Ops = nil
		for _, o := range ops {
			if exec(o).Panic != "" {
				break
			}
		}
	}
	run.Case = c
	s := &impStack{st: sr.St, ctx: ctx, feat: allOn, a: sr.ctrl}
	data, err := s.export()
	must(err)
	logs, err := decodeLogs(data)
	must(err)
	run.Exported = len(logs)
	cp, err := sr.St.Sys.GetLedgerController(ctx, "l2")
	must(err)
	snapA := sr.St.Snapshot(ctx, sr.ctrl, "l1", allOn)
	extraA := extraOf(sr.St, "l1")
	sr.St.PG.Clock = pgsem.TS(c.Now)
	ierr := realImport(ctx, cp, logs)
	cls := importClass(ierr)
	snapB := sr.St.Snapshot(ctx, cp, "l2", allOn)
	extraB := extraOf(sr.St, "l2")
	res := L("import", cls)
	if i := strings.Index(cls, ":"); i >= 0 {
		res = L("import", cls[:i], Q(cls[i+1:]))
	}
	if cls == "ok" {
		fl, diff := cmpFlags(snapA, snapB)
		res = L("import", "ok", fl, b01(extraA == extraB))
		for _, d := range refineDiff(snapA, snapB, diff) {
			tag := "c11-" + d
			if d == "account-metadata" {
				// which way: the copy has metadata the source lacks (defaults applied by the import), or lacks some
				tag = "c11-schema-account-metadata"
			}
			run.Viol = append(run.Viol, "copy differs from source after export/import into the pristine ledger: ["+tag+"] "+impFirstDiff(snapA, snapB, d))
		}
		if extraA != extraB {
			run.Viol = append(run.Viol, "schemas / log schema versions of the copy differ: [c11-schema-tables] source "+clip(extraA, 300)+" copy "+clip(extraB, 300))
		}
	} else {
		run.Viol = append(run.Viol, "import of the export of a ledger with schemas failed: [c11-import-failed] "+cls)
	}
	run.Impl = L("importx_schema", res, snapB.sx(), extraB)
	return run
}
