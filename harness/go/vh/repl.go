//go:build verif

package main

// C33: drives the REAL replication.Manager / PipelineHandler (internal/replication) with an in-memory
// Storage, a recording exporter driver with scripted failures and a gate on StorePipelineState (a slow
// database), under random scripts of produce / fail / stop / start / reset / restart events.
//
// Goroutine timing is not reproducible, so nothing here compares raw traces with the model. Every
// observable effect (ListLogs, Accept, StorePipelineState, UpdatePipeline, reads of the pipelines row,
// begin/end of manager calls) is appended to one trace under one lock, atomically with the effect; the
// trace goes INTO the case line and `modelrun repl` checks that the automaton of Repl/Model.v accepts it
// (ocaml/replrun.ml). Ids in the trace are ranks in the ledger's id order (the real ids have gaps).
// The impl line is the timing-independent verdict `(accepted (logs n) (delivered-all))`.
// The monitor below states C33 directly on the real ids, independently of the model.

import (
	"context"
	"encoding/json"
	"errors"
	"fmt"
	"sort"
	"strings"
	"sync"
	"time"

	logging "github.com/formancehq/go-libs/v5/pkg/observe/log"
	"github.com/formancehq/go-libs/v5/pkg/storage/bun/paginate"
	"github.com/formancehq/go-libs/v5/pkg/storage/postgres"

	ledger "github.com/formancehq/ledger/internal"
	"github.com/formancehq/ledger/internal/replication"
	"github.com/formancehq/ledger/internal/replication/drivers"
	"github.com/formancehq/ledger/internal/storage/common"
)

func init() { commands["repl"] = cmdRepl }

const replPipelineID = "p1"

// ---------------------------------------------------------------- world (storage + exporter + monitor)
type replWorld struct {
	mu     sync.Mutex
	ps     uint64
	ids    []uint64 // ledger log ids, increasing, with gaps
	stored *uint64  // pipelines.last_log_id
	trace  []string
	closed bool

	failNext int
	down     bool

	held     bool
	gate     chan struct{}
	inFlight int // StorePipelineState calls entered and not yet landed

	// monitor (real ids)
	viol          []string
	resets        int
	ackedMax      uint64
	ackedReset    uint64            // highest id acknowledged to a live handler since the last reset
	sinceReset    map[uint64]bool   // ids acknowledged since the last reset
	cfgs          []replCfg         // possible attributions of the acknowledged batches to handlers (see replCfg)
	batches       int
	nStray        int
	nFailed       int
	nStores       int
	nLateStores   int
	started       bool // the monitor's view: a handler is registered in the manager
}

// The exporter cannot tell which handler a batch comes from: a batch is either the next one of the running
// handler or the single page a halted handler still had in its un-awaited Accept goroutine (which continues
// right after what THAT handler had delivered). The monitor keeps every attribution that is still consistent.
type replCfg struct {
	open  bool     // a handler is running
	last  uint64   // last id delivered to it (or its resume point)
	stray []uint64 // for each halted handler that may still deliver one page: the id it had reached
}

func (c replCfg) clone() replCfg {
	return replCfg{c.open, c.last, append([]uint64(nil), c.stray...)}
}

func newReplWorld(ps uint64) *replWorld {
	return &replWorld{ps: ps, sinceReset: map[uint64]bool{}, cfgs: []replCfg{{}}, gate: make(chan struct{})}
}

// the running handler has delivered everything (in some consistent attribution)
func (w *replWorld) caughtUp() bool {
	n := len(w.ids)
	for _, c := range w.cfgs {
		if c.open && (n == 0 || c.last == w.ids[n-1]) {
			return true
		}
	}
	return false
}

func (w *replWorld) reached() uint64 {
	m := uint64(0)
	for _, c := range w.cfgs {
		if c.open && c.last > m {
			m = c.last
		}
	}
	return m
}

func (w *replWorld) rec(s string) {
	if w.closed {
		return
	}
	if strings.HasSuffix(s, " 0)") && strings.HasPrefix(s, "(fetch ") && len(w.trace) > 0 && w.trace[len(w.trace)-1] == s {
		return // an idle poll repeated: no-op in the model as well
	}
	w.trace = append(w.trace, s)
}

func (w *replWorld) violate(format string, a ...any) {
	if !w.closed {
		w.viol = append(w.viol, fmt.Sprintf(format, a...))
	}
}

// rank of a real id: number of ledger ids <= id (0 for nil)
func (w *replWorld) rank(id uint64) int {
	return sort.Search(len(w.ids), func(i int) bool { return w.ids[i] > id })
}
func (w *replWorld) rankp(id *uint64) int {
	if id == nil {
		return 0
	}
	return w.rank(*id)
}

// succ: the first ledger id greater than id (0 if none)
func (w *replWorld) succ(id uint64) uint64 {
	i := w.rank(id)
	if i < len(w.ids) {
		return w.ids[i]
	}
	return 0
}

func (w *replWorld) pipelineRow() ledger.Pipeline {
	p := ledger.Pipeline{ID: replPipelineID, Enabled: true, PipelineConfiguration: ledger.NewPipelineConfiguration("l1", "e1")}
	if w.stored != nil {
		v := *w.stored
		p.LastLogID = &v
	}
	return p
}

// a handler was (re)started by the code from the row it just read / was handed
func (w *replWorld) spawned(resume uint64, reset bool) {
	for i := range w.cfgs {
		w.cfgs[i].open, w.cfgs[i].last = true, resume
	}
	if resume > w.ackedReset {
		tag := "[resume-skips-logs]"
		w.violate("pipeline resumed from id %d but only ids up to %d were acknowledged since the last reset: logs in between are never exported again %s", resume, w.ackedReset, tag)
	}
}

func (w *replWorld) halted() {
	for i := range w.cfgs {
		if w.cfgs[i].open {
			w.cfgs[i].stray = append(w.cfgs[i].stray, w.cfgs[i].last) // a straggler continues right after it
		}
		w.cfgs[i].open = false
	}
	w.started = false
}

// the code read the pipelines row in StartPipeline / synchronizePipelines: if no handler is registered
// it now starts one from the value read
func (w *replWorld) onRead(p ledger.Pipeline) {
	v := uint64(0)
	if p.LastLogID != nil {
		v = *p.LastLogID
	}
	w.rec(fmt.Sprintf("(read %d)", w.rankp(p.LastLogID)))
	if !w.started {
		w.started = true
		w.spawned(v, false)
	}
}

// ResetPipeline cleared last_log_id: the reset point. A running pipeline is restarted by the code right
// after; whatever it does, the property wants the new handler to start before the first log.
func (w *replWorld) onClear() {
	w.resets++
	w.ackedReset = 0
	w.sinceReset = map[uint64]bool{}
	if w.started {
		w.halted()
		w.started = true
		w.spawned(0, true)
	}
}

// ---------------------------------------------------------------- Storage
type replStorage struct{ w *replWorld }

func (s replStorage) OpenLedger(context.Context, string) (replication.LogFetcher, *ledger.Ledger, error) {
	return replication.LogFetcherFn(s.listLogs), &ledger.Ledger{}, nil
}

func (s replStorage) listLogs(_ context.Context, q common.PaginatedQuery[any]) (*paginate.Cursor[ledger.Log], error) {
	var iq common.InitialPaginatedQuery[any]
	switch v := q.(type) {
	case common.InitialPaginatedQuery[any]:
		iq = v
	case *common.InitialPaginatedQuery[any]:
		iq = *v
	default:
		return nil, fmt.Errorf("unsupported query %T", q)
	}
	w := s.w
	w.mu.Lock()
	defer w.mu.Unlock()
	keep := func(uint64) bool { return true }
	cursor, op := uint64(0), "none"
	if iq.Options.Builder != nil {
		err := iq.Options.Builder.Walk(func(operator, key string, value *any) error {
			if key != "id" {
				return fmt.Errorf("unsupported filter key %s", key)
			}
			var x uint64
			switch n := (*value).(type) {
			case uint64:
				x = n
			case int:
				x = uint64(n)
			case int64:
				x = uint64(n)
			case *uint64:
				x = *n
			default:
				return fmt.Errorf("unsupported filter value %T", *value)
			}
			cursor, op = x, operator
			switch operator {
			case "$gt":
				keep = func(i uint64) bool { return i > x }
			case "$gte":
				keep = func(i uint64) bool { return i >= x }
			case "$lt":
				keep = func(i uint64) bool { return i < x }
			case "$lte":
				keep = func(i uint64) bool { return i <= x }
			case "$match":
				keep = func(i uint64) bool { return i == x }
			default:
				return fmt.Errorf("unsupported operator %s", operator)
			}
			return nil
		})
		if err != nil {
			return nil, err
		}
	}
	var sel []uint64
	for _, id := range w.ids {
		if keep(id) {
			sel = append(sel, id)
		}
	}
	if iq.Order != nil && *iq.Order == paginate.Order(paginate.OrderDesc) {
		for i, j := 0, len(sel)-1; i < j; i, j = i+1, j-1 {
			sel[i], sel[j] = sel[j], sel[i]
		}
	}
	size := int(iq.PageSize)
	if size <= 0 {
		size = 15
	}
	more := len(sel) > size
	if more {
		sel = sel[:size]
	}
	logs := make([]ledger.Log, len(sel))
	for i, id := range sel {
		v := id
		logs[i] = ledger.Log{ID: &v, Type: ledger.NewTransactionLogType}
	}
	if op == "$gt" || op == "none" {
		w.rec(fmt.Sprintf("(fetch %d %d)", w.rank(cursor), len(sel)))
	} else {
		w.rec(fmt.Sprintf("(fetchx %s %d %d)", strings.TrimPrefix(op, "$"), w.rank(cursor), len(sel)))
	}
	return &paginate.Cursor[ledger.Log]{PageSize: size, HasMore: more, Data: logs}, nil
}

func (s replStorage) StorePipelineState(_ context.Context, id string, lastLogID uint64) error {
	w := s.w
	w.mu.Lock()
	entryResets := w.resets
	w.inFlight++
	var gate chan struct{}
	if w.held {
		gate = w.gate
	}
	w.mu.Unlock()
	if gate != nil {
		<-gate // the database is slow
	}
	w.mu.Lock()
	defer w.mu.Unlock()
	w.inFlight--
	v := lastLogID
	w.stored = &v
	w.nStores++
	w.rec(fmt.Sprintf("(store %d)", w.rank(v)))
	if v > w.ackedMax {
		w.violate("persisted last_log_id %d while the exporter has acknowledged nothing beyond %d [persisted-ahead]", v, w.ackedMax)
	} else if v > w.ackedReset {
		_ = entryResets
		w.nLateStores++
		w.violate("StorePipelineState(%d) issued by the persister goroutine of a stopped handler landed after ResetPipeline cleared last_log_id (acknowledged since the reset: up to %d): the reset is undone in the table [late-store-after-reset]", v, w.ackedReset)
	} else if !w.started {
		w.nLateStores++
		w.violate("StorePipelineState(%d) landed while no handler is registered: the operation that stopped the handler returned before its persister goroutine had stored what it held [store-after-stop]", v)
	}
	return nil
}

func (s replStorage) UpdatePipeline(_ context.Context, id string, o map[string]any) (*ledger.Pipeline, error) {
	w := s.w
	w.mu.Lock()
	defer w.mu.Unlock()
	if v, ok := o["last_log_id"]; ok {
		switch x := v.(type) {
		case nil:
			w.stored = nil
			w.rec("(clear)")
			w.onClear()
		case uint64:
			w.stored = &x
			w.rec(fmt.Sprintf("(set %d)", w.rank(x)))
		case *uint64:
			if x == nil {
				w.stored = nil
				w.rec("(clear)")
				w.onClear()
			} else {
				y := *x
				w.stored = &y
				w.rec(fmt.Sprintf("(set %d)", w.rank(y)))
			}
		default:
			w.rec("(update)")
		}
	} else {
		w.rec("(update)")
	}
	p := w.pipelineRow()
	return &p, nil
}

func (s replStorage) GetPipeline(_ context.Context, id string) (*ledger.Pipeline, error) {
	w := s.w
	w.mu.Lock()
	defer w.mu.Unlock()
	if id != replPipelineID {
		return nil, postgres.ErrNotFound
	}
	p := w.pipelineRow()
	w.onRead(p)
	return &p, nil
}

func (s replStorage) ListEnabledPipelines(context.Context) ([]ledger.Pipeline, error) {
	w := s.w
	w.mu.Lock()
	defer w.mu.Unlock()
	p := w.pipelineRow()
	w.onRead(p)
	return []ledger.Pipeline{p}, nil
}

func (s replStorage) ListExporters(context.Context) (*paginate.Cursor[ledger.Exporter], error) {
	return &paginate.Cursor[ledger.Exporter]{}, nil
}
func (s replStorage) CreateExporter(context.Context, ledger.Exporter) error { return nil }
func (s replStorage) DeleteExporter(context.Context, string) error         { return nil }
func (s replStorage) GetExporter(context.Context, string) (*ledger.Exporter, error) {
	return &ledger.Exporter{}, nil
}
func (s replStorage) UpdateExporter(context.Context, ledger.Exporter) error { return nil }
func (s replStorage) CreatePipeline(context.Context, ledger.Pipeline) error { return nil }
func (s replStorage) DeletePipeline(context.Context, string) error         { return nil }
func (s replStorage) ListPipelines(context.Context) (*paginate.Cursor[ledger.Pipeline], error) {
	return &paginate.Cursor[ledger.Pipeline]{}, nil
}

var _ replication.Storage = replStorage{}

// ---------------------------------------------------------------- exporter driver
type replDriver struct{ w *replWorld }

func (d replDriver) Start(context.Context) error { return nil }
func (d replDriver) Stop(context.Context) error  { return nil }
func (d replDriver) Accept(_ context.Context, logs ...drivers.LogWithLedger) ([]error, error) {
	w := d.w
	w.mu.Lock()
	defer w.mu.Unlock()
	ids := make([]uint64, len(logs))
	rk := make([]string, len(logs))
	for i, l := range logs {
		if l.ID != nil {
			ids[i] = *l.ID
		}
		rk[i] = fmt.Sprint(w.rank(ids[i]))
		if w.rank(ids[i]) == 0 || w.ids[w.rank(ids[i])-1] != ids[i] {
			w.violate("exporter was handed id %d which is not a log of the ledger [order]", ids[i])
		}
	}
	if w.down || w.failNext > 0 {
		if w.failNext > 0 {
			w.failNext--
		}
		w.nFailed++
		w.rec("(fail " + strings.Join(rk, " ") + ")")
		err := errors.New("scripted exporter failure")
		// the shape drivers.Batcher gives a page split over several flushes of which one failed: per-item errors (ok, fail, ok, ...)
		// beside the error. Nothing of a failed page counts as acknowledged here: the whole page has to come again.
		if w.nFailed%2 == 0 && len(logs) >= 2 {
			errs := make([]error, len(logs))
			for i := range errs {
				if i%2 == 1 {
					errs[i] = err
				}
			}
			return errs, err
		}
		return nil, err
	}
	w.rec("(ok " + strings.Join(rk, " ") + ")")
	w.batches++
	if len(ids) == 0 {
		w.violate("exporter was handed an empty batch [order]")
		return make([]error, 0), nil
	}
	// each batch: consecutive ledger ids, increasing, nothing skipped
	for i := 1; i < len(ids); i++ {
		if ids[i] != w.succ(ids[i-1]) {
			w.violate("batch %v is not a run of consecutive ledger logs: %d is followed by %d, next ledger log is %d [order]", ids, ids[i-1], ids[i], w.succ(ids[i-1]))
			break
		}
	}
	first, last := ids[0], ids[len(ids)-1]
	var next []replCfg
	inRun, asStray := false, false
	for _, c := range w.cfgs {
		if c.open && first == w.succ(c.last) {
			n := c.clone()
			n.last = last
			next = append(next, n)
			inRun = true
		}
		for k, after := range c.stray {
			if w.succ(after) == first {
				n := c.clone()
				n.stray = append(n.stray[:k], n.stray[k+1:]...)
				next = append(next, n)
				asStray = true
				break
			}
		}
	}
	if len(next) > 32 {
		next = next[:32]
	}
	switch {
	case inRun:
		if last > w.ackedReset {
			w.ackedReset = last
		}
	case asStray:
		w.nStray++ // the un-awaited Accept goroutine of a halted handler
	default:
		c := w.cfgs[0]
		exp := uint64(0)
		if c.open {
			exp = w.succ(c.last)
		}
		w.violate("exporter received a batch starting at id %d; the running handler resumed/continued after id %d so the next log is %d (gap, repetition or reordering inside one run) [order]", first, c.last, exp)
		n := c.clone()
		if n.open && last > n.last {
			n.last = last
		}
		next = []replCfg{n}
	}
	w.cfgs = next
	if last > w.ackedMax {
		w.ackedMax = last
	}
	for _, id := range ids {
		w.sinceReset[id] = true
	}
	return make([]error, len(logs)), nil
}

type replFactory struct{ w *replWorld }

func (f replFactory) Create(context.Context, string) (drivers.Driver, json.RawMessage, error) {
	return replDriver{f.w}, json.RawMessage(`{}`), nil
}

type replValidator struct{}

func (replValidator) ValidateConfig(string, json.RawMessage) error { return nil }

// ---------------------------------------------------------------- script
type replEv struct {
	op   string
	a, b int
}

func (e replEv) sx() string {
	switch e.op {
	case "produce":
		return fmt.Sprintf("(produce %d %d)", e.a, e.b)
	case "fail", "sleep":
		return fmt.Sprintf("(%s %d)", e.op, e.a)
	}
	return "(" + e.op + ")"
}

type replCase struct {
	ps     int
	script []replEv
}

func (c replCase) scriptSx() string {
	s := make([]string, len(c.script))
	for i, e := range c.script {
		s[i] = e.sx()
	}
	return "(" + strings.Join(s, " ") + ")"
}

func genRepl(r *Rng, i int) replCase {
	c := replCase{ps: 1 + r.Intn(4)}
	if r.Chance(15) {
		c.ps = 100
	}
	add := func(op string, a, b int) { c.script = append(c.script, replEv{op, a, b}) }
	if i%8 == 3 {
		// a stop or reset while the last store is still in flight (slow database), then reset / start
		add("produce", 1+r.Intn(4), r.Intn(3))
		add("settle", 0, 0)
		add("hold", 0, 0)
		add("produce", 1+r.Intn(2), 0)
		add("sleep", 6+r.Intn(4), 0)
		switch r.Intn(3) {
		case 0:
			add("stop", 0, 0)
			add("reset", 0, 0)
			add("release", 0, 0)
			add("sleep", 2, 0)
			add("start", 0, 0)
		case 1:
			add("down", 0, 0)
			add("reset", 0, 0)
			add("release", 0, 0)
			add("sleep", 2, 0)
			add("restart", 0, 0)
			add("up", 0, 0)
		default:
			add("stop", 0, 0)
			add("start", 0, 0)
			add("release", 0, 0)
		}
		add("produce", r.Intn(3), 0)
		return c
	}
	n := 4 + r.Intn(14)
	for k := 0; k < n; k++ {
		switch x := r.Intn(100); {
		case x < 28:
			add("produce", 1+r.Intn(5), r.Intn(3))
		case x < 38:
			add("fail", 1+r.Intn(3), 0)
		case x < 43:
			add("down", 0, 0)
		case x < 50:
			add("up", 0, 0)
		case x < 59:
			add("stop", 0, 0)
		case x < 68:
			add("start", 0, 0)
		case x < 76:
			add("reset", 0, 0)
		case x < 82:
			add("restart", 0, 0)
		case x < 86:
			add("hold", 0, 0)
		case x < 90:
			add("release", 0, 0)
		case x < 95:
			add("settle", 0, 0)
		default:
			add("sleep", 1+r.Intn(5), 0)
		}
		if r.Chance(60) {
			add("sleep", r.Intn(4), 0)
		}
	}
	return c
}

func parseReplCase(line string) replCase {
	sx, err := ParseSx(line)
	must(err)
	c := replCase{}
	fmt.Sscan(sx.List[1].Atom, &c.ps)
	for _, e := range sx.List[2].List {
		ev := replEv{op: e.List[0].Atom}
		if len(e.List) > 1 {
			fmt.Sscan(e.List[1].Atom, &ev.a)
		}
		if len(e.List) > 2 {
			fmt.Sscan(e.List[2].Atom, &ev.b)
		}
		c.script = append(c.script, ev)
	}
	return c
}

// ---------------------------------------------------------------- run one script on the real manager
type replRun struct {
	w       *replWorld
	mgr     *replication.Manager
	hung    bool
}

func (r *replRun) newManager() {
	r.mgr = replication.NewManager(replStorage{r.w}, replFactory{r.w}, logging.NopZap(), replValidator{},
		replication.WithSyncPeriod(time.Hour),
		replication.WithPipelineOptions(
			replication.WithPullPeriod(2*time.Millisecond),
			replication.WithPushRetryPeriod(2*time.Millisecond),
			replication.WithLogsPageSize(uint64(r.w.ps)),
		))
	go r.mgr.Run(context.Background())
	<-r.mgr.Started()
}

// call runs a manager operation; with the store gate closed the operation may legitimately block
// (Run is stuck in the hand-off, which has no stop case) until the database answers: open the gate then.
func (r *replRun) call(f func() error) error {
	done := make(chan error, 1)
	go func() { done <- f() }()
	select {
	case err := <-done:
		return err
	case <-time.After(60 * time.Millisecond):
	}
	r.release()
	select {
	case err := <-done:
		return err
	case <-time.After(90 * time.Second):
		r.hung = true
		r.w.mu.Lock()
		r.w.violate("manager operation did not return within 90s with a healthy store [hung]")
		r.w.mu.Unlock()
		return errors.New("hung")
	}
}

func (r *replRun) release() {
	w := r.w
	w.mu.Lock()
	if w.held {
		w.held = false
		close(w.gate)
		w.gate = make(chan struct{})
	}
	w.mu.Unlock()
}

func (r *replRun) rec(s string) {
	r.w.mu.Lock()
	r.w.rec(s)
	r.w.mu.Unlock()
}

func (r *replRun) quiet(max time.Duration, needStored bool) bool {
	dl := time.Now().Add(max)
	for {
		w := r.w
		w.mu.Lock()
		n := len(w.ids)
		ok := w.inFlight == 0 && w.caughtUp() && (n == 0 || !needStored || (w.stored != nil && *w.stored == w.ids[n-1]))
		w.mu.Unlock()
		if ok {
			return true
		}
		if time.Now().After(dl) {
			return false
		}
		time.Sleep(500 * time.Microsecond)
	}
}

func (r *replRun) do(e replEv) {
	w := r.w
	ctx := context.Background()
	switch e.op {
	case "produce":
		w.mu.Lock()
		last := uint64(0)
		if len(w.ids) > 0 {
			last = w.ids[len(w.ids)-1]
		}
		for i := 0; i < e.a; i++ {
			last += 1 + uint64((e.b*(i+1))%3)
			w.ids = append(w.ids, last)
		}
		w.rec(fmt.Sprintf("(produce %d)", e.a))
		w.mu.Unlock()
	case "fail":
		w.mu.Lock()
		w.failNext = e.a
		w.mu.Unlock()
	case "down", "up":
		w.mu.Lock()
		w.down = e.op == "down"
		if !w.down {
			w.failNext = 0
		}
		w.mu.Unlock()
	case "hold":
		w.mu.Lock()
		w.held = true
		w.mu.Unlock()
	case "release":
		r.release()
	case "sleep":
		time.Sleep(time.Duration(e.a) * time.Millisecond)
	case "settle":
		r.quiet(300*time.Millisecond, true)
	case "stop":
		r.rec("(stop-begin)")
		err := r.call(func() error { return r.mgr.StopPipeline(ctx, replPipelineID) })
		w.mu.Lock()
		switch {
		case err == nil:
			w.rec("(stop-end ok)")
			if !w.started {
				w.violate("StopPipeline succeeded on a pipeline that was not started [manager]")
			}
			w.halted()
		case errors.Is(err, ledger.ErrPipelineNotFound("")):
			w.rec("(stop-end notfound)")
			if w.started {
				w.violate("StopPipeline: started pipeline not found [manager]")
			}
		default:
			w.rec("(stop-end error)")
		}
		w.mu.Unlock()
	case "start":
		r.rec("(start-begin)")
		w.mu.Lock()
		was := w.started
		w.mu.Unlock()
		err := r.call(func() error { return r.mgr.StartPipeline(ctx, replPipelineID) })
		w.mu.Lock()
		switch {
		case err == nil:
			w.rec("(start-end ok)")
			if was {
				w.violate("StartPipeline succeeded twice: two handlers for one pipeline [manager]")
			}
		case errors.Is(err, ledger.ErrAlreadyStarted("")):
			w.rec("(start-end already)")
			if !was {
				w.violate("StartPipeline: already started, but it was stopped [manager]")
			}
		default:
			w.rec("(start-end error)")
		}
		w.mu.Unlock()
	case "reset":
		r.rec("(reset-begin)")
		before := r.traceLen()
		err := r.call(func() error { return r.mgr.ResetPipeline(ctx, replPipelineID) })
		w.mu.Lock()
		cleared := false
		for _, t := range w.trace[before:] {
			if t == "(clear)" {
				cleared = true
			}
		}
		if err != nil {
			w.rec("(reset-end error)")
		} else {
			w.rec("(reset-end ok)")
			if !cleared && !w.closed {
				w.violate("ResetPipeline returned without clearing last_log_id [reset-not-cleared]")
			}
		}
		w.mu.Unlock()
	case "restart":
		r.rec("(restart-begin)")
		err := r.call(func() error { return r.mgr.Stop(ctx) })
		w.mu.Lock()
		if err != nil {
			w.rec("(restart-stopped error)")
		} else {
			w.rec("(restart-stopped ok)")
		}
		if w.started {
			w.halted()
		}
		w.mu.Unlock()
		r.newManager() // Run -> synchronizePipelines -> ListEnabledPipelines -> startPipeline
		w.mu.Lock()
		w.rec("(restart-end)")
		w.mu.Unlock()
	}
}

func (r *replRun) traceLen() int {
	r.w.mu.Lock()
	defer r.w.mu.Unlock()
	return len(r.w.trace)
}

var replFinaleWait = 60 * time.Second // generous: the machine may be heavily loaded; the poll returns as soon as done

func runRepl(c replCase) (w *replWorld, verdict string) {
	w = newReplWorld(uint64(c.ps))
	r := &replRun{w: w}
	r.newManager() // boot: sync starts the (enabled) pipeline from the stored position (NULL)
	for _, e := range c.script {
		if r.hung {
			break
		}
		r.do(e)
	}
	// finale: healthy exporter, fast store, pipeline started; every log must get delivered
	if !r.hung {
		r.do(replEv{op: "release"})
		r.do(replEv{op: "up"})
		w.mu.Lock()
		st := w.started
		w.mu.Unlock()
		if !st {
			r.do(replEv{op: "start"})
		}
		delivered := r.quiet(replFinaleWait, false)
		if !delivered {
			replFinaleWait = time.Second // do not pay the full wait again and again on a broken tree
		}
		r.quiet(300*time.Millisecond, true) // let the last store land (not asserted: timing)
		w.mu.Lock()
		n := len(w.ids)
		if !delivered {
			last := uint64(0)
			if n > 0 {
				last = w.ids[n-1]
			}
			w.violate("exporter healthy and pipeline started for a long time (up to 60s), yet the running handler delivered only up to id %d of %d [not-delivered]", w.reached(), last)
		} else {
			var missing []uint64
			for _, id := range w.ids {
				if !w.sinceReset[id] {
					missing = append(missing, id)
				}
			}
			if len(missing) > 0 {
				tag := "[not-reexported]"
				w.violate("at quiescence logs %v were never exported since the last reset %s", missing, tag)
			}
		}
		if delivered {
			verdict = fmt.Sprintf("(accepted (logs %d) (delivered-all))", n)
		} else {
			verdict = fmt.Sprintf("(accepted (logs %d) (not-delivered))", n)
		}
		w.closed = true
		w.mu.Unlock()
		stopped := make(chan struct{})
		go func() { _ = r.mgr.Stop(context.Background()); close(stopped) }()
		select {
		case <-stopped:
		case <-time.After(5 * time.Second):
		}
	} else {
		w.mu.Lock()
		verdict = "(hung)"
		w.closed = true
		w.mu.Unlock()
	}
	return w, verdict
}

func cmdRepl(args []string) int {
	f := ParseFlags(args)
	out := NewOut(f.Out)
	defer out.Close()
	broken := 0 // violations other than the recorded finding: a broken tree makes scripts slow (waits that never end)
	one := func(c replCase) {
		w, verdict := runRepl(c)
		w.mu.Lock()
		defer w.mu.Unlock()
		cs := L("repl", fmt.Sprint(c.ps), c.scriptSx(), L(w.trace...))
		out.Case(cs, verdict)
		out.Stats["cases"]++
		out.Stats["trace_events"] += len(w.trace)
		out.Stats["batches_acknowledged"] += w.batches
		out.Stats["batches_refused"] += w.nFailed
		out.Stats["stores"] += w.nStores
		out.Stats["late_stores_after_reset"] += w.nLateStores
		out.Stats["straggler_batches"] += w.nStray
		out.Stats["resets"] += w.resets
		out.Stats["logs"] += len(w.ids)
		if w.resets > 0 || w.nFailed > 0 {
			out.Stats["distinct_nontrivial"]++
		}
		seen := map[string]bool{}
		for _, v := range w.viol {
			tag := v[strings.LastIndex(v, "["):]
			if !seen[tag] {
				seen[tag] = true
				out.Violation("C33", cs, v)
				broken++
			}
		}
	}
	if f.Replay != "" {
		for _, line := range ReadLines(f.Replay) {
			one(parseReplCase(line))
		}
		return 0
	}
	r := NewRng(f.Seed)
	for i := 0; i < f.N && broken < 5; i++ {
		one(genRepl(r, i))
	}
	return 0
}
