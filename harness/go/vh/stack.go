//go:build verif

package main

import (
	"bytes"
	"context"
	"database/sql"
	"fmt"
	"io/fs"
	"sort"
	"strconv"
	"strings"
	"text/template"

	"github.com/formancehq/go-libs/v5/pkg/types/metadata"
	"github.com/uptrace/bun"
	"github.com/uptrace/bun/dialect/pgdialect"

	ledger "github.com/formancehq/ledger/internal"
	ledgercontroller "github.com/formancehq/ledger/internal/controller/ledger"
	"github.com/formancehq/ledger/internal/controller/system"
	"github.com/formancehq/ledger/internal/storage/bucket"
	"github.com/formancehq/ledger/internal/storage/driver"
	ledgerstore "github.com/formancehq/ledger/internal/storage/ledger"
	systemstore "github.com/formancehq/ledger/internal/storage/system"
	"github.com/formancehq/ledger/internal/verifh/pgsem"
)

// Stack = the real storage driver / system controller / ledger controller stack running on pgsem.
type Stack struct {
	PG      *pgsem.DB
	SQL     *sql.DB
	Bun     *bun.DB
	Driver  *driver.Driver
	SysStore systemstore.Store
	Sys     *system.DefaultController
	Events  *Recorder
	SQLLog  []string
	LogSQL  bool
}

type StackOpts struct {
	Buckets  []string
	Listener bool
	Mode     ledgercontroller.SchemaEnforcementMode
}

var bucketTables = map[string][]string{
	"transactions": {"ledger varchar not null", "id numeric not null", "timestamp timestamp not null default transaction_date()", "reference varchar",
		"reverted_at timestamp", "updated_at timestamp", "postings varchar not null", "sources jsonb", "destinations jsonb", "sources_arrays jsonb",
		"destinations_arrays jsonb", "metadata jsonb not null default '{}'::jsonb", "post_commit_volumes jsonb",
		"inserted_at timestamp default transaction_date()", "template text"},
	"transactions_metadata": {"seq bigint not null default nextval('transactions_metadata_seq_seq')", "ledger varchar not null", "revision numeric not null default 0",
		"date timestamp not null", "metadata jsonb not null default '{}'::jsonb", "transactions_id bigint"},
	"accounts": {"ledger varchar not null", "address varchar not null", "address_array jsonb", "insertion_date timestamp not null default transaction_date()",
		"updated_at timestamp not null default transaction_date()", "metadata jsonb not null default '{}'::jsonb", "first_usage timestamp default transaction_date()"},
	"accounts_metadata": {"seq bigint not null default nextval('accounts_metadata_seq_seq')", "ledger varchar not null", "metadata jsonb not null default '{}'::jsonb",
		"revision numeric default 0", "date timestamp", "accounts_address varchar"},
	"moves": {"seq bigint not null default nextval('moves_seq_seq')", "ledger varchar not null", "asset varchar not null", "amount numeric not null",
		"insertion_date timestamp not null default transaction_date()", "effective_date timestamp not null default transaction_date()",
		"post_commit_volumes volumes", "post_commit_effective_volumes volumes", "is_source boolean not null", "accounts_address varchar not null",
		"transactions_id bigint"},
	"logs": {"ledger varchar not null", "id numeric not null", "type log_type not null", "hash bytea", "date timestamp not null default transaction_date()",
		"data jsonb not null", "idempotency_key varchar", "memento bytea", "idempotency_hash bytea", "schema_version text"},
	"accounts_volumes": {"ledger varchar not null", "accounts_address varchar not null", "asset varchar not null", "input numeric not null", "output numeric not null"},
	"logs_blocks": {"id bigint not null default nextval('logs_blocks_id_seq')", "previous bigint", "ledger varchar", "from_id bigint", "to_id bigint", "hash bytea", "date timestamp"},
	"schemas": {"ledger varchar", "version text not null", "created_at timestamp not null default now()", "chart jsonb not null",
		"transactions jsonb not null default '{}'::jsonb", "queries jsonb not null default '{}'::jsonb"},
	"goose_db_version": {"version_id bigint not null", "is_applied boolean not null default false", "tstamp timestamp not null default now()",
		"id bigint not null default nextval('goose_db_version_id_seq')", "max_counter numeric", "actual_counter numeric", "terminated_at timestamp"},
}

func migrationTexts(schema string) (names, texts []string) {
	entries, err := fs.ReadDir(bucket.MigrationsFS, "migrations")
	must(err)
	type ent struct {
		n    int
		name string
	}
	var es []ent
	for _, e := range entries {
		if !e.IsDir() {
			continue
		}
		n, err := strconv.Atoi(strings.SplitN(e.Name(), "-", 2)[0])
		must(err)
		es = append(es, ent{n, e.Name()})
	}
	sort.Slice(es, func(i, j int) bool { return es[i].n < es[j].n })
	for _, e := range es {
		raw, err := bucket.MigrationsFS.ReadFile("migrations/" + e.name + "/up.sql")
		must(err)
		tpl, err := template.New("m").Parse(string(raw))
		must(err)
		var buf bytes.Buffer
		must(tpl.Execute(&buf, map[string]any{"Schema": schema, "Transactional": true}))
		names = append(names, e.name)
		texts = append(texts, buf.String())
	}
	return
}

func exec1(s *pgsem.Session, q string) {
	if _, err := s.Exec(q); err != nil {
		panic(fmt.Errorf("bootstrap %q: %w", q, err))
	}
}

func NewStack(o StackOpts) *Stack {
	if len(o.Buckets) == 0 {
		o.Buckets = []string{"_default"}
	}
	pg := pgsem.NewDB(o.Buckets[0])
	st := &Stack{PG: pg}
	boot := pg.NewSession()
	// _system schema (hand-described; the system store's own migrations are not replayed)
	pg.AddTable("_system", "ledgers", []string{"name varchar not null", "added_at timestamp", "bucket varchar", "metadata jsonb", "features jsonb",
		"state varchar default 'initializing'", "id bigint default nextval('ledger_sequence')", "deleted_at timestamp"})
	pg.AddTable("_system", "exporters", []string{"id varchar", "driver varchar", "config varchar", "created_at timestamp"})
	pg.AddTable("_system", "pipelines", []string{"id varchar", "ledger varchar", "exporter_id varchar", "created_at timestamp", "enabled boolean",
		"last_log_id bigint", "error varchar", "version numeric"})
	exec1(boot, `create sequence ledger_sequence`)
	exec1(boot, `create unique index ledgers_pkey on ledgers (name)`)
	exec1(boot, `create unique index exporters_pkey on exporters (id)`)
	exec1(boot, `create unique index pipelines_pkey on pipelines (id)`)
	exec1(boot, `create unique index pipelines_ledger_exporter_id_idx on pipelines (ledger, exporter_id)`)
	for _, b := range o.Buckets {
		pg.DefaultSchema = b
		for name, cols := range bucketTables {
			pg.AddTable(b, name, cols)
		}
		for _, s := range []string{"transactions_metadata_seq_seq", "accounts_metadata_seq_seq", "moves_seq_seq", "logs_blocks_id_seq", "goose_db_version_id_seq"} {
			exec1(boot, "create sequence "+s)
		}
		exec1(boot, `create unique index accounts_volumes_pkey on accounts_volumes (ledger, accounts_address, asset)`)
		exec1(boot, `create unique index schemas_pkey on schemas (ledger, version)`)
		exec1(boot, `create unique index logs_blocks_pkey on logs_blocks (ledger, previous)`)
		names, texts := migrationTexts(b)
		for i := range names {
			if err := pg.LoadMigration(names[i], texts[i]); err != nil {
				panic(err)
			}
		}
		exec1(boot, fmt.Sprintf(`insert into "%s".goose_db_version (version_id, is_applied) values (%d, true)`, b, len(names)))
	}
	pg.DefaultSchema = o.Buckets[0]
	boot.Close()
	pg.Clock = pgsem.TS(1700000000 * 1000000)
	pg.Log = func(sess int, q string) {
		if st.LogSQL {
			st.SQLLog = append(st.SQLLog, fmt.Sprintf("[s%d] %s", sess, q))
		}
	}
	st.SQL = pgsem.Open(pg)
	st.Bun = bun.NewDB(st.SQL, pgdialect.New(), bun.WithDiscardUnknownColumns())
	st.Driver = driver.New(st.Bun, ledgerstore.NewFactory(st.Bun), bucket.NewDefaultFactory(), systemstore.NewStoreFactory())
	st.SysStore = systemstore.New(st.Bun)
	var listener ledgercontroller.Listener
	if o.Listener {
		st.Events = &Recorder{st: st}
		listener = st.Events
	}
	opts := []system.Option{system.WithEnableFeatures(true)}
	if o.Mode != "" {
		opts = append(opts, system.WithSchemaEnforcementMode(o.Mode))
	}
	st.Sys = system.NewDefaultController(system.NewControllerStorageDriverAdapter(st.Driver, st.SysStore), listener, nil, opts...)
	return st
}

func (st *Stack) Tick(d int64) { st.PG.Clock += pgsem.TS(d) }

// Recorder is a ledgercontroller.Listener recording published events together with the commit sequence at that moment
type Recorder struct {
	st     *Stack
	Events []string
	Seqs   []uint64          // pgsem commit sequence at the moment of each listener call
	Hook   func(ev string)   // optional: called on every listener call (after recording)
}

func (r *Recorder) add(ev string) {
	r.Events = append(r.Events, ev)
	r.Seqs = append(r.Seqs, r.st.PG.CommitSeq())
	if r.Hook != nil {
		r.Hook(ev)
	}
}

func (r *Recorder) CommittedTransactions(ctx context.Context, l string, res ledger.Transaction, accountMetadata ledger.AccountMetadata) {
	r.add(fmt.Sprintf("committed %s %d", l, *res.ID))
}
func (r *Recorder) SavedMetadata(ctx context.Context, l string, targetType, id string, md metadata.Metadata) {
	r.add(fmt.Sprintf("saved_metadata %s %s %s", l, targetType, id))
}
func (r *Recorder) RevertedTransaction(ctx context.Context, l string, reverted, revert ledger.Transaction) {
	r.add(fmt.Sprintf("reverted %s %d %d", l, *reverted.ID, *revert.ID))
}
func (r *Recorder) DeletedMetadata(ctx context.Context, l string, targetType string, targetID any, key string) {
	r.add(fmt.Sprintf("deleted_metadata %s %s %v %s", l, targetType, targetID, key))
}
func (r *Recorder) InsertedSchema(ctx context.Context, l string, data ledger.Schema) {
	r.add(fmt.Sprintf("inserted_schema %s %s", l, data.Version))
}
