//go:build verif

package main

// C19 — ledger isolation.  Several ledgers on ONE database: bucket "_default" holds 2-3 ledgers, some created MID-HISTORY,
// bucket "b2" holds one ledger alone.  Two independent "processes" (each its own driver.Driver + ledgerstore.Factory +
// system controller, i.e. its own per-bucket aloneInBucket flag, like two replicas / an API server and a worker sharing the
// database) drive interleaved random histories with overlapping account names, references and idempotency keys, through
// fresh controllers (GetLedgerController per request, as the API does) and through controllers obtained EARLIER and kept
// (as the replication pipelines do with their store).  A third process only observes: after every event it snapshots EVERY
// ledger (all read paths of Snapshot + raw tables + per-ledger sequences).
//
// case  = the global event list; impl = per-ledger traces (+ what the kept controllers list); model = Ledger/Multi.v.
// Monitors (independent of the model): frame (an event on L leaves every other ledger bit-identical), listings = raw rows of
// that ledger, no row carrying another ledger's marker, kept controllers list only their own ledger, and every ledger behaves
// exactly as the same operations on a database where it is alone (real code, fresh stack; PIT reads included).

import (
	"math/big"
	"github.com/formancehq/go-libs/v5/pkg/query"
	"context"
	"encoding/json"
	"fmt"
	"sort"
	"strings"

	"github.com/formancehq/go-libs/v5/pkg/storage/bun/paginate"
	"github.com/formancehq/go-libs/v5/pkg/types/pointer"
	"github.com/uptrace/bun"
	"github.com/uptrace/bun/dialect/pgdialect"

	ledger "github.com/formancehq/ledger/internal"
	ledgercontroller "github.com/formancehq/ledger/internal/controller/ledger"
	"github.com/formancehq/ledger/internal/controller/system"
	"github.com/formancehq/ledger/internal/storage/bucket"
	"github.com/formancehq/ledger/internal/storage/common"
	"github.com/formancehq/ledger/internal/storage/driver"
	ledgerstore "github.com/formancehq/ledger/internal/storage/ledger"
	systemstore "github.com/formancehq/ledger/internal/storage/system"
	"github.com/formancehq/ledger/internal/verifh/pgsem"
)

func init() { commands["multi"] = cmdMulti }

const mMarker = "lg" // metadata key carrying the ledger a row was written for

var mBuckets = []string{"_default", "b2"}

// attachStack: another process on the same database: its own sql pool, bun, driver (=> its own aloneInBucket flags), controllers
func attachStack(pg *pgsem.DB) *Stack {
	st := &Stack{PG: pg}
	st.SQL = pgsem.Open(pg)
	st.Bun = bun.NewDB(st.SQL, pgdialect.New(), bun.WithDiscardUnknownColumns())
	st.Driver = driver.New(st.Bun, ledgerstore.NewFactory(st.Bun), bucket.NewDefaultFactory(), systemstore.NewStoreFactory())
	st.SysStore = systemstore.New(st.Bun)
	st.Sys = system.NewDefaultController(system.NewControllerStorageDriverAdapter(st.Driver, st.SysStore), nil, nil, system.WithEnableFeatures(true))
	return st
}

type mEvent struct {
	Kind   string // mk | hold | op | schema
	Ver    string // schema: version inserted (straight through the store: no log, the write path is unaffected in audit mode)
	L      string
	Bucket string
	Feat   Feat
	Proc   int
	Held   bool
	Op     Op
}

func (e mEvent) sx() string {
	switch e.Kind {
	case "mk":
		return L("mk", Q(e.L), Q(e.Bucket), e.Feat.sx(), fmt.Sprint(e.Proc))
	case "hold":
		return L("hold", fmt.Sprint(e.Proc), Q(e.L))
	case "schema":
		return L("schema", Q(e.L), fmt.Sprint(e.Proc), Q(e.Ver))
	}
	return L("op", Q(e.L), fmt.Sprint(e.Proc), b01(e.Held), e.Op.sx())
}

func multiCaseSx(evs []mEvent) string {
	s := make([]string, len(evs))
	for i, e := range evs {
		s[i] = e.sx()
	}
	return L("multi", L(s...))
}

type mLedger struct {
	Name, Bucket string
	Feat         Feat
	ID           string
	Ops          []Op
	Res          []OpResult
	SnapSx       []string // per own operation: the LATEST snapshot before the ledger's next own operation
	Last         string   // last full observation (snapshot + raw tables + sequences)
	LastSnap     Snap
	Committed    int
	Schemas      []string
}

type heldKey struct {
	Proc int
	L    string
}

type mRun struct {
	pg      *pgsem.DB
	procs   []*Stack // 0,1: actors; 2: observer
	ctx     context.Context
	order   []string
	led     map[string]*mLedger
	held    map[heldKey]ledgercontroller.Controller
	seen    map[string]int // proc/bucket -> number of ledgers of the bucket when that process last opened/created one there
	events  []mEvent
	heldSx  []string
	viol    map[string]string // tag -> first message
	violOrd []string
	dead    bool
	nop     int
	stats   map[string]int
}

func newMRun() *mRun {
	st0 := NewStack(StackOpts{Buckets: mBuckets})
	return &mRun{pg: st0.PG, procs: []*Stack{st0, attachStack(st0.PG), attachStack(st0.PG)}, ctx: context.Background(),
		led: map[string]*mLedger{}, held: map[heldKey]ledgercontroller.Controller{}, seen: map[string]int{}, viol: map[string]string{}, stats: map[string]int{}}
}

func (m *mRun) violation(tag, msg string) {
	if _, ok := m.viol[tag]; !ok {
		m.viol[tag] = msg + " " + tag
		m.violOrd = append(m.violOrd, tag)
	}
}

func (m *mRun) countIn(b string) int {
	n := 0
	for _, l := range m.led {
		if l.Bucket == b {
			n++
		}
	}
	return n
}
func (m *mRun) opened(p int, b string) { m.seen[fmt.Sprint(p, "/", b)] = m.countIn(b) }
func (m *mRun) stale(p int, b string) bool {
	return m.seen[fmt.Sprint(p, "/", b)] == 1 && m.countIn(b) > 1
}

func (m *mRun) inBucket(b string, f func()) {
	old := m.pg.DefaultSchema
	m.pg.DefaultSchema = b
	defer func() { m.pg.DefaultSchema = old }()
	f()
}

func (m *mRun) rawq(sql string) [][]string {
	sess := m.pg.NewSession()
	defer sess.Close()
	res, err := sess.Exec(sql)
	if err != nil {
		panic(fmt.Errorf("%s: %w", sql, err))
	}
	out := make([][]string, len(res.Rows))
	for i, r := range res.Rows {
		out[i] = make([]string, len(r))
		for j, v := range r {
			if v == nil {
				out[i][j] = "NULL"
			} else {
				out[i][j] = pgsemText(v)
			}
		}
	}
	return out
}

var mRawTables = [][2]string{
	{"transactions", "id"}, {"accounts", "address"}, {"accounts_volumes", "accounts_address, asset"}, {"logs", "id"}, {"moves", "seq"},
	{"accounts_metadata", "accounts_address, revision"}, {"transactions_metadata", "transactions_id, revision"}, {"schemas", "version"}, {"logs_blocks", "id"},
}

// rawDump: every row of every bucket table tagged with this ledger + the ledger's own sequences
func (m *mRun) rawDump(l *mLedger) string {
	var sb strings.Builder
	esc := strings.ReplaceAll(l.Name, "'", "''")
	for _, t := range mRawTables {
		sb.WriteString(t[0] + ":")
		for _, r := range m.rawq(fmt.Sprintf(`select * from "%s".%s where ledger = '%s' order by %s`, l.Bucket, t[0], esc, t[1])) {
			sb.WriteString(strings.Join(r, "|") + ";")
		}
		sb.WriteString("\n")
	}
	seqs := m.pg.Sequences()
	for _, s := range []string{"transaction_id_", "log_id_"} {
		k := l.Bucket + "." + s + l.ID
		v, ok := seqs[k]
		sb.WriteString(fmt.Sprintf("%s=%d/%v\n", k, v, ok))
	}
	return sb.String()
}

// ---------------------------------------------------------------- projections shared by observer snapshots and kept-controller reads
type mView struct{ Txs, Accs, Logs, Vols, Agg, Schemas []string }

// unfiltered drops the "[filter] ..." entries of the filtered listings
func (v mView) unfiltered() mView {
	keep := func(xs []string) []string {
		var out []string
		for _, x := range xs {
			if !strings.HasPrefix(x, "[") {
				out = append(out, x)
			}
		}
		return out
	}
	return mView{Txs: v.Txs, Accs: keep(v.Accs), Logs: v.Logs, Vols: keep(v.Vols), Agg: keep(v.Agg), Schemas: v.Schemas}
}

func (v mView) diff(w mView) string { // rows of v that are not in w
	var out []string
	d := func(what string, a, b []string) {
		in := map[string]int{}
		for _, x := range b {
			in[x]++
		}
		for _, x := range a {
			if in[x] > 0 {
				in[x]--
			} else {
				out = append(out, what+" "+x)
			}
		}
	}
	d("transaction", v.Txs, w.Txs)
	d("account", v.Accs, w.Accs)
	d("log", v.Logs, w.Logs)
	d("volume", v.Vols, w.Vols)
	d("aggregated", v.Agg, w.Agg)
	d("schema", v.Schemas, w.Schemas)
	if len(out) > 6 {
		out = append(out[:6], fmt.Sprintf("... (%d rows)", len(out)))
	}
	return strings.Join(out, "; ")
}

func kvText(m map[string]string) string {
	kv := sortKV(m)
	s := make([]string, len(kv))
	for i, x := range kv {
		s[i] = x.K + "=" + x.V
	}
	return "{" + strings.Join(s, ",") + "}"
}

func (m *mRun) viewVia(ctrl ledgercontroller.Controller) (v mView, ids []int64, err error) {
	defer func() {
		if r := recover(); r != nil {
			err = fmt.Errorf("panic: %v", r)
		}
	}()
	big := uint64(100000)
	txs, err := listAll(m.ctx, ctrl.ListTransactions, common.InitialPaginatedQuery[any]{PageSize: big, Order: pointer.For(paginate.Order(paginate.OrderAsc))})
	if err != nil {
		return v, nil, err
	}
	for _, t := range txs {
		v.Txs = append(v.Txs, fmt.Sprintf("id=%d ref=%q meta=%s", *t.ID, t.Reference, kvText(t.Metadata)))
		ids = append(ids, int64(*t.ID))
	}
	accs, err := listAll(m.ctx, ctrl.ListAccounts, common.InitialPaginatedQuery[any]{PageSize: big})
	if err != nil {
		return v, nil, err
	}
	for _, a := range accs {
		v.Accs = append(v.Accs, fmt.Sprintf("%s meta=%s first=%d", a.Address, kvText(a.Metadata), us(a.FirstUsage.Time)))
	}
	logs, err := listAll(m.ctx, ctrl.ListLogs, common.InitialPaginatedQuery[any]{PageSize: big, Order: pointer.For(paginate.Order(paginate.OrderAsc))})
	if err != nil {
		return v, nil, err
	}
	for _, l := range logs {
		v.Logs = append(v.Logs, fmt.Sprintf("id=%d type=%s ik=%q date=%d", *l.ID, l.Type.String(), l.IdempotencyKey, us(l.Date.Time)))
	}
	vols, err := listAll(m.ctx, ctrl.GetVolumesWithBalances, common.InitialPaginatedQuery[ledger.GetVolumesOptions]{PageSize: big})
	if err != nil {
		return v, nil, err
	}
	for _, x := range vols {
		v.Vols = append(v.Vols, fmt.Sprintf("%s/%s in=%s out=%s", x.Account, x.Asset, x.Input, x.Output))
	}
	agg, err := ctrl.GetAggregatedBalances(m.ctx, common.ResourceQuery[ledger.GetAggregatedVolumesOptions]{})
	if err != nil {
		return v, nil, err
	}
	for c, b := range agg {
		v.Agg = append(v.Agg, c+"="+b.String())
	}
	// the filtered forms join the accounts table (partial address: address_array; metadata: the accounts row): each such
	// sub-select has to be scoped to the ledger as well. Same for the volumes listing.
	for _, fl := range []struct {
		name string
		b    query.Builder
	}{{"users:", query.Match("address", "users:")}, {"meta", query.Or(query.Match("metadata[k1]", "v1"), query.Match("metadata[role]", "v3"), query.Match("metadata[k2]", "v2"))}} {
		fa, err := ctrl.GetAggregatedBalances(m.ctx, common.ResourceQuery[ledger.GetAggregatedVolumesOptions]{Builder: fl.b})
		if err != nil {
			return v, nil, err
		}
		for c, b := range fa {
			v.Agg = append(v.Agg, "["+fl.name+"] "+c+"="+b.String())
		}
		fv, err := listAll(m.ctx, ctrl.GetVolumesWithBalances, common.InitialPaginatedQuery[ledger.GetVolumesOptions]{PageSize: 4, Options: common.ResourceQuery[ledger.GetVolumesOptions]{Builder: fl.b}})
		if err != nil {
			return v, nil, err
		}
		for _, x := range fv {
			v.Vols = append(v.Vols, fmt.Sprintf("[%s] %s/%s in=%s out=%s", fl.name, x.Account, x.Asset, x.Input, x.Output))
		}
		fas, err := listAll(m.ctx, ctrl.ListAccounts, common.InitialPaginatedQuery[any]{PageSize: 3, Options: common.ResourceQuery[any]{Builder: fl.b}})
		if err != nil {
			return v, nil, err
		}
		for _, a := range fas {
			v.Accs = append(v.Accs, fmt.Sprintf("[%s] %s", fl.name, a.Address))
		}
	}
	if v.Schemas, err = m.schemasVia(ctrl); err != nil {
		return v, nil, err
	}
	for _, s := range [][]string{v.Txs, v.Accs, v.Logs, v.Vols, v.Agg} {
		sort.Strings(s)
	}
	sort.Slice(ids, func(i, j int) bool { return ids[i] < ids[j] })
	return v, ids, nil
}

// schemasVia: ListSchemas through a controller: "version chart"
func (m *mRun) schemasVia(ctrl ledgercontroller.Controller) ([]string, error) {
	ss, err := listAll(m.ctx, ctrl.ListSchemas, common.InitialPaginatedQuery[any]{PageSize: 100000})
	if err != nil {
		return nil, err
	}
	var out []string
	for _, x := range ss {
		c, _ := json.Marshal(x.Chart)
		out = append(out, x.Version+" "+string(c))
	}
	sort.Strings(out)
	return out, nil
}

func viewOfSnap(s Snap) mView {
	var v mView
	for _, t := range s.Txs {
		mm := map[string]string{}
		for _, kv := range t.Meta {
			mm[kv.K] = kv.V
		}
		v.Txs = append(v.Txs, fmt.Sprintf("id=%d ref=%q meta=%s", t.ID, t.Ref, kvText(mm)))
	}
	for _, a := range s.Accounts {
		mm := map[string]string{}
		for _, kv := range a.Meta {
			mm[kv.K] = kv.V
		}
		v.Accs = append(v.Accs, fmt.Sprintf("%s meta=%s first=%d", a.Addr, kvText(mm), a.First))
	}
	for _, l := range s.Logs {
		v.Logs = append(v.Logs, fmt.Sprintf("id=%d type=%s ik=%q date=%d", l.ID, l.Type, l.IK, l.Date))
	}
	for _, x := range s.Vols {
		v.Vols = append(v.Vols, fmt.Sprintf("%s/%s in=%s out=%s", x[0], x[1], x[2], x[3]))
	}
	for c, b := range s.Agg {
		v.Agg = append(v.Agg, c+"="+b)
	}
	for _, s := range [][]string{v.Txs, v.Accs, v.Logs, v.Vols, v.Agg} {
		sort.Strings(s)
	}
	return v
}

// ---------------------------------------------------------------- monitors on one observation
func (m *mRun) checkListingVsTables(l *mLedger, s Snap) {
	esc := strings.ReplaceAll(l.Name, "'", "''")
	cmp := func(what string, listed []string, rows [][]string) {
		var raw []string
		for _, r := range rows {
			raw = append(raw, strings.Join(r, " "))
		}
		sort.Strings(raw)
		sort.Strings(listed)
		if strings.Join(raw, ";") != strings.Join(listed, ";") {
			m.violation("[listing-vs-table]", fmt.Sprintf("ledger %s: %s listed through the read API = {%s} but the rows tagged ledger=%s are {%s}", l.Name, what, strings.Join(listed, ";"), l.Name, strings.Join(raw, ";")))
		}
	}
	var txs, accs, logs, vols []string
	for _, t := range s.Txs {
		ref := t.Ref
		if ref == "" {
			ref = "NULL"
		}
		txs = append(txs, fmt.Sprintf("%d %s", t.ID, ref))
	}
	for _, a := range s.Accounts {
		accs = append(accs, a.Addr)
	}
	for _, x := range s.Logs {
		ik := x.IK
		if ik == "" {
			ik = "NULL"
		}
		logs = append(logs, fmt.Sprintf("%d %s", x.ID, ik))
	}
	for _, x := range s.Vols {
		vols = append(vols, strings.Join(x[:], " "))
	}
	b := `"` + l.Bucket + `".`
	cmp("transactions (id reference)", txs, m.rawq(`select id, reference from `+b+`transactions where ledger = '`+esc+`'`))
	cmp("accounts", accs, m.rawq(`select address from `+b+`accounts where ledger = '`+esc+`'`))
	cmp("logs (id idempotency_key)", logs, m.rawq(`select id, idempotency_key from `+b+`logs where ledger = '`+esc+`'`))
	cmp("volumes", vols, m.rawq(`select accounts_address, asset, input, output from `+b+`accounts_volumes where ledger = '`+esc+`'`))
}

func (m *mRun) checkSchemas(l *mLedger) {
	var raw []string
	for _, r := range m.rawq(`select version from "` + l.Bucket + `".schemas where ledger = '` + l.Name + `'`) {
		raw = append(raw, r[0])
	}
	sort.Strings(raw)
	var listed []string
	for _, x := range l.Schemas {
		listed = append(listed, strings.SplitN(x, " ", 2)[0])
		if !strings.Contains(x, `"m`+l.Name+`"`) {
			m.violation("[foreign-row]", fmt.Sprintf("ListSchemas on ledger %s returned a schema written for another ledger: %s", l.Name, x))
		}
	}
	if strings.Join(raw, ";") != strings.Join(listed, ";") {
		m.violation("[listing-vs-table]", fmt.Sprintf("ledger %s: schemas listed through the read API = {%s} but the rows tagged ledger=%s are {%s}", l.Name, strings.Join(listed, ";"), l.Name, strings.Join(raw, ";")))
	}
}

func (m *mRun) checkMarkers(l *mLedger, s Snap) {
	bad := func(what string, meta []KV) {
		for _, kv := range meta {
			if kv.K == mMarker && kv.V != l.Name {
				m.violation("[foreign-row]", fmt.Sprintf("a listing on ledger %s returned %s written for ledger %s", l.Name, what, kv.V))
			}
		}
	}
	for _, t := range s.Txs {
		bad(fmt.Sprintf("transaction %d", t.ID), t.Meta)
	}
	for _, a := range s.Accounts {
		bad("account "+a.Addr, a.Meta)
	}
	for _, x := range s.Logs {
		switch p := x.Raw.Data.(type) {
		case ledger.CreatedTransaction:
			bad(fmt.Sprintf("log %d", x.ID), sortKV(p.Transaction.Metadata))
		case ledger.SavedMetadata:
			bad(fmt.Sprintf("log %d", x.ID), sortKV(p.Metadata))
		}
	}
}

// observe: snapshot every ledger through the observer process; `on` = the ledger the event addressed ("" for a creation)
func (m *mRun) observe(on string, what string) {
	for _, name := range m.order {
		l := m.led[name]
		var snap Snap
		m.inBucket(l.Bucket, func() {
			ctrl, err := m.procs[2].Sys.GetLedgerController(m.ctx, name)
			must(err)
			snap = m.procs[2].Snapshot(m.ctx, ctrl, name, l.Feat)
			m.checkFilteredReads(l, ctrl, snap)
			var err2 error
			if l.Schemas, err2 = m.schemasVia(ctrl); err2 != nil {
				m.violation("[schema-read-error]", fmt.Sprintf("ListSchemas on ledger %s fails: %v", name, err2))
			}
		})
		full := snap.sx() + "\nschemas: " + strings.Join(l.Schemas, ";") + "\n" + m.rawDump(l)
		if l.Last != "" && name != on && full != l.Last {
			m.violation("[frame]", fmt.Sprintf("%s changed what is observable on ledger %s: %s", what, name, firstDiff(l.Last, full)))
		}
		changed := full != l.Last
		l.Last, l.LastSnap = full, snap
		if n := len(l.SnapSx); n > 0 {
			l.SnapSx[n-1] = snap.sx()
		}
		if changed && snap.Err == "" {
			m.checkSchemas(l)
			m.checkListingVsTables(l, snap)
			m.checkMarkers(l, snap)
		}
	}
}

// heldReads: what every kept controller lists now, against the observer's view of the same ledger
func (m *mRun) heldReads() { m.heldReads2(true) }
func (m *mRun) heldReads2(record bool) {
	var keys []heldKey
	for k := range m.held {
		keys = append(keys, k)
	}
	sort.Slice(keys, func(i, j int) bool { return keys[i].Proc < keys[j].Proc || keys[i].Proc == keys[j].Proc && keys[i].L < keys[j].L })
	var rows []string
	for _, k := range keys {
		l := m.led[k.L]
		v, ids, err := m.viewVia(m.held[k])
		if err != nil {
			rows = append(rows, L(fmt.Sprint(k.Proc), Q(k.L), L("error", Q(err.Error()))))
			m.violation("[held-read-error]", fmt.Sprintf("a controller of process %d kept on ledger %s fails to read: %v", k.Proc, k.L, err))
			continue
		}
		s := make([]string, len(ids))
		for i, id := range ids {
			s[i] = fmt.Sprint(id)
		}
		rows = append(rows, L(fmt.Sprint(k.Proc), Q(k.L), L(s...)))
		want := viewOfSnap(l.LastSnap)
		want.Schemas = l.Schemas
		v = v.unfiltered() // (the snapshot has no filtered listings; those are compared by the solo check)
		extra, missing := v.diff(want), want.diff(v)
		if extra != "" || missing != "" {
			m.stats["held_reads_polluted"]++
			if m.stale(k.Proc, l.Bucket) {
				m.violation("[stale-alone-flag]", fmt.Sprintf("process %d opened ledger %s while it was alone in bucket %s and kept the controller; ANOTHER process then added a ledger to the bucket; "+
					"the kept controller's un-scoped reads now return rows of other ledgers: extra {%s} missing {%s}", k.Proc, k.L, l.Bucket, extra, missing))
			} else {
				m.violation("[foreign-row]", fmt.Sprintf("a controller of process %d kept on ledger %s lists extra {%s} missing {%s}", k.Proc, k.L, extra, missing))
			}
		}
		m.stats["held_reads"]++
	}
	if record {
		m.heldSx = append(m.heldSx, L(rows...))
	}
}

func withMarker(meta []KV, v string) []KV {
	out := make([]KV, 0, len(meta)+1)
	for _, kv := range meta {
		if kv.K != mMarker {
			out = append(out, kv)
		}
	}
	out = append(out, KV{mMarker, v})
	sort.Slice(out, func(i, j int) bool { return out[i].K < out[j].K })
	return out
}

// apply executes one event on the real stack and runs the monitors
func (m *mRun) apply(e mEvent) (res OpResult) {
	m.events = append(m.events, e)
	switch e.Kind {
	case "mk":
		err := m.procs[e.Proc].Sys.CreateLedger(m.ctx, e.L, ledger.Configuration{Bucket: e.Bucket, Features: e.Feat.set()})
		if err != nil {
			panic(fmt.Errorf("create ledger %s: %w", e.L, err))
		}
		l := &mLedger{Name: e.L, Bucket: e.Bucket, Feat: e.Feat}
		l.ID = m.rawq(`select id from _system.ledgers where name = '` + e.L + `'`)[0][0]
		m.led[e.L] = l
		m.order = append(m.order, e.L)
		m.opened(e.Proc, e.Bucket)
		if len(m.order) > 1 && m.nop > 0 {
			m.stats["ledgers_created_mid_history"]++
		}
		m.observe("", "creating ledger "+e.L)
	case "hold":
		ctrl, err := m.procs[e.Proc].Sys.GetLedgerController(m.ctx, e.L)
		must(err)
		m.held[heldKey{e.Proc, e.L}] = ctrl
		m.opened(e.Proc, m.led[e.L].Bucket)
	case "schema":
		l := m.led[e.L]
		store, _, err := m.procs[e.Proc].Driver.OpenLedger(m.ctx, e.L)
		must(err)
		m.opened(e.Proc, l.Bucket)
		var chart ledger.ChartOfAccounts
		must(json.Unmarshal([]byte(`{"m`+e.L+`": {}}`), &chart))
		sc, err := ledger.NewSchema(e.Ver, ledger.SchemaData{Chart: chart})
		must(err)
		if err := store.InsertSchema(m.ctx, &sc); err != nil {
			m.violation("[schema-insert-error]", fmt.Sprintf("inserting schema %s on ledger %s fails: %v", e.Ver, e.L, err))
		}
		m.stats["schemas_inserted"]++
		m.observe(e.L, fmt.Sprintf("inserting schema %s on ledger %s", e.Ver, e.L))
		m.heldReads2(false)
	case "op":
		l := m.led[e.L]
		var ctrl ledgercontroller.Controller
		if e.Held {
			ctrl = m.held[heldKey{e.Proc, e.L}]
			if ctrl == nil {
				panic("no kept controller for " + e.L)
			}
			m.stats["ops_via_kept_controller"]++
			if m.stale(e.Proc, l.Bucket) {
				m.stats["ops_via_stale_controller"]++
			}
		} else {
			var err error
			ctrl, err = m.procs[e.Proc].Sys.GetLedgerController(m.ctx, e.L)
			must(err)
			m.opened(e.Proc, l.Bucket)
		}
		m.pg.Clock = pgsem.TS(e.Op.Now)
		res = runOp(m.ctx, ctrl, e.Op)
		m.nop++
		l.Ops = append(l.Ops, e.Op)
		l.Res = append(l.Res, res)
		if res.Panic != "" {
			m.dead = true // the SQL transaction of a panicking operation is leaked
			return res
		}
		if res.Class == "none" && !e.Op.Dry && !res.Hit {
			l.Committed++
		}
		l.SnapSx = append(l.SnapSx, "")
		m.observe(e.L, fmt.Sprintf("operation %d (%s on ledger %s)", m.nop, e.Op.Kind, e.L))
		m.heldReads()
	}
	return res
}

func (m *mRun) traceOf(l *mLedger) string {
	var steps []string
	for i, r := range l.Res {
		if r.Panic != "" {
			steps = append(steps, L(r.sx()))
			break
		}
		steps = append(steps, L(r.sx(), l.SnapSx[i]))
	}
	return L("trace", L(steps...))
}

func (m *mRun) implSx() string {
	var ls []string
	for _, n := range m.order {
		ls = append(ls, L(Q(n), m.traceOf(m.led[n])))
	}
	return L("mtrace", L(ls...), L("kept", L(m.heldSx...)))
}

// soloCheck: the same operations on a database where the ledger is alone (fresh stack, real code): results, every snapshot and the
// point-in-time reads at the end must coincide with what the ledger showed while sharing the database
func (m *mRun) soloCheck() {
	for _, n := range m.order {
		l := m.led[n]
		if len(l.Ops) == 0 {
			continue
		}
		st := NewStack(StackOpts{Buckets: []string{l.Bucket}})
		must(st.Sys.CreateLedger(m.ctx, n, ledger.Configuration{Bucket: l.Bucket, Features: l.Feat.set()}))
		ctrl, err := st.Sys.GetLedgerController(m.ctx, n)
		must(err)
		var steps []string
		for _, o := range l.Ops {
			st.PG.Clock = pgsem.TS(o.Now)
			r := runOp(m.ctx, ctrl, o)
			if r.Panic != "" {
				steps = append(steps, L(r.sx()))
				break
			}
			steps = append(steps, L(r.sx(), st.Snapshot(m.ctx, ctrl, n, l.Feat).sx()))
		}
		solo := L("trace", L(steps...))
		if mine := m.traceOf(l); solo != mine {
			m.violation("[differs-from-solo-run]", fmt.Sprintf("ledger %s sharing the database behaves differently from the same operations on a database of its own: %s", n, firstDiff(solo, mine)))
			continue
		}
		if m.dead {
			continue
		}
		last := l.Ops[len(l.Ops)-1].Now
		pits := []int64{l.Ops[0].Now, last - 30*1000000, last + 3600*1000000}
		a := pitProbes(&HistRun{ctx: m.ctx, ctrl: ctrl}, pits)
		var b map[string]string
		m.inBucket(l.Bucket, func() {
			oc, err := m.procs[2].Sys.GetLedgerController(m.ctx, n)
			must(err)
			b = pitProbes(&HistRun{ctx: m.ctx, ctrl: oc}, pits)
		})
		var keys []string
		for k := range a {
			keys = append(keys, k)
		}
		sort.Strings(keys)
		for _, k := range keys {
			m.stats["pit_probes"]++
			if a[k] != b[k] {
				m.violation("[differs-from-solo-run]", fmt.Sprintf("ledger %s, point-in-time read %q: alone in a database %q, sharing the database %q", n, k, a[k], b[k]))
				break
			}
		}
	}
}

// ---------------------------------------------------------------- generator: genHistory per ledger as coroutines, interleaved by one Rng
type mCo struct {
	name string
	req  chan Op
	resp chan OpResult
	done chan struct{}
	fin  bool
}

func (c *mCo) next() (Op, bool) {
	if c.fin {
		return Op{}, false
	}
	select {
	case o := <-c.req:
		return o, true
	case <-c.done:
		c.fin = true
		return Op{}, false
	}
}

var mFeats = []Feat{allOn, allOn, {true, true, false, false, true}, {true, false, true, true, false}, {false, false, true, false, true}, {true, true, true, true, false}}

func genMulti(r *Rng, m *mRun) {
	type plan struct {
		name, bucket string
		after        int
	}
	plans := []plan{{"la", "_default", 0}, {"lz", "b2", 0}, {"lb", "_default", 1 + r.Intn(6)}}
	if r.Chance(50) {
		plans[1].after = r.Intn(8)
	}
	if r.Chance(60) {
		plans = append(plans, plan{"lc", "_default", 3 + r.Intn(10)})
	}
	var cos []*mCo
	nver := map[string]int{}
	runnable := func() []*mCo {
		var out []*mCo
		for _, c := range cos {
			if !c.fin {
				out = append(out, c)
			}
		}
		return out
	}
	create := func(p plan) {
		proc := 0
		if p.name != "la" {
			proc = r.Intn(2)
		}
		feat := Pick(r, mFeats)
		m.apply(mEvent{Kind: "mk", L: p.name, Bucket: p.bucket, Feat: feat, Proc: proc})
		for q := 0; q < 2; q++ {
			if (p.name == "la" && r.Chance(85)) || (p.name != "la" && r.Chance(35)) {
				m.apply(mEvent{Kind: "hold", Proc: q, L: p.name})
			}
		}
		nver[p.name] = 0
		if r.Chance(50) {
			nver[p.name]++
			m.apply(mEvent{Kind: "schema", L: p.name, Proc: r.Intn(2), Ver: fmt.Sprintf("v%d", nver[p.name])})
		}
		co := &mCo{name: p.name, req: make(chan Op), resp: make(chan OpResult), done: make(chan struct{})}
		rr := r.Fork()
		prof := HistProfile{MaxOps: 6 + r.Intn(6), Backdate: true, IKHeavy: r.Chance(30)}
		go func() {
			defer close(co.done)
			genHistory(rr, prof, feat, func(o Op) OpResult {
				co.req <- o
				return <-co.resp
			})
		}()
		cos = append(cos, co)
	}
	for {
		// creations that are due (or nothing else can run)
		for len(plans) > 0 && (plans[0].after <= m.nop || len(runnable()) == 0) {
			create(plans[0])
			plans = plans[1:]
		}
		// plans are not sorted by threshold: look at the others too
		for i := 1; i < len(plans); i++ {
			if plans[i].after <= m.nop {
				create(plans[i])
				plans = append(plans[:i], plans[i+1:]...)
				i--
			}
		}
		rs := runnable()
		if len(rs) == 0 {
			if len(plans) == 0 {
				return
			}
			continue
		}
		if r.Chance(6) {
			n := Pick(r, m.order)
			nver[n]++
			m.apply(mEvent{Kind: "schema", L: n, Proc: r.Intn(2), Ver: fmt.Sprintf("v%d", nver[n])})
		}
		co := Pick(r, rs)
		o, ok := co.next()
		if !ok {
			continue
		}
		if o.Kind == "create" || (o.Kind == "setmeta" && o.IsAcc) {
			o.Meta = withMarker(o.Meta, co.name)
		}
		proc := r.Intn(2)
		_, has := m.held[heldKey{proc, co.name}]
		e := mEvent{Kind: "op", L: co.name, Proc: proc, Held: has && r.Chance(55), Op: o}
		res := m.apply(e)
		co.resp <- res
		if m.dead { // release the other generators
			for _, c := range cos {
				for !c.fin {
					if _, ok := c.next(); ok {
						c.resp <- OpResult{Panic: "aborted"}
					}
				}
			}
			return
		}
	}
}

// ---------------------------------------------------------------- replay parsing
func parseMultiCase(line string) []mEvent {
	sx, err := ParseSx(line)
	must(err)
	var evs []mEvent
	var opSx []string
	for _, e := range sx.List[1].List {
		switch e.List[0].Atom {
		case "mk":
			fs := e.List[3].List
			b := func(i int) bool { return fs[i].Atom == "1" }
			evs = append(evs, mEvent{Kind: "mk", L: e.List[1].Atom, Bucket: e.List[2].Atom, Feat: Feat{b(1), b(2), b(3), b(4), b(5)}, Proc: int(atoi(e.List[4].Atom))})
		case "hold":
			evs = append(evs, mEvent{Kind: "hold", Proc: int(atoi(e.List[1].Atom)), L: e.List[2].Atom})
		case "schema":
			evs = append(evs, mEvent{Kind: "schema", L: e.List[1].Atom, Proc: int(atoi(e.List[2].Atom)), Ver: e.List[3].Atom})
		case "op":
			evs = append(evs, mEvent{Kind: "op", L: e.List[1].Atom, Proc: int(atoi(e.List[2].Atom)), Held: e.List[3].Atom == "1"})
			opSx = append(opSx, sxText(e.List[4]))
		}
	}
	_, ops := parseHistCase(L("hist", allOn.sx(), L(opSx...)))
	k := 0
	for i := range evs {
		if evs[i].Kind == "op" {
			evs[i].Op = ops[k]
			k++
		}
	}
	return evs
}

// ---------------------------------------------------------------- command
func cmdMulti(args []string) int {
	f := ParseFlags(args)
	out := NewOut(f.Out)
	defer out.Close()
	finish := func(m *mRun) {
		m.soloCheck()
		m.bucketDeleteProbe()
		cs := multiCaseSx(m.events)
		out.Case(cs, m.implSx())
		out.Stats["cases"]++
		out.Stats["ops"] += m.nop
		out.Stats["ledgers"] += len(m.order)
		shared := 0
		for _, n := range m.order {
			l := m.led[n]
			if l.Bucket == "_default" && l.Committed >= 1 {
				shared++
			}
			for i, r := range l.Res {
				if r.Panic != "" {
					out.Stats["res_panic"]++
					continue
				}
				c := r.Class
				if strings.HasPrefix(c, "other:") {
					c = "other"
				}
				out.Stats["res_"+c]++
				out.Stats["op_"+l.Ops[i].Kind]++
			}
		}
		if shared >= 2 {
			out.Stats["distinct_nontrivial"]++
		}
		for k, v := range m.stats {
			out.Stats[k] += v
		}
		for _, tag := range m.violOrd {
			out.Violation("C19", cs, m.viol[tag])
			out.Stats["violation_"+strings.Trim(tag, "[]")]++
		}
	}
	if f.Replay != "" {
		for _, line := range ReadLines(f.Replay) {
			m := newMRun()
			for _, e := range parseMultiCase(line) {
				m.apply(e)
				if m.dead {
					break
				}
			}
			finish(m)
		}
		return 0
	}
	r := NewRng(f.Seed)
	for i := 0; i < f.N; i++ {
		rr := r.Fork()
		m := newMRun()
		genMulti(rr, m)
		finish(m)
	}
	return 0
}

// bucketDeleteProbe (C19, no model; runs after the case, so the compared trace is not affected): a bucket holding ledgers with
// data is soft-deleted (DELETE /v2/_/buckets/{bucket}: the ledgers rows get deleted_at, their data stays in the bucket tables
// until the retention worker removes it), then ONE new ledger is created in that bucket by a process that never opened it, and
// read: a brand-new ledger lists nothing, whatever still lies in the tables it shares.
func (m *mRun) bucketDeleteProbe() {
	if m.dead {
		return
	}
	bucket := ""
	for _, b := range []string{"b2", "_default"} {
		for _, n := range m.order {
			if l := m.led[n]; l.Bucket == b && l.Committed >= 1 && bucket == "" {
				bucket = b
			}
		}
	}
	if bucket == "" {
		return
	}
	defer func() {
		if r := recover(); r != nil {
			m.stats["bucket_delete_probe_unsupported"]++
		}
	}()
	m.stats["bucket_delete_probes"]++
	if err := m.procs[0].Sys.DeleteBucket(m.ctx, bucket); err != nil {
		m.stats["bucket_delete_probe_unsupported"]++
		return
	}
	fresh := m.procs[2]
	if err := fresh.Sys.CreateLedger(m.ctx, "zzfresh", ledger.Configuration{Bucket: bucket, Features: allOn.set()}); err != nil {
		m.stats["bucket_delete_probe_create_refused"]++
		return
	}
	ctrl, err := fresh.Sys.GetLedgerController(m.ctx, "zzfresh")
	if err != nil {
		m.violation("[c19-fresh-ledger-unreadable]", fmt.Sprintf("[c19-fresh-ledger-unreadable] the ledger created in bucket %s after its soft deletion cannot be opened: %v", bucket, err))
		return
	}
	v, _, err := m.viewVia(ctrl)
	if err != nil {
		m.violation("[c19-fresh-ledger-unreadable]", fmt.Sprintf("[c19-fresh-ledger-unreadable] reads on the ledger created in bucket %s after its soft deletion fail: %v", bucket, err))
		return
	}
	if n := len(v.Txs) + len(v.Accs) + len(v.Logs) + len(v.Vols); n > 0 {
		m.violation("[c19-leak-after-bucket-delete]", fmt.Sprintf("[c19-leak-after-bucket-delete] a brand-new ledger created in bucket %s after the bucket was soft-deleted lists %d transactions, %d accounts, %d logs, %d volume rows of the deleted ledgers (e.g. %v)", bucket, len(v.Txs), len(v.Accs), len(v.Logs), len(v.Vols), append(append([]string{}, v.Txs...), v.Logs...)[:1]))
	}
}

// checkFilteredReads (C19, no model): the filtered aggregated balances / volumes of a ledger - whose SQL joins the accounts
// table in a sub-select (partial address: address_array; metadata: the accounts row) - equal what the ledger's OWN unfiltered
// listings give for the accounts matching the filter. A sub-select that is not scoped to the ledger sees the namesake
// accounts of the other ledgers of the bucket: rows counted twice, or selected through another ledger's metadata.
func (m *mRun) checkFilteredReads(l *mLedger, ctrl ledgercontroller.Controller, s Snap) {
	if s.Err != "" {
		return
	}
	metaOf := map[string]map[string]string{}
	for _, a := range s.Accounts {
		mm := map[string]string{}
		for _, kv := range a.Meta {
			mm[kv.K] = kv.V
		}
		metaOf[a.Addr] = mm
	}
	type flt struct {
		name string
		b    query.Builder
		sat  func(addr string) bool
	}
	flts := []flt{
		{"address users:", query.Match("address", "users:"), func(a string) bool {
			parts := strings.Split(a, ":")
			return len(parts) == 2 && parts[0] == "users"
		}},
		{"metadata k1=v1 or role=v3 or k2=v2", query.Or(query.Match("metadata[k1]", "v1"), query.Match("metadata[role]", "v3"), query.Match("metadata[k2]", "v2")), func(a string) bool {
			mm := metaOf[a]
			return mm["k1"] == "v1" || mm["role"] == "v3" || mm["k2"] == "v2"
		}},
	}
	for _, f := range flts {
		want := map[string]*big.Int{}
		for _, v := range s.Vols {
			if f.sat(v[0]) {
				if want[v[1]] == nil {
					want[v[1]] = new(big.Int)
				}
				in, _ := new(big.Int).SetString(v[2], 10)
				out, _ := new(big.Int).SetString(v[3], 10)
				want[v[1]].Add(want[v[1]], new(big.Int).Sub(in, out))
			}
		}
		got, err := ctrl.GetAggregatedBalances(m.ctx, common.ResourceQuery[ledger.GetAggregatedVolumesOptions]{Builder: f.b})
		if err != nil {
			m.violation("[filtered-read-error]", fmt.Sprintf("aggregated balances of ledger %s filtered by %s fail: %v", l.Name, f.name, err))
			continue
		}
		m.stats["filtered_aggregates_checked"]++
		ws, gs := []string{}, []string{}
		for c, b := range want {
			ws = append(ws, c+"="+b.String())
		}
		for c, b := range got {
			gs = append(gs, c+"="+b.String())
		}
		sort.Strings(ws)
		sort.Strings(gs)
		if strings.Join(ws, ",") != strings.Join(gs, ",") {
			m.violation("[filtered-aggregate]", fmt.Sprintf("[filtered-aggregate] aggregated balances of ledger %s filtered by %s are {%s}; its own volumes of the matching accounts give {%s}", l.Name, f.name, strings.Join(gs, ","), strings.Join(ws, ",")))
		}
	}
}
