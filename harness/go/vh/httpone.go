//go:build verif

package main

import (
	"fmt"
	"math/big"
	"strings"
)

// httpone: one-off probes of the real HTTP API on a small ledger (used to reproduce findings by hand):
//
//	build/vh httpone -req 'GET /v2/l1/transactions?cursor=bnVsbA' [-req2 ...] [-body '...'] [-ct text/plain]
func init() { commands["httpone"] = cmdHTTPOne }

func cmdHTTPOne(args []string) int {
	f := ParseFlags(args)
	hr := newHistRunHTTP(allOn, allOn.set())
	for i := 0; i < 5; i++ {
		hr.St.Tick(1000000)
		hr.API.runOp("l1", Op{Kind: "create", Post: []Posting{{"world", fmt.Sprintf("users:%d", i), "USD", big.NewInt(int64(10 + i))}}, Now: 1700000000000000 + int64(i)*1000000})
	}
	for _, k := range []string{"req", "req2", "req3"} {
		r, ok := f.Extra[k]
		if !ok {
			continue
		}
		parts := strings.SplitN(r, " ", 2)
		hdr := map[string]string{}
		if ct := f.Extra["ct"]; ct != "" {
			hdr["Content-Type"] = ct
		}
		done := make(chan hresp, 1)
		body := f.Extra["body"]
		if b, ok := f.Extra["body"+strings.TrimPrefix(k, "req")]; ok {
			body = b
		}
		go func() { done <- hr.API.do(parts[0], parts[1], hdr, body) }()
		resp := <-done
		fmt.Printf("%s -> %d %s\n", r, resp.Code, short(resp.Body))
		if resp.Code >= 500 {
			fmt.Println(hr.API.lastLog.String())
		}
	}
	return 0
}
