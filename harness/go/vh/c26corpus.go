//go:build verif

package main

// directed cases of the machine-vs-interpreter comparison (C26): minimised or recorded disagreements, run before the
// generated ones on every run (known findings stay witnessed; a repaired one would be reported if it returned)
var c26Directed = []string{
	// KF-C26-world-balance-var: balance(@world, COIN) with @world at COIN -225 (recorded by the thorough tier, seed 1)
	`(ns ((decl monetary "m" (onone)) (decl portion "p" (onone)) (decl monetary "bal" (obal (alit "world") (slit "COIN")))) ((txmeta "k1" (vmon (mlit (slit "COIN") 60))) (accmeta (alit "b") "k2" (vasset "EUR/2")) (send (mlit (slit "EUR/2") 69) (vsrc (sord (sacc (alit "c") (odn)) (sord (smax (mlit (slit "EUR/2") 0) (sacc (alit "c") (odn))) (smax (mlit (slit "EUR/2") 64) (sacc (alit "b") (odn))) (sord (sacc (alit "b") (odn)))) (sacc (alit "d:x") (odu (mlit (slit "EUR/2") 51))))) (dacc (alit "a")))) (("m" (monetary "USD_X" 103)) ("p" (portion 1 5))) (("a" "COIN" 229) ("a" "EUR" -274) ("a" "EUR/2" 180) ("a" "USD" 168) ("a" "USD_X" -14) ("b" "COIN" 0) ("b" "EUR" 138) ("b" "EUR/2" 232) ("b" "USD" 114) ("b" "USD_X" 182) ("c" "COIN" 48) ("c" "EUR" 26) ("c" "EUR/2" -38) ("c" "USD" 205) ("c" "USD_X" 273) ("d:x" "EUR" 53) ("d:x" "EUR/2" 126) ("d:x" "USD" 0) ("d:x" "USD_X" 15) ("e-1" "USD" 93) ("world" "COIN" -225) ("world" "EUR" 70) ("world" "EUR/2" 104) ("world" "USD" 189) ("world" "USD_X" 252)) (("a" "acc" (account "b")) ("a" "fee" (portion 3 8)) ("a" "limit" (monetary "EUR/2" 46)) ("b" "acc" (account "m:2"))))`,
}
