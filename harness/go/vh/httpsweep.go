//go:build verif

package main

import (
	"bufio"
	"bytes"
	"context"
	"encoding/base64"
	"encoding/json"
	"fmt"
	"math/big"
	"net/http"
	"net/http/httptest"
	"net/url"
	"sort"
	"strings"

	"github.com/formancehq/go-libs/v5/pkg/authn/jwt"
	logging "github.com/formancehq/go-libs/v5/pkg/observe/log"

	ledger "github.com/formancehq/ledger/internal"
	"github.com/formancehq/ledger/internal/api"
	"github.com/formancehq/ledger/internal/api/bulking"
	ledgercontroller "github.com/formancehq/ledger/internal/controller/ledger"
	"github.com/formancehq/ledger/internal/verifh/pgsem"
)

// C38 / C36 TIE-D: the real api.NewRouter over the real system controller on pgsem.
//
//	C38 monitors (independent of any model): status class (never 5xx / panic), JSON error envelope on 4xx,
//	    definitely-invalid input is not accepted, ledger snapshot unchanged after any non-2xx answer.
//	C36 monitors: amounts from the lattice posted through v1/v2 in every body form are read back digit-exact through
//	    every read API, with and without Formance-Bigint-As-String; balance filters with huge bounds select correctly.
func init() { commands["httpsweep"] = cmdHTTPSweep }

type sweep struct {
	st     *Stack
	router http.Handler
	out    *Out
	r      *Rng
	ctx    context.Context
	ctrl   ledgercontroller.Controller
	ledger string
	cur    string // last known snapshot of the swept ledger
	nreq    int
	njs     int // json-stream requests generated so far
	nledger int
	replay  []string
}

type httpReq struct {
	Method, Path, Body string
	Hdr                map[string]string
	Class              string // mutation class (stats counter)
	Route              string
	Write              bool
	MustReject         bool // the input is definitely invalid: a 2xx answer is a violation
	Seq                int  // position in the deterministic request stream of this seed (replay re-runs the prefix)
}

func (q httpReq) sx() string {
	var hs []string
	var ks []string
	for k := range q.Hdr {
		ks = append(ks, k)
	}
	sort.Strings(ks)
	for _, k := range ks {
		hs = append(hs, L(Q(k), Q(q.Hdr[k])))
	}
	return L("http", q.Method, Q(q.Path), L(hs...), Q(q.Body), Q(q.Class), Q(q.Route), b01(q.Write), b01(q.MustReject), fmt.Sprint(q.Seq))
}

type httpResp struct {
	Code int
	Body []byte
	CT   string
	Hdr  http.Header
	Err  string // error-level log lines of the request (the real cause behind an INTERNAL envelope)
}

func (s *sweep) do(q httpReq) (resp httpResp) {
	s.nreq++
	s.st.PG.Clock += pgsem.TS(1000000)
	var body *bytes.Reader
	body = bytes.NewReader([]byte(q.Body))
	req, err := http.NewRequest(q.Method, "http://ledger.test"+q.Path, body)
	if err != nil {
		return httpResp{Code: -1, Body: []byte(err.Error())}
	}
	for k, v := range q.Hdr {
		req.Header.Set(k, v)
	}
	if _, ok := q.Hdr["Content-Type"]; !ok && q.Body != "" {
		req.Header.Set("Content-Type", "application/json")
	}
	var logbuf bytes.Buffer
	req = req.WithContext(logging.ContextWithLogger(req.Context(), logging.NewDefaultLogger(&logbuf, false, false, false)))
	rec := httptest.NewRecorder()
	defer func() {
		for _, l := range strings.Split(logbuf.String(), "\n") {
			if i := strings.Index(l, "level=error msg="); i >= 0 {
				m := l[i+len("level=error msg="):]
				if j := strings.LastIndex(m, " trace-id="); j >= 0 {
					m = m[:j]
				}
				if len(m) > 220 {
					m = m[:220] + "..."
				}
				resp.Err += m + " "
			}
		}
	}()
	func() {
		defer func() {
			if r := recover(); r != nil {
				resp = httpResp{Code: 599, Body: []byte(fmt.Sprint("panic escaped the router: ", r))}
			}
		}()
		s.router.ServeHTTP(rec, req)
		resp = httpResp{Code: rec.Code, Body: rec.Body.Bytes(), CT: rec.Header().Get("Content-Type"), Hdr: rec.Header()}
	}()
	return resp
}

func (s *sweep) snapshot() string {
	return s.st.Snapshot(s.ctx, s.ctrl, s.ledger, allOn).sx()
}

func short(b []byte) string {
	t := strings.TrimSpace(string(b))
	if len(t) > 200 {
		t = t[:200] + "..."
	}
	return t
}

// check runs the C38 monitors on one exchange
func (s *sweep) check(q httpReq, resp httpResp) {
	o := s.out
	o.Stats["cases"]++
	o.Stats["class_"+q.Class]++
	o.Stats[fmt.Sprintf("status_%dxx", resp.Code/100)]++
	cs := q.sx()
	o.Case(cs, L("status", fmt.Sprint(resp.Code)))
	viol := func(msg string) { o.Violation("C38", cs, msg) }
	desc := fmt.Sprintf("%s %s class=%s -> %d %s", q.Method, q.Path, q.Class, resp.Code, short(resp.Body))
	if resp.Err != "" {
		desc += " err=" + resp.Err
	}
	if q.Body != "" {
		b := q.Body
		if len(b) > 300 {
			b = b[:300] + "..."
		}
		desc += " body=" + b
	}
	switch {
	case resp.Code >= 500 && strings.Contains(resp.Err, "migrating bucket: failed to create version table: failed to insert version: missing table"):
		// stand-in limitation, not the code's answer: the request names a bucket pgsem was not booted with (PostgreSQL would
		// create the schema and run the migrations); nothing can be concluded from this exchange
		o.Stats["pgsem_unknown_bucket"]++
	case resp.Code >= 500 || resp.Code < 0:
		tag := fmt.Sprintf("[5xx:%s:%s:%s]", q.Route, q.Class, causeSlug(resp.Err))
		viol("server error for client input: " + desc + " " + tag)
	case resp.Code >= 400:
		if strings.HasPrefix(q.Route, "v2.bulk") && bulkErrorBody(resp.Body) {
			o.Stats["bulk_error_responses"]++ // (bulk answers carry no Content-Type header, JSON body {data, errorCode?})
		} else if q.Method != "HEAD" {
			if strings.HasPrefix(resp.CT, "application/json") {
				var env struct {
					ErrorCode    *string `json:"errorCode"`
					ErrorMessage *string `json:"errorMessage"`
				}
				if q.Route == "v2.bulk" && bulkErrorBody(resp.Body) {
					o.Stats["bulk_error_responses"]++
				} else if err := json.Unmarshal(resp.Body, &env); err != nil || env.ErrorCode == nil || *env.ErrorCode == "" {
					viol("4xx answer without the JSON error envelope {errorCode, errorMessage}: " + desc + " [envelope]")
				}
			} else if strings.HasPrefix(q.Route, "v2.bulk") && jsonEnvelope(resp.Body) {
				o.Stats["bulk_envelope_without_content_type"]++ // writeJSONResponse sets no Content-Type header; the body is the JSON envelope
			} else if resp.Code == 404 || resp.Code == 405 {
				o.Stats["plain_router_404_405"]++
			} else {
				viol("4xx answer that is not JSON: " + desc + " [envelope]")
			}
		}
	case resp.Code >= 200 && resp.Code < 300:
		if q.MustReject {
			viol("invalid input accepted: " + desc + fmt.Sprintf(" [accepted-invalid:%s:%s]", q.Route, q.Class))
		}
	}
	if q.Write || resp.Code >= 500 || s.nreq%25 == 0 {
		nonAtomicStream := (q.Route == "v2.bulk.jsonStream" || q.Route == "v2.bulk.scriptStream") && !strings.Contains(q.Path, "atomic=true") && jsonEnvelope(resp.Body)
		atomicBulk := strings.HasPrefix(q.Route, "v2.bulk") && strings.Contains(q.Path, "atomic=true") // all or nothing: a 4xx must leave no trace
		if (resp.Code >= 200 && resp.Code < 300 && q.Write) || (strings.HasPrefix(q.Route, "v2.bulk") && !atomicBulk && bulkErrorBody(resp.Body)) || nonAtomicStream {
			// (a non-atomic stream that turns out malformed keeps the elements read and committed before the malformed one, as a
			// failing element does)
			// a non-atomic bulk answered 400 keeps the elements committed before the failing one (by design, C32)
			s.cur = s.snapshot()
			o.Stats["writes_committed"]++
		} else {
			now := s.snapshot()
			o.Stats["snapshots_compared"]++
			if now != s.cur {
				tag := "[effect-after-error]"
				if (q.Route == "v2.bulk.jsonStream" || q.Route == "v2.bulk.scriptStream") && strings.Contains(q.Path, "atomic=true") {
					tag = "[atomic-stream-partial]"
				} else if atomicBulk {
					tag = "[atomic-bulk-partial]"
				}
				viol("ledger changed by a request answered " + fmt.Sprint(resp.Code) + ": " + desc + " " + tag)
				s.cur = now
			}
		}
	}
	if resp.Code >= 400 && resp.Code < 500 {
		o.Stats["distinct_nontrivial"]++
	}
}

// causeSlug: the head of the logged error, as a tag component (so that a known finding is tied to its cause)
func causeSlug(e string) string {
	e = strings.ToLower(strings.Trim(strings.TrimSpace(e), "\""))
	if i := strings.IndexAny(e, ":'`"); i > 0 {
		e = e[:i]
	}
	var b strings.Builder
	for _, c := range strings.TrimSpace(e) {
		if (c >= 'a' && c <= 'z') || (c >= '0' && c <= '9') {
			b.WriteRune(c)
		} else {
			b.WriteByte('_')
		}
		if b.Len() >= 40 {
			break
		}
	}
	if b.Len() == 0 {
		return "no_error_logged"
	}
	return b.String()
}

// the bulk endpoint answers 400 with {"data":[...per element results...]}: well formed when some element carries an errorCode
func bulkErrorBody(b []byte) bool {
	var r struct {
		Data []struct {
			ErrorCode string `json:"errorCode"`
		} `json:"data"`
	}
	if json.Unmarshal(b, &r) != nil {
		return false
	}
	for _, e := range r.Data {
		if e.ErrorCode != "" {
			return true
		}
	}
	return false
}

// ---------------------------------------------------------------- request generators
var sweepBadCursors = []string{"xxx", "!!!!", "e30=", "bnVsbA==", "W10=", base64.RawURLEncoding.EncodeToString([]byte(`{"offset":"a"}`)), base64.RawURLEncoding.EncodeToString([]byte(`{"pageSize":-1,"offset":-5}`)),
	base64.RawURLEncoding.EncodeToString([]byte(`{"pageSize":1e99}`)), base64.RawURLEncoding.EncodeToString([]byte(`{"qb":{"$foo":1},"pageSize":5,"column":"id","order":1}`)),
	base64.RawURLEncoding.EncodeToString([]byte(`{"column":"id; drop table","paginationID":"x","order":7,"pageSize":3,"bottom":1,"reverse":true}`)), base64.StdEncoding.EncodeToString([]byte(`{"pit":"yesterday"}`)), "%", "a b", strings.Repeat("A", 5000),
	// well-formed base64 of JSON values that are not a complete cursor: null, and cursors without "order"
	"bnVsbA", base64.RawURLEncoding.EncodeToString([]byte(`{"offset":1}`)), base64.RawURLEncoding.EncodeToString([]byte(`{"column":"id"}`)),
	base64.RawURLEncoding.EncodeToString([]byte(`{"offset":0,"pageSize":2,"column":"address"}`)), base64.RawURLEncoding.EncodeToString([]byte(`{"column":"id","pageSize":2,"paginationID":3,"bottom":1}`)),
	base64.RawURLEncoding.EncodeToString([]byte(`{"offset":2,"order":null,"pageSize":2}`)), base64.RawURLEncoding.EncodeToString([]byte(`true`)), base64.RawURLEncoding.EncodeToString([]byte(`"x"`))}
var sweepBadDates = []string{"yesterday", "2023-13-01T00:00:00Z", "2023-01-01", "1700000000", "2023-01-01T00:00:00", "0", "-1", "2023-01-01T00:00:00+99:00", "null"}
var sweepBadPageSizes = []string{"abc", "-1", "0", "1e3", "99999999999999999999", "1.5", " 5", "0x10"}
var sweepBadFilters = []string{`{"$foo":{"address":"a"}}`, `{"$match":1}`, `{"$match":{"no_such_field":"x"}}`, `{"$match":{"address":1}}`, `{"$gt":{"balance[USD]":"abc"}}`, `{"$and":{}}`, `{"$and":[1]}`, `{"$or":[{"$match":{}}]}`,
	`{"$match":{"metadata[":"x"}}`, `{"$match":{"balance[":1}}`, `{"$lt":{"address":5}}`, `{"$match":{"address":"a","metadata[k]":"v"}}`, `[]`, `"x"`, `1`, `{"$not":[]}`, `{"$match":{"address":"a::"}}`, `{"$exists":{"address":true}}`,
	`{"$match":{"timestamp":"yesterday"}}`, `{"$gte":{"timestamp":12}}`, `{"$match":{"id":"abc"}}`, `{"$match":{"reverted":"maybe"}}`, `{"$in":{"address":"a"}}`, `{"$match":{"first_usage":"never"}}`, `{`, `{"$match":{"address":"a"}`,
	`{"$like":{"address":1}}`, `{"$match":{"balance[USD]":1e400}}`, `{"$gt":{"balance[USD]":{}}}`, `{"$match":{"metadata":"x"}}`, `{"$gt":{"metadata[k]":1}}`, `{"$match":{"account":[]}}`, `{"$match":{"source":null}}`}
var sweepFilterMust = map[string]bool{`{"$foo":{"address":"a"}}`: true, `{"$match":1}`: true, `{"$match":{"no_such_field":"x"}}`: true, `{"$and":{}}`: true, `{"$and":[1]}`: true, `[]`: true, `"x"`: true, `1`: true, `{`: true,
	`{"$match":{"address":"a"}`: true, `{"$not":[]}`: true}
var sweepBadIDs = []string{"abc", "-1", "18446744073709551616", "99999999999999999999", "1.5", "0x1", " 1", "1e3", "9223372036854775808"}
var sweepBadAddresses = []string{"a::b", "a:", ":a", "a b", "a%2Fb", "%zz", "é", "a:b!", strings.Repeat("a", 3000)}
var sweepInvalidJSON = []string{"", "{", "[", "nul", `{"postings":`, "\x00", `{"a":1}}`, `{'a':1}`, "<xml/>", `{"postings":[{"source":"world","destination":"bob","asset":"USD","amount":1}]`, "\xff\xfe", `{"metadata":{"k":"\ud800"}}x`}
var sweepContentTypes = []string{"text/plain", "application/xml", "application/x-www-form-urlencoded", "", "application/json; charset=latin1", "multipart/form-data", "application/vnd.formance.ledger.api.v2.bulk+json-stream", "application/vnd.formance.ledger.api.v2.bulk+script-stream"}

func (s *sweep) validTx(r *Rng) *AJ {
	return ajobj("postings", ajarr(ajobj("source", ajstr("world"), "destination", ajstr(Pick(r, []string{"alice", "bob", "users:1"})), "asset", ajstr(Pick(r, []string{"USD", "EUR/2"})), "amount", jint(int64(1+r.Intn(50))))),
		"metadata", ajobj("k1", ajstr("v1")))
}
func (s *sweep) validScriptTx(r *Rng, v1form bool) *AJ {
	mon := ajobj("asset", ajstr("USD"), "amount", jint(int64(1+r.Intn(50))))
	return ajobj("script", ajobj("plain", ajstr("vars {\n account $dst\n monetary $m\n}\nsend $m (\n source = @world\n destination = $dst\n)"), "vars", ajobj("dst", ajstr("alice"), "m", mon)), "metadata", ajobj("k1", ajstr("v1")))
}

type sweepRoute struct {
	custom func(s *sweep, r *Rng) httpReq // own generator (path and body mutations specific to the route)
	name   string
	method string
	path   func(s *sweep, r *Rng) string
	body   func(s *sweep, r *Rng) *AJ
	write  bool
	list   bool   // paginated list: cursor/pageSize/filter mutations apply
	filter bool   // accepts a filter (query param / body)
	dates  string // comma separated date query parameters
	idPos  string // "id" | "address": the path has such a parameter (given through %ID%)
	query  string // valid extra query string
}

func constPath(p string) func(*sweep, *Rng) string { return func(*sweep, *Rng) string { return p } }

func sweepRoutes() []sweepRoute {
	txBody := func(s *sweep, r *Rng) *AJ {
		if r.Chance(35) {
			return s.validScriptTx(r, false)
		}
		return s.validTx(r)
	}
	metaBody := func(s *sweep, r *Rng) *AJ { return ajobj("k2", ajstr(Pick(r, genStrings))) }
	bulkBody := func(s *sweep, r *Rng) *AJ { return genBulkJ(r) }
	v2 := "/v2/l1"
	v1 := "/l1"
	return []sweepRoute{
		{name: "v2.createTransaction", method: "POST", path: constPath(v2 + "/transactions"), body: txBody, write: true},
		{name: "v2.bulk", method: "POST", path: func(s *sweep, r *Rng) string {
			if r.Bool() {
				return v2 + "/_bulk?atomic=true"
			}
			return v2 + "/_bulk"
		}, body: bulkBody, write: true},
		{name: "v2.bulk.scriptStream", custom: genScriptStream},
		{name: "v2.bulk.jsonStream", custom: genJSONStream},
		{name: "v2.revertTransaction", method: "POST", path: constPath(v2 + "/transactions/%ID%/revert"), write: true, idPos: "id"},
		{name: "v2.addTransactionMetadata", method: "POST", path: constPath(v2 + "/transactions/%ID%/metadata"), body: metaBody, write: true, idPos: "id"},
		{name: "v2.deleteTransactionMetadata", method: "DELETE", path: constPath(v2 + "/transactions/%ID%/metadata/k1"), write: true, idPos: "id"},
		{name: "v2.addAccountMetadata", method: "POST", path: constPath(v2 + "/accounts/%ID%/metadata"), body: metaBody, write: true, idPos: "address"},
		{name: "v2.deleteAccountMetadata", method: "DELETE", path: constPath(v2 + "/accounts/%ID%/metadata/k1"), write: true, idPos: "address"},
		{name: "v2.listTransactions", method: "GET", path: constPath(v2 + "/transactions"), list: true, filter: true, dates: "pit"},
		{name: "v2.countTransactions", method: "HEAD", path: constPath(v2 + "/transactions"), filter: true, dates: "pit"},
		{name: "v2.readTransaction", method: "GET", path: constPath(v2 + "/transactions/%ID%"), idPos: "id", dates: "pit"},
		{name: "v2.listAccounts", method: "GET", path: constPath(v2 + "/accounts"), list: true, filter: true, dates: "pit"},
		{name: "v2.countAccounts", method: "HEAD", path: constPath(v2 + "/accounts"), filter: true, dates: "pit"},
		{name: "v2.readAccount", method: "GET", path: constPath(v2 + "/accounts/%ID%"), idPos: "address", dates: "pit"},
		{name: "v2.listLogs", method: "GET", path: constPath(v2 + "/logs"), list: true, filter: true},
		{name: "v2.volumes", method: "GET", path: constPath(v2 + "/volumes"), list: true, filter: true, dates: "startTime,endTime"},
		{name: "v2.aggregateBalances", method: "GET", path: constPath(v2 + "/aggregate/balances"), filter: true, dates: "pit"},
		{name: "v2.ledgerInfo", method: "GET", path: constPath(v2 + "/_info")},
		{name: "v2.stats", method: "GET", path: constPath(v2 + "/stats")},
		{name: "v2.readLedger", method: "GET", path: constPath(v2)},
		{name: "v2.listLedgers", method: "GET", path: constPath("/v2"), list: true},
		{name: "v2.updateLedgerMetadata", method: "PUT", path: constPath(v2 + "/metadata"), body: metaBody},
		{name: "v2.listSchemas", method: "GET", path: constPath(v2 + "/schemas"), list: true},
		{name: "v2.readSchema", method: "GET", path: constPath(v2 + "/schemas/v9")},
		{name: "v2.insertSchema", method: "POST", path: constPath(v2 + "/schemas/vbad"), body: func(s *sweep, r *Rng) *AJ {
			return ajobj("chart", ajobj("users", ajobj("$id", ajobj())), "transactions", ajobj())
		}, write: true},
		{name: "v2.runQuery", method: "POST", path: constPath(v2 + "/queries/q1/run"), body: func(s *sweep, r *Rng) *AJ { return ajobj("vars", ajobj("a", ajstr("b"))) }, list: true},
		{name: "v2.importLogs", method: "POST", path: constPath(v2 + "/logs/import"), body: func(s *sweep, r *Rng) *AJ { return ajobj("id", jint(1)) }, write: true},
		{name: "v2.exportLogs", method: "POST", path: constPath(v2 + "/logs/export")},
		{name: "v2.createLedger", method: "POST", path: func(s *sweep, r *Rng) string { return "/v2/" + s.freshLedger() }, body: ledgerConfigBody},
		{name: "v2.createLedger.config", custom: genCreateLedger},
		{name: "v2.createLedger.existing", method: "POST", path: constPath("/v2/l1"), body: ledgerConfigBody},
		{name: "v2.ledgerName", custom: genLedgerName},
		{name: "v2.deleteLedgerMetadata", method: "DELETE", path: constPath(v2 + "/metadata/a")},
		{name: "v2.info", method: "GET", path: constPath("/v2/_info")},
		{name: "v2.deleteBucket", custom: genBucketAdmin},
		{name: "v1.info", method: "GET", path: constPath("/_info")},
		{name: "v1.ledgerName", custom: genV1LedgerName},
		{name: "v1.createTransaction", method: "POST", path: constPath(v1 + "/transactions"), body: func(s *sweep, r *Rng) *AJ {
			if r.Chance(35) {
				return s.validScriptTx(r, true)
			}
			return s.validTx(r)
		}, write: true},
		{name: "v1.revertTransaction", method: "POST", path: constPath(v1 + "/transactions/%ID%/revert"), write: true, idPos: "id"},
		{name: "v1.addTransactionMetadata", method: "POST", path: constPath(v1 + "/transactions/%ID%/metadata"), body: metaBody, write: true, idPos: "id"},
		{name: "v1.deleteTransactionMetadata", method: "DELETE", path: constPath(v1 + "/transactions/%ID%/metadata/k1"), write: true, idPos: "id"},
		{name: "v1.addAccountMetadata", method: "POST", path: constPath(v1 + "/accounts/%ID%/metadata"), body: metaBody, write: true, idPos: "address"},
		{name: "v1.deleteAccountMetadata", method: "DELETE", path: constPath(v1 + "/accounts/%ID%/metadata/k1"), write: true, idPos: "address"},
		{name: "v1.listTransactions", method: "GET", path: constPath(v1 + "/transactions"), list: true, dates: "startTime,endTime,start_time,end_time", query: "account=alice"},
		{name: "v1.countTransactions", method: "HEAD", path: constPath(v1 + "/transactions"), dates: "startTime,endTime"},
		{name: "v1.readTransaction", method: "GET", path: constPath(v1 + "/transactions/%ID%"), idPos: "id"},
		{name: "v1.listAccounts", method: "GET", path: constPath(v1 + "/accounts"), list: true, query: "address=alice"},
		{name: "v1.countAccounts", method: "HEAD", path: constPath(v1 + "/accounts")},
		{name: "v1.readAccount", method: "GET", path: constPath(v1 + "/accounts/%ID%"), idPos: "address"},
		{name: "v1.balances", method: "GET", path: constPath(v1 + "/balances"), list: true, query: "address=alice"},
		{name: "v1.aggregateBalances", method: "GET", path: constPath(v1 + "/aggregate/balances"), query: "address=alice"},
		{name: "v1.logs", method: "GET", path: constPath(v1 + "/logs"), list: true, dates: "start_time,end_time"},
		{name: "v1.stats", method: "GET", path: constPath(v1 + "/stats")},
		{name: "v1.ledgerInfo", method: "GET", path: constPath(v1 + "/_info")},
	}
}

// genScriptStream: POST /_bulk with the script-stream content type: "//script [ik=KEY]" header lines, script text, "//end".
// The parser runs in a goroutine of the handler (a panic there takes the process down), so the body is first given to
// bulking.ParseTextStream under recover: a panic is reported here and the request is not sent.
var sweepScriptStreams = []string{
	"//script\nsend [USD 1] (\n source = @world\n destination = @alice\n)\n//end\n",
	"//script ik=k1\nsend [USD 1] (\n source = @world\n destination = @alice\n)\n//end\n//script ik=k2\nsend [USD 2] (\n source = @world\n destination = @bob\n)\n//end\n",
	"//script ik\nsend [USD 1] (\n source = @world\n destination = @alice\n)\n//end\n",
	"//script\n//end\n", "//script\n", "//script", "//script ik=\n//end", "//script ik=a,ik=b\nx\n//end", "//script foo=bar\nx\n//end", "//script ,\nx\n//end", "//script =\nx\n//end",
	"//script ik=a=b\nsend [USD 1] (\n source = @world\n destination = @alice\n)\n//end", "hello", "//end", "\n\n", "", "//script ik=k3\nsend [USD 1] (\n source = @world\n destination = @alice\n)\n",
	"//scriptx\n//end", "//script\n\n//end\n//script\n//end",
}

func textStreamPanics(body string) (msg string) {
	defer func() {
		if r := recover(); r != nil {
			msg = fmt.Sprint(r)
		}
	}()
	sc := bufio.NewScanner(strings.NewReader(body))
	for i := 0; i < 100; i++ {
		el, err := bulking.ParseTextStream(sc)
		if err != nil || el == nil {
			return ""
		}
	}
	return ""
}

func jsonEnvelope(b []byte) bool {
	var env struct {
		ErrorCode *string `json:"errorCode"`
	}
	return json.Unmarshal(b, &env) == nil && env.ErrorCode != nil && *env.ErrorCode != ""
}

// genJSONStream: POST /_bulk with the json-stream content type: concatenated JSON elements
func genJSONStream(s *sweep, r *Rng) httpReq {
	el := func(dst string, amt int) string {
		return fmt.Sprintf(`{"action":"CREATE_TRANSACTION","data":{"postings":[{"source":"world","destination":%q,"asset":"USD","amount":%d}]}}`, dst, amt)
	}
	good := []string{el("alice", 1) + "\n" + el("bob", 2) + "\n", el("alice", 3), "", "\n"}
	bad := []string{el("alice", 1) + "\n{", el("alice", 1) + "\nnul", "[" + el("alice", 1) + "]", `{"action":5}`, el("alice", 1) + `{"action":"CREATE_TRANSACTION","data":"x"}`, "hello", `"x"`}
	q := httpReq{Method: "POST", Path: "/v2/l1/_bulk", Hdr: map[string]string{"Content-Type": "application/vnd.formance.ledger.api.v2.bulk+json-stream"}, Class: "json_stream", Write: true}
	// the malformed streams are enumerated (each one with and without atomic=true) rather than drawn, so that a quick run sees them all
	k := s.njs
	s.njs++
	r.Next()
	if k%3 == 2 {
		q.Body = good[(k/3)%len(good)]
	} else {
		i := (k - k/3) % (2 * len(bad))
		q.Body, q.MustReject, q.Class = bad[i/2], true, "json_stream_malformed"
		if i%2 == 1 {
			q.Path += "?atomic=true"
		}
	}
	return q
}

func genScriptStream(s *sweep, r *Rng) httpReq {
	body := Pick(r, sweepScriptStreams)
	q := httpReq{Method: "POST", Path: "/v2/l1/_bulk", Body: body, Hdr: map[string]string{"Content-Type": "application/vnd.formance.ledger.api.v2.bulk+script-stream"}, Class: "script_stream", Write: true}
	if r.Chance(30) {
		q.Path += "?atomic=true"
	}
	// a header the parser rejects makes the whole stream invalid input
	for _, bad := range []string{"//script ik\n", "ik=a,ik=b", "foo=bar", "//script ,", "//script =", "hello", "//scriptx"} {
		if strings.Contains(body, bad) {
			q.MustReject = true
			q.Class = "script_stream_malformed"
		}
	}
	if body == "//end" {
		q.MustReject, q.Class = true, "script_stream_malformed"
	}
	if m := textStreamPanics(body); m != "" {
		s.out.Violation("C38", q.sx(), "bulking.ParseTextStream panics on a client body (in the handler it runs in a goroutine without recover: the process dies): "+m+" [text-stream-parser-panic]")
		q.Body = sweepScriptStreams[0] // keep the harness alive: send a valid stream instead
		q.Class = "script_stream_replaced"
	}
	return q
}

func (s *sweep) gen(r *Rng, rt sweepRoute) httpReq {
	if rt.custom != nil {
		q := rt.custom(s, r)
		q.Route = rt.name
		if q.Hdr == nil {
			q.Hdr = map[string]string{}
		}
		return q
	}
	q := httpReq{Method: rt.method, Route: rt.name, Write: rt.write, Hdr: map[string]string{}}
	path := rt.path(s, r)
	id := "1"
	if rt.idPos == "address" {
		id = "alice"
	}
	query := url.Values{}
	if rt.query != "" {
		qs, _ := url.ParseQuery(rt.query)
		query = qs
	}
	var body *AJ
	if rt.body != nil {
		body = rt.body(s, r)
	}
	rawBody := ""
	var classes []string
	if rt.body != nil {
		classes = append(classes, "body_type_confusion", "body_type_confusion", "body_boundary_string", "body_huge_number", "body_drop_field", "body_null", "body_root", "body_invalid_json", "wrong_content_type")
	}
	if rt.name == "v1.createTransaction" {
		classes = append(classes, "v1_vars_type", "v1_vars_type")
	}
	if rt.name == "v2.createTransaction" || rt.name == "v1.createTransaction" {
		classes = append(classes, "invalid_posting", "invalid_posting")
	}
	if rt.list {
		classes = append(classes, "bad_cursor", "bad_cursor", "bad_pagesize")
	}
	if rt.filter {
		classes = append(classes, "bad_filter_body", "bad_filter_query", "bad_filter_body")
	}
	if rt.dates != "" {
		classes = append(classes, "bad_date", "bad_date")
	}
	if rt.idPos != "" {
		classes = append(classes, "bad_path_param", "bad_path_param")
	}
	classes = append(classes, "bad_bool_param", "unknown_param", "valid")
	q.Class = Pick(r, classes)
	switch q.Class {
	case "body_type_confusion":
		mutate(r, body, "type_confusion")
	case "body_boundary_string":
		if !mutate(r, body, "boundary_string") {
			mutate(r, body, "type_confusion")
		}
	case "body_huge_number":
		mutate(r, body, "huge_number")
	case "body_drop_field":
		mutate(r, body, "drop_field")
	case "body_null":
		mutate(r, body, "null_everything")
	case "body_root":
		mutate(r, body, "root_confusion")
	case "body_invalid_json":
		rawBody = Pick(r, sweepInvalidJSON)
		body = nil
		q.MustReject = rt.name != "v2.exportLogs" && rt.name != "v2.revertTransaction"
	case "wrong_content_type":
		q.Hdr["Content-Type"] = Pick(r, sweepContentTypes)
	case "v1_vars_type":
		body = s.validScriptTx(r, true)
		body.get("script").get("vars").O[1].V = Pick(r, []*AJ{jint(1), ajbool(true), ajarr(jint(1)), jdec(big.NewInt(15), -1), jbig(pow(2, 64, 1))})
		q.MustReject = true
	case "invalid_posting":
		body = s.validTx(r)
		p := body.get("postings").A[0]
		switch r.Intn(5) {
		case 0:
			p.O[0].V = ajstr(Pick(r, sweepBadAddresses[:8]))
		case 1:
			p.O[1].V = ajstr(Pick(r, sweepBadAddresses[:8]))
		case 2:
			p.O[2].V = ajstr(Pick(r, []string{"usd", "", "USD/", "1USD", "USD/1234567", "U S"}))
		case 3:
			p.O[3].V = jint(-5)
		default:
			p.O[3].V = ajstr("12")
		}
		q.MustReject = true
	case "bad_cursor":
		i := r.Intn(len(sweepBadCursors))
		query.Set("cursor", sweepBadCursors[i])
		q.MustReject = i <= 1 || i == 4 || i == 5 || i == 7 || i >= 11 // not base64 / not a JSON object / wrong field types
		if q.MustReject {
			q.Class = "bad_cursor_syntax"
		} else {
			q.Class = "bad_cursor_fields"
		}
	case "bad_pagesize":
		query.Set("pageSize", Pick(r, sweepBadPageSizes))
		if strings.HasPrefix(rt.name, "v1.") && r.Bool() {
			query.Set("page_size", Pick(r, sweepBadPageSizes))
		}
	case "bad_filter_body":
		i := r.Intn(len(sweepBadFilters))
		rawBody = sweepBadFilters[i]
		body = nil
		q.MustReject = sweepFilterMust[sweepBadFilters[i]]
	case "bad_filter_query":
		i := r.Intn(len(sweepBadFilters))
		query.Set("query", sweepBadFilters[i])
		q.MustReject = sweepFilterMust[sweepBadFilters[i]]
	case "bad_date":
		ds := strings.Split(rt.dates, ",")
		query.Set(Pick(r, ds), Pick(r, sweepBadDates))
		q.MustReject = true
	case "bad_path_param":
		if rt.idPos == "id" {
			id = Pick(r, sweepBadIDs)
			q.MustReject = id != "9223372036854775808"
		} else {
			id = Pick(r, sweepBadAddresses)
		}
	case "bad_bool_param":
		query.Set(Pick(r, []string{"dryRun", "force", "atEffectiveDate", "reverse", "preview", "disableChecks", "continueOnFailure", "atomic", "parallel", "includeDeleted", "insertionDate"}), Pick(r, []string{"maybe", "2", "", "TRUE", "yes"}))
	case "unknown_param":
		k := Pick(r, []string{"zz", "expand", "sort", "order", "groupBy", "after", "balance", "balanceOperator", "schemaVersion"})
		query.Set(k, Pick(r, []string{"x", "-1", "volumes,zz", "id:asc:extra", "99999999999999999999", "", "e"}))
		q.Class = "param_" + k
	}
	if body != nil {
		rawBody = body.Text()
	}
	q.Body = rawBody
	path = strings.ReplaceAll(path, "%ID%", url.PathEscape(id))
	if enc := query.Encode(); enc != "" {
		if strings.Contains(path, "?") {
			path += "&" + enc
		} else {
			path += "?" + enc
		}
	}
	q.Path = path
	if rt.write && r.Chance(10) {
		q.Hdr["Idempotency-Key"] = Pick(r, []string{"ik-sweep-1", "ik-sweep-2"})
	}
	return q
}


// ---------------------------------------------------------------- ledger creation: name (path) and configuration (body)
func (s *sweep) freshLedger() string {
	s.nledger++
	return fmt.Sprintf("nl%d", s.nledger)
}
func ledgerConfigBody(s *sweep, r *Rng) *AJ {
	return ajobj("bucket", ajstr("_default"), "metadata", ajobj("a", ajstr("b")), "features", ajobj("HASH_LOGS", ajstr("DISABLED"), "ACCOUNT_METADATA_HISTORY", ajstr("SYNC")))
}

// bucket names: only names the bucket regexp rejects, or buckets the stand-in database knows (a well-formed unknown bucket would need
// its schema migrated, which pgsem only does for the buckets given at boot: not a property of the code under test)
var sweepBadBuckets = []string{"a b", "a/b", "é", "a.b", "a:b", "b2 ", "\x00", "a\nb", "$(x)", "a;drop", strings.Repeat("b", 64), strings.Repeat("b", 3000), "\"", "%"}
var sweepOKBuckets = []string{"_default", "b2", ""}
var sweepBadLedgerNames = []string{"a b", "a.b", "é", "a:b", "a$b", strings.Repeat("n", 64), strings.Repeat("n", 3000), "_", "_info", "_healthcheck", "%zz", "a%2Fb", "a\"b", "..", "a;b"}
var sweepFeatureNames = []string{"FOO", "", "_", "__", "_HASH_LOGS", "HASH_LOGS_", "HASH__LOGS", "hash_logs", "HASH LOGS", "HASH_LOGS\x00", "é", strings.Repeat("F", 300), "MOVES_HISTORY_", "_MOVES_HISTORY", "A_", "_A"}
var sweepFeatureValues = []string{"MAYBE", "", "on", "sync", "ON ", "1", "true", strings.Repeat("V", 300)}
var sweepFeatures = []string{"HASH_LOGS", "MOVES_HISTORY", "MOVES_HISTORY_POST_COMMIT_EFFECTIVE_VOLUMES", "ACCOUNT_METADATA_HISTORY", "TRANSACTION_METADATA_HISTORY"}

func genCreateLedger(s *sweep, r *Rng) httpReq {
	q := httpReq{Method: "POST", Path: "/v2/" + s.freshLedger(), Hdr: map[string]string{}}
	body := ledgerConfigBody(s, r)
	feats := body.get("features")
	switch k := r.Intn(12); k {
	case 0:
		q.Class = "ledger_bucket_invalid"
		body.O[0].V = ajstr(Pick(r, sweepBadBuckets))
		q.MustReject = true
	case 1:
		q.Class = "ledger_bucket_known"
		body.O[0].V = ajstr(Pick(r, sweepOKBuckets))
	case 2:
		q.Class = "ledger_bucket_type"
		body.O[0].V = otherType(r, 's')
		q.MustReject = body.O[0].V.K != 'z'
	case 3:
		q.Class = "ledger_metadata_type"
		body.O[1].V = Pick(r, []*AJ{ajobj("a", jint(1)), ajobj("a", ajobj()), ajobj("a", ajarr()), ajobj("a", ajbool(true)), ajarr(), ajstr("x"), jint(3)})
		q.MustReject = true
	case 4, 5:
		q.Class = "ledger_feature_name"
		feats.O = append(feats.O, aJKV{Pick(r, sweepFeatureNames), ajstr(Pick(r, []string{"SYNC", "DISABLED", "ON", ""}))})
		q.MustReject = true
	case 6:
		q.Class = "ledger_feature_name_only"
		body.O[2].V = ajobj(Pick(r, sweepFeatureNames), ajstr("SYNC"))
		q.MustReject = true
	case 7:
		q.Class = "ledger_feature_value"
		feats.O[0].V = ajstr(Pick(r, sweepFeatureValues))
		q.MustReject = true
	case 8:
		q.Class = "ledger_feature_value_type"
		feats.O[0].V = otherType(r, 's')
		q.MustReject = feats.O[0].V.K != 'z'
	case 9:
		q.Class = "ledger_features_type"
		body.O[2].V = Pick(r, []*AJ{ajarr(), ajstr("HASH_LOGS"), jint(1), ajbool(true), ajarr(ajstr("HASH_LOGS"))})
		q.MustReject = true
	case 10:
		q.Class = "ledger_features_valid"
		body.O[2].V = ajobj(Pick(r, sweepFeatures[3:]), ajstr(Pick(r, []string{"SYNC", "DISABLED"})))
	default:
		q.Class = "ledger_config_unknown_field"
		body.O = append(body.O, aJKV{"zzUnknown", otherType(r, 0)})
	}
	q.Body = body.Text()
	return q
}

// the ledger NAME in the path, on the routes that take it before any ledger exists
func genLedgerName(s *sweep, r *Rng) httpReq {
	name := Pick(r, sweepBadLedgerNames)
	q := httpReq{Hdr: map[string]string{}, Class: "ledger_name_invalid"}
	esc := url.PathEscape(name)
	switch r.Intn(5) {
	case 0, 1:
		q.Method, q.Path, q.Body = "POST", "/v2/"+esc, ledgerConfigBody(s, r).Text()
		q.MustReject = true
	case 2:
		q.Method, q.Path = "GET", "/v2/"+esc
		q.MustReject = name != "_info" // GET /v2/_info is the server-info route, not a ledger read
	case 3:
		q.Method, q.Path, q.Body = "PUT", "/v2/"+esc+"/metadata", `{"a":"b"}`
		// updating the metadata of a ledger that does not exist is answered 204 (an UPDATE of zero rows): no effect, not counted as accepted-invalid
	default:
		q.Method, q.Path = "GET", "/v2/"+esc+"/transactions"
		q.MustReject = true
	}
	return q
}
func genV1LedgerName(s *sweep, r *Rng) httpReq {
	name := Pick(r, sweepBadLedgerNames)
	q := httpReq{Hdr: map[string]string{}, Class: "ledger_name_invalid", Method: "GET", MustReject: true}
	q.Path = "/" + url.PathEscape(name) + Pick(r, []string{"/stats", "/_info", "/transactions", "/accounts"})
	return q
}
func genBucketAdmin(s *sweep, r *Rng) httpReq {
	// never the buckets that exist: deleting them would (legitimately) take the swept ledger away
	name := Pick(r, append(append([]string{}, sweepBadBuckets...), "nosuchbucket", "B2"))
	q := httpReq{Hdr: map[string]string{}, Class: "bucket_admin_name"} // deleting / restoring a bucket that does not exist is a no-op (204)
	if r.Bool() {
		q.Method, q.Path = "DELETE", "/v2/_/buckets/"+url.PathEscape(name)
	} else {
		q.Method, q.Path = "POST", "/v2/_/buckets/"+url.PathEscape(name)+"/restore"
	}
	return q
}

// systematic pass: for every route with a body, every field of its valid body gets one type confusion, one boundary string and
// (object members) one boundary key, so that each route x body-field pair is mutated at least once whatever the random stream does
var sweepBoundaryKeys = []string{"", "_", "_X", "X_", "A__B", "é", " ", strings.Repeat("K", 300)}

func (s *sweep) systematic(routes []sweepRoute) []httpReq {
	var out []httpReq
	r := NewRng(7)
	for _, rt := range routes {
		if rt.body == nil || rt.custom != nil {
			continue
		}
		base := rt.body(s, r)
		var slots []jslot
		collectSlots(base, &slots)
		for i := range slots {
			for _, class := range []string{"field_type_confusion", "field_boundary_string", "field_boundary_key"} {
				b := base.clone()
				var ss []jslot
				collectSlots(b, &ss)
				sl := ss[i]
				switch class {
				case "field_type_confusion":
					sl.set(otherType(r, sl.get().K))
				case "field_boundary_string":
					switch sl.key {
					case "bucket":
						sl.set(ajstr(Pick(r, sweepBadBuckets)))
					case "timestamp":
						sl.set(ajstr(Pick(r, apiBadTimes)))
					default:
						sl.set(ajstr(Pick(r, apiBoundaryStrings)))
					}
				default:
					if sl.parent.K != 'o' {
						continue
					}
					sl.parent.O[sl.idx].K = Pick(r, sweepBoundaryKeys)
				}
				q := httpReq{Method: rt.method, Route: rt.name, Write: rt.write, Hdr: map[string]string{}, Class: class, Body: b.Text()}
				q.Path = strings.ReplaceAll(rt.path(s, r), "%ID%", map[string]string{"address": "alice", "id": "1", "": ""}[rt.idPos])
				out = append(out, q)
			}
		}
	}
	// ledger creation: every boundary feature name / value, bucket and ledger name once (keys and path segments are not body fields)
	add := func(class, path string, body *AJ, must bool) {
		out = append(out, httpReq{Method: "POST", Route: "v2.createLedger.config", Hdr: map[string]string{}, Class: class, Path: path, Body: body.Text(), MustReject: must})
	}
	for _, n := range sweepFeatureNames {
		b := ledgerConfigBody(s, r)
		b.get("features").O = append(b.get("features").O, aJKV{n, ajstr("SYNC")})
		add("ledger_feature_name", "/v2/"+s.freshLedger(), b, true)
		add("ledger_feature_name_only", "/v2/"+s.freshLedger(), ajobj("features", ajobj(n, ajstr("DISABLED"))), true)
	}
	for _, v := range sweepFeatureValues {
		b := ledgerConfigBody(s, r)
		b.get("features").O[0].V = ajstr(v)
		add("ledger_feature_value", "/v2/"+s.freshLedger(), b, true)
	}
	for _, bk := range sweepBadBuckets {
		b := ledgerConfigBody(s, r)
		b.O[0].V = ajstr(bk)
		add("ledger_bucket_invalid", "/v2/"+s.freshLedger(), b, true)
	}
	for _, n := range sweepBadLedgerNames {
		add("ledger_name_invalid", "/v2/"+url.PathEscape(n), ledgerConfigBody(s, r), true)
		out = append(out, httpReq{Method: "GET", Route: "v1.ledgerName", Hdr: map[string]string{}, Class: "ledger_name_invalid", Path: "/" + url.PathEscape(n) + "/stats", MustReject: true})
	}
	return out
}

// ---------------------------------------------------------------- C36: amounts through every path
type amtPath struct {
	name string
	v1   bool
	body func(n *big.Int, dst string) *AJ
}

const amtScript = "vars {\n account $dst\n monetary $m\n}\nsend $m (\n source = @world\n destination = $dst\n)"

func amtPaths() []amtPath {
	post := func(n *big.Int, dst string) *AJ {
		return ajobj("postings", ajarr(ajobj("source", ajstr("world"), "destination", ajstr(dst), "asset", ajstr("USD"), "amount", jbig(n))))
	}
	return []amtPath{
		{name: "v2.postings", body: post},
		{name: "v1.postings", v1: true, body: post},
		{name: "v2.script.var-string", body: func(n *big.Int, dst string) *AJ {
			return ajobj("script", ajobj("plain", ajstr(amtScript), "vars", ajobj("dst", ajstr(dst), "m", ajstr("USD "+n.String()))))
		}},
		{name: "v2.script.monetary-amount-string", body: func(n *big.Int, dst string) *AJ {
			return ajobj("script", ajobj("plain", ajstr(amtScript), "vars", ajobj("dst", ajstr(dst), "m", ajobj("asset", ajstr("USD"), "amount", ajstr(n.String())))))
		}},
		{name: "v2.script.monetary-amount-number", body: func(n *big.Int, dst string) *AJ {
			return ajobj("script", ajobj("plain", ajstr(amtScript), "vars", ajobj("dst", ajstr(dst), "m", ajobj("asset", ajstr("USD"), "amount", jbig(n)))))
		}},
		// the same integer in the other spellings JSON allows for it: "<n>.0" and mantissa/exponent
		{name: "v2.script.monetary-amount-number-dot0", body: func(n *big.Int, dst string) *AJ {
			return ajobj("script", ajobj("plain", ajstr(amtScript), "vars", ajobj("dst", ajstr(dst), "m", ajobj("asset", ajstr("USD"), "amount", jdec(new(big.Int).Mul(n, big.NewInt(10)), -1)))))
		}},
		{name: "v2.script.monetary-amount-number-exp", body: func(n *big.Int, dst string) *AJ {
			m, k := new(big.Int).Set(n), 0
			ten := big.NewInt(10)
			for m.Sign() != 0 && new(big.Int).Mod(m, ten).Sign() == 0 {
				m.Div(m, ten)
				k++
			}
			return ajobj("script", ajobj("plain", ajstr(amtScript), "vars", ajobj("dst", ajstr(dst), "m", ajobj("asset", ajstr("USD"), "amount", jdec(m, k)))))
		}},
		{name: "v1.script.var-string", v1: true, body: func(n *big.Int, dst string) *AJ {
			return ajobj("script", ajobj("plain", ajstr(amtScript), "vars", ajobj("dst", ajstr(dst), "m", ajstr("USD "+n.String()))))
		}},
		{name: "v1.script.monetary-amount-number", v1: true, body: func(n *big.Int, dst string) *AJ {
			return ajobj("script", ajobj("plain", ajstr(amtScript), "vars", ajobj("dst", ajstr(dst), "m", ajobj("asset", ajstr("USD"), "amount", jbig(n)))))
		}},
		{name: "v2.bulk.postings", body: func(n *big.Int, dst string) *AJ {
			return ajarr(ajobj("action", ajstr("CREATE_TRANSACTION"), "data", post(n, dst)))
		}},
	}
}

// jsonAt walks decoded JSON (UseNumber) along a path of keys / indices
func jsonAt(v any, path ...any) any {
	for _, p := range path {
		switch k := p.(type) {
		case string:
			m, ok := v.(map[string]any)
			if !ok {
				return nil
			}
			v = m[k]
		case int:
			a, ok := v.([]any)
			if !ok || k >= len(a) {
				return nil
			}
			v = a[k]
		}
	}
	return v
}
func decodeNum(b []byte) any {
	dec := json.NewDecoder(bytes.NewReader(b))
	dec.UseNumber()
	var v any
	if dec.Decode(&v) != nil {
		return nil
	}
	return v
}

// amountText: the digits of an amount in a response and whether it was a JSON string
func amountText(v any) (string, bool, bool) {
	switch x := v.(type) {
	case json.Number:
		return string(x), false, true
	case string:
		return x, true, true
	}
	return fmt.Sprint(v), false, false
}

type amtCase struct {
	path string
	amt  *big.Int
}

func (s *sweep) amounts(n int, replay []amtCase) {
	o := s.out
	r := s.r
	must(s.st.Sys.CreateLedger(s.ctx, "amt", ledger.Configuration{Bucket: "_default", Features: allOn.set()}))
	paths := amtPaths()
	lattice := []*big.Int{big.NewInt(0), big.NewInt(1), pow(2, 53, -1), pow(2, 53, 0), pow(2, 53, 1), pow(2, 63, -1), pow(2, 63, 0), pow(2, 63, 1), pow(2, 64, -1), pow(2, 64, 0), pow(2, 64, 1), pow(10, 30, 0)}
	type placed struct {
		dst string
		n   *big.Int
	}
	var all []placed
	idx := 0
	total := new(big.Int)
	for o.Stats["cases"] < n {
		var amt *big.Int
		if replay != nil {
			if idx >= len(replay) {
				return
			}
			amt = replay[idx].amt
		} else if idx < len(lattice)*len(paths) {
			amt = lattice[idx/len(paths)]
		} else {
			amt = r.BigAmount()
			if r.Chance(30) { // random 200-digit amounts
				amt = new(big.Int).Exp(big.NewInt(10), big.NewInt(int64(150+r.Intn(60))), nil)
				amt.Add(amt, new(big.Int).SetUint64(r.Next()))
			}
		}
		p := paths[idx%len(paths)]
		if replay != nil {
			for _, c := range paths {
				if c.name == replay[idx].path {
					p = c
				}
			}
		}
		dst := fmt.Sprintf("amt:%d", idx)
		idx++
		cs := L("amount", Q(p.name), amt.String())
		viol := func(what string, exp, got string) {
			tag := "[amount-readback]"
			o.Violation("C36", cs, fmt.Sprintf("amount %s posted through %s: %s expected %s got %s %s", amt, p.name, what, exp, got, tag))
		}
		prefix := "/v2/amt"
		if p.v1 {
			prefix = "/amt"
		}
		url_ := prefix + "/transactions"
		if strings.HasSuffix(p.name, "bulk.postings") {
			url_ = prefix + "/_bulk"
		}
		resp := s.do(httpReq{Method: "POST", Path: url_, Body: p.body(amt, dst).Text()})
		o.Stats["cases"]++
		o.Stats["amount_path_"+p.name]++
		if amt.BitLen() > 64 {
			o.Stats["amount_above_2^64"]++
		}
		o.Case(cs, L("status", fmt.Sprint(resp.Code)))
		if resp.Code/100 != 2 {
			if amt.Sign() == 0 && resp.Code == 400 {
				o.Stats["zero_amount_rejected"]++ // a script sending 0 has no postings: NO_POSTINGS is the documented answer
				continue
			}
			viol("POST status", "2xx", fmt.Sprintf("%d %s", resp.Code, short(resp.Body)))
			continue
		}
		o.Stats["distinct_nontrivial"]++
		v := decodeNum(resp.Body)
		var got any
		switch {
		case strings.HasSuffix(p.name, "bulk.postings"):
			got = jsonAt(v, "data", 0, "data", "postings", 0, "amount")
		case p.v1:
			got = jsonAt(v, "data", 0, "postings", 0, "amount")
		default:
			got = jsonAt(v, "data", "postings", 0, "amount")
		}
		if t, _, _ := amountText(got); t != amt.String() {
			viol("amount in the POST response", amt.String(), t)
			if x, ok := new(big.Int).SetString(t, 10); ok {
				total.Add(total, x) // what was actually committed
			}
			continue
		}
		all = append(all, placed{dst, amt})
		total.Add(total, amt)
		// read back through every read API, with and without Formance-Bigint-As-String
		for _, asString := range []bool{false, true} {
			hdr := map[string]string{}
			if asString {
				hdr["Formance-Bigint-As-String"] = "true"
			}
			get := func(path string, body string) any {
				resp := s.do(httpReq{Method: "GET", Path: path, Hdr: hdr, Body: body})
				o.Stats["amount_reads"]++
				if resp.Code != 200 {
					viol("GET "+path, "200", fmt.Sprintf("%d %s", resp.Code, short(resp.Body)))
					return nil
				}
				return decodeNum(resp.Body)
			}
			expect := func(what string, got any, want *big.Int, honoursHeader bool) {
				t, isStr, ok := amountText(got)
				if !ok || t != want.String() {
					viol(what, want.String(), t)
				} else if honoursHeader && isStr != asString {
					viol(what+" JSON form", fmt.Sprintf("string=%v", asString), fmt.Sprintf("string=%v", isStr))
				}
			}
			sfx := fmt.Sprintf(" (bigint-as-string=%v)", asString)
			acc := get("/v2/amt/accounts/"+url.PathEscape(dst)+"?expand=volumes", "")
			expect("v2 account volumes.USD.input"+sfx, jsonAt(acc, "data", "volumes", "USD", "input"), amt, true)
			expect("v2 account volumes.USD.balance"+sfx, jsonAt(acc, "data", "volumes", "USD", "balance"), amt, true)
			filt := `{"$match":{"address":"` + dst + `"}}`
			vols := get("/v2/amt/volumes", filt)
			expect("v2 volumes input"+sfx, jsonAt(vols, "cursor", "data", 0, "input"), amt, true)
			expect("v2 volumes balance"+sfx, jsonAt(vols, "cursor", "data", 0, "balance"), amt, true)
			agg := get("/v2/amt/aggregate/balances", filt)
			expect("v2 aggregated balance"+sfx, jsonAt(agg, "data", "USD"), amt, true)
			txs := get("/v2/amt/transactions?expand=volumes", `{"$match":{"destination":"`+dst+`"}}`)
			expect("v2 listed transaction amount"+sfx, jsonAt(txs, "cursor", "data", 0, "postings", 0, "amount"), amt, true)
			expect("v2 listed transaction postCommitVolumes"+sfx, jsonAt(txs, "cursor", "data", 0, "postCommitVolumes", dst, "USD", "input"), amt, true)
			if !asString {
				a1 := get("/amt/accounts/"+url.PathEscape(dst), "")
				expect("v1 account balances.USD", jsonAt(a1, "data", "balances", "USD"), amt, false)
				expect("v1 account volumes.USD.input", jsonAt(a1, "data", "volumes", "USD", "input"), amt, false)
				b1 := get("/amt/balances?address="+url.QueryEscape(dst), "")
				expect("v1 balances", jsonAt(b1, "cursor", "data", 0, dst, "USD"), amt, false)
				g1 := get("/amt/aggregate/balances?address="+url.QueryEscape(dst), "")
				expect("v1 aggregated balance", jsonAt(g1, "data", "USD"), amt, false)
				t1 := get("/amt/transactions?destination="+url.QueryEscape(dst), "")
				expect("v1 listed transaction amount", jsonAt(t1, "cursor", "data", 0, "postings", 0, "amount"), amt, false)
			}
		}
		// the world account carries the sum of everything
		w := decodeNum(s.do(httpReq{Method: "GET", Path: "/v2/amt/accounts/world?expand=volumes"}).Body)
		if t, _, _ := amountText(jsonAt(w, "data", "volumes", "USD", "output")); t != total.String() {
			viol("world output (sum of all amounts)", total.String(), t)
		}
		// balance filters with huge bounds: balance[USD] > n-1 selects the account, balance[USD] > n does not, < n+1 does, < n does not
		if amt.Sign() > 0 {
			sel := func(op string, bound *big.Int) (bool, bool) {
				f := fmt.Sprintf(`{"$and":[{"$match":{"address":"%s"}},{"%s":{"balance[USD]":%s}}]}`, dst, op, bound)
				resp := s.do(httpReq{Method: "GET", Path: "/v2/amt/accounts", Body: f})
				o.Stats["amount_filter_queries"]++
				if resp.Code != 200 {
					viol("balance filter "+op+" "+bound.String(), "200", fmt.Sprintf("%d %s", resp.Code, short(resp.Body)))
					return false, false
				}
				d, _ := jsonAt(decodeNum(resp.Body), "cursor", "data").([]any)
				return len(d) == 1, true
			}
			one := big.NewInt(1)
			for _, c := range []struct {
				op    string
				bound *big.Int
				want  bool
			}{{"$gt", new(big.Int).Sub(amt, one), true}, {"$gt", amt, false}, {"$lt", new(big.Int).Add(amt, one), true}, {"$lt", amt, false}, {"$gte", amt, true}, {"$lte", amt, true}, {"$match", amt, true}} {
				if got, ok := sel(c.op, c.bound); ok && got != c.want {
					o.Violation("C36", cs, fmt.Sprintf("balance filter %s %s on an account whose balance is %s selected=%v, expected %v [balance-filter]", c.op, c.bound, amt, got, c.want))
				}
			}
		}
	}
}

// ---------------------------------------------------------------- command
func cmdHTTPSweep(args []string) int {
	f := ParseFlags(args)
	out := NewOut(f.Out)
	defer out.Close()
	st := NewStack(StackOpts{Buckets: []string{"_default", "b2"}})
	s := &sweep{st: st, out: out, r: NewRng(f.Seed), ctx: context.Background(), ledger: "l1"}
	s.router = api.NewRouter(st.Sys, jwt.NewNoAuth(), nil, "verif", false, api.WithBulkerFactory(bulking.NewDefaultBulkerFactory()))
	if f.Extra["focus"] == "amounts" {
		var rp []amtCase
		if f.Replay != "" {
			rp = []amtCase{}
			for _, line := range ReadLines(f.Replay) {
				sx, err := ParseSx(line)
				must(err)
				a, _ := new(big.Int).SetString(sx.List[2].Atom, 10)
				rp = append(rp, amtCase{sx.List[1].Atom, a})
			}
			f.N = len(rp)
		}
		s.amounts(f.N, rp)
		return 0
	}
	must(st.Sys.CreateLedger(s.ctx, "l1", ledger.Configuration{Bucket: "_default", Features: allOn.set()}))
	ctrl, err := st.Sys.GetLedgerController(s.ctx, "l1")
	must(err)
	s.ctrl = ctrl
	// history: a few committed writes through the API itself
	hr := NewRng(f.Seed + 77)
	for i := 0; i < 6; i++ {
		b := s.validTx(hr)
		if i%3 == 2 {
			b = s.validScriptTx(hr, false)
		}
		resp := s.do(httpReq{Method: "POST", Path: "/v2/l1/transactions", Body: b.Text()})
		if resp.Code != 200 {
			panic(fmt.Sprintf("history transaction %d: %d %s", i, resp.Code, resp.Body))
		}
	}
	if resp := s.do(httpReq{Method: "POST", Path: "/v2/l1/accounts/alice/metadata", Body: `{"role":"user"}`}); resp.Code/100 != 2 {
		panic(fmt.Sprintf("history metadata: %d %s", resp.Code, resp.Body))
	}
	s.cur = s.snapshot()
	routes := sweepRoutes()
	fixed := []httpReq{
		{Method: "POST", Path: "/l1/transactions", Body: `{"script":{"plain":"send [USD 1] (source = @world destination = @bob)","vars":{"x":1}}}`, Class: "v1_vars_type", Route: "v1.createTransaction", Write: true, MustReject: true},
		{Method: "POST", Path: "/v2/l1/logs/import", Body: `{"id":`, Class: "body_invalid_json", Route: "v2.importLogs", Write: true, MustReject: true},
	}
	fixed = append(fixed, s.systematic(routes)...)
	for _, rt := range routes {
		out.Stats["route_"+rt.name] += 0 // a route that is never mutated shows up with 0
		out.Stats["route_mutated_"+rt.name] += 0
	}
	// the deterministic request stream of this seed: the confirmed witnesses and the systematic field pass first, then generated requests
	seq := 0
	next := func() (httpReq, string) {
		var q httpReq
		name := ""
		if seq < len(fixed) {
			q = fixed[seq]
			q.Hdr = map[string]string{}
			name = q.Route
		} else {
			rr := s.r.Fork()
			rt := Pick(rr, routes)
			q = s.gen(rr, rt)
			name = rt.name
		}
		q.Seq = seq
		seq++
		return q, name
	}
	if f.Replay != "" {
		for _, line := range ReadLines(f.Replay) {
			sx, err := ParseSx(line)
			must(err)
			q := httpReq{Method: sx.List[1].Atom, Path: sx.List[2].Atom, Body: sx.List[4].Atom, Class: sx.List[5].Atom, Route: sx.List[6].Atom, Write: sx.List[7].Atom == "1", MustReject: sx.List[8].Atom == "1", Hdr: map[string]string{}}
			for _, h := range sx.List[3].List {
				q.Hdr[h.List[0].Atom] = h.List[1].Atom
			}
			if len(sx.List) > 9 {
				fmt.Sscan(sx.List[9].Atom, &q.Seq)
			}
			for seq < q.Seq { // re-run the prefix of the stream so that the ledger is in the same state
				p, _ := next()
				s.do(p)
			}
			s.cur = s.snapshot()
			resp := s.do(q)
			s.check(q, resp)
			fmt.Printf("%s %s -> %d %s %s\n", q.Method, q.Path, resp.Code, short(resp.Body), resp.Err)
		}
		return 0
	}
	for out.Stats["cases"] < f.N {
		q, name := next()
		s.check(q, s.do(q))
		if name != "" {
			out.Stats["route_"+name]++
			if q.Class != "valid" {
				out.Stats["route_mutated_"+name]++
			}
		}
	}
	return 0
}
