//go:build verif

package main

import (
	"fmt"
	"math/big"
	"sort"
	"strings"

	"github.com/formancehq/go-libs/v5/pkg/query"
	ledger "github.com/formancehq/ledger/internal"
	"github.com/formancehq/ledger/internal/storage/common"
)

// Probes of the `reads` tie added for grouped volumes (C05 / C21 / C01) and for metadata filters at a point in time
// (C20 / C17): volq = GetVolumesWithBalances(PIT, OOT, insertion date, GroupLvl, metadata filter), aggq =
// GetAggregatedBalances(PIT, insertion date, metadata filter), accsq = ListAccounts(PIT, metadata filter).
// Model side: Reads.read_volumes_q / read_aggregated_q / read_accounts_q.  Monitors (this file) never look at the model.

// ---------------------------------------------------------------- metadata filters (mirror of Reads.mfilter)
type mflt struct {
	Op   string // match exists and or not
	K, V string
	A, B *mflt
}

func (q *mflt) sx() string {
	if q == nil {
		return "nil"
	}
	switch q.Op {
	case "match":
		return L("match", Q(q.K), Q(q.V))
	case "exists":
		return L("exists", Q(q.K))
	case "not":
		return L("not", q.A.sx())
	}
	return L(q.Op, q.A.sx(), q.B.sx())
}
func (q *mflt) builder() query.Builder {
	if q == nil {
		return nil
	}
	switch q.Op {
	case "match":
		return query.Match("metadata["+q.K+"]", q.V)
	case "exists":
		return query.Exists("metadata", q.K)
	case "not":
		return query.Not(q.A.builder())
	case "and":
		return query.And(q.A.builder(), q.B.builder())
	}
	return query.Or(q.A.builder(), q.B.builder())
}

// sat: the documented meaning on a metadata map (monitor side)
func (q *mflt) sat(m map[string]string) bool {
	switch q.Op {
	case "match":
		v, ok := m[q.K]
		return ok && v == q.V
	case "exists":
		_, ok := m[q.K]
		return ok
	case "not":
		return !q.A.sat(m)
	case "and":
		return q.A.sat(m) && q.B.sat(m)
	}
	return q.A.sat(m) || q.B.sat(m)
}
func parseMflt(x *Sx) *mflt {
	if !x.IsLst {
		return nil // nil
	}
	switch op := x.List[0].Atom; op {
	case "match":
		return &mflt{Op: op, K: x.List[1].Atom, V: x.List[2].Atom}
	case "exists":
		return &mflt{Op: op, K: x.List[1].Atom}
	case "not":
		return &mflt{Op: op, A: parseMflt(x.List[1])}
	default:
		return &mflt{Op: op, A: parseMflt(x.List[1]), B: parseMflt(x.List[2])}
	}
}

var mfltKeys = []string{"k1", "k2", "role"}
var mfltVals = []string{"v1", "v2", "v3"}

func genMfltLeaf(r *Rng, hint []KV) *mflt {
	k, v := Pick(r, mfltKeys), Pick(r, mfltVals)
	if len(hint) > 0 && r.Chance(75) {
		kv := Pick(r, hint)
		k, v = kv.K, kv.V
	}
	if r.Chance(30) {
		return &mflt{Op: "exists", K: k}
	}
	return &mflt{Op: "match", K: k, V: v}
}
func genMflt(r *Rng, hint []KV, depth int) *mflt {
	if depth >= 2 || r.Chance(55) {
		return genMfltLeaf(r, hint)
	}
	switch r.Intn(3) {
	case 0:
		return &mflt{Op: "not", A: genMflt(r, hint, depth+1)}
	case 1:
		return &mflt{Op: "and", A: genMflt(r, hint, depth+1), B: genMflt(r, hint, depth+1)}
	}
	return &mflt{Op: "or", A: genMflt(r, hint, depth+1), B: genMflt(r, hint, depth+1)}
}

// ---------------------------------------------------------------- running the probes on the real stack
func (hr *HistRun) volumesQ(pit, oot *int64, ins bool, g int, q *mflt) (map[pair][2]*big.Int, error) {
	vs, err := listAll(hr.ctx, hr.ctrl.GetVolumesWithBalances, common.InitialPaginatedQuery[ledger.GetVolumesOptions]{PageSize: 9,
		Options: common.ResourceQuery[ledger.GetVolumesOptions]{PIT: ltime(pit), OOT: ltime(oot), Builder: q.builder(),
			Opts: ledger.GetVolumesOptions{UseInsertionDate: ins, GroupLvl: g}}})
	if err != nil {
		return nil, err
	}
	out := map[pair][2]*big.Int{}
	for _, v := range vs {
		k := pair{v.Account, v.Asset}
		if _, dup := out[k]; dup {
			return nil, fmt.Errorf("row %s/%s listed twice", v.Account, v.Asset)
		}
		out[k] = [2]*big.Int{v.Input, v.Output}
	}
	return out, nil
}

func volsSx(m map[pair][2]*big.Int) string {
	var rows [][4]string
	for k, v := range m {
		rows = append(rows, [4]string{k.a, k.c, v[0].String(), v[1].String()})
	}
	sort.Slice(rows, func(i, j int) bool { return rows[i][0]+"\x00"+rows[i][1] < rows[j][0]+"\x00"+rows[j][1] })
	out := make([]string, len(rows))
	for i, x := range rows {
		out[i] = L(Q(x[0]), Q(x[1]), x[2], x[3])
	}
	return L(out...)
}

func (hr *HistRun) runProbeQ(p Probe) (a ProbeAns) {
	switch p.Kind {
	case "volq":
		vs, err := hr.volumesQ(p.PIT, p.OOT, p.Ins, p.G, p.Q)
		if err != nil {
			return ProbeAns{Sx: rejectedOr(err), Rejected: true}
		}
		a.Vols = vs
		a.Sx = L("rows", volsSx(vs))
	case "aggq":
		r, err := hr.ctrl.GetAggregatedBalances(hr.ctx, common.ResourceQuery[ledger.GetAggregatedVolumesOptions]{PIT: ltime(p.PIT), Builder: p.Q.builder(),
			Opts: ledger.GetAggregatedVolumesOptions{UseInsertionDate: p.Ins}})
		if err != nil {
			return ProbeAns{Sx: rejectedOr(err), Rejected: true}
		}
		a.Agg = map[string]*big.Int{}
		var cs, xs []string
		for c := range r {
			cs = append(cs, c)
		}
		sort.Strings(cs)
		for _, c := range cs {
			a.Agg[c] = r[c]
			xs = append(xs, L(Q(c), r[c].String()))
		}
		a.Sx = L("agg", L(xs...))
	case "accsq":
		as, err := listAll(hr.ctx, hr.ctrl.ListAccounts, common.InitialPaginatedQuery[any]{PageSize: 4, Options: common.ResourceQuery[any]{PIT: ltime(p.PIT), Builder: p.Q.builder()}})
		if err != nil {
			return ProbeAns{Sx: rejectedOr(err), Rejected: true}
		}
		var xs []string
		for _, x := range as {
			sa := SnapAcc{Addr: x.Address, Meta: sortKV(x.Metadata), First: us(x.FirstUsage.Time), Ins: us(x.InsertionDate.Time), Upd: us(x.UpdatedAt.Time)}
			a.Accs = append(a.Accs, sa)
			xs = append(xs, L(Q(sa.Addr), kvsx(sa.Meta), fmt.Sprint(sa.First), fmt.Sprint(sa.Ins), fmt.Sprint(sa.Upd)))
		}
		sort.Strings(xs)
		a.Sx = L("accs", L(xs...))
	}
	return a
}

// ---------------------------------------------------------------- generator
// accMetaEvents: the committed operations that wrote account metadata: (instant, the key/values they mention)
type accMetaEvent struct {
	at int64
	kv []KV
}

func accMetaEvents(hr *HistRun) []accMetaEvent {
	var out []accMetaEvent
	for i, o := range hr.Ops {
		if i >= len(hr.Res) || !hr.committed(i) {
			continue
		}
		switch {
		case o.Kind == "create":
			for _, kvs := range o.AccMeta {
				if len(kvs) > 0 {
					out = append(out, accMetaEvent{o.Now, kvs})
				}
			}
		case o.Kind == "setmeta" && o.IsAcc && len(o.Meta) > 0:
			out = append(out, accMetaEvent{o.Now, o.Meta})
		case o.Kind == "delmeta" && o.IsAcc:
			out = append(out, accMetaEvent{o.Now, []KV{{o.Key, "v1"}}})
		}
	}
	return out
}

func genProbesQ(r *Rng, hr *HistRun, ops []Op) []Probe {
	set := map[int64]bool{}
	for _, o := range ops {
		set[o.Now], set[o.Now-1], set[o.Now+1] = true, true, true
		if o.TS != nil {
			set[*o.TS], set[*o.TS-1], set[*o.TS+1] = true, true, true
		}
	}
	var inst []int64
	for t := range set {
		inst = append(inst, t)
	}
	sort.Slice(inst, func(i, j int) bool { return inst[i] < inst[j] })
	pick := func() *int64 { v := inst[r.Intn(len(inst))]; return &v }
	evs := accMetaEvents(hr)
	// the key/values present in the current account metadata + those of the metadata writes: leaves that hit
	var hint []KV
	if n := len(hr.Snaps); n > 0 {
		for _, a := range hr.Snaps[n-1].Accounts {
			hint = append(hint, a.Meta...)
		}
	}
	for _, e := range evs {
		hint = append(hint, e.kv...)
	}
	// a point in time and a filter aimed at one metadata write: just before it / at it, filter on what it wrote
	directed := func() (*int64, *mflt) {
		if len(evs) == 0 || r.Chance(25) {
			return pick(), genMflt(r, hint, 0)
		}
		e := Pick(r, evs)
		t := e.at - int64(r.Intn(2))
		q := genMfltLeaf(r, e.kv)
		switch r.Intn(5) {
		case 0:
			q = &mflt{Op: "not", A: q}
		case 1:
			q = &mflt{Op: Pick(r, []string{"and", "or"}), A: q, B: genMflt(r, hint, 1)}
		}
		return &t, q
	}
	window := func(p *Probe) {
		switch k := r.Intn(10); {
		case k < 2: // no window
		case k < 6:
			p.PIT = pick()
		case k < 9:
			p.PIT, p.OOT = pick(), pick()
			if *p.OOT > *p.PIT && r.Chance(80) {
				p.PIT, p.OOT = p.OOT, p.PIT
			}
		default:
			p.OOT = pick()
		}
		p.Ins = r.Chance(40)
	}
	var out []Probe
	for i := 0; i < 4; i++ { // grouped volumes, mostly without filter
		p := Probe{Kind: "volq", G: 1 + (i+r.Intn(3))%3}
		window(&p)
		if r.Chance(25) {
			p.Q = genMflt(r, hint, 0)
		}
		out = append(out, p)
	}
	for i := 0; i < 3; i++ { // volumes filtered by metadata at a point in time
		p := Probe{Kind: "volq", Ins: r.Chance(40)}
		p.PIT, p.Q = directed()
		switch r.Intn(10) {
		case 0:
			p.OOT = pick()
		case 1:
			p.PIT, p.OOT = nil, pick()
		case 2:
			p.PIT = nil
		}
		if r.Chance(20) {
			p.G = 1 + r.Intn(3)
		}
		out = append(out, p)
	}
	for i := 0; i < 2; i++ {
		p := Probe{Kind: "aggq", Ins: r.Chance(40)}
		p.PIT, p.Q = directed()
		if r.Chance(10) {
			p.PIT = nil
		}
		out = append(out, p)
	}
	for i := 0; i < 2; i++ {
		p := Probe{Kind: "accsq"}
		p.PIT, p.Q = directed()
		if r.Chance(10) {
			p.PIT = nil
		}
		out = append(out, p)
	}
	return out
}

// ---------------------------------------------------------------- monitors
// truncAddr: the first g ':'-separated segments (g >= 1)
func truncAddr(a string, g int) string {
	s := strings.Split(a, ":")
	if len(s) > g {
		s = s[:g]
	}
	return strings.Join(s, ":")
}

func groupVols(m map[pair][2]*big.Int, g int) map[pair][2]*big.Int {
	if g <= 0 {
		return m
	}
	out := map[pair][2]*big.Int{}
	for k, v := range m {
		gk := pair{truncAddr(k.a, g), k.c}
		cur, ok := out[gk]
		if !ok {
			cur = [2]*big.Int{new(big.Int), new(big.Int)}
		}
		out[gk] = [2]*big.Int{new(big.Int).Add(cur[0], v[0]), new(big.Int).Add(cur[1], v[1])}
	}
	return out
}

func diffVols(got, want map[pair][2]*big.Int) string {
	var keys []pair
	for k := range want {
		keys = append(keys, k)
	}
	for k := range got {
		if _, ok := want[k]; !ok {
			keys = append(keys, k)
		}
	}
	sort.Slice(keys, func(i, j int) bool { return keys[i].a+"\x00"+keys[i].c < keys[j].a+"\x00"+keys[j].c })
	for _, k := range keys {
		g, okg := got[k]
		w, okw := want[k]
		switch {
		case !okg:
			return fmt.Sprintf("row %s/%s (%s,%s) is missing", k.a, k.c, w[0], w[1])
		case !okw:
			return fmt.Sprintf("row %s/%s (%s,%s) is listed but not expected", k.a, k.c, g[0], g[1])
		case g[0].Cmp(w[0]) != 0 || g[1].Cmp(w[1]) != 0:
			return fmt.Sprintf("row %s/%s is (%s,%s), expected (%s,%s)", k.a, k.c, g[0], g[1], w[0], w[1])
		}
	}
	return ""
}

// monGroupedProbe (C05 / C21 / C01): a grouped listing equals the ungrouped listing of the SAME query (read through the
// real code) aggregated by truncated address; per asset, total input = total output when the query has no filter
func monGroupedProbe(hr *HistRun, p Probe, a ProbeAns) string {
	if p.Kind != "volq" || p.G <= 0 || a.Rejected || strings.HasPrefix(a.Sx, "(error") {
		return ""
	}
	base, err := hr.volumesQ(p.PIT, p.OOT, p.Ins, 0, p.Q)
	if err != nil {
		return "[grouped-volumes] the ungrouped listing of the same query fails: " + err.Error()
	}
	if d := diffVols(a.Vols, groupVols(base, p.G)); d != "" {
		return fmt.Sprintf("[grouped-volumes] groupBy=%d: %s (expected = the ungrouped listing of the same query summed per first %d address segments)", p.G, d, p.G)
	}
	if p.Q == nil {
		in, out := map[string]*big.Int{}, map[string]*big.Int{}
		for k, v := range a.Vols {
			if in[k.c] == nil {
				in[k.c], out[k.c] = new(big.Int), new(big.Int)
			}
			in[k.c].Add(in[k.c], v[0])
			out[k.c].Add(out[k.c], v[1])
		}
		for c := range in {
			if in[c].Cmp(out[c]) != 0 {
				return fmt.Sprintf("[grouped-volumes-conservation] groupBy=%d asset %s: total input %s != total output %s", p.G, c, in[c], out[c])
			}
		}
	}
	return ""
}

// accMetaAsOf: the account metadata as of t according to the writes the implementation accepted (committed, clock <= t),
// applied in commit order; t == nil: all of them (= the current metadata)
func accMetaAsOf(hr *HistRun, t *int64) map[string]map[string]string {
	asof := map[string]map[string]string{}
	set := func(acc string, kvs []KV) {
		if asof[acc] == nil {
			asof[acc] = map[string]string{}
		}
		for _, kv := range kvs {
			asof[acc][kv.K] = kv.V
		}
	}
	for i, o := range hr.Ops {
		if i >= len(hr.Res) || !hr.committed(i) || (t != nil && o.Now > *t) {
			continue
		}
		switch {
		case o.Kind == "create":
			for acc, kvs := range o.AccMeta {
				set(acc, kvs)
			}
		case o.Kind == "setmeta" && o.IsAcc:
			set(o.TgtAcc, o.Meta)
		case o.Kind == "delmeta" && o.IsAcc:
			if asof[o.TgtAcc] != nil {
				delete(asof[o.TgtAcc], o.Key)
			}
		}
	}
	return asof
}

// monMetaFilterProbe (C20 / C17): a listing filtered by account metadata, with or without a point in time, lists exactly the
// rows of the unfiltered listing (same query, read through the real code) whose account satisfies the filter on its
// metadata AS OF the point in time when ACCOUNT_METADATA_HISTORY is SYNC, on its current metadata otherwise
func monMetaFilterProbe(hr *HistRun, p Probe, a ProbeAns) string {
	if p.Q == nil || a.Rejected || strings.HasPrefix(a.Sx, "(error") {
		return ""
	}
	at := p.PIT
	if !hr.Feat.AccHist {
		at = nil
	}
	meta := accMetaAsOf(hr, at)
	sat := func(acc string) bool {
		m := meta[acc]
		if m == nil {
			m = map[string]string{}
		}
		return p.Q.sat(m)
	}
	when := "current metadata"
	if at != nil {
		when = fmt.Sprintf("metadata as of %d", *at)
	}
	tag := "[metadata-filter-as-of]" // no exemption: volumes with a window and the feature DISABLED were repaired by f445e43
	switch p.Kind {
	case "volq":
		unf, err := hr.volumesQ(p.PIT, p.OOT, p.Ins, 0, nil)
		if err != nil {
			return tag + " the unfiltered listing of the same query fails: " + err.Error()
		}
		want := map[pair][2]*big.Int{}
		for k, v := range unf {
			if sat(k.a) {
				want[k] = v
			}
		}
		if d := diffVols(a.Vols, groupVols(want, p.G)); d != "" {
			return fmt.Sprintf("%s volumes filter %s: %s (expected = rows of the unfiltered listing whose account satisfies the filter on its %s, ACCOUNT_METADATA_HISTORY=%v)",
				tag, p.Q.sx(), d, when, hr.Feat.AccHist)
		}
	case "aggq":
		want := map[string]*big.Int{}
		for k, w := range foldWin(hr.committedTxs(), p.PIT, nil, p.Ins) {
			if !sat(k.a) {
				continue
			}
			if want[k.c] == nil {
				want[k.c] = new(big.Int)
			}
			want[k.c].Add(want[k.c], new(big.Int).Sub(w.in, w.out))
		}
		if len(want) != len(a.Agg) {
			return fmt.Sprintf("%s aggregated balances filter %s: %d assets returned, %d expected (accounts selected on their %s)", tag, p.Q.sx(), len(a.Agg), len(want), when)
		}
		for c, w := range want {
			if a.Agg[c] == nil || a.Agg[c].Cmp(w) != 0 {
				return fmt.Sprintf("%s aggregated balances filter %s: asset %s is %v, expected %s (accounts selected on their %s)", tag, p.Q.sx(), c, a.Agg[c], w, when)
			}
		}
	case "accsq":
		unf := hr.runProbe(Probe{Kind: "accs", PIT: p.PIT})
		if unf.Rejected || strings.HasPrefix(unf.Sx, "(error") {
			return tag + " the unfiltered accounts listing fails: " + unf.Sx
		}
		var want, got []string
		for _, x := range unf.Accs {
			if sat(x.Addr) {
				want = append(want, x.Addr)
			}
		}
		for _, x := range a.Accs {
			got = append(got, x.Addr)
		}
		sort.Strings(want)
		sort.Strings(got)
		if fmt.Sprint(want) != fmt.Sprint(got) {
			return fmt.Sprintf("%s accounts filter %s lists %v, the accounts satisfying it on their %s are %v", tag, p.Q.sx(), got, when, want)
		}
	}
	return ""
}
