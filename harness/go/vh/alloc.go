//go:build verif

package main

import (
	"fmt"
	"math/big"

	"github.com/formancehq/ledger/internal/machine"
)

// C24: real machine.NewAllotment + Allotment.Allocate on generated portions/amounts.
func init() { commands["alloc"] = cmdAlloc }

type allocCase struct {
	amt   *big.Int
	parts []*big.Rat // nil = remaining
}

func (c allocCase) sx() string {
	ps := make([]string, len(c.parts))
	for i, p := range c.parts {
		if p == nil {
			ps[i] = "(rem)"
		} else {
			ps[i] = L("spec", p.Num().String(), p.Denom().String())
		}
	}
	return L("alloc", c.amt.String(), L(ps...))
}

func genAlloc(r *Rng) allocCase {
	n := 1 + r.Intn(6)
	c := allocCase{amt: r.BigAmount()}
	dens := []int64{1, 2, 3, 7, 10, 100, 1000, 64, 97}
	switch k := r.Intn(10); {
	case k < 5: // weights normalised: sums to exactly 1
		ws := make([]*big.Int, n)
		tot := new(big.Int)
		for i := range ws {
			if r.Chance(15) {
				ws[i] = big.NewInt(0)
			} else if r.Chance(15) {
				ws[i] = r.BigAmount()
			} else {
				ws[i] = big.NewInt(int64(1 + r.Intn(50)))
			}
			tot.Add(tot, ws[i])
		}
		if tot.Sign() == 0 {
			ws[0] = big.NewInt(1)
			tot = big.NewInt(1)
		}
		for _, w := range ws {
			c.parts = append(c.parts, new(big.Rat).SetFrac(w, tot))
		}
	case k < 9: // specifics summing below 1 plus remaining (sometimes two, sometimes none)
		left := big.NewRat(1, 1)
		for i := 0; i < n; i++ {
			d := Pick(r, dens)
			p := big.NewRat(int64(r.Intn(int(d)+1)), d)
			if r.Chance(10) {
				p = new(big.Rat).SetFrac(big.NewInt(1), new(big.Int).Exp(big.NewInt(10), big.NewInt(30), nil))
			}
			if left.Sign() >= 0 && p.Cmp(left) > 0 && !r.Chance(8) {
				p = new(big.Rat).Set(left)
				if r.Chance(50) {
					p.Mul(p, big.NewRat(1, 2))
				}
			}
			left.Sub(left, p)
			c.parts = append(c.parts, p)
		}
		nrem := 1
		if r.Chance(10) {
			nrem = 2
		} else if r.Chance(10) {
			nrem = 0
		}
		for i := 0; i < nrem; i++ {
			at := r.Intn(len(c.parts) + 1)
			c.parts = append(c.parts[:at], append([]*big.Rat{nil}, c.parts[at:]...)...)
		}
	default: // arbitrary portions in [0,1]
		for i := 0; i < n; i++ {
			d := Pick(r, dens)
			c.parts = append(c.parts, big.NewRat(int64(r.Intn(int(d)+1)), d))
		}
	}
	return c
}

func runAlloc(c allocCase) (res string, parts []*big.Int, sumsToOne bool) {
	portions := make([]machine.Portion, len(c.parts))
	total := new(big.Rat)
	nrem := 0
	for i, p := range c.parts {
		if p == nil {
			portions[i] = machine.NewPortionRemaining()
			nrem++
		} else {
			ps, err := machine.NewPortionSpecific(*p)
			if err != nil {
				return L("err", "portion"), nil, false
			}
			portions[i] = *ps
			total.Add(total, p)
		}
	}
	a, err := machine.NewAllotment(portions)
	if err != nil {
		switch err.Error() {
		case "two uses of `remaining` in the same allotment":
			return L("err", "two_remaining"), nil, false
		case "sum of portions exceeded 100%":
			return L("err", "exceeded"), nil, false
		}
		return L("err", "other"), nil, false
	}
	mi := machine.MonetaryInt(*c.amt)
	out := a.Allocate(&mi)
	strs := make([]string, len(out))
	for i, p := range out {
		b := big.Int(*p)
		parts = append(parts, &b)
		strs[i] = b.String()
	}
	sumsToOne = nrem == 1 || total.Cmp(big.NewRat(1, 1)) == 0
	return L("ok", L(strs...)), parts, sumsToOne
}

// monitor: the property stated directly on the implementation's output (independent of the Coq model)
func monitorAlloc(c allocCase, parts []*big.Int) string {
	total := new(big.Rat)
	for _, p := range c.parts {
		if p != nil {
			total.Add(total, p)
		}
	}
	sum := new(big.Int)
	floors := make([]*big.Int, len(parts))
	fsum := new(big.Int)
	for i, p := range parts {
		sum.Add(sum, p)
		q := c.parts[i]
		if q == nil {
			q = new(big.Rat).Sub(big.NewRat(1, 1), total)
		}
		f := new(big.Int).Mul(c.amt, q.Num())
		f.Div(f, q.Denom())
		floors[i] = f
		fsum.Add(fsum, f)
	}
	if sum.Cmp(c.amt) != 0 {
		return fmt.Sprintf("parts sum to %s, amount is %s", sum, c.amt)
	}
	deficit := new(big.Int).Sub(c.amt, fsum)
	for i, p := range parts {
		want := new(big.Int).Set(floors[i])
		if big.NewInt(int64(i)).Cmp(deficit) < 0 {
			want.Add(want, big.NewInt(1))
		}
		if p.Cmp(want) != 0 {
			return fmt.Sprintf("part %d is %s, expected %s (floor %s, leftover %s to the earliest parts)", i, p, want, floors[i], deficit)
		}
	}
	return ""
}

func cmdAlloc(args []string) int {
	f := ParseFlags(args)
	out := NewOut(f.Out)
	defer out.Close()
	r := NewRng(f.Seed)
	seen := map[string]bool{}
	one := func(c allocCase) {
		cs := c.sx()
		res, parts, exact := runAlloc(c)
		out.Case(cs, res)
		out.Stats["cases"]++
		out.Stats[fmt.Sprintf("nparts_%d", len(c.parts))]++
		if parts == nil {
			out.Stats["rejected"]++
			return
		}
		if !exact {
			out.Stats["accepted_not_100pct"]++
			return
		}
		out.Stats["accepted_100pct"]++
		if !seen[cs] && len(parts) > 1 && c.amt.Sign() > 0 {
			seen[cs] = true
			out.Stats["distinct_nontrivial"]++
		}
		if c.amt.BitLen() > 64 {
			out.Stats["amount_above_2^64"]++
		}
		if msg := monitorAlloc(c, parts); msg != "" {
			out.Violation("C24", cs, msg)
		}
	}
	if f.Replay != "" {
		for _, line := range ReadLines(f.Replay) {
			sx, err := ParseSx(line)
			must(err)
			c := allocCase{}
			c.amt, _ = new(big.Int).SetString(sx.List[1].Atom, 10)
			for _, p := range sx.List[2].List {
				if p.List[0].Atom == "rem" {
					c.parts = append(c.parts, nil)
				} else {
					n, _ := new(big.Int).SetString(p.List[1].Atom, 10)
					d, _ := new(big.Int).SetString(p.List[2].Atom, 10)
					c.parts = append(c.parts, new(big.Rat).SetFrac(n, d))
				}
			}
			one(c)
		}
		return 0
	}
	for i := 0; i < f.N; i++ {
		one(genAlloc(r))
	}
	return 0
}
