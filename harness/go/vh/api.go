//go:build verif

package main

import (
	"bytes"
	"encoding/json"
	"fmt"
	"math/big"
	"regexp"
	"sort"
	"strings"

	"github.com/formancehq/go-libs/v5/pkg/types/metadata"
	libtime "github.com/formancehq/go-libs/v5/pkg/types/time"

	ledger "github.com/formancehq/ledger/internal"
	"github.com/formancehq/ledger/internal/api/bulking"
	v1 "github.com/formancehq/ledger/internal/api/v1"
	ledgercontroller "github.com/formancehq/ledger/internal/controller/ledger"
	"github.com/formancehq/ledger/internal/machine/vm"
)

// C38/C36 TIE-C: the real request decoders (encoding/json into the request structs, TransactionRequest.ToCore,
// ScriptV1.ToCore, v1 Script.ToCore, BulkElement.UnmarshalJSON, metadata) under recover() vs the extracted model
// (coq/theories/Ledger/Api.v) on grammar-aware mutations of valid bodies.
func init() { commands["apidec"] = cmdAPIDec }

// ---------------------------------------------------------------- JSON trees
type AJ struct {
	K byte // 'z' null, 'b' bool, 'n' number, 's' string, 'a' array, 'o' object
	B bool
	M *big.Int // number: mantissa
	E *int     // number: nil = plain integer literal, else value M*10^E written with a fraction or an exponent
	S string
	A []*AJ
	O []aJKV
}
type aJKV struct {
	K string
	V *AJ
}

func ajnull() *AJ                { return &AJ{K: 'z'} }
func ajbool(b bool) *AJ          { return &AJ{K: 'b', B: b} }
func jint(n int64) *AJ           { return &AJ{K: 'n', M: big.NewInt(n)} }
func jbig(n *big.Int) *AJ        { return &AJ{K: 'n', M: new(big.Int).Set(n)} }
func jdec(m *big.Int, e int) *AJ { return &AJ{K: 'n', M: new(big.Int).Set(m), E: &e} }
func ajstr(s string) *AJ         { return &AJ{K: 's', S: s} }
func ajarr(xs ...*AJ) *AJ        { return &AJ{K: 'a', A: xs} }
func ajobj(kvs ...any) *AJ {
	o := &AJ{K: 'o'}
	for i := 0; i+1 < len(kvs); i += 2 {
		o.O = append(o.O, aJKV{kvs[i].(string), kvs[i+1].(*AJ)})
	}
	return o
}
func (j *AJ) get(k string) *AJ {
	for _, kv := range j.O {
		if kv.K == k {
			return kv.V
		}
	}
	return nil
}
func (j *AJ) clone() *AJ {
	c := *j
	if j.M != nil {
		c.M = new(big.Int).Set(j.M)
	}
	if j.E != nil {
		e := *j.E
		c.E = &e
	}
	c.A = nil
	for _, x := range j.A {
		c.A = append(c.A, x.clone())
	}
	c.O = nil
	for _, kv := range j.O {
		c.O = append(c.O, aJKV{kv.K, kv.V.clone()})
	}
	return &c
}

func (j *AJ) sx() string {
	switch j.K {
	case 'z':
		return "null"
	case 'b':
		return L("b", b01(j.B))
	case 'n':
		if j.E == nil {
			return L("n", j.M.String())
		}
		return L("n", j.M.String(), fmt.Sprint(*j.E))
	case 's':
		return L("s", Q(j.S))
	case 'a':
		items := []string{"a"}
		for _, x := range j.A {
			items = append(items, x.sx())
		}
		return L(items...)
	default:
		items := []string{"o"}
		for _, kv := range j.O {
			items = append(items, L(Q(kv.K), kv.V.sx()))
		}
		return L(items...)
	}
}

// numText spells a number: plain integer literal, or (deterministically from m,e) positional decimal / exponent form
func numText(m *big.Int, e *int) string {
	if e == nil {
		return m.String()
	}
	if *e < 0 && *e >= -20 {
		neg := m.Sign() < 0
		d := new(big.Int).Abs(m).String()
		for len(d) <= -*e {
			d = "0" + d
		}
		s := d[:len(d)+*e] + "." + d[len(d)+*e:]
		if neg {
			s = "-" + s
		}
		return s
	}
	if *e%2 == 0 {
		return fmt.Sprintf("%sE%d", m.String(), *e)
	}
	if *e > 0 {
		return fmt.Sprintf("%se+%d", m.String(), *e)
	}
	return fmt.Sprintf("%se%d", m.String(), *e)
}

func (j *AJ) text(b *bytes.Buffer) {
	switch j.K {
	case 'z':
		b.WriteString("null")
	case 'b':
		if j.B {
			b.WriteString("true")
		} else {
			b.WriteString("false")
		}
	case 'n':
		b.WriteString(numText(j.M, j.E))
	case 's':
		x, _ := json.Marshal(j.S)
		b.Write(x)
	case 'a':
		b.WriteByte('[')
		for i, x := range j.A {
			if i > 0 {
				b.WriteByte(',')
			}
			x.text(b)
		}
		b.WriteByte(']')
	default:
		b.WriteByte('{')
		for i, kv := range j.O {
			if i > 0 {
				b.WriteString(", ")
			}
			x, _ := json.Marshal(kv.K)
			b.Write(x)
			b.WriteByte(':')
			kv.V.text(b)
		}
		b.WriteByte('}')
	}
}
func (j *AJ) Text() string {
	var b bytes.Buffer
	j.text(&b)
	return b.String()
}

func ajFromSx(sx *Sx) *AJ {
	if !sx.IsLst {
		if sx.Atom == "null" {
			return ajnull()
		}
		panic("bad json sx " + sx.Atom)
	}
	switch sx.List[0].Atom {
	case "b":
		return ajbool(sx.List[1].Atom == "1")
	case "n":
		m, ok := new(big.Int).SetString(sx.List[1].Atom, 10)
		if !ok {
			panic("bad number")
		}
		if len(sx.List) == 3 {
			var e int
			fmt.Sscan(sx.List[2].Atom, &e)
			return jdec(m, e)
		}
		return jbig(m)
	case "s":
		return ajstr(sx.List[1].Atom)
	case "a":
		out := &AJ{K: 'a'}
		for _, x := range sx.List[1:] {
			out.A = append(out.A, ajFromSx(x))
		}
		return out
	case "o":
		out := &AJ{K: 'o'}
		for _, kv := range sx.List[1:] {
			out.O = append(out.O, aJKV{kv.List[0].Atom, ajFromSx(kv.List[1])})
		}
		return out
	}
	panic("bad json sx")
}

// jFromRaw re-reads raw JSON text (json.RawMessage kept by a decoder) as a tree; a literal with fraction/exponent
// gives back (all digits, exponent - fraction length), which inverts numText
func ajFromRaw(raw []byte) *AJ {
	dec := json.NewDecoder(bytes.NewReader(raw))
	dec.UseNumber()
	var v any
	if err := dec.Decode(&v); err != nil {
		return ajstr("<<unparseable raw: " + err.Error() + ">>")
	}
	// object member order is lost by map decoding: re-read members in document order with the token stream
	dec = json.NewDecoder(bytes.NewReader(raw))
	dec.UseNumber()
	var rd func() *AJ
	rd = func() *AJ {
		t, err := dec.Token()
		must(err)
		switch x := t.(type) {
		case nil:
			return ajnull()
		case bool:
			return ajbool(x)
		case string:
			return ajstr(x)
		case json.Number:
			s := string(x)
			if !strings.ContainsAny(s, ".eE") {
				m, _ := new(big.Int).SetString(s, 10)
				return jbig(m)
			}
			mant, exp := s, 0
			if i := strings.IndexAny(s, "eE"); i >= 0 {
				mant = s[:i]
				fmt.Sscan(strings.TrimPrefix(s[i+1:], "+"), &exp)
			}
			if i := strings.IndexByte(mant, '.'); i >= 0 {
				exp -= len(mant) - i - 1
				mant = mant[:i] + mant[i+1:]
			}
			m, _ := new(big.Int).SetString(mant, 10)
			return jdec(m, exp)
		case json.Delim:
			if x == '[' {
				out := &AJ{K: 'a'}
				for dec.More() {
					out.A = append(out.A, rd())
				}
				dec.Token()
				return out
			}
			out := &AJ{K: 'o'}
			for dec.More() {
				k, _ := dec.Token()
				out.O = append(out.O, aJKV{k.(string), rd()})
			}
			dec.Token()
			return out
		}
		panic("token")
	}
	return rd()
}

// ---------------------------------------------------------------- valid bodies
var apiTimes = []string{"2023-01-01T00:00:00Z", "2023-06-15T12:30:45.123456Z", "2023-06-15T12:30:45.1234567Z", "2023-06-15T12:30:45.9999995Z", "2024-02-29T23:59:59.5+01:00",
	"1969-12-31T23:59:59-05:30", "2023-06-15T12:30:45,25Z"}
var apiBadTimes = []string{"", "yesterday", "2023-13-01T00:00:00Z", "2023-02-29T00:00:00Z", "2023-01-01", "2023-01-01 00:00:00Z", "1700000000", "2023-01-01T24:00:00Z", "2023-01-01T00:00:60Z",
	"2023-01-01T00:00:00", "2023-01-01T00:00:00.Z", "2023-01-01t00:00:00z", "2023-01-01T00:00:00+0100", " 2023-01-01T00:00:00Z"}
var apiBoundaryStrings = []string{"", " ", "a", "a:", ":a", "a::b", "a b", "world", "users:001:main", "-", "_", "é", "a b", "<&>", "a\"b\\c", "USD", "usd", "U", "USD/2", "USD/1234567", "USD/", "/2",
	"A_", "A_B", "A_b", "ABCDEFGHIJKLMNOPQ", "ABCDEFGHIJKLMNOPQR", "A_ABCDEFGHIJKLMNOPQ", "A1_B/000000", "1USD", "USD 100", "null", "0", "-1", "1e3", strings.Repeat("a", 300), strings.Repeat("A", 18) + "/1",
	"2023-01-01T00:00:00Z", "\x00", "\n", "a\tb", "COIN/2", "EUR_COL/12"}

func pow(b, e, d int64) *big.Int {
	x := new(big.Int).Exp(big.NewInt(b), big.NewInt(e), nil)
	return x.Add(x, big.NewInt(d))
}

// the amount lattice of the property's quantifier
func latticeAmount(r *Rng) *big.Int {
	switch r.Intn(13) {
	case 0:
		return big.NewInt(0)
	case 1:
		return big.NewInt(1)
	case 2:
		return pow(2, 53, -1)
	case 3:
		return pow(2, 53, 1)
	case 4:
		return pow(2, 63, -1)
	case 5:
		return pow(2, 63, 1)
	case 6:
		return pow(2, 64, -1)
	case 7:
		return pow(2, 64, 1)
	case 8:
		return pow(10, 30, 0)
	case 9:
		return pow(2, 53, 0)
	case 10:
		return pow(2, 63, 0)
	default:
		return r.BigAmount()
	}
}

func genPostingJ(r *Rng) *AJ {
	return ajobj("source", ajstr(Pick(r, []string{"world", "alice", "users:1", "bank-1_x"})), "destination", ajstr(Pick(r, []string{"bob", "users:2:main", "world"})),
		"asset", ajstr(Pick(r, []string{"USD", "EUR/2", "COIN_X/6", "A"})), "amount", jbig(latticeAmount(r)))
}
func genMetaJ(r *Rng) *AJ {
	o := &AJ{K: 'o'}
	for i, n := 0, r.Intn(3); i < n; i++ {
		k := Pick(r, []string{"k1", "k2", "role", "é", "a b"})
		if o.get(k) == nil {
			o.O = append(o.O, aJKV{k, ajstr(Pick(r, genStrings))})
		}
	}
	return o
}
func genVarsJ(r *Rng, v1form bool) *AJ {
	o := &AJ{K: 'o'}
	n := 1 + r.Intn(3)
	for i := 0; i < n; i++ {
		k := fmt.Sprintf("v%d", i)
		var v *AJ
		switch r.Intn(6) {
		case 0:
			v = ajstr(Pick(r, []string{"alice", "users:1", "USD 100", "USD/2 " + latticeAmount(r).String(), "42"}))
		case 1, 2: // monetary, amount as a JSON number
			v = ajobj("asset", ajstr(Pick(r, []string{"USD", "EUR/2"})), "amount", jbig(latticeAmount(r)))
		case 3: // monetary, amount as a string
			v = ajobj("asset", ajstr(Pick(r, []string{"USD", "EUR/2"})), "amount", ajstr(latticeAmount(r).String()))
		case 4:
			if v1form {
				v = ajstr(latticeAmount(r).String())
			} else {
				v = jbig(latticeAmount(r)) // bare number variable (v2 accepts it)
			}
		default:
			v = ajstr(Pick(r, apiBoundaryStrings))
		}
		o.O = append(o.O, aJKV{k, v})
	}
	return o
}
func genScriptJ(r *Rng, v1form bool) *AJ {
	o := ajobj("plain", ajstr("vars {\n monetary $v0\n}\nsend $v0 (\n source = @world\n destination = @bob\n)"))
	if r.Chance(85) {
		o.O = append(o.O, aJKV{"vars", genVarsJ(r, v1form)})
	}
	if r.Chance(10) {
		o.O = append(o.O, aJKV{"template", ajstr("tpl1")})
	}
	return o
}
func genTxJ(r *Rng) *AJ {
	o := &AJ{K: 'o'}
	if r.Chance(60) {
		ps := &AJ{K: 'a'}
		for i, n := 0, 1+r.Intn(3); i < n; i++ {
			ps.A = append(ps.A, genPostingJ(r))
		}
		o.O = append(o.O, aJKV{"postings", ps})
	} else {
		o.O = append(o.O, aJKV{"script", genScriptJ(r, false)})
	}
	if r.Chance(50) {
		o.O = append(o.O, aJKV{"timestamp", ajstr(Pick(r, apiTimes))})
	}
	if r.Chance(40) {
		o.O = append(o.O, aJKV{"reference", ajstr(Pick(r, []string{"r1", "ref:2", ""}))})
	}
	if r.Chance(60) {
		o.O = append(o.O, aJKV{"metadata", genMetaJ(r)})
	}
	if r.Chance(25) {
		o.O = append(o.O, aJKV{"accountMetadata", ajobj(Pick(r, []string{"alice", "bob"}), genMetaJ(r))})
	}
	if r.Chance(15) {
		o.O = append(o.O, aJKV{"runtime", ajstr(Pick(r, []string{"machine", "experimental-interpreter", "", "bogus"}))})
	}
	if r.Chance(25) {
		o.O = append(o.O, aJKV{"force", ajbool(r.Bool())})
	}
	return o
}
func genBulkJ(r *Rng) *AJ {
	out := &AJ{K: 'a'}
	for i, n := 0, 1+r.Intn(4); i < n; i++ {
		var e *AJ
		tgt := func() (*AJ, *AJ) {
			if r.Bool() {
				return ajstr("ACCOUNT"), ajstr(Pick(r, []string{"alice", "users:1"}))
			}
			return ajstr("TRANSACTION"), jbig(latticeAmount(r))
		}
		switch r.Intn(5) {
		case 0, 1:
			e = ajobj("action", ajstr("CREATE_TRANSACTION"), "data", genTxJ(r))
		case 2:
			t, id := tgt()
			e = ajobj("action", ajstr("ADD_METADATA"), "data", ajobj("targetType", t, "targetId", id, "metadata", genMetaJ(r)))
		case 3:
			e = ajobj("action", ajstr("REVERT_TRANSACTION"), "data", ajobj("id", jbig(Pick(r, []*big.Int{big.NewInt(1), big.NewInt(0), pow(2, 64, -1), pow(2, 64, 0), pow(2, 63, 1)})), "force", ajbool(r.Bool()), "atEffectiveDate", ajbool(r.Bool())))
		default:
			t, id := tgt()
			e = ajobj("action", ajstr("DELETE_METADATA"), "data", ajobj("targetType", t, "targetId", id, "key", ajstr("k1")))
		}
		if r.Chance(30) {
			e.O = append(e.O, aJKV{"ik", ajstr(Pick(r, []string{"ik1", "ik2"}))})
		}
		out.A = append(out.A, e)
	}
	return out
}

// ---------------------------------------------------------------- grammar-aware mutations
type jslot struct {
	parent *AJ
	idx    int    // index into parent.A or parent.O
	key    string // object key ("" for array elements)
}

func collectSlots(j *AJ, out *[]jslot) {
	for i, x := range j.A {
		*out = append(*out, jslot{j, i, ""})
		collectSlots(x, out)
	}
	for i, kv := range j.O {
		*out = append(*out, jslot{j, i, kv.K})
		collectSlots(kv.V, out)
	}
}
func (s jslot) get() *AJ {
	if s.parent.K == 'a' {
		return s.parent.A[s.idx]
	}
	return s.parent.O[s.idx].V
}
func (s jslot) set(v *AJ) {
	if s.parent.K == 'a' {
		s.parent.A[s.idx] = v
	} else {
		s.parent.O[s.idx].V = v
	}
}

func otherType(r *Rng, cur byte) *AJ {
	for {
		var v *AJ
		switch r.Intn(8) {
		case 0:
			v = ajnull()
		case 1:
			v = ajbool(r.Bool())
		case 2:
			v = jint(int64(r.Intn(5)) - 1)
		case 3:
			v = ajstr(Pick(r, []string{"", "x", "1", "true", "null", "USD"}))
		case 4:
			v = ajarr()
		case 5:
			v = ajarr(jint(1), ajstr("a"), ajnull(), ajobj("z", jint(2)))
		case 6:
			v = ajobj()
		default:
			v = ajobj("asset", ajstr("USD"), "amount", jint(7), "x", ajarr(ajbool(true)))
		}
		if v.K != cur {
			return v
		}
	}
}
func hugeNumber(r *Rng) *AJ {
	switch r.Intn(14) {
	case 0:
		return jdec(big.NewInt(1), 400)
	case 1:
		return jdec(big.NewInt(17976931348623157), 292) // max float64
	case 2:
		return jdec(big.NewInt(17976931348623159), 292) // just above: overflow
	case 3:
		return jbig(pow(10, 400, 0))
	case 4:
		return jint(-1)
	case 5:
		return jdec(big.NewInt(1), -400)
	case 6:
		return jdec(big.NewInt(5), -1)
	case 7:
		return jdec(big.NewInt(-19), -1)
	case 8:
		return jdec(big.NewInt(1), 3)
	case 9:
		return jdec(big.NewInt(int64(r.Intn(100000))), -r.Intn(8))
	case 10:
		return jdec(latticeAmount(r), r.Intn(4)-2)
	case 11:
		return jdec(big.NewInt(5), -324)
	case 12:
		return jbig(new(big.Int).Neg(latticeAmount(r)))
	default:
		return jdec(new(big.Int).SetUint64(r.Next()>>uint(r.Intn(60))), r.Intn(40)-25)
	}
}

// mutate applies one mutation of the named class in place; returns false when it is not applicable to this tree
func mutate(r *Rng, root *AJ, class string) bool {
	var slots []jslot
	collectSlots(root, &slots)
	if len(slots) == 0 {
		return false
	}
	pickSlot := func(pred func(jslot) bool) (jslot, bool) {
		var c []jslot
		for _, s := range slots {
			if pred(s) {
				c = append(c, s)
			}
		}
		if len(c) == 0 {
			return jslot{}, false
		}
		return Pick(r, c), true
	}
	switch class {
	case "type_confusion":
		s := Pick(r, slots)
		s.set(otherType(r, s.get().K))
	case "boundary_string":
		s, ok := pickSlot(func(s jslot) bool { return s.get().K == 's' })
		if !ok {
			return false
		}
		if s.key == "timestamp" {
			s.set(ajstr(Pick(r, apiBadTimes)))
		} else {
			s.set(ajstr(Pick(r, apiBoundaryStrings)))
		}
	case "huge_number":
		s, ok := pickSlot(func(s jslot) bool { return s.get().K == 'n' })
		if !ok {
			s = Pick(r, slots)
		}
		s.set(hugeNumber(r))
	case "amount_as_string":
		s, ok := pickSlot(func(s jslot) bool { return s.key == "amount" })
		if !ok {
			return false
		}
		s.set(ajstr(latticeAmount(r).String()))
	case "amount_as_number":
		s, ok := pickSlot(func(s jslot) bool { return s.key == "amount" })
		if !ok {
			return false
		}
		s.set(jbig(latticeAmount(r)))
	case "drop_field":
		s, ok := pickSlot(func(s jslot) bool { return s.parent.K == 'o' })
		if !ok {
			return false
		}
		s.parent.O = append(append([]aJKV{}, s.parent.O[:s.idx]...), s.parent.O[s.idx+1:]...)
	case "extra_field":
		s, ok := pickSlot(func(s jslot) bool { return s.get().K == 'o' })
		tgt := root
		if ok {
			tgt = s.get()
		}
		if tgt.K != 'o' || tgt.get("zzUnknown") != nil {
			return false
		}
		tgt.O = append(tgt.O, aJKV{"zzUnknown", otherType(r, 0)})
	case "null_everything":
		s := Pick(r, slots)
		s.set(ajnull())
	case "root_confusion":
		*root = *otherType(r, root.K)
	default:
		return false
	}
	return true
}

var apiMutationClasses = []string{"type_confusion", "boundary_string", "huge_number", "amount_as_string", "amount_as_number", "drop_field", "extra_field", "null_everything", "root_confusion"}

// ---------------------------------------------------------------- the real decoders
func metaSx(m map[string]string) string { return kvsx(sortKV(m)) }

func scriptSx(s vm.Script) string {
	return L("script", Q(s.Plain), Q(s.Template), metaSx(s.Vars))
}
func timeSx(t libtime.Time) string {
	if t.IsZero() {
		return "nil"
	}
	return fmt.Sprint(t.UnixMicro())
}

// txRequestSx = canonical form of an accepted TransactionRequest: ToCore's result, with the postings kept as postings
func txRequestSx(tr bulking.TransactionRequest) string {
	core, err := tr.ToCore()
	if err != nil {
		return L("client_error", "validation")
	}
	ps := make([]string, len(tr.Postings))
	for i, p := range tr.Postings {
		ps[i] = L(Q(p.Source), Q(p.Destination), Q(p.Asset), p.Amount.String())
	}
	sc := core.Script
	if len(tr.Postings) > 0 {
		sc = vm.Script{}
	}
	var accs []string
	for a := range core.AccountMetadata {
		accs = append(accs, a)
	}
	sort.Strings(accs)
	am := make([]string, len(accs))
	for i, a := range accs {
		am[i] = L(Q(a), metaSx(core.AccountMetadata[a]))
	}
	return L("request", L(ps...), scriptSx(sc), timeSx(core.Timestamp), Q(core.Reference), metaSx(core.Metadata), L(am...), Q(string(core.Runtime)), b01(tr.Force))
}

type decResult struct {
	sx    string
	panic string
	tr    *bulking.TransactionRequest
	core  *ledgercontroller.CreateTransaction
	sc    *vm.Script
}

func runDecoder(kind string, body []byte) (res decResult) {
	defer func() {
		if r := recover(); r != nil {
			res = decResult{sx: L("panic"), panic: fmt.Sprint(r)}
		}
	}()
	decErr := L("client_error", "decode")
	switch kind {
	case "v2tx":
		var tr bulking.TransactionRequest
		if err := json.Unmarshal(body, &tr); err != nil {
			return decResult{sx: decErr}
		}
		res.sx = txRequestSx(tr)
		res.tr = &tr
		if core, err := tr.ToCore(); err == nil {
			res.core = core
		}
	case "scriptv1":
		var s vm.ScriptV1
		if err := json.Unmarshal(body, &s); err != nil {
			return decResult{sx: decErr}
		}
		core := s.ToCore()
		res.sc = &core
		res.sx = scriptSx(core)
	case "v1script":
		var s v1.Script
		if err := json.Unmarshal(body, &s); err != nil {
			return decResult{sx: decErr}
		}
		// Script.ToCore ranges over the vars map in Go's unspecified order and stops at the first error. To stay deterministic
		// (also on a tree where a variable still panics) the real function is run once per variable (single-entry map).
		merged := map[string]string{}
		sawErr, panicMsg := false, ""
		for k, raw := range s.Vars {
			func() {
				defer func() {
					if r := recover(); r != nil {
						panicMsg = fmt.Sprint(r)
					}
				}()
				one := v1.Script{Script: s.Script, Vars: map[string]json.RawMessage{k: raw}}
				core, err := one.ToCore()
				if err != nil {
					sawErr = true
					return
				}
				merged[k] = core.Vars[k]
			}()
		}
		if panicMsg != "" {
			return decResult{sx: L("panic"), panic: panicMsg}
		}
		if sawErr {
			return decResult{sx: L("client_error", "validation")}
		}
		core, err := s.ToCore() // all variables are fine: the whole call must agree with the per-variable runs
		if err != nil {
			return decResult{sx: L("client_error", "validation")}
		}
		if len(core.Vars) != len(merged) {
			return decResult{sx: L("inconsistent", Q(fmt.Sprint(core.Vars)))}
		}
		res.sc = core
		res.sx = scriptSx(*core)
	case "bulk":
		var els []bulking.BulkElement
		if err := json.Unmarshal(body, &els); err != nil {
			return decResult{sx: decErr}
		}
		items := []string{"bulk"}
		// a JSON null element leaves the zero BulkElement (UnmarshalJSON is not called): recognisable by Data == nil
		for _, e := range els {
			var d string
			switch x := e.Data.(type) {
			case nil:
				d = "nil"
			case bulking.TransactionRequest:
				d = L("create", txRequestSx(x))
			case bulking.AddMetadataRequest:
				d = L("addmeta", Q(x.TargetType), rawSx(x.TargetID), metaSx(x.Metadata))
			case bulking.RevertTransactionRequest:
				d = L("revert", fmt.Sprint(x.ID), b01(x.Force), b01(x.AtEffectiveDate), metaSx(x.Metadata))
			case bulking.DeleteMetadataRequest:
				d = L("delmeta", Q(x.TargetType), rawSx(x.TargetID), Q(x.Key))
			default:
				d = L("unknown", Q(fmt.Sprintf("%T", x)))
			}
			items = append(items, L(Q(e.Action), Q(e.IdempotencyKey), d))
		}
		res.sx = L(items...)
	case "meta":
		var m metadata.Metadata
		if err := json.Unmarshal(body, &m); err != nil {
			return decResult{sx: decErr}
		}
		res.sx = L("meta", metaSx(m))
	case "time":
		var s string
		must(json.Unmarshal(body, &s))
		t, err := libtime.ParseTime(s)
		if err != nil {
			res.sx = L("time", "nil")
		} else {
			res.sx = L("time", fmt.Sprint(t.UnixMicro()))
		}
	default:
		panic("unknown kind " + kind)
	}
	return res
}
func rawSx(raw json.RawMessage) string {
	if raw == nil {
		return "null"
	}
	return ajFromRaw(raw).sx()
}

// ---------------------------------------------------------------- monitors (independent of the model)
// C36 on the decoders: an amount written in the body as an integer (JSON number or decimal string) must come out digit-exact.
func monitorAmounts(kind string, j *AJ, res decResult) []string {
	var out []string
	if res.panic != "" {
		return nil
	}
	switch kind {
	case "v2tx":
		if res.core == nil || res.tr == nil || len(res.tr.Postings) == 0 {
			if res.core != nil {
				out = append(out, monitorScriptVars("v2", j.get("script"), res.core.Script.Vars)...)
			}
			return out
		}
		ps := j.get("postings")
		vars := res.core.Script.Vars
		for i, p := range ps.A {
			amt, asset := p.get("amount"), p.get("asset")
			if amt == nil || amt.K != 'n' || amt.E != nil || asset == nil || asset.K != 's' {
				continue
			}
			want := asset.S + " " + amt.M.String()
			found := false
			for _, v := range vars {
				if v == want {
					found = true
				}
			}
			if !found || res.tr.Postings[i].Amount.Cmp(amt.M) != 0 {
				out = append(out, fmt.Sprintf("posting %d amount %s not carried exactly into the request (decoded %s, script vars %v) [posting-amount-inexact]", i, amt.M, res.tr.Postings[i].Amount, vars))
			}
		}
	case "scriptv1":
		if res.sc != nil {
			out = append(out, monitorScriptVars("v2", j, res.sc.Vars)...)
		}
	case "v1script":
		if res.sc != nil {
			out = append(out, monitorScriptVars("v1", j, res.sc.Vars)...)
		}
	}
	return out
}
func monitorScriptVars(api string, script *AJ, vars map[string]string) []string {
	var out []string
	if script == nil || script.K != 'o' {
		return nil
	}
	vs := script.get("vars")
	if vs == nil || vs.K != 'o' {
		return nil
	}
	for _, kv := range vs.O {
		v := kv.V
		switch {
		case v.K == 'o':
			asset, amt := v.get("asset"), v.get("amount")
			if asset == nil || asset.K != 's' || amt == nil {
				continue
			}
			var digits string
			form := ""
			if amt.K == 'n' && amt.E == nil {
				digits, form = amt.M.String(), "number"
			} else if amt.K == 's' && api == "v2" {
				digits, form = amt.S, "string"
			} else {
				continue
			}
			if got, want := vars[kv.K], asset.S+" "+digits; got != want {
				tag := "[script-amount-inexact]"
				out = append(out, fmt.Sprintf("%s script variable %s: monetary amount %s given as JSON %s became %q, expected %q %s", api, kv.K, digits, form, got, want, tag))
			}
		case v.K == 'n' && v.E == nil && api == "v2":
			got := vars[kv.K]
			if back, ok := new(big.Rat).SetString(got); !ok || !back.IsInt() || back.Num().Cmp(v.M) != 0 {
				out = append(out, fmt.Sprintf("v2 script variable %s: number %s became %q [script-number-inexact]", kv.K, v.M, got))
			}
		}
	}
	return out
}

// C38 on the decoders: an ACCEPTED postings request only carries well-formed postings (the statement of the property, written
// here independently of the code's own regexps and of the model)
var monAddrRe = regexp.MustCompile(`^[a-zA-Z0-9_-]+(:[a-zA-Z0-9_-]+)*$`)
var monAssetRe = regexp.MustCompile(`^[A-Z][A-Z0-9]{0,16}(_[A-Z]{1,16})?(/[0-9]{1,6})?$`)

func monitorAccepted(kind string, res decResult) string {
	if kind != "v2tx" || res.core == nil || res.tr == nil {
		return ""
	}
	for i, p := range res.tr.Postings {
		switch {
		case p.Amount == nil || p.Amount.Sign() < 0:
			return fmt.Sprintf("accepted request with posting %d without a non-negative amount [accepted-invalid-posting]", i)
		case !monAddrRe.MatchString(p.Source) || !monAddrRe.MatchString(p.Destination):
			return fmt.Sprintf("accepted request with posting %d having an invalid address %q -> %q [accepted-invalid-posting]", i, p.Source, p.Destination)
		case !monAssetRe.MatchString(p.Asset):
			return fmt.Sprintf("accepted request with posting %d having an invalid asset %q [accepted-invalid-posting]", i, p.Asset)
		}
	}
	return ""
}

// C38 on the decoders: a panic is never the answer to a body
func monitorPanic(kind string, j *AJ, res decResult) string {
	if res.panic == "" {
		return ""
	}
	return fmt.Sprintf("decoder %s panics: %s [decoder-panic]", kind, res.panic)
}

// ---------------------------------------------------------------- command
func apiCaseSx(kind string, j *AJ) string { return L("apidec", kind, j.sx()) }

func cmdAPIDec(args []string) int {
	f := ParseFlags(args)
	out := NewOut(f.Out)
	defer out.Close()
	seen := map[string]bool{}
	one := func(kind string, j *AJ, classes []string) {
		cs := apiCaseSx(kind, j)
		res := runDecoder(kind, []byte(j.Text()))
		out.Case(cs, res.sx)
		out.Stats["cases"]++
		out.Stats["kind_"+kind]++
		for _, c := range classes {
			out.Stats["mut_"+c]++
		}
		if len(classes) == 0 {
			out.Stats["mut_none"]++
		}
		switch {
		case res.panic != "":
			out.Stats["res_panic"]++
		case strings.HasPrefix(res.sx, "(client_error decode"):
			out.Stats["res_client_error_decode"]++
		case strings.HasPrefix(res.sx, "(client_error validation"):
			out.Stats["res_client_error_validation"]++
		default:
			out.Stats["res_accepted"]++
			if !seen[cs] {
				seen[cs] = true
				out.Stats["distinct_nontrivial"]++
			}
		}
		if msg := monitorPanic(kind, j, res); msg != "" {
			out.Violation("C38", cs, msg)
		}
		if msg := monitorAccepted(kind, res); msg != "" {
			out.Violation("C38", cs, msg)
		}
		for _, msg := range monitorAmounts(kind, j, res) {
			out.Violation("C36", cs, msg)
		}
	}
	if f.Replay != "" {
		for _, line := range ReadLines(f.Replay) {
			sx, err := ParseSx(line)
			must(err)
			one(sx.List[1].Atom, ajFromSx(sx.List[2]), nil)
		}
		return 0
	}
	r := NewRng(f.Seed)
	// fixed corpus first: the timestamp instance, the confirmed witnesses, spelled-out boundary cases
	for _, s := range append(append([]string{}, apiTimes...), apiBadTimes...) {
		one("time", ajstr(s), nil)
	}
	one("v1script", ajobj("plain", ajstr("x"), "vars", ajobj("x", jint(1))), []string{"type_confusion"})
	one("scriptv1", ajobj("plain", ajstr("x"), "vars", ajobj("x", ajobj("asset", ajstr("USD"), "amount", jbig(pow(2, 53, 1))))), []string{"amount_as_number"})
	kinds := []string{"v2tx", "v2tx", "v2tx", "scriptv1", "scriptv1", "v1script", "v1script", "bulk", "bulk", "meta"}
	for i := 0; i < f.N; i++ {
		rr := r.Fork()
		kind := Pick(rr, kinds)
		var j *AJ
		switch kind {
		case "v2tx":
			j = genTxJ(rr)
		case "scriptv1":
			j = genScriptJ(rr, false)
		case "v1script":
			j = genScriptJ(rr, true)
		case "bulk":
			j = genBulkJ(rr)
		default:
			j = genMetaJ(rr)
		}
		var classes []string
		nm := 0
		switch k := rr.Intn(10); {
		case k < 2:
			nm = 0
		case k < 8:
			nm = 1
		default:
			nm = 2
		}
		for m := 0; m < nm; m++ {
			c := Pick(rr, apiMutationClasses)
			if mutate(rr, j, c) {
				classes = append(classes, c)
			}
		}
		one(kind, j, classes)
	}
	return 0
}

var _ = ledger.Posting{}
