//go:build verif

package main

import (
	"context"
	"errors"
	"fmt"
	"math/big"
	"regexp"
	"sort"
	"strconv"
	"strings"
	"time"

	"github.com/formancehq/go-libs/v5/pkg/storage/bun/paginate"
	"github.com/formancehq/go-libs/v5/pkg/types/metadata"

	ledger "github.com/formancehq/ledger/internal"
	ledgerctl "github.com/formancehq/ledger/internal/controller/ledger"
	"github.com/formancehq/ledger/internal/machine"
	"github.com/formancehq/ledger/internal/machine/script/compiler"
	"github.com/formancehq/ledger/internal/machine/vm"
	"github.com/formancehq/ledger/internal/machine/vm/program"
	"github.com/formancehq/ledger/internal/storage/common"
	ledgerstore "github.com/formancehq/ledger/internal/storage/ledger"
	"github.com/formancehq/ledger/pkg/accounts"
	"github.com/formancehq/ledger/pkg/assets"
)

// C22/C23/C26/C27/C28: grammar-based Numscript programs through the REAL compiler.Compile + vm.Machine
// (and the interpreter runtime adapter for C26), compared with the extracted Coq semantics (Machine/Sem.v).
func init() {
	commands["ns"] = cmdNs
	commands["nslex"] = cmdNsLex
	commands["nsfront"] = cmdNsFront
}

// ---------------------------------------------------------------- AST (mirrors coq/theories/Machine/Syntax.v)
type nsAcc struct {
	Var bool
	S   string
}
type nsAsset struct {
	Var bool
	S   string
}
type nsMon struct {
	K     string // lit var add sub
	Asset nsAsset
	N     *big.Int
	X     string
	L, R  *nsMon
}
type nsPortion struct {
	K   string // c v rem
	N   *big.Int
	D   *big.Int
	X   string
	Raw string // when set: the literal text of a constant portion (degenerate forms: 1/0, 7 / 00, 150%, ...)
}
type nsVal struct {
	K   string // acc asset num str por mon var
	S   string
	N   *big.Int
	D   *big.Int
	M   *nsMon
	Raw string // portion literal text
}
type nsSource struct {
	K    string // acc max ord
	Acc  nsAcc
	Od   string // n u x   (none, up to, unbounded)
	OdM  *nsMon
	Max  *nsMon
	Sub  *nsSource
	List []*nsSource
}
type nsVSource struct {
	Allot bool
	S     *nsSource
	Ps    []nsPortion
	Ss    []*nsSource
}
type nsKod struct {
	Kept bool
	D    *nsDest
}
type nsDest struct {
	K    string // acc ord all
	Acc  nsAcc
	Maxs []*nsMon
	Kods []nsKod
	Rem  nsKod
	Ps   []nsPortion
}
type nsStmt struct {
	K     string // send sendall txmeta accmeta savemon saveall fail
	M     *nsMon
	Asset nsAsset
	VS    nsVSource
	D     *nsDest
	Key   string
	V     nsVal
	Acc   nsAcc
}
type nsDecl struct {
	Ty, Name string
	Origin   string // none meta bal
	Acc      nsAcc
	Key      string
	Asset    nsAsset
}
type nsValue struct {
	Ty  string // account asset number string monetary portion
	S   string
	N   *big.Int
	D   *big.Int
	Raw string // portion: the raw string handed to SetVarsFromJSON / stored as metadata
}
type nsCase struct {
	Decls []nsDecl
	Stmts []nsStmt
	Given map[string]nsValue
	Bal   map[[2]string]*big.Int
	Meta  map[[2]string]nsValue
}

// ---------------------------------------------------------------- s-expression printer
func (a nsAcc) sx() string {
	if a.Var {
		return L("avar", Q(a.S))
	}
	return L("alit", Q(a.S))
}
func (a nsAsset) sx() string {
	if a.Var {
		return L("svar", Q(a.S))
	}
	return L("slit", Q(a.S))
}
func (m *nsMon) sx() string {
	switch m.K {
	case "lit":
		return L("mlit", m.Asset.sx(), m.N.String())
	case "var":
		return L("mvar", Q(m.X))
	case "add":
		return L("madd", m.L.sx(), m.R.sx())
	default:
		return L("msub", m.L.sx(), m.R.sx())
	}
}
func (p nsPortion) sx() string {
	switch p.K {
	case "c":
		if p.Raw != "" {
			return L("pcs", Q(p.Raw))
		}
		return L("pc", p.N.String(), p.D.String())
	case "v":
		return L("pv", Q(p.X))
	default:
		return "(prem)"
	}
}
func (v nsVal) sx() string {
	switch v.K {
	case "acc":
		return L("vacc", Q(v.S))
	case "asset":
		return L("vasset", Q(v.S))
	case "num":
		return L("vnum", v.N.String())
	case "str":
		return L("vstr", Q(v.S))
	case "por":
		if v.Raw != "" {
			return L("vpors", Q(v.Raw))
		}
		return L("vpor", v.N.String(), v.D.String())
	case "mon":
		return L("vmon", v.M.sx())
	default:
		return L("vvar", Q(v.S))
	}
}
func (s *nsSource) sx() string {
	switch s.K {
	case "acc":
		od := "(odn)"
		if s.Od == "u" {
			od = L("odu", s.OdM.sx())
		} else if s.Od == "x" {
			od = "(odx)"
		}
		return L("sacc", s.Acc.sx(), od)
	case "max":
		return L("smax", s.Max.sx(), s.Sub.sx())
	default:
		xs := []string{"sord"}
		for _, x := range s.List {
			xs = append(xs, x.sx())
		}
		return L(xs...)
	}
}
func (v nsVSource) sx() string {
	if !v.Allot {
		return L("vsrc", v.S.sx())
	}
	xs := []string{"vall"}
	for i := range v.Ps {
		xs = append(xs, L(v.Ps[i].sx(), v.Ss[i].sx()))
	}
	return L(xs...)
}
func (k nsKod) sx() string {
	if k.Kept {
		return "(kept)"
	}
	return L("to", k.D.sx())
}
func (d *nsDest) sx() string {
	switch d.K {
	case "acc":
		return L("dacc", d.Acc.sx())
	case "ord":
		var xs []string
		for i := range d.Maxs {
			xs = append(xs, L(d.Maxs[i].sx(), d.Kods[i].sx()))
		}
		return L("dord", L(xs...), d.Rem.sx())
	default:
		xs := []string{"dall"}
		for i := range d.Ps {
			xs = append(xs, L(d.Ps[i].sx(), d.Kods[i].sx()))
		}
		return L(xs...)
	}
}
func (s nsStmt) sx() string {
	switch s.K {
	case "send":
		return L("send", s.M.sx(), s.VS.sx(), s.D.sx())
	case "sendall":
		return L("sendall", s.Asset.sx(), s.VS.S.sx(), s.D.sx())
	case "txmeta":
		return L("txmeta", Q(s.Key), s.V.sx())
	case "accmeta":
		return L("accmeta", s.Acc.sx(), Q(s.Key), s.V.sx())
	case "savemon":
		return L("savemon", s.M.sx(), s.Acc.sx())
	case "saveall":
		return L("saveall", s.Asset.sx(), s.Acc.sx())
	default:
		return "(fail)"
	}
}
func (d nsDecl) sx() string {
	o := "(onone)"
	if d.Origin == "meta" {
		o = L("ometa", d.Acc.sx(), Q(d.Key))
	} else if d.Origin == "bal" {
		o = L("obal", d.Acc.sx(), d.Asset.sx())
	}
	return L("decl", d.Ty, Q(d.Name), o)
}
func (v nsValue) sx() string {
	switch v.Ty {
	case "number":
		return L("number", v.N.String())
	case "monetary":
		return L("monetary", Q(v.S), v.N.String())
	case "portion":
		if v.Raw != "" {
			return L("portions", Q(v.Raw))
		}
		return L("portion", v.N.String(), v.D.String())
	default:
		return L(v.Ty, Q(v.S))
	}
}
func sortedKeys2[V any](m map[[2]string]V) [][2]string {
	ks := make([][2]string, 0, len(m))
	for k := range m {
		ks = append(ks, k)
	}
	sort.Slice(ks, func(i, j int) bool {
		if ks[i][0] != ks[j][0] {
			return ks[i][0] < ks[j][0]
		}
		return ks[i][1] < ks[j][1]
	})
	return ks
}
func (c *nsCase) sx() string {
	var ds, ss, gs, bs, ms []string
	for _, d := range c.Decls {
		ds = append(ds, d.sx())
	}
	for _, s := range c.Stmts {
		ss = append(ss, s.sx())
	}
	names := make([]string, 0, len(c.Given))
	for n := range c.Given {
		names = append(names, n)
	}
	sort.Strings(names)
	for _, n := range names {
		gs = append(gs, L(Q(n), c.Given[n].sx()))
	}
	for _, k := range sortedKeys2(c.Bal) {
		bs = append(bs, L(Q(k[0]), Q(k[1]), c.Bal[k].String()))
	}
	for _, k := range sortedKeys2(c.Meta) {
		ms = append(ms, L(Q(k[0]), Q(k[1]), c.Meta[k].sx()))
	}
	return L("ns", L(ds...), L(ss...), L(gs...), L(bs...), L(ms...))
}

// ---------------------------------------------------------------- s-expression reader (replays)
func sxAcc(x *Sx) nsAcc     { return nsAcc{Var: x.List[0].Atom == "avar", S: x.List[1].Atom} }
func sxAsset(x *Sx) nsAsset { return nsAsset{Var: x.List[0].Atom == "svar", S: x.List[1].Atom} }
func sxBig(x *Sx) *big.Int {
	n, ok := new(big.Int).SetString(x.Atom, 10)
	if !ok {
		panic("bad integer " + x.Atom)
	}
	return n
}
func sxMon(x *Sx) *nsMon {
	switch x.List[0].Atom {
	case "mlit":
		return &nsMon{K: "lit", Asset: sxAsset(x.List[1]), N: sxBig(x.List[2])}
	case "mvar":
		return &nsMon{K: "var", X: x.List[1].Atom}
	case "madd":
		return &nsMon{K: "add", L: sxMon(x.List[1]), R: sxMon(x.List[2])}
	default:
		return &nsMon{K: "sub", L: sxMon(x.List[1]), R: sxMon(x.List[2])}
	}
}
func sxPortion(x *Sx) nsPortion {
	switch x.List[0].Atom {
	case "pc":
		return nsPortion{K: "c", N: sxBig(x.List[1]), D: sxBig(x.List[2])}
	case "pcs":
		return nsPortion{K: "c", Raw: x.List[1].Atom}
	case "pv":
		return nsPortion{K: "v", X: x.List[1].Atom}
	default:
		return nsPortion{K: "rem"}
	}
}
func sxVal(x *Sx) nsVal {
	switch x.List[0].Atom {
	case "vacc":
		return nsVal{K: "acc", S: x.List[1].Atom}
	case "vasset":
		return nsVal{K: "asset", S: x.List[1].Atom}
	case "vnum":
		return nsVal{K: "num", N: sxBig(x.List[1])}
	case "vstr":
		return nsVal{K: "str", S: x.List[1].Atom}
	case "vpor":
		return nsVal{K: "por", N: sxBig(x.List[1]), D: sxBig(x.List[2])}
	case "vpors":
		return nsVal{K: "por", Raw: x.List[1].Atom}
	case "vmon":
		return nsVal{K: "mon", M: sxMon(x.List[1])}
	default:
		return nsVal{K: "var", S: x.List[1].Atom}
	}
}
func sxSource(x *Sx) *nsSource {
	switch x.List[0].Atom {
	case "sacc":
		s := &nsSource{K: "acc", Acc: sxAcc(x.List[1]), Od: "n"}
		switch x.List[2].List[0].Atom {
		case "odu":
			s.Od, s.OdM = "u", sxMon(x.List[2].List[1])
		case "odx":
			s.Od = "x"
		}
		return s
	case "smax":
		return &nsSource{K: "max", Max: sxMon(x.List[1]), Sub: sxSource(x.List[2])}
	default:
		s := &nsSource{K: "ord"}
		for _, y := range x.List[1:] {
			s.List = append(s.List, sxSource(y))
		}
		return s
	}
}
func sxKod(x *Sx) nsKod {
	if x.List[0].Atom == "kept" {
		return nsKod{Kept: true}
	}
	return nsKod{D: sxDest(x.List[1])}
}
func sxDest(x *Sx) *nsDest {
	switch x.List[0].Atom {
	case "dacc":
		return &nsDest{K: "acc", Acc: sxAcc(x.List[1])}
	case "dord":
		d := &nsDest{K: "ord", Rem: sxKod(x.List[2])}
		for _, y := range x.List[1].List {
			d.Maxs = append(d.Maxs, sxMon(y.List[0]))
			d.Kods = append(d.Kods, sxKod(y.List[1]))
		}
		return d
	default:
		d := &nsDest{K: "all"}
		for _, y := range x.List[1:] {
			d.Ps = append(d.Ps, sxPortion(y.List[0]))
			d.Kods = append(d.Kods, sxKod(y.List[1]))
		}
		return d
	}
}
func sxValue(x *Sx) nsValue {
	switch x.List[0].Atom {
	case "number":
		return nsValue{Ty: "number", N: sxBig(x.List[1])}
	case "monetary":
		return nsValue{Ty: "monetary", S: x.List[1].Atom, N: sxBig(x.List[2])}
	case "portion":
		return nsValue{Ty: "portion", N: sxBig(x.List[1]), D: sxBig(x.List[2])}
	case "portions":
		return nsValue{Ty: "portion", Raw: x.List[1].Atom}
	default:
		return nsValue{Ty: x.List[0].Atom, S: x.List[1].Atom}
	}
}
func sxCase(x *Sx) *nsCase {
	c := &nsCase{Given: map[string]nsValue{}, Bal: map[[2]string]*big.Int{}, Meta: map[[2]string]nsValue{}}
	for _, d := range x.List[1].List {
		nd := nsDecl{Ty: d.List[1].Atom, Name: d.List[2].Atom, Origin: "none"}
		o := d.List[3]
		switch o.List[0].Atom {
		case "ometa":
			nd.Origin, nd.Acc, nd.Key = "meta", sxAcc(o.List[1]), o.List[2].Atom
		case "obal":
			nd.Origin, nd.Acc, nd.Asset = "bal", sxAcc(o.List[1]), sxAsset(o.List[2])
		}
		c.Decls = append(c.Decls, nd)
	}
	for _, s := range x.List[2].List {
		var st nsStmt
		switch s.List[0].Atom {
		case "send":
			st = nsStmt{K: "send", M: sxMon(s.List[1]), D: sxDest(s.List[3])}
			v := s.List[2]
			if v.List[0].Atom == "vsrc" {
				st.VS = nsVSource{S: sxSource(v.List[1])}
			} else {
				st.VS = nsVSource{Allot: true}
				for _, y := range v.List[1:] {
					st.VS.Ps = append(st.VS.Ps, sxPortion(y.List[0]))
					st.VS.Ss = append(st.VS.Ss, sxSource(y.List[1]))
				}
			}
		case "sendall":
			st = nsStmt{K: "sendall", Asset: sxAsset(s.List[1]), VS: nsVSource{S: sxSource(s.List[2])}, D: sxDest(s.List[3])}
		case "txmeta":
			st = nsStmt{K: "txmeta", Key: s.List[1].Atom, V: sxVal(s.List[2])}
		case "accmeta":
			st = nsStmt{K: "accmeta", Acc: sxAcc(s.List[1]), Key: s.List[2].Atom, V: sxVal(s.List[3])}
		case "savemon":
			st = nsStmt{K: "savemon", M: sxMon(s.List[1]), Acc: sxAcc(s.List[2])}
		case "saveall":
			st = nsStmt{K: "saveall", Asset: sxAsset(s.List[1]), Acc: sxAcc(s.List[2])}
		default:
			st = nsStmt{K: "fail"}
		}
		c.Stmts = append(c.Stmts, st)
	}
	for _, g := range x.List[3].List {
		c.Given[g.List[0].Atom] = sxValue(g.List[1])
	}
	for _, b := range x.List[4].List {
		c.Bal[[2]string{b.List[0].Atom, b.List[1].Atom}] = sxBig(b.List[2])
	}
	for _, m := range x.List[5].List {
		c.Meta[[2]string{m.List[0].Atom, m.List[1].Atom}] = sxValue(m.List[2])
	}
	return c
}

// ---------------------------------------------------------------- Numscript text printer (trusted: AST -> text)
func (a nsAcc) text() string {
	if a.Var {
		return "$" + a.S
	}
	return "@" + a.S
}
func (a nsAsset) text() string {
	if a.Var {
		return "$" + a.S
	}
	return a.S
}
func (m *nsMon) text() string {
	switch m.K {
	case "lit":
		return "[" + m.Asset.text() + " " + m.N.String() + "]"
	case "var":
		return "$" + m.X
	case "add":
		return m.L.text() + " + " + m.R.text()
	default:
		return m.L.text() + " - " + m.R.text()
	}
}
func (p nsPortion) text() string {
	switch p.K {
	case "c":
		if p.Raw != "" {
			return p.Raw
		}
		return p.N.String() + "/" + p.D.String()
	case "v":
		return "$" + p.X
	default:
		return "remaining"
	}
}
func (v nsVal) text() string {
	switch v.K {
	case "acc":
		return "@" + v.S
	case "asset":
		return v.S
	case "num":
		return v.N.String()
	case "str":
		return "\"" + v.S + "\""
	case "por":
		if v.Raw != "" {
			return v.Raw
		}
		return v.N.String() + "/" + v.D.String()
	case "mon":
		return v.M.text()
	default:
		return "$" + v.S
	}
}
func (s *nsSource) text(ind string) string {
	switch s.K {
	case "acc":
		t := s.Acc.text()
		if s.Od == "u" {
			t += " allowing overdraft up to " + s.OdM.text()
		} else if s.Od == "x" {
			t += " allowing unbounded overdraft"
		}
		return t
	case "max":
		return "max " + s.Max.text() + " from " + s.Sub.text(ind)
	default:
		t := "{\n"
		for _, x := range s.List {
			t += ind + "  " + x.text(ind+"  ") + "\n"
		}
		return t + ind + "}"
	}
}
func (v nsVSource) text(ind string) string {
	if !v.Allot {
		return v.S.text(ind)
	}
	t := "{\n"
	for i := range v.Ps {
		t += ind + "  " + v.Ps[i].text() + " from " + v.Ss[i].text(ind+"  ") + "\n"
	}
	return t + ind + "}"
}
func (k nsKod) text(ind string) string {
	if k.Kept {
		return "kept"
	}
	return "to " + k.D.text(ind)
}
func (d *nsDest) text(ind string) string {
	switch d.K {
	case "acc":
		return d.Acc.text()
	case "ord":
		t := "{\n"
		for i := range d.Maxs {
			t += ind + "  max " + d.Maxs[i].text() + " " + d.Kods[i].text(ind+"  ") + "\n"
		}
		t += ind + "  remaining " + d.Rem.text(ind+"  ") + "\n"
		return t + ind + "}"
	default:
		t := "{\n"
		for i := range d.Ps {
			t += ind + "  " + d.Ps[i].text() + " " + d.Kods[i].text(ind+"  ") + "\n"
		}
		return t + ind + "}"
	}
}
func (c *nsCase) text() string {
	var b strings.Builder
	if len(c.Decls) > 0 {
		b.WriteString("vars {\n")
		for _, d := range c.Decls {
			b.WriteString("  " + d.Ty + " $" + d.Name)
			if d.Origin == "meta" {
				b.WriteString(" = meta(" + d.Acc.text() + ", \"" + d.Key + "\")")
			} else if d.Origin == "bal" {
				b.WriteString(" = balance(" + d.Acc.text() + ", " + d.Asset.text() + ")")
			}
			b.WriteString("\n")
		}
		b.WriteString("}\n")
	}
	for i, s := range c.Stmts {
		if i > 0 {
			b.WriteString("\n")
		}
		switch s.K {
		case "send":
			b.WriteString("send " + s.M.text() + " (\n  source = " + s.VS.text("  ") + "\n  destination = " + s.D.text("  ") + "\n)")
		case "sendall":
			b.WriteString("send [" + s.Asset.text() + " *] (\n  source = " + s.VS.text("  ") + "\n  destination = " + s.D.text("  ") + "\n)")
		case "txmeta":
			b.WriteString("set_tx_meta(\"" + s.Key + "\", " + s.V.text() + ")")
		case "accmeta":
			b.WriteString("set_account_meta(" + s.Acc.text() + ", \"" + s.Key + "\", " + s.V.text() + ")")
		case "savemon":
			b.WriteString("save " + s.M.text() + " from " + s.Acc.text())
		case "saveall":
			b.WriteString("save [" + s.Asset.text() + " *] from " + s.Acc.text())
		default:
			b.WriteString("fail")
		}
	}
	b.WriteString("\n")
	return b.String()
}

// value -> the string form SetVarsFromJSON / account metadata carry
func (v nsValue) str() string {
	switch v.Ty {
	case "number":
		return v.N.String()
	case "monetary":
		return v.S + " " + v.N.String()
	case "portion":
		if v.Raw != "" {
			return v.Raw
		}
		return v.N.String() + "/" + v.D.String()
	default:
		return v.S
	}
}

// ---------------------------------------------------------------- in-memory stores
type nsVmStore struct{ c *nsCase }

func (s nsVmStore) GetBalances(_ context.Context, q vm.BalanceQuery) (vm.Balances, error) {
	ret := vm.Balances{}
	for acc, as := range q {
		if ret[acc] == nil {
			ret[acc] = map[string]*big.Int{}
		}
		for _, a := range as {
			if b, ok := s.c.Bal[[2]string{acc, a}]; ok {
				ret[acc][a] = new(big.Int).Set(b)
			} else {
				ret[acc][a] = new(big.Int)
			}
		}
	}
	return ret, nil
}
func (s nsVmStore) accountMeta(address string) metadata.Metadata {
	m := metadata.Metadata{}
	for k, v := range s.c.Meta {
		if k[0] == address {
			m[k[1]] = v.str()
		}
	}
	return m
}
func (s nsVmStore) GetAccount(_ context.Context, address string) (*ledger.Account, error) {
	return &ledger.Account{Address: address, Metadata: s.accountMeta(address)}, nil
}

// controller-level Store for the two runtime adapters: only GetBalances and Accounts().GetOne are reached
type nsCtlStore struct {
	ledgerctl.Store
	vs nsVmStore
}

func (s *nsCtlStore) GetBalances(ctx context.Context, q ledgerstore.BalanceQuery) (ledger.Balances, error) {
	return s.vs.GetBalances(ctx, q)
}

type nsAccounts struct{ vs nsVmStore }

func (a nsAccounts) GetOne(_ context.Context, q common.ResourceQuery[any]) (*ledger.Account, error) {
	addr := ""
	_ = q.Builder.Walk(func(_ string, key string, value *any) error {
		if key == "address" {
			addr, _ = (*value).(string)
		}
		return nil
	})
	return &ledger.Account{Address: addr, Metadata: a.vs.accountMeta(addr)}, nil
}
func (a nsAccounts) Count(context.Context, common.ResourceQuery[any]) (int, error) { return 0, nil }
func (a nsAccounts) Paginate(context.Context, common.PaginatedQuery[any]) (*paginate.Cursor[ledger.Account], error) {
	return nil, errors.New("not used")
}
func (s *nsCtlStore) Accounts() common.PaginatedResource[ledger.Account, any] { return nsAccounts{s.vs} }

// ---------------------------------------------------------------- running the real code
func nsErrClass(err error) string {
	switch {
	case errors.Is(err, &machine.ErrInsufficientFund{}):
		return "insufficient"
	case errors.Is(err, &machine.ErrInvalidScript{}):
		return "invalid_script"
	case errors.Is(err, &machine.ErrNegativeAmount{}):
		return "negative_amount"
	case errors.Is(err, &machine.ErrMissingMetadata{}):
		return "missing_metadata"
	case errors.Is(err, &machine.ErrInvalidVars{}):
		return "invalid_vars"
	case errors.Is(err, machine.ErrScriptFailed):
		return "script_failed"
	}
	return "other"
}

type nsPosting struct {
	Src, Dst, Asset string
	Amt             *big.Int
}
type nsRun struct {
	Class    string // ok, err class, panic, timeout
	PanicMsg string
	Posts    []nsPosting
	TxMeta   map[string]string
	AccMeta  map[[2]string]string
	Init     map[[2]string]*big.Int // tracked balances right after ResolveBalances
	Final    map[[2]string]*big.Int // the same keys after Execute
}

func (c *nsCase) givenJSON() map[string]string {
	m := map[string]string{}
	for k, v := range c.Given {
		m[k] = v.str()
	}
	return m
}

// withTimeout runs f under recover() in a goroutine; ok=false on timeout (the goroutine is abandoned)
func withTimeout(d time.Duration, f func()) (panicMsg string, timedOut bool) {
	done := make(chan string, 1)
	go func() {
		defer func() {
			if r := recover(); r != nil {
				done <- fmt.Sprint("panic: ", r)
			}
		}()
		f()
		done <- ""
	}()
	select {
	case m := <-done:
		return m, false
	case <-time.After(d):
		return "", true
	}
}

// runMachine drives compiler.Compile + vm.Machine exactly as MachineNumscriptRuntimeAdapter.Execute does
func runMachine(script string, c *nsCase) nsRun {
	var r nsRun
	pm, to := withTimeout(5*time.Second, func() {
		prog, err := compiler.Compile(script)
		if err != nil {
			r.Class = "compile"
			return
		}
		m := vm.NewMachine(*prog)
		m.Printer = func(ch chan machine.Value) {
			for range ch {
			}
		}
		if err := m.SetVarsFromJSON(c.givenJSON()); err != nil {
			r.Class = nsErrClass(err)
			return
		}
		st := nsVmStore{c}
		if err := m.ResolveResources(context.Background(), st); err != nil {
			r.Class = nsErrClass(err)
			return
		}
		if err := m.ResolveBalances(context.Background(), st); err != nil {
			r.Class = nsErrClass(err)
			return
		}
		r.Init = map[[2]string]*big.Int{}
		for acc, as := range m.Balances {
			for a, b := range as {
				r.Init[[2]string{string(acc), string(a)}] = new(big.Int).Set(b.ToBigInt())
			}
		}
		if err := m.Execute(); err != nil {
			r.Class = nsErrClass(err)
			return
		}
		r.Class = "ok"
		for _, p := range m.Postings {
			r.Posts = append(r.Posts, nsPosting{p.Source, p.Destination, p.Asset, new(big.Int).Set(p.Amount.ToBigInt())})
		}
		r.TxMeta = map[string]string{}
		for k, v := range m.GetTxMetaJSON() {
			r.TxMeta[k] = v
		}
		r.AccMeta = map[[2]string]string{}
		for a, kv := range m.GetAccountsMetaJSON() {
			for k, v := range kv {
				r.AccMeta[[2]string{a, k}] = v
			}
		}
		r.Final = map[[2]string]*big.Int{}
		for k := range r.Init {
			if b, ok := m.Balances[machine.AccountAddress(k[0])][machine.Asset(k[1])]; ok && b != nil {
				r.Final[k] = new(big.Int).Set(b.ToBigInt())
			}
		}
	})
	if to {
		return nsRun{Class: "timeout"}
	}
	if pm != "" {
		return nsRun{Class: "panic", PanicMsg: pm}
	}
	return r
}

func (r nsRun) sx() string {
	switch r.Class {
	case "ok":
		var ps, tx, am, bs []string
		for _, p := range r.Posts {
			ps = append(ps, L(Q(p.Src), Q(p.Dst), Q(p.Asset), p.Amt.String()))
		}
		ks := make([]string, 0, len(r.TxMeta))
		for k := range r.TxMeta {
			ks = append(ks, k)
		}
		sort.Strings(ks)
		for _, k := range ks {
			tx = append(tx, L(Q(k), Q(r.TxMeta[k])))
		}
		for _, k := range sortedKeys2(r.AccMeta) {
			am = append(am, L(Q(k[0]), Q(k[1]), Q(r.AccMeta[k])))
		}
		for _, k := range sortedKeys2(r.Final) {
			bs = append(bs, L(Q(k[0]), Q(k[1]), r.Init[k].String(), r.Final[k].String()))
		}
		return L("ok", L(ps...), L(tx...), L(am...), L(bs...))
	case "panic":
		return "(panic)"
	case "timeout":
		return "(timeout)"
	default:
		return L("err", r.Class)
	}
}

// adapters of internal/controller/ledger (C26 head-to-head, C27 "no partial result")
type nsAdapterRun struct {
	Class   string // ok err panic timeout
	Err     string
	Posts   []nsPosting
	TxMeta  map[string]string
	AccMeta map[[2]string]string
	Partial bool // error AND a non-nil result
}

func runAdapter(interp bool, script string, c *nsCase) nsAdapterRun {
	var r nsAdapterRun
	pm, to := withTimeout(5*time.Second, func() {
		var parser ledgerctl.NumscriptParser = ledgerctl.NewDefaultNumscriptParser()
		if interp {
			parser = ledgerctl.NewInterpreterNumscriptParser(nil)
		}
		rt, err := parser.Parse(script)
		if err != nil {
			r.Class, r.Err = "err", "parse: "+err.Error()
			return
		}
		res, err := rt.Execute(context.Background(), &nsCtlStore{vs: nsVmStore{c}}, c.givenJSON())
		if err != nil {
			r.Class, r.Err, r.Partial = "err", err.Error(), res != nil
			return
		}
		r.Class = "ok"
		for _, p := range res.Postings {
			r.Posts = append(r.Posts, nsPosting{p.Source, p.Destination, p.Asset, new(big.Int).Set(p.Amount)})
		}
		r.TxMeta = map[string]string{}
		for k, v := range res.Metadata {
			r.TxMeta[k] = v
		}
		r.AccMeta = map[[2]string]string{}
		for a, kv := range res.AccountMetadata {
			for k, v := range kv {
				r.AccMeta[[2]string{a, k}] = v
			}
		}
	})
	if to {
		return nsAdapterRun{Class: "timeout"}
	}
	if pm != "" {
		return nsAdapterRun{Class: "panic", Err: pm}
	}
	return r
}

func nonZero(ps []nsPosting) []string {
	var out []string
	for _, p := range ps {
		if p.Amt.Sign() != 0 {
			out = append(out, fmt.Sprintf("%s>%s %s %s", p.Src, p.Dst, p.Asset, p.Amt))
		}
	}
	return out
}
func mapStr[K comparable](m map[K]string) string {
	var xs []string
	for k, v := range m {
		xs = append(xs, fmt.Sprint(k, "=", v))
	}
	sort.Strings(xs)
	return strings.Join(xs, ";")
}

// ---------------------------------------------------------------- generator
type nsGen struct {
	r        *Rng
	c        *nsCase
	accVars  []string // declared account variables (plain or meta-sourced)
	monVars  []string
	asVars   []string
	porVars  []string
	anyVars  []string
	varAsset map[string]string // monetary var -> asset
	edge     bool              // literal assets at the edge of the lexer rule allowed
	shared   bool              // C26: stay inside the language both runtimes accept (no deliberate faults)
	depth    int
}

var nsAccNames = []string{"a", "b", "c", "d:x", "e-1", "world"}
var nsAssets = []string{"USD", "EUR/2", "COIN"}
// degenerate / unusual portion texts (machine.ParsePortionSpecific): zero denominator, zero numerator, leading zeros,
// blanks around '/', above 100 %, huge terms, percent forms
var nsOddPortions = []string{"1/0", "0/0", "7 / 00", "0/5", "05/010", "1 /2", "1/ 2", "3/2", "150%", "0%", "100.0%", "100%", "12.5%", "00.50%",
	"1/1000000000000000000000000000000", "99999999999999999999/100000000000000000000", "18446744073709551616/18446744073709551617", "2/0000"}

var nsFracRe = regexp.MustCompile(`^([0-9]+)\s?/\s?([0-9]+)$`)

var nsEdgeAssets = []string{"USD//2", "12A", "A/1234567", "/", "ABCDEFGHIJKLMNOPQRS", "USD/2/3", "9", "U/"}

func (g *nsGen) amount() *big.Int {
	switch g.r.Intn(12) {
	case 0:
		return big.NewInt(0)
	case 1:
		return big.NewInt(1)
	case 2:
		return g.r.BigAmount()
	default:
		return big.NewInt(int64(g.r.Intn(120)))
	}
}
func (g *nsGen) accLit(world bool) nsAcc {
	for {
		a := Pick(g.r, nsAccNames)
		if a != "world" || world {
			return nsAcc{S: a}
		}
	}
}
func (g *nsGen) acc(world bool) nsAcc {
	if len(g.accVars) > 0 && g.r.Chance(25) {
		return nsAcc{Var: true, S: Pick(g.r, g.accVars)}
	}
	if g.r.Chance(2) && !g.shared {
		return nsAcc{Var: true, S: "undeclared"}
	}
	return g.accLit(world)
}
func (g *nsGen) asset(A string) nsAsset {
	for _, v := range g.asVars {
		if g.c.Given[v].S == A && g.r.Chance(40) {
			return nsAsset{Var: true, S: v}
		}
	}
	return nsAsset{S: A}
}

// a monetary expression in asset A (mostly), amounts small
func (g *nsGen) mon(A string) *nsMon {
	if g.r.Chance(3) && !g.shared {
		A = Pick(g.r, nsAssets) // asset mismatch
	}
	k := g.r.Intn(100)
	switch {
	case k < 12 && len(g.monVars) > 0:
		var cands []string
		for _, v := range g.monVars {
			if g.varAsset[v] == A || (g.r.Chance(5) && !g.shared) {
				cands = append(cands, v)
			}
		}
		if len(cands) > 0 {
			return &nsMon{K: "var", X: Pick(g.r, cands)}
		}
	case k < 18 && g.depth < 2:
		g.depth++
		defer func() { g.depth-- }()
		return &nsMon{K: "add", L: g.mon(A), R: g.monLeaf(A)}
	case k < 22 && g.depth < 2 && !g.shared:
		g.depth++
		defer func() { g.depth-- }()
		return &nsMon{K: "sub", L: g.mon(A), R: g.monLeaf(A)}
	}
	return &nsMon{K: "lit", Asset: g.asset(A), N: g.amount()}
}

// the grammar has no parentheses: the right operand of + / - is always a literal or a variable
func (g *nsGen) monLeaf(A string) *nsMon {
	g.depth += 10
	defer func() { g.depth -= 10 }()
	return g.mon(A)
}

// portions: constants summing to 1, or constants/variables plus remaining; rarely malformed
func (g *nsGen) portions(n int) []nsPortion {
	ps := make([]nsPortion, n)
	bad := g.r.Chance(5) && !g.shared
	if g.r.Chance(45) && !bad {
		ws := make([]int64, n)
		var tot int64
		for i := range ws {
			ws[i] = int64(g.r.Intn(6))
			tot += ws[i]
		}
		if tot == 0 {
			ws[0], tot = 1, 1
		}
		for i := range ps {
			ps[i] = nsPortion{K: "c", N: big.NewInt(ws[i]), D: big.NewInt(tot)}
		}
		return ps
	}
	dens := []int64{2, 3, 4, 5, 8, 10, 100}
	rem := g.r.Intn(n)
	left := big.NewRat(1, 1)
	for i := range ps {
		if i == rem && !(bad && g.r.Chance(50)) {
			ps[i] = nsPortion{K: "rem"}
			continue
		}
		if len(g.porVars) > 0 && g.r.Chance(25) {
			ps[i] = nsPortion{K: "v", X: Pick(g.r, g.porVars)}
			continue
		}
		d := Pick(g.r, dens)
		p := big.NewRat(int64(g.r.Intn(int(d)+1)), d)
		if p.Cmp(left) > 0 && !bad {
			p = new(big.Rat).Mul(left, big.NewRat(1, 2))
		}
		left.Sub(left, p)
		ps[i] = nsPortion{K: "c", N: new(big.Int).Set(p.Num()), D: new(big.Int).Set(p.Denom())}
		if g.r.Chance(7) && !g.shared {
			ps[i] = nsPortion{K: "c", Raw: Pick(g.r, nsOddPortions)}
			continue
		}
		if g.r.Chance(30) { // non-normalised text
			ps[i].N.Mul(ps[i].N, big.NewInt(2))
			ps[i].D.Mul(ps[i].D, big.NewInt(2))
		}
	}
	return ps
}

func (g *nsGen) source(A string, depth int, unboundedOK bool, used map[string]bool) *nsSource {
	k := g.r.Intn(100)
	switch {
	case k < 18 && depth < 3:
		return &nsSource{K: "max", Max: g.mon(A), Sub: g.source(A, depth+1, true, map[string]bool{})}
	case k < 40 && depth < 3:
		n := 1 + g.r.Intn(3)
		s := &nsSource{K: "ord"}
		for i := 0; i < n; i++ {
			s.List = append(s.List, g.source(A, depth+1, unboundedOK && (i == n-1 || g.r.Chance(4)), used))
		}
		return s
	}
	s := &nsSource{K: "acc", Od: "n"}
	for tries := 0; ; tries++ {
		s.Acc = g.acc(unboundedOK)
		key := s.Acc.text()
		if !used[key] || tries > 4 || g.r.Chance(3) {
			used[key] = true
			break
		}
	}
	if s.Acc.S == "world" && !s.Acc.Var {
		if g.r.Chance(3) {
			s.Od = "x"
		}
		return s
	}
	switch o := g.r.Intn(100); {
	case o < 15:
		s.Od, s.OdM = "u", g.mon(A)
	case o < 25 && unboundedOK:
		s.Od = "x"
	}
	return s
}

func (g *nsGen) kod(A string, depth int) nsKod {
	if g.r.Chance(20) {
		return nsKod{Kept: true}
	}
	return nsKod{D: g.dest(A, depth+1)}
}
func (g *nsGen) dest(A string, depth int) *nsDest {
	k := g.r.Intn(100)
	switch {
	case k < 20 && depth < 3:
		n := 1 + g.r.Intn(3)
		d := &nsDest{K: "ord", Rem: g.kod(A, depth)}
		for i := 0; i < n; i++ {
			d.Maxs = append(d.Maxs, g.mon(A))
			d.Kods = append(d.Kods, g.kod(A, depth))
		}
		return d
	case k < 40 && depth < 3:
		n := 1 + g.r.Intn(3)
		d := &nsDest{K: "all", Ps: g.portions(n)}
		for i := 0; i < n; i++ {
			d.Kods = append(d.Kods, g.kod(A, depth))
		}
		return d
	}
	return &nsDest{K: "acc", Acc: g.acc(true)}
}

func (g *nsGen) val() nsVal {
	switch g.r.Intn(8) {
	case 0:
		return nsVal{K: "acc", S: Pick(g.r, nsAccNames)}
	case 1:
		return nsVal{K: "asset", S: Pick(g.r, nsAssets)}
	case 2:
		return nsVal{K: "num", N: g.amount()}
	case 3:
		return nsVal{K: "str", S: Pick(g.r, []string{"hello", "x y", "", "k1"})}
	case 4:
		if g.r.Chance(25) && !g.shared {
			return nsVal{K: "por", Raw: Pick(g.r, nsOddPortions)}
		}
		return nsVal{K: "por", N: big.NewInt(int64(g.r.Intn(5))), D: big.NewInt(4 + int64(g.r.Intn(4)))}
	case 5:
		return nsVal{K: "mon", M: g.mon(Pick(g.r, nsAssets))}
	default:
		if len(g.anyVars) > 0 {
			return nsVal{K: "var", S: Pick(g.r, g.anyVars)}
		}
		return nsVal{K: "num", N: g.amount()}
	}
}

func genNsCase(r *Rng, profile string) *nsCase {
	c := &nsCase{Given: map[string]nsValue{}, Bal: map[[2]string]*big.Int{}, Meta: map[[2]string]nsValue{}}
	g := &nsGen{r: r, c: c, varAsset: map[string]string{}}
	g.shared = profile == "shared"
	g.edge = profile == "edge" || (r.Chance(4) && !g.shared)
	// store: balances (some negative, some huge), metadata
	for _, a := range nsAccNames {
		for _, as := range append(append([]string{}, nsAssets...), "USD_X", "EUR") {
			if r.Chance(70) {
				b := big.NewInt(int64(r.Intn(300)))
				if r.Chance(12) {
					b.Neg(b)
				} else if r.Chance(5) {
					b = r.BigAmount()
				} else if r.Chance(10) {
					b = big.NewInt(0)
				}
				c.Bal[[2]string{a, as}] = b
			}
		}
	}
	c.Meta[[2]string{"a", "acc"}] = nsValue{Ty: "account", S: Pick(r, []string{"b", "m:1", "world", "c"})}
	c.Meta[[2]string{"b", "acc"}] = nsValue{Ty: "account", S: Pick(r, []string{"a", "m:2"})}
	c.Meta[[2]string{"a", "fee"}] = nsValue{Ty: "portion", N: big.NewInt(int64(r.Intn(4))), D: big.NewInt(8)}
	if r.Chance(12) && profile != "shared" {
		c.Meta[[2]string{"a", "fee"}] = nsValue{Ty: "portion", Raw: Pick(r, nsOddPortions)}
	}
	c.Meta[[2]string{"a", "limit"}] = nsValue{Ty: "monetary", S: Pick(r, nsAssets), N: big.NewInt(int64(r.Intn(100)))}
	if r.Chance(5) && profile != "shared" {
		c.Meta[[2]string{"a", "acc"}] = nsValue{Ty: "account", S: "not an address"}
	}
	if profile == "shared" {
		c.Meta[[2]string{"a", "acc"}] = nsValue{Ty: "account", S: Pick(r, []string{"b", "m:1", "c"})}
	}
	// variables
	if r.Chance(55) {
		addPlain := func(ty, name string, v nsValue) {
			c.Decls = append(c.Decls, nsDecl{Ty: ty, Name: name, Origin: "none"})
			c.Given[name] = v
			g.anyVars = append(g.anyVars, name)
		}
		if r.Chance(60) {
			accv := Pick(r, []string{"a", "b", "v:1", "world", "c"})
			if g.shared && accv == "world" {
				accv = "v:3"
			}
			addPlain("account", "acc", nsValue{Ty: "account", S: accv})
			g.accVars = append(g.accVars, "acc")
		}
		if r.Chance(30) {
			addPlain("account", "acc2", nsValue{Ty: "account", S: Pick(r, []string{"a", "v:2", "d:x"})})
			g.accVars = append(g.accVars, "acc2")
		}
		if r.Chance(40) {
			A := Pick(r, append(append([]string{}, nsAssets...), "USD_X"))
			addPlain("monetary", "m", nsValue{Ty: "monetary", S: A, N: g.amount()})
			g.monVars = append(g.monVars, "m")
			g.varAsset["m"] = A
		}
		if r.Chance(25) {
			addPlain("asset", "as", nsValue{Ty: "asset", S: Pick(r, append(append([]string{}, nsAssets...), "USD_X"))})
			g.asVars = append(g.asVars, "as")
		}
		if r.Chance(30) {
			addPlain("portion", "p", nsValue{Ty: "portion", N: big.NewInt(int64(r.Intn(6))), D: big.NewInt(int64(5 + r.Intn(6)))})
			g.porVars = append(g.porVars, "p")
		}
		if r.Chance(15) {
			addPlain("number", "n", nsValue{Ty: "number", N: g.amount()})
		}
		if r.Chance(15) {
			addPlain("string", "s", nsValue{Ty: "string", S: Pick(r, []string{"abc", "", "a b"})})
		}
		if r.Chance(25) {
			src := nsAcc{S: Pick(r, []string{"a", "b"})}
			if len(g.accVars) > 0 && r.Chance(30) {
				src = nsAcc{Var: true, S: g.accVars[0]}
			}
			c.Decls = append(c.Decls, nsDecl{Ty: "account", Name: "macc", Origin: "meta", Acc: src, Key: "acc"})
			g.accVars = append(g.accVars, "macc")
			g.anyVars = append(g.anyVars, "macc")
		}
		if r.Chance(12) {
			c.Decls = append(c.Decls, nsDecl{Ty: "portion", Name: "fee", Origin: "meta", Acc: nsAcc{S: "a"}, Key: "fee"})
			g.porVars = append(g.porVars, "fee")
			g.anyVars = append(g.anyVars, "fee")
		}
		if r.Chance(10) {
			c.Decls = append(c.Decls, nsDecl{Ty: "monetary", Name: "lim", Origin: "meta", Acc: nsAcc{S: "a"}, Key: "limit"})
			g.monVars = append(g.monVars, "lim")
			g.varAsset["lim"] = c.Meta[[2]string{"a", "limit"}].S
			g.anyVars = append(g.anyVars, "lim")
		}
		if r.Chance(30) {
			A := Pick(r, nsAssets)
			acc := g.acc(r.Chance(10))
			c.Decls = append(c.Decls, nsDecl{Ty: "monetary", Name: "bal", Origin: "bal", Acc: acc, Asset: g.asset(A)})
			g.monVars = append(g.monVars, "bal")
			g.varAsset["bal"] = A
			g.anyVars = append(g.anyVars, "bal")
			if (r.Chance(12) && !g.shared) || profile == "nilbal" {
				// a second balance() on (mostly) the same account: exercises UnresolvedResourceBalances being keyed by address
				acc2 := acc
				if r.Chance(30) {
					acc2 = g.acc(false)
				}
				A2 := Pick(r, nsAssets)
				c.Decls = append(c.Decls, nsDecl{Ty: "monetary", Name: "bal2", Origin: "bal", Acc: acc2, Asset: nsAsset{S: A2}})
				g.monVars = append(g.monVars, "bal2")
				g.varAsset["bal2"] = A2
				g.anyVars = append(g.anyVars, "bal2")
			}
		}
		// faults in the given variables
		switch k := r.Intn(100); {
		case g.shared:
		case k < 3 && len(c.Given) > 0:
			for n := range c.Given {
				delete(c.Given, n)
				break
			}
		case k < 5:
			c.Given["extra"] = nsValue{Ty: "string", S: "x"}
		case k < 7:
			if _, ok := c.Given["acc"]; ok {
				c.Given["acc"] = nsValue{Ty: "account", S: Pick(r, []string{"bad address", "a::b", ":a", ""})}
			}
		case k < 9:
			if _, ok := c.Given["as"]; ok {
				c.Given["as"] = nsValue{Ty: "asset", S: Pick(r, []string{"usd", "USD//2", "12A", ""})}
			}
		case k < 11:
			if _, ok := c.Given["p"]; ok {
				c.Given["p"] = nsValue{Ty: "portion", N: big.NewInt(7), D: big.NewInt(5)}
			}
		case k < 17:
			if _, ok := c.Given["p"]; ok {
				c.Given["p"] = nsValue{Ty: "portion", Raw: Pick(r, append([]string{".5%", "1//2", "1/", "/2", "%", "1 / 2 "}, nsOddPortions...))}
			}
		case k < 13:
			if _, ok := c.Given["m"]; ok {
				c.Given["m"] = nsValue{Ty: "monetary", S: Pick(r, []string{"USD", "usd"}), N: big.NewInt(int64(r.Intn(5) - 4))}
			}
		}
	}
	// statements
	n := 1
	if r.Chance(40) {
		n = 2 + r.Intn(2)
	}
	if profile == "single" {
		n = 1
	}
	for i := 0; i < n; i++ {
		A := Pick(r, nsAssets)
		if g.edge && r.Chance(50) {
			A = Pick(r, nsEdgeAssets)
		}
		k := r.Intn(100)
		if profile == "single" {
			k = 99
		}
		switch {
		case k < 6:
			c.Stmts = append(c.Stmts, nsStmt{K: "txmeta", Key: Pick(r, []string{"k1", "k2"}), V: g.val()})
		case k < 12:
			c.Stmts = append(c.Stmts, nsStmt{K: "accmeta", Acc: g.acc(true), Key: Pick(r, []string{"k1", "k2"}), V: g.val()})
		case k < 17:
			c.Stmts = append(c.Stmts, nsStmt{K: "savemon", M: g.mon(A), Acc: g.acc(false)})
		case k < 21:
			c.Stmts = append(c.Stmts, nsStmt{K: "saveall", Asset: g.asset(A), Acc: g.acc(false)})
		case k < 22:
			c.Stmts = append(c.Stmts, nsStmt{K: "fail"})
		case k < 34:
			c.Stmts = append(c.Stmts, nsStmt{K: "sendall", Asset: g.asset(A), VS: nsVSource{S: g.source(A, 0, r.Chance(5), map[string]bool{})}, D: g.dest(A, 0)})
		default:
			st := nsStmt{K: "send", M: g.mon(A), D: g.dest(A, 0)}
			if r.Chance(22) {
				np := 1 + r.Intn(3)
				st.VS = nsVSource{Allot: true, Ps: g.portions(np)}
				for j := 0; j < np; j++ {
					st.VS.Ss = append(st.VS.Ss, g.source(A, 1, true, map[string]bool{}))
				}
			} else {
				st.VS = nsVSource{S: g.source(A, 0, true, map[string]bool{})}
			}
			c.Stmts = append(c.Stmts, st)
		}
	}
	return c
}

// ---------------------------------------------------------------- evaluation helpers for the monitors (independent of the Coq model)
type nsEnv struct {
	c   *nsCase
	val map[string]nsValue // resolved variables (plain + meta + balance)
}

func newNsEnv(c *nsCase) *nsEnv {
	e := &nsEnv{c: c, val: map[string]nsValue{}}
	for _, d := range c.Decls {
		switch d.Origin {
		case "none":
			if v, ok := c.Given[d.Name]; ok {
				e.val[d.Name] = v
			}
		case "meta":
			if v, ok := c.Meta[[2]string{e.acc(d.Acc), d.Key}]; ok {
				e.val[d.Name] = v
			}
		case "bal":
			b := c.Bal[[2]string{e.acc(d.Acc), e.asset(d.Asset)}]
			if b == nil {
				b = new(big.Int)
			}
			e.val[d.Name] = nsValue{Ty: "monetary", S: e.asset(d.Asset), N: b}
		}
	}
	return e
}
func (e *nsEnv) acc(a nsAcc) string {
	if a.Var {
		return e.val[a.S].S
	}
	return a.S
}
func (e *nsEnv) asset(a nsAsset) string {
	if a.Var {
		return e.val[a.S].S
	}
	return a.S
}

// value of a monetary expression when all operands are in one asset; ok=false otherwise
func (e *nsEnv) mon(m *nsMon) (string, *big.Int, bool) {
	switch m.K {
	case "lit":
		return e.asset(m.Asset), m.N, true
	case "var":
		v, ok := e.val[m.X]
		if !ok || v.Ty != "monetary" || v.N == nil {
			return "", nil, false
		}
		return v.S, v.N, true
	}
	la, ln, ok1 := e.mon(m.L)
	ra, rn, ok2 := e.mon(m.R)
	if !ok1 || !ok2 || la != ra {
		return "", nil, false
	}
	if m.K == "add" {
		return la, new(big.Int).Add(ln, rn), true
	}
	return la, new(big.Int).Sub(ln, rn), true
}
func destHasKept(d *nsDest) bool {
	k := func(x nsKod) bool { return x.Kept || destHasKept(x.D) }
	switch d.K {
	case "acc":
		return false
	case "ord":
		for _, x := range d.Kods {
			if k(x) {
				return true
			}
		}
		return k(d.Rem)
	default:
		for _, x := range d.Kods {
			if k(x) {
				return true
			}
		}
		return false
	}
}

// bounded / unbounded occurrences of source accounts: account value -> max overdraft bound (nil bound = unknown)
func (e *nsEnv) walkSource(s *nsSource, A string, bounded map[[2]string]*big.Int, unbounded map[string]bool, unknown map[[2]string]bool) {
	switch s.K {
	case "acc":
		a := e.acc(s.Acc)
		if s.Od == "x" || (!s.Acc.Var && s.Acc.S == "world") {
			unbounded[a] = true
			return
		}
		k := [2]string{a, A}
		b := new(big.Int)
		if s.Od == "u" {
			as, n, ok := e.mon(s.OdM)
			if !ok {
				unknown[k] = true
			} else {
				k = [2]string{a, as}
				if n.Sign() > 0 {
					b = n
				}
			}
		}
		if old, ok := bounded[k]; !ok || old.Cmp(b) < 0 {
			bounded[k] = b
		}
	case "max":
		e.walkSource(s.Sub, A, bounded, unbounded, unknown)
	default:
		for _, x := range s.List {
			e.walkSource(x, A, bounded, unbounded, unknown)
		}
	}
}

type nsStmtInfo struct {
	Asset string
	Amt   *big.Int // nil for send-all / unknown
	Kept  bool
	All   bool
}

func monitorNs(c *nsCase, r nsRun, out *Out, cs string) {
	if r.Class == "panic" {
		out.Violation("C27", cs, "compiler.Compile + vm.Machine panicked: "+r.PanicMsg+" [ns-panic]")
		return
	}
	if r.Class == "timeout" {
		out.Violation("C27", cs, "compile+execute did not finish within 5s [ns-hang]")
		return
	}
	if r.Class != "ok" {
		return
	}
	e := newNsEnv(c)
	// ---- C28: re-validate with the real validators
	lp := make(ledger.Postings, len(r.Posts))
	for i, p := range r.Posts {
		lp[i] = ledger.NewPosting(p.Src, p.Dst, p.Asset, p.Amt)
	}
	if i, err := lp.Validate(); err != nil {
		p := r.Posts[i]
		tag := "[ns-illformed-posting]"
		out.Violation("C28", cs, fmt.Sprintf("posting %d (%s -> %s, %s %s) of a successful script run fails Postings.Validate: %v %s", i, p.Src, p.Dst, p.Asset, p.Amt, err, tag))
	}
	// ---- C22 (a): non-negative
	for i, p := range r.Posts {
		if p.Amt.Sign() < 0 {
			out.Violation("C22", cs, fmt.Sprintf("posting %d has negative amount %s [ns-negative-posting]", i, p.Amt))
		}
	}
	// ---- C22 (b): per send statement, when its postings can be attributed by asset
	var infos []nsStmtInfo
	perAsset := map[string]int{}
	nsave := 0
	for _, s := range c.Stmts {
		switch s.K {
		case "send":
			A, amt, ok := e.mon(s.M)
			if !ok {
				A = ""
			}
			infos = append(infos, nsStmtInfo{Asset: A, Amt: amt, Kept: destHasKept(s.D)})
			perAsset[A]++
		case "sendall":
			A := e.asset(s.Asset)
			infos = append(infos, nsStmtInfo{Asset: A, All: true, Kept: destHasKept(s.D)})
			perAsset[A]++
		case "savemon", "saveall":
			nsave++
		}
	}
	sums := map[string]*big.Int{}
	for _, p := range r.Posts {
		if sums[p.Asset] == nil {
			sums[p.Asset] = new(big.Int)
		}
		sums[p.Asset].Add(sums[p.Asset], p.Amt)
	}
	attributable := true
	for _, in := range infos {
		if in.Asset == "" || perAsset[in.Asset] != 1 {
			attributable = false
		}
	}
	if attributable {
		known := map[string]bool{}
		for _, in := range infos {
			known[in.Asset] = true
			sum := sums[in.Asset]
			if sum == nil {
				sum = new(big.Int)
			}
			if in.All || in.Amt == nil {
				continue
			}
			if !in.Kept && sum.Cmp(in.Amt) != 0 {
				out.Violation("C22", cs, fmt.Sprintf("send of %s %s without `kept` produced postings summing to %s [ns-send-sum]", in.Asset, in.Amt, sum))
			}
			if in.Kept && sum.Cmp(in.Amt) > 0 {
				out.Violation("C22", cs, fmt.Sprintf("send of %s %s with `kept` produced postings summing to %s (more than sent) [ns-send-sum]", in.Asset, in.Amt, sum))
			}
		}
		for a := range sums {
			if !known[a] {
				out.Violation("C22", cs, fmt.Sprintf("postings in asset %s which no send statement names [ns-foreign-asset]", a))
			}
		}
		out.Stats["c22_sum_checked"]++
	}
	// send-all of the first statement over distinct plain bounded accounts: the sum is what the sources hold
	if len(c.Stmts) > 0 && c.Stmts[0].K == "sendall" && perAsset[e.asset(c.Stmts[0].Asset)] == 1 && !destHasKept(c.Stmts[0].D) {
		A := e.asset(c.Stmts[0].Asset)
		var leaves []*nsSource
		flat := true
		var walk func(s *nsSource)
		walk = func(s *nsSource) {
			switch s.K {
			case "acc":
				leaves = append(leaves, s)
			case "ord":
				for _, x := range s.List {
					walk(x)
				}
			default:
				flat = false
			}
		}
		walk(c.Stmts[0].VS.S)
		want := new(big.Int)
		seen := map[string]bool{}
		for _, l := range leaves {
			a := e.acc(l.Acc)
			if seen[a] || l.Od == "x" {
				flat = false
				break
			}
			seen[a] = true
			b := c.Bal[[2]string{a, A}]
			if b == nil {
				b = new(big.Int)
			}
			avail := new(big.Int).Set(b)
			if l.Od == "u" {
				as, n, ok := e.mon(l.OdM)
				if !ok || as != A {
					flat = false
					break
				}
				avail.Add(avail, n)
			}
			if avail.Sign() > 0 {
				want.Add(want, avail)
			}
		}
		if flat {
			sum := sums[A]
			if sum == nil {
				sum = new(big.Int)
			}
			if sum.Cmp(want) != 0 {
				out.Violation("C22", cs, fmt.Sprintf("send [%s *] moved %s, the sources could provide %s [ns-sendall-sum]", A, sum, want))
			}
			out.Stats["c22_sendall_checked"]++
		}
	}
	// ---- C22 (c): tracked balances = initial + postings (- save)
	net := map[[2]string]*big.Int{}
	add := func(k [2]string, x *big.Int, sign int) {
		if net[k] == nil {
			net[k] = new(big.Int)
		}
		if sign > 0 {
			net[k].Add(net[k], x)
		} else {
			net[k].Sub(net[k], x)
		}
	}
	for _, p := range r.Posts {
		add([2]string{p.Src, p.Asset}, p.Amt, -1)
		add([2]string{p.Dst, p.Asset}, p.Amt, +1)
	}
	for k, ini := range r.Init {
		if k[0] == "world" {
			continue
		}
		fin, ok := r.Final[k]
		if !ok {
			continue
		}
		want := new(big.Int).Set(ini)
		if net[k] != nil {
			want.Add(want, net[k])
		}
		if (nsave == 0 && fin.Cmp(want) != 0) || (nsave > 0 && fin.Cmp(want) > 0) {
			out.Violation("C22", cs, fmt.Sprintf("tracked balance of %s/%s ends at %s, initial %s + postings = %s (%d save statements) [ns-balance-drift]", k[0], k[1], fin, ini, want, nsave))
		}
	}
	// ---- C23: bounded sources
	bounded, unbounded, unknown := map[[2]string]*big.Int{}, map[string]bool{}, map[[2]string]bool{}
	for _, s := range c.Stmts {
		switch s.K {
		case "send":
			A, _, ok := e.mon(s.M)
			if !ok {
				var mm = s.M
				for mm.K == "add" || mm.K == "sub" {
					mm = mm.L
				}
				A, _, _ = e.mon(mm)
			}
			if s.VS.Allot {
				for _, x := range s.VS.Ss {
					e.walkSource(x, A, bounded, unbounded, unknown)
				}
			} else {
				e.walkSource(s.VS.S, A, bounded, unbounded, unknown)
			}
		case "sendall":
			e.walkSource(s.VS.S, e.asset(s.Asset), bounded, unbounded, unknown)
		}
	}
	for k, bound := range bounded {
		if k[0] == "world" || unbounded[k[0]] || unknown[k] {
			continue
		}
		ini := c.Bal[k]
		if ini == nil {
			ini = new(big.Int)
		}
		fin := new(big.Int).Set(ini)
		if net[k] != nil {
			fin.Add(fin, net[k])
		}
		floor := new(big.Int).Neg(bound)
		if ini.Cmp(floor) < 0 {
			floor = ini
		}
		out.Stats["c23_bounded_sources_checked"]++
		if fin.Cmp(floor) < 0 {
			out.Violation("C23", cs, fmt.Sprintf("bounded source %s/%s: initial %s, overdraft bound %s, balance after the postings %s < min(initial, -bound) [ns-overdrawn]", k[0], k[1], ini, bound, fin))
		}
	}
}


// shared subset for the interpreter comparison (C26): no monetary arithmetic results that the machine treats
// specially is assumed; everything the generator emits is valid syntax for both
func monitorC26(c *nsCase, script string, out *Out, cs string) {
	m := runAdapter(false, script, c)
	i := runAdapter(true, script, c)
	out.Stats["c26_compared"]++
	for _, x := range []struct {
		n string
		r nsAdapterRun
	}{{"machine", m}, {"interpreter", i}} {
		if x.r.Class == "panic" || x.r.Class == "timeout" {
			tag := "[ns-adapter-" + x.r.Class + "]"
			out.Violation("C27", cs, fmt.Sprintf("%s runtime adapter: %s %s %s", x.n, x.r.Class, x.r.Err, tag))
		}
		if x.r.Partial {
			out.Violation("C27", cs, fmt.Sprintf("%s runtime adapter returned an error AND a result [ns-partial-result]", x.n))
		}
	}
	if m.Class == "panic" || i.Class == "panic" || m.Class == "timeout" || i.Class == "timeout" {
		return
	}
	out.Stats["c26_machine_"+m.Class]++
	out.Stats["c26_interp_"+i.Class]++
	if m.Class != i.Class && (strings.HasPrefix(m.Err, "parse: ") || strings.HasPrefix(i.Err, "parse: ")) {
		out.Stats["c26_outside_shared_subset"]++ // one front end rejects the text: not in the language both support
		return
	}
	if m.Class != i.Class {
		ok, er := m, i
		who := "machine succeeds, interpreter fails: " + i.Err
		if m.Class == "err" {
			ok, er = i, m
			who = "interpreter succeeds, machine fails: " + m.Err
		}
		_ = ok
		_ = er
		out.Violation("C26", cs, nsC26Tag(c, who))
		return
	}
	if m.Class != "ok" {
		out.Stats["c26_both_fail"]++
		return
	}
	out.Stats["c26_both_ok"]++
	mp, ip := strings.Join(nonZero(m.Posts), ", "), strings.Join(nonZero(i.Posts), ", ")
	if mp != ip {
		out.Violation("C26", cs, nsC26Tag(c, fmt.Sprintf("non-zero postings differ: machine [%s] interpreter [%s]", mp, ip)))
		return
	}
	if mapStr(m.TxMeta) != mapStr(i.TxMeta) {
		out.Violation("C26", cs, nsC26Tag(c, fmt.Sprintf("transaction metadata differ: machine {%s} interpreter {%s}", mapStr(m.TxMeta), mapStr(i.TxMeta))))
		return
	}
	if mapStr(m.AccMeta) != mapStr(i.AccMeta) {
		out.Violation("C26", cs, nsC26Tag(c, fmt.Sprintf("account metadata differ: machine {%s} interpreter {%s}", mapStr(m.AccMeta), mapStr(i.AccMeta))))
	}
}

// classification of a machine/interpreter disagreement by the language feature involved (tags feed known findings)
func nsC26Tag(c *nsCase, msg string) string {
	if t := nsC26SaveArith(c); t != "" {
		return msg + " " + t
	}
	if t := nsC26WorldBalance(c); t != "" {
		return msg + " " + t
	}
	return msg + " " + nsC26Class(msg)
}

// balance(@world, A) in a variable: the interpreter never queries @world (batchQuery returns at once) and reads 0; the machine
// resolves the stored balance (and fails when it is negative).  A disagreement is attributed to that only when it is fully
// explained by it: the machine, run with every balance of @world set to 0, answers exactly as the interpreter did.
func nsC26WorldBalance(c *nsCase) string {
	if !strings.Contains(c.text(), "balance(") {
		return ""
	}
	c2 := *c
	c2.Bal = map[[2]string]*big.Int{}
	touched := false
	for k, v := range c.Bal {
		if k[0] == "world" && v.Sign() != 0 {
			c2.Bal[k] = big.NewInt(0)
			touched = true
		} else {
			c2.Bal[k] = v
		}
	}
	if !touched {
		return ""
	}
	m := runAdapter(false, c2.text(), &c2)
	i := runAdapter(true, c.text(), c)
	if m.Class != i.Class {
		return ""
	}
	if m.Class == "ok" && (strings.Join(nonZero(m.Posts), ", ") != strings.Join(nonZero(i.Posts), ", ") ||
		mapStr(m.TxMeta) != mapStr(i.TxMeta) || mapStr(m.AccMeta) != mapStr(i.AccMeta)) {
		return ""
	}
	return "[c26-world-balance-var]"
}

// `save <m1> + <m2> from acc` (monetary arithmetic in a save statement): the machine's compiler visits the expression without
// emitting the addition and saves the LEFT-MOST operand only (VisitSaveFromAccount: VisitExpr(mon, false) + PushAddress(lhsAddr)).
// A disagreement is attributed to that defect only when it is fully explained by it: the interpreter, run on the script with
// every such save cut down to its left-most operand, answers exactly as the machine did on the original.
func nsC26SaveArith(c *nsCase) string {
	has := false
	c2 := *c
	c2.Stmts = append([]nsStmt{}, c.Stmts...)
	for k, st := range c2.Stmts {
		if st.K == "savemon" && st.M != nil && (st.M.K == "add" || st.M.K == "sub") {
			m := st.M
			for m.K == "add" || m.K == "sub" {
				m = m.L
			}
			st.M = m
			c2.Stmts[k] = st
			has = true
		}
	}
	if !has {
		return ""
	}
	m := runAdapter(false, c.text(), c)
	i := runAdapter(true, c2.text(), &c2)
	if m.Class != i.Class {
		return ""
	}
	if m.Class == "ok" && (strings.Join(nonZero(m.Posts), ", ") != strings.Join(nonZero(i.Posts), ", ") ||
		mapStr(m.TxMeta) != mapStr(i.TxMeta) || mapStr(m.AccMeta) != mapStr(i.AccMeta)) {
		return ""
	}
	return "[c26-save-arith-left-only]"
}

var nsC26Feature = func(c *nsCase) string { return "" }

func nsC26Class(msg string) string {
	switch {
	case strings.Contains(msg, "postings differ"):
		return "[c26-postings-differ]"
	case strings.Contains(msg, "metadata differ"):
		return "[c26-metadata-differ]"
	case strings.Contains(msg, "machine fails") && strings.Contains(msg, "exceeded 100%"):
		return "[c26-portion-overflow-strictness]"
	case strings.Contains(msg, "machine fails") && strings.Contains(msg, "different assets"):
		return "[c26-asset-mismatch-strictness]"
	case strings.Contains(msg, "machine fails") && strings.Contains(msg, "insufficient funds"):
		return "[c26-machine-insufficient-only]"
	case strings.Contains(msg, "interpreter succeeds, machine fails") && strings.Contains(msg, "tried to request the balance of account world for asset") && strings.Contains(msg, "must be non-negative"):
		return "[c26-world-balance-var]"
	case strings.Contains(msg, "machine fails"):
		return "[c26-machine-fails-only]"
	default:
		return "[c26-interpreter-fails-only]"
	}
}

// ---------------------------------------------------------------- commands
func cmdNs(args []string) int {
	f := ParseFlags(args)
	out := NewOut(f.Out)
	defer out.Close()
	r := NewRng(f.Seed)
	profile := f.Extra["profile"]
	c26 := f.Extra["c26"] == "1"
	seen := map[string]bool{}
	one := func(c *nsCase) {
		cs := c.sx()
		script := c.text()
		res := runMachine(script, c)
		out.Case(cs, res.sx())
		out.Stats["cases"]++
		out.Stats["class_"+res.Class]++
		out.Stats[fmt.Sprintf("stmts_%d", len(c.Stmts))]++
		if res.Class == "ok" {
			if len(res.Posts) > 0 && !seen[cs] {
				seen[cs] = true
				out.Stats["distinct_nontrivial"]++
			}
			out.Stats[fmt.Sprintf("postings_%s", nsBucket(len(res.Posts)))]++
			for _, p := range res.Posts {
				if p.Amt.Sign() == 0 {
					out.Stats["zero_amount_postings"]++
				}
			}
		}
		for _, s := range c.Stmts {
			out.Stats["stmt_"+s.K]++
			if s.K == "send" && s.VS.Allot {
				out.Stats["src_allotment"]++
			}
			if (s.K == "send" || s.K == "sendall") && destHasKept(s.D) {
				out.Stats["dest_with_kept"]++
			}
		}
		monitorNs(c, res, out, cs)
		if c26 {
			monitorC26(c, script, out, cs)
		}
	}
	if f.Replay != "" {
		for _, line := range ReadLines(f.Replay) {
			sx, err := ParseSx(line)
			must(err)
			c := sxCase(sx)
			fmt.Println("--- script\n" + c.text() + "--- vars " + fmt.Sprint(c.givenJSON()))
			one(c)
		}
		return 0
	}
	if c26 {
		for _, line := range c26Directed {
			sx, err := ParseSx(line)
			must(err)
			one(sxCase(sx))
		}
	}
	for i := 0; i < f.N; i++ {
		one(genNsCase(r, profile))
	}
	return 0
}

func nsBucket(n int) string {
	switch {
	case n == 0:
		return "0"
	case n <= 2:
		return "1-2"
	case n <= 5:
		return "3-5"
	default:
		return "6+"
	}
}

// nslex: the real address / asset regexps against the model's recognisers (Machine/Lex.v)
func cmdNsLex(args []string) int {
	f := ParseFlags(args)
	out := NewOut(f.Out)
	defer out.Close()
	r := NewRng(f.Seed)
	alpha := "AZaz09_-:/ .U1"
	one := func(s string) {
		por := "err"
		if pm, _ := withTimeout(5*time.Second, func() {
			if p, err := machine.ParsePortionSpecific(s); err == nil && p != nil && p.Specific != nil {
				por = "ok " + p.Specific.Num().String() + "/" + p.Specific.Denom().String()
			}
		}); pm != "" {
			por = "panic"
			out.Violation("C27", L("lex", Q(s)), "machine.ParsePortionSpecific panicked: "+pm+" [portion-parse-panic]")
		}
		if m := nsFracRe.FindStringSubmatch(s); m != nil && por != "panic" { // independent decimal reading of n/d
			n, _ := new(big.Int).SetString(m[1], 10)
			d, _ := new(big.Int).SetString(m[2], 10)
			want := "err"
			if d.Sign() != 0 && n.Cmp(d) <= 0 {
				q := new(big.Rat).SetFrac(n, d)
				want = "ok " + q.Num().String() + "/" + q.Denom().String()
			}
			if want != por {
				out.Violation("C27", L("lex", Q(s)), "portion "+strconv.Quote(s)+" is read as "+por+", its decimal reading is "+want+" (leading 0 = octal in big.Rat.SetString) [portion-octal]")
			}
		}
		out.Case(L("lex", Q(s)), L(fmt.Sprint(accounts.ValidateAddress(s)), fmt.Sprint(assets.IsValid(s)), fmt.Sprint(nsCompilesAsAssetLiteral(s)), Q(por)))
		out.Stats["cases"]++
		if assets.IsValid(s) || accounts.ValidateAddress(s) {
			out.Stats["distinct_nontrivial"]++
		}
	}
	if f.Replay != "" {
		for _, line := range ReadLines(f.Replay) {
			sx, err := ParseSx(line)
			must(err)
			one(sx.List[1].Atom)
		}
		return 0
	}
	fixed := append(append([]string{"", "world", "a:b", "a::b", ":a", "a:", "USD", "USD/2", "USD_X", "USD_X/2", "USD_/2", "USD/1234567", "USD/123456", "AAAAAAAAAAAAAAAAA", "AAAAAAAAAAAAAAAAAA", "A_AAAAAAAAAAAAAAAAA", "A_AAAAAAAAAAAAAAAA", "A_B1", "A1_B/0", "usd", "U\n"}, nsEdgeAssets...), nsAssets...)
	for _, s := range append(append([]string{}, fixed...), append([]string{".5%", "1//2", "1/", "/2", "%", "1 / 2 ", "1\t/2", "1/\n2", "1  /2"}, nsOddPortions...)...) {
		one(s)
	}
	palpha := "0123456789/ %.0012"
	for i := 0; i < f.N/4; i++ {
		b := make([]byte, 1+r.Intn(7))
		for j := range b {
			b[j] = palpha[r.Intn(len(palpha))]
		}
		one(string(b))
	}
	for i := 0; i < f.N; i++ {
		n := r.Intn(8)
		if r.Chance(10) {
			n = 15 + r.Intn(8)
		}
		b := make([]byte, n)
		for j := range b {
			b[j] = alpha[r.Intn(len(alpha))]
		}
		one(string(b))
	}
	return 0
}

func nsCompilesAsAssetLiteral(s string) bool {
	ok := false
	withTimeout(5*time.Second, func() {
		prog, err := compiler.Compile("send [" + s + " 1] (\n  source = @world\n  destination = @a\n)\n")
		if err != nil || prog == nil {
			return
		}
		for _, r := range prog.Resources {
			if c, isC := r.(program.Constant); isC {
				if a, isA := c.Inner.(machine.Asset); isA && string(a) == s {
					ok = true
				}
			}
		}
	})
	return ok
}

// nsfront: C27 front-end exploration (NOT modelled): mutated programs and arbitrary byte strings into
// compiler.Compile, and whatever compiles into the machine; only panics / hangs are reported
func cmdNsFront(args []string) int {
	f := ParseFlags(args)
	out := NewOut(f.Out)
	defer out.Close()
	r := NewRng(f.Seed)
	tokens := []string{"send", "source", "destination", "=", "(", ")", "{", "}", "[", "]", "\n", " ", "max", "from", "to", "kept", "remaining", "allowing overdraft up to",
		"allowing unbounded overdraft", "@a", "@world", "$x", "$acc", "USD", "USD/2", "*", "10", "1/2", "50%", "1/0", "0/0", "7 / 00", "150%", ".5%", "100.0%", "0%", "00/00", "1/00000", "vars", "account", "monetary", "portion", "number", "string", "asset",
		"meta", "balance", "set_tx_meta", "set_account_meta", "save", "fail", "print", "+", "-", ",", "\"k\"", "//", "/*", "*/", "\x00", "\xff", "é"}
	try := func(kind, script string, c *nsCase) {
		out.Stats["cases"]++
		out.Stats["kind_"+kind]++
		res := runMachine(script, c)
		out.Stats["class_"+res.Class]++
		cs := L("front", Q(kind), Q(script))
		out.Case(cs, L(res.Class))
		if res.Class == "panic" {
			out.Violation("C27", cs, "panic on "+kind+" input: "+res.PanicMsg+" [front-panic]")
		} else if res.Class == "timeout" {
			out.Violation("C27", cs, "no answer within 5s on "+kind+" input [front-hang]")
		} else if res.Class == "ok" {
			out.Stats["distinct_nontrivial"]++
		}
	}
	if f.Replay != "" {
		for _, line := range ReadLines(f.Replay) {
			sx, err := ParseSx(line)
			must(err)
			try(sx.List[1].Atom, sx.List[2].Atom, &nsCase{Given: map[string]nsValue{}, Bal: map[[2]string]*big.Int{}, Meta: map[[2]string]nsValue{}})
		}
		return 0
	}
	for i := 0; i < f.N; i++ {
		c := genNsCase(r, "")
		script := c.text()
		switch i % 3 {
		case 0: // token-level mutation of a valid program
			b := []byte(script)
			for k := 0; k < 1+r.Intn(3) && len(b) > 0; k++ {
				at := r.Intn(len(b))
				switch r.Intn(3) {
				case 0:
					b = append(b[:at], b[at+1:]...)
				case 1:
					t := Pick(r, tokens)
					b = append(b[:at], append([]byte(t), b[at:]...)...)
				default:
					b[at] = byte(r.Intn(256))
				}
			}
			try("mutant", string(b), c)
		case 1: // random token soup
			var sb strings.Builder
			for k := 0; k < 1+r.Intn(25); k++ {
				sb.WriteString(Pick(r, tokens))
				if r.Bool() {
					sb.WriteString(" ")
				}
			}
			try("tokens", sb.String(), c)
		default: // arbitrary bytes
			b := make([]byte, r.Intn(40))
			for j := range b {
				b[j] = byte(r.Intn(256))
			}
			try("bytes", string(b), c)
		}
	}
	return 0
}
