//go:build verif

package main

import (
	"fmt"
	"os"
)

type cmdFn func(args []string) int

var commands = map[string]cmdFn{}

func main() {
	if len(os.Args) < 2 {
		fmt.Fprintln(os.Stderr, "usage: vh <command> [args]")
		os.Exit(2)
	}
	fn, ok := commands[os.Args[1]]
	if !ok {
		fmt.Fprintln(os.Stderr, "unknown command", os.Args[1])
		os.Exit(2)
	}
	os.Exit(fn(os.Args[2:]))
}
