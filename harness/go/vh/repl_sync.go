//go:build verif

package main

import (
	"context"
	"encoding/json"
	"errors"
	"fmt"
	"strings"
	"sync"
	"time"

	logging "github.com/formancehq/go-libs/v5/pkg/observe/log"
	"github.com/formancehq/go-libs/v5/pkg/storage/bun/paginate"
	"github.com/formancehq/go-libs/v5/pkg/storage/postgres"

	ledger "github.com/formancehq/ledger/internal"
	"github.com/formancehq/ledger/internal/replication"
	"github.com/formancehq/ledger/internal/replication/drivers"
	"github.com/formancehq/ledger/internal/storage/common"
)

// replsync (C33, monitor only): the real replication.Manager with its PERIODIC synchronisation running (the script-driven
// tie keeps it at one hour), a pipeline that is enabled in the table but not running (after StopPipeline), a slow
// ListEnabledPipelines and a ResetPipeline issued while that listing is in flight. Whatever the interleaving, once the reset
// is acknowledged and the system is quiet every log of the ledger has been handed to the exporter AFTER the acknowledgement
// ("after a reset all logs are exported again from the first one"), and the stored last_log_id is not ahead of what the
// exporter took since the reset.
func init() { commands["replsync"] = cmdReplSync }

type syncWorld struct {
	mu        sync.Mutex
	n         uint64  // logs 1..n
	stored    *uint64 // pipelines.last_log_id
	armList   bool    // the next ListEnabledPipelines blocks (after reading the row) until listGate is closed
	listGate  chan struct{}
	listBlock chan struct{} // closed when a listing is blocked
	accepted  []uint64      // ids handed to the exporter, in order
	resetAck  int           // len(accepted) when ResetPipeline returned
}

type syncStore struct{ w *syncWorld }

func (s syncStore) row() ledger.Pipeline {
	p := ledger.Pipeline{ID: replPipelineID, Enabled: true, PipelineConfiguration: ledger.NewPipelineConfiguration("l1", "e1")}
	if s.w.stored != nil {
		v := *s.w.stored
		p.LastLogID = &v
	}
	return p
}
func (s syncStore) OpenLedger(context.Context, string) (replication.LogFetcher, *ledger.Ledger, error) {
	return replication.LogFetcherFn(func(_ context.Context, q common.PaginatedQuery[any]) (*paginate.Cursor[ledger.Log], error) {
		var iq common.InitialPaginatedQuery[any]
		switch v := q.(type) {
		case common.InitialPaginatedQuery[any]:
			iq = v
		case *common.InitialPaginatedQuery[any]:
			iq = *v
		default:
			return nil, fmt.Errorf("unsupported query %T", q)
		}
		after := uint64(0)
		if iq.Options.Builder != nil {
			_ = iq.Options.Builder.Walk(func(operator, key string, value *any) error {
				switch n := (*value).(type) {
				case uint64:
					after = n
				case *uint64:
					after = *n
				case int:
					after = uint64(n)
				case int64:
					after = uint64(n)
				}
				if operator == "$gte" && after > 0 {
					after--
				}
				return nil
			})
		}
		s.w.mu.Lock()
		defer s.w.mu.Unlock()
		size := int(iq.PageSize)
		if size <= 0 {
			size = 15
		}
		var logs []ledger.Log
		for id := after + 1; id <= s.w.n && len(logs) < size; id++ {
			v := id
			logs = append(logs, ledger.Log{ID: &v, Type: ledger.NewTransactionLogType})
		}
		more := len(logs) > 0 && *logs[len(logs)-1].ID < s.w.n
		return &paginate.Cursor[ledger.Log]{PageSize: size, HasMore: more, Data: logs}, nil
	}), &ledger.Ledger{}, nil
}
func (s syncStore) StorePipelineState(_ context.Context, _ string, last uint64) error {
	s.w.mu.Lock()
	defer s.w.mu.Unlock()
	v := last
	s.w.stored = &v
	return nil
}
func (s syncStore) UpdatePipeline(_ context.Context, _ string, o map[string]any) (*ledger.Pipeline, error) {
	s.w.mu.Lock()
	defer s.w.mu.Unlock()
	if v, ok := o["last_log_id"]; ok {
		switch x := v.(type) {
		case nil:
			s.w.stored = nil
		case uint64:
			s.w.stored = &x
		case *uint64:
			if x == nil {
				s.w.stored = nil
			} else {
				y := *x
				s.w.stored = &y
			}
		}
	}
	p := s.row()
	return &p, nil
}
func (s syncStore) GetPipeline(_ context.Context, id string) (*ledger.Pipeline, error) {
	s.w.mu.Lock()
	defer s.w.mu.Unlock()
	if id != replPipelineID {
		return nil, postgres.ErrNotFound
	}
	p := s.row()
	return &p, nil
}
func (s syncStore) ListEnabledPipelines(context.Context) ([]ledger.Pipeline, error) {
	s.w.mu.Lock()
	p := s.row() // the rows are read now ...
	var gate chan struct{}
	if s.w.armList {
		s.w.armList = false
		gate = s.w.listGate
		close(s.w.listBlock)
	}
	s.w.mu.Unlock()
	if gate != nil {
		<-gate // ... and reach the manager late: a slow database
	}
	return []ledger.Pipeline{p}, nil
}
func (s syncStore) ListExporters(context.Context) (*paginate.Cursor[ledger.Exporter], error) {
	return &paginate.Cursor[ledger.Exporter]{}, nil
}
func (s syncStore) CreateExporter(context.Context, ledger.Exporter) error { return nil }
func (s syncStore) DeleteExporter(context.Context, string) error         { return nil }
func (s syncStore) GetExporter(context.Context, string) (*ledger.Exporter, error) {
	return &ledger.Exporter{}, nil
}
func (s syncStore) UpdateExporter(context.Context, ledger.Exporter) error { return nil }
func (s syncStore) CreatePipeline(context.Context, ledger.Pipeline) error { return nil }
func (s syncStore) DeletePipeline(context.Context, string) error         { return nil }
func (s syncStore) ListPipelines(context.Context) (*paginate.Cursor[ledger.Pipeline], error) {
	return &paginate.Cursor[ledger.Pipeline]{}, nil
}

var _ replication.Storage = syncStore{}

type syncDriver struct{ w *syncWorld }

func (d syncDriver) Start(context.Context) error { return nil }
func (d syncDriver) Stop(context.Context) error  { return nil }
func (d syncDriver) Accept(_ context.Context, logs ...drivers.LogWithLedger) ([]error, error) {
	d.w.mu.Lock()
	defer d.w.mu.Unlock()
	for _, l := range logs {
		d.w.accepted = append(d.w.accepted, *l.ID)
	}
	return make([]error, len(logs)), nil
}

type syncFactory struct{ w *syncWorld }

func (f syncFactory) Create(context.Context, string) (drivers.Driver, json.RawMessage, error) {
	return syncDriver{f.w}, json.RawMessage(`{}`), nil
}

func (w *syncWorld) waitFor(max time.Duration, cond func() bool) bool {
	dl := time.Now().Add(max)
	for time.Now().Before(dl) {
		w.mu.Lock()
		ok := cond()
		w.mu.Unlock()
		if ok {
			return true
		}
		time.Sleep(2 * time.Millisecond)
	}
	return false
}

// one scenario; returns "" or the violation
func runReplSync(n uint64, page uint64, resetDelayMs int) (msg string) {
	defer func() {
		if msg == "" {
			msg = "" + replSyncStage
		}
	}()
	replSyncStage = "skip:not-exported"
	w := &syncWorld{n: n, listGate: make(chan struct{}), listBlock: make(chan struct{})}
	mgr := replication.NewManager(syncStore{w}, syncFactory{w}, logging.NopZap(), replValidator{},
		replication.WithSyncPeriod(25*time.Millisecond),
		replication.WithPipelineOptions(replication.WithPullPeriod(2*time.Millisecond), replication.WithPushRetryPeriod(2*time.Millisecond), replication.WithLogsPageSize(page)))
	ctx := context.Background()
	go mgr.Run(ctx)
	<-mgr.Started()
	defer func() { _ = mgr.Stop(ctx) }()
	// the startup synchronisation starts the enabled pipeline; wait until everything is exported and stored
	if !w.waitFor(5*time.Second, func() bool { return w.stored != nil && *w.stored == n }) {
		return "" // (not the subject of this scenario: the script-driven tie covers plain delivery)
	}
	replSyncStage = "skip:stop-failed"
	if err := mgr.StopPipeline(ctx, replPipelineID); err != nil && !errors.Is(err, ledger.ErrPipelineNotFound("")) {
		return ""
	}
	replSyncStage = "skip:no-periodic-listing"
	w.mu.Lock()
	w.armList = true // the next periodic synchronisation reads last_log_id = n and is then held
	w.mu.Unlock()
	select {
	case <-w.listBlock:
	case <-time.After(3 * time.Second):
		return ""
	}
	replSyncStage = "skip:reset-refused"
	time.Sleep(time.Duration(resetDelayMs) * time.Millisecond)
	// what the exporter is handed from the moment the reset is ISSUED counts (the re-export may well be over before
	// ResetPipeline returns to its caller)
	w.mu.Lock()
	issuedAt := len(w.accepted)
	w.mu.Unlock()
	resetDone := make(chan error, 1)
	go func() { resetDone <- mgr.ResetPipeline(ctx, replPipelineID) }()
	select { // with the listing under the manager lock the reset waits for it; otherwise it completes now
	case err := <-resetDone:
		resetDone <- err
	case <-time.After(60 * time.Millisecond):
	}
	close(w.listGate)
	var rerr error
	select {
	case rerr = <-resetDone:
	case <-time.After(10 * time.Second):
		return "ResetPipeline did not return within 10 s [replsync-hung]"
	}
	if rerr != nil {
		return "" // a refused reset promises nothing
	}
	w.mu.Lock()
	w.resetAck = issuedAt
	w.mu.Unlock()
	// quiet: a few synchronisation periods and pull periods
	complete := func() bool {
		seen := map[uint64]bool{}
		for _, id := range w.accepted[w.resetAck:] {
			seen[id] = true
		}
		return uint64(len(seen)) == n
	}
	replSyncStage = "done"
	if w.waitFor(3*time.Second, complete) {
		return ""
	}
	w.mu.Lock()
	defer w.mu.Unlock()
	// the reset may have been acknowledged before the re-export of some logs was handed over: count what came at any time
	// after the reset was ISSUED too (resetAck is taken after the call returned, so this is the lenient reading)
	first := uint64(0)
	if len(w.accepted) > w.resetAck {
		first = w.accepted[w.resetAck]
	}
	st := "nil"
	if w.stored != nil {
		st = fmt.Sprint(*w.stored)
	}
	return fmt.Sprintf("ResetPipeline was acknowledged while a periodic synchronisation held a stale listing (last_log_id=%d): since then the exporter received %v (first id %d) and never the logs 1..%d again; stored last_log_id=%s [reset-lost-to-stale-sync]", n, w.accepted[w.resetAck:], first, n, st)
}

var replSyncStage string

func cmdReplSync(args []string) int {
	f := ParseFlags(args)
	out := NewOut(f.Out)
	defer out.Close()
	r := NewRng(f.Seed)
	for i := 0; i < f.N; i++ {
		n, page, delay := uint64(3+r.Intn(6)), uint64(1+r.Intn(4)), r.Intn(3)*5
		cs := L("replsync", fmt.Sprint(n), fmt.Sprint(page), fmt.Sprint(delay))
		msg := runReplSync(n, page, delay)
		out.Stats["cases"]++
		if msg == "done" || strings.HasPrefix(msg, "skip:") {
			out.Stats["stage_"+msg]++
			if msg == "done" {
				out.Stats["distinct_nontrivial"]++
			}
			msg = ""
		}
		verdict := "ok"
		if msg != "" {
			verdict = "violation"
			out.Violation("C33", cs, msg)
		}
		out.Case(cs, L(verdict))
	}
	return 0
}
