//go:build verif

package main

import (
	"fmt"
	"math/big"
)

func init() {
	allMonitors = append(allMonitors, monitor{"C25", monC25}, monitor{"C13", monC13})
}

// ---- C25 a postings request is recorded exactly as submitted; insufficient funds iff the in-order walk fails
func monC25(hr *HistRun) string {
	usedIK := map[string]bool{}
	for i, o := range hr.Ops {
		if i >= len(hr.Res) {
			break
		}
		r := hr.Res[i]
		if r.Panic != "" {
			break
		}
		prior := o.IK != "" && usedIK[o.IK]
		if o.IK != "" && r.Class == "none" && !o.Dry {
			usedIK[o.IK] = true
		}
		if o.Kind != "create" || prior || r.Hit || r.Class == "idempotency_input" {
			continue
		}
		// balances right before the operation, from the implementation's own volumes listing
		cur := map[pair]*big.Int{}
		if i > 0 {
			for _, v := range hr.Snaps[i-1].Vols {
				cur[pair{v[0], v[1]}] = new(big.Int).Sub(bi(v[2]), bi(v[3]))
			}
		}
		get := func(p pair) *big.Int {
			if cur[p] == nil {
				cur[p] = new(big.Int)
			}
			return cur[p]
		}
		walk := -1
		for j, p := range o.Post {
			if !(o.Force || p.Src == "world" || p.Amt.Sign() <= 0 || p.Amt.Cmp(get(pair{p.Src, p.Asset})) <= 0) && walk < 0 {
				walk = j
			}
			get(pair{p.Src, p.Asset}).Sub(get(pair{p.Src, p.Asset}), p.Amt)
			get(pair{p.Dst, p.Asset}).Add(get(pair{p.Dst, p.Asset}), p.Amt)
		}
		switch {
		case len(o.Post) == 0:
			continue
		case walk >= 0 && r.Class != "insufficient_funds":
			return fmt.Sprintf("op %d: posting %d is not affordable in the in-order walk but the request returned %q", i, walk, r.Class)
		case walk < 0 && r.Class == "insufficient_funds":
			return fmt.Sprintf("op %d: every posting is affordable in the in-order walk (force=%v) but the request failed with insufficient funds", i, o.Force)
		}
		if r.Class != "none" {
			continue
		}
		same := func(ps []Posting) bool {
			if len(ps) != len(o.Post) {
				return false
			}
			for j := range ps {
				if ps[j].Src != o.Post[j].Src || ps[j].Dst != o.Post[j].Dst || ps[j].Asset != o.Post[j].Asset || ps[j].Amt.Cmp(o.Post[j].Amt) != 0 {
					return false
				}
			}
			return true
		}
		var ret []Posting
		if r.Tx != nil {
			for _, p := range r.Tx.Postings {
				ret = append(ret, Posting{p.Source, p.Destination, p.Asset, p.Amount})
			}
		}
		if !same(ret) {
			return fmt.Sprintf("op %d: returned transaction has postings %v, submitted %v", i, ret, o.Post)
		}
		if !o.Dry {
			found := false
			for _, t := range hr.Snaps[i].Txs {
				if r.TxID != nil && t.ID == *r.TxID {
					found = true
					if !same(t.Post) {
						return fmt.Sprintf("op %d: stored transaction %d has postings %v, submitted %v", i, t.ID, t.Post, o.Post)
					}
				}
			}
			if !found {
				return fmt.Sprintf("op %d: committed transaction not listed", i)
			}
		}
	}
	return ""
}

// ---- C13 idempotency keys: at most one log per key; same key + same input = the original answer flagged as a hit and no
// effect; same key + different input = idempotency-input error and no effect
func monC13(hr *HistRun) string {
	type first struct {
		in    string
		logID int64
		txID  *int64
		at    int
	}
	seen := map[string]first{}
	for i, o := range hr.Ops {
		if i >= len(hr.Res) || hr.Res[i].Panic != "" {
			break
		}
		r := hr.Res[i]
		// at most one log per key
		cnt := map[string]int{}
		for _, l := range hr.Snaps[i].Logs {
			if l.IK != "" {
				cnt[l.IK]++
				if cnt[l.IK] > 1 {
					return fmt.Sprintf("step %d: %d logs carry idempotency key %q", i, cnt[l.IK], l.IK)
				}
			}
		}
		if o.IK == "" {
			continue
		}
		f, ok := seen[o.IK]
		if !ok {
			if r.Hit {
				return fmt.Sprintf("step %d: first use of key %q reported as an idempotency hit", i, o.IK)
			}
			if r.Class == "none" && !o.Dry {
				seen[o.IK] = first{o.inputSx(), r.LogID, r.TxID, i}
			}
			continue
		}
		unchanged := i > 0 && hr.Snaps[i].sx() == hr.Snaps[i-1].sx()
		if f.in == o.inputSx() {
			if r.Class != "none" || !r.Hit {
				return fmt.Sprintf("step %d: replay of step %d under key %q with the same input returned %s (expected the original log %d flagged as a hit)", i, f.at, o.IK, r.sx(), f.logID)
			}
			if r.LogID != f.logID || (r.TxID == nil) != (f.txID == nil) || (r.TxID != nil && *r.TxID != *f.txID) {
				return fmt.Sprintf("step %d: replay under key %q returned %s, the original was log %d", i, o.IK, r.sx(), f.logID)
			}
		} else if r.Class != "idempotency_input" {
			return fmt.Sprintf("step %d: key %q reused with a different input returned %s (expected the idempotency-input validation error)", i, o.IK, r.sx())
		}
		if !unchanged {
			return fmt.Sprintf("step %d: request under the already used key %q changed the ledger", i, o.IK)
		}
	}
	return ""
}
