//go:build verif

package main

import (
	"math/big"
	"errors"
	"fmt"
	"regexp"
	"strings"

	"github.com/formancehq/ledger/internal/verifh/pgsem"
)

// TIE-F for C07/C08: every write kind (incl. dry runs) with a fault injected at a statement position of the operation:
//   error    : the k-th SQL statement of the operation fails with a driver error
//   deadlock : the k-th statement fails ONCE with SQLSTATE 40P01 (forgeLog rolls back and retries through forgeLogRetry/runTx)
//   ikrace   : the INSERT INTO logs fails ONCE with 23505 on logs_idempotency_key (same retry path)
// Monitors (on the implementation alone): C07 -- an operation that returns an error, and any dry run (also when it was
// retried), leaves the complete snapshot unchanged; after a transient fault the outcome equals the outcome of the same
// operation without the fault; C08 -- the number of logs grows by exactly one iff the operation succeeded for real.
func init() { commands["faultops"] = cmdFaultOps }

var errInjectedFault = errors.New("verif: injected statement failure")
var reInsertLogs = regexp.MustCompile(`(?i)^\s*INSERT INTO\s+\S*logs\b`)

type faultSpec struct {
	Mode string // none error deadlock ikrace
	K    int
}

func (f faultSpec) sx() string { return L("fault", f.Mode, fmt.Sprint(f.K)) }

// coreEq: what a retried operation must have in common with its fault-free twin (ids may differ: sequences are not transactional)
func shapeSx(s Snap) string {
	if s.Err != "" {
		return "state_error " + s.Err
	}
	var b strings.Builder
	v := append([][4]string{}, s.Vols...)
	fmt.Fprintf(&b, "vols=%v accounts=", v)
	for _, a := range s.Accounts {
		fmt.Fprintf(&b, "%s%v ", a.Addr, a.Meta)
	}
	fmt.Fprintf(&b, "txs=%d logs=%d", len(s.Txs), len(s.Logs))
	for _, t := range s.Txs {
		fmt.Fprintf(&b, " [%v %v rev=%v]", t.Post, t.Meta, t.Rev != nil)
	}
	return b.String()
}

func cmdFaultOps(args []string) int {
	f := ParseFlags(args)
	out := NewOut(f.Out)
	defer out.Close()
	mon := f.Extra["monitors"]
	prof := HistProfile{MaxOps: 6, Backdate: true}
	if v, ok := f.Extra["scripts"]; ok { // creates whose script sets metadata: a retried write re-runs the script on the same request value
		fmt.Sscan(v, &prof.ScriptsPct)
	}
	run := func(feat Feat, ops []Op, target Op, fs faultSpec) (*HistRun, bool) {
		hr := newHistRun(feat, false)
		for _, o := range ops {
			if hr.Step(o).Panic != "" {
				return hr, false
			}
		}
		n, fired := 0, false
		if fs.Mode != "none" {
			hr.St.PG.FaultHook = func(s *pgsem.Session, sql string) error {
				if fired && fs.Mode != "error" {
					return nil
				}
				switch fs.Mode {
				case "ikrace":
					if reInsertLogs.MatchString(sql) {
						fired = true
						return &pgsem.SQLError{Code: "23505", Constraint: "logs_idempotency_key", Msg: "duplicate key value violates unique constraint (injected)"}
					}
				default:
					n++
					if n == fs.K {
						fired = true
						if fs.Mode == "deadlock" {
							return &pgsem.SQLError{Code: "40P01", Msg: "deadlock detected (injected)"}
						}
						return errInjectedFault
					}
				}
				return nil
			}
		}
		// the fault switch covers the operation only, not the reads that follow it
		hr.St.PG.Clock = pgsem.TS(target.Now)
		res := runOp(hr.ctx, hr.ctrl, target)
		hr.St.PG.FaultHook = nil
		hr.Ops = append(hr.Ops, target)
		hr.Res = append(hr.Res, res)
		if res.Panic == "" {
			hr.Snaps = append(hr.Snaps, hr.St.Snapshot(hr.ctx, hr.ctrl, "l1", hr.Feat))
		}
		return hr, fired
	}
	check := func(feat Feat, ops []Op, target Op, fs faultSpec) {
		cs := L("faultops", histCaseSx(feat, append(append([]Op{}, ops...), target)), fs.sx())
		hr, fired := run(feat, ops, target, fs)
		n := len(ops)
		if len(hr.Res) != n+1 || len(hr.Snaps) < n {
			return // prefix ended in a panic: not a fault case
		}
		r := hr.Res[n]
		if r.Panic == "" && len(hr.Snaps) != n+1 {
			return
		}
		out.Stats["cases"]++
		out.Stats["mode_"+fs.Mode]++
		if fired {
			out.Stats["fault_fired"]++
		}
		impl := L(r.sx(), b01(fired))
		out.Case(cs, impl)
		if r.Panic != "" {
			out.Violation("C07", cs, "[fault-panic] the operation panicked: "+r.Panic)
			return
		}
		var before Snap
		if n > 0 {
			before = hr.Snaps[n-1]
		} else {
			before = newHistRun(feat, false).St.Snapshot(hr.ctx, hr.ctrl, "l1", feat)
			before = Snap{}
		}
		after := hr.Snaps[n]
		same := n > 0 && before.sx() == after.sx() || n == 0 && len(after.Logs) == 0 && len(after.Txs) == 0 && len(after.Vols) == 0 && len(after.Accounts) == 0
		real := r.Class == "none" && !target.Dry && !r.Hit
		if r.Class == "none" {
			out.Stats["distinct_nontrivial"]++
		}
		if strings.Contains(mon, "C07") || mon == "" {
			if !real && !same {
				what := "returned " + r.sx()
				if target.Dry {
					what = "was a dry run"
				}
				out.Violation("C07", cs, fmt.Sprintf("[trace-left] the operation %s (fault %s at statement %d, fired=%v) but the ledger changed", what, fs.Mode, fs.K, fired))
				return
			}
			if fired && fs.Mode != "error" && !(strings.HasPrefix(r.Class, "other:") && (strings.Contains(r.Class, "deadlock") || strings.Contains(r.Class, "(injected)"))) { // transient fault that was retried: the operation must behave like its fault-free twin
				ref, _ := run(feat, ops, target, faultSpec{Mode: "none"})
				if len(ref.Res) == n+1 && ref.Res[n].Panic == "" {
					rr := ref.Res[n]
					if rr.Class != r.Class && !(fs.Mode == "ikrace" && target.IK != "") {
						out.Violation("C07", cs, fmt.Sprintf("[retry-differs] after a transient %s the operation returned %s, without the fault it returns %s", fs.Mode, r.sx(), rr.sx()))
						return
					}
					if rr.Class == r.Class && shapeSx(ref.Snaps[n]) != shapeSx(after) {
						out.Violation("C07", cs, fmt.Sprintf("[retry-differs] after a transient %s the ledger differs from the fault-free run: %s  ---  %s", fs.Mode, firstDiff(shapeSx(after), shapeSx(ref.Snaps[n])), firstDiff(shapeSx(ref.Snaps[n]), shapeSx(after))))
						return
					}
				}
			}
		}
		if strings.Contains(mon, "C08") || mon == "" {
			nb := 0
			if n > 0 {
				nb = len(before.Logs)
			}
			d := len(after.Logs) - nb
			want := 0
			if real {
				want = 1
			}
			if d != want {
				out.Violation("C08", cs, fmt.Sprintf("[log-count] the operation (%s, dry=%v, fault %s at %d fired=%v) appended %d logs, expected %d", r.sx(), target.Dry, fs.Mode, fs.K, fired, d, want))
			}
		}
	}
	if f.Replay != "" {
		for _, line := range ReadLines(f.Replay) {
			sx, err := ParseSx(line)
			must(err)
			feat, ops := parseHistCase(sxString(sx.List[1]))
			fs := faultSpec{Mode: sx.List[2].List[1].Atom, K: int(atoi(sx.List[2].List[2].Atom))}
			check(feat, ops[:len(ops)-1], ops[len(ops)-1], fs)
		}
		return 0
	}
	r := NewRng(f.Seed)
	feats := []Feat{allOn, {true, true, false, false, true}, {true, false, true, true, false}, {false, false, true, false, false}}
	for i := 0; i < f.N; i++ {
		rr := r.Fork()
		feat := Pick(rr, feats)
		hr := newHistRun(feat, false)
		ops := genHistory(rr, prof, feat, hr.Step)
		if n := len(hr.Res); n == 0 || hr.Res[n-1].Panic != "" {
			continue
		}
		// the last generated operation is the target; it is re-run on fresh stacks with faults
		target := ops[len(ops)-1]
		prefix := ops[:len(ops)-1]
		if rr.Chance(30) {
			target.Dry = true
		}
		if i%6 == 3 { // a create reusing a reference the prefix committed: its (typed) conflict must survive the retry path
			for k, o := range prefix {
				if o.Kind == "create" && o.Ref != "" && !o.Dry && hr.Res[k].Class == "none" {
					target = Op{Kind: "create", Post: []Posting{{"world", "bob", "USD", big.NewInt(5)}}, Ref: o.Ref, Now: target.Now, IK: target.IK}
					break
				}
			}
		}
		modes := []faultSpec{{"deadlock", 1 + rr.Intn(9)}, {"ikrace", 0}, {"error", 1 + rr.Intn(12)}, {"deadlock", 1 + rr.Intn(4)}}
		for _, fs := range modes {
			check(feat, prefix, target, fs)
		}
	}
	return 0
}
