//go:build verif

package main

import (
	"context"
	"fmt"
	"math/big"

	ledger "github.com/formancehq/ledger/internal"
	ledgercontroller "github.com/formancehq/ledger/internal/controller/ledger"
	"github.com/formancehq/ledger/internal/storage/common"
)

func init() { commands["smoke"] = cmdSmoke }

func cmdSmoke(args []string) int {
	st := NewStack(StackOpts{Listener: true})
	st.LogSQL = true
	ctx := context.Background()
	defer func() {
		if r := recover(); r != nil {
			for _, q := range st.SQLLog {
				fmt.Println(q)
			}
			panic(r)
		}
	}()
	dump := func() {
		for _, q := range st.SQLLog {
			fmt.Println(q)
		}
		st.SQLLog = nil
	}
	err := st.Sys.CreateLedger(ctx, "l1", ledger.Configuration{Bucket: "_default"})
	fmt.Println("create ledger:", err)
	dump()
	ctrl, err := st.Sys.GetLedgerController(ctx, "l1")
	fmt.Println("get controller:", err)
	dump()
	if err != nil {
		return 1
	}
	st.Tick(1000000)
	log, tx, hit, err := ctrl.CreateTransaction(ctx, ledgercontroller.Parameters[ledgercontroller.CreateTransaction]{
		Input: ledgercontroller.CreateTransaction{RunScript: ledgercontroller.TxToScriptData(ledger.TransactionData{
			Postings: ledger.Postings{ledger.NewPosting("world", "alice", "USD", big.NewInt(100))},
		}, false)},
	})
	fmt.Println("create tx:", log, tx, hit, err)
	dump()
	acc, err := ctrl.GetAccount(ctx, common.ResourceQuery[any]{Builder: nil, Expand: []string{"volumes"}})
	fmt.Println("get account:", acc, err)
	dump()
	st.Tick(1000000)
	_, _, _, err = ctrl.RevertTransaction(ctx, ledgercontroller.Parameters[ledgercontroller.RevertTransaction]{Input: ledgercontroller.RevertTransaction{TransactionID: 1}})
	fmt.Println("revert:", err)
	dump()
	txs, err := ctrl.ListTransactions(ctx, common.InitialPaginatedQuery[any]{PageSize: 10, Options: common.ResourceQuery[any]{Expand: []string{"volumes", "effectiveVolumes"}}})
	fmt.Println("list txs:", err)
	if err == nil {
		for _, t := range txs.Data {
			fmt.Printf("  %+v\n", t)
		}
	}
	dump()
	bal, err := ctrl.GetAggregatedBalances(ctx, common.ResourceQuery[ledger.GetAggregatedVolumesOptions]{})
	fmt.Println("agg:", bal, err)
	dump()
	vols, err := ctrl.GetVolumesWithBalances(ctx, common.InitialPaginatedQuery[ledger.GetVolumesOptions]{PageSize: 10})
	fmt.Println("vols:", vols, err)
	dump()
	logs, err := ctrl.ListLogs(ctx, common.InitialPaginatedQuery[any]{PageSize: 10})
	fmt.Println("logs:", logs, err)
	dump()
	fmt.Println("events:", st.Events.Events)
	return 0
}

func init() {
	commands["catalog"] = func(args []string) int {
		st := NewStack(StackOpts{})
		for _, l := range st.PG.Catalog() {
			fmt.Println(l)
		}
		return 0
	}
}
