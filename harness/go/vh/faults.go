//go:build verif

package main

import (
	"os"
	"bytes"
	"context"
	"encoding/json"
	"errors"
	"fmt"
	"net/http"
	"net/http/httptest"
	"strings"
	"sync"
	"time"

	"github.com/uptrace/bun"

	ledger "github.com/formancehq/ledger/internal"
	"github.com/formancehq/ledger/internal/api/bulking"
	ledgercontroller "github.com/formancehq/ledger/internal/controller/ledger"
	"github.com/formancehq/ledger/internal/verifh/pgsem"
)

// ---------------------------------------------------------------- fault switches + observable trace of a Stack
// Tracer installs pgsem's hooks on a Stack: it records driver-level transaction boundaries (top-level BEGIN /
// COMMIT ok / COMMIT failed / ROLLBACK), successful InsertLog statements (with the id drawn) and listener calls,
// each with the pgsem commit sequence at that moment, and carries the fault switches:
//   FailStmtAt(k)   : the k-th statement (1-based, transaction control excluded) from now fails with a driver error
//   FailCommitIn(n) : the (n+1)-th COMMIT of an explicit transaction from now fails (the transaction is rolled back)
type TraceItem struct {
	Kind string // begin commit commit_fail rollback log pub
	ID   int64  // log id (log); resolved log id (pub)
	Desc string // pub: the listener call as recorded
	Seq  uint64 // commit sequence when recorded
	Op   int    // index of the harness operation during which it was recorded
}

type Tracer struct {
	mu         sync.Mutex
	st         *Stack
	Items      []TraceItem
	CurOp      int
	failStmt   int
	stmtN      int
	failCommit int
	FaultHit   bool
	FaultInTx  bool
	FaultSQL   string
	Stmts      int // statements seen since the last Arm/Reset (for enumeration of fault positions)
	// context cancellation, triggered synchronously from the hooks:
	//   CancelAtStmt(k, cancel)       : cancel() is called right after the k-th statement from now has executed (the
	//                                   driver then reports context.Canceled for it)
	//   CancelBeforeCommit(n, cancel) : cancel() is called right before the (n+1)-th top-level bun.Tx.Commit from now,
	//                                   which then waits (bounded poll on pgsem's transaction state) until database/sql has
	//                                   rolled the transaction back, so that sql.Tx.Commit returns sql.ErrTxDone
	cancelStmt   int
	cancelStmtN  int
	cancelCommit int
	cancelFn     func()
	CancelHit    bool
	CancelOnLog  bool
	openTx       int // explicit top-level transactions currently open on pgsem
}

type bunCommitHook struct{ t *Tracer }

func (h bunCommitHook) BeforeQuery(ctx context.Context, ev *bun.QueryEvent) context.Context {
	if ev.Query == "COMMIT" {
		h.t.beforeCommit()
	}
	return ctx
}
func (h bunCommitHook) AfterQuery(context.Context, *bun.QueryEvent) {}

func (t *Tracer) beforeCommit() {
	t.mu.Lock()
	fire := t.cancelCommit == 0
	if t.cancelCommit >= 0 {
		t.cancelCommit--
	}
	fn := t.cancelFn
	t.mu.Unlock()
	if fire && fn != nil {
		t.mu.Lock()
		t.CancelHit = true
		t.mu.Unlock()
		fn()
		t.WaitNoOpenTx("cancel before COMMIT: database/sql never rolled the transaction back")
	}
}

// WaitNoOpenTx polls pgsem's transaction state (as reported by TxHook) until no explicit transaction is open; bounded.
func (t *Tracer) WaitNoOpenTx(what string) {
	deadline := time.Now().Add(20 * time.Second)
	for {
		t.mu.Lock()
		n := t.openTx
		t.mu.Unlock()
		if n == 0 {
			return
		}
		if time.Now().After(deadline) {
			panic("verif harness: " + what)
		}
		time.Sleep(5 * time.Microsecond)
	}
}

var errInjected = errors.New("verif: injected statement failure")
var errInjectedCommit = errors.New("verif: injected COMMIT failure")

func (st *Stack) EnableTrace() *Tracer {
	t := &Tracer{st: st, failCommit: -1, cancelCommit: -1}
	pg := st.PG
	st.Bun.AddQueryHook(bunCommitHook{t})
	pg.TxHook = func(s *pgsem.Session, kind string) {
		t.add(TraceItem{Kind: kind})
		t.mu.Lock()
		if kind == "begin" {
			t.openTx++
		} else {
			t.openTx--
		}
		t.mu.Unlock()
	}
	pg.StmtHook = func(s *pgsem.Session, sql string, res *pgsem.Result, err error) {
		q := strings.TrimSpace(sql)
		isLog := err == nil && res != nil && strings.HasPrefix(q, "INSERT INTO ") && strings.Contains(q[:min(len(q), 80)], ".logs (")
		defer func() {
			t.mu.Lock()
			fire := false
			if t.cancelStmt > 0 {
				t.cancelStmtN++
				if t.cancelStmtN == t.cancelStmt {
					t.cancelStmt = 0
					t.CancelHit, t.CancelOnLog = true, isLog
					fire = true
				}
			}
			fn := t.cancelFn
			t.mu.Unlock()
			if fire && fn != nil {
				fn() // synchronous: the driver sees ctx.Err() != nil as soon as this statement returns
			}
		}()
		if isLog {
			id := int64(-1)
			for i, c := range res.Cols {
				if c == "id" && len(res.Rows) > 0 {
					id = atoi(pgsem.TextOf(res.Rows[0][i]))
				}
			}
			t.add(TraceItem{Kind: "log", ID: id})
		}
	}
	pg.FaultHook = func(s *pgsem.Session, sql string) error {
		t.mu.Lock()
		defer t.mu.Unlock()
		t.Stmts++
		if os.Getenv("VH_DEBUG") == "2" {
			fmt.Fprintf(os.Stderr, "  sql[%d intx=%v] %.160s\n", t.Stmts, s.InTx(), sql)
		}
		if t.failStmt > 0 {
			t.stmtN++
			if t.stmtN == t.failStmt {
				t.failStmt = 0
				t.FaultHit, t.FaultInTx, t.FaultSQL = true, s.InTx(), sql
				return errInjected
			}
		}
		return nil
	}
	pg.CommitHook = func(s *pgsem.Session) error {
		t.mu.Lock()
		defer t.mu.Unlock()
		if t.failCommit == 0 {
			t.failCommit = -1
			return errInjectedCommit
		}
		if t.failCommit > 0 {
			t.failCommit--
		}
		return nil
	}
	if st.Events != nil {
		st.Events.Hook = func(ev string) { t.add(TraceItem{Kind: "pub", Desc: ev, ID: -1}) }
	}
	return t
}

func (t *Tracer) add(it TraceItem) {
	t.mu.Lock()
	defer t.mu.Unlock()
	it.Seq = t.st.PG.CommitSeq()
	it.Op = t.CurOp
	t.Items = append(t.Items, it)
}
func (t *Tracer) FailStmtAt(k int) {
	t.mu.Lock()
	defer t.mu.Unlock()
	t.failStmt, t.stmtN, t.FaultHit, t.FaultInTx, t.FaultSQL = k, 0, false, false, ""
}
func (t *Tracer) FailCommitIn(n int) {
	t.mu.Lock()
	defer t.mu.Unlock()
	t.failCommit = n
}
func (t *Tracer) Disarm() {
	t.mu.Lock()
	defer t.mu.Unlock()
	t.failStmt, t.failCommit, t.cancelStmt, t.cancelCommit, t.cancelFn = 0, -1, 0, -1, nil
}
func (t *Tracer) CancelAtStmt(k int, cancel func()) {
	t.mu.Lock()
	defer t.mu.Unlock()
	t.cancelStmt, t.cancelStmtN, t.cancelFn, t.CancelHit, t.CancelOnLog = k, 0, cancel, false, false
}
func (t *Tracer) CancelBeforeCommit(n int, cancel func()) {
	t.mu.Lock()
	defer t.mu.Unlock()
	t.cancelCommit, t.cancelFn, t.CancelHit, t.CancelOnLog = n, cancel, false, false
}
func (t *Tracer) ResetCount() { t.mu.Lock(); t.Stmts = 0; t.mu.Unlock() }

// ---------------------------------------------------------------- bulk elements from harness operations
func opJSON(o Op) string {
	meta := func(m []KV) string {
		b, _ := json.Marshal(map[string]string(kvmap(m)))
		return string(b)
	}
	q := func(s string) string { b, _ := json.Marshal(s); return string(b) }
	var action, data string
	switch o.Kind {
	case "create":
		action = bulking.ActionCreateTransaction
		var ps []string
		for _, p := range o.Post {
			ps = append(ps, fmt.Sprintf(`{"source":%s,"destination":%s,"amount":%s,"asset":%s}`, q(p.Src), q(p.Dst), p.Amt.String(), q(p.Asset)))
		}
		ts := ""
		if o.TS != nil {
			ts = fmt.Sprintf(`"timestamp":%s,`, q(tsOf(*o.TS).Format(time.RFC3339Nano)))
		}
		am := "{"
		first := true
		for _, a := range sortedKeys(o.AccMeta) {
			if !first {
				am += ","
			}
			first = false
			am += q(a) + ":" + meta(o.AccMeta[a])
		}
		am += "}"
		data = fmt.Sprintf(`{"postings":[%s],%s"reference":%s,"metadata":%s,"accountMetadata":%s,"force":%v}`, strings.Join(ps, ","), ts, q(o.Ref), meta(o.Meta), am, o.Force)
	case "revert":
		action = bulking.ActionRevertTransaction
		data = fmt.Sprintf(`{"id":%d,"force":%v,"atEffectiveDate":%v}`, o.TxID, o.Force, o.AtEff)
	case "setmeta", "delmeta":
		tt, tid := ledger.MetaTargetTypeTransaction, fmt.Sprint(o.TxID)
		if o.IsAcc {
			tt, tid = ledger.MetaTargetTypeAccount, q(o.TgtAcc)
		}
		if o.Kind == "setmeta" {
			action = bulking.ActionAddMetadata
			data = fmt.Sprintf(`{"targetType":%s,"targetId":%s,"metadata":%s}`, q(tt), tid, meta(o.Meta))
		} else {
			action = bulking.ActionDeleteMetadata
			data = fmt.Sprintf(`{"targetType":%s,"targetId":%s,"key":%s}`, q(tt), tid, q(o.Key))
		}
	}
	return fmt.Sprintf(`{"action":%s,"ik":%s,"data":%s}`, q(action), q(o.IK), data)
}

func sortedKeys(m map[string][]KV) []string {
	var ks []string
	for k := range m {
		ks = append(ks, k)
	}
	sortStrings(ks)
	return ks
}
func sortStrings(a []string) {
	for i := 1; i < len(a); i++ {
		for j := i; j > 0 && a[j] < a[j-1]; j-- {
			a[j], a[j-1] = a[j-1], a[j]
		}
	}
}

// like bulkBody, with the CREATE_TRANSACTION elements chosen by scriptEncoded sent as {"script": {"plain": ..., "vars": {}}}
func bulkBodyEnc(ops []Op) string {
	els := make([]string, len(ops))
	for i, o := range ops {
		els[i] = opJSON(o)
		if scriptEncoded(o) {
			j := strings.Index(els[i], `"postings":[`)
			k := strings.Index(els[i][j:], `],`) + j
			sc, _ := json.Marshal(map[string]any{"plain": tplScript(o.Post), "vars": map[string]string{}})
			els[i] = els[i][:j] + `"script":` + string(sc) + els[i][k+1:]
		}
	}
	return "[" + strings.Join(els, ",") + "]"
}

func bulkBody(ops []Op) string {
	els := make([]string, len(ops))
	for i, o := range ops {
		els[i] = opJSON(o)
	}
	return "[" + strings.Join(els, ",") + "]"
}

func opAction(o Op) string {
	switch o.Kind {
	case "create":
		return bulking.ActionCreateTransaction
	case "revert":
		return bulking.ActionRevertTransaction
	case "setmeta":
		return bulking.ActionAddMetadata
	default:
		return bulking.ActionDeleteMetadata
	}
}

// BulkAPIResult = one entry of the JSON response of POST /_bulk
type BulkAPIResult struct {
	ErrorCode        string          `json:"errorCode"`
	ErrorDescription string          `json:"errorDescription"`
	Data             json.RawMessage `json:"data"`
	ResponseType     string          `json:"responseType"`
	LogID            uint64          `json:"logID"`
}

// runBulkHTTP performs what v2.bulkHandler does: JsonBulkHandler.GetChannels (decodes the body), Bulker.Run, Terminate
// (renders the response), and returns the decoded response entries + HTTP status + Run's error.
func runBulkHTTP(ctx context.Context, bulker *bulking.Bulker, body string, opts bulking.BulkingOptions) (entries []BulkAPIResult, status int, runErr error, raw string) {
	return runBulkHTTPWith(ctx, bulker, body, opts, nil)
}

// onChannels (optional) receives the result channel the handler created, before Run starts
func runBulkHTTPWith(ctx context.Context, bulker *bulking.Bulker, body string, opts bulking.BulkingOptions, onChannels func(chan bulking.BulkElementResult)) (entries []BulkAPIResult, status int, runErr error, raw string) {
	h := bulking.NewJSONBulkHandler(0)
	w := httptest.NewRecorder()
	r := httptest.NewRequest(http.MethodPost, "/v2/l1/_bulk", bytes.NewBufferString(body)).WithContext(ctx)
	send, receive, ok := h.GetChannels(w, r)
	if !ok {
		return nil, w.Code, errors.New("bad request: " + w.Body.String()), w.Body.String()
	}
	if onChannels != nil {
		onChannels(receive)
	}
	if err := bulker.Run(ctx, send, receive, opts); err != nil {
		return nil, 500, err, ""
	}
	h.Terminate(w, r)
	var resp struct {
		Data []BulkAPIResult `json:"data"`
	}
	if err := json.Unmarshal(w.Body.Bytes(), &resp); err != nil {
		return nil, w.Code, fmt.Errorf("response does not parse: %w", err), w.Body.String()
	}
	return resp.Data, w.Code, nil, w.Body.String()
}

// class of an API error code, in the vocabulary of hist.go:classify
func apiErrClass(e BulkAPIResult) string {
	switch e.ErrorCode {
	case "INSUFFICIENT_FUND":
		return "insufficient_funds"
	case "CONFLICT":
		return "reference_conflict"
	case "NOT_FOUND":
		return "not_found"
	case "ALREADY_REVERT":
		return "already_reverted"
	case "VALIDATION":
		return "idempotency_input"
	case "NO_POSTINGS":
		return "no_postings"
	case "SCHEMA_NOT_SPECIFIED":
		return "schema_not_specified"
	}
	if strings.Contains(e.ErrorDescription, "context canceled") {
		return "cancelled"
	}
	return "other:" + e.ErrorCode + ":" + e.ErrorDescription
}

func apiTxID(e BulkAPIResult) string {
	if len(e.Data) == 0 || string(e.Data) == "null" {
		return "nil"
	}
	var d struct {
		ID *int64 `json:"id"`
	}
	if json.Unmarshal(e.Data, &d) == nil && d.ID != nil {
		return fmt.Sprint(*d.ID)
	}
	return "nil"
}

var _ ledgercontroller.Controller
