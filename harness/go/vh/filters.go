//go:build verif

package main

import (
	"context"
	"encoding/json"
	"errors"
	"fmt"
	"math/big"
	"sort"
	"strings"
	"time"

	"github.com/formancehq/go-libs/v5/pkg/query"
	"github.com/formancehq/go-libs/v5/pkg/storage/bun/paginate"
	libtime "github.com/formancehq/go-libs/v5/pkg/types/time"
	"github.com/formancehq/go-libs/v5/pkg/types/pointer"
	"github.com/jackc/pgx/v5/pgconn"

	ledger "github.com/formancehq/ledger/internal"
	"github.com/formancehq/ledger/internal/storage/common"
	ledgerstore "github.com/formancehq/ledger/internal/storage/ledger"
)

// C20: random filter ASTs over random histories, evaluated by the REAL List*/Count* of the five resources (through the
// controller; count of volumes/logs through the real store), compared with (a) the extracted Coq model (faithful SQL
// model `res`, reference evaluator `ref`, printed emitted condition `where`) and (b) the independent Go reference
// evaluator below (monitor).
func init() { commands["filters"] = cmdFilters }

// ---------------------------------------------------------------- filter AST (harness side)
type fltVal struct {
	K byte // s i t b l
	S string
	I *big.Int
	T int64
	B bool
	L []string
}
type fltNode struct {
	Op   string // match lt gt lte gte like in exists | and or not
	Key  string // address account source destination id reference timestamp inserted_at updated_at reverted_at reverted meta metadata balance balance_any first_usage insertion_date date type
	Arg  string // meta key / balance asset
	Val  fltVal
	Kids []*fltNode
}

func (v fltVal) sx() string {
	switch v.K {
	case 's':
		return L("s", Q(v.S))
	case 'i':
		return L("i", v.I.String())
	case 't':
		return L("t", fmt.Sprint(v.T))
	case 'b':
		return L("b", b01(v.B))
	}
	xs := []string{"l"}
	for _, s := range v.L {
		xs = append(xs, Q(s))
	}
	return L(xs...)
}
func (n *fltNode) keySx() string {
	switch n.Key {
	case "meta":
		return L("meta", Q(n.Arg))
	case "balance":
		return L("balance", Q(n.Arg))
	}
	return n.Key
}
func (n *fltNode) sx() string {
	switch n.Op {
	case "and", "or":
		xs := []string{n.Op}
		for _, k := range n.Kids {
			xs = append(xs, k.sx())
		}
		return L(xs...)
	case "not":
		return L("not", n.Kids[0].sx())
	}
	return L("leaf", n.Op, n.keySx(), n.Val.sx())
}
func (n *fltNode) apiKey() string {
	switch n.Key {
	case "meta":
		return "metadata[" + n.Arg + "]"
	case "balance":
		return "balance[" + n.Arg + "]"
	case "balance_any":
		return "balance"
	}
	return n.Key
}
func fltTimeStr(us int64) string { return time.UnixMicro(us).UTC().Format(time.RFC3339Nano) }
func (n *fltNode) json() string {
	js := func(x any) string { b, _ := json.Marshal(x); return string(b) }
	switch n.Op {
	case "and", "or":
		xs := make([]string, len(n.Kids))
		for i, k := range n.Kids {
			xs[i] = k.json()
		}
		return `{"$` + n.Op + `":[` + strings.Join(xs, ",") + `]}`
	case "not":
		return `{"$not":` + n.Kids[0].json() + `}`
	}
	var v string
	switch n.Val.K {
	case 's':
		v = js(n.Val.S)
	case 'i':
		v = n.Val.I.String()
	case 't':
		v = js(fltTimeStr(n.Val.T))
	case 'b':
		v = js(n.Val.B)
	default:
		l := n.Val.L
		if l == nil {
			l = []string{}
		}
		v = js(l)
	}
	return `{"$` + n.Op + `":{` + js(n.apiKey()) + `:` + v + `}}`
}
func (n *fltNode) depth() int {
	d := 0
	for _, k := range n.Kids {
		if x := k.depth(); x > d {
			d = x
		}
	}
	return d + 1
}
func (n *fltNode) walk(f func(*fltNode, int), nots int) {
	f(n, nots)
	for _, k := range n.Kids {
		if n.Op == "not" {
			k.walk(f, nots+1)
		} else {
			k.walk(f, nots)
		}
	}
}

func parseFltVal(sx *Sx) fltVal {
	switch sx.List[0].Atom {
	case "s":
		return fltVal{K: 's', S: sx.List[1].Atom}
	case "i":
		z, _ := new(big.Int).SetString(sx.List[1].Atom, 10)
		return fltVal{K: 'i', I: z}
	case "t":
		return fltVal{K: 't', T: atoi(sx.List[1].Atom)}
	case "b":
		return fltVal{K: 'b', B: sx.List[1].Atom == "1"}
	}
	v := fltVal{K: 'l'}
	for _, s := range sx.List[1:] {
		v.L = append(v.L, s.Atom)
	}
	return v
}
func parseFltNode(sx *Sx) *fltNode {
	switch sx.List[0].Atom {
	case "and", "or", "not":
		n := &fltNode{Op: sx.List[0].Atom}
		for _, k := range sx.List[1:] {
			n.Kids = append(n.Kids, parseFltNode(k))
		}
		return n
	}
	n := &fltNode{Op: sx.List[1].Atom, Val: parseFltVal(sx.List[3])}
	if k := sx.List[2]; k.IsLst {
		n.Key, n.Arg = k.List[0].Atom, k.List[1].Atom
	} else {
		n.Key = k.Atom
	}
	return n
}

// ---------------------------------------------------------------- entities, read UNFILTERED through the real read paths
type fltEnt struct {
	// transactions
	ID            int64
	Ref           *string
	TS, Ins, Upd  int64
	Rev           *int64
	Srcs, Dsts    []string
	// accounts / volumes
	Addr          string
	First, InsD   int64
	Bals          []fltBal // accounts: per asset
	Asset         string   // volumes
	In, Out       *big.Int
	// logs
	Date          int64
	Type          string
	Meta          []KV
}
type fltBal struct {
	Asset string
	Bal   *big.Int
}

func (e fltEnt) sx(res string) string {
	switch res {
	case "tx":
		ref, rev := "nil", "nil"
		if e.Ref != nil {
			ref = Q(*e.Ref)
		}
		if e.Rev != nil {
			rev = fmt.Sprint(*e.Rev)
		}
		return L(fmt.Sprint(e.ID), ref, fmt.Sprint(e.TS), fmt.Sprint(e.Ins), fmt.Sprint(e.Upd), rev, kvsx(e.Meta), qlist(e.Srcs), qlist(e.Dsts))
	case "acc":
		bs := make([]string, len(e.Bals))
		for i, b := range e.Bals {
			bs[i] = L(Q(b.Asset), b.Bal.String())
		}
		return L(Q(e.Addr), kvsx(e.Meta), fmt.Sprint(e.First), fmt.Sprint(e.InsD), fmt.Sprint(e.Upd), L(bs...))
	case "vol", "agg":
		return L(Q(e.Addr), Q(e.Asset), e.In.String(), e.Out.String(), kvsx(e.Meta), fmt.Sprint(e.First))
	}
	return L(fmt.Sprint(e.ID), fmt.Sprint(e.Date), Q(e.Type))
}
func (e fltEnt) key(res string) string {
	switch res {
	case "tx", "log":
		return fmt.Sprint(e.ID)
	case "acc":
		return Q(e.Addr)
	}
	return L(Q(e.Addr), Q(e.Asset))
}
func qlist(xs []string) string {
	out := make([]string, len(xs))
	for i, x := range xs {
		out[i] = Q(x)
	}
	return L(out...)
}
func uniq(xs []string) []string {
	seen := map[string]bool{}
	var out []string
	for _, x := range xs {
		if !seen[x] {
			seen[x] = true
			out = append(out, x)
		}
	}
	return out
}

func pitOf(p *int64) *libtime.Time {
	if p == nil {
		return nil
	}
	return &libtime.Time{Time: time.UnixMicro(*p).UTC()}
}

// fltReadEntities: the entity table of a resource (at the same point in time), no filter
func fltReadEntities(hr *HistRun, res string, pit *int64) (ents []fltEnt, err error) {
	defer func() {
		if r := recover(); r != nil {
			err = fmt.Errorf("panic in unfiltered read: %v", r)
		}
	}()
	ctx, ctrl := hr.ctx, hr.ctrl
	asc := pointer.For(paginate.Order(paginate.OrderAsc))
	readAccounts := func() (map[string]ledger.Account, []ledger.Account, error) {
		expand := "volumes"
		if pit != nil {
			expand = "effectiveVolumes" // the balance filter of accounts at a PIT reads effective volumes
		}
		as, err := listAll(ctx, ctrl.ListAccounts, common.InitialPaginatedQuery[any]{PageSize: 50, Options: common.ResourceQuery[any]{PIT: pitOf(pit), Expand: []string{expand}}})
		if err != nil {
			return nil, nil, err
		}
		m := map[string]ledger.Account{}
		for _, a := range as {
			m[a.Address] = a
		}
		return m, as, nil
	}
	switch res {
	case "tx":
		txs, err := listAll(ctx, ctrl.ListTransactions, common.InitialPaginatedQuery[any]{PageSize: 50, Order: asc, Options: common.ResourceQuery[any]{PIT: pitOf(pit)}})
		if err != nil {
			return nil, err
		}
		for _, t := range txs {
			e := fltEnt{ID: int64(*t.ID), TS: us(t.Timestamp.Time), Ins: us(t.InsertedAt.Time), Upd: us(t.UpdatedAt.Time), Meta: sortKV(t.Metadata)}
			if t.Reference != "" {
				r := t.Reference
				e.Ref = &r
			}
			if t.RevertedAt != nil {
				v := us(t.RevertedAt.Time)
				e.Rev = &v
			}
			for _, p := range t.Postings {
				e.Srcs = append(e.Srcs, p.Source)
				e.Dsts = append(e.Dsts, p.Destination)
			}
			e.Srcs, e.Dsts = uniq(e.Srcs), uniq(e.Dsts)
			ents = append(ents, e)
		}
	case "acc":
		_, as, err := readAccounts()
		if err != nil {
			return nil, err
		}
		for _, a := range as {
			e := fltEnt{Addr: a.Address, Meta: sortKV(a.Metadata), First: us(a.FirstUsage.Time), InsD: us(a.InsertionDate.Time), Upd: us(a.UpdatedAt.Time)}
			vm := a.Volumes
			if pit != nil {
				vm = a.EffectiveVolumes
			}
			for c, v := range vm {
				e.Bals = append(e.Bals, fltBal{c, new(big.Int).Sub(v.Input, v.Output)})
			}
			sort.Slice(e.Bals, func(i, j int) bool { return e.Bals[i].Asset < e.Bals[j].Asset })
			ents = append(ents, e)
		}
	case "vol", "agg":
		vs, err := listAll(ctx, ctrl.GetVolumesWithBalances, common.InitialPaginatedQuery[ledger.GetVolumesOptions]{PageSize: 50, Options: common.ResourceQuery[ledger.GetVolumesOptions]{PIT: pitOf(pit)}})
		if err != nil {
			return nil, err
		}
		am, _, err := readAccounts()
		if err != nil {
			return nil, err
		}
		for _, v := range vs {
			a, ok := am[v.Account]
			if !ok {
				return nil, fmt.Errorf("join: account %s of a volume row is not listed at this point in time", v.Account)
			}
			ents = append(ents, fltEnt{Addr: v.Account, Asset: v.Asset, In: v.Input, Out: v.Output, Meta: sortKV(a.Metadata), First: us(a.FirstUsage.Time)})
		}
	case "log":
		ls, err := listAll(ctx, ctrl.ListLogs, common.InitialPaginatedQuery[any]{PageSize: 50, Order: asc})
		if err != nil {
			return nil, err
		}
		for _, l := range ls {
			ents = append(ents, fltEnt{ID: int64(*l.ID), Date: us(l.Date.Time), Type: l.Type.String()})
		}
	}
	return ents, nil
}

// ---------------------------------------------------------------- the real filtered reads
type fltResult struct {
	Class string   // ok invalid cardinality panic other
	Keys  []string // sorted keys (lists) or (asset balance) pairs (aggregated)
	Count int
	Msg   string
}

func fltSortKeys(res string, keys []string) {
	if res == "tx" || res == "log" {
		sort.Slice(keys, func(i, j int) bool { return atoi(keys[i]) < atoi(keys[j]) })
		return
	}
	sort.Strings(keys)
}
func (r fltResult) sx(res string) string {
	switch r.Class {
	case "ok":
		if res == "agg" {
			return L("ok", L(r.Keys...))
		}
		return L("ok", L(r.Keys...), fmt.Sprint(r.Count))
	case "other":
		return L("err", "other", Q(r.Msg))
	case "panic":
		return L("panic")
	}
	return L("err", r.Class)
}

func fltClassify(err error) (string, string) {
	var pe *pgconn.PgError
	switch {
	case errors.Is(err, common.ErrInvalidQuery{}) || errors.Is(err, ledgerstore.ErrInvalidQuery{}):
		return "invalid", ""
	case errors.As(err, &pe) && pe.Code == "21000":
		return "cardinality", ""
	}
	return "other", strings.ReplaceAll(err.Error(), "\n", " ")
}

func fltRun(hr *HistRun, store *ledgerstore.Store, res string, pit *int64, n *fltNode) (r fltResult) {
	defer func() {
		if p := recover(); p != nil {
			r = fltResult{Class: "panic", Msg: fmt.Sprint(p)}
		}
	}()
	ctx, ctrl := hr.ctx, hr.ctrl
	builder, err := query.ParseJSON(n.json())
	if err != nil {
		return fltResult{Class: "other", Msg: "ParseJSON: " + err.Error()}
	}
	fail := func(err error) fltResult {
		c, m := fltClassify(err)
		return fltResult{Class: c, Msg: m}
	}
	asc := pointer.For(paginate.Order(paginate.OrderAsc))
	r.Class = "ok"
	switch res {
	case "tx":
		q := common.ResourceQuery[any]{PIT: pitOf(pit), Builder: builder}
		xs, err := listAll(ctx, ctrl.ListTransactions, common.InitialPaginatedQuery[any]{PageSize: 4, Order: asc, Options: q})
		if err != nil {
			return fail(err)
		}
		for _, x := range xs {
			r.Keys = append(r.Keys, fmt.Sprint(*x.ID))
		}
		if r.Count, err = ctrl.CountTransactions(ctx, q); err != nil {
			return fail(err)
		}
	case "acc":
		q := common.ResourceQuery[any]{PIT: pitOf(pit), Builder: builder}
		xs, err := listAll(ctx, ctrl.ListAccounts, common.InitialPaginatedQuery[any]{PageSize: 3, Options: q})
		if err != nil {
			return fail(err)
		}
		for _, x := range xs {
			r.Keys = append(r.Keys, Q(x.Address))
		}
		if r.Count, err = ctrl.CountAccounts(ctx, q); err != nil {
			return fail(err)
		}
	case "vol":
		q := common.ResourceQuery[ledger.GetVolumesOptions]{PIT: pitOf(pit), Builder: builder}
		xs, err := listAll(ctx, ctrl.GetVolumesWithBalances, common.InitialPaginatedQuery[ledger.GetVolumesOptions]{PageSize: 4, Options: q})
		if err != nil {
			return fail(err)
		}
		for _, x := range xs {
			r.Keys = append(r.Keys, L(Q(x.Account), Q(x.Asset)))
		}
		if r.Count, err = store.Volumes().Count(ctx, q); err != nil {
			return fail(err)
		}
	case "log":
		q := common.ResourceQuery[any]{Builder: builder}
		xs, err := listAll(ctx, ctrl.ListLogs, common.InitialPaginatedQuery[any]{PageSize: 5, Order: asc, Options: q})
		if err != nil {
			return fail(err)
		}
		for _, x := range xs {
			r.Keys = append(r.Keys, fmt.Sprint(*x.ID))
		}
		if r.Count, err = store.Logs().Count(ctx, q); err != nil {
			return fail(err)
		}
	case "agg":
		bs, err := ctrl.GetAggregatedBalances(ctx, common.ResourceQuery[ledger.GetAggregatedVolumesOptions]{PIT: pitOf(pit), Builder: builder})
		if err != nil {
			return fail(err)
		}
		for c, b := range bs {
			r.Keys = append(r.Keys, L(Q(c), b.String()))
		}
	}
	fltSortKeys(res, r.Keys)
	return r
}

// ---------------------------------------------------------------- MONITOR: independent reference evaluator (documented meaning)
// Written separately from the Coq model: loops over strings.Split, no SQL. tri-valued variant only classifies a
// deviation as "exactly the SQL NULL behaviour".
func refAddrMatch(pat, addr string) bool {
	ps, as := strings.Split(pat, ":"), strings.Split(addr, ":")
	prefix := ps[len(ps)-1] == "..."
	partial := prefix
	for _, p := range ps {
		if p == "" {
			partial = true
		}
	}
	if !partial {
		return pat == addr
	}
	if prefix {
		ps = ps[:len(ps)-1]
	} else if len(ps) != len(as) {
		return false
	}
	for i, p := range ps {
		if p == "" {
			continue
		}
		if i >= len(as) || as[i] != p {
			return false
		}
	}
	return true
}
func refIsPartial(pat string) bool {
	ps := strings.Split(pat, ":")
	for _, p := range ps {
		if p == "" {
			return true
		}
	}
	return ps[len(ps)-1] == "..."
}
func refLike(pat, s string) bool {
	if pat == "" {
		return s == ""
	}
	switch pat[0] {
	case '%':
		for i := 0; i <= len(s); i++ {
			if refLike(pat[1:], s[i:]) {
				return true
			}
		}
		return false
	case '_':
		return s != "" && refLike(pat[1:], s[1:])
	}
	return s != "" && s[0] == pat[0] && refLike(pat[1:], s[1:])
}
func refCmp(op string, c int) (bool, bool) {
	switch op {
	case "match":
		return c == 0, true
	case "lt":
		return c < 0, true
	case "gt":
		return c > 0, true
	case "lte":
		return c <= 0, true
	case "gte":
		return c >= 0, true
	}
	return false, false
}
func cmp64(a, b int64) int {
	switch {
	case a < b:
		return -1
	case a > b:
		return 1
	}
	return 0
}
func inList(s string, l []string) bool {
	for _, x := range l {
		if x == s {
			return true
		}
	}
	return false
}

// refLeaf: 1 true, 0 false, -1 "value absent" (documented meaning: false; SQL: NULL)
func refLeaf(res string, n *fltNode, e fltEnt) int {
	b := func(x bool) int {
		if x {
			return 1
		}
		return 0
	}
	num := func(x *big.Int) int {
		if n.Val.K != 'i' {
			return 0
		}
		r, ok := refCmp(n.Op, x.Cmp(n.Val.I))
		return b(ok && r)
	}
	tim := func(x int64) int {
		if n.Val.K != 't' {
			return 0
		}
		r, ok := refCmp(n.Op, cmp64(x, n.Val.T))
		return b(ok && r)
	}
	addr := func(xs []string) int {
		switch {
		case (n.Op == "match" || n.Op == "like") && n.Val.K == 's':
			for _, x := range xs {
				if refAddrMatch(n.Val.S, x) {
					return 1
				}
			}
		case n.Op == "in" && n.Val.K == 'l':
			for _, x := range xs {
				if inList(x, n.Val.L) {
					return 1
				}
			}
		}
		return 0
	}
	str := func(x string) int {
		switch {
		case n.Op == "match" && n.Val.K == 's':
			return b(x == n.Val.S)
		case n.Op == "like" && n.Val.K == 's':
			return b(refLike(n.Val.S, x))
		case n.Op == "in" && n.Val.K == 'l':
			return b(inList(x, n.Val.L))
		}
		return 0
	}
	meta := func() int {
		var val *string
		for _, kv := range e.Meta {
			if kv.K == n.Arg {
				v := kv.V
				val = &v
			}
		}
		switch {
		case n.Op == "in":
			return b(n.Val.K == 'l' && val != nil && inList(*val, n.Val.L))
		case n.Val.K == 's':
			return b(val != nil && *val == n.Val.S)
		}
		return 0
	}
	metaExists := func() int {
		if n.Val.K != 's' {
			return 0
		}
		for _, kv := range e.Meta {
			if kv.K == n.Val.S {
				return 1
			}
		}
		return 0
	}
	switch n.Key {
	case "meta":
		return meta()
	case "metadata":
		if res == "log" {
			return 0
		}
		return metaExists()
	}
	switch res {
	case "tx":
		switch n.Key {
		case "id":
			return num(big.NewInt(e.ID))
		case "reference":
			if e.Ref == nil {
				return -1
			}
			return str(*e.Ref)
		case "timestamp":
			return tim(e.TS)
		case "inserted_at":
			return tim(e.Ins)
		case "updated_at":
			return tim(e.Upd)
		case "reverted_at":
			if e.Rev == nil {
				return -1
			}
			return tim(*e.Rev)
		case "reverted":
			return b(n.Val.K == 'b' && (e.Rev != nil) == n.Val.B)
		case "account":
			return addr(append(append([]string{}, e.Srcs...), e.Dsts...))
		case "source":
			return addr(e.Srcs)
		case "destination":
			return addr(e.Dsts)
		}
	case "acc":
		switch n.Key {
		case "address", "account":
			return addr([]string{e.Addr})
		case "first_usage":
			return tim(e.First)
		case "insertion_date":
			return tim(e.InsD)
		case "updated_at":
			return tim(e.Upd)
		case "balance":
			for _, bl := range e.Bals {
				if bl.Asset == n.Arg {
					return num(bl.Bal)
				}
			}
			return -1
		case "balance_any": // EXISTS over the per-asset rows: false, not unknown, without volumes
			for _, bl := range e.Bals {
				if num(bl.Bal) == 1 {
					return 1
				}
			}
			return 0
		}
	case "vol":
		bal := new(big.Int)
		if e.In != nil {
			bal.Sub(e.In, e.Out)
		}
		switch n.Key {
		case "address", "account":
			return addr([]string{e.Addr})
		case "first_usage":
			return tim(e.First)
		case "balance":
			return b(e.Asset == n.Arg && num(bal) == 1)
		case "balance_any":
			return num(bal)
		}
	case "agg":
		if n.Key == "address" {
			return addr([]string{e.Addr})
		}
	case "log":
		switch n.Key {
		case "id":
			return num(big.NewInt(e.ID))
		case "date":
			return tim(e.Date)
		case "type":
			return str(e.Type)
		}
	}
	return 0
}

// refSat: documented two-valued meaning
func refSat(res string, n *fltNode, e fltEnt) bool {
	switch n.Op {
	case "and":
		for _, k := range n.Kids {
			if !refSat(res, k, e) {
				return false
			}
		}
		return true
	case "or":
		for _, k := range n.Kids {
			if refSat(res, k, e) {
				return true
			}
		}
		return false
	case "not":
		return !refSat(res, n.Kids[0], e)
	}
	return refLeaf(res, n, e) == 1
}

// refSat3: Kleene evaluation where an absent value is "unknown" (1 true, 0 false, -1 unknown)
func refSat3(res string, n *fltNode, e fltEnt) int {
	switch n.Op {
	case "and":
		out := 1
		for _, k := range n.Kids {
			switch refSat3(res, k, e) {
			case 0:
				return 0
			case -1:
				out = -1
			}
		}
		return out
	case "or":
		out := 0
		for _, k := range n.Kids {
			switch refSat3(res, k, e) {
			case 1:
				return 1
			case -1:
				out = -1
			}
		}
		return out
	case "not":
		switch refSat3(res, n.Kids[0], e) {
		case 1:
			return 0
		case 0:
			return 1
		}
		return -1
	}
	return refLeaf(res, n, e)
}

var fltKeyTypes = map[string]map[string]string{
	"tx": {"reverted": "bool", "account": "string", "source": "string", "destination": "string", "reference": "string", "timestamp": "date", "inserted_at": "date",
		"updated_at": "date", "reverted_at": "date", "id": "num", "meta": "mapstr", "metadata": "mapstr"},
	"acc": {"address": "string", "first_usage": "date", "insertion_date": "date", "updated_at": "date", "balance": "mapnum", "balance_any": "mapnum", "meta": "mapstr", "metadata": "mapstr"},
	"vol": {"address": "string", "account": "string", "balance": "mapnum", "balance_any": "mapnum", "first_usage": "date", "meta": "mapstr", "metadata": "mapstr"},
	"agg": {"address": "string", "meta": "mapstr", "metadata": "mapstr"},
	"log": {"date": "date", "id": "num", "type": "string"},
}

// refWellFormed: is the filter one the API documents (known key for the resource, operator of the field type, value type)?
func refWellFormed(res string, n *fltNode) bool {
	ok := true
	n.walk(func(x *fltNode, _ int) {
		if x.Op == "and" || x.Op == "or" || x.Op == "not" {
			return
		}
		ty, known := fltKeyTypes[res][x.Key]
		if !known {
			ok = false
			return
		}
		cmpOp := x.Op == "match" || x.Op == "lt" || x.Op == "gt" || x.Op == "lte" || x.Op == "gte"
		switch ty {
		case "string", "mapstr":
			switch {
			case x.Op == "in":
				ok = ok && x.Val.K == 'l' && ty == "string" // no $in on maps (metadata[k])
				if ty == "string" && x.Key != "reference" && x.Key != "type" {
					for _, a := range x.Val.L {
						ok = ok && !refIsPartial(a)
					}
				}
			case x.Op == "match" || x.Op == "like" || (x.Op == "exists" && ty == "mapstr"):
				ok = ok && x.Val.K == 's'
			default:
				ok = false
			}
		case "date":
			ok = ok && cmpOp && x.Val.K == 't'
		case "num", "mapnum":
			ok = ok && cmpOp && x.Val.K == 'i' // $exists only on string maps
		case "bool":
			ok = ok && x.Op == "match" && x.Val.K == 'b'
		}
	}, 0)
	return ok
}

// ---------------------------------------------------------------- generator
var fltAccounts = []string{"world", "users:1", "users:2", "users:1:main", "bank", "bank:eu", "bank:eu:1", "shop:1:main"}
var fltSegAlphabet = []string{"users", "bank", "shop", "1", "2", "main", "eu", "world"}

func genAddrPattern(r *Rng, pool []string) string {
	a := Pick(r, pool)
	if r.Chance(8) {
		a = Pick(r, fltSegAlphabet) + ":" + Pick(r, fltSegAlphabet)
	}
	segs := strings.Split(a, ":")
	switch k := r.Intn(10); {
	case k < 3: // exact
		return a
	case k < 6: // partial: blank some segments
		i := r.Intn(len(segs))
		segs[i] = ""
		if len(segs) > 2 && r.Chance(30) {
			segs[r.Intn(len(segs))] = ""
		}
		return strings.Join(segs, ":")
	case k < 9: // prefix
		n := 1 + r.Intn(len(segs))
		if n == len(segs) && n > 1 && r.Chance(60) {
			n--
		}
		p := append(append([]string{}, segs[:n]...), "...")
		if n > 1 && r.Chance(20) {
			p[r.Intn(n)] = ""
		}
		return strings.Join(p, ":")
	default: // wrong length / unknown
		return a + ":" + Pick(r, []string{"", "x", "..."})
	}
}

type fltGen struct {
	r      *Rng
	res    string
	ents   []fltEnt
	addrs  []string
	neg    bool // negation-heavy shapes (nested $not over mixed $and / $or around address leaves)
	odd    bool // allow the forms outside the documented surface (panics, $in on metadata, empty sets, ill-typed)
	maxDep int
}

func (g *fltGen) cmpOp() string { return Pick(g.r, []string{"match", "lt", "gt", "lte", "gte"}) }
func (g *fltGen) ent() *fltEnt {
	if len(g.ents) == 0 {
		return nil
	}
	return &g.ents[g.r.Intn(len(g.ents))]
}
func (g *fltGen) timeNear(f func(e *fltEnt) *int64) fltVal {
	base := int64(1700000000) * 1000000
	if e := g.ent(); e != nil {
		if p := f(e); p != nil {
			base = *p
		}
	} else {
		base += int64(g.r.Intn(20)) * 1000000
	}
	return fltVal{K: 't', T: base + Pick(g.r, []int64{0, 0, 0, 1, -1, 1000000, -1000000})}
}
func (g *fltGen) addrLeaf(key string) *fltNode {
	r := g.r
	if r.Chance(25) {
		n := 1 + r.Intn(3)
		var l []string
		for i := 0; i < n; i++ {
			l = append(l, Pick(r, g.addrs))
		}
		if r.Chance(6) {
			l = append(l, "users:")
		}
		return &fltNode{Op: "in", Key: key, Val: fltVal{K: 'l', L: l}}
	}
	op := "match"
	if r.Chance(5) {
		op = "like"
	}
	return &fltNode{Op: op, Key: key, Val: fltVal{K: 's', S: genAddrPattern(r, g.addrs)}}
}
func (g *fltGen) metaLeaf() *fltNode {
	r := g.r
	if r.Chance(30) {
		return &fltNode{Op: "exists", Key: "metadata", Val: fltVal{K: 's', S: Pick(r, []string{"k1", "k2", "role", "zz"})}}
	}
	k, v := Pick(r, []string{"k1", "k2", "role"}), Pick(r, []string{"v1", "v2", "v3"})
	if e := g.ent(); e != nil && len(e.Meta) > 0 && r.Chance(60) {
		kv := Pick(r, e.Meta)
		k, v = kv.K, kv.V
	}
	if g.odd && r.Chance(25) {
		return &fltNode{Op: "in", Key: "meta", Arg: k, Val: fltVal{K: 'l', L: []string{v, "v9"}}}
	}
	return &fltNode{Op: "match", Key: "meta", Arg: k, Val: fltVal{K: 's', S: v}}
}
func (g *fltGen) balLeaf(any bool) *fltNode {
	r := g.r
	val := big.NewInt(int64(r.Intn(200) - 50))
	asset := Pick(r, genAssets)
	if e := g.ent(); e != nil {
		if len(e.Bals) > 0 {
			b := Pick(r, e.Bals)
			asset = b.Asset
			val = new(big.Int).Add(b.Bal, big.NewInt(int64(r.Intn(3)-1)))
		} else if e.In != nil {
			asset = e.Asset
			val = new(big.Int).Add(new(big.Int).Sub(e.In, e.Out), big.NewInt(int64(r.Intn(3)-1)))
		}
	}
	if r.Chance(15) {
		val = big.NewInt(0)
	}
	n := &fltNode{Op: g.cmpOp(), Key: "balance", Arg: asset, Val: fltVal{K: 'i', I: val}}
	if any {
		n.Key, n.Arg = "balance_any", ""
	}
	if g.odd && r.Chance(10) {
		n.Op = "exists"
	}
	return n
}

func (g *fltGen) leaf() *fltNode {
	r := g.r
	if g.odd && r.Chance(12) { // ill-formed: key of another resource, operator of another type, wrong value type
		n := g.validLeaf()
		switch r.Intn(3) {
		case 0:
			n.Key, n.Arg = Pick(r, []string{"id", "address", "account", "date", "type", "reverted", "insertion_date", "reference", "balance_any"}), ""
			if n.Val.K == 't' && (n.Key == "address" || n.Key == "account" || n.Key == "type" || n.Key == "reference") {
				n.Val = fltVal{K: 's', S: fltTimeStr(n.Val.T)} // on the wire a date IS a string: say so in the case
			}
		case 1:
			n.Op = Pick(r, []string{"lt", "like", "in", "exists", "gte"})
		default:
			n.Val = Pick(r, []fltVal{{K: 's', S: "x"}, {K: 'i', I: big.NewInt(3)}, {K: 'b', B: true}, {K: 'l', L: []string{"a"}}})
		}
		return n
	}
	return g.validLeaf()
}

func (g *fltGen) validLeaf() *fltNode {
	r := g.r
	switch g.res {
	case "tx":
		switch k := r.Intn(100); {
		case k < 10:
			id := int64(1 + r.Intn(6))
			if e := g.ent(); e != nil {
				id = e.ID + int64(r.Intn(3)-1)
			}
			return &fltNode{Op: g.cmpOp(), Key: "id", Val: fltVal{K: 'i', I: big.NewInt(id)}}
		case k < 22:
			switch r.Intn(3) {
			case 0:
				return &fltNode{Op: "match", Key: "reference", Val: fltVal{K: 's', S: Pick(r, []string{"r1", "r2", "ref:3", "nope"})}}
			case 1:
				return &fltNode{Op: "in", Key: "reference", Val: fltVal{K: 'l', L: Pick(r, [][]string{{"r1", "r2"}, {"ref:3"}, {"r2", "zz", "ref:3"}})}}
			}
			return &fltNode{Op: "like", Key: "reference", Val: fltVal{K: 's', S: Pick(r, []string{"r%", "ref%", "r_", "%3", "%", "_2"})}}
		case k < 34:
			key := Pick(r, []string{"timestamp", "inserted_at", "updated_at"})
			return &fltNode{Op: g.cmpOp(), Key: key, Val: g.timeNear(func(e *fltEnt) *int64 {
				switch key {
				case "timestamp":
					return &e.TS
				case "inserted_at":
					return &e.Ins
				}
				return &e.Upd
			})}
		case k < 40:
			return &fltNode{Op: g.cmpOp(), Key: "reverted_at", Val: g.timeNear(func(e *fltEnt) *int64 { return e.Rev })}
		case k < 48:
			return &fltNode{Op: "match", Key: "reverted", Val: fltVal{K: 'b', B: r.Bool()}}
		case k < 80:
			return g.addrLeaf(Pick(r, []string{"account", "source", "destination"}))
		default:
			return g.metaLeaf()
		}
	case "acc":
		switch k := r.Intn(100); {
		case k < 40:
			return g.addrLeaf("address")
		case k < 55:
			key := Pick(r, []string{"first_usage", "insertion_date", "updated_at"})
			return &fltNode{Op: g.cmpOp(), Key: key, Val: g.timeNear(func(e *fltEnt) *int64 {
				switch key {
				case "first_usage":
					return &e.First
				case "insertion_date":
					return &e.InsD
				}
				return &e.Upd
			})}
		case k < 78:
			return g.balLeaf(r.Chance(35))
		default:
			return g.metaLeaf()
		}
	case "vol":
		switch k := r.Intn(100); {
		case k < 40:
			return g.addrLeaf(Pick(r, []string{"address", "account"}))
		case k < 50:
			return &fltNode{Op: g.cmpOp(), Key: "first_usage", Val: g.timeNear(func(e *fltEnt) *int64 { return &e.First })}
		case k < 78:
			return g.balLeaf(r.Chance(35))
		default:
			return g.metaLeaf()
		}
	case "agg":
		if r.Chance(65) {
			return g.addrLeaf("address")
		}
		return g.metaLeaf()
	}
	switch k := r.Intn(100); { // log
	case k < 40:
		id := int64(1 + r.Intn(8))
		if e := g.ent(); e != nil {
			id = e.ID + int64(r.Intn(3)-1)
		}
		return &fltNode{Op: g.cmpOp(), Key: "id", Val: fltVal{K: 'i', I: big.NewInt(id)}}
	case k < 70:
		return &fltNode{Op: g.cmpOp(), Key: "date", Val: g.timeNear(func(e *fltEnt) *int64 { return &e.Date })}
	default:
		if r.Chance(30) {
			return &fltNode{Op: "in", Key: "type", Val: fltVal{K: 'l', L: []string{"NEW_TRANSACTION", "SET_METADATA"}}}
		}
		return &fltNode{Op: "match", Key: "type", Val: fltVal{K: 's', S: Pick(r, []string{"NEW_TRANSACTION", "SET_METADATA", "REVERTED_TRANSACTION", "DELETE_METADATA"})}}
	}
}

func (g *fltGen) node(depth int) *fltNode {
	r := g.r
	if depth >= g.maxDep || r.Chance(30+10*depth) {
		return g.leaf()
	}
	switch k := r.Intn(10); {
	case k < 4:
		n := &fltNode{Op: "and"}
		for i := 0; i < 1+r.Intn(3); i++ {
			n.Kids = append(n.Kids, g.node(depth+1))
		}
		if g.odd && r.Chance(4) {
			n.Kids = nil
		}
		return n
	case k < 8:
		n := &fltNode{Op: "or"}
		for i := 0; i < 1+r.Intn(3); i++ {
			n.Kids = append(n.Kids, g.node(depth+1))
		}
		if g.odd && r.Chance(6) {
			n.Kids = nil
		}
		return n
	default:
		return &fltNode{Op: "not", Kids: []*fltNode{g.node(depth + 1)}}
	}
}

// ---- negation-heavy shapes (push-down decision): nested $not (double / triple), $not over $and / $or that mix an
// address-carrying subtree (partial / prefix / exact / $in) with non-address leaves
func fltIsAddrKey(k string) bool { return k == "address" || k == "account" || k == "source" || k == "destination" }
func (g *fltGen) nonAddrLeaf() *fltNode {
	for i := 0; i < 20; i++ {
		if n := g.validLeaf(); !fltIsAddrKey(n.Key) {
			return n
		}
	}
	return g.metaLeaf()
}
func (g *fltGen) negAddrLeaf() *fltNode {
	key := "address"
	switch g.res {
	case "tx":
		key = Pick(g.r, []string{"account", "source", "destination"})
	case "vol":
		key = Pick(g.r, []string{"address", "account"})
	case "log":
		return g.validLeaf()
	}
	if g.r.Chance(70) { // mostly partial / prefix patterns: they are what triggers the lateral push-down
		for i := 0; i < 8; i++ {
			if p := genAddrPattern(g.r, g.addrs); refIsPartial(p) {
				return &fltNode{Op: "match", Key: key, Val: fltVal{K: 's', S: p}}
			}
		}
	}
	return g.addrLeaf(key)
}
func fltNot(n *fltNode) *fltNode { return &fltNode{Op: "not", Kids: []*fltNode{n}} }
func (g *fltGen) negNode(depth int) *fltNode {
	r := g.r
	if depth >= g.maxDep {
		return g.negAddrLeaf()
	}
	if depth == 0 && g.maxDep >= 4 && r.Chance(35) {
		// NOT(X AND NOT A) = NOT X OR A and relatives: the address sits under an EVEN number of $not inside a negated
		// $and, next to a non-address branch; rows satisfying only NOT X must survive the dataset
		a, x := g.negAddrLeaf(), g.nonAddrLeaf()
		inner := fltNot(a)
		switch r.Intn(4) {
		case 0:
			inner = fltNot(fltNot(fltNot(a)))
		case 1:
			inner = fltNot(&fltNode{Op: "and", Kids: []*fltNode{a, g.nonAddrLeaf()}})
		}
		kids := []*fltNode{x, inner}
		if r.Bool() {
			kids[0], kids[1] = kids[1], kids[0]
		}
		n := fltNot(&fltNode{Op: "and", Kids: kids})
		if r.Chance(30) {
			return &fltNode{Op: Pick(r, []string{"and", "or"}), Kids: []*fltNode{n, g.nonAddrLeaf()}}
		}
		return n
	}
	switch k := r.Intn(100); {
	case k < 42:
		return &fltNode{Op: "not", Kids: []*fltNode{g.negNode(depth + 1)}}
	case k < 84:
		n := &fltNode{Op: Pick(r, []string{"and", "or"}), Kids: []*fltNode{g.negNode(depth + 1), g.nonAddrLeaf()}}
		if r.Chance(25) {
			n.Kids = append(n.Kids, g.node(depth+1))
		}
		if r.Bool() {
			n.Kids[0], n.Kids[1] = n.Kids[1], n.Kids[0]
		}
		return n
	default:
		return g.negAddrLeaf()
	}
}

// fltNegStats: where do the address leaves sit? number of $not above (parity) x "mixed": some $and/$or ancestor has a
// branch without any address leaf (the shapes the push-down decision must refuse when negated)
func fltHasAddr(n *fltNode) bool {
	if len(n.Kids) == 0 && n.Op != "and" && n.Op != "or" {
		return n.Key == "address" || n.Key == "account"
	}
	for _, k := range n.Kids {
		if fltHasAddr(k) {
			return true
		}
	}
	return false
}
func fltNegStats(n *fltNode, nots int, mixed bool, seen map[string]bool) {
	switch n.Op {
	case "not":
		fltNegStats(n.Kids[0], nots+1, mixed, seen)
	case "and", "or":
		m := mixed
		for _, k := range n.Kids {
			if !fltHasAddr(k) {
				m = true
			}
		}
		for _, k := range n.Kids {
			fltNegStats(k, nots, m, seen)
		}
	default:
		if n.Key != "address" && n.Key != "account" {
			return
		}
		par := "odd"
		if nots%2 == 0 {
			par = "even"
			if nots == 0 {
				par = "none"
			}
		}
		mx := "plain"
		if mixed {
			mx = "mixed"
		}
		seen["negs_"+par+"_"+mx] = true
		if nots >= 3 {
			seen["negs_3plus"] = true
		}
	}
}

// ---------------------------------------------------------------- one case
func fltNormWS(s string) string { return strings.Join(strings.Fields(s), " ") }

type fltCase struct {
	Feat Feat
	Ops  []Op
	Res  string
	PIT  *int64
	F    *fltNode
}

func fltCaseSx(c fltCase, ents []fltEnt) string {
	pit := "nil"
	if c.PIT != nil {
		pit = fmt.Sprint(*c.PIT)
	}
	es := make([]string, len(ents))
	for i, e := range ents {
		es[i] = e.sx(c.Res)
	}
	return L("filters", histCaseSx(c.Feat, c.Ops), c.Res, pit, L(es...), c.F.sx())
}

func fltCheck(out *Out, hr *HistRun, store *ledgerstore.Store, c fltCase, seen map[string]bool) {
	ents, err := fltReadEntities(hr, c.Res, c.PIT)
	if err != nil {
		out.Stats["skipped_unfiltered_read_failed"]++
		return
	}
	cs := fltCaseSx(c, ents)
	r := fltRun(hr, store, c.Res, c.PIT, c.F)
	// reference evaluation (monitor side)
	var refKeys []string
	var refSel []fltEnt
	for _, e := range ents {
		if refSat(c.Res, c.F, e) {
			refSel = append(refSel, e)
			refKeys = append(refKeys, e.key(c.Res))
		}
	}
	if c.Res == "agg" {
		refKeys = fltAggKeys(refSel)
	}
	fltSortKeys(c.Res, refKeys)
	// TIE-B: WHERE fragment of the real ResolveFilter + Builder.Build
	where := "-"
	if r.Class == "ok" || r.Class == "cardinality" {
		if b, err := query.ParseJSON(c.F.json()); err == nil && b != nil {
			var pt *time.Time
			if c.PIT != nil {
				t := time.UnixMicro(*c.PIT).UTC()
				pt = &t
			}
			if w, err := ledgerstore.VerifFilterWhere(store, c.Res, pt, b); err == nil {
				where = fltNormWS(w)
			} else {
				where = "error: " + err.Error()
			}
		}
	}
	// push-down DECISION of the real code (canPushAddressFilterToLateral + collectAddressFilters), for every filter
	push := L("push", "error")
	if b, err := query.ParseJSON(c.F.json()); err == nil && b != nil {
		if can, need, addrs, err := ledgerstore.VerifPushDown(b); err == nil {
			push = L("push", b01(can), b01(need), qlist(addrs))
		} else {
			push = L("push", "error", Q(err.Error()))
		}
	}
	out.Case(cs, L(L("res", r.sx(c.Res)), L("ref", L(refKeys...)), L("where", Q(where)), push))
	// ---- statistics (input distribution)
	out.Stats["cases"]++
	out.Stats["res_"+c.Res]++
	out.Stats["class_"+r.Class]++
	out.Stats[fmt.Sprintf("depth_%d", c.F.depth())]++
	if c.PIT != nil {
		out.Stats["with_pit"]++
	}
	c.F.walk(func(x *fltNode, _ int) {
		switch x.Op {
		case "and", "or", "not":
			out.Stats["node_"+x.Op]++
		default:
			out.Stats["leaf_"+x.Op]++
			out.Stats["key_"+x.Key]++
			if x.Val.K == 's' && (x.Key == "address" || x.Key == "account" || x.Key == "source" || x.Key == "destination") {
				switch {
				case !refIsPartial(x.Val.S):
					out.Stats["addr_exact"]++
				case strings.HasSuffix(x.Val.S, "..."):
					out.Stats["addr_prefix"]++
				default:
					out.Stats["addr_partial"]++
				}
			}
		}
	}, 0)
	negSeen := map[string]bool{}
	fltNegStats(c.F, 0, false, negSeen)
	for k := range negSeen {
		out.Stats[k]++
		if c.Res == "vol" || c.Res == "agg" {
			out.Stats[k+"_volagg"]++
		}
	}
	total := len(ents)
	if c.Res != "agg" {
		switch {
		case len(refSel) == 0:
			out.Stats["sel_none"]++
		case len(refSel) == total:
			out.Stats["sel_all"]++
		default:
			out.Stats["sel_some"]++
			if k := c.Res + c.F.sx() + fmt.Sprint(refKeys); !seen[k] && r.Class == "ok" {
				seen[k] = true
				out.Stats["distinct_nontrivial"]++
			}
		}
	} else if len(refSel) > 0 && len(refSel) < total {
		out.Stats["sel_some"]++
		if k := c.Res + c.F.sx() + fmt.Sprint(refKeys); !seen[k] && r.Class == "ok" {
			seen[k] = true
			out.Stats["distinct_nontrivial"]++
		}
	}
	// ---- MONITOR C20 (independent of the Coq model)
	wf := refWellFormed(c.Res, c.F)
	var hasEmptyOr bool
	c.F.walk(func(x *fltNode, _ int) {
		hasEmptyOr = hasEmptyOr || (x.Op == "or" && len(x.Kids) == 0)
	}, 0)
	short := func(xs []string) string {
		s := strings.Join(xs, " ")
		if len(s) > 300 {
			s = s[:300] + "…"
		}
		return s
	}
	switch r.Class {
	case "ok":
		if !wf {
			out.Violation("C20", cs, fmt.Sprintf("[ill-formed-accepted] %s filter %s is outside the documented surface (unknown key / operator / value type) but was answered", c.Res, c.F.json()))
			return
		}
		same := len(r.Keys) == len(refKeys)
		for i := 0; same && i < len(refKeys); i++ {
			same = r.Keys[i] == refKeys[i]
		}
		if !same {
			// classification only: is the implementation's answer exactly the SQL-NULL (Kleene) answer?
			var k3 []string
			var s3 []fltEnt
			for _, e := range ents {
				if refSat3(c.Res, c.F, e) == 1 {
					s3 = append(s3, e)
					k3 = append(k3, e.key(c.Res))
				}
			}
			if c.Res == "agg" {
				k3 = fltAggKeys(s3)
			}
			fltSortKeys(c.Res, k3)
			tag := "[wrong-selection]"
			switch {
			case fmt.Sprint(k3) == fmt.Sprint(r.Keys):
				tag = "[not-over-absent-value]"
			case hasEmptyOr:
				tag = "[empty-or-is-true]"
			}
			out.Violation("C20", cs, fmt.Sprintf("%s %s filter %s pit=%v lists {%s}; the entities satisfying it are {%s}", tag, c.Res, c.F.json(), c.PIT != nil, short(r.Keys), short(refKeys)))
			return
		}
		if c.Res != "agg" && r.Count != len(r.Keys) {
			out.Violation("C20", cs, fmt.Sprintf("[count-differs] %s filter %s: count = %d but %d entities are listed", c.Res, c.F.json(), r.Count, len(r.Keys)))
		}
	case "invalid":
		if wf {
			out.Violation("C20", cs, fmt.Sprintf("[well-formed-rejected] %s filter %s is rejected as invalid", c.Res, c.F.json()))
		}
	case "cardinality":
		tag := "[sql-error]"
		out.Violation("C20", cs, fmt.Sprintf("%s %s filter %s fails with SQLSTATE 21000 (more than one row returned by a subquery used as an expression); expected {%s}", tag, c.Res, c.F.json(), short(refKeys)))
	case "panic":
		tag := "[panic]"
		out.Violation("C20", cs, fmt.Sprintf("%s %s filter %s panics: %s", tag, c.Res, c.F.json(), r.Msg))
	default:
		out.Violation("C20", cs, fmt.Sprintf("[error] %s filter %s fails: %s", c.Res, c.F.json(), r.Msg))
	}
}

func fltAggKeys(sel []fltEnt) []string {
	sum := map[string]*big.Int{}
	for _, e := range sel {
		if sum[e.Asset] == nil {
			sum[e.Asset] = new(big.Int)
		}
		sum[e.Asset].Add(sum[e.Asset], new(big.Int).Sub(e.In, e.Out))
	}
	var out []string
	for c, b := range sum {
		out = append(out, L(Q(c), b.String()))
	}
	return out
}

func cmdFilters(args []string) int {
	f := ParseFlags(args)
	out := NewOut(f.Out)
	defer out.Close()
	saved := genAccounts
	genAccounts = fltAccounts // addresses with 1–3 segments over a small alphabet, so partial / prefix patterns hit
	defer func() { genAccounts = saved }()
	maxDep := 4
	if v, ok := f.Extra["depth"]; ok {
		fmt.Sscan(v, &maxDep)
	}
	perHist := 16
	if v, ok := f.Extra["perhist"]; ok {
		fmt.Sscan(v, &perHist)
	}
	odd := f.Extra["odd"] == "1"
	seen := map[string]bool{}
	ctx := context.Background()
	if f.Replay != "" {
		for _, line := range ReadLines(f.Replay) {
			sx, err := ParseSx(line)
			must(err)
			feat, ops := parseHistCase(sxText(sx.List[1]))
			c := fltCase{Feat: feat, Ops: ops, Res: sx.List[2].Atom, F: parseFltNode(sx.List[5])}
			if sx.List[3].Atom != "nil" {
				p := atoi(sx.List[3].Atom)
				c.PIT = &p
			}
			hr := runHistory(feat, ops, false)
			store, _, err := hr.St.Driver.OpenLedger(ctx, "l1")
			must(err)
			fltCheck(out, hr, store, c, seen)
		}
		return 0
	}
	r := NewRng(f.Seed)
	resources := []string{"tx", "acc", "vol", "agg", "log"}
	for out.Stats["cases"] < f.N {
		rr := r.Fork()
		hr := newHistRun(allOn, false)
		ops := genHistory(rr, HistProfile{MaxOps: 14, Backdate: true}, allOn, hr.Step)
		if n := len(hr.Res); n > 0 && hr.Res[n-1].Panic != "" {
			continue // the known revert panic leaves the stack unusable
		}
		nok := 0
		for _, x := range hr.Res {
			if x.Class == "none" {
				nok++
			}
		}
		if nok < 4 {
			continue // too few entities for a filter to discriminate
		}
		store, _, err := hr.St.Driver.OpenLedger(ctx, "l1")
		must(err)
		out.Stats["histories"]++
		var pits []int64
		for _, o := range ops {
			pits = append(pits, o.Now)
			if o.TS != nil {
				pits = append(pits, *o.TS)
			}
		}
		for i := 0; i < perHist && out.Stats["cases"] < f.N; i++ {
			c := fltCase{Feat: allOn, Ops: ops, Res: resources[(i+int(rr.Intn(5)))%5]}
			if c.Res != "log" && len(pits) > 0 && rr.Chance(35) {
				p := Pick(rr, pits) + Pick(rr, []int64{0, 0, 1, -1})
				c.PIT = &p
			}
			ents, err := fltReadEntities(hr, c.Res, c.PIT)
			if err != nil {
				out.Stats["skipped_unfiltered_read_failed"]++
				continue
			}
			// addresses present in the entity table (plus, rarely, any address of the alphabet), so that address leaves hit
			var addrs []string
			for _, e := range ents {
				if e.Addr != "" {
					addrs = append(addrs, e.Addr)
				}
				addrs = append(append(addrs, e.Srcs...), e.Dsts...)
			}
			addrs = uniq(append(addrs, Pick(rr, fltAccounts)))
			g := &fltGen{r: rr, res: c.Res, ents: ents, addrs: addrs, odd: odd, maxDep: maxDep}
			// input shaping: up to 4 draws, keep the first filter selecting neither nothing nor everything (reference meaning)
			g.neg = rr.Chance(12) || ((c.Res == "vol" || c.Res == "agg") && rr.Chance(40))
			if g.neg {
				out.Stats["neg_heavy"]++
			}
			for try := 0; try < 4; try++ {
				if g.neg {
					c.F = g.negNode(0)
				} else {
					c.F = g.node(0)
				}
				nsel := 0
				for _, e := range ents {
					if refSat(c.Res, c.F, e) {
						nsel++
					}
				}
				if nsel > 0 && nsel < len(ents) {
					break
				}
				out.Stats["redrawn"]++
			}
			fltCheck(out, hr, store, c, seen)
		}
	}
	return 0
}
