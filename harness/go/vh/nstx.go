//go:build verif

package main

import (
	"fmt"
	"math/big"

	ledger "github.com/formancehq/ledger/internal"
	ledgerctl "github.com/formancehq/ledger/internal/controller/ledger"
)

// C25 machine side: postings request -> real TxToScriptData -> real compiler + VM, against the extracted
// TxScriptCore.tx_run (Sem.run on the modelled script) and an independent in-order feasibility walk.
func init() { commands["nstx"] = cmdNsTx }

type nsTxCase struct {
	force bool
	posts []nsPosting
	bal   map[[2]string]*big.Int
}

func (c nsTxCase) sx() string {
	var ps, bs []string
	for _, p := range c.posts {
		ps = append(ps, L(Q(p.Src), Q(p.Dst), Q(p.Asset), p.Amt.String()))
	}
	for _, k := range sortedKeys2(c.bal) {
		bs = append(bs, L(Q(k[0]), Q(k[1]), c.bal[k].String()))
	}
	return L("tx", fmt.Sprint(c.force), L(ps...), L(bs...))
}

func genNsTx(r *Rng) nsTxCase {
	accs := []string{"a", "b", "c:1", "world", "d-2"}
	assets := []string{"USD", "EUR/2", "USD_X", "COIN"}
	c := nsTxCase{force: r.Chance(20), bal: map[[2]string]*big.Int{}}
	for _, a := range accs {
		for _, as := range assets {
			if r.Chance(60) {
				b := big.NewInt(int64(r.Intn(60)))
				if r.Chance(12) {
					b.Neg(b)
				} else if r.Chance(5) {
					b = r.BigAmount()
				}
				c.bal[[2]string{a, as}] = b
			}
		}
	}
	n := 1 + r.Intn(8)
	for i := 0; i < n; i++ {
		amt := big.NewInt(int64(r.Intn(40)))
		if r.Chance(10) {
			amt = big.NewInt(0)
		} else if r.Chance(5) {
			amt = r.BigAmount()
		}
		src := Pick(r, accs)
		if r.Chance(25) {
			src = "world"
		}
		c.posts = append(c.posts, nsPosting{Src: src, Dst: Pick(r, accs), Asset: Pick(r, assets[:1+r.Intn(len(assets))]), Amt: amt})
	}
	return c
}

// the property's walk, computed independently of the Coq model
func nsTxWalk(c nsTxCase) bool {
	cur := map[[2]string]*big.Int{}
	get := func(k [2]string) *big.Int {
		if v, ok := cur[k]; ok {
			return v
		}
		v := new(big.Int)
		if b, ok := c.bal[k]; ok {
			v.Set(b)
		}
		cur[k] = v
		return v
	}
	for _, p := range c.posts {
		s, d := get([2]string{p.Src, p.Asset}), get([2]string{p.Dst, p.Asset})
		if !c.force && p.Src != "world" && p.Amt.Sign() > 0 && p.Amt.Cmp(s) > 0 {
			return false
		}
		s.Sub(s, p.Amt)
		d = get([2]string{p.Dst, p.Asset})
		d.Add(d, p.Amt)
	}
	return true
}

func cmdNsTx(args []string) int {
	f := ParseFlags(args)
	out := NewOut(f.Out)
	defer out.Close()
	r := NewRng(f.Seed)
	one := func(c nsTxCase) {
		cs := c.sx()
		td := ledger.TransactionData{}
		for _, p := range c.posts {
			td.Postings = append(td.Postings, ledger.NewPosting(p.Src, p.Dst, p.Asset, p.Amt))
		}
		rs := ledgerctl.TxToScriptData(td, c.force)
		nc := &nsCase{Given: map[string]nsValue{}, Bal: c.bal, Meta: map[[2]string]nsValue{}}
		for k, v := range rs.Script.Vars {
			nc.Given[k] = nsValue{Ty: "string", S: v} // str() of a string value is the raw text SetVarsFromJSON receives
		}
		res := runMachine(rs.Script.Plain, nc)
		impl := ""
		switch res.Class {
		case "ok":
			var ps []string
			for _, p := range res.Posts {
				ps = append(ps, L(Q(p.Src), Q(p.Dst), Q(p.Asset), p.Amt.String()))
			}
			impl = L("ok", L(ps...))
		case "panic":
			impl = "(panic)"
		case "timeout":
			impl = "(timeout)"
		default:
			impl = L("err", res.Class)
		}
		out.Case(cs, impl)
		out.Stats["cases"]++
		out.Stats["class_"+res.Class]++
		out.Stats[fmt.Sprintf("postings_%d", len(c.posts))]++
		if c.force {
			out.Stats["force"]++
		}
		walk := nsTxWalk(c)
		if res.Class == "ok" {
			out.Stats["distinct_nontrivial"]++
			same := len(res.Posts) == len(c.posts)
			for i := 0; same && i < len(c.posts); i++ {
				a, b := res.Posts[i], c.posts[i]
				same = a.Src == b.Src && a.Dst == b.Dst && a.Asset == b.Asset && a.Amt.Cmp(b.Amt) == 0
			}
			if !same {
				out.Violation("C25", cs, "the machine run of the TxToScriptData script does not return the submitted postings [tx-postings-differ]")
			}
			if !walk {
				out.Violation("C25", cs, "accepted although the in-order walk takes a non-world source below zero [tx-accepted-infeasible]")
			}
		} else if res.Class == "insufficient" {
			if walk {
				out.Violation("C25", cs, "insufficient funds although the in-order walk never takes a source below zero [tx-rejected-feasible]")
			}
		} else {
			out.Violation("C25", cs, "valid postings request failed with "+res.Class+" "+res.PanicMsg+" [tx-unexpected-error]")
		}
	}
	if f.Replay != "" {
		for _, line := range ReadLines(f.Replay) {
			sx, err := ParseSx(line)
			must(err)
			c := nsTxCase{force: sx.List[1].Atom == "true", bal: map[[2]string]*big.Int{}}
			for _, p := range sx.List[2].List {
				c.posts = append(c.posts, nsPosting{p.List[0].Atom, p.List[1].Atom, p.List[2].Atom, sxBig(p.List[3])})
			}
			for _, b := range sx.List[3].List {
				c.bal[[2]string{b.List[0].Atom, b.List[1].Atom}] = sxBig(b.List[2])
			}
			one(c)
		}
		return 0
	}
	for i := 0; i < f.N; i++ {
		one(genNsTx(r))
	}
	return 0
}
