//go:build verif

package main

// TIE-S: deterministic schedule harness.  N worker goroutines each run ONE real controller operation on one shared real
// stack (one ledger, common prefix history).  The cooperative scheduler below implements pgsem.Scheduler: a worker parks
// before every SQL statement that touches shared state (Yield) and at every lock wait (Block); exactly one worker runs at
// a time, chosen by an explicit schedule (list of worker indices).  All nondeterminism of a run is therefore the schedule.
// Exploration is stateless (every schedule re-runs from a fresh stack): exhaustive for <= K preemptions (context
// bounding), plus seeded random schedules.  Deadlocks are detected on the wait-for graph when a wait closes a cycle and are
// resolved the way PostgreSQL resolves them (one waiter fails with SQLSTATE 40P01); which waiter PostgreSQL picks depends
// on timing - here it is the one whose wait closes the cycle (stated gap: modelled, not observed).

import (
	"bytes"
	"context"
	"encoding/json"
	"fmt"
	"math/big"
	"os"
	"regexp"
	"runtime"
	"sort"
	"strconv"
	"strings"

	ledger "github.com/formancehq/ledger/internal"
	ledgercontroller "github.com/formancehq/ledger/internal/controller/ledger"
	"github.com/formancehq/ledger/internal/verifh/pgsem"
	"github.com/formancehq/ledger/pkg/features"
)

func init() { commands["sched"] = cmdSched }

// ---------------------------------------------------------------- operations of a scenario
type COp struct {
	Kind            string // create | revert
	Mode            string // create: plain | od (allowing overdraft up to Allow) | unb (unbounded overdraft script) | force ; revert: plain | force
	Src, Dst, Asset string
	Amt, Allow      int64
	Ref, IK         string
	Inh             int   // input class: two operations carry the same caller input iff equal
	TxID            int64 // revert target
}

func (o COp) sx() string {
	return L("op", o.Kind, o.Mode, Q(o.Src), Q(o.Dst), Q(o.Asset), fmt.Sprint(o.Amt), fmt.Sprint(o.Allow), Q(o.Ref), Q(o.IK), fmt.Sprint(o.Inh), fmt.Sprint(o.TxID))
}

func runSchedOp(ctx context.Context, ctrl ledgercontroller.Controller, o COp) (res OpResult) {
	switch {
	case o.Kind == "revert":
		return runOp(ctx, ctrl, Op{Kind: "revert", TxID: o.TxID, Force: o.Mode == "force", IK: o.IK})
	case o.Mode == "plain" || o.Mode == "force":
		return runOp(ctx, ctrl, Op{Kind: "create", Post: []Posting{{o.Src, o.Dst, o.Asset, big.NewInt(o.Amt)}}, Force: o.Mode == "force", Ref: o.Ref, IK: o.IK})
	}
	defer func() {
		if r := recover(); r != nil {
			res = OpResult{Panic: fmt.Sprint(r)}
		}
	}()
	od := fmt.Sprintf("allowing overdraft up to [%s %d]", o.Asset, o.Allow)
	if o.Mode == "unb" {
		od = "allowing unbounded overdraft"
	}
	script := fmt.Sprintf("send [%s %d] (\n  source = @%s %s\n  destination = @%s\n)\n", o.Asset, o.Amt, o.Src, od, o.Dst)
	in := ledgercontroller.CreateTransaction{RunScript: ledgercontroller.RunScript{Script: ledgercontroller.Script{Plain: script, Vars: map[string]string{}}, Reference: o.Ref}}
	log, ct, hit, err := ctrl.CreateTransaction(ctx, ledgercontroller.Parameters[ledgercontroller.CreateTransaction]{IdempotencyKey: o.IK, Input: in})
	res.Class = classify(err)
	if err == nil {
		res.Log, res.LogID, res.Hit = log, int64(*log.ID), hit
		res.Tx = &ct.Transaction
		if ct.Transaction.ID != nil {
			id := int64(*ct.Transaction.ID)
			res.TxID = &id
		} else if p, ok := log.Data.(ledger.CreatedTransaction); ok && p.Transaction.ID != nil {
			id := int64(*p.Transaction.ID)
			res.TxID = &id
		}
	}
	return res
}

// importStream: n logs exported from a source ledger ("src": world -> acc<k>, idempotency keys i1..in, which mark the imported
// rows in the copy), log and transaction ids shifted by shift
func importStream(ctx context.Context, st *Stack, hash bool, n int, shift int64) []ledger.Log {
	if _, err := st.Sys.GetLedgerController(ctx, "src"); err != nil {
		must(st.Sys.CreateLedger(ctx, "src", ledger.Configuration{Bucket: "_default", Features: schedFeatures(hash)}))
	}
	src, err := st.Sys.GetLedgerController(ctx, "src")
	must(err)
	for k := 1; k <= n; k++ {
		st.PG.Clock += 1000000
		r := runOp(ctx, src, Op{Kind: "create", Post: []Posting{{"world", fmt.Sprintf("acc%d", k), "USD", big.NewInt(10)}}, IK: fmt.Sprintf("i%d", k)})
		if r.Class != "none" {
			panic("import stream: source write failed: " + r.Class)
		}
	}
	var buf bytes.Buffer
	enc := json.NewEncoder(&buf)
	must(src.Export(ctx, ledgercontroller.ExportWriterFn(func(ctx context.Context, log ledger.Log) error { return enc.Encode(log) })))
	return shiftLogs(buf.Bytes(), shift, shift)
}

// importDirect: Controller.Import fed from a pre-filled stream, in the calling goroutine (the scheduler identifies a request by its goroutine)
func importDirect(ctx context.Context, ctrl ledgercontroller.Controller, logs []ledger.Log) (err error) {
	defer func() {
		if r := recover(); r != nil {
			err = fmt.Errorf("panic: %v", r)
		}
	}()
	stream := make(chan ledger.Log, len(logs))
	for _, l := range logs {
		stream <- l
	}
	close(stream)
	return ctrl.Import(ctx, stream)
}

// runAtomicBulk: what Bulker.Run does for an atomic bulk - BeginTX on the facade, the elements on the controller it returns,
// Commit (Rollback at the first failing element) - in the calling goroutine (the Bulker runs the elements on a worker pool)
func runAtomicBulk(ctx context.Context, ctrl ledgercontroller.Controller, o COp) (out string) {
	out, _ = runAtomicBulkIDs(ctx, ctrl, o)
	return out
}

// runAtomicBulkIDs also returns the log ids of the elements (nil unless the bulk committed)
func runAtomicBulkIDs(ctx context.Context, ctrl ledgercontroller.Controller, o COp) (out string, ids []int64) {
	defer func() {
		if r := recover(); r != nil {
			out, ids = L("bulk_panic", Q(fmt.Sprint(r))), nil
		}
	}()
	tx, _, err := ctrl.BeginTX(ctx, nil)
	if err != nil {
		return L("bulk_err", "begin", Q(classify(err))), nil
	}
	var rs []string
	for k := 1; k <= int(o.Amt); k++ {
		r := runOp(ctx, tx, Op{Kind: "create", Post: []Posting{{o.Src, o.Dst, o.Asset, big.NewInt(10)}}, IK: fmt.Sprintf("%s.%d", o.IK, k)})
		rs = append(rs, r.sx())
		if r.Class != "none" || r.Panic != "" {
			_ = tx.Rollback(ctx)
			return L(append([]string{"bulk_rolled_back"}, rs...)...), nil
		}
		ids = append(ids, r.LogID)
	}
	if err := tx.Commit(ctx); err != nil {
		return L("bulk_err", "commit", Q(classify(err))), nil
	}
	return L(append([]string{"bulk"}, rs...)...), ids
}

// ---------------------------------------------------------------- scenarios
type Scenario struct {
	Name    string
	Prop    string // property whose monitor owns it
	Fresh   bool   // the contended (account, asset) pair has never been used (no accounts_volumes row)
	Hash    bool   // HASH_LOGS = SYNC
	Prefix  []COp
	Writers []COp
	Target  int64 // C15: the transaction being reverted
	Late    int   // writers with index >= len(Writers)-Late start only after all the others have answered (non-overlapping requests)
}

func fund(acc, asset string, amt int64) COp {
	return COp{Kind: "create", Mode: "plain", Src: "world", Dst: acc, Asset: asset, Amt: amt}
}
func spend(mode, src, dst string, amt, allow int64) COp {
	return COp{Kind: "create", Mode: mode, Src: src, Dst: dst, Asset: "USD", Amt: amt, Allow: allow}
}

var scenarioNames = []string{
	"c06-plain2", "c06-plain3", "c06-od2", "c06-od3", "c06-unb2", "c06-force2", "c06-revert", "c06-cross",
	"c16-disjoint", "c16-rollback", "c16-nonoverlap",
	"c13-same2", "c13-same3", "c13-diff2", "c13-spend2", "c13-revert2",
	"c14-ref2", "c14-ref3", "c14-refworld",
	"c15-rev2", "c15-rev3", "c15-revforce",
	"c12-import-vs-write", "c12-import-vs-bulk", "c12-import-vs-two", "c12-import-shifted", "c12-import-vs-failing",
	"c09-bulk-vs-write", "c09-bulk-vs-bulk", "c09-bulk-fails",
}

// buildScenario: fresh = never-used (account, asset) pair for the contended source (the account itself exists: it holds EUR)
func buildScenario(name string, fresh, hash bool) *Scenario {
	s := &Scenario{Name: name, Fresh: fresh, Hash: hash, Prop: "C" + name[1:3]}
	// every account used by a writer exists beforehand (accounts rows are not what is raced here)
	for _, a := range []string{"alice", "bob", "carol", "dave"} {
		s.Prefix = append(s.Prefix, fund(a, "EUR", 1))
	}
	withIK := func(ik string, ops ...COp) []COp {
		for i := range ops {
			ops[i].IK = ik
		}
		return ops
	}
	switch name {
	case "c06-plain2", "c06-plain3":
		if !fresh {
			s.Prefix = append(s.Prefix, fund("alice", "USD", 100))
		}
		s.Writers = []COp{spend("plain", "alice", "bob", 100, 0), spend("plain", "alice", "carol", 100, 0)}
		if name == "c06-plain3" {
			s.Writers = append(s.Writers, spend("plain", "alice", "dave", 100, 0))
		}
	case "c06-od2", "c06-od3":
		amt := int64(50)
		if !fresh {
			s.Prefix = append(s.Prefix, fund("alice", "USD", 50))
			amt = 100
		}
		s.Writers = []COp{spend("od", "alice", "bob", amt, 50), spend("od", "alice", "carol", amt, 50)}
		if name == "c06-od3" {
			s.Writers = append(s.Writers, spend("od", "alice", "dave", amt, 50))
		}
	case "c06-unb2":
		if !fresh {
			s.Prefix = append(s.Prefix, fund("alice", "USD", 50))
		}
		s.Writers = []COp{spend("unb", "alice", "bob", 100, 0), spend("unb", "alice", "carol", 100, 0)}
	case "c06-force2":
		if !fresh {
			s.Prefix = append(s.Prefix, fund("alice", "USD", 50))
		}
		s.Writers = []COp{spend("force", "alice", "bob", 100, 0), spend("force", "alice", "carol", 100, 0)}
	case "c06-revert": // T: alice -> bob 100; racing: non-forced revert of T (needs bob's 100) vs bob spending them
		s.Prefix = append(s.Prefix, fund("alice", "USD", 100), spend("plain", "alice", "bob", 100, 0))
		s.Target = int64(len(s.Prefix))
		s.Writers = []COp{{Kind: "revert", Mode: "plain", TxID: s.Target, Src: "bob", Dst: "alice", Asset: "USD", Amt: 100}, spend("plain", "bob", "carol", 100, 0)}
	case "c06-cross": // opposite transfers: GetBalances locks one row each, UpdateVolumes then needs the other one => deadlock + retry
		s.Prefix = append(s.Prefix, fund("alice", "USD", 100), fund("bob", "USD", 100))
		s.Writers = []COp{spend("plain", "alice", "bob", 100, 0), spend("plain", "bob", "alice", 100, 0)}
	case "c16-disjoint": // disjoint accounts; writer 2 fails in the machine (no funds): nothing drawn
		s.Prefix = append(s.Prefix, fund("alice", "USD", 100), fund("carol", "USD", 100))
		s.Writers = []COp{spend("plain", "alice", "bob", 10, 0), spend("plain", "carol", "dave", 10, 0), spend("plain", "dave", "bob", 10, 0)}
	case "c16-rollback": // writer 2 draws a transaction id, then fails on a reference used by the prefix: rolled back, gap
		p := fund("bob", "USD", 5)
		p.Ref = "used"
		s.Prefix = append(s.Prefix, fund("alice", "USD", 100), fund("carol", "USD", 100), p)
		w2 := spend("force", "dave", "bob", 10, 0)
		w2.Ref = "used"
		s.Writers = []COp{spend("plain", "alice", "bob", 10, 0), spend("plain", "carol", "dave", 10, 0), w2}
	case "c16-nonoverlap": // two overlapping writers on disjoint accounts (two pooled connections), then a third request issued
		// strictly after both have answered: it reuses one of the two connections
		s.Prefix = append(s.Prefix, fund("alice", "USD", 100), fund("carol", "USD", 100))
		s.Writers = []COp{spend("plain", "alice", "bob", 10, 0), spend("plain", "carol", "dave", 10, 0), spend("plain", "alice", "dave", 10, 0)}
		s.Late = 1
	case "c13-same2", "c13-same3":
		s.Writers = withIK("k", fund("alice", "USD", 10), fund("alice", "USD", 10))
		if name == "c13-same3" {
			s.Writers = withIK("k", append(s.Writers, fund("alice", "USD", 10))...)
		}
	case "c13-diff2":
		s.Writers = withIK("k", fund("alice", "USD", 10), fund("alice", "USD", 11))
		s.Writers[1].Inh = 1
	case "c13-spend2": // the input's second execution fails on its own: the winner spent the funds
		s.Prefix = append(s.Prefix, fund("alice", "USD", 100))
		s.Writers = withIK("k", spend("plain", "alice", "bob", 100, 0), spend("plain", "alice", "bob", 100, 0))
	case "c13-revert2": // same key, same input = revert of T: the second execution is "already reverted" on its own
		s.Prefix = append(s.Prefix, fund("alice", "USD", 100), spend("plain", "alice", "bob", 100, 0))
		s.Target = int64(len(s.Prefix))
		r := COp{Kind: "revert", Mode: "plain", TxID: s.Target, Src: "bob", Dst: "alice", Asset: "USD", Amt: 100}
		s.Writers = withIK("k", r, r)
	case "c14-ref2", "c14-ref3": // disjoint accounts: only the unique index on (ledger, reference) arbitrates
		s.Prefix = append(s.Prefix, fund("alice", "USD", 100), fund("carol", "USD", 100), fund("bob", "USD", 100))
		s.Writers = []COp{spend("force", "alice", "alice", 10, 0), spend("force", "carol", "carol", 10, 0)}
		if name == "c14-ref3" {
			s.Writers = append(s.Writers, spend("force", "bob", "bob", 10, 0))
		}
		for i := range s.Writers {
			s.Writers[i].Ref = "r"
			s.Writers[i].Inh = i
		}
	case "c14-refworld": // both also contend on world's row
		s.Writers = []COp{fund("alice", "USD", 10), fund("bob", "USD", 10)}
		for i := range s.Writers {
			s.Writers[i].Ref = "r"
			s.Writers[i].Inh = i
		}
	case "c12-import-vs-write", "c12-import-vs-bulk", "c12-import-vs-two", "c12-import-shifted", "c12-import-vs-failing":
		// the ledger is still initializing: no prefix.  Every request goes through its own facade, resolved before the race (what
		// a per-request GetLedgerController gives: all caches say "initializing", possibly stale by the time they are used).
		s.Prefix = nil
		imp := func(n, shift int64) COp { return COp{Kind: "import", Mode: "plain", Amt: n, Allow: shift} }
		w := fund("alice", "USD", 10)
		b := COp{Kind: "bulk", Mode: "plain", Src: "world", Dst: "bob", Asset: "USD", Amt: 2}
		switch name {
		case "c12-import-vs-write":
			s.Writers = []COp{imp(2, 0), w}
		case "c12-import-vs-bulk":
			s.Writers = []COp{imp(2, 0), b}
		case "c12-import-vs-two":
			s.Writers = []COp{imp(3, 0), w, b}
		case "c12-import-shifted": // the stream's ids lie above anything a racing first write can draw
			s.Writers = []COp{imp(2, 3), w}
		case "c12-import-vs-failing": // the racing write fails (no funds): it must leave the ledger pristine
			s.Writers = []COp{imp(2, 0), spend("plain", "dave", "bob", 10, 0)}
		}
		for i := range s.Writers {
			s.Writers[i].IK = fmt.Sprintf("w%d", i)
			s.Writers[i].Inh = i
		}
		return s
	case "c09-bulk-vs-write", "c09-bulk-vs-bulk", "c09-bulk-fails":
		// C09 at the advisory-lock boundary with ATOMIC BULKS (one SQL transaction inserting several logs, Controller.BeginTX) on a
		// ledger that is in use (the prefix wrote to it), HASH_LOGS = SYNC.  The racing requests touch DISJOINT accounts and
		// (account, asset) rows - carol -> bob and alice -> dave, nobody touches world - so that the only thing they share is the
		// log chain: lock, sequence, the trigger's read of the previous log.  A bulk COp: Amt elements of 10 USD Src -> Dst, element
		// number Allow (1-based; 0 = none) fails for lack of funds (the scenario funds Src accordingly) and the bulk rolls back.
		s.Hash = true
		bulk := func(src, dst string, n, failAt int64) COp {
			return COp{Kind: "bulk", Mode: "plain", Src: src, Dst: dst, Asset: "USD", Amt: n, Allow: failAt}
		}
		switch name {
		case "c09-bulk-vs-write":
			s.Prefix = append(s.Prefix, fund("carol", "USD", 100), fund("alice", "USD", 100))
			s.Writers = []COp{bulk("carol", "bob", 2, 0), spend("plain", "alice", "dave", 10, 0)}
		case "c09-bulk-vs-bulk":
			s.Prefix = append(s.Prefix, fund("carol", "USD", 100), fund("alice", "USD", 100))
			s.Writers = []COp{bulk("carol", "bob", 2, 0), bulk("alice", "dave", 2, 0)}
		case "c09-bulk-fails": // the bulk inserts one log, then its second element fails: ROLLBACK while the write may be waiting for the lock
			s.Prefix = append(s.Prefix, fund("carol", "USD", 10), fund("alice", "USD", 100))
			s.Writers = []COp{bulk("carol", "bob", 2, 2), spend("plain", "alice", "dave", 10, 0)}
		}
		for i := range s.Writers {
			s.Writers[i].IK = fmt.Sprintf("w%d", i)
			s.Writers[i].Inh = i
		}
		return s
	case "c15-rev2", "c15-rev3", "c15-revforce":
		s.Prefix = append(s.Prefix, fund("alice", "USD", 100), fund("bob", "USD", 100), spend("plain", "alice", "bob", 100, 0))
		s.Target = int64(len(s.Prefix))
		mode := "plain"
		if name == "c15-revforce" {
			mode = "force"
		}
		r := COp{Kind: "revert", Mode: mode, TxID: s.Target, Src: "bob", Dst: "alice", Asset: "USD", Amt: 100}
		s.Writers = []COp{r, r}
		if name == "c15-rev3" {
			s.Writers = append(s.Writers, r)
		}
	default:
		return nil
	}
	for i := range s.Writers {
		if s.Writers[i].IK == "" && s.Writers[i].Ref == "" {
			s.Writers[i].Inh = i
		}
	}
	return s
}

func (s *Scenario) headSx() string {
	return L("scn", Q(s.Name), b01(s.Fresh), b01(s.Hash))
}
func copsSx(ops []COp) string {
	out := make([]string, len(ops))
	for i, o := range ops {
		out[i] = o.sx()
	}
	return L(out...)
}
func (s *Scenario) caseSx(sch []int) string {
	ss := make([]string, len(sch))
	for i, x := range sch {
		ss[i] = strconv.Itoa(x)
	}
	return L("sched", s.headSx(), L("prefix", copsSx(s.Prefix)), L("writers", copsSx(s.Writers)), L(append([]string{"sch"}, ss...)...))
}

// chainLabel: the store calls that are steps of the lock-protocol model Ledger/ConcChain.v
func chainLabel(l string) bool { return l == "adv" || l == "log" || l == "commit" || l == "rollback" }

// caseSx of a run.  C09 scenarios are compared with the lock-protocol model (modelrun schedchain), whose steps are only the
// statements that touch the chain: the case carries, next to the full schedule (sch: what -replay follows), its projection on
// those statements (psch: one entry per slice whose statement was adv / log / commit / rollback).  Slices and events correspond
// one to one.  The head atom differs so that bin/check --replay picks the right tie.
func (r *SchedRun) caseSx() string {
	cs := r.Scn.caseSx(r.Sched)
	if r.Scn.Prop != "C09" {
		return cs
	}
	ps := []string{"psch"}
	for i, e := range r.Events {
		if i < len(r.Sched) && chainLabel(e.label) {
			ps = append(ps, strconv.Itoa(r.Sched[i]))
		}
	}
	return "(schedchain" + cs[len("(sched"):len(cs)-1] + " " + L(ps...) + ")"
}

// ---------------------------------------------------------------- the cooperative scheduler
const (
	wNew = iota
	wParked
	wBlocked
	wRunning
	wDone
)

type schedWorker struct {
	idx       int
	op        COp
	state     int
	label     string // statement the worker is parked on / executing
	blockedOn uint64
	txSess    *pgsem.Session // session of the open explicit SQL transaction
	resume    chan struct{}
	res       OpResult
	committed bool // a COMMIT happened during the last slice
	late      bool // not started before every non-late worker is done
	advSess   *pgsem.Session // blocked on an advisory key whose holder has no open transaction
	ctrl      ledgercontroller.Controller
	resSx     string // result of an import / bulk request
	bulkIDs   []int64
}

type schedEvent struct {
	w      int
	label  string
	status string // done | blocked | deadlock
}

type schedDecision struct {
	runnable []int
	chosen   int
	cur      int // worker that ran the previous slice (-1 at the start)
	def      int // what the default scheduler would have chosen
}

type coopSched struct {
	pg      *pgsem.DB
	workers []*schedWorker
	byGid   map[uint64]*schedWorker
	back    chan *schedWorker
	events  []schedEvent
	commits []int
	dec     []schedDecision
	unknown []string // statements outside the classification (still scheduled, label "other")
	stuck   bool
	cut     bool
	coarse  bool
}

var reGid = regexp.MustCompile(`^goroutine (\d+) `)

func goid() uint64 {
	var buf [64]byte
	n := runtime.Stack(buf[:], false)
	m := reGid.FindSubmatch(buf[:n])
	id, _ := strconv.ParseUint(string(m[1]), 10, 64)
	return id
}

// stmtLabel classifies a statement: "" = silent (private to the transaction: no scheduling point), otherwise the label of
// the shared-state event it performs.  Anything unknown is a scheduling point too (label "other").
func stmtLabel(sql string) string {
	q := strings.ToLower(strings.Join(strings.Fields(sql), " "))
	has := func(s string) bool { return strings.Contains(q, s) }
	switch {
	case q == "begin" || strings.HasPrefix(q, "begin ") || strings.HasPrefix(q, "start transaction") || strings.HasPrefix(q, "savepoint") || strings.HasPrefix(q, "release savepoint") || strings.HasPrefix(q, "rollback to"):
		return ""
	case q == "commit":
		return "commit"
	case q == "rollback":
		return "rollback"
	case strings.HasPrefix(q, "select") && has(".schemas"):
		return ""
	case strings.HasPrefix(q, "select") && has(".logs") && has("idempotency_key ="):
		return "ik"
	case strings.HasPrefix(q, `with "ins" as (insert into`) && has("accounts_volumes") && has("for update"):
		return "bal"
	case strings.HasPrefix(q, "select") && has("accounts_volumes") && has("for update"):
		return "bal2" // GetBalances, second statement: rows that did not exist when the first one started
	case strings.HasPrefix(q, "insert into") && has("accounts_volumes") && has("do update set input"):
		return "vol"
	case strings.HasPrefix(q, "insert into") && has(".transactions ("):
		return "tx"
	case strings.HasPrefix(q, "insert into") && has(".moves ("):
		return ""
	case strings.HasPrefix(q, "with data_batch") && has(".accounts"):
		return ""
	case strings.HasPrefix(q, "select pg_advisory_xact_lock(hashtext("):
		return "xlock" // ledger lock, transaction scoped: first write / atomic bulk on an initializing ledger (state tracker)
	case strings.HasPrefix(q, "select pg_advisory_lock(hashtext("):
		return "ilock" // ledger lock, session scoped: Import
	case strings.HasPrefix(q, "select pg_advisory_unlock(hashtext("):
		return "iunlock"
	case strings.HasPrefix(q, "select") && has(`"_system"."ledgers"`):
		return "irow" // Import re-reads the ledger row under the lock
	case strings.HasPrefix(q, "update") && has(`"_system"."ledgers"`) && has("set state ="):
		return "mark" // markInUse: UPDATE ... WHERE id = ? and state = 'initializing'
	case strings.HasPrefix(q, "select setval("):
		return "setval"
	case strings.HasPrefix(q, "with") && has(".logs") && has("limit 2") && !has("idempotency_key ="):
		return "ilast" // DefaultController.Import: the last stored log (page of size 1)
	case strings.HasPrefix(q, "select pg_advisory_xact_lock("):
		return "adv"
	case strings.HasPrefix(q, "insert into") && has(".logs ("):
		return "log"
	case strings.HasPrefix(q, `with "upd" as (update`) && has(".transactions set reverted_at"):
		return "rev"
	}
	return "other"
}

func (cs *coopSched) me() *schedWorker { return cs.byGid[goid()] }

func (cs *coopSched) Yield(sess *pgsem.Session, sql string) {
	w := cs.me()
	if w == nil {
		return
	}
	label := stmtLabel(sql)
	if cs.coarse { // protocol-level schedules (C12): the statements of a write / of one imported log run inside the ledger lock
		switch label {
		case "ik", "bal", "bal2", "vol", "tx", "adv", "log", "rev":
			label = ""
		}
	}
	if label == "" {
		w.label = "silent"
		return
	}
	if label == "other" {
		cs.unknown = append(cs.unknown, sql)
	}
	w.label = label
	w.state = wParked
	cs.back <- w
	<-w.resume
}

func (cs *coopSched) ownerOf(xid uint64) *schedWorker {
	for _, o := range cs.workers {
		if o.txSess != nil && o.txSess.Xid() == xid {
			return o
		}
	}
	return nil
}

func (cs *coopSched) Block(sess *pgsem.Session, on uint64) {
	w := cs.me()
	if w == nil {
		panic("sched: a session outside the schedule has to wait for a lock")
	}
	if adv, holder, sessionLevel := sess.AdvisoryWait(); adv && holder != nil && sessionLevel {
		// the ledger lock is held at session level (Import): the wait ends when the key is released, whatever transactions the
		// holder runs meanwhile; no cycle goes through it here (nobody holds anything else while waiting for the ledger lock)
		w.state, w.blockedOn, w.advSess = wBlocked, 0, sess
		cs.back <- w
		<-w.resume
		w.advSess = nil
		return
	}
	// does this wait close a cycle of the wait-for graph?
	cur := on
	for i := 0; i <= len(cs.workers); i++ {
		o := cs.ownerOf(cur)
		if o == nil {
			break
		}
		if o == w {
			sess.DeadlockVictim = true
			cs.events = append(cs.events, schedEvent{w.idx, w.label, "deadlock"})
			return
		}
		if o.state != wBlocked {
			break
		}
		cur = o.blockedOn
	}
	w.state, w.blockedOn = wBlocked, on
	cs.back <- w
	<-w.resume
}

func (cs *coopSched) txHook(sess *pgsem.Session, kind string) {
	w := cs.me()
	if w == nil {
		return
	}
	switch kind {
	case "begin":
		w.txSess = sess
	case "commit":
		w.txSess = nil
		w.committed = true
		cs.commits = append(cs.commits, w.idx)
	default:
		w.txSess = nil
	}
}

// runnable workers (index order) and, among them, the waiters whose lock holder has finished
func (cs *coopSched) runnable() (out, woken []int) {
	for _, w := range cs.workers {
		switch w.state {
		case wParked:
			out = append(out, w.idx)
		case wBlocked:
			if w.advSess != nil {
				if _, holder, _ := w.advSess.AdvisoryWait(); holder != nil {
					continue // the key is still held
				}
			}
			if w.blockedOn == 0 || cs.pg.TxDone(w.blockedOn) {
				out = append(out, w.idx)
				woken = append(woken, w.idx)
			}
		}
	}
	return out, woken
}

// defaultChoice: the default scheduler is non-preemptive and hands released locks to waiters first (lowest index): a woken
// waiter runs before anybody else, otherwise the current worker continues, otherwise the lowest runnable index.
func defaultChoice(runnable, woken []int, cur int) int {
	if len(woken) > 0 {
		return woken[0]
	}
	if intsContain(runnable, cur) {
		return cur
	}
	return runnable[0]
}

// slice resumes worker w and waits until it parks, blocks or finishes; records the event it performed
func (cs *coopSched) slice(w *schedWorker, afterCommit func(w *schedWorker)) {
	label := w.label
	nev := len(cs.events)
	w.state = wRunning
	w.committed = false
	w.resume <- struct{}{}
	<-cs.back
	if len(cs.events) == nev { // no deadlock event recorded during the slice
		st := "done"
		if w.state == wBlocked {
			st = "blocked"
		}
		cs.events = append(cs.events, schedEvent{w.idx, label, st})
	}
	if w.committed && afterCommit != nil {
		afterCommit(w)
	}
}

// ---------------------------------------------------------------- one run
type SchedRun struct {
	Scn      *Scenario
	Sched    []int // effective schedule (every entry was runnable when chosen)
	Res      []OpResult
	Commits  []int
	Events   []schedEvent
	Dec      []schedDecision
	Bal      [][3]string // account asset balance (accounts_volumes rows)
	Txs      [][3]string // id reverted(0/1) reference
	Logs     [][2]string // id idempotency_key
	Unknown  []string
	Stuck    bool
	Cut      bool
	ResSx    []string // results of import / bulk requests ("" for plain writes)
	BulkIDs  [][]int64   // log ids of the elements of a committed bulk
	Links    [][2]string // C09: (log id, id of the log its stored hash chains from: "0" = none, "?" = no stored log)
	State    string   // C12: state of the ledger row at the end
	Viol     []schedViolation
	Waits    int
	Deadlock int
}
type schedViolation struct{ prop, msg string }

func schedFeatures(hash bool) features.FeatureSet {
	f := allOn
	f.Hash = hash
	return f.set()
}

func rawRows(pg *pgsem.DB, q string) [][]string {
	sess := pg.NewSession()
	defer sess.Close()
	res, err := sess.Exec(q)
	must(err)
	out := make([][]string, len(res.Rows))
	for i, r := range res.Rows {
		out[i] = make([]string, len(r))
		for j, v := range r {
			if v != nil {
				out[i][j] = pgsemText(v)
			}
		}
	}
	return out
}

func readBalances(pg *pgsem.DB) [][3]string {
	var out [][3]string
	for _, r := range rawRows(pg, `select accounts_address, asset, input - output from accounts_volumes where ledger = 'l1' order by accounts_address, asset`) {
		out = append(out, [3]string{r[0], r[1], r[2]})
	}
	return out
}

// schedPolicy decides who runs at schedDecision point i given the runnable set (never empty) and the previous worker
type schedPolicy func(i int, runnable []int, cur int) int

func intsContain(xs []int, x int) bool {
	for _, y := range xs {
		if y == x {
			return true
		}
	}
	return false
}

// prefixPolicy follows an explicit schedule (an entry that is not runnable falls back to the default), then the default scheduler
func prefixPolicy(sch []int) schedPolicy {
	return func(i int, runnable []int, def int) int {
		if i < len(sch) && intsContain(runnable, sch[i]) {
			return sch[i]
		}
		return def
	}
}

func runSchedule(scn *Scenario, pol schedPolicy) *SchedRun {
	st := NewStack(StackOpts{})
	ctx := context.Background()
	if err := st.Sys.CreateLedger(ctx, "l1", ledger.Configuration{Bucket: "_default", Features: schedFeatures(scn.Hash)}); err != nil {
		panic(fmt.Errorf("create ledger: %w", err))
	}
	ctrl, err := st.Sys.GetLedgerController(ctx, "l1")
	must(err)
	now := int64(1700000000) * 1000000
	for _, o := range scn.Prefix {
		now += 1000000
		st.PG.Clock = pgsem.TS(now)
		if r := runSchedOp(ctx, ctrl, o); r.Class != "none" || r.Panic != "" {
			panic(fmt.Sprintf("scenario %s: prefix operation %s failed: %s %s", scn.Name, o.sx(), r.Class, r.Panic))
		}
	}
	now += 1000000
	st.PG.Clock = pgsem.TS(now) // every writer runs at the same logical instant
	run := &SchedRun{Scn: scn}
	cs := &coopSched{pg: st.PG, byGid: map[uint64]*schedWorker{}, back: make(chan *schedWorker), coarse: scn.Prop == "C12"}
	streams := map[int][]ledger.Log{}
	for i, o := range scn.Writers {
		w := &schedWorker{idx: i, op: o, resume: make(chan struct{}), late: i >= len(scn.Writers)-scn.Late, ctrl: ctrl}
		if scn.Prop == "C12" {
			w.ctrl, err = st.Sys.GetLedgerController(ctx, "l1") // own facade, resolved now
			must(err)
			if o.Kind == "import" {
				streams[i] = importStream(ctx, st, scn.Hash, int(o.Amt), o.Allow)
			}
		}
		cs.workers = append(cs.workers, w)
	}
	st.PG.Clock = pgsem.TS(now + 100*1000000)
	st.PG.Sched = cs
	st.PG.TxHook = cs.txHook
	reg := make(chan struct{})
	for _, w := range cs.workers {
		w := w
		go func() {
			cs.byGid[goid()] = w
			reg <- struct{}{}
			<-w.resume
			switch w.op.Kind {
			case "import":
				ierr := importDirect(ctx, w.ctrl, streams[w.idx])
				if os.Getenv("VH_DEBUG") != "" && ierr != nil {
					fmt.Fprintln(os.Stderr, "import error:", ierr)
				}
				w.resSx = L("imp", importClass(ierr))
			case "bulk":
				w.resSx, w.bulkIDs = runAtomicBulkIDs(ctx, w.ctrl, w.op)
			default:
				w.res = runSchedOp(ctx, w.ctrl, w.op)
			}
			w.state = wDone
			cs.back <- w
		}()
		<-reg // registration is sequential: byGid is only written here, before any worker runs
	}
	// C06 monitor: evaluated right after every COMMIT, on the committed balances
	afterCommit := func(w *schedWorker) {
		o := w.op
		allow, bounded := int64(0), false
		switch {
		case o.Kind == "create" && o.Mode == "plain":
			bounded = true
		case o.Kind == "create" && o.Mode == "od":
			allow, bounded = o.Allow, true
		case o.Kind == "revert" && o.Mode == "plain":
			bounded = true
		}
		if !bounded || o.Src == "world" || w.res.Hit {
			return
		}
		for _, b := range readBalances(st.PG) {
			if b[0] == o.Src && b[1] == o.Asset {
				bal, _ := new(big.Int).SetString(b[2], 10)
				if bal.Cmp(big.NewInt(-allow)) < 0 {
					tag := "[c06-overdrawn]"
					if scn.Fresh {
						tag = "[c06-overdrawn-fresh-pair]"
					}
					run.Viol = append(run.Viol, schedViolation{"C06", fmt.Sprintf("%s after the COMMIT of writer %d (%s %s, allowance %d) the balance of %s/%s is %s < -%d", tag, w.idx, o.Kind, o.Mode, allow, o.Src, o.Asset, bal, allow)})
				}
			}
		}
	}
	// pre-roll: every worker runs (silent statements only) up to its first scheduling point, in index order
	start := func(late bool) {
		for _, w := range cs.workers {
			if w.late == late && w.state == wNew {
				w.state = wRunning
				w.resume <- struct{}{}
				<-cs.back
			}
		}
	}
	start(false)
	cur := -1
	for i := 0; ; i++ {
		rn, woken := cs.runnable()
		if len(rn) == 0 { // everybody who has started is done: the late requests are issued now (same pre-roll)
			start(true)
			rn, woken = cs.runnable()
		}
		if len(rn) == 0 {
			for _, w := range cs.workers {
				if w.state != wDone {
					cs.stuck = true
				}
			}
			break
		}
		def := defaultChoice(rn, woken, cur)
		c := pol(i, rn, def)
		cs.dec = append(cs.dec, schedDecision{rn, c, cur, def})
		run.Sched = append(run.Sched, c)
		cs.slice(cs.workers[c], afterCommit)
		cur = c
		if i > 150 { // an unfair schedule can make deadlock victims retry forever (livelock): cut, reported as such
			cs.cut = true
			break
		}
	}
	st.PG.Sched = nil
	st.PG.TxHook = nil
	run.Commits, run.Events, run.Dec, run.Unknown, run.Stuck, run.Cut = cs.commits, cs.events, cs.dec, cs.unknown, cs.stuck, cs.cut
	for _, e := range cs.events {
		if e.status == "blocked" {
			run.Waits++
		}
		if e.status == "deadlock" {
			run.Deadlock++
		}
	}
	for _, w := range cs.workers {
		run.Res = append(run.Res, w.res)
		run.ResSx = append(run.ResSx, w.resSx)
		run.BulkIDs = append(run.BulkIDs, w.bulkIDs)
	}
	if !cs.stuck && !cs.cut && scn.Prop == "C12" {
		for _, r := range rawRows(st.PG, `select state from "_system".ledgers where name = 'l1'`) {
			run.State = r[0]
		}
	}
	if !cs.stuck && !cs.cut {
		run.Bal = readBalances(st.PG)
		for _, r := range rawRows(st.PG, `select id, reverted_at is not null, coalesce(reference, '') from transactions where ledger = 'l1' order by id`) {
			rv := "0"
			if r[1] == "true" {
				rv = "1"
			}
			run.Txs = append(run.Txs, [3]string{r[0], rv, r[2]})
		}
		for _, r := range rawRows(st.PG, `select id, coalesce(idempotency_key, '') from logs where ledger = 'l1' order by id`) {
			run.Logs = append(run.Logs, [2]string{r[0], r[1]})
		}
	}
	if !cs.stuck && !cs.cut && scn.Hash {
		// C09: under any schedule the stored chain is linear in id order (every log chains from the log with the next smaller id)
		sess := st.PG.NewSession()
		if rows, err := readHashRows(sess); err == nil {
			for _, m := range monC09Rows(rows) {
				run.Viol = append(run.Viol, schedViolation{"C09", m + " [sched]"})
			}
			var msgs []string
			run.Links, msgs = chainLinks(rows)
			for _, m := range msgs {
				run.Viol = append(run.Viol, schedViolation{"C09", m + " [sched]"})
			}
		}
		sess.Close()
	}
	if !cs.stuck && !cs.cut {
		st.SQL.Close()
	}
	return run
}

// chainLinks recomputes, from the raw rows alone, which stored log every stored hash chains from (the trigger's rule applied to
// every candidate predecessor, and to "no predecessor").  Monitor, independent of any model: no two logs share a predecessor.
func chainLinks(rows []hRow) (links [][2]string, msgs []string) {
	succ := map[string][]int64{}
	for _, row := range rows {
		from := "?"
		if ref, ok := refTriggerHash(nil, false, row); ok && bytes.Equal(ref, row.Hash) {
			from = "0"
		}
		for _, other := range rows {
			if other.ID == row.ID || len(other.Hash) == 0 {
				continue
			}
			if ref, ok := refTriggerHash(other.Hash, true, row); ok && bytes.Equal(ref, row.Hash) {
				from = fmt.Sprint(other.ID)
			}
		}
		links = append(links, [2]string{fmt.Sprint(row.ID), from})
		if from != "?" {
			succ[from] = append(succ[from], row.ID)
		}
	}
	var keys []string
	for k := range succ {
		keys = append(keys, k)
	}
	sort.Strings(keys)
	for _, k := range keys {
		if len(succ[k]) > 1 {
			what := "log " + k
			if k == "0" {
				what = "no predecessor (as first logs)"
			}
			msgs = append(msgs, fmt.Sprintf("[c09-shared-predecessor] logs %v all chain from %s: the chain forks", succ[k], what))
		}
	}
	return links, msgs
}

// chainOutcomeSx: what modelrun schedchain prints for a C09 scenario
func (r *SchedRun) chainOutcomeSx() string {
	var res, com, logs, evs []string
	for i, x := range r.Res {
		switch {
		case r.Scn.Writers[i].Kind == "bulk" && strings.HasPrefix(r.ResSx[i], "(bulk_rolled_back"):
			res = append(res, L("rolled_back"))
		case r.Scn.Writers[i].Kind == "bulk" && strings.HasPrefix(r.ResSx[i], "(bulk "):
			ids := []string{"ok"}
			for _, id := range r.BulkIDs[i] {
				ids = append(ids, fmt.Sprint(id))
			}
			res = append(res, L(ids...))
		case r.Scn.Writers[i].Kind == "bulk":
			res = append(res, r.ResSx[i])
		case x.Class == "none" && x.Panic == "" && !x.Hit:
			res = append(res, L("ok", fmt.Sprint(x.LogID)))
		case x.Class == "insufficient_funds":
			res = append(res, L("rolled_back"))
		default:
			res = append(res, x.sx())
		}
	}
	for _, c := range r.Commits {
		com = append(com, strconv.Itoa(c))
	}
	for _, l := range r.Links {
		logs = append(logs, L(l[0], l[1]))
	}
	for _, e := range r.Events {
		if chainLabel(e.label) {
			evs = append(evs, L(strconv.Itoa(e.w), e.label, e.status))
		}
	}
	h := func(head string, xs []string) string { return L(append([]string{head}, xs...)...) }
	return L("chain", h("res", res), h("commits", com), h("logs", logs), h("ev", evs))
}

func (r *SchedRun) outcomeSx() string {
	if r.Stuck {
		return L("outcome", "stuck")
	}
	if r.Cut {
		return L("outcome", "cut")
	}
	var res, com, bal, txs, logs, evs []string
	for _, x := range r.Res {
		res = append(res, x.sx())
	}
	for _, c := range r.Commits {
		com = append(com, strconv.Itoa(c))
	}
	for _, b := range r.Bal {
		bal = append(bal, L(Q(b[0]), Q(b[1]), b[2]))
	}
	for _, t := range r.Txs {
		txs = append(txs, L(t[0], t[1], Q(t[2])))
	}
	for _, l := range r.Logs {
		logs = append(logs, L(l[0], Q(l[1])))
	}
	for _, e := range r.Events {
		evs = append(evs, L(strconv.Itoa(e.w), e.label, e.status))
	}
	h := func(head string, xs []string) string { return L(append([]string{head}, xs...)...) }
	if r.Scn.Prop == "C09" {
		return r.chainOutcomeSx()
	}
	if r.Scn.Prop == "C12" {
		for i, x := range r.ResSx {
			if x != "" {
				res[i] = x
			}
		}
		return L("c12", h("res", res), h("commits", com), h("logs", logs), L("state", r.State), h("ev", evs))
	}
	return L("outcome", h("res", res), h("commits", com), h("bal", bal), h("txs", txs), h("logs", logs), h("ev", evs))
}

// ---------------------------------------------------------------- monitors on the implementation's outcome (independent of any model)
func (r *SchedRun) monitors() {
	scn := r.Scn
	add := func(p, m string) { r.Viol = append(r.Viol, schedViolation{p, m}) }
	if r.Stuck {
		add(scn.Prop, "[sched-stuck] the run did not terminate: workers blocked without a detectable cycle")
		return
	}
	if r.Cut { // livelock of retrying deadlock victims under an unfair schedule: not an outcome, nothing to check
		return
	}
	for i, x := range r.Res {
		if x.Panic != "" {
			add(scn.Prop, fmt.Sprintf("[sched-panic] writer %d panicked: %s", i, x.Panic))
		}
	}
	hashed := "nolock"
	if scn.Hash {
		hashed = "sync"
	}
	// ---- C16: ids unique; a later COMMIT never receives a smaller id
	{
		seenT, seenL := map[string]bool{}, map[string]bool{}
		for _, t := range r.Txs {
			if seenT[t[0]] {
				add("C16", "[c16-dup-id] transaction id "+t[0]+" stored twice")
			}
			seenT[t[0]] = true
		}
		for _, l := range r.Logs {
			if seenL[l[0]] {
				add("C16", "[c16-dup-id] log id "+l[0]+" stored twice")
			}
			seenL[l[0]] = true
		}
		lastT, lastL := int64(0), int64(0)
		for _, c := range r.Commits {
			x := r.Res[c]
			if x.Class != "none" || x.Hit {
				continue
			}
			if x.TxID != nil {
				if *x.TxID < lastT {
					add("C16", fmt.Sprintf("[c16-txid-commit-order] writer %d committed after transaction id %d was committed but received the smaller id %d (ids are drawn before the commit order is decided)", c, lastT, *x.TxID))
				}
				lastT = *x.TxID
			}
			if x.LogID < lastL {
				add("C16", fmt.Sprintf("[c16-logid-commit-order-%s] writer %d committed after log id %d was committed but received the smaller id %d", hashed, c, lastL, x.LogID))
			}
			lastL = x.LogID
		}
	}
	// ---- C16, requests that do not overlap: if no statement of request j (other than BEGIN, which reads nothing under READ
	// COMMITTED) ran before the COMMIT of request i, then j drew its transaction id after i's commit and must have the larger one
	// (nextval hands out increasing values in call order).  Holds whatever the schedule; S-16 is about OVERLAPPING requests only.
	{
		first, commitAt := map[int]int{}, map[int]int{}
		for k, e := range r.Events {
			if _, ok := first[e.w]; !ok {
				first[e.w] = k
			}
			if e.label == "commit" && e.status == "done" {
				commitAt[e.w] = k
			}
		}
		for i, xi := range r.Res {
			ci, ok := commitAt[i]
			if !ok || xi.Class != "none" || xi.Hit || xi.TxID == nil {
				continue
			}
			for j, xj := range r.Res {
				fj, started := first[j]
				if j == i || !started || fj < ci || xj.Class != "none" || xj.Hit || xj.TxID == nil {
					continue
				}
				if *xj.TxID < *xi.TxID {
					add("C16", fmt.Sprintf("[c16-nonoverlapping-order] writer %d ran entirely after the COMMIT of writer %d (transaction id %d) and received the smaller transaction id %d", j, i, *xi.TxID, *xj.TxID))
				}
				if xj.LogID < xi.LogID {
					add("C16", fmt.Sprintf("[c16-nonoverlapping-order] writer %d ran entirely after the COMMIT of writer %d (log id %d) and received the smaller log id %d", j, i, xi.LogID, xj.LogID))
				}
			}
		}
	}
	// ---- C12: an import racing first writes on an initializing ledger
	if scn.Prop == "C12" {
		imp := -1
		for i, o := range scn.Writers {
			if o.Kind == "import" {
				imp = i
			}
		}
		accepted := imp >= 0 && r.ResSx[imp] == L("imp", "ok")
		nImported, maxImported := 0, int64(0)
		for _, l := range r.Logs {
			if strings.HasPrefix(l[1], "i") {
				nImported++
				if id := atoi(l[0]); id > maxImported {
					maxImported = id
				}
			}
		}
		writerCommitted := false
		for _, c := range r.Commits {
			if c != imp {
				writerCommitted = true
			}
		}
		if accepted {
			if nImported != int(scn.Writers[imp].Amt) {
				add("C12", fmt.Sprintf("[c12-conc-accepted-incomplete] the import answered ok but %d of its %d logs are stored", nImported, scn.Writers[imp].Amt))
			}
			seenImp, lastImp := false, -1
			for k, c := range r.Commits {
				if c == imp {
					seenImp, lastImp = true, k
				}
			}
			for k, c := range r.Commits {
				if c != imp && seenImp && k < lastImp {
					add("C12", fmt.Sprintf("[c12-conc-write-inside-import] the write of request %d committed before the accepted import had finished (commit order %v): the import was accepted on a ledger that is not pristine, or was not exclusive", c, r.Commits))
					break
				}
			}
			for _, l := range r.Logs {
				if !strings.HasPrefix(l[1], "i") && atoi(l[0]) < maxImported {
					add("C12", fmt.Sprintf("[c12-conc-id-order] log %s of a write lies below imported log %d", l[0], maxImported))
				}
			}
		} else if nImported > 0 {
			add("C12", fmt.Sprintf("[c12-conc-rejected-effect] the import was answered %s but %d imported logs are stored", r.ResSx[imp], nImported))
		}
		if want := map[bool]string{true: "in-use", false: "initializing"}[writerCommitted]; r.State != want {
			add("C12", fmt.Sprintf("[c12-conc-state] the ledger row says %s, expected %s (a write committed: %v)", r.State, want, writerCommitted))
		}
		for _, e := range r.Events {
			if e.label == "silent" || e.label == "other" {
				add("C12", fmt.Sprintf("[c12-conc-wait-inside-critical-section] request %d met a %s statement that %s: statements of a write / of an imported log are supposed to run under the ledger lock without ever waiting", e.w, e.label, e.status))
				break
			}
		}
		if len(r.Unknown) > 0 {
			add("C12", "[c12-conc-unclassified-statement] "+r.Unknown[0])
		}
	}
	// ---- C13: requests sharing an idempotency key
	if scn.Prop == "C13" {
		ik := scn.Writers[0].IK
		var keyLogs []string
		for _, l := range r.Logs {
			if l[1] == ik {
				keyLogs = append(keyLogs, l[0])
			}
		}
		if len(keyLogs) > 1 {
			add("C13", fmt.Sprintf("[c13-two-logs] %d logs carry idempotency key %q", len(keyLogs), ik))
		}
		winner := -1
		for i, x := range r.Res {
			if x.Class == "none" && !x.Hit {
				if winner >= 0 {
					add("C13", fmt.Sprintf("[c13-two-winners] writers %d and %d both applied the request", winner, i))
				}
				winner = i
			}
		}
		for i, x := range r.Res {
			switch {
			case x.Class == "none":
				if len(keyLogs) == 1 && fmt.Sprint(x.LogID) != keyLogs[0] {
					add("C13", fmt.Sprintf("[c13-wrong-log] writer %d was answered with log %d, the key's log is %s", i, x.LogID, keyLogs[0]))
				}
				if x.Hit && winner >= 0 && scn.Writers[i].Inh != scn.Writers[winner].Inh {
					add("C13", fmt.Sprintf("[c13-hit-different-input] writer %d sent a different input and was answered with an idempotency hit", i))
				}
			case x.Class == "idempotency_conflict":
			case x.Class == "idempotency_input":
				if winner >= 0 && scn.Writers[i].Inh == scn.Writers[winner].Inh {
					add("C13", fmt.Sprintf("[c13-same-input-rejected] writer %d sent the winner's input and got a validation error", i))
				}
			default:
				if len(keyLogs) > 0 {
					add("C13", fmt.Sprintf("[c13-business-error] writer %d (%s) was answered %s although log %s was committed under its idempotency key by a concurrent request with the same input", i, scn.Writers[i].Kind, x.Class, keyLogs[0]))
				}
			}
		}
	}
	// ---- C14: racing creates sharing a reference
	if scn.Prop == "C14" {
		n := 0
		for _, t := range r.Txs {
			if t[2] == "r" {
				n++
			}
		}
		if n > 1 {
			add("C14", fmt.Sprintf("[c14-dup-reference] %d stored transactions carry reference \"r\"", n))
		}
		wins := 0
		for i, x := range r.Res {
			switch x.Class {
			case "none":
				wins++
			case "reference_conflict":
			default:
				add("C14", fmt.Sprintf("[c14-loser-outcome] writer %d was answered %s instead of a reference conflict", i, x.Class))
			}
		}
		if wins != 1 {
			add("C14", fmt.Sprintf("[c14-winners] %d racing creates succeeded (exactly one expected)", wins))
		}
	}
	// ---- C15: racing reverts of one transaction
	if scn.Prop == "C15" {
		wins := 0
		for i, x := range r.Res {
			switch x.Class {
			case "none":
				wins++
			case "already_reverted":
			default:
				add("C15", fmt.Sprintf("[c15-loser-outcome] writer %d was answered %s instead of already-reverted", i, x.Class))
			}
		}
		if wins > 1 {
			add("C15", fmt.Sprintf("[c15-double-revert] %d concurrent reverts of transaction %d succeeded", wins, scn.Target))
		}
		if wins == 0 {
			add("C15", "[c15-no-winner] no revert succeeded")
		}
		for _, b := range r.Bal { // T plus its single revert leave alice 100, bob 100
			if (b[0] == "alice" || b[0] == "bob") && b[1] == "USD" && b[2] != "100" {
				add("C15", fmt.Sprintf("[c15-not-neutral] balance of %s/USD is %s after T and its revert (100 before T)", b[0], b[2]))
			}
		}
		if int64(len(r.Txs)) != scn.Target+1 {
			add("C15", fmt.Sprintf("[c15-revert-count] %d transactions stored, expected %d (T's single revert)", len(r.Txs), scn.Target+1))
		}
	}
}

// ---------------------------------------------------------------- exploration
// preemptions = decisions that deviate from the default scheduler
func preemptions(dec []schedDecision, upto int) int {
	n := 0
	for i := 0; i < upto && i < len(dec); i++ {
		if dec[i].chosen != dec[i].def {
			n++
		}
	}
	return n
}

func schedKey(s []int) string {
	b := make([]byte, len(s))
	for i, x := range s {
		b[i] = byte('0' + x)
	}
	return string(b)
}

// explore: breadth-first over schedule prefixes ordered by number of preemptions; each run follows its prefix and then
// continues non-preemptively; every alternative choice at every later schedDecision point spawns a new prefix.
func explore(scn *Scenario, maxPre, budget int, each func(*SchedRun)) (runs int, complete bool) {
	type item struct {
		prefix []int
		pre    int
	}
	queue := []item{{nil, 0}}
	seenPrefix := map[string]bool{"": true}
	seenSched := map[string]bool{}
	for len(queue) > 0 {
		// lowest preemption count first
		bi := 0
		for i, it := range queue {
			if it.pre < queue[bi].pre {
				bi = i
			}
		}
		it := queue[bi]
		queue = append(queue[:bi], queue[bi+1:]...)
		if runs >= budget {
			return runs, false
		}
		r := runSchedule(scn, prefixPolicy(it.prefix))
		runs++
		if k := schedKey(r.Sched); !seenSched[k] {
			seenSched[k] = true
			each(r)
		}
		for i := len(it.prefix); i < len(r.Dec); i++ {
			d := r.Dec[i]
			for _, alt := range d.runnable {
				if alt == d.chosen {
					continue
				}
				np := append(append([]int{}, r.Sched[:i]...), alt)
				pre := preemptions(r.Dec, i)
				if alt != d.def {
					pre++
				}
				if pre > maxPre {
					continue
				}
				if k := schedKey(np); !seenPrefix[k] {
					seenPrefix[k] = true
					queue = append(queue, item{np, pre})
				}
			}
		}
	}
	return runs, true
}

func randomPolicy(r *Rng) schedPolicy {
	return func(i int, runnable []int, def int) int { return runnable[r.Intn(len(runnable))] }
}

func parseSchedCase(line string) (*Scenario, []int) {
	sx, err := ParseSx(line)
	must(err)
	h := sx.List[1].List
	scn := buildScenario(h[1].Atom, h[2].Atom == "1", h[3].Atom == "1")
	if scn == nil {
		panic("unknown scenario " + h[1].Atom)
	}
	var sch []int
	for _, e := range sx.List[4].List[1:] {
		sch = append(sch, int(atoi(e.Atom)))
	}
	return scn, sch
}

func cmdSched(args []string) int {
	f := ParseFlags(args)
	out := NewOut(f.Out)
	defer out.Close()
	maxPre, nrand := 2, 10
	if v, ok := f.Extra["pre"]; ok {
		fmt.Sscan(v, &maxPre)
	}
	if v, ok := f.Extra["rand"]; ok {
		fmt.Sscan(v, &nrand)
	}
	outcomes := map[string]map[string]bool{}
	finish := func(r *SchedRun) {
		r.monitors()
		cs := r.caseSx()
		out.Case(cs, r.outcomeSx())
		out.Stats["cases"]++
		out.Stats["schedules_"+r.Scn.Name]++
		out.Stats["lock_waits"] += r.Waits
		out.Stats["deadlocks_resolved"] += r.Deadlock
		if r.Cut {
			out.Stats["unfair_livelock_cut"]++
		}
		if r.Waits+r.Deadlock > 0 || preemptions(r.Dec, len(r.Dec)) > 0 {
			out.Stats["distinct_nontrivial"]++
		}
		if len(r.Unknown) > 0 {
			out.Stats["unclassified_statements"] += len(r.Unknown)
		}
		for _, x := range r.Res {
			c := x.Class
			if strings.HasPrefix(c, "other:") {
				c = "other"
			}
			if x.Class == "none" && x.Hit {
				c = "hit"
			}
			out.Stats["res_"+c]++
		}
		key := r.Scn.Name + "/" + b01(r.Scn.Fresh) + b01(r.Scn.Hash)
		if outcomes[key] == nil {
			outcomes[key] = map[string]bool{}
		}
		o := r.outcomeSx()
		if i := strings.Index(o, " (ev "); i > 0 {
			o = o[:i]
		}
		if !outcomes[key][o] {
			outcomes[key][o] = true
			out.Stats["distinct_outcomes"]++
		}
		seen := map[string]bool{}
		for _, v := range r.Viol {
			if !seen[v.prop+v.msg] {
				seen[v.prop+v.msg] = true
				out.Violation(v.prop, cs, v.msg)
			}
		}
	}
	if f.Replay != "" {
		for _, line := range ReadLines(f.Replay) {
			scn, sch := parseSchedCase(line)
			finish(runSchedule(scn, prefixPolicy(sch)))
		}
		return 0
	}
	var names []string
	for _, want := range strings.Split(f.Extra["scenario"], ",") {
		for _, n := range scenarioNames {
			if want == "" || want == "all" || strings.HasPrefix(n, want) {
				names = append(names, n)
			}
		}
	}
	sort.Strings(names)
	rng := NewRng(f.Seed)
	for _, n := range names {
		for _, fresh := range []bool{false, true} {
			if fresh && !strings.HasPrefix(n, "c06-") || fresh && (n == "c06-revert" || n == "c06-cross") {
				continue // the never-used pair only matters where a bounded source is contended
			}
			for _, hash := range []bool{true, false} {
				if !hash && strings.HasPrefix(n, "c09-") {
					continue // no chain without HASH_LOGS = SYNC
				}
				if h := f.Extra["hash"]; h == "sync" && !hash || h == "off" && hash {
					continue // -hash sync|off: one HASH_LOGS configuration only (C09 has nothing to check without the chain)
				}
				scn := buildScenario(n, fresh, hash)
				runs, complete := explore(scn, maxPre, f.N, finish)
				out.Stats["runs"] += runs
				if complete {
					out.Stats["exhaustive_complete"]++
				} else {
					out.Stats["exhaustive_truncated"]++
				}
				seen := map[string]bool{}
				for i := 0; i < nrand; i++ {
					r := runSchedule(scn, randomPolicy(rng.Fork()))
					out.Stats["runs"]++
					out.Stats["random_runs"]++
					if k := schedKey(r.Sched); !seen[k] {
						seen[k] = true
						finish(r)
					}
				}
			}
		}
	}
	return 0
}
