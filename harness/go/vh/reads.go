//go:build verif

package main

import (
	"errors"
	"fmt"
	"math/big"
	"sort"
	"strings"
	"time"

	"github.com/formancehq/go-libs/v5/pkg/query"
	"github.com/formancehq/go-libs/v5/pkg/storage/bun/paginate"
	"github.com/formancehq/go-libs/v5/pkg/types/pointer"
	libtime "github.com/formancehq/go-libs/v5/pkg/types/time"
	ledger "github.com/formancehq/ledger/internal"
	"github.com/formancehq/ledger/internal/storage/common"
	ledgerstore "github.com/formancehq/ledger/internal/storage/ledger"
)

// C05 / C17(history): point-in-time and window reads on the real stack vs the read-side model (Ledger/Reads.v),
// plus monitors that fold the postings / metadata writes the implementation itself returned.
func init() { commands["reads"] = cmdReads }

type Probe struct {
	Kind     string // vol agg accs accvol txs
	PIT, OOT *int64
	Ins      bool
	Acc      string
	Eff      bool
	G        int   // volq: GroupLvl
	Q        *mflt // volq / aggq / accsq: metadata filter (nil = none)
}

func optI(p *int64) string {
	if p == nil {
		return "nil"
	}
	return fmt.Sprint(*p)
}
func (p Probe) sx() string {
	switch p.Kind {
	case "vol":
		return L("vol", optI(p.PIT), optI(p.OOT), b01(p.Ins))
	case "agg":
		return L("agg", optI(p.PIT), b01(p.Ins), Q(p.Acc))
	case "accs":
		return L("accs", optI(p.PIT))
	case "accvol":
		return L("accvol", optI(p.PIT), b01(p.Eff))
	case "volq":
		return L("volq", optI(p.PIT), optI(p.OOT), b01(p.Ins), fmt.Sprint(p.G), p.Q.sx())
	case "aggq":
		return L("aggq", optI(p.PIT), b01(p.Ins), p.Q.sx())
	case "accsq":
		return L("accsq", optI(p.PIT), p.Q.sx())
	default:
		return L("txs", optI(p.PIT))
	}
}
func ltime(p *int64) *libtime.Time {
	if p == nil {
		return nil
	}
	t := libtime.Time{Time: time.UnixMicro(*p).UTC()}
	return &t
}

func rejectedOr(err error) string {
	if errors.Is(err, ledgerstore.ErrMissingFeature{}) || errors.Is(err, common.ErrInvalidQuery{}) {
		return L("rejected")
	}
	return L("error", Q(err.Error()))
}

type ProbeAns struct {
	Sx       string
	Rejected bool
	Vols     map[pair][2]*big.Int       // vol
	Agg      map[string]*big.Int        // agg
	Accs     []SnapAcc                  // accs
	AccVol   map[string]map[string][2]string // accvol
	Txs      []SnapTx                   // txs
}

func (hr *HistRun) runProbe(p Probe) (a ProbeAns) {
	defer func() {
		if r := recover(); r != nil {
			a = ProbeAns{Sx: L("error", Q(fmt.Sprint("panic: ", r)))}
		}
	}()
	v4 := func(rows [][4]string) string {
		sort.Slice(rows, func(i, j int) bool { return rows[i][0]+"\x00"+rows[i][1] < rows[j][0]+"\x00"+rows[j][1] })
		out := make([]string, len(rows))
		for i, x := range rows {
			out[i] = L(Q(x[0]), Q(x[1]), x[2], x[3])
		}
		return L(out...)
	}
	switch p.Kind {
	case "volq", "aggq", "accsq":
		return hr.runProbeQ(p)
	case "vol":
		vs, err := listAll(hr.ctx, hr.ctrl.GetVolumesWithBalances, common.InitialPaginatedQuery[ledger.GetVolumesOptions]{PageSize: 9,
			Options: common.ResourceQuery[ledger.GetVolumesOptions]{PIT: ltime(p.PIT), OOT: ltime(p.OOT), Opts: ledger.GetVolumesOptions{UseInsertionDate: p.Ins}}})
		if err != nil {
			return ProbeAns{Sx: rejectedOr(err), Rejected: true}
		}
		a.Vols = map[pair][2]*big.Int{}
		var rows [][4]string
		for _, v := range vs {
			rows = append(rows, [4]string{v.Account, v.Asset, v.Input.String(), v.Output.String()})
			a.Vols[pair{v.Account, v.Asset}] = [2]*big.Int{v.Input, v.Output}
		}
		a.Sx = L("rows", v4(rows))
	case "agg":
		q := common.ResourceQuery[ledger.GetAggregatedVolumesOptions]{PIT: ltime(p.PIT), Opts: ledger.GetAggregatedVolumesOptions{UseInsertionDate: p.Ins}}
		if p.Acc != "" {
			q.Builder = query.Match("address", p.Acc)
		}
		r, err := hr.ctrl.GetAggregatedBalances(hr.ctx, q)
		if err != nil {
			return ProbeAns{Sx: rejectedOr(err), Rejected: true}
		}
		a.Agg = map[string]*big.Int{}
		var xs []string
		var cs []string
		for c := range r {
			cs = append(cs, c)
		}
		sort.Strings(cs)
		for _, c := range cs {
			a.Agg[c] = r[c]
			xs = append(xs, L(Q(c), r[c].String()))
		}
		a.Sx = L("agg", L(xs...))
	case "accs":
		as, err := listAll(hr.ctx, hr.ctrl.ListAccounts, common.InitialPaginatedQuery[any]{PageSize: 4, Options: common.ResourceQuery[any]{PIT: ltime(p.PIT)}})
		if err != nil {
			return ProbeAns{Sx: rejectedOr(err), Rejected: true}
		}
		var xs []string
		for _, x := range as {
			sa := SnapAcc{Addr: x.Address, Meta: sortKV(x.Metadata), First: us(x.FirstUsage.Time), Ins: us(x.InsertionDate.Time), Upd: us(x.UpdatedAt.Time)}
			a.Accs = append(a.Accs, sa)
			xs = append(xs, L(Q(sa.Addr), kvsx(sa.Meta), fmt.Sprint(sa.First), fmt.Sprint(sa.Ins), fmt.Sprint(sa.Upd)))
		}
		sort.Strings(xs) // addresses are quoted first: sorted by address
		a.Sx = L("accs", L(xs...))
	case "accvol":
		ex := "volumes"
		if p.Eff {
			ex = "effectiveVolumes"
		}
		as, err := listAll(hr.ctx, hr.ctrl.ListAccounts, common.InitialPaginatedQuery[any]{PageSize: 5, Options: common.ResourceQuery[any]{PIT: ltime(p.PIT), Expand: []string{ex}}})
		if err != nil {
			return ProbeAns{Sx: rejectedOr(err), Rejected: true}
		}
		a.AccVol = map[string]map[string][2]string{}
		sort.Slice(as, func(i, j int) bool { return as[i].Address < as[j].Address })
		var xs []string
		for _, x := range as {
			vm := x.Volumes
			if p.Eff {
				vm = x.EffectiveVolumes
			}
			a.AccVol[x.Address] = map[string][2]string{}
			var rows [][4]string
			for c, v := range vm {
				rows = append(rows, [4]string{x.Address, c, v.Input.String(), v.Output.String()})
				a.AccVol[x.Address][c] = [2]string{v.Input.String(), v.Output.String()}
			}
			xs = append(xs, L(Q(x.Address), v4(rows)))
		}
		a.Sx = L("accvol", L(xs...))
	case "txs":
		ts, err := listAll(hr.ctx, hr.ctrl.ListTransactions, common.InitialPaginatedQuery[any]{PageSize: 4, Order: pointer.For(paginate.Order(paginate.OrderAsc)), Options: common.ResourceQuery[any]{PIT: ltime(p.PIT)}})
		if err != nil {
			return ProbeAns{Sx: rejectedOr(err), Rejected: true}
		}
		var xs []string
		for _, t := range ts {
			st := SnapTx{ID: int64(*t.ID), Meta: sortKV(t.Metadata), TS: us(t.Timestamp.Time)}
			rev := "nil"
			if t.RevertedAt != nil {
				v := us(t.RevertedAt.Time)
				st.Rev = &v
				rev = fmt.Sprint(v)
			}
			a.Txs = append(a.Txs, st)
			xs = append(xs, L(fmt.Sprint(st.ID), kvsx(st.Meta), fmt.Sprint(st.TS), rev))
		}
		a.Sx = L("txs", L(xs...))
	}
	return a
}

// the account alphabet of the reads tie (C05 / C20 runs): genAccounts plus addresses sharing a 1-, 2- and 3-segment prefix
var readsAccounts = []string{"world", "alice", "bob", "users:1", "users:2:main", "bank", "users:2:sav", "bank:eu", "users:2:main:sub"}

func genProbes(r *Rng, ops []Op, n int) []Probe {
	set := map[int64]bool{}
	var lo, hi int64
	for i, o := range ops {
		for _, t := range []int64{o.Now} {
			set[t], set[t-1], set[t+1] = true, true, true
		}
		if o.TS != nil {
			set[*o.TS], set[*o.TS-1], set[*o.TS+1] = true, true, true
		}
		if i == 0 || o.Now < lo {
			lo = o.Now
		}
		if o.Now > hi {
			hi = o.Now
		}
	}
	set[lo-7200*1000000], set[hi+7200*1000000] = true, true
	// directed: listings at and after the timestamp of every future-dated transaction (its first history revision is dated
	// there, after the revisions of the metadata writes that followed it)
	var directed []Probe
	for _, o := range ops {
		if o.Kind == "create" && o.TS != nil && *o.TS > o.Now {
			for _, d := range []int64{0, 1, 7200 * 1000000} {
				t := *o.TS + d
				directed = append(directed, Probe{Kind: "txs", PIT: &t})
			}
		}
	}
	var inst []int64
	for t := range set {
		inst = append(inst, t)
	}
	sort.Slice(inst, func(i, j int) bool { return inst[i] < inst[j] })
	pick := func() *int64 { v := inst[r.Intn(len(inst))]; return &v }
	var out []Probe
	for i := 0; i < n; i++ {
		pit := pick()
		switch r.Intn(10) {
		case 0, 1, 2:
			p := Probe{Kind: "vol", PIT: pit, Ins: r.Chance(40)}
			if r.Chance(45) {
				p.OOT = pick()
				if *p.OOT > *p.PIT && r.Chance(80) {
					p.PIT, p.OOT = p.OOT, p.PIT
				}
			}
			if r.Chance(10) {
				p.PIT = nil
				if p.OOT == nil {
					p.OOT = pick()
				}
			}
			out = append(out, p)
		case 3, 4:
			p := Probe{Kind: "agg", PIT: pit, Ins: r.Chance(40)}
			if r.Chance(70) {
				p.Acc = Pick(r, genAccounts)
			}
			if r.Chance(10) {
				p.PIT = nil
			}
			out = append(out, p)
		case 5, 6:
			out = append(out, Probe{Kind: "accs", PIT: pit})
		case 7, 8:
			out = append(out, Probe{Kind: "accvol", PIT: pit, Eff: r.Chance(50)})
		default:
			out = append(out, Probe{Kind: "txs", PIT: pit})
		}
	}
	if len(directed) > 6 {
		directed = directed[:6]
	}
	return append(out, directed...)
}

func readsCaseSx(f Feat, ops []Op, probes []Probe) string {
	s := make([]string, len(ops))
	for i, o := range ops {
		s[i] = o.sx()
	}
	ps := make([]string, len(probes))
	for i, p := range probes {
		ps[i] = p.sx()
	}
	return L("reads", f.sx(), L(s...), L(ps...))
}

func parseReadsCase(line string) (Feat, []Op, []Probe) {
	sx, err := ParseSx(line)
	must(err)
	f, ops := parseHistCase(L("hist", sxString(sx.List[1]), sxString(sx.List[2])))
	oi := func(x *Sx) *int64 {
		if x.Atom == "nil" {
			return nil
		}
		v := atoi(x.Atom)
		return &v
	}
	var probes []Probe
	for _, p := range sx.List[3].List {
		switch p.List[0].Atom {
		case "vol":
			probes = append(probes, Probe{Kind: "vol", PIT: oi(p.List[1]), OOT: oi(p.List[2]), Ins: p.List[3].Atom == "1"})
		case "agg":
			probes = append(probes, Probe{Kind: "agg", PIT: oi(p.List[1]), Ins: p.List[2].Atom == "1", Acc: p.List[3].Atom})
		case "accs":
			probes = append(probes, Probe{Kind: "accs", PIT: oi(p.List[1])})
		case "accvol":
			probes = append(probes, Probe{Kind: "accvol", PIT: oi(p.List[1]), Eff: p.List[2].Atom == "1"})
		case "txs":
			probes = append(probes, Probe{Kind: "txs", PIT: oi(p.List[1])})
		case "volq":
			probes = append(probes, Probe{Kind: "volq", PIT: oi(p.List[1]), OOT: oi(p.List[2]), Ins: p.List[3].Atom == "1", G: int(atoi(p.List[4].Atom)), Q: parseMflt(p.List[5])})
		case "aggq":
			probes = append(probes, Probe{Kind: "aggq", PIT: oi(p.List[1]), Ins: p.List[2].Atom == "1", Q: parseMflt(p.List[3])})
		case "accsq":
			probes = append(probes, Probe{Kind: "accsq", PIT: oi(p.List[1]), Q: parseMflt(p.List[2])})
		}
	}
	return f, ops, probes
}

func cmdReads(args []string) int {
	f := ParseFlags(args)
	out := NewOut(f.Out)
	defer out.Close()
	prof := HistProfile{MaxOps: 12, Backdate: true}
	if strings.Contains(f.Extra["monitors"], "C17") {
		prof.FutureMeta = true
	} else {
		// addresses sharing their first one / two / three segments, so that groupBy 1..3 really merges rows
		saved := genAccounts
		genAccounts = readsAccounts
		defer func() { genAccounts = saved }()
	}
	if strings.Contains(f.Extra["monitors"], "C20") {
		prof.AccMetaHeavy = true // more account metadata writes / deletions: the metadata as of t differs from the current one
	}
	feats := []Feat{allOn, allOn, {true, true, false, false, true}, {true, false, true, true, false}, {false, false, true, false, true}, {true, true, true, false, false}, {true, true, false, true, false}}
	nprobes := 24
	mon := f.Extra["monitors"]
	finish := func(hr *HistRun, probes []Probe) {
		cs := readsCaseSx(hr.Feat, hr.Ops, probes)
		if n := len(hr.Res); n > 0 && hr.Res[n-1].Panic != "" {
			out.Case(cs, L("panic"))
			out.Stats["cases"]++
			return
		}
		ans := make([]ProbeAns, len(probes))
		sxs := make([]string, len(probes))
		for i, p := range probes {
			ans[i] = hr.runProbe(p)
			sxs[i] = ans[i].Sx
			if f.Extra["via"] == "http" { // TIE-H: the printed answers are those of the v2 read endpoints (readshttp.go)
				ha := hr.runProbeHTTP(p, i)
				sxs[i] = ha.Sx
				if ha.Sx != ans[i].Sx {
					for _, id := range strings.Split(f.Extra["monitors"], ",") {
						out.Violation(id, readsCaseSx(hr.Feat, hr.Ops, probes), fmt.Sprintf("probe %s: the v2 endpoint and the controller read differ [http-probe-differs]: http %s / controller %s", p.sx(), diffAt(ha.Sx, ans[i].Sx), diffAt(ans[i].Sx, ha.Sx)))
					}
				}
			}
			out.Stats["probe_"+p.Kind]++
			if ans[i].Rejected {
				out.Stats["probe_rejected"]++
			}
		}
		out.Case(cs, L("answers", L(sxs...)))
		out.Stats["cases"]++
		nok := 0
		for i := range hr.Res {
			if hr.committed(i) {
				nok++
			}
		}
		if nok >= 2 {
			out.Stats["distinct_nontrivial"]++
		}
		for i, p := range probes {
			if strings.Contains(mon, "C05") || mon == "" {
				if msg := monC05probe(hr, p, ans[i]); msg != "" {
					out.Violation("C05", cs, fmt.Sprintf("probe %s: %s", p.sx(), msg))
					break
				}
			}
		}
		for i, p := range probes {
			if strings.Contains(mon, "C17") || mon == "" {
				if msg := monC17probe(hr, p, ans[i]); msg != "" {
					out.Violation("C17", cs, fmt.Sprintf("probe %s: %s", p.sx(), msg))
					break
				}
			}
		}
		// grouped volumes = the ungrouped listing of the same query summed per truncated address (C05; C21: the keys of the
		// grouped listing; C01: totals per asset)
		for i, p := range probes {
			if strings.Contains(mon, "C05") || mon == "" {
				if msg := monGroupedProbe(hr, p, ans[i]); msg != "" {
					out.Violation("C05", cs, fmt.Sprintf("probe %s: %s", p.sx(), msg))
					break
				}
			}
		}
		// metadata filters select on the metadata as of the point in time (C20 "with or without a point in time", C17 "history
		// reflects the past")
		for _, id := range []string{"C17", "C20"} {
			if !(strings.Contains(mon, id) || mon == "") {
				continue
			}
			for i, p := range probes {
				if msg := monMetaFilterProbe(hr, p, ans[i]); msg != "" {
					out.Violation(id, cs, fmt.Sprintf("probe %s: %s", p.sx(), msg))
					break
				}
			}
		}
	}
	if f.Replay != "" {
		for _, line := range ReadLines(f.Replay) {
			feat, ops, probes := parseReadsCase(line)
			finish(runHistory(feat, ops, false), probes)
		}
		return 0
	}
	r := NewRng(f.Seed)
	for i := 0; i < f.N; i++ {
		rr := r.Fork()
		feat := Pick(rr, feats)
		hr := newHistRun(feat, false)
		ops := genHistory(rr, prof, feat, hr.Step)
		probes := genProbes(rr, ops, nprobes)
		if n := len(hr.Res); n == 0 || hr.Res[n-1].Panic == "" {
			probes = append(probes, genProbesQ(rr.Fork(), hr, ops)...)
		}
		finish(hr, probes)
	}
	return 0
}

// ---- C05 monitor: the answer of a window / point-in-time read equals the fold of the postings the implementation itself
// returned for the committed transactions whose date falls in the window
type committedTx struct {
	post     []Posting
	eff, ins int64
	id       int64
}

func (hr *HistRun) committedTxs() []committedTx {
	var out []committedTx
	for i, o := range hr.Ops {
		if i >= len(hr.Res) || !hr.committed(i) || hr.Res[i].Tx == nil || (o.Kind != "create" && o.Kind != "revert") {
			continue
		}
		t := hr.Res[i].Tx
		c := committedTx{eff: us(t.Timestamp.Time), ins: o.Now, id: int64(*t.ID)}
		for _, p := range t.Postings {
			c.post = append(c.post, Posting{p.Source, p.Destination, p.Asset, p.Amount})
		}
		out = append(out, c)
	}
	return out
}

func inWin(d int64, pit, oot *int64) bool { return (pit == nil || d <= *pit) && (oot == nil || d >= *oot) }

func foldWin(txs []committedTx, pit, oot *int64, ins bool) map[pair]*io {
	f := map[pair]*io{}
	get := func(p pair) *io {
		if f[p] == nil {
			f[p] = newIO()
		}
		return f[p]
	}
	for _, t := range txs {
		d := t.eff
		if ins {
			d = t.ins
		}
		if !inWin(d, pit, oot) {
			continue
		}
		for _, p := range t.post {
			get(pair{p.Src, p.Asset}).out.Add(get(pair{p.Src, p.Asset}).out, p.Amt)
			get(pair{p.Dst, p.Asset}).in.Add(get(pair{p.Dst, p.Asset}).in, p.Amt)
		}
	}
	return f
}

func monC05probe(hr *HistRun, p Probe, a ProbeAns) string {
	if strings.HasPrefix(a.Sx, "(error") {
		return "read failed: " + a.Sx
	}
	txs := hr.committedTxs()
	last := hr.Snaps[len(hr.Snaps)-1]
	switch p.Kind {
	case "vol":
		if a.Rejected {
			if hr.Feat.Moves && (p.PIT != nil || p.OOT != nil) {
				return "rejected although MOVES_HISTORY is ON"
			}
			return ""
		}
		want := foldWin(txs, p.PIT, p.OOT, p.Ins)
		if len(want) != len(a.Vols) {
			return fmt.Sprintf("%d account/asset rows returned, the fold of the postings in the window has %d", len(a.Vols), len(want))
		}
		for k, w := range want {
			g, ok := a.Vols[k]
			if !ok || g[0].Cmp(w.in) != 0 || g[1].Cmp(w.out) != 0 {
				return fmt.Sprintf("%s/%s: returned %v, fold of the postings in the window is (%s,%s)", k.a, k.c, g, w.in, w.out)
			}
		}
	case "agg":
		if a.Rejected {
			return ""
		}
		want := map[string]*big.Int{}
		for k, w := range foldWin(txs, p.PIT, nil, p.Ins) {
			if p.Acc != "" && k.a != p.Acc {
				continue
			}
			if want[k.c] == nil {
				want[k.c] = new(big.Int)
			}
			want[k.c].Add(want[k.c], new(big.Int).Sub(w.in, w.out))
		}
		if len(want) != len(a.Agg) {
			return fmt.Sprintf("%d assets returned, fold has %d", len(a.Agg), len(want))
		}
		for c, w := range want {
			if a.Agg[c] == nil || a.Agg[c].Cmp(w) != 0 {
				return fmt.Sprintf("asset %s: returned %v, fold of the postings up to the point in time is %s", c, a.Agg[c], w)
			}
		}
	case "accs":
		got := map[string]bool{}
		for _, x := range a.Accs {
			got[x.Addr] = true
		}
		for _, x := range last.Accounts {
			want := p.PIT == nil || x.First <= *p.PIT
			if got[x.Addr] != want {
				return fmt.Sprintf("account %s (first usage %d) listed=%v", x.Addr, x.First, got[x.Addr])
			}
		}
		if len(got) > len(last.Accounts) {
			return "accounts listed that do not exist"
		}
	case "accvol":
		if a.Rejected {
			return ""
		}
		want := foldWin(txs, p.PIT, nil, !p.Eff)
		for acc, vm := range a.AccVol {
			n := 0
			for k, w := range want {
				if k.a != acc {
					continue
				}
				n++
				g, ok := vm[k.c]
				if !ok || g[0] != w.in.String() || g[1] != w.out.String() {
					return fmt.Sprintf("account %s asset %s: returned %v, fold is (%s,%s)", acc, k.c, g, w.in, w.out)
				}
			}
			if n != len(vm) {
				return fmt.Sprintf("account %s: %d assets returned, fold has %d", acc, len(vm), n)
			}
		}
	case "txs":
		got := map[int64]SnapTx{}
		for _, t := range a.Txs {
			got[t.ID] = t
		}
		for _, t := range last.Txs {
			g, ok := got[t.ID]
			want := p.PIT == nil || t.TS <= *p.PIT
			if ok != want {
				return fmt.Sprintf("transaction %d (timestamp %d) listed=%v", t.ID, t.TS, ok)
			}
			if ok {
				wantRev := t.Rev != nil && (p.PIT == nil || *t.Rev <= *p.PIT)
				if (g.Rev != nil) != wantRev {
					return fmt.Sprintf("transaction %d reverted flag %v, expected %v (reverted at %v)", t.ID, g.Rev != nil, wantRev, t.Rev)
				}
			}
		}
	}
	return ""
}

// ---- C17 (history) monitor: metadata read at t = the metadata writes the implementation accepted up to t, applied in
// commit order, when the corresponding history feature is SYNC; the current metadata when it is DISABLED
func monC17probe(hr *HistRun, p Probe, a ProbeAns) string {
	if p.PIT == nil || a.Rejected || strings.HasPrefix(a.Sx, "(error") {
		return ""
	}
	t := *p.PIT
	last := hr.Snaps[len(hr.Snaps)-1]
	switch p.Kind {
	case "accs":
		cur := map[string][]KV{}
		for _, x := range last.Accounts {
			cur[x.Addr] = x.Meta
		}
		asof := map[string]map[string]string{}
		set := func(acc string, kvs []KV) {
			if asof[acc] == nil {
				asof[acc] = map[string]string{}
			}
			for _, kv := range kvs {
				asof[acc][kv.K] = kv.V
			}
		}
		deletedLate := map[string]bool{}
		for i, o := range hr.Ops {
			if i >= len(hr.Res) || !hr.committed(i) {
				continue
			}
			if o.Now > t {
				continue
			}
			switch {
			case o.Kind == "create":
				for acc, kvs := range o.accMetaAll() {
					set(acc, kvs)
				}
			case o.Kind == "setmeta" && o.IsAcc:
				set(o.TgtAcc, o.Meta)
			case o.Kind == "delmeta" && o.IsAcc:
				if asof[o.TgtAcc] != nil {
					delete(asof[o.TgtAcc], o.Key)
				}
				deletedLate[o.TgtAcc] = true
			}
		}
		for _, x := range a.Accs {
			want := sortKV(asof[x.Addr])
			if !hr.Feat.AccHist {
				want = cur[x.Addr]
			}
			if kvsx(want) != kvsx(x.Meta) {
				return fmt.Sprintf("account %s metadata at %d is %s, expected %s (history=%v)", x.Addr, t, kvsx(x.Meta), kvsx(want), hr.Feat.AccHist)
			}
		}
	case "txs":
		cur := map[int64][]KV{}
		for _, x := range last.Txs {
			cur[x.ID] = x.Meta
		}
		asof := map[int64]map[string]string{}
		for i, o := range hr.Ops {
			if i >= len(hr.Res) || !hr.committed(i) {
				continue
			}
			r := hr.Res[i]
			switch o.Kind {
			case "create", "revert":
				if r.Tx != nil {
					m := map[string]string{}
					for k, v := range r.Tx.Metadata {
						m[k] = v
					}
					asof[int64(*r.Tx.ID)] = m // creation metadata is dated at the transaction's own timestamp: visible whenever the transaction is
				}
			case "setmeta":
				if !o.IsAcc && o.Now <= t && asof[o.TxID] != nil {
					for _, kv := range o.Meta {
						asof[o.TxID][kv.K] = kv.V
					}
				}
			case "delmeta":
				if !o.IsAcc && o.Now <= t && asof[o.TxID] != nil {
					delete(asof[o.TxID], o.Key)
				}
			}
		}
		for _, x := range a.Txs {
			want := sortKV(asof[x.ID])
			if !hr.Feat.TxHist {
				want = cur[x.ID]
			}
			if kvsx(want) != kvsx(x.Meta) {
				return fmt.Sprintf("transaction %d metadata at %d is %s, expected %s (TRANSACTION_METADATA_HISTORY=%v ACCOUNT_METADATA_HISTORY=%v)", x.ID, t, kvsx(x.Meta), kvsx(want), hr.Feat.TxHist, hr.Feat.AccHist)
			}
		}
	}
	return ""
}

func accountHasDelete(hr *HistRun, acc string) bool {
	for i, o := range hr.Ops {
		if i < len(hr.Res) && hr.committed(i) && o.Kind == "delmeta" && o.IsAcc && o.TgtAcc == acc {
			return true
		}
	}
	return false
}
