//go:build verif

package main

import (
	"bytes"
	"context"
	"encoding/json"
	"errors"
	"fmt"
	"math/big"
	"os"
	"regexp"
	"sort"
	"strings"
	"time"

	"github.com/formancehq/go-libs/v5/pkg/query"
	"github.com/formancehq/go-libs/v5/pkg/storage/bun/paginate"
	"github.com/formancehq/go-libs/v5/pkg/types/pointer"
	libtime "github.com/formancehq/go-libs/v5/pkg/types/time"
	ledger "github.com/formancehq/ledger/internal"
	ledgercontroller "github.com/formancehq/ledger/internal/controller/ledger"
	"github.com/formancehq/ledger/internal/queries"
	"github.com/formancehq/ledger/internal/storage/common"
	"github.com/formancehq/ledger/internal/verifh/pgsem"
)

// C37: stored query templates.
//   -mode resolve (TIE-C): random templates x bindings x params -> the REAL queries.ResolveFilterTemplate and
//        ledger.QueryTemplateParams.Overwrite; one canonical line per case, compared textually with Ledger/Template.v.
//   -mode stack   (TIE-D): a history on the real stack, the templates inserted as a schema through the real
//        controller, the REAL ctrl.RunQuery compared with the REAL ctrl.List*/GetVolumesWithBalances on the query a
//        user would write by hand (own substitution, request fields overriding template fields one by one),
//        first page, page size, HasMore and the whole cursor chain. The monitor does not use the Coq model.
func init() { commands["templates"] = cmdTemplates }

// ---------------------------------------------------------------- case data
type tplVal struct { // value of a variable / default
	K string // null b s n nt f ff other
	B bool
	S string
	Z *big.Int
}
type tplAtom struct { // filter value after ParseJSON
	K string // null b s i other
	B bool
	S string
	Z *big.Int
}
type tplJV struct {
	IsList bool
	A      tplAtom
	L      []tplAtom
}
type tplNode struct {
	Kind  string // and or not leaf
	Items []*tplNode
	Op    string // match in exists like lt gt lte gte
	Key   string
	Val   tplJV
}
type tplDecl struct {
	Name, Type string // boolean date int string
	Def        tplVal
}
type tplBind struct {
	Name string
	Val  tplVal
}
type tplPJ struct { // one params JSON object
	Null     bool // rendered as the JSON text null
	End      *int64
	Start    *int64
	Expand   []string
	Sort     string
	PageSize int64
	Group    *int64
	Ins      *bool
}
type tplCase struct {
	Res      string
	Body     *tplNode
	Decls    []tplDecl
	Vars     []tplBind
	TP, RP   *tplPJ // nil = absent (empty RawMessage)
	Max, Def uint64
}

// ---------------------------------------------------------------- s-expressions
func tplZ(z *big.Int) string {
	if z == nil {
		return "0"
	}
	return z.String()
}
func (v tplVal) sx() string {
	switch v.K {
	case "b":
		return L("b", b01(v.B))
	case "s":
		return L("s", Q(v.S))
	case "n":
		return L("n", tplZ(v.Z))
	case "nt":
		return L("nt", Q(v.S))
	case "f":
		return L("f", tplZ(v.Z))
	case "ff":
		return L("ff")
	case "other":
		return "other"
	}
	return "null"
}
func (a tplAtom) sx() string {
	switch a.K {
	case "b":
		return L("b", b01(a.B))
	case "s":
		return L("s", Q(a.S))
	case "i":
		return L("i", tplZ(a.Z))
	case "other":
		return "other"
	}
	return "null"
}
func (v tplJV) sx() string {
	if v.IsList {
		xs := make([]string, len(v.L))
		for i, a := range v.L {
			xs[i] = a.sx()
		}
		return L("l", L(xs...))
	}
	return v.A.sx()
}
func (n *tplNode) sx() string {
	if n == nil {
		return "nil"
	}
	switch n.Kind {
	case "and", "or":
		xs := make([]string, len(n.Items))
		for i, c := range n.Items {
			xs[i] = c.sx()
		}
		return L(n.Kind, L(xs...))
	case "not":
		return L("not", n.Items[0].sx())
	}
	return L("leaf", n.Op, Q(n.Key), n.Val.sx())
}
func tplOptI(p *int64) string {
	if p == nil {
		return "nil"
	}
	return fmt.Sprint(*p)
}
func (p *tplPJ) sx() string {
	if p == nil {
		return "nil"
	}
	if p.Null {
		return "null"
	}
	ex := make([]string, len(p.Expand))
	for i, e := range p.Expand {
		ex[i] = Q(e)
	}
	ins := "nil"
	if p.Ins != nil {
		ins = b01(*p.Ins)
	}
	return L("pj", tplOptI(p.End), tplOptI(p.Start), L(ex...), Q(p.Sort), fmt.Sprint(p.PageSize), tplOptI(p.Group), ins)
}
func (c tplCase) sx() string {
	ds := make([]string, len(c.Decls))
	for i, d := range c.Decls {
		ds[i] = L(Q(d.Name), d.Type, d.Def.sx())
	}
	vs := make([]string, len(c.Vars))
	for i, v := range c.Vars {
		vs[i] = L(Q(v.Name), v.Val.sx())
	}
	return L("tplcase", c.Res, c.Body.sx(), L(ds...), L(vs...), c.TP.sx(), c.RP.sx(), L("cfg", fmt.Sprint(c.Max), fmt.Sprint(c.Def)))
}

func tplBig(s string) *big.Int {
	z, ok := new(big.Int).SetString(s, 10)
	if !ok {
		panic("bad integer " + s)
	}
	return z
}
func tplParseVal(x *Sx) tplVal {
	if !x.IsLst {
		return tplVal{K: x.Atom}
	}
	switch x.List[0].Atom {
	case "b":
		return tplVal{K: "b", B: x.List[1].Atom == "1"}
	case "s":
		return tplVal{K: "s", S: x.List[1].Atom}
	case "n":
		return tplVal{K: "n", Z: tplBig(x.List[1].Atom)}
	case "nt":
		return tplVal{K: "nt", S: x.List[1].Atom}
	case "f":
		return tplVal{K: "f", Z: tplBig(x.List[1].Atom)}
	}
	return tplVal{K: "ff"}
}
func tplParseAtom(x *Sx) tplAtom {
	if !x.IsLst {
		return tplAtom{K: x.Atom}
	}
	switch x.List[0].Atom {
	case "b":
		return tplAtom{K: "b", B: x.List[1].Atom == "1"}
	case "s":
		return tplAtom{K: "s", S: x.List[1].Atom}
	}
	return tplAtom{K: "i", Z: tplBig(x.List[1].Atom)}
}
func tplParseNode(x *Sx) *tplNode {
	if !x.IsLst {
		return nil
	}
	switch k := x.List[0].Atom; k {
	case "and", "or":
		n := &tplNode{Kind: k}
		for _, c := range x.List[1].List {
			n.Items = append(n.Items, tplParseNode(c))
		}
		return n
	case "not":
		return &tplNode{Kind: "not", Items: []*tplNode{tplParseNode(x.List[1])}}
	}
	n := &tplNode{Kind: "leaf", Op: x.List[1].Atom, Key: x.List[2].Atom}
	v := x.List[3]
	if v.IsLst && v.List[0].Atom == "l" {
		n.Val.IsList = true
		for _, a := range v.List[1].List {
			n.Val.L = append(n.Val.L, tplParseAtom(a))
		}
	} else {
		n.Val.A = tplParseAtom(v)
	}
	return n
}
func tplParsePJ(x *Sx) *tplPJ {
	if !x.IsLst {
		if x.Atom == "null" {
			return &tplPJ{Null: true}
		}
		return nil
	}
	p := &tplPJ{}
	oi := func(y *Sx) *int64 {
		if y.Atom == "nil" {
			return nil
		}
		v := atoi(y.Atom)
		return &v
	}
	p.End, p.Start = oi(x.List[1]), oi(x.List[2])
	for _, e := range x.List[3].List {
		p.Expand = append(p.Expand, e.Atom)
	}
	p.Sort = x.List[4].Atom
	p.PageSize = atoi(x.List[5].Atom)
	p.Group = oi(x.List[6])
	if x.List[7].Atom != "nil" {
		b := x.List[7].Atom == "1"
		p.Ins = &b
	}
	return p
}
func tplParseCase(x *Sx) tplCase {
	c := tplCase{Res: x.List[1].Atom, Body: tplParseNode(x.List[2])}
	for _, d := range x.List[3].List {
		c.Decls = append(c.Decls, tplDecl{Name: d.List[0].Atom, Type: d.List[1].Atom, Def: tplParseVal(d.List[2])})
	}
	for _, v := range x.List[4].List {
		c.Vars = append(c.Vars, tplBind{Name: v.List[0].Atom, Val: tplParseVal(v.List[1])})
	}
	c.TP, c.RP = tplParsePJ(x.List[5]), tplParsePJ(x.List[6])
	c.Max, c.Def = uint64(atoi(x.List[7].List[1].Atom)), uint64(atoi(x.List[7].List[2].Atom))
	return c
}

// ---------------------------------------------------------------- rendering for the real code
func (v tplVal) goValue() any {
	switch v.K {
	case "b":
		return v.B
	case "s":
		return v.S
	case "n":
		return json.Number(v.Z.String())
	case "nt":
		return json.Number(v.S)
	case "f":
		f, _ := new(big.Float).SetInt(v.Z).Float64()
		return f
	case "ff":
		return 1.5
	case "other":
		return []any{"x"}
	}
	return nil
}
// tplFloatExact: the integer a float64 binding really carries (what decoding the JSON number into float64 yields),
// e.g. 2^63 for 2^63-1, 2^53 for 2^53+1: the case records that value, so the model's TpvFloat z is exact
func tplFloatExact(z *big.Int) *big.Int {
	f, _ := new(big.Float).SetInt(z).Float64()
	out, _ := new(big.Float).SetFloat64(f).Int(nil)
	return out
}
func tplJSONStr(s string) string {
	var buf bytes.Buffer
	enc := json.NewEncoder(&buf)
	enc.SetEscapeHTML(false)
	must(enc.Encode(s))
	return strings.TrimSuffix(buf.String(), "\n")
}
func (a tplAtom) json() string {
	switch a.K {
	case "b":
		return fmt.Sprint(a.B)
	case "s":
		return tplJSONStr(a.S)
	case "i":
		return a.Z.String()
	case "other":
		return `{"x":1}`
	}
	return "null"
}
func (n *tplNode) json() string {
	switch n.Kind {
	case "and", "or":
		xs := make([]string, len(n.Items))
		for i, c := range n.Items {
			xs[i] = c.json()
		}
		return `{"$` + n.Kind + `":[` + strings.Join(xs, ",") + `]}`
	case "not":
		return `{"$not":` + n.Items[0].json() + `}`
	}
	v := n.Val.A.json()
	if n.Val.IsList {
		xs := make([]string, len(n.Val.L))
		for i, a := range n.Val.L {
			xs[i] = a.json()
		}
		v = "[" + strings.Join(xs, ",") + "]"
	}
	return `{"$` + n.Op + `":{` + tplJSONStr(n.Key) + `:` + v + `}}`
}
func tplTimeStr(us int64) string { return time.UnixMicro(us).UTC().Format(time.RFC3339Nano) }
func (p *tplPJ) raw() json.RawMessage {
	if p == nil {
		return nil
	}
	if p.Null {
		return json.RawMessage("null")
	}
	var fs []string
	if p.End != nil {
		fs = append(fs, `"endTime":"`+tplTimeStr(*p.End)+`"`)
	}
	if p.Start != nil {
		fs = append(fs, `"startTime":"`+tplTimeStr(*p.Start)+`"`)
	}
	if len(p.Expand) > 0 {
		b, _ := json.Marshal(p.Expand)
		fs = append(fs, `"expand":`+string(b))
	}
	if p.Sort != "" {
		fs = append(fs, `"sort":`+tplJSONStr(p.Sort))
	}
	if p.PageSize != 0 {
		fs = append(fs, fmt.Sprintf(`"pageSize":%d`, p.PageSize))
	}
	if p.Group != nil {
		fs = append(fs, fmt.Sprintf(`"groupBy":%d`, *p.Group))
	}
	if p.Ins != nil {
		fs = append(fs, fmt.Sprintf(`"insertionDate":%v`, *p.Ins))
	}
	return json.RawMessage("{" + strings.Join(fs, ",") + "}")
}
func tplFieldType(s string) queries.FieldType {
	t, err := queries.FieldTypeFromString(s)
	must(err)
	return t
}
func (c tplCase) declMap() map[string]queries.VarDecl {
	m := map[string]queries.VarDecl{}
	for _, d := range c.Decls {
		m[d.Name] = queries.VarDecl{Type: tplFieldType(d.Type), Default: d.Def.goValue()}
	}
	return m
}
func (c tplCase) varMap() map[string]any {
	m := map[string]any{}
	for _, v := range c.Vars {
		m[v.Name] = v.Val.goValue()
	}
	return m
}
func (c tplCase) bodyRaw() json.RawMessage {
	if c.Body == nil {
		return nil
	}
	return json.RawMessage(c.Body.json())
}

// ---------------------------------------------------------------- the real code, canonical answers
func tplErrClass(err error) string {
	m := err.Error()
	has := func(s string) bool { return strings.Contains(m, s) }
	switch {
	case strings.HasPrefix(m, "invalid value `"):
		return "bad_var_value"
	case has("invalid field name"):
		return "bad_field_name"
	case has("unknown field: "):
		return "unknown_field"
	case has("unexpected field indexing"):
		return "bad_indexing"
	case has("missing variable"):
		return "missing_variable"
	case has("cannot use variable") || has("unexpected variable type"):
		return "bad_type"
	case has(`expected a "${variable}" string`):
		return "bad_placeholder"
	case has("instead") && has("expected "):
		return "bad_template"
	case has("numbers with decimals") || has("should be an integer"):
		return "bad_number"
	case has("expected array"):
		return "expected_array"
	case has("$exists can only be called on a map field"):
		return "exists_not_map"
	case has("unexpected FieldType"):
		return "bad_field_type"
	case has("invalid sort column"):
		return "bad_sort"
	case has("invalid order"):
		return "bad_order"
	case has("json: cannot unmarshal"):
		return "bad_params"
	}
	return "other"
}

// canonical s-expression of a filter from its JSON form (what query.Builder marshals to)
func tplCanonValue(v any) string {
	switch x := v.(type) {
	case nil:
		return "null"
	case bool:
		return L("b", b01(x))
	case string:
		return L("s", Q(x))
	case json.Number:
		return L("i", x.String())
	case []any:
		xs := make([]string, len(x))
		for i, y := range x {
			xs[i] = tplCanonValue(y)
		}
		return L("l", L(xs...))
	}
	return "other"
}
func tplCanonFilter(v any) string {
	m, ok := v.(map[string]any)
	if !ok || len(m) != 1 {
		return "malformed"
	}
	for op, val := range m {
		switch op {
		case "$and", "$or":
			items, _ := val.([]any)
			xs := make([]string, len(items))
			for i, it := range items {
				xs[i] = tplCanonFilter(it)
			}
			return L(op[1:], L(xs...))
		case "$not":
			return L("not", tplCanonFilter(val))
		default:
			kv, _ := val.(map[string]any)
			for k, x := range kv {
				return L("leaf", op[1:], Q(k), tplCanonValue(x))
			}
		}
	}
	return "malformed"
}
func tplBuilderSx(b query.Builder) string {
	if b == nil {
		return "nil"
	}
	data, err := json.Marshal(b)
	must(err)
	dec := json.NewDecoder(bytes.NewReader(data))
	dec.UseNumber()
	var v any
	must(dec.Decode(&v))
	return tplCanonFilter(v)
}

func tplResolveReal(c tplCase) (b query.Builder, line string) {
	defer func() {
		if r := recover(); r != nil {
			b, line = nil, L("panic", Q(fmt.Sprint(r)))
		}
	}()
	b, err := queries.ResolveFilterTemplate(queries.ResourceKind(c.Res), c.bodyRaw(), c.declMap(), c.varMap())
	if err != nil {
		return nil, L("err", tplErrClass(err))
	}
	return b, L("ok", tplBuilderSx(b))
}

type tplParams struct {
	PIT, OOT *int64
	Expand   []string
	Column   string
	Order    string
	PageSize uint64
	Ins      bool
	Group    int64
}

func (p tplParams) sx(res string) string {
	ex := make([]string, len(p.Expand))
	for i, e := range p.Expand {
		ex[i] = Q(e)
	}
	opts := "-"
	if res == "volumes" {
		opts = L(b01(p.Ins), fmt.Sprint(p.Group))
	}
	return L("params", tplOptI(p.PIT), tplOptI(p.OOT), L(ex...), Q(p.Column), p.Order, fmt.Sprint(p.PageSize), opts)
}
func tplOrd(o *paginate.Order) string {
	if o == nil {
		return "nil"
	}
	if *o == paginate.OrderDesc {
		return "desc"
	}
	return "asc"
}
func tplTimeUs(t *libtime.Time) *int64 {
	if t == nil {
		return nil
	}
	v := t.UnixMicro()
	return &v
}

// the defaults RunQuery starts from (controller_default.go)
func tplRunDefaults(res string) (col string, ord paginate.Order) {
	switch res {
	case "transactions", "logs":
		return "id", paginate.OrderDesc
	case "accounts":
		return "address", paginate.OrderAsc
	}
	return "account", paginate.OrderAsc
}

func tplOverwriteReal(c tplCase) (p *tplParams, line string) {
	defer func() {
		if r := recover(); r != nil {
			p, line = nil, L("panic", Q(fmt.Sprint(r)))
		}
	}()
	col, ord := tplRunDefaults(c.Res)
	if c.Res == "volumes" {
		q, err := ledger.QueryTemplateParams[ledger.GetVolumesOptions]{PageSize: uint(c.Def), SortColumn: col, SortOrder: pointer.For(paginate.Order(ord)),
			Opts: ledger.GetVolumesOptions{UseInsertionDate: false, GroupLvl: 0}}.Overwrite(c.TP.raw(), c.RP.raw())
		if err != nil {
			return nil, L("err", tplErrClass(err))
		}
		p = &tplParams{PIT: tplTimeUs(q.PIT), OOT: tplTimeUs(q.OOT), Expand: q.Expand, Column: q.SortColumn, Order: tplOrd(q.SortOrder), PageSize: uint64(q.PageSize),
			Ins: q.Opts.UseInsertionDate, Group: int64(q.Opts.GroupLvl)}
	} else {
		q, err := ledger.QueryTemplateParams[any]{PageSize: uint(c.Def), SortColumn: col, SortOrder: pointer.For(paginate.Order(ord))}.Overwrite(c.TP.raw(), c.RP.raw())
		if err != nil {
			return nil, L("err", tplErrClass(err))
		}
		p = &tplParams{PIT: tplTimeUs(q.PIT), OOT: tplTimeUs(q.OOT), Expand: q.Expand, Column: q.SortColumn, Order: tplOrd(q.SortOrder), PageSize: uint64(q.PageSize)}
	}
	return p, L("ok", p.sx(c.Res))
}

// ---------------------------------------------------------------- generator
type tplField struct{ Name, Type string } // Type: string date int bool mapstring mapint

var tplSchema = map[string][]tplField{
	"transactions": {{"reverted", "bool"}, {"account", "string"}, {"source", "string"}, {"destination", "string"}, {"timestamp", "date"}, {"metadata", "mapstring"},
		{"id", "int"}, {"reference", "string"}, {"inserted_at", "date"}, {"updated_at", "date"}, {"reverted_at", "date"}},
	"accounts": {{"address", "string"}, {"first_usage", "date"}, {"balance", "mapint"}, {"metadata", "mapstring"}, {"insertion_date", "date"}, {"updated_at", "date"}},
	"logs":     {{"date", "date"}, {"id", "int"}, {"type", "string"}},
	"volumes":  {{"address", "string"}, {"account", "string"}, {"balance", "mapint"}, {"first_usage", "date"}, {"metadata", "mapstring"}},
}
var tplResources = []string{"transactions", "accounts", "logs", "volumes"}
var tplPaginated = map[string][]string{
	"transactions": {"id", "timestamp", "inserted_at", "updated_at", "reverted_at"},
	"accounts":     {"address", "first_usage", "insertion_date", "updated_at"},
	"logs":         {"id", "date"},
	"volumes":      {"address", "account"},
}

const tplBase = int64(1700000000) * 1000000

// both cursor chains are cut after this many pages (a column cursor over a non-unique date column can cycle: C21)
const tplMaxPages = 40

func tplFieldOf(res, key string) (tplField, string, bool) {
	name, idx := key, ""
	if i := strings.IndexByte(key, '['); i >= 0 && strings.HasSuffix(key, "]") {
		name, idx = key[:i], key[i+1:len(key)-1]
	}
	for _, f := range tplSchema[res] {
		if f.Name == name {
			return f, idx, true
		}
	}
	return tplField{}, "", false
}

// effective value type of a leaf: string date int bool, "" when none
func tplLeafType(res string, n *tplNode) string {
	f, idx, ok := tplFieldOf(res, n.Key)
	if !ok {
		return ""
	}
	t := f.Type
	if strings.HasPrefix(t, "map") {
		if idx != "" || n.Op == "exists" {
			return t[3:]
		}
		return ""
	}
	if idx != "" {
		return ""
	}
	return t
}

type tplGen struct {
	r     *Rng
	res   string
	valid bool // only templates QueryTemplate.Validate accepts, only meaningful operators
	decls []tplDecl
}

func (g *tplGen) declare(typ string) string {
	// reuse a declared variable of that type half of the time
	var same []string
	for _, d := range g.decls {
		if d.Type == typ {
			same = append(same, d.Name)
		}
	}
	if len(same) > 0 && g.r.Chance(50) {
		return Pick(g.r, same)
	}
	pool := map[string][]string{"string": {"id", "name", "seg", "role"}, "int": {"n", "min", "num_b"}, "date": {"d", "since", "until_t"}, "boolean": {"b", "rev"}}[typ]
	name := Pick(g.r, pool)
	for _, d := range g.decls {
		if d.Name == name {
			if d.Type == typ {
				return name
			}
			name = name + "_" + typ[:1]
		}
	}
	for _, d := range g.decls {
		if d.Name == name {
			return name
		}
	}
	d := tplDecl{Name: name, Type: typ, Def: tplVal{K: "null"}}
	if g.r.Chance(35) {
		d.Def = g.value(typ, name)
	}
	g.decls = append(g.decls, d)
	return name
}

var tplDates = []int64{tplBase - 3600*1000000, tplBase + 500000, tplBase + 2*1000000, tplBase + 4*1000000, tplBase + 5*1000000, tplBase + 7*1000000, tplBase + 9*1000000, tplBase + 13*1000000, tplBase + 70*1000000}

// a well-typed value for a variable of that type, shaped by its name (so that results are non-trivial)
func (g *tplGen) value(typ, name string) tplVal {
	r := g.r
	switch typ {
	case "boolean":
		return tplVal{K: "b", B: r.Bool()}
	case "date":
		us := Pick(r, tplDates)
		s := tplTimeStr(us)
		if r.Chance(15) { // same instant written with an offset
			s = time.UnixMicro(us).In(time.FixedZone("x", 2*3600)).Format(time.RFC3339Nano)
		}
		return tplVal{K: "s", S: s}
	case "int":
		z := big.NewInt(int64(r.Intn(9)))
		if r.Chance(18) { // magnitudes around 2^53 (float64 integer precision) and +-2^63 (int64 range), and beyond
			z = tplBig(Pick(r, []string{"50", "-1", "9007199254740991", "9007199254740992", "9007199254740993", "-9007199254740993",
				"9223372036854775807", "9223372036854775808", "9223372036854775809", "9223372036854777856", "-9223372036854775808",
				"-9223372036854775809", "-9223372036854777856", "18446744073709551616", "100000000000000000000"}))
		}
		if r.Chance(50) {
			return tplVal{K: "n", Z: z}
		}
		return tplVal{K: "f", Z: tplFloatExact(z)}
	}
	switch name {
	case "id":
		return tplVal{K: "s", S: Pick(r, []string{"1", "2", "3"})}
	case "seg":
		return tplVal{K: "s", S: Pick(r, []string{"users", "main", "bank", ""})}
	case "role":
		return tplVal{K: "s", S: Pick(r, []string{"v1", "v2", "v3", "k1", "k2", "role"})}
	}
	return tplVal{K: "s", S: Pick(r, []string{"alice", "bob", "world", "users:1", "users:2:main", "bank", "r1", "r2", "v1", "NEW_TRANSACTION", "USD", "\xc3\xa9 z", "a$b"})}
}

func (g *tplGen) stringValue(field string) string {
	r := g.r
	ref := func(name string) string {
		if r.Bool() {
			return "${" + name + "}"
		}
		return "$" + name
	}
	isAddr := field == "address" || field == "account" || field == "source" || field == "destination"
	switch k := r.Intn(10); {
	case k < 3: // literal
		switch {
		case isAddr:
			return Pick(r, []string{"world", "alice", "bob", "users:1", "users:2:main", "bank", "users:", "users::main", ":"})
		case field == "type":
			return Pick(r, []string{"NEW_TRANSACTION", "SET_METADATA", "REVERTED_TRANSACTION", "DELETE_METADATA"})
		case field == "reference":
			return Pick(r, []string{"r1", "r2", "ref:3"})
		}
		return Pick(r, []string{"v1", "v2", "v3", "\xc3\xa9 z", "k1"})
	case k < 6: // whole value = one reference
		if isAddr && r.Chance(60) {
			return "${" + g.declare("string") + "}"
		}
		return ref(g.declare("string"))
	case k < 9 && isAddr: // interpolated address
		switch r.Intn(4) {
		case 0:
			return "users:${" + g.declare("string") + "}"
		case 1:
			return "users:$" + g.declare("int") + ":main"
		case 2:
			return "${" + g.declare("string") + "}:${" + g.declare("int") + "}"
		}
		return "$" + g.declare("string") + ":"
	case k < 9:
		return Pick(r, []string{"v", "r", "ref:", ""}) + ref(g.declare("int"))
	}
	if g.valid {
		return ref(g.declare("boolean")) // a boolean rendered into a string
	}
	return Pick(r, []string{"$", "a$", "${", "${x", "$1", "${}", "$X", "cost$ 5", "${ab-c}", "$_x", "${und}", "$und x"})
}

func (g *tplGen) leaf() *tplNode {
	r := g.r
	fs := tplSchema[g.res]
	f := Pick(r, fs)
	n := &tplNode{Kind: "leaf", Key: f.Name}
	typ := f.Type
	if strings.HasPrefix(typ, "map") {
		switch {
		case r.Chance(15) && typ == "mapstring":
			n.Op = "exists"
			typ = "string"
		case !g.valid && r.Chance(8): // map used without an index
			typ = "map"
		default:
			if typ == "mapstring" {
				n.Key = f.Name + "[" + Pick(r, []string{"k1", "k2", "role"}) + "]"
			} else {
				n.Key = f.Name + "[" + Pick(r, []string{"USD", "EUR", "COIN/2"}) + "]"
			}
			typ = typ[3:]
		}
	} else if !g.valid && r.Chance(4) {
		n.Key = f.Name + "[x]"
	}
	if !g.valid && r.Chance(4) {
		n.Key = Pick(r, []string{"nope", "Address", "metadata[", "metadata[]", "metadata[a b]", "", "metadata[k1]x", "balance[USD][x]", "account", "id"})
	}
	if !g.valid && r.Chance(3) && n.Op == "" {
		n.Op = "exists"
	}
	ops := map[string][]string{"string": {"match", "match", "like", "in"}, "date": {"lt", "gt", "lte", "gte", "match"}, "int": {"match", "lt", "gt", "lte", "gte"},
		"bool": {"match"}, "map": {"match"}}[typ]
	if n.Op == "" {
		n.Op = Pick(r, ops)
		if !g.valid && r.Chance(5) {
			n.Op = Pick(r, []string{"match", "in", "like", "lt", "gte", "exists"})
		}
	}
	atom := func() tplAtom {
		switch typ {
		case "string", "map":
			s := g.stringValue(f.Name)
			if n.Op == "exists" {
				s = Pick(r, []string{"k1", "k2", "role", "${" + g.declare("string") + "}"})
			}
			if n.Op == "like" && r.Bool() {
				s += "%"
			}
			return tplAtom{K: "s", S: s}
		case "date":
			if !g.valid && r.Chance(10) {
				return tplAtom{K: "s", S: Pick(r, []string{tplTimeStr(tplBase), "$d", "${d} ", "x${d}", "${d}${d}"})}
			}
			return tplAtom{K: "s", S: "${" + g.declare("date") + "}"}
		case "int":
			if r.Chance(40) {
				return tplAtom{K: "i", Z: big.NewInt(int64(r.Intn(8)))}
			}
			return tplAtom{K: "s", S: "${" + g.declare("int") + "}"}
		}
		if r.Chance(40) {
			return tplAtom{K: "b", B: r.Bool()}
		}
		return tplAtom{K: "s", S: "${" + g.declare("boolean") + "}"}
	}
	if n.Op == "in" && (g.valid || r.Chance(92)) {
		n.Val.IsList = true
		for i, k := 0, 1+r.Intn(3); i < k; i++ {
			n.Val.L = append(n.Val.L, atom())
		}
		if !g.valid && r.Chance(10) {
			n.Val.L = append(n.Val.L, tplAtom{K: Pick(r, []string{"null", "other"})})
		}
		return n
	}
	n.Val.A = atom()
	if !g.valid {
		switch k := r.Intn(40); k {
		case 0:
			n.Val.A = tplAtom{K: "null"}
		case 1:
			n.Val.A = tplAtom{K: "other"}
		case 2:
			n.Val = tplJV{IsList: true, L: []tplAtom{atom()}}
		case 3: // a reference of the wrong declared type
			n.Val.A = tplAtom{K: "s", S: "${" + g.declare(Pick(r, []string{"string", "int", "date", "boolean"})) + "}"}
		}
	}
	return n
}

func (g *tplGen) node(depth int) *tplNode {
	r := g.r
	if depth >= 3 || r.Chance(55) {
		return g.leaf()
	}
	switch r.Intn(5) {
	case 0:
		return &tplNode{Kind: "not", Items: []*tplNode{g.node(depth + 1)}}
	case 1, 2:
		n := &tplNode{Kind: "and"}
		for i, k := 0, r.Intn(4); i < k; i++ {
			n.Items = append(n.Items, g.node(depth+1))
		}
		return n
	}
	n := &tplNode{Kind: "or"}
	for i, k := 0, 1+r.Intn(3); i < k; i++ {
		n.Items = append(n.Items, g.node(depth+1))
	}
	return n
}

func (g *tplGen) pjson(isRequest bool) *tplPJ {
	r := g.r
	switch k := r.Intn(10); {
	case k < 3:
		return nil
	case k == 3:
		return &tplPJ{Null: true}
	}
	p := &tplPJ{}
	tm := func() *int64 { v := Pick(r, tplDates); return &v }
	if r.Chance(30) {
		p.End = tm()
	}
	if r.Chance(15) {
		p.Start = tm()
	}
	if r.Chance(25) {
		switch g.res {
		case "transactions":
			p.Expand = []string{Pick(r, []string{"volumes", "effectiveVolumes"})}
		case "accounts":
			p.Expand = []string{Pick(r, []string{"volumes", "effectiveVolumes"})}
			if r.Chance(30) {
				p.Expand = []string{"volumes", "effectiveVolumes"}
			}
		}
	}
	if r.Chance(40) {
		col := Pick(r, tplPaginated[g.res])
		if r.Chance(25) { // camelCase spellings (strcase.ToSnake)
			col = map[string]string{"inserted_at": "insertedAt", "updated_at": "updatedAt", "reverted_at": "revertedAt", "first_usage": "firstUsage", "insertion_date": "insertionDate"}[col]
			if col == "" {
				col = "id"
				if g.res == "accounts" || g.res == "volumes" {
					col = "address"
				}
			}
		}
		switch r.Intn(4) {
		case 0:
			p.Sort = col
		case 1:
			p.Sort = col + ":" + Pick(r, []string{"asc", "ASC", "Asc"})
		default:
			p.Sort = col + ":" + Pick(r, []string{"desc", "desc", "DESC"})
		}
		if !g.valid && r.Chance(12) {
			p.Sort = Pick(r, []string{":", " :asc", "id:", "id:up", ":desc", "id:asc:desc", "JSONData:asc", "a1B2:desc", "my col.x-y", "userID", "x"})
		}
	}
	if r.Chance(55) {
		p.PageSize = int64(1 + r.Intn(4))
		if r.Chance(10) {
			p.PageSize = int64(Pick(r, []int{7, 15, 30, 1000}))
		}
		if !g.valid && r.Chance(4) {
			p.PageSize = -1
		}
	}
	if g.res == "volumes" {
		if r.Chance(35) {
			v := int64(r.Intn(3))
			p.Group = &v
		}
		if r.Chance(30) {
			b := r.Bool()
			p.Ins = &b
		}
	}
	return p
}

func (g *tplGen) bindings(c *tplCase) {
	r := g.r
	for _, d := range c.Decls {
		k := r.Intn(100)
		switch {
		case k < 62:
			c.Vars = append(c.Vars, tplBind{d.Name, g.value(d.Type, d.Name)})
		case k < 80: // not supplied (default or missing)
		case k < 90: // ill-typed
			other := Pick(r, []string{"string", "int", "date", "boolean"})
			v := g.value(other, "x")
			if r.Chance(30) {
				v = Pick(r, []tplVal{{K: "ff"}, {K: "nt", S: "1.5"}, {K: "other"}, {K: "s", S: "2023-02-30T00:00:00Z"}, {K: "s", S: "yesterday"}, {K: "s", S: "2023-01-01"}})
			}
			c.Vars = append(c.Vars, tplBind{d.Name, v})
		default:
			if g.valid {
				c.Vars = append(c.Vars, tplBind{d.Name, g.value(d.Type, d.Name)})
			} else {
				c.Vars = append(c.Vars, tplBind{d.Name, tplVal{K: "null"}})
			}
		}
	}
	if r.Chance(20) { // undeclared extra variable
		c.Vars = append(c.Vars, tplBind{"und", tplVal{K: "s", S: "zzz"}})
	}
}

func tplGenTemplate(r *Rng, res string, valid bool) (tplCase, *tplGen) {
	g := &tplGen{r: r, res: res, valid: valid}
	c := tplCase{Res: res, Max: 1000, Def: 15}
	if !r.Chance(6) {
		c.Body = g.node(0)
	}
	if !valid {
		if r.Chance(10) { // ill-typed or odd defaults (ResolveFilterTemplate does not re-validate them)
			for i := range g.decls {
				if r.Chance(50) {
					g.decls[i].Def = Pick(r, []tplVal{{K: "ff"}, {K: "nt", S: "1.5"}, {K: "other"}, {K: "s", S: "x"}, {K: "b", B: true}, {K: "f", Z: big.NewInt(3)}})
				}
			}
		}
		if r.Chance(10) {
			g.decls = append(g.decls, tplDecl{Name: "unused", Type: Pick(r, []string{"string", "int", "date", "boolean"}), Def: tplVal{K: "null"}})
		}
	}
	c.Decls = g.decls
	c.TP = g.pjson(false)
	return c, g
}

// ---------------------------------------------------------------- TIE-C
func tplResolveLine(c tplCase) (string, *tplParams, query.Builder) {
	b, rl := tplResolveReal(c)
	p, ol := tplOverwriteReal(c)
	return L("tpl", L("resolve", rl), L("overwrite", ol)), p, b
}

func tplStatsC(out *Out, c tplCase, line string, seen map[string]bool) {
	out.Stats["cases"]++
	out.Stats["res_"+c.Res]++
	cls := func(part string) string {
		i := strings.Index(line, "("+part+" (err ")
		if i < 0 {
			return "ok"
		}
		rest := line[i+len(part)+7:]
		return rest[:strings.IndexByte(rest, ')')]
	}
	rc, oc := cls("resolve"), cls("overwrite")
	out.Stats["resolve_"+rc]++
	out.Stats["overwrite_"+oc]++
	if rc == "ok" && c.Body != nil && strings.Contains(c.Body.sx(), "$") && len(c.Vars) > 0 && !seen[line] {
		seen[line] = true
		out.Stats["distinct_nontrivial"]++
	}
}

// ---------------------------------------------------------------- TIE-D: own substitution, own parameter merge
var tplRefRe = regexp.MustCompile(`\$\{([a-z][a-z0-9_]*)\}|\$([a-z][a-z0-9_]*)`)
var tplWholeRe = regexp.MustCompile(`^\$\{([a-z_]+)\}$`)

type tplExpect struct {
	Reject  string   // non-empty: the request must be rejected as a validation error
	Body    *tplNode // the filter a user would write by hand
	Devs    []string // known deviations of the implementation that apply to this case (tags)
	DevBody *tplNode // the filter with those deviations applied
	NSubst  int
}

func tplIsInt(v tplVal) bool { return v.K == "n" || v.K == "f" }
func tplTypeOK(typ string, v tplVal) bool {
	switch typ {
	case "boolean":
		return v.K == "b"
	case "int":
		return tplIsInt(v)
	case "date":
		if v.K != "s" {
			return false
		}
		_, err := time.Parse(time.RFC3339Nano, v.S)
		return err == nil
	}
	return v.K == "s"
}

// the monitor's reading of a template: every variable must be bound (call value, else default) to a value of its
// declared type; a string-typed position is interpolated, any other position must be exactly one ${reference}
func tplExpected(c tplCase) tplExpect {
	e := tplExpect{}
	env := map[string]tplVal{}
	typ := map[string]string{}
	for _, d := range c.Decls {
		typ[d.Name] = d.Type
		if d.Def.K != "null" {
			env[d.Name] = d.Def
		}
	}
	for _, v := range c.Vars {
		t, ok := typ[v.Name]
		if !ok {
			continue // undeclared variables are ignored
		}
		if !tplTypeOK(t, v.Val) {
			e.Reject = "ill-typed variable " + v.Name
			return e
		}
		env[v.Name] = v.Val
	}
	devs := map[string]bool{}
	var atom func(vt string, a tplAtom) (tplAtom, tplAtom)
	atom = func(vt string, a tplAtom) (tplAtom, tplAtom) {
		if a.K != "s" || e.Reject != "" {
			return a, a
		}
		if vt == "string" {
			bad := false
			lit := tplRefRe.ReplaceAllString(a.S, "")
			if strings.Contains(lit, "$") {
				e.Reject = "stray $ in " + a.S
				return a, a
			}
			render := func(dev bool) string {
				var sb strings.Builder
				pos := 0
				for _, m := range tplRefRe.FindAllStringIndex(a.S, -1) {
					sb.WriteString(a.S[pos:m[0]])
					pos = m[1]
					v, ok := env[strings.Trim(a.S[m[0]:m[1]], "${}")]
					if !ok {
						bad = true
						continue
					}
					if !dev {
						e.NSubst++
					}
					switch v.K {
					case "s":
						sb.WriteString(v.S)
					case "b":
						sb.WriteString(fmt.Sprint(v.B))
					case "n":
						sb.WriteString(v.Z.String())
					case "f": // exact rendering of the integral float64 (fixes/filter-07); no known deviation any more
						sb.WriteString(v.Z.String())
					default:
						bad = true
					}
				}
				sb.WriteString(a.S[pos:])
				return sb.String()
			}
			plain, dev := render(false), render(true)
			if bad {
				e.Reject = "unbound variable in " + a.S
				return a, a
			}
			return tplAtom{K: "s", S: plain}, tplAtom{K: "s", S: dev}
		}
		m := tplWholeRe.FindStringSubmatch(a.S)
		if m == nil {
			e.Reject = "not a reference: " + a.S
			return a, a
		}
		v, ok := env[m[1]]
		if !ok {
			e.Reject = "unbound variable " + m[1]
			return a, a
		}
		e.NSubst++
		var out tplAtom
		switch {
		case vt == "bool" && v.K == "b":
			out = tplAtom{K: "b", B: v.B}
		case vt == "int" && tplIsInt(v):
			out = tplAtom{K: "i", Z: v.Z}
		case vt == "date" && v.K == "s":
			out = tplAtom{K: "s", S: v.S}
		default:
			e.Reject = "variable " + m[1] + " used at a position of type " + vt
		}
		return out, out
	}
	var walk func(n *tplNode) (*tplNode, *tplNode)
	walk = func(n *tplNode) (*tplNode, *tplNode) {
		if n.Kind != "leaf" {
			a, b := &tplNode{Kind: n.Kind}, &tplNode{Kind: n.Kind}
			for _, c := range n.Items {
				x, y := walk(c)
				a.Items, b.Items = append(a.Items, x), append(b.Items, y)
			}
			return a, b
		}
		vt := tplLeafType(c.Res, n)
		if vt == "" {
			e.Reject = "no such field " + n.Key
			return n, n
		}
		a, b := *n, *n
		if n.Val.IsList {
			a.Val.L, b.Val.L = nil, nil
			for _, x := range n.Val.L {
				p, q := atom(vt, x)
				a.Val.L, b.Val.L = append(a.Val.L, p), append(b.Val.L, q)
			}
		} else {
			a.Val.A, b.Val.A = atom(vt, n.Val.A)
		}
		return &a, &b
	}
	if c.Body != nil {
		e.Body, e.DevBody = walk(c.Body)
	}
	for t := range devs {
		e.Devs = append(e.Devs, t)
	}
	sort.Strings(e.Devs)
	return e
}

var tplSnake = map[string]string{"insertedAt": "inserted_at", "updatedAt": "updated_at", "revertedAt": "reverted_at", "firstUsage": "first_usage", "insertionDate": "insertion_date"}

// request fields override template fields override the defaults, one field at a time (the property; also what the
// code does since fix 05-template-params-fieldwise)
func tplMergeParams(c tplCase) tplParams {
	col, ord := tplRunDefaults(c.Res)
	p := tplParams{Column: col, Order: tplOrd(&ord), PageSize: c.Def}
	for _, j := range []*tplPJ{c.TP, c.RP} {
		if j == nil || j.Null {
			continue
		}
		if j.End != nil {
			p.PIT = j.End
		}
		if j.Start != nil {
			p.OOT = j.Start
		}
		if len(j.Expand) > 0 {
			p.Expand = j.Expand
		}
		if j.PageSize > 0 {
			p.PageSize = uint64(j.PageSize)
		}
		if j.Sort != "" {
			parts := strings.SplitN(j.Sort, ":", 2)
			p.Column = parts[0]
			if s, ok := tplSnake[p.Column]; ok {
				p.Column = s
			}
			if len(parts) > 1 {
				p.Order = strings.ToLower(parts[1])
			}
		}
		if j.Group != nil {
			p.Group = *j.Group
		}
		if j.Ins != nil {
			p.Ins = *j.Ins
		}
	}
	return p
}


type tplPage struct {
	Items    []string
	PageSize int
	HasMore  bool
	Next     string
	Err      string
	Invalid  bool // rejected as a validation / invalid-query error
}

func tplItems[T any](xs []T) []string {
	out := make([]string, len(xs))
	for i, x := range xs {
		b, err := json.Marshal(x)
		must(err)
		out[i] = string(b)
	}
	return out
}

type tplStack struct {
	ctx  context.Context
	ctrl ledgercontroller.Controller
	st   *Stack
}

func (s *tplStack) runQuery(id string, rq common.RunQuery, cfg common.PaginationConfig) (pg tplPage) {
	defer func() {
		if r := recover(); r != nil {
			pg = tplPage{Err: fmt.Sprint("panic: ", r)}
		}
	}()
	_, cur, err := s.ctrl.RunQuery(s.ctx, "v1", id, rq, cfg)
	if err != nil {
		return tplPage{Err: err.Error(), Invalid: errors.Is(err, ledgercontroller.ErrQueryValidation{}) || errors.Is(err, common.ErrInvalidQuery{})}
	}
	return tplPage{Items: tplItems(cur.Data), PageSize: cur.PageSize, HasMore: cur.HasMore, Next: cur.Next}
}

func tplList[T any, O any](ctx context.Context, f func(context.Context, common.PaginatedQuery[O]) (*paginate.Cursor[T], error), q common.PaginatedQuery[O]) (pg tplPage) {
	defer func() {
		if r := recover(); r != nil {
			pg = tplPage{Err: fmt.Sprint("panic: ", r)}
		}
	}()
	cur, err := f(ctx, q)
	if err != nil {
		return tplPage{Err: err.Error(), Invalid: errors.Is(err, common.ErrInvalidQuery{})}
	}
	return tplPage{Items: tplItems(cur.Data), PageSize: cur.PageSize, HasMore: cur.HasMore, Next: cur.Next}
}

func tplLibTime(us *int64) *libtime.Time {
	if us == nil {
		return nil
	}
	return &libtime.Time{Time: time.UnixMicro(*us).UTC()}
}

// the direct list query: first page, then the whole chain through the List* cursors
func (s *tplStack) direct(res string, body *tplNode, p tplParams, max uint64) (first tplPage, all []string, pages int) {
	var b query.Builder
	if body != nil {
		var err error
		b, err = query.ParseJSON(body.json())
		if err != nil {
			return tplPage{Err: "direct filter does not parse: " + err.Error(), Invalid: true}, nil, 0
		}
	}
	ps := p.PageSize
	if ps > max {
		ps = max
	}
	var ord *paginate.Order
	switch p.Order {
	case "asc":
		ord = pointer.For(paginate.Order(paginate.OrderAsc))
	case "desc":
		ord = pointer.For(paginate.Order(paginate.OrderDesc))
	}
	if res == "volumes" {
		q := common.InitialPaginatedQuery[ledger.GetVolumesOptions]{Column: p.Column, Order: ord, PageSize: ps,
			Options: common.ResourceQuery[ledger.GetVolumesOptions]{PIT: tplLibTime(p.PIT), OOT: tplLibTime(p.OOT), Builder: b, Expand: p.Expand,
				Opts: ledger.GetVolumesOptions{UseInsertionDate: p.Ins, GroupLvl: int(p.Group)}}}
		return tplChain(s.ctx, s.ctrl.GetVolumesWithBalances, q)
	}
	q := common.InitialPaginatedQuery[any]{Column: p.Column, Order: ord, PageSize: ps,
		Options: common.ResourceQuery[any]{PIT: tplLibTime(p.PIT), OOT: tplLibTime(p.OOT), Builder: b, Expand: p.Expand}}
	switch res {
	case "transactions":
		return tplChain(s.ctx, s.ctrl.ListTransactions, q)
	case "accounts":
		return tplChain(s.ctx, s.ctrl.ListAccounts, q)
	}
	return tplChain(s.ctx, s.ctrl.ListLogs, q)
}

func tplChain[T any, O any](ctx context.Context, f func(context.Context, common.PaginatedQuery[O]) (*paginate.Cursor[T], error), q common.InitialPaginatedQuery[O]) (first tplPage, all []string, pages int) {
	first = tplList(ctx, f, common.PaginatedQuery[O](q))
	if first.Err != "" {
		return first, nil, 0
	}
	all = append(all, first.Items...)
	pages = 1
	cur := first
	for cur.HasMore && pages < tplMaxPages {
		nq, err := common.UnmarshalCursor[O](cur.Next)
		if err != nil {
			first.Err = "direct cursor: " + err.Error()
			return
		}
		cur = tplList(ctx, f, nq)
		if cur.Err != "" {
			first.Err = "direct next page: " + cur.Err
			return
		}
		all = append(all, cur.Items...)
		pages++
	}
	return
}

func tplEqStrs(a, b []string) bool {
	if len(a) != len(b) {
		return false
	}
	for i := range a {
		if a[i] != b[i] {
			return false
		}
	}
	return true
}

func tplShort(xs []string) string {
	s := fmt.Sprintf("%d items", len(xs))
	for i, x := range xs {
		if i >= 3 {
			break
		}
		if len(x) > 160 {
			x = x[:160] + "..."
		}
		s += " | " + x
	}
	return s
}

// newTplStack: history, then the schema with one query template "q" through the real controller
func newTplStack(ops []Op, gen func(exec func(Op) OpResult) []Op) (*tplStack, []Op, error) {
	hr := newHistRun(allOn, false)
	exec := func(o Op) OpResult {
		hr.St.PG.Clock = pgsem.TS(o.Now)
		return runOp(hr.ctx, hr.ctrl, o)
	}
	if gen != nil {
		ops = gen(exec)
	} else {
		for _, o := range ops {
			if exec(o).Panic != "" {
				break
			}
		}
	}
	last := tplBase
	if len(ops) > 0 {
		last = ops[len(ops)-1].Now
	}
	hr.St.PG.Clock = pgsem.TS(last + 1000000)
	return &tplStack{ctx: hr.ctx, ctrl: hr.ctrl, st: hr.St}, ops, nil
}

func (s *tplStack) insertTemplates(version string, tpls map[string]tplCase) error {
	qs := ledger.QueryTemplates{}
	for id, c := range tpls {
		qs[id] = ledger.QueryTemplate{Resource: queries.ResourceKind(c.Res), Params: c.TP.raw(), Vars: c.declMap(), Body: c.bodyRaw()}
	}
	_, _, _, err := s.ctrl.InsertSchema(s.ctx, ledgercontroller.Parameters[ledgercontroller.InsertSchema]{
		Input: ledgercontroller.InsertSchema{Version: version, Data: ledger.SchemaData{Chart: ledger.ChartOfAccounts{}, Queries: qs}}})
	return err
}

func tplRunCaseSx(ops []Op, c tplCase) string { return L("tplrun", histCaseSx(allOn, ops), c.sx()) }

// one case on a stack that already holds the history and the template under id
func (s *tplStack) check(out *Out, ops []Op, id string, c tplCase) {
	cs := tplRunCaseSx(ops, c)
	viol := func(msg string) { out.Violation("C37", cs, msg) }
	cfg := common.PaginationConfig{MaxPageSize: c.Max, DefaultPageSize: c.Def}
	out.Stats["cases"]++
	out.Stats["res_"+c.Res]++
	exp := tplExpected(c)
	line, _, _ := tplResolveLine(c)
	run := s.runQuery(id, common.RunQuery{Vars: c.varMap(), Params: c.RP.raw()}, cfg)
	// implementation line for the model: resolve/overwrite classes + the page size RunQuery answered with
	switch {
	case run.Err == "":
		out.Case(cs, L("tplrun", line, L("pagesize", fmt.Sprint(run.PageSize))))
	case strings.Contains(line, "(err "):
		out.Case(cs, L("tplrun", line, L("pagesize", "-")))
	default:
		out.Stats["store_rejected"]++ // no model line: the store's own validation is not part of Template.v
	}
	if strings.HasPrefix(run.Err, "panic") {
		// a panic of the store's filter translation is a defect of the list path itself (C20/C38); here only
		// "template = direct query" is judged: both must panic alike
		dfirst, _, _ := s.direct(c.Res, tplExpected(c).Body, tplMergeParams(c), c.Max)
		if dfirst.Err == run.Err {
			out.Stats["both_panic"]++
		} else {
			viol(fmt.Sprintf("[template-panics] RunQuery panicked: %s; the direct query: %q %s", run.Err, dfirst.Err, tplShort(dfirst.Items)))
		}
		return
	}
	// ---- rejection
	if exp.Reject != "" {
		out.Stats["expect_reject"]++
		if run.Err == "" {
			viol(fmt.Sprintf("[accepted-bad-binding] RunQuery answered %s although the binding is invalid (%s)", tplShort(run.Items), exp.Reject))
		} else if !run.Invalid {
			viol(fmt.Sprintf("[bad-binding-not-validation-error] invalid binding (%s) reported as a non-validation error: %s", exp.Reject, run.Err))
		}
		return
	}
	// params the caller expects (request overrides template field by field); an invalid request sort is a rejection
	fw := tplMergeParams(c)
	dfirst, dall, dpages := s.direct(c.Res, exp.Body, fw, c.Max)
	out.Stats[fmt.Sprintf("pages_%d", min(dpages, 6))]++
	if dfirst.Err != "" {
		out.Stats["direct_rejected"]++
		if os.Getenv("TPL_DEBUG") != "" {
			fmt.Fprintf(os.Stderr, "direct rejected: %s | run: %s | %s\n", dfirst.Err, run.Err, c.sx())
		}
		if run.Err == "" {
			// tags: known deviations that apply to this case (none of them can explain an accepted run today)
			tags := append([]string{}, exp.Devs...)
			viol(fmt.Sprintf("[template-accepted-direct-rejected] %s RunQuery answered %s but the direct query is rejected: %s", strings.Join(tags, " "), tplShort(run.Items), dfirst.Err))
		}
		return
	}
	report := func(what string) {
		// does the answer equal the direct query under the known deviations of the implementation?
		tags := append([]string{}, exp.Devs...)
		if len(tags) > 0 {
			kfirst, kall, _ := s.direct(c.Res, exp.DevBody, fw, c.Max)
			rall, rerr := s.follow(id, run, cfg)
			if kfirst.Err == "" && run.Err == "" && rerr == "" && tplEqStrs(kfirst.Items, run.Items) && kfirst.PageSize == run.PageSize && kfirst.HasMore == run.HasMore && tplEqStrs(kall, rall) {
				viol(fmt.Sprintf("%s %s; the answer equals the direct query with the known deviation applied (out-of-range integer rendered as -2^63)", strings.Join(tags, " "), what))
				return
			}
			if kfirst.Err != "" && run.Err != "" {
				viol(fmt.Sprintf("%s %s; the direct query with the known deviations is rejected as well: %s", strings.Join(tags, " "), what, kfirst.Err))
				return
			}
		}
		viol(what)
	}
	if run.Err != "" {
		report(fmt.Sprintf("[template-rejected] RunQuery failed: %s; the direct query answers %s", run.Err, tplShort(dfirst.Items)))
		return
	}
	if exp.NSubst > 0 && len(dall) > 0 {
		out.Stats["distinct_nontrivial"]++
	}
	switch {
	case run.PageSize != dfirst.PageSize:
		report(fmt.Sprintf("[page-size] RunQuery page size %d, direct query %d", run.PageSize, dfirst.PageSize))
		return
	case !tplEqStrs(run.Items, dfirst.Items):
		report(fmt.Sprintf("[first-page] RunQuery: %s --- direct query: %s", tplShort(run.Items), tplShort(dfirst.Items)))
		return
	case run.HasMore != dfirst.HasMore:
		report(fmt.Sprintf("[has-more] RunQuery hasMore=%v, direct query hasMore=%v", run.HasMore, dfirst.HasMore))
		return
	}
	rall, rerr := s.follow(id, run, cfg)
	if rerr != "" {
		report("[cursor] following the cursor returned by RunQuery failed: " + rerr)
		return
	}
	if !tplEqStrs(rall, dall) {
		report(fmt.Sprintf("[cursor] concatenated pages of RunQuery: %s --- direct query: %s", tplShort(rall), tplShort(dall)))
	}
}

func (s *tplStack) follow(id string, first tplPage, cfg common.PaginationConfig) (all []string, err string) {
	all = append(all, first.Items...)
	cur := first
	for n := 1; cur.HasMore && n < tplMaxPages; n++ {
		next := cur.Next
		pg := s.runQuery(id, common.RunQuery{Cursor: &next}, cfg)
		if pg.Err != "" {
			return all, pg.Err
		}
		if pg.PageSize != first.PageSize {
			return all, fmt.Sprintf("page size changed from %d to %d", first.PageSize, pg.PageSize)
		}
		all = append(all, pg.Items...)
		cur = pg
	}
	return all, ""
}

// deterministic witnesses (the former refutation witnesses of Props/C37.v, now regression cases, + the int overflow finding)
func tplWitnesses() []struct {
	ops []Op
	c   tplCase
} {
	mk := func(now int64, src, dst string, amt int64, meta []KV) Op {
		return Op{Kind: "create", Now: tplBase + now*1000000, Post: []Posting{{src, dst, "USD", big.NewInt(amt)}}, Meta: meta}
	}
	ops := []Op{mk(1, "world", "alice", 100, nil), mk(2, "world", "bob", 50, []KV{{"k1", "\xc3\xa9 z"}}), mk(3, "alice", "bob", 10, nil),
		mk(4, "world", "acct:9223372036854775808", 7, nil), mk(5, "world", "bank", 5, nil)}
	t2 := tplBase + 2*1000000 + 500000
	var out []struct {
		ops []Op
		c   tplCase
	}
	add := func(c tplCase) {
		c.Max, c.Def = 1000, 15
		out = append(out, struct {
			ops []Op
			c   tplCase
		}{ops, c})
	}
	// C37_overwrite_fieldwise: template endTime, request pageSize only -> the point in time must be kept (fix 05)
	add(tplCase{Res: "transactions", TP: &tplPJ{End: &t2}, RP: &tplPJ{PageSize: 5}})
	// C37_default_pagesize: a template object without pageSize keeps the configured default page size (here 3) (fix 05)
	c := tplCase{Res: "transactions", TP: &tplPJ{Sort: "timestamp:asc"}}
	out = append(out, struct {
		ops []Op
		c   tplCase
	}{ops, tplCase{Res: c.Res, TP: c.TP, Max: 1000, Def: 3}})
	// literal non-ASCII bytes of a string-typed filter value must arrive unchanged (fix 06)
	add(tplCase{Res: "transactions", Body: &tplNode{Kind: "leaf", Op: "match", Key: "metadata[k1]", Val: tplJV{A: tplAtom{K: "s", S: "\xc3\xa9 z"}}}})
	// an integral variable >= 2^63 interpolated into a string
	add(tplCase{Res: "accounts", Body: &tplNode{Kind: "leaf", Op: "match", Key: "address", Val: tplJV{A: tplAtom{K: "s", S: "acct:${n}"}}},
		Decls: []tplDecl{{Name: "n", Type: "int", Def: tplVal{K: "null"}}}, Vars: []tplBind{{"n", tplVal{K: "f", Z: new(big.Int).Lsh(big.NewInt(1), 63)}}}})
	return out
}

func cmdTemplates(args []string) int {
	f := ParseFlags(args)
	out := NewOut(f.Out)
	defer out.Close()
	mode := f.Extra["mode"]
	if mode == "" {
		mode = "resolve"
	}
	seen := map[string]bool{}
	oneC := func(c tplCase) {
		line, _, _ := tplResolveLine(c)
		out.Case(c.sx(), line)
		tplStatsC(out, c, line, seen)
	}
	oneD := func(ops []Op, c tplCase) {
		s, ops, _ := newTplStack(ops, nil)
		if err := s.insertTemplates("v1", map[string]tplCase{"q": c}); err != nil {
			out.Stats["cases"]++
			out.Stats["schema_rejected"]++
			out.Case(tplRunCaseSx(ops, c), L("schema_rejected", Q(err.Error())))
			return
		}
		s.check(out, ops, "q", c)
	}
	if f.Replay != "" {
		for _, line := range ReadLines(f.Replay) {
			sx, err := ParseSx(line)
			must(err)
			if sx.List[0].Atom == "tplrun" {
				_, ops := tplParseHistSx(sx.List[1])
				oneD(ops, tplParseCase(sx.List[2]))
			} else {
				oneC(tplParseCase(sx))
			}
		}
		return 0
	}
	r := NewRng(f.Seed)
	if mode == "resolve" {
		for i := 0; i < f.N; i++ {
			rr := r.Fork()
			c, g := tplGenTemplate(rr, Pick(rr, tplResources), rr.Chance(40))
			g.bindings(&c)
			c.RP = g.pjson(true)
			if rr.Chance(30) {
				c.Def = uint64(Pick(rr, []int{0, 3, 15, 50}))
				c.Max = uint64(Pick(rr, []int{2, 10, 1000}))
			}
			oneC(c)
		}
		return 0
	}
	// ---- stack mode
	for _, w := range tplWitnesses() {
		oneD(w.ops, w.c)
	}
	n := 0
	for n < f.N {
		rr := r.Fork()
		s, ops, _ := newTplStack(nil, func(exec func(Op) OpResult) []Op {
			return genHistory(rr, HistProfile{MaxOps: 12, Backdate: true, AdversarialKV: true}, allOn, exec)
		})
		// several templates per history, several bindings per template
		tpls := map[string]tplCase{}
		gens := map[string]*tplGen{}
		var ids []string
		for k := 0; k < 4; k++ {
			for try := 0; try < 20; try++ {
				c, g := tplGenTemplate(rr, tplResources[(k+n)%4], true)
				qt := ledger.QueryTemplate{Resource: queries.ResourceKind(c.Res), Params: c.TP.raw(), Vars: c.declMap(), Body: c.bodyRaw()}
				if qt.Validate() != nil {
					out.Stats["gen_invalid_template"]++
					continue
				}
				id := fmt.Sprintf("q%d", k)
				tpls[id], gens[id] = c, g
				ids = append(ids, id)
				break
			}
		}
		if err := s.insertTemplates("v1", tpls); err != nil {
			panic(fmt.Errorf("insert schema: %w", err))
		}
		for _, id := range ids {
			for b := 0; b < 3 && n < f.N; b++ {
				c := tpls[id]
				c.Vars = nil
				gens[id].bindings(&c)
				c.RP = gens[id].pjson(true)
				c.Def = uint64(Pick(rr, []int{15, 15, 3, 2}))
				c.Max = uint64(Pick(rr, []int{1000, 1000, 2, 10}))
				s.check(out, ops, id, c)
				n++
			}
		}
	}
	return 0
}

// tplParseHistSx: parseHistCase on an already parsed s-expression
func tplParseHistSx(sx *Sx) (Feat, []Op) { return parseHistCase(tplSxString(sx)) }
func tplSxString(x *Sx) string {
	if x.IsLst {
		xs := make([]string, len(x.List))
		for i, y := range x.List {
			xs[i] = tplSxString(y)
		}
		return L(xs...)
	}
	if x.Str {
		return Q(x.Atom)
	}
	return x.Atom
}
